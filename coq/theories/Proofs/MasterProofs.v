(* Master: the directory area of a plain ISO9660 image, written (Master.master, the model of
   PyCdlib._write_directory_records after _reshuffle_extents) and read back by an independent reader
   (Master.read), for EVERY well-formed tree: no bound on the number of files or directories; the
   depth bound 7 is the library's own.

   Main results (closed under the global context, see the end of the file)
     read_master            the reader recovers exactly the namespace that was mastered
     read_master_frame      ... also from any larger medium whose other chunks do not overlap them
     master_dirs_disjoint   directory extents do not overlap and lie in [first_dir_extent, dir end)
     master_chunks          the written extents are exactly the directories of the tree, once each
     master_dot_dotdot      every directory starts with '.' = itself, then '..' = the directory above
                            (extent and data_length; the root's '..' is the root)
   Helper files: MasterPack (one extent), MasterImage (block reads), MasterBfs (the walk),
   MasterWf (well-formedness), MasterDir (chunks). *)
From Coq Require Import ZArith List Bool Lia ZifyBool.
From PV.Base Require Import Prim ListX.
From PV.Gen Require Import GenConst GenFun.
From PV.Model Require Import Codec Pack PathTable Master.
From PV.Proofs Require Import CodecProofs PackProofs PathTableLemmas PathTableProofs.
From PV.Proofs Require Import MasterPack MasterImage MasterBfs MasterWf MasterDir.
Import ListNotations.
Local Open Scope Z_scope.

(* the children part of Master.ms_view, as a function of its own *)
Fixpoint ms_view_kids (DB FB : list dirrec) (p : list nat) (j : nat) (l : list node) : list rnode :=
  match l with
  | [] => []
  | c :: r => ms_view DB FB (p ++ [j]) c :: ms_view_kids DB FB p (S j) r
  end.

Lemma ms_view_dir DB FB p nm dl kids :
  ms_view DB FB p (Dir nm dl kids) = RDir nm (ms_ext_at DB p) dl (ms_view_kids DB FB p 0 kids).
Proof.
  cbn [ms_view]. f_equal. generalize 0%nat. induction kids as [|c r IH]; intros j; [reflexivity|].
  cbn [ms_view_kids]. rewrite <- IH. reflexivity.
Qed.

Lemma ms_height_kid nm dl kids j c : nth_error kids j = Some c ->
  (S (ms_height c) <= ms_height (Dir nm dl kids))%nat.
Proof.
  cbn [ms_height]. revert j. induction kids as [|k kids IH]; intros [|j] H; cbn [nth_error] in H;
    try discriminate; cbn [fold_right].
  - injection H as <-. lia.
  - specialize (IH j H). lia.
Qed.

Section Read.
  Variable dt : list Z.
  Hypothesis Hdt : length dt = 7%nat.
  Variable t : node.
  Hypothesis Hwf : wf_tree t = true.

  Local Notation DB := (ms_DB t).
  Local Notation FB := (ms_FB t).
  Local Notation img := (map (ms_chunk dt t DB FB) (ms_dir_positions t)).

  (* the medium: any image that contains the written directory extents and has no overlapping chunks *)
  Variable img' : image.
  Hypothesis Hok : ms_img_ok img'.
  Hypothesis Hincl : incl img img'.

  (* the records of the children, read back with a reader [rd] that is right on every child directory *)
  Lemma ms_read_kids_ok rd p nm dl kids : ms_node_at t p = Some (Dir nm dl kids) ->
    (forall j n d ks, nth_error kids j = Some (Dir n d ks) ->
       rd (ms_ext_at DB (p ++ [j])) d = Some (ms_view_kids DB FB (p ++ [j]) 0 ks)) ->
    forall kids' j0, (forall i c, nth_error kids' i = Some c -> nth_error kids (j0 + i) = Some c) ->
    ms_read_kids rd (ms_kid_recs dt DB FB p j0 kids') = Some (ms_view_kids DB FB p j0 kids').
  Proof.
    intros Hp Hrd. induction kids' as [|c kids' IH]; intros j0 Hsub; [reflexivity|].
    cbn [ms_kid_recs ms_read_kids ms_view_kids].
    rewrite (IH (S j0)).
    2:{ intros i c' Hi. specialize (Hsub (S i) c' Hi).
        replace (S j0 + i)%nat with (j0 + S i)%nat by lia. exact Hsub. }
    specialize (Hsub 0%nat c eq_refl). rewrite Nat.add_0_r in Hsub.
    destruct c as [n len|n d ks]; cbn [ms_kid_rec ms_view].
    - unfold ms_rec_is_dir, ms_rec. cbn [flags Codec.ident extent data_len].
      change (flag_set 0 1) with false. cbv iota. reflexivity.
    - unfold ms_rec_is_dir, ms_rec. cbn [flags Codec.ident extent data_len].
      change (flag_set 2 1) with true. cbv iota.
      rewrite (Hrd j0 n d ks Hsub), <- ms_view_dir. reflexivity.
  Qed.

  Lemma ms_read_dir_ok : forall fuel p nm dl kids, ms_node_at t p = Some (Dir nm dl kids) ->
    (ms_height (Dir nm dl kids) <= fuel)%nat ->
    ms_read_dir fuel img' (ms_ext_at DB p) dl = Some (ms_view_kids DB FB p 0 kids).
  Proof.
    induction fuel as [|f IH]; intros p nm dl kids Hp Hh; [cbn [ms_height] in Hh; lia|].
    cbn [ms_read_dir]. rewrite (ms_master_read_in dt Hdt t Hwf img' p nm dl kids Hok Hincl Hp).
    destruct (ms_chunk_facts dt Hdt t Hwf p nm dl kids Hp) as (_ & _ & _ & _ & _ & Hscan).
    rewrite Hscan, (ms_dir_recs_eq dt t p nm dl kids Hp). cbn [skipn].
    apply (ms_read_kids_ok (ms_read_dir f img') p nm dl kids Hp); [|intros i c Hi; exact Hi].
    intros j n d ks Hj. apply (IH (p ++ [j]) n d ks).
    - rewrite (ms_node_at_snoc p j t _ Hp). exact Hj.
    - pose proof (ms_height_kid nm dl kids j _ Hj). lia.
  Qed.

  Lemma ms_root_extent : ms_ext_at DB [] = first_dir_extent t.
  Proof.
    destruct (ms_wf_root t Hwf) as (dl & kids & E & _). unfold ms_ext_at, ms_DB. rewrite E.
    cbn [ms_dtree]. rewrite bfs_unfold. reflexivity.
  Qed.

  Theorem ms_read_master :
    master dt t = Some img /\
    read (fuel_for t) img' (root_extent t) (root_len t) = Some (view t).
  Proof.
    split; [apply ms_master_some; assumption|].
    destruct (ms_wf_root t Hwf) as (dl & kids & E & _).
    assert (Hp : ms_node_at t [] = Some (Dir [0] dl kids)) by (rewrite E; reflexivity).
    unfold read, root_extent, root_len, fuel_for, view, ms_dlen_at. rewrite Hp, <- ms_root_extent.
    rewrite (ms_read_dir_ok (ms_height t) [] [0] dl kids Hp) by (rewrite E; apply le_n).
    replace (ms_view DB FB [] t) with (ms_view DB FB [] (Dir [0] dl kids)) by (rewrite <- E; reflexivity).
    rewrite ms_view_dir. reflexivity.
  Qed.
End Read.

(* ---- THEOREM 1 ------------------------------------------------------------------------------------ *)
Theorem read_master dt t : length dt = 7%nat -> wf_tree t = true ->
  exists img, master dt t = Some img /\
              read (fuel_for t) img (root_extent t) (root_len t) = Some (view t).
Proof.
  intros Hdt Hwf. eexists.
  exact (ms_read_master dt Hdt t Hwf _ (ms_master_img_ok dt Hdt t Hwf) (incl_refl _)).
Qed.

(* ... and from any medium that contains these extents among non-overlapping others *)
Theorem read_master_frame dt t img img' : length dt = 7%nat -> wf_tree t = true ->
  master dt t = Some img -> ms_img_ok img' -> incl img img' ->
  read (fuel_for t) img' (root_extent t) (root_len t) = Some (view t).
Proof.
  intros Hdt Hwf Hm Hok Hincl. rewrite (ms_master_some dt Hdt t Hwf) in Hm. injection Hm as <-.
  exact (proj2 (ms_read_master dt Hdt t Hwf img' Hok Hincl)).
Qed.

(* ---- the written extents are exactly the directories ------------------------------------------------ *)
Theorem master_chunks dt t img : length dt = 7%nat -> wf_tree t = true -> master dt t = Some img ->
  img = map (ms_chunk dt t (ms_DB t) (ms_FB t)) (ms_dir_positions t) /\
  NoDup (ms_dir_positions t) /\
  (forall p, In p (ms_dir_positions t) <-> ms_is_dir_at t p = true).
Proof.
  intros Hdt Hwf Hm. rewrite (ms_master_some dt Hdt t Hwf) in Hm. injection Hm as <-.
  split; [reflexivity|]. split; [apply ms_positions_nodup|].
  intros p. split; [apply ms_positions_dir|apply ms_positions_complete; assumption].
Qed.

(* ---- THEOREM 2 ------------------------------------------------------------------------------------ *)
Theorem master_dirs_disjoint dt t img : length dt = 7%nat -> wf_tree t = true ->
  master dt t = Some img ->
  (forall i j a b, i <> j -> nth_error img i = Some a -> nth_error img j = Some b ->
     fst a + ms_cblocks a <= fst b \/ fst b + ms_cblocks b <= fst a) /\
  (forall c, In c img ->
     first_dir_extent t <= fst c /\
     fst c + ms_cblocks c <= assign_end (first_dir_extent t) (ms_dtree t) /\
     0 < ms_cblocks c /\ zlen (snd c) = ms_cblocks c * BS).
Proof.
  intros Hdt Hwf Hm. destruct (master_chunks dt t img Hdt Hwf Hm) as (-> & Hnd & Hiff). split.
  - intros i j a b Hij Ha Hb. rewrite nth_error_map in Ha, Hb.
    destruct (nth_error (ms_dir_positions t) i) as [p1|] eqn:E1; [|discriminate].
    destruct (nth_error (ms_dir_positions t) j) as [p2|] eqn:E2; [|discriminate].
    injection Ha as <-. injection Hb as <-.
    apply (ms_chunks_disjoint dt Hdt t Hwf).
    + apply Hiff. eapply nth_error_In. exact E1.
    + apply Hiff. eapply nth_error_In. exact E2.
    + intros ->. apply Hij. rewrite NoDup_nth_error in Hnd. apply Hnd.
      * apply nth_error_Some. congruence.
      * congruence.
  - intros c Hc. apply in_map_iff in Hc. destruct Hc as (p & <- & Hp). apply Hiff in Hp.
    destruct (ms_is_dir_node t p Hp) as (nm & dl & kids & Hn).
    destruct (ms_chunk_facts dt Hdt t Hwf p nm dl kids Hn) as (F & L & M & G & Cb & _).
    destruct (ms_dext_range t Hwf p nm dl kids Hn) as (R1 & R2 & _).
    rewrite F, Cb, L. unfold ms_dir_end in R2. unfold ceiling_div. rewrite ms_BS in *.
    Ltac Zify.zify_post_hook ::= Z.to_euclidean_division_equations.
    repeat split; lia.
Qed.

(* ---- THEOREM 3 ------------------------------------------------------------------------------------ *)
(* in the extent of the directory at position p the first record is '.', with the extent and length of
   that very extent; the second is '..', with the extent and length of the extent written for the
   directory above (removelast p; the root itself for the root), which is a chunk of the image too *)
Theorem master_dot_dotdot dt t img : length dt = 7%nat -> wf_tree t = true ->
  master dt t = Some img ->
  forall p, ms_is_dir_at t p = true ->
  exists bytes r1 rest1 r2 rest2 pbytes,
    In (ms_ext_at (ms_DB t) p, bytes) img /\ zlen bytes = ms_dlen_at t p /\
    dec_dr bytes = Some (r1, rest1) /\ dec_dr rest1 = Some (r2, rest2) /\
    Codec.ident r1 = [0] /\ flags r1 = 2 /\
    extent r1 = ms_ext_at (ms_DB t) p /\ data_len r1 = zlen bytes /\
    Codec.ident r2 = [1] /\ flags r2 = 2 /\
    ms_is_dir_at t (removelast p) = true /\
    In (extent r2, pbytes) img /\ data_len r2 = zlen pbytes /\
    extent r2 = ms_ext_at (ms_DB t) (removelast p) /\ data_len r2 = ms_dlen_at t (removelast p).
Proof.
  intros Hdt Hwf Hm p Hp. destruct (master_chunks dt t img Hdt Hwf Hm) as (-> & _ & Hiff).
  destruct (ms_is_dir_node t p Hp) as (nm & dl & kids & Hn).
  destruct (ms_parent_facts t Hwf p _ Hn) as (nm' & dl' & kids' & Hpar & Hdl').
  assert (Hpd : ms_is_dir_at t (removelast p) = true) by (unfold ms_is_dir_at; rewrite Hpar; reflexivity).
  destruct (ms_chunk_facts dt Hdt t Hwf p nm dl kids Hn) as (F & L & _).
  destruct (ms_chunk_facts dt Hdt t Hwf _ nm' dl' kids' Hpar) as (F' & L' & _).
  destruct (ms_dir_recs_good dt Hdt t Hwf p nm dl kids Hn) as (HG & HL & _).
  rewrite (ms_dir_recs_eq dt t p nm dl kids Hn) in HG, HL. rewrite Hdl' in HG, HL.
  set (d1 := ms_rec dt (ms_ext_at (ms_DB t) p) dl 2 [0]) in *.
  set (d2 := ms_rec dt (ms_ext_at (ms_DB t) (removelast p)) dl' 2 [1]) in *.
  cbn [map] in HG, HL. inversion HG as [|x1 y1 l1 l1' G1 HG' Ex Ey]. clear Ex Ey.
  inversion HG' as [|x2 y2 l2 l2' G2 HG'' Ex Ey]. clear Ex Ey HG''.
  injection HL as L1 L2 _.
  set (ch := ms_chunk dt t (ms_DB t) (ms_FB t)) in *.
  assert (Hbytes : snd (ch p) = ms_enc d1 ++ ms_enc d2 ++
            (ms_pack 68 (map ms_enc (ms_kid_recs dt (ms_DB t) (ms_FB t) p 0 kids))
             ++ repeat 0 (Z.to_nat (dl - zlen (ms_pack 0 (map ms_enc (ms_dir_recs dt t (ms_DB t) (ms_FB t) p))))))).
  { unfold ch, ms_chunk. cbn [snd]. unfold ms_dlen_at. rewrite Hn. unfold ms_dir_bytes. cbv zeta.
    rewrite (ms_dir_recs_eq dt t p nm dl kids Hn), Hdl'. fold d1 d2. cbn [map ms_pack].
    rewrite L1. change (0 + 34 >? BS) with false. cbv iota.
    rewrite L2. change (0 + 34 + 34 >? BS) with false. cbv iota.
    rewrite <- !app_assoc. reflexivity. }
  exists (snd (ch p)), d1, (skipn (Z.to_nat 34) (snd (ch p))), d2,
         (skipn (Z.to_nat 34) (skipn (Z.to_nat 34) (snd (ch p)))), (snd (ch (removelast p))).
  assert (Hlen1 : length (ms_enc d1) = Z.to_nat 34) by (unfold zlen in L1; lia).
  assert (Hlen2 : length (ms_enc d2) = Z.to_nat 34) by (unfold zlen in L2; lia).
  assert (Hs1 : skipn (Z.to_nat 34) (snd (ch p)) = ms_enc d2 ++
            (ms_pack 68 (map ms_enc (ms_kid_recs dt (ms_DB t) (ms_FB t) p 0 kids))
             ++ repeat 0 (Z.to_nat (dl - zlen (ms_pack 0 (map ms_enc (ms_dir_recs dt t (ms_DB t) (ms_FB t) p))))))).
  { rewrite Hbytes. apply skipn_app_exact. exact Hlen1. }
  split. { rewrite <- F, <- surjective_pairing. apply in_map. apply Hiff. exact Hp. }
  split. { rewrite L. unfold ms_dlen_at. rewrite Hn. reflexivity. }
  split. { rewrite Hs1. rewrite Hbytes at 1. apply (proj1 G1). }
  split. { rewrite Hs1. rewrite (skipn_app_exact _ _ _ Hlen2). apply (proj1 G2). }
  split; [reflexivity|]. split; [reflexivity|]. split; [reflexivity|].
  split. { rewrite L. reflexivity. }
  split; [reflexivity|]. split; [reflexivity|]. split; [exact Hpd|].
  split. { unfold d2, ms_rec. cbn [extent]. rewrite <- F', <- surjective_pairing. apply in_map.
           apply Hiff. exact Hpd. }
  split. { rewrite L'. reflexivity. }
  split; [reflexivity|]. rewrite Hdl'. reflexivity.
Qed.

Print Assumptions read_master.
Print Assumptions read_master_frame.
Print Assumptions master_chunks.
Print Assumptions master_dirs_disjoint.
Print Assumptions master_dot_dotdot.
