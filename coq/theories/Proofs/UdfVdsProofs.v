(* Proofs about Model/UdfVds.v, part 1: the generic "tag + 496-byte body" argument, the nested
   structures (UDFExtentAD, UDFEntityID, UDFCharspec, UDFTimestamp, short/long AD), the Volume
   Recognition Sequence, the Anchor, the Terminating and the Unallocated Space descriptors.
   (PVD / Implementation Use / Partition / File Set: UdfVdsDescProofs.v; Logical Volume / Integrity /
   counters / examples: UdfVdsLvProofs.v.)

   Main results
     desc_sound            any descriptor whose body satisfies [body_spec]: record() is 512 bytes, passes
                           the independent verify_tag, and parse(record() ++ rest, ext) returns the
                           attributes with tag_location = ext, desc_crc_length = the recorded one
     desc_roundtrip_exact  parse(record d ++ rest, tag_location) = d when desc_crc_length = 496
     desc_record_verifies_refuted   a tag whose desc_crc_length exceeds 496 records a descriptor that the
                           verifier (and tag_parse) rejects
     bea/tea/nsr_roundtrip, vrs_record_length
     extad_rt entity_rt charspec_rt ts_rt (ts_tz_sweep: all 4096 x 16 (tz, timetype) pairs)
     anchor_sound anchor_designates td_sound usd_sound
   All closed under the global context. *)
From Coq Require Import ZArith List Bool Lia ZifyBool.
From PV.Base Require Import Prim ListX Sweep.
From PV.Gen Require Import GenConst GenFun.
From PV.Model Require Import Codec Checksums Udf UdfVds.
From PV.Proofs Require Import ChecksumsProofs ChecksumsArithProofs CodecProofs UdfProofs UdfFeProofs.
Import ListNotations.
Local Open Scope Z_scope.
Ltac Zify.zify_post_hook ::= Z.to_euclidean_division_equations.

(* ---- generic helpers ---- *)
Lemma zbytes_concat fs : Forall zbytes fs -> zbytes (concat fs).
Proof. induction 1; cbn [concat]; [constructor|apply zbytes_app; assumption]. Qed.
Lemma zbytes_zeros n : zbytes (zeros n).
Proof. apply zbytes_repeat0. Qed.
Lemma zbytes_pack n l : zbytes l -> zbytes (pack_s n l).
Proof. apply zbytes_pack_s. Qed.
Lemma zbytes_le64' v : zbytes (le64 v).
Proof. apply zbytes_le64. Qed.
Lemma zlist_eqb_refl l : zlist_eqb l l = true.
Proof. induction l as [|x l IH]; cbn [zlist_eqb]; [reflexivity|rewrite Z.eqb_refl; exact IH]. Qed.
Lemma zlist_eqb_eq a : forall b, zlist_eqb a b = true -> a = b.
Proof.
  induction a as [|x a IH]; intros [|y b] H; cbn [zlist_eqb] in H; try discriminate; [reflexivity|].
  apply andb_prop in H. destruct H as [H1 H2]. f_equal; [lia|apply IH; exact H2].
Qed.
Lemma body_of_inv ok fs b : body_of ok fs = Some b -> ok = true /\ b = concat fs.
Proof. unfold body_of. destruct ok; [|discriminate]. intros H. apply some_inv in H. auto. Qed.
Lemma tagged_split h fs rest ws : length h = 16%nat -> map (@length Z) fs = ws ->
  split_widths (16%nat :: ws) (h ++ concat fs ++ rest) = Some (h :: fs, rest).
Proof.
  intros Hh <-. rewrite <- Hh. change (length h :: map (@length Z) fs) with (map (@length Z) (h :: fs)).
  rewrite app_assoc. change (h ++ concat fs) with (concat (h :: fs)). apply split_concat.
Qed.
Lemma fields_zlen fs ws n : map (@length Z) fs = ws -> Z.of_nat (fold_right plus 0%nat ws) = n ->
  zlen (concat fs) = n.
Proof. intros <- <-. unfold zlen. rewrite length_concat. reflexivity. Qed.
#[export] Hint Resolve zbytes_le16 zbytes_le32 zbytes_le64' zbytes_zeros zbytes_pack zbytes_app : zb.
Ltac zb_fields := repeat (apply Forall_cons; [solve [auto with zb]|]); apply Forall_nil.
Ltac rng := unfold u32, u16; lia.
(* discharge the "raise" tests of a parse: every guard is false under the hypotheses *)
Ltac kill_ifs :=
  repeat match goal with |- context [if ?c then None else _] => replace c with false by lia end.

(* ---- the generic descriptor argument ---- *)
Definition retag (t : utag) (ext n : Z) : utag := mk_utag (tg_ident t) (tg_version t) (tg_serial t) ext n.
(* the DescriptorCRCLength record() writes for a 496-byte body *)
Definition crclen_rec (t : utag) : Z := if 0 <=? tg_crclen t then tg_crclen t else 496.
Definition tag_wf (ident : Z) (t : utag) : Prop :=
  tg_ident t = ident /\ (tg_version t = 2 \/ tg_version t = 3) /\ (tg_crclen t < 0 \/ tg_crclen t <= 496).
Definition body_spec {P} (wf : P -> Prop) (body : P -> option (list Z)) (pb : list Z -> option P) : Prop :=
  forall p b, wf p -> body p = Some b ->
    zbytes b /\ zlen b = 496 /\ forall h rest, length h = 16%nat -> pb (h ++ b ++ rest) = Some p.

Theorem desc_sound {P} ident (wf : P -> Prop) body pb : body_spec wf body pb ->
  forall t p r, wf p -> desc_record t (body p) = Some r -> tag_wf ident t ->
    length r = 512%nat /\ verify_tag r = true /\
    forall rest ext, desc_parse ident pb (r ++ rest) ext = Some (retag t ext (crclen_rec t), p).
Proof.
  intros Hspec t p r Hwf Hrec (Hid & Hv & Hc). subst ident. unfold desc_record in Hrec.
  destruct (body p) as [b|] eqn:Hb; [|discriminate].
  destruct (tag_record t b) as [h|] eqn:Ht; [|discriminate]. apply some_inv in Hrec. subst r.
  destruct (Hspec p b Hwf Hb) as (Hzb & Hlen & Hpb).
  pose proof (tag_record_length _ _ _ Ht) as Hh.
  assert (Hfit : tag_crclen_fits t b) by (unfold tag_crclen_fits; lia).
  split; [rewrite app_length, Hh; unfold zlen in Hlen; lia|].
  split; [exact (tag_record_verifies_partial t b h Hzb Ht Hfit)|].
  intros rest ext. unfold desc_parse. rewrite <- app_assoc.
  rewrite (tag_roundtrip t b h rest ext Ht Hv Hfit). cbn [tg_ident]. rewrite Z.eqb_refl. cbn [negb].
  rewrite (Hpb h rest Hh). unfold retag, crclen_rec, tag_crc_byte_len. rewrite Hlen. reflexivity.
Qed.

Corollary desc_roundtrip_exact {P} ident (wf : P -> Prop) body pb : body_spec wf body pb ->
  forall t p r rest, wf p -> desc_record t (body p) = Some r -> tag_wf ident t -> tg_crclen t = 496 ->
    desc_parse ident pb (r ++ rest) (tg_location t) = Some (t, p).
Proof.
  intros Hspec t p r rest Hwf Hrec Htw Hc.
  destruct (desc_sound ident wf body pb Hspec t p r Hwf Hrec Htw) as (_ & _ & H). rewrite H.
  unfold retag, crclen_rec. rewrite Hc. destruct t; cbn in *; subst; reflexivity.
Qed.

(* a tag parsed from a descriptor whose CRC covered more than 496 bytes (allowed by tag_parse, which is
   given everything up to the end of the sequence) re-records a descriptor that no reader accepts *)
Theorem desc_record_verifies_refuted :
  exists (t : utag) r, tg_ident t = 2 /\ tg_version t = 2 /\ anchor_record (t, snd anchor_new) = Some r /\
    length r = 512%nat /\ verify_tag (r ++ zeros 1536) = false /\ anchor_parse (r ++ zeros 1536) 256 = None.
Proof.
  exists (mk_utag 2 2 0 256 600). eexists.
  split; [reflexivity|]. split; [reflexivity|]. split; [vm_compute; reflexivity|].
  split; [reflexivity|]. split; vm_compute; reflexivity.
Qed.

(* ---- Volume Recognition Sequence ---- *)
Theorem vrs_record_length ident : length (vrs_record ident) = 2048%nat.
Proof. unfold vrs_record. rewrite length_concat. cbn [vrs_fields map]. rewrite pack_s_length. reflexivity. Qed.
Lemma vrs_parse_record ident rest : length ident = 5%nat -> vrs_parse (vrs_record ident ++ rest) = Some ident.
Proof.
  intros H. unfold vrs_parse, vrs_record.
  replace (widths fmt_udf_vrs_widths) with (map (@length Z) (vrs_fields ident))
    by (cbn [vrs_fields map]; rewrite pack_s_length; reflexivity).
  rewrite split_concat. cbn [vrs_fields]. rewrite pack_s_exact by exact H. reflexivity.
Qed.
Theorem bea_roundtrip rest : length bea_record = 2048%nat /\ bea_parse (bea_record ++ rest) = Some bea_ident.
Proof.
  split; [apply vrs_record_length|]. unfold bea_parse, bea_record, vrs_parse_ident.
  rewrite vrs_parse_record by reflexivity. reflexivity.
Qed.
Theorem tea_roundtrip rest : length tea_record = 2048%nat /\ tea_parse (tea_record ++ rest) = Some tea_ident.
Proof.
  split; [apply vrs_record_length|]. unfold tea_parse, tea_record, vrs_parse_ident.
  rewrite vrs_parse_record by reflexivity. reflexivity.
Qed.
Theorem nsr_roundtrip version ident rest : nsr_new version = Some ident ->
  length (nsr_record ident) = 2048%nat /\ nsr_parse (nsr_record ident ++ rest) = Some ident.
Proof.
  intros H. split; [apply vrs_record_length|]. unfold nsr_new in H.
  destruct (version =? 2); [|destruct (version =? 3); [|discriminate]]; apply some_inv in H; subst ident;
    unfold nsr_parse, nsr_record, vrs_parse_ident; rewrite vrs_parse_record by reflexivity; reflexivity.
Qed.
(* what the parsers accept *)
Theorem vrs_parse_ident_ok ok data id : vrs_parse_ident ok data = Some id -> ok id = true.
Proof.
  unfold vrs_parse_ident. destruct (vrs_parse data) as [i|]; [|discriminate].
  destruct (ok i) eqn:Eo; [|discriminate]. intros H. apply some_inv in H. subst i. exact Eo.
Qed.
Corollary nsr_parse_ident data id : nsr_parse data = Some id -> id = nsr02_ident \/ id = nsr03_ident.
Proof.
  intros H. apply vrs_parse_ident_ok in H. apply orb_prop in H.
  destruct H as [H|H]; apply zlist_eqb_eq in H; auto.
Qed.

(* ---- UDFExtentAD ---- *)
Definition extad_wf (a : extent_ad) : Prop := 0 <= ea_length a < 1073741823 /\ u32 (ea_location a).
Lemma extad_len a : length (extad_bytes a) = 8%nat. Proof. reflexivity. Qed.
Lemma extad_zb a : zbytes (extad_bytes a).
Proof. unfold extad_bytes. auto with zb. Qed.
Lemma extad_rt a rest : extad_wf a -> extad_parse (extad_bytes a ++ rest) = Some a.
Proof.
  intros [Hl Hp]. unfold extad_parse, extad_bytes.
  change (le32 (ea_length a) ++ le32 (ea_location a)) with (concat [le32 (ea_length a); le32 (ea_location a)]).
  change [4; 4]%nat with (map (@length Z) [le32 (ea_length a); le32 (ea_location a)]).
  rewrite split_concat, !le32_dle32 by (unfold u32 in *; lia). kill_ifs. destruct a; reflexivity.
Qed.
Lemma extad_rt0 a : extad_wf a -> extad_parse (extad_bytes a) = Some a.
Proof. intros H. rewrite <- (app_nil_r (extad_bytes a)). apply extad_rt. exact H. Qed.
Lemma extad_wf_ok a : extad_wf a -> extad_ok a = true.
Proof. unfold extad_wf, extad_ok, u32, u32_ok. lia. Qed.

(* ---- UDFEntityID ---- *)
Definition entity_wf (e : entity) : Prop :=
  0 <= en_flags e <= 3 /\ length (en_ident e) = 23%nat /\ length (en_suffix e) = 8%nat /\
  zbytes (en_ident e) /\ zbytes (en_suffix e).
Lemma entity_len e : length (entity_bytes e) = 32%nat.
Proof. unfold entity_bytes. rewrite !app_length, !pack_s_length. reflexivity. Qed.
Lemma entity_zb e : entity_wf e -> zbytes (entity_bytes e).
Proof. intros (H & _ & _ & B1 & B2). unfold entity_bytes.
  apply zbytes_app; [apply zbytes_one; lia|apply zbytes_app; auto with zb].
Qed.
Lemma entity_rt e : entity_wf e -> entity_parse (entity_bytes e) = Some e.
Proof.
  intros (H & L1 & L2 & _). unfold entity_parse, entity_bytes. rewrite !pack_s_exact by assumption.
  replace ([en_flags e] ++ en_ident e ++ en_suffix e) with (concat [[en_flags e]; en_ident e; en_suffix e])
    by (cbn [concat]; rewrite app_nil_r; reflexivity).
  replace [1; 23; 8]%nat with (map (@length Z) [[en_flags e]; en_ident e; en_suffix e]) by (cbn [map length]; congruence).
  rewrite split_concat_nil. unfold d8. cbn [nth]. kill_ifs. destruct e; reflexivity.
Qed.

(* ---- UDFCharspec ---- *)
Definition charspec_wf (c : charspec) : Prop := 0 <= cs_type c <= 8 /\ length (cs_info c) = 63%nat /\ zbytes (cs_info c).
Lemma charspec_len c : length (charspec_bytes c) = 64%nat.
Proof. unfold charspec_bytes. rewrite app_length, pack_s_length. reflexivity. Qed.
Lemma charspec_zb c : charspec_wf c -> zbytes (charspec_bytes c).
Proof. intros (H & _ & B). unfold charspec_bytes. apply zbytes_app; [apply zbytes_one; lia|auto with zb]. Qed.
Lemma charspec_rt c : charspec_wf c -> charspec_parse (charspec_bytes c) = Some c.
Proof.
  intros (H & L & _). unfold charspec_parse, charspec_bytes. rewrite pack_s_exact by exact L.
  replace [1; 63]%nat with (map (@length Z) [[cs_type c]; cs_info c]) by (cbn [map length]; congruence).
  replace ([cs_type c] ++ cs_info c) with (concat [[cs_type c]; cs_info c]) by (cbn [concat]; rewrite app_nil_r; reflexivity).
  rewrite split_concat_nil. unfold d8. cbn [nth]. kill_ifs. destruct c; reflexivity.
Qed.

(* ---- UDFTimestamp ---- *)
Definition ts_wf (t : tstamp) : Prop :=
  (-1440 <= ts_tz t <= 1440 \/ ts_tz t = -2047) /\ 0 <= ts_timetype t <= 15 /\ 1 <= ts_year t <= 9999 /\
  1 <= ts_month t <= 12 /\ 1 <= ts_day t <= 31 /\ 0 <= ts_hour t <= 23 /\ 0 <= ts_minute t <= 59 /\
  0 <= ts_second t <= 59 /\ 0 <= ts_centi t <= 255 /\ 0 <= ts_hundreds t <= 255 /\ 0 <= ts_micro t <= 255.
(* every 12-bit timezone and 4-bit type survives the (newtz, newtimetype) packing: exhaustive *)
Definition ts_tz_chk (a tt : Z) : bool :=
  let tz := a - 2048 in
  (ts_dec_tz (ts_newtz tz) (ts_newtimetype tz tt) =? tz) && (Z.shiftr (ts_newtimetype tz tt) 4 =? tt) &&
  (0 <=? ts_newtz tz) && (ts_newtz tz <=? 255) && (0 <=? ts_newtimetype tz tt) && (ts_newtimetype tz tt <=? 255).
Lemma ts_tz_sweep : sweep2 ts_tz_chk 4096 16 = true.
Proof. vm_compute. reflexivity. Qed.
Lemma ts_tz_rt tz tt : -2048 <= tz < 2048 -> 0 <= tt < 16 ->
  ts_dec_tz (ts_newtz tz) (ts_newtimetype tz tt) = tz /\ Z.shiftr (ts_newtimetype tz tt) 4 = tt /\
  0 <= ts_newtz tz <= 255 /\ 0 <= ts_newtimetype tz tt <= 255.
Proof.
  intros H1 H2. pose proof (sweep2_sound _ _ _ ts_tz_sweep (tz + 2048) tt ltac:(lia) ltac:(lia)) as H.
  unfold ts_tz_chk in H. cbv zeta in H. replace (tz + 2048 - 2048) with tz in H by lia. lia.
Qed.
Lemma ts_len t : length (ts_bytes t) = 12%nat. Proof. reflexivity. Qed.
Lemma ts_zb t : ts_wf t -> zbytes (ts_bytes t).
Proof.
  intros (Hz & Ht & Hy & H1 & H2 & H3 & H4 & H5 & H6 & H7 & H8).
  destruct (ts_tz_rt (ts_tz t) (ts_timetype t)) as (_ & _ & R1 & R2); [lia|lia|].
  apply zbytes_concat. cbn [ts_fields]. repeat (apply Forall_cons; [first [apply zbytes_le16|apply zbytes_one; lia]|]).
  apply Forall_nil.
Qed.
Lemma ts_wf_ok t : ts_wf t -> ts_ok t = true.
Proof.
  intros (Hz & Ht & Hy & H1 & H2 & H3 & H4 & H5 & H6 & H7 & H8).
  destruct (ts_tz_rt (ts_tz t) (ts_timetype t)) as (_ & _ & R1 & R2); [lia|lia|].
  unfold ts_ok, u8_ok, u16_ok. lia.
Qed.
Lemma ts_rt t : ts_wf t -> ts_parse (ts_bytes t) = Some t.
Proof.
  intros (Hz & Ht & Hy & H1 & H2 & H3 & H4 & H5 & H6 & H7 & H8).
  destruct (ts_tz_rt (ts_tz t) (ts_timetype t)) as (R0 & R00 & R1 & R2); [lia|lia|].
  unfold ts_parse, ts_bytes. change (widths fmt_udf_timestamp_widths) with (map (@length Z) (ts_fields t)).
  rewrite split_concat_nil. cbn [ts_fields]. unfold d8. cbn [nth]. rewrite le16_dle16 by rng.
  cbv zeta. rewrite R0, R00. kill_ifs. destruct t; reflexivity.
Qed.

(* ---- short / long allocation descriptors as fields ---- *)
Definition sad_wf (a : shortad) : Prop := sa_type a = 0 /\ 0 <= sa_length a <= 1073741823 /\ u32 (sa_pos a).
Lemma sad_len a : length (sad_bytes a) = 8%nat. Proof. reflexivity. Qed.
Lemma sad_zb a : zbytes (sad_bytes a). Proof. unfold sad_bytes. auto with zb. Qed.
Lemma sad_record_eq a : shortad_record a = if sad_ok a then Some (sad_bytes a) else None.
Proof. reflexivity. Qed.
Lemma sad_wf_ok a : sad_wf a -> sad_ok a = true.
Proof.
  intros (Ht & Hl & Hp). unfold sad_ok. rewrite Ht. change (Z.shiftl 0 30) with 0. rewrite Z.lor_0_r.
  unfold u32 in Hp. unfold u32_ok. lia.
Qed.
Lemma sad_rt a : sad_wf a -> shortad_parse (sad_bytes a) = Some a.
Proof.
  intros Hw. pose proof (sad_wf_ok a Hw) as Hok. destruct Hw as (Ht & Hl & Hp).
  rewrite <- (app_nil_r (sad_bytes a)). apply shortad_parse_record; [|exact Ht|exact Hl].
  rewrite sad_record_eq, Hok. reflexivity.
Qed.
Definition lad_wf (a : longad) : Prop :=
  u32 (la_length a) /\ u32 (la_pos a) /\ u16 (la_part a) /\ length (la_impl a) = 6%nat /\ zbytes (la_impl a).
Lemma lad_len a : length (lad_bytes a) = 16%nat.
Proof. unfold lad_bytes. rewrite length_concat, longad_layout. reflexivity. Qed.
Lemma lad_record_eq a : longad_record a = if lad_ok a then Some (lad_bytes a) else None.
Proof. reflexivity. Qed.
Lemma lad_wf_ok a : lad_wf a -> lad_ok a = true.
Proof. unfold lad_wf, lad_ok, u32, u16, u32_ok, u16_ok. lia. Qed.
Lemma lad_zb a : lad_wf a -> zbytes (lad_bytes a).
Proof.
  intros Hw. apply (longad_record_zbytes a); [|apply Hw]. rewrite lad_record_eq, (lad_wf_ok a Hw). reflexivity.
Qed.
Lemma lad_rt a : lad_wf a -> longad_parse (lad_bytes a) = Some a.
Proof.
  intros Hw. apply longad_parse_record; [|apply Hw]. rewrite lad_record_eq, (lad_wf_ok a Hw). reflexivity.
Qed.
#[export] Hint Resolve extad_zb entity_zb charspec_zb ts_zb sad_zb lad_zb : zb.
#[export] Hint Rewrite extad_len entity_len charspec_len ts_len sad_len lad_len pack_s_length : vlen.

(* ---- Anchor Volume Descriptor Pointer ---- *)
Definition anchor_wf (a : anchor) : Prop := extad_wf (an_main a) /\ extad_wf (an_reserve a).
Lemma anchor_layout a : map (@length Z) (anchor_fields a) = [8; 8; 480]%nat.
Proof. reflexivity. Qed.
Lemma anchor_spec : body_spec anchor_wf anchor_body anchor_parse_body.
Proof.
  intros a b [Hm Hr] Hb. apply body_of_inv in Hb. destruct Hb as [_ ->].
  split; [apply zbytes_concat; cbn [anchor_fields]; zb_fields|].
  split; [apply (fields_zlen _ _ _ (anchor_layout a)); reflexivity|].
  intros h rest Hh. unfold anchor_parse_body. rewrite (tagged_split h _ rest _ Hh (anchor_layout a)).
  cbn [anchor_fields]. rewrite !extad_rt0 by assumption. destruct a; reflexivity.
Qed.
Theorem anchor_sound t a r : anchor_wf a -> anchor_record (t, a) = Some r -> tag_wf 2 t ->
  length r = 512%nat /\ verify_tag r = true /\
  forall rest ext, anchor_parse (r ++ rest) ext = Some (retag t ext (crclen_rec t), a).
Proof. apply (desc_sound 2 anchor_wf anchor_body anchor_parse_body anchor_spec). Qed.

(* new() then set_extent_location(loc, main, reserve): the recorded descriptor is accepted by the
   verifier and designates (32768, main) and (32768, reserve); bytes 16..31 are the two extents *)
Theorem anchor_designates loc main reserve : u32 loc -> u32 main -> u32 reserve ->
  exists r, anchor_record (anchor_set_extent_location anchor_new loc main reserve) = Some r /\
    length r = 512%nat /\ verify_tag r = true /\
    slice 16 32 r = le32 32768 ++ le32 main ++ le32 32768 ++ le32 reserve /\
    forall rest, anchor_parse (r ++ rest) loc =
      Some (mk_utag 2 2 0 loc 496, mk_anchor (mk_extent_ad 32768 main) (mk_extent_ad 32768 reserve)).
Proof.
  intros Hl Hm Hr. set (a := mk_anchor (mk_extent_ad 32768 main) (mk_extent_ad 32768 reserve)).
  assert (Hw : anchor_wf a) by (split; split; cbn; (assumption || lia)).
  assert (Hb : anchor_body a = Some (concat (anchor_fields a))).
  { unfold anchor_body. rewrite !extad_wf_ok by apply Hw. reflexivity. }
  destruct (anchor_spec a _ Hw Hb) as (Hzb & Hlen & _).
  destruct (tag_record_total 2 0 loc (concat (anchor_fields a)) Hzb) as [h Hh]; [lia|rng|rng|exact Hl|].
  exists (h ++ concat (anchor_fields a)).
  assert (Hrec : anchor_record (mk_utag 2 2 0 loc (-1), a) = Some (h ++ concat (anchor_fields a))).
  { unfold anchor_record, desc_record. cbn [fst snd]. rewrite Hb, Hh. reflexivity. }
  split; [exact Hrec|].
  destruct (anchor_sound _ a _ Hw Hrec) as (H1 & H2 & H3); [split; [reflexivity|split; [left; reflexivity|left; cbn; lia]]|].
  split; [exact H1|]. split; [exact H2|]. split; [|intros rest; apply H3].
  pose proof (tag_record_length _ _ _ Hh) as Hh16. unfold slice. change (Z.to_nat 16) with 16%nat.
  rewrite (skipn_app_exact 16) by exact Hh16. reflexivity.
Qed.

(* ---- Terminating Descriptor ---- *)
Lemma td_spec : body_spec (fun _ : unit => True) td_body td_parse_body.
Proof.
  intros [] b _ Hb. apply some_inv in Hb. subst b.
  split; [apply zbytes_zeros|]. split; [reflexivity|]. intros h rest _. reflexivity.
Qed.
Theorem td_sound t r : td_record (t, tt) = Some r -> tag_wf 8 t ->
  length r = 512%nat /\ verify_tag r = true /\
  forall rest ext, td_parse (r ++ rest) ext = Some (retag t ext (crclen_rec t), tt).
Proof. intros H. apply (desc_sound 8 _ td_body td_parse_body td_spec t tt r I H). Qed.

(* ---- Unallocated Space Descriptor ---- *)
Definition usd_wf (d : usd) : Prop :=
  us_num d = zlen (us_descs d) /\ us_num d <= 61 /\ Forall extad_wf (us_descs d).
Lemma extads_bytes_len ds : length (concat (map extad_bytes ds)) = (8 * length ds)%nat.
Proof. induction ds as [|a ds IH]; [reflexivity|]. cbn [map concat length]. rewrite app_length, IH, extad_len. lia. Qed.
Lemma extads_zb ds : zbytes (concat (map extad_bytes ds)).
Proof. apply zbytes_concat. apply Forall_forall. intros x Hx. apply in_map_iff in Hx. destruct Hx as (a & <- & _). apply extad_zb. Qed.
Lemma extads_rt ds : forall rest, Forall extad_wf ds ->
  extads_parse (length ds) (concat (map extad_bytes ds) ++ rest) = Some ds.
Proof.
  induction ds as [|a ds IH]; intros rest Hw; [reflexivity|]. inversion Hw as [|? ? Ha Hds]; subst.
  cbn [length extads_parse map concat]. rewrite <- app_assoc.
  rewrite (firstn_app_exact 8) by reflexivity. rewrite (skipn_app_exact 8) by reflexivity.
  rewrite extad_rt0 by exact Ha. rewrite IH by exact Hds. reflexivity.
Qed.
Lemma usd_layout d : map (@length Z) (usd_fields d) = [4; 4; 488]%nat.
Proof. cbn [usd_fields map]. rewrite pack_s_length. reflexivity. Qed.
Lemma usd_spec : body_spec usd_wf usd_body usd_parse_body.
Proof.
  intros d b (Hn & Hle & Hds) Hb. apply body_of_inv in Hb. destruct Hb as [Hok ->].
  unfold usd_ok, u32_ok in Hok.
  split; [apply zbytes_concat; cbn [usd_fields]; pose proof (extads_zb (us_descs d)); zb_fields|].
  split; [apply (fields_zlen _ _ _ (usd_layout d)); reflexivity|].
  intros h rest Hh. unfold usd_parse_body. rewrite (tagged_split h _ rest _ Hh (usd_layout d)).
  cbn [usd_fields]. rewrite !le32_dle32 by rng. unfold zeros.
  rewrite pack_s_exact.
  2:{ rewrite app_length, repeat_length. unfold zlen. rewrite extads_bytes_len. unfold zlen in Hn. lia. }
  assert (Hz : zlen (concat (map extad_bytes (us_descs d))) = 8 * us_num d)
    by (unfold zlen; rewrite extads_bytes_len; unfold zlen in Hn; lia).
  rewrite zlen_app, Hz. unfold zlen at 1. rewrite repeat_length.
  replace (us_num d * 8 >? _) with false by lia.
  rewrite Hn. unfold zlen at 1. rewrite Nat2Z.id, extads_rt by exact Hds. destruct d; cbn in *; subst; reflexivity.
Qed.
Theorem usd_sound t d r : usd_wf d -> usd_record (t, d) = Some r -> tag_wf 7 t ->
  length r = 512%nat /\ verify_tag r = true /\
  forall rest ext, usd_parse (r ++ rest) ext = Some (retag t ext (crclen_rec t), d).
Proof. apply (desc_sound 7 usd_wf usd_body usd_parse_body usd_spec). Qed.

Print Assumptions desc_sound.
Print Assumptions desc_roundtrip_exact.
Print Assumptions desc_record_verifies_refuted.
Print Assumptions bea_roundtrip.
Print Assumptions tea_roundtrip.
Print Assumptions nsr_roundtrip.
Print Assumptions vrs_parse_ident_ok.
Print Assumptions ts_rt.
Print Assumptions anchor_sound.
Print Assumptions anchor_designates.
Print Assumptions td_sound.
Print Assumptions usd_sound.
