(* MasterJoliet, part 8: the extents MasterJoliet uses are, object by object, those of AccountNs.nlayout
   (the from-scratch model of _reshuffle_extents behind the space accounting of C01/C07).
     mj_visit_sim           AccountLinks' breadth-first walk over records (lbfs) and PathTable's walk over
                            mj_dtree visit the same records in the same order
     mj_layout_agrees_true  for every well-formed state: after the 9 fixed objects AccountNs.nlayout lists
                            exactly (extent, blocks) of the ISO9660 directories, of the Joliet directories
                            and of the inodes with data, as placed here; both layouts end at the same extent *)
From Coq Require Import ZArith List Bool Lia ZifyBool.
From PV.Base Require Import Prim ListX.
From PV.Gen Require Import GenConst GenFun.
From PV.Model Require Import Codec Pack PathTable Master MasterJoliet.
From PV.Model Require Alloc Account AccountLinks AccountNs.
From PV.Proofs Require Import PackProofs PathTableLemmas PathTableProofs.
From PV.Proofs Require AccountLemmas AccountLinksLemmas AccountNsLemmas.
From PV.Proofs Require Import MasterPack MasterBfs MasterWf MasterLayout.
From PV.Proofs Require Import MasterJolietWf MasterJolietLayout MasterJolietWalk.
Import ListNotations.
Local Open Scope Z_scope.
Ltac Zify.zify_post_hook ::= Z.to_euclidean_division_equations.

Notation lbfs := AccountLinks.lbfs.
Notation lnsize := AccountLinks.lnsize.
Notation lnsizes := AccountLinksLemmas.lnsizes.

(* ---- the two walks visit the same records -------------------------------------------------------------- *)

Section Sim.
  Variable t : lnode.

  Definition mj_rel_q (n : lnode) (it : qitem) : Prop :=
    itree it = mj_dtree n /\ mj_node_at t (ipos it) = Some n.
  Definition mj_rel_r (n : lnode) (r : dirrec) : Prop :=
    d_blocks r = tblocks (mj_dtree n) /\ mj_node_at t (d_pos r) = Some n.

  Lemma mj_rel_children n0 pos pn path : mj_node_at t pos = Some n0 ->
    forall kids i, (forall j c, nth_error kids j = Some c -> nth_error (lkids n0) (i + j) = Some c) ->
    Forall2 mj_rel_q kids (child_items_from i (map mj_dtree kids) pn pos path).
  Proof.
    intros Hpos. induction kids as [|c kids IH]; intros i Hsub; [constructor|].
    cbn [map child_items_from]. constructor.
    - split; [reflexivity|]. unfold ipos. cbn [fst snd]. rewrite (mj_node_at_snoc pos i t n0 Hpos).
      specialize (Hsub 0%nat c eq_refl). rewrite Nat.add_0_r in Hsub. exact Hsub.
    - apply IH. intros j c' Hj. specialize (Hsub (S j) c' Hj).
      replace (S i + j)%nat with (i + S j)%nat by lia. exact Hsub.
  Qed.

  Lemma mj_lnsize_kids n : lnsize n = S (lnsizes (lkids n)).
  Proof. destruct n; reflexivity. Qed.

  Lemma mj_sim f2 ql idx cur : (qsize ql <= f2)%nat ->
    forall q f1, Forall2 mj_rel_q q ql -> (lnsizes q <= f1)%nat ->
    Forall2 mj_rel_r (lbfs f1 q) (fst (go f2 ql idx cur)).
  Proof.
    revert f2 ql idx cur.
    apply (go_ind (fun ql idx cur res => forall q f1, Forall2 mj_rel_q q ql ->
             (lnsizes q <= f1)%nat -> Forall2 mj_rel_r (lbfs f1 q) (fst res))).
    - intros idx cur q f1 HF _. inversion HF; subst. destruct f1; constructor.
    - intros f nm bl ks pn pos path ql0 idx cur Hf IH q f1 HF Hn.
      inversion HF as [|n it q0 ql' Hrel HF0]; subst. destruct Hrel as [Ht Hp].
      unfold itree, ipos in Ht, Hp. cbn [fst snd] in Ht, Hp.
      cbn [AccountLinksLemmas.lnsizes fold_right] in Hn. fold (lnsizes q0) in Hn.
      rewrite mj_lnsize_kids in Hn. destruct f1 as [|f1]; [lia|].
      cbn [AccountLinks.lbfs fst]. constructor.
      + split; [cbn [d_blocks]; rewrite <- Ht; reflexivity|exact Hp].
      + apply IH; [|rewrite AccountLinksLemmas.lnsizes_app; lia].
        apply Forall2_app; [exact HF0|].
        assert (Hks : ks = map mj_dtree (lkids n)) by (rewrite <- mj_tkids_dtree, <- Ht; reflexivity).
        rewrite Hks. unfold child_items. apply (mj_rel_children n pos idx path Hp).
        intros j c Hj. exact Hj.
  Qed.

  Theorem mj_visit_sim start : Forall2 mj_rel_r (lbfs (lnsize t) [t]) (bfs start (mj_dtree t)).
  Proof.
    destruct (mj_dtree t) as [nm bl ks] eqn:Eg. rewrite bfs_unfold.
    rewrite mj_lnsize_kids. cbn [AccountLinks.lbfs app]. constructor.
    - split; [cbn [d_blocks]; rewrite Eg; reflexivity|reflexivity].
    - apply mj_sim; [apply le_n| |apply le_n].
      assert (Hks : ks = map mj_dtree (lkids t)) by (rewrite <- mj_tkids_dtree, Eg; reflexivity).
      rewrite Hks. unfold child_items. apply (mj_rel_children t [] 1 [] eq_refl).
      intros j c Hj. exact Hj.
  Qed.

  Lemma mj_dir_sizes ns rs : Forall2 mj_rel_r ns rs ->
    map AccountLinks.lw_dblk (filter AccountLinks.l_is_dir ns)
    = map d_blocks (filter (fun r => mj_is_dir_at t (d_pos r)) rs).
  Proof.
    induction 1 as [|n r ns rs [Hb Hp] _ IH]; [reflexivity|]. cbn [filter].
    unfold mj_is_dir_at at 1. rewrite Hp. destruct n as [nm i st|nm dl kids]; cbn [AccountLinks.l_is_dir].
    - exact IH.
    - cbn [map]. rewrite IH, Hb. reflexivity.
  Qed.
End Sim.

(* the (extent, blocks) pairs of the directories of one hierarchy are a bump allocation of the sizes
   AccountNs lists for it *)
Lemma mj_dir_pairs_bump start t : mj_tree_ok t = true ->
  mj_dir_pairs start t
    = Alloc.bump start (map AccountLinks.lw_dblk (filter AccountLinks.l_is_dir (lbfs (lnsize t) [t]))) /\
  assign_end start (mj_dtree t)
    = start + Alloc.zsum (map AccountLinks.lw_dblk (filter AccountLinks.l_is_dir (lbfs (lnsize t) [t]))).
Proof.
  intros Hok. unfold mj_dir_pairs.
  destruct (extents_disjoint_consecutive start (mj_dtree t)) as (Hc & _ & He & _).
  destruct (ms_chain_bump (fun r => mj_is_dir_at t (d_pos r)) _ _ Hc) as [D1 D2].
  { intros r Hr Hf. rewrite (mj_walk_is_dir start t r Hok Hr) in Hf. unfold mj_big in Hf.
    pose proof (ms_bfs_bounds _ _ r (mj_blocks_ok t Hok) Hr). lia. }
  rewrite (mj_dir_sizes t _ _ (mj_visit_sim t start)). split; [exact D1|].
  rewrite He, tree_blocks_sum, <- (bfs_sum (fun _ b => b) start), <- D2. reflexivity.
Qed.

Lemma mj_map_snd_combine {A B} (ks : list A) (vs : list B) : length ks = length vs ->
  map snd (combine ks vs) = vs.
Proof.
  revert vs; induction ks as [|k r IH]; intros [|v vs] H; try discriminate; [reflexivity|].
  cbn [combine map snd]. rewrite IH; [reflexivity|]. cbn in H. lia.
Qed.

Theorem mj_layout_agrees_true s : mj_wf s = true -> mj_layout_agrees s = true.
Proof.
  intros Hwf. destruct (mj_wf_parts s Hwf) as (_ & _ & Ti & Tj & _).
  unfold mj_layout_agrees. rewrite mj_end_is_nlayout_end, Z.eqb_refl, andb_true_r.
  apply zz_list_eqb_eq. unfold AccountNs.nlayout, AccountNs.nobjects, mj_layout_pairs.
  unfold AccountNs.nvisit_i, AccountNs.nvisit_j.
  destruct (mj_dir_pairs_bump (mj_idir_start s) _ Ti) as [Pi Ei].
  destruct (mj_dir_pairs_bump (mj_jdir_start s) _ Tj) as [Pj Ej].
  fold (mj_jdir_start s) in Ei. fold (mj_data_start s) in Ej.
  rewrite Pi, Pj.
  assert (Hino : map snd (mj_ino_layout s) = Alloc.bump (mj_data_start s) (mj_ino_sizes s)).
  { unfold mj_ino_layout. apply mj_map_snd_combine.
    rewrite AllocProofs.bump_length. unfold mj_ino_sizes. rewrite map_length. reflexivity. }
  rewrite Hino.
  set (di := map AccountLinks.lw_dblk (filter AccountLinks.l_is_dir (lbfs (lnsize (AccountNs.niso s)) [AccountNs.niso s]))) in *.
  set (dj := map AccountLinks.lw_dblk (filter AccountLinks.l_is_dir (lbfs (lnsize (AccountNs.njol s)) [AccountNs.njol s]))) in *.
  change (map (fun i => ceiling_div (AccountLinks.len_of i (AccountNs.nall s)) Account.C) (AccountNs.nlaid_out s))
    with (mj_ino_sizes s).
  rewrite (ms_bump_app [16; 1; 1; 1; 1; AccountNs.ipe s; AccountNs.ipe s; AccountNs.jpe s; AccountNs.jpe s]).
  rewrite (ms_bump_app di), (ms_bump_app dj).
  assert (E0 : 0 + Alloc.zsum [16; 1; 1; 1; 1; AccountNs.ipe s; AccountNs.ipe s; AccountNs.jpe s; AccountNs.jpe s]
               = mj_idir_start s).
  { unfold mj_idir_start, mj_jptm, mj_jptl, mj_iptm, mj_iptl.
    change (Alloc.zsum [16; 1; 1; 1; 1; AccountNs.ipe s; AccountNs.ipe s; AccountNs.jpe s; AccountNs.jpe s])
      with (16 + (1 + (1 + (1 + (1 + (AccountNs.ipe s + (AccountNs.ipe s + (AccountNs.jpe s + (AccountNs.jpe s + 0))))))))).
    lia. }
  rewrite E0, <- Ei, <- Ej. f_equal.
Qed.

Print Assumptions mj_visit_sim.
Print Assumptions mj_layout_agrees_true.
