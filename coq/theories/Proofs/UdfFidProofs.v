(* Proofs about Model/Udf.v, part 2: UDFFileIdentifierDescriptor (record / parse / length / pad / new).

   Main results
     fid_record_zlen fid_record_length                        exact length of record(), multiple of 4
     fid_length_is_method_partial / fid_length_is_method_refuted
                                   len(record()) = UDFFileIdentifierDescriptor.length(len(fi)) iff no impl. use
     fid_record_verifies           the independent verify_tag accepts record(); CRC covers all after the tag
     fid_roundtrip fid_roundtrip_exact fid_of_case_wf          udf.parse_file_ident (record f ++ rest)
   All closed under the global context (Print Assumptions at the end). *)
From Coq Require Import ZArith List Bool Lia ZifyBool.
From PV.Base Require Import Prim ListX.
From PV.Gen Require Import GenConst GenFun.
From PV.Model Require Import Codec Checksums Udf.
From PV.Proofs Require Import ChecksumsProofs ChecksumsArithProofs CodecProofs UdfProofs.
Import ListNotations.
Local Open Scope Z_scope.
Ltac Zify.zify_post_hook ::= Z.to_euclidean_division_equations.

(* ---- (d) UDFFileIdentifierDescriptor ---- *)
Lemma udf_fid_pad_range v : 0 <= udf_fid_pad v <= 3 /\ (v + udf_fid_pad v) mod 4 = 0.
Proof. unfold udf_fid_pad. lia. Qed.

(* number of identifier bytes record() writes *)
Definition fid_fi_len (f : fid) : Z := if fd_len_fi f >? 0 then 1 + zlen (fd_fi f) else 0.

Lemma fid_fi_bytes_inv f fi' : fid_fi_bytes f = Some fi' ->
  zlen fi' = fid_fi_len f /\
  ((fd_len_fi f <= 0 /\ fi' = []) \/
   (fd_len_fi f > 0 /\ (fd_encoding f = 8 \/ fd_encoding f = 16) /\ fi' = fd_encoding f :: fd_fi f)).
Proof.
  unfold fid_fi_bytes, fid_fi_len. destruct (fd_len_fi f >? 0) eqn:E.
  - destruct (fd_encoding f =? 8) eqn:E8; [|destruct (fd_encoding f =? 16) eqn:E16; [|discriminate]];
      intros H; apply some_inv in H; subst fi'; (split; [rewrite zlen_cons; reflexivity|]); right;
      (split; [lia|split; [lia|f_equal; lia]]).
  - intros H; apply some_inv in H; subst fi'. split; [reflexivity|left; split; [lia|reflexivity]].
Qed.

Lemma fid_body_inv f body : fid_body f = Some body ->
  exists fi' icbrec, fid_fi_bytes f = Some fi' /\ longad_record (fd_icb f) = Some icbrec /\
    0 <= fd_chars f <= 255 /\ 0 <= fd_len_fi f <= 255 /\ u16 (fd_len_impl_use f) /\
    body = concat (fid_head_fields f icbrec) ++ fd_impl_use f ++ fi' ++
           repeat 0 (Z.to_nat (udf_fid_pad (38 + fd_len_impl_use f + fd_len_fi f))).
Proof.
  unfold fid_body. destruct (fid_fi_bytes f) as [fi'|]; [|discriminate].
  destruct (longad_record (fd_icb f)) as [icbrec|]; [|discriminate].
  destruct (u8_ok (fd_chars f) && u8_ok (fd_len_fi f) && u16_ok (fd_len_impl_use f)) eqn:Hr; [|discriminate].
  intros H; apply some_inv in H. exists fi', icbrec.
  apply andb_prop in Hr. destruct Hr as [Hr R2]. apply andb_prop in Hr. destruct Hr as [R0 R1].
  apply u8_ok_spec in R0, R1. apply u16_ok_spec in R2. repeat (split; [first [reflexivity|assumption]|]).
  symmetry. exact H.
Qed.

Lemma fid_record_inv f b : fid_record f = Some b ->
  exists body t, fid_body f = Some body /\ tag_record (fd_tag f) body = Some t /\ b = t ++ body.
Proof.
  unfold fid_record. destruct (fid_body f) as [body|] eqn:Eb; [|discriminate].
  destruct (tag_record (fd_tag f) body) as [t|] eqn:Et; [|discriminate].
  intros H; apply some_inv in H. exists body, t.
  split; [reflexivity|split; [exact Et|symmetry; exact H]].
Qed.

Lemma fid_layout t f icbrec : length t = 16%nat ->
  map (@length Z) (t :: fid_head_fields f icbrec) = widths fmt_udf_fid_widths.
Proof. intros H. cbn [map fid_head_fields]. rewrite pack_s_length, H. reflexivity. Qed.
Lemma fid_head_zlen t f icbrec : length t = 16%nat -> zlen (concat (t :: fid_head_fields f icbrec)) = 38.
Proof. intros H. unfold zlen. rewrite length_concat, fid_layout by exact H. reflexivity. Qed.

(* exact length of record(), for any attribute values *)
Theorem fid_record_zlen f b : fid_record f = Some b ->
  zlen b = 38 + zlen (fd_impl_use f) + fid_fi_len f +
           udf_fid_pad (38 + fd_len_impl_use f + fd_len_fi f).
Proof.
  intros H. destruct (fid_record_inv _ _ H) as (body & t & Hb & Ht & ->).
  destruct (fid_body_inv _ _ Hb) as (fi' & icbrec & Hfi & _ & _ & _ & _ & ->).
  pose proof (tag_record_length _ _ _ Ht) as Htl.
  destruct (fid_fi_bytes_inv _ _ Hfi) as [Hfl _].
  pose proof (fid_head_zlen t f icbrec Htl) as Hh. cbn [concat] in Hh. rewrite zlen_app in Hh.
  rewrite !zlen_app, zlen_repeat, Hfl.
  pose proof (udf_fid_pad_range (38 + fd_len_impl_use f + fd_len_fi f)). lia.
Qed.

(* the stored lengths agree with the stored strings (true after new() and after parse()) *)
Definition fid_lens_ok (f : fid) : Prop :=
  fd_len_impl_use f = zlen (fd_impl_use f) /\ (fd_len_fi f = 0 \/ fd_len_fi f = zlen (fd_fi f) + 1).

Theorem fid_record_length f b : fid_record f = Some b -> fid_lens_ok f ->
  let used := 38 + fd_len_impl_use f + fd_len_fi f in
  zlen b = 4 * ((used + 3) / 4) /\ zlen b mod 4 = 0 /\ used <= zlen b <= used + 3.
Proof.
  intros H [Hi Hf]. cbv zeta. rewrite (fid_record_zlen _ _ H). unfold fid_fi_len, udf_fid_pad.
  pose proof (zlen_nonneg (fd_fi f)). destruct (fd_len_fi f >? 0) eqn:E; lia.
Qed.

(* ... and is what the length() class method (as called: length(len(fi))) predicts, PROVIDED the
   descriptor has no implementation use bytes *)
Theorem fid_length_is_method_partial f b : fid_record f = Some b -> fid_lens_ok f ->
  fd_len_impl_use f = 0 -> (fd_len_fi f = 0 -> fd_fi f = []) ->
  zlen b = udf_fid_length (zlen (fd_fi f)).
Proof.
  intros H [Hi Hf] H0 Hnil. rewrite (fid_record_zlen _ _ H). unfold fid_fi_len, udf_fid_length, udf_fid_pad.
  pose proof (zlen_nonneg (fd_fi f)) as Hn. rewrite <- Hi, H0.
  destruct Hf as [Hf|Hf].
  - rewrite (Hnil Hf), Hf. reflexivity.
  - destruct (fd_len_fi f >? 0) eqn:E; [|lia]. destruct (zlen (fd_fi f) >? 0) eqn:E2; lia.
Qed.

(* a descriptor with 4 implementation use bytes and the name 'foo' (what parse() yields for such a
   descriptor of a foreign image): record() is 48 bytes, length(len(fi)) says 44 *)
Theorem fid_length_is_method_refuted :
  exists f b, fid_lens_ok f /\ fid_record f = Some b /\ zlen b = 48 /\ udf_fid_length (zlen (fd_fi f)) = 44.
Proof.
  exists (mk_fid (tag_new 257 0) 0 4 4 [102; 111; 111] false false (longad_new 2048 2) [1; 2; 3; 4] 8).
  eexists. split; [split; [reflexivity|right; reflexivity]|].
  split; [vm_compute; reflexivity|]. split; reflexivity.
Qed.

Lemma fid_body_zbytes f body : fid_body f = Some body ->
  zbytes (fd_impl_use f) -> zbytes (fd_fi f) -> zbytes (la_impl (fd_icb f)) -> zbytes body.
Proof.
  intros H Bi Bf Bl. destruct (fid_body_inv _ _ H) as (fi' & icbrec & Hfi & Hicb & Hc & Hl & Hu & ->).
  pose proof (longad_record_zbytes _ _ Hicb Bl) as Bicb.
  assert (Bfi' : zbytes fi').
  { destruct (fid_fi_bytes_inv _ _ Hfi) as [_ [[_ ->]|(_ & He & ->)]]; [constructor|].
    constructor; [lia|exact Bf]. }
  cbn [fid_head_fields concat]. rewrite app_nil_r.
  repeat apply zbytes_app;
    first [ apply zbytes_le16 | apply zbytes_one; assumption | apply zbytes_firstn; exact Bicb
          | apply zbytes_repeat0 | assumption ].
Qed.

(* record() passes the independent tag verifier; for a descriptor made by new() the CRC covers
   everything after the tag *)
Theorem fid_record_verifies f b : fid_record f = Some b ->
  zbytes (fd_impl_use f) -> zbytes (fd_fi f) -> zbytes (la_impl (fd_icb f)) ->
  (tg_crclen (fd_tag f) < 0 \/ tg_crclen (fd_tag f) <= zlen b - 16) ->
  verify_tag b = true /\
  (tg_crclen (fd_tag f) < 0 -> nth 10 b 0 + 256 * nth 11 b 0 = zlen b - 16).
Proof.
  intros H Bi Bf Bl Hfit. destruct (fid_record_inv _ _ H) as (body & t & Hb & Ht & ->).
  pose proof (tag_record_length _ _ _ Ht) as Htl.
  assert (Hz : zlen (t ++ body) - 16 = zlen body) by (rewrite zlen_app; unfold zlen at 1; rewrite Htl; lia).
  rewrite Hz in *. split.
  - apply (tag_record_verifies_partial (fd_tag f) body t); [|exact Ht|exact Hfit].
    eapply fid_body_zbytes; eassumption.
  - intros Hneg. destruct (tag_record_inv _ _ _ Ht) as (_ & _ & _ & _ & Hn16 & _ & E & _).
    cbv zeta in *. rewrite E. cbn [tag_fields concat app le16 le32 nth].
    unfold tag_crc_byte_len in *. replace (0 <=? tg_crclen (fd_tag f)) with false in * by lia.
    unfold u16 in Hn16. lia.
Qed.

(* round trip through udf.parse_file_ident *)
Definition fid_wf (f : fid) : Prop :=
  fd_len_impl_use f = zlen (fd_impl_use f) /\
  fd_isdir f = negb (Z.land (fd_chars f) 2 =? 0) /\
  fd_isparent f = negb (Z.land (fd_chars f) 8 =? 0) /\
  length (la_impl (fd_icb f)) = 6%nat /\
  (if fd_isparent f then fd_len_fi f = 0 /\ fd_fi f = [] /\ fd_encoding f = 0
   else fd_len_fi f = zlen (fd_fi f) + 1 /\ (fd_encoding f = 8 \/ fd_encoding f = 16)) /\
  tg_ident (fd_tag f) = 257 /\ (tg_version (fd_tag f) = 2 \/ tg_version (fd_tag f) = 3).

Definition fid_with_tag (f : fid) (t : utag) : fid :=
  mk_fid t (fd_chars f) (fd_len_fi f) (fd_len_impl_use f) (fd_fi f) (fd_isdir f) (fd_isparent f)
         (fd_icb f) (fd_impl_use f) (fd_encoding f).

Theorem fid_roundtrip f b rest ext : fid_wf f -> fid_record f = Some b ->
  (tg_crclen (fd_tag f) < 0 \/ tg_crclen (fd_tag f) <= zlen b - 16) ->
  fid_parse (b ++ rest) ext =
  Some (fid_with_tag f (mk_utag 257 (tg_version (fd_tag f)) (tg_serial (fd_tag f)) ext
                                (tag_crc_byte_len (fd_tag f) (skipn 16 b))), zlen b).
Proof.
  intros (Hliu & Hdir & Hpar & Himpl & Hfi & Hid & Hver) Hrec Hfit.
  pose proof (fid_record_zlen _ _ Hrec) as Hzl.
  destruct (fid_record_inv _ _ Hrec) as (body & t & Hbody & Htag & ->).
  pose proof (tag_record_length _ _ _ Htag) as Htl.
  assert (Hz : zlen (t ++ body) - 16 = zlen body) by (rewrite zlen_app; unfold zlen at 1; rewrite Htl; lia).
  rewrite Hz in Hfit. rewrite (skipn_app_exact 16) by exact Htl.
  unfold fid_parse. rewrite <- app_assoc, (tag_roundtrip _ _ _ rest ext Htag Hver Hfit).
  cbn [tg_ident]. rewrite Hid. change (negb (257 =? 257)) with false. cbv iota.
  set (t' := mk_utag _ _ _ _ _). rewrite Hzl. clear Hzl Hz Hfit Hrec.
  destruct (fid_body_inv _ _ Hbody) as (fi' & icbrec & Hfi' & Hicb & Hc & Hl & Hu & ->).
  destruct (longad_roundtrip _ _ [] Hicb Himpl) as [Hil _].
  pose proof (longad_parse_record _ _ Hicb Himpl) as Hip.
  destruct (fid_fi_bytes_inv _ _ Hfi') as [_ Hcase].
  pose proof (fid_head_zlen t f icbrec Htl) as Hh38.
  set (pad := repeat 0 _).
  replace (t ++ (concat (fid_head_fields f icbrec) ++ fd_impl_use f ++ fi' ++ pad) ++ rest)
    with (concat (t :: fid_head_fields f icbrec) ++ fd_impl_use f ++ fi' ++ pad ++ rest)
    by (cbn [concat]; rewrite <- !app_assoc; reflexivity).
  unfold fid_parse_body. rewrite <- (fid_layout t f icbrec Htl), split_concat.
  set (hd := concat (t :: fid_head_fields f icbrec)) in *.
  cbn [fid_head_fields]. cbv zeta. unfold d8. cbn [nth].
  rewrite !le16_dle16 by (first [assumption|unfold u16; lia]).
  change (negb (1 =? 1)) with false. cbv iota.
  rewrite pack_s_exact, Hip by exact Hil. rewrite <- Hdir, <- Hpar. unfold fmt_udf_fid_size.
  rewrite (slice_at hd (fd_impl_use f) (fi' ++ pad ++ rest)) by lia.
  unfold fid_fi_len. destruct f as [tg ch lfi liu fi isd isp icb impl enc].
  cbn [fd_tag fd_chars fd_len_fi fd_len_impl_use fd_fi fd_isdir fd_isparent fd_icb fd_impl_use fd_encoding] in *.
  unfold fid_with_tag. cbn [fd_tag fd_chars fd_len_fi fd_len_impl_use fd_fi fd_isdir fd_isparent fd_icb fd_impl_use fd_encoding].
  destruct isp.
  - destruct Hfi as (-> & -> & ->). replace (0 >? 0) with false by reflexivity.
    f_equal. f_equal. change (zlen []) with 0. lia.
  - destruct Hfi as (Elfi & Henc).
    destruct Hcase as [[Hle _]|(_ & _ & ->)]; [pose proof (zlen_nonneg fi); lia|].
    replace (hd ++ impl ++ (enc :: fi) ++ pad ++ rest) with ((hd ++ impl) ++ enc :: (fi ++ pad ++ rest))
      by (rewrite <- !app_assoc; reflexivity).
    rewrite nth_error_at by (rewrite app_length; unfold zlen in *; lia).
    replace ((hd ++ impl) ++ enc :: fi ++ pad ++ rest) with ((hd ++ impl ++ [enc]) ++ fi ++ pad ++ rest)
      by (rewrite <- !app_assoc; reflexivity).
    rewrite (slice_at (hd ++ impl ++ [enc]) fi (pad ++ rest))
      by (rewrite ?zlen_app; change (zlen [enc]) with 1; lia).
    replace (lfi >? 0) with true by (pose proof (zlen_nonneg fi); lia).
    destruct Henc as [->| ->]; cbn [Z.eqb Pos.eqb]; (f_equal; f_equal; lia).
Qed.

(* the exact parse(record x) = x form: the tag already holds its location and CRC length *)
Corollary fid_roundtrip_exact f b rest : fid_wf f -> fid_record f = Some b ->
  tg_crclen (fd_tag f) = zlen b - 16 ->
  fid_parse (b ++ rest) (tg_location (fd_tag f)) = Some (f, zlen b).
Proof.
  intros Hw Hrec Hc. rewrite (fid_roundtrip f b rest _ Hw Hrec) by (right; lia).
  destruct Hw as (_ & _ & _ & _ & _ & Hid & _).
  destruct (fid_record_inv _ _ Hrec) as (body & t & _ & Htag & ->).
  pose proof (tag_record_length _ _ _ Htag) as Htl.
  rewrite (skipn_app_exact 16) by exact Htl. unfold tag_crc_byte_len.
  assert (0 <= tg_crclen (fd_tag f)).
  { rewrite Hc, zlen_app. unfold zlen at 1. rewrite Htl. pose proof (zlen_nonneg body). lia. }
  replace (0 <=? tg_crclen (fd_tag f)) with true by lia.
  destruct f as [[ti tv ts tl tc] ch lfi liu fi isd isp icb impl enc]. cbn in Hid. subst ti. reflexivity.
Qed.

(* everything new() + set_extent_location() + set_icb() builds satisfies the hypotheses *)
Lemma fid_of_case_wf isdir isparent enc fi tl nl il f :
  fid_of_case isdir isparent enc fi tl nl il = Some f -> enc = 8 \/ enc = 16 ->
  fid_wf f /\ fid_lens_ok f /\ fd_len_impl_use f = 0 /\ (fd_len_fi f = 0 -> fd_fi f = []) /\
  tg_crclen (fd_tag f) < 0.
Proof.
  unfold fid_of_case, fid_new, fid_set_icb. cbv zeta.
  destruct (255 <? (if isparent then 0 else zlen fi + 1)); [discriminate|].
  cbn [fid_set_tag_location fd_icb fd_tag fd_chars fd_len_fi fd_len_impl_use fd_fi fd_isdir fd_isparent
       fd_impl_use fd_encoding tg_ident tg_version tg_serial tg_crclen tag_new].
  destruct (longad_set_loc (longad_new 2048 2) nl il) as [icb|] eqn:Ei; [|discriminate].
  pose proof (longad_set_loc_impl _ _ _ _ Ei) as Hil.
  intros H Henc; apply some_inv in H; subst f. unfold fid_wf, fid_lens_ok.
  cbn [fd_icb fd_tag fd_chars fd_len_fi fd_len_impl_use fd_fi fd_isdir fd_isparent
       fd_impl_use fd_encoding tg_ident tg_version tg_serial tg_crclen].
  pose proof (zlen_nonneg fi).
  destruct isdir, isparent; cbn [Z.lor Z.land Pos.land Pos.lor Z.eqb Pos.eqb negb Z.of_N];
    change (zlen []) with 0; repeat split; try reflexivity; try assumption; try lia; auto.
Qed.

(* ---- non-vacuity: bytes obtained from the library (PYTHONPATH=/repo) ---- *)
(* f.new(False, False, b'foo', None); f.set_extent_location(0, 3); f.set_icb(260, 3); f.record() *)
Definition ex_fid_foo : list Z := [1; 1; 2; 0; 224; 0; 0; 0; 107; 82; 28; 0; 3; 0; 0; 0; 1; 0; 0; 4; 0; 8; 0; 0; 3; 0; 0; 0; 0;
   0; 0; 0; 4; 1; 0; 0; 0; 0; 8; 102; 111; 111; 0; 0].
(* the parent entry: f.new(True, True, b'', None); set_extent_location(0, 2); set_icb(259, 2) *)
Definition ex_fid_parent : list Z := [1; 1; 2; 0; 131; 0; 0; 0; 83; 18; 24; 0; 2; 0; 0; 0; 1; 0; 10; 0; 0; 8; 0; 0; 2; 0; 0; 0; 0;
   0; 0; 0; 3; 1; 0; 0; 0; 0; 0; 0].
(* a directory named U+4E2D (utf-16_be): set_extent_location(0, 9); set_icb(1000, 743) *)
Definition ex_fid_utf16 : list Z := [1; 1; 2; 0; 145; 0; 0; 0; 57; 47; 28; 0; 9; 0; 0; 0; 1; 0; 2; 3; 0; 8; 0; 0; 231; 2; 0; 0; 0;
   0; 0; 0; 232; 3; 0; 0; 0; 0; 16; 78; 45; 0; 0; 0].
Example ex_fids :
  bad_fid_cases 0 [(false, false, 8, [102; 111; 111], 3, 260, 3, ex_fid_foo);
                   (true, true, 8, [], 2, 259, 2, ex_fid_parent);
                   (true, false, 16, [78; 45], 9, 1000, 743, ex_fid_utf16);
                   (false, false, 8, repeat 120 255%nat, 1, 2, 3, []);      (* 'x'*255: PyCdlibInvalidInput *)
                   (false, false, 8, [102; 111; 111], 3, 4294967296, 3, []); (* set_icb: struct.error *)
                   (false, false, 8, [102; 111; 112], 3, 260, 3, ex_fid_foo)] = [5%nat].
Proof. vm_compute. reflexivity. Qed.
Example ex_fid_parse :
  fid_parse (ex_fid_foo ++ ex_fid_parent) 3 =
  Some (mk_fid (mk_utag 257 2 0 3 28) 0 4 0 [102; 111; 111] false false
               (mk_longad 2048 3 0 [0; 0; 4; 1; 0; 0]) [] 8, 44) /\
  verify_tag ex_fid_foo = true /\ verify_tag ex_fid_parent = true /\ verify_tag ex_fid_utf16 = true.
Proof. repeat split; vm_compute; reflexivity. Qed.

(* decode-then-re-encode on library bytes: tag+body, short_ad(12345 @99), long_ad.new(2048,5)+
   set_extent_location(300,43), ICB tag 'symlink', the three descriptors above (one followed by zeros);
   rejected: a descriptor with one flipped body byte (CRC), and a short_ad of type 1 (record() = 64 00 00 40 ...) *)
Example ex_parse_record :
  bad_parse_record_cases 0
    [(0, ex_tag_bytes ++ ex_body40); (1, [57; 48; 0; 0; 99; 0; 0; 0]); (2, [0; 8; 0; 0; 43; 0; 0; 0; 0; 0; 0; 0; 44; 1; 0; 0]);
     (3, [0; 0; 0; 0; 4; 0; 0; 0; 1; 0; 0; 12; 0; 0; 0; 0; 0; 0; 48; 2]);
     (4, ex_fid_foo); (4, ex_fid_parent); (4, ex_fid_utf16 ++ repeat 0 20%nat);
     (4, firstn 20 ex_fid_foo ++ [1] ++ skipn 21 ex_fid_foo); (1, [100; 0; 0; 64; 9; 0; 0; 0])] = [7%nat; 8%nat].
Proof. vm_compute. reflexivity. Qed.

Print Assumptions fid_record_zlen.
Print Assumptions fid_record_length.
Print Assumptions fid_length_is_method_partial.
Print Assumptions fid_length_is_method_refuted.
Print Assumptions fid_record_verifies.
Print Assumptions fid_roundtrip.
Print Assumptions fid_roundtrip_exact.
Print Assumptions fid_of_case_wf.
