(* Parse, part 5: a whole directory of a mastered image.
     ps_dir_fold     '.', '..' and children[2:] handed to the per-record step: exactly Parse.ps_spec_dir,
                     no exception
     ps_spec_queue   what a directory appends to `dirs`
     ps_dir_scan     the same, from the bytes of the directory's extent in the image *)
From Coq Require Import ZArith List Bool Lia ZifyBool.
From PV.Base Require Import Prim ListX.
From PV.Gen Require Import GenConst GenFun.
From PV.Model Require Import Codec Pack PathTable Names Master Parse.
From PV.Proofs Require Import CodecProofs PackProofs PathTableLemmas PathTableProofs AccountLemmas.
From PV.Proofs Require Import MasterPack MasterImage MasterBfs MasterWf MasterDir MasterChecker.
From PV.Proofs Require Import ParseScan ParseTrack ParseRecord ParseDir.
Import ListNotations.
Local Open Scope Z_scope.

(* the (extent, data_length) a directory child is queued with *)
Definition ps_qof (DB : list dirrec) (it : list nat * node) : Z * Z :=
  match it with
  | (p, Dir _ dl _) => (ms_ext_at DB p, dl)
  | (p, File _ _) => (0, 0)
  end.
Definition ps_item_is_dir (it : list nat * node) : bool := Account.is_dir (snd it).

Lemma ps_spec_queue dt DB FB p : forall kids j cache st, length cache = length kids ->
  s_queue (ps_spec_kids dt DB FB p j kids cache st) =
  s_queue st ++ map (ps_qof DB) (filter ps_item_is_dir (ps_items p j kids)).
Proof.
  induction kids as [|c r IH]; intros j cache st Hl.
  - destruct cache; [|discriminate]. cbn. rewrite app_nil_r. reflexivity.
  - destruct cache as [|[eth oth] cr]; [discriminate|]. rewrite ps_spec_kids_cons.
    rewrite IH by (cbn [length] in Hl; lia).
    cbn [ps_items filter]. unfold ps_item_is_dir at 2. cbn [snd].
    destruct c as [cn len|cn cdl ck]; cbn [Account.is_dir ps_spec_kid s_queue map ps_qof ms_kid_rec ms_rec extent].
    + reflexivity.
    + rewrite <- app_assoc. reflexivity.
Qed.

Lemma ps_spec_kids_fields dt DB FB p : forall kids j cache st,
  s_dirs (ps_spec_kids dt DB FB p j kids cache st) = s_dirs st /\
  s_seen (ps_spec_kids dt DB FB p j kids cache st) = s_seen st /\
  s_level (ps_spec_kids dt DB FB p j kids cache st) = s_level st.
Proof.
  induction kids as [|c r IH]; intros j cache st; [destruct cache; repeat split|].
  destruct cache as [|[eth oth] cr]; [repeat split|]. rewrite ps_spec_kids_cons.
  destruct (IH (S j) cr (ps_spec_kid dt DB FB p j c eth oth st)) as (A & B & C).
  rewrite A, B, C. destruct c; repeat split.
Qed.

Section DirAll.
  Variable dt : list Z.
  Hypothesis Hdt : length dt = 7%nat.
  Variable t : node.
  Hypothesis Hwf : wf_tree t = true.
  Hypothesis Hnm : forallb ps_names_ok (Account.kids_of t) = true.
  Variable ptr : list Z.
  Hypothesis Hptr : forall p, ms_is_dir_at t p = true -> ps_mem (ms_ext_at (ms_DB t) p) ptr = true.
  Variable isz : Z.
  Hypothesis Hisz : ms_layout_end t * BS <= isz.

  Local Notation DB := (ms_DB t).
  Local Notation FB := (ms_FB t).

  Lemma ps_dir_fold p nm dl kids st q X :
    ms_node_at t p = Some (Dir nm dl kids) ->
    s_queue st = (ms_ext_at DB p, dl) :: q -> s_cur st = [] -> s_level st <= 3 ->
    ps_e2i_ok t st X -> (forall j, (j < length kids)%nat -> ~ In (p ++ [j]) X) ->
    exists st2 last',
      ps_fold (ps_record ptr isz) (ps_begin_dir st q (ps_blocks_of (ms_ext_at DB p) dl ++ s_seen st), None)
              (map ms_enc (ms_dir_recs dt t DB FB p)) = POk (st2, last') /\
      ps_end_dir st2 = ps_spec_dir dt t DB FB p dl kids st /\
      ps_e2i_ok t (ps_spec_dir dt t DB FB p dl kids st) (X ++ ps_kid_positions p 0 (length kids)).
  Proof.
    intros Hp Hq Hcur Hlv HE HX.
    rewrite (ms_dir_recs_eq dt t p nm dl kids Hp).
    destruct (ms_parent_facts t Hwf p _ Hp) as (nm' & dl' & kids' & Hpar & Hdl'). rewrite Hdl'.
    destruct (ms_wf_at t Hwf p _ Hp) as [b Hb]. destruct (ms_wf_dir _ _ _ _ Hb) as (_ & _ & Hr & _).
    destruct (ms_wf_at t Hwf _ _ Hpar) as [b' Hb']. destruct (ms_wf_dir _ _ _ _ Hb') as (_ & _ & Hr' & _).
    rewrite ms_BS in Hr, Hr'.
    pose proof (ms_dext_range t Hwf p nm dl kids Hp) as (_ & _ & Hext).
    pose proof (ms_dext_range t Hwf _ nm' dl' kids' Hpar) as (_ & _ & Hext').
    assert (H34 : 34 <= Account.dr_len_of [0] <= 254) by (vm_compute; split; discriminate).
    assert (H34' : 34 <= Account.dr_len_of [1] <= 254) by (vm_compute; split; discriminate).
    destruct (ps_enc_facts dt (ms_ext_at DB p) dl 2 [0] Hdt Hext ltac:(lia) ltac:(lia) H34)
      as (P1 & A1 & B1 & _ & _).
    destruct (ps_enc_facts dt (ms_ext_at DB (removelast p)) dl' 2 [1] Hdt Hext' ltac:(lia) ltac:(lia) H34')
      as (P2 & A2 & B2 & _ & _).
    set (d1 := ms_rec dt (ms_ext_at DB p) dl 2 [0]) in *.
    set (d2 := ms_rec dt (ms_ext_at DB (removelast p)) dl' 2 [1]) in *.
    cbn [map ps_fold].
    (* '.' *)
    rewrite (ps_record_dir ptr isz _ None _ d1 P1 eq_refl eq_refl); cycle 1.
    { intros H. discriminate H. }
    { cbn [ps_begin_dir s_cur]. intros a []. }
    cbv beta iota zeta.
    change (ps_is_dot d1 || ps_is_dotdot d1) with true. cbn [negb]. cbv iota.
    cbn [ps_begin_dir s_dirs s_cur s_queue s_inodes s_e2i s_seen s_level s_lastbyte app length].
    (* '..' *)
    rewrite (ps_record_dir ptr isz _ _ _ d2 P2 eq_refl eq_refl); cycle 1.
    { intros H. discriminate H. }
    { cbn [s_cur]. intros a [<-|[]]. reflexivity. }
    cbv beta iota zeta.
    change (ps_is_dot d2 || ps_is_dotdot d2) with true. cbn [negb]. cbv iota.
    cbn [s_dirs s_cur s_queue s_inodes s_e2i s_seen s_level s_lastbyte app length].
    rewrite A1, B1, A2, B2.
    change (ps_last_cache []) with (1, 0). cbn [fst snd].
    change (ps_step_n 1 0 (Account.dr_len_of [0])) with 1.
    change (ps_step_off 0 (Account.dr_len_of [0])) with 34.
    unfold ps_last_cache. cbn [rev app p_eth p_oth fst snd].
    change (ps_step_n 1 34 (Account.dr_len_of [1])) with 1.
    change (ps_step_off 34 (Account.dr_len_of [1])) with 68.
    change (ps_printable d1) with [46]. change (ps_printable d2) with [46; 46].
    change (ps_level_dir [46]) with 3.
    replace (Z.max (Z.max (s_level st) 3) (ps_level_dir [46; 46])) with 3
      by (change (ps_level_dir [46; 46]) with 3; lia).
    change (Account.dr_len_of [0]) with 34. change (Account.dr_len_of [1]) with 34.
    change (zlen [0]) with 1. change (zlen [1]) with 1.
    change (Z.of_nat 0) with 0. change (Z.of_nat 1) with 1.
    (* children[2:] *)
    match goal with |- context [ps_fold _ (?s, ?l) _] => set (st0 := s); set (l0 := l) end.
    destruct (ps_kids_fold dt Hdt t Hwf Hnm ptr Hptr isz Hisz p nm dl kids Hp kids 0%nat st0 l0 1 68 X eq_refl)
      as [[last' Hfold] HE2].
    { reflexivity. }
    { reflexivity. }
    { reflexivity. }
    { exact HE. }
    { intros j Hj. apply HX. lia. }
    { reflexivity. }
    cbv zeta in Hfold, HE2.
    eexists. exists last'. split; [exact Hfold|].
    assert (Hspec : ps_end_dir (ps_spec_kids dt DB FB p 0 kids
                      (nf_pos BS 1 68 (map Account.dr_len_of (map Account.name_of kids))) st0)
                    = ps_spec_dir dt t DB FB p dl kids st).
    { unfold ps_spec_dir. rewrite Hdl'. fold d1 d2. f_equal. f_equal.
      unfold st0, ps_dot_prec. rewrite Hq. reflexivity. }
    split; [exact Hspec|].
    rewrite <- Hspec. intros e i Hin. cbn [ps_end_dir s_e2i] in Hin. exact (HE2 e i Hin).
  Qed.

  (* the same, from the bytes *)
  Variable img' : image.
  Hypothesis Hok : ms_img_ok img'.
  Hypothesis Hincl : incl (map (ms_chunk dt t DB FB) (ms_dir_positions t)) img'.

  Lemma ps_dir_scan p nm dl kids st q X :
    ms_node_at t p = Some (Dir nm dl kids) ->
    s_queue st = (ms_ext_at DB p, dl) :: q -> s_cur st = [] -> s_level st <= 3 ->
    ps_e2i_ok t st X -> (forall j, (j < length kids)%nat -> ~ In (p ++ [j]) X) ->
    exists data st2 last',
      ms_img_read img' (ms_ext_at DB p) dl = Some data /\
      ps_scan (ps_record ptr isz) (S (length data)) data 0 dl (ps_begin_dir st q (ps_blocks_of (ms_ext_at DB p) dl ++ s_seen st), None)
        = POk (st2, last') /\
      ps_end_dir st2 = ps_spec_dir dt t DB FB p dl kids st /\
      ps_e2i_ok t (ps_spec_dir dt t DB FB p dl kids st) (X ++ ps_kid_positions p 0 (length kids)).
  Proof.
    intros Hp Hq Hcur Hlv HE HX.
    destruct (ps_dir_fold p nm dl kids st q X Hp Hq Hcur Hlv HE HX) as (st2 & last' & Hfold & Hend & HE2).
    exists (snd (ms_chunk dt t DB FB p)), st2, last'.
    split; [exact (ms_master_read_in dt Hdt t Hwf img' p nm dl kids Hok Hincl Hp)|].
    split; [|split; assumption].
    destruct (ms_dir_recs_good dt Hdt t Hwf p nm dl kids Hp) as (HG & HL & _).
    destruct (ms_wf_at t Hwf p _ Hp) as [b Hb].
    destruct (ms_wf_dir _ _ _ _ Hb) as (Hm & Hn & _ & _).
    unfold ms_chunk. cbn [snd]. unfold ms_dlen_at. rewrite Hp.
    rewrite ps_scan_dir; [exact Hfold| |exact Hm|rewrite HL; exact Hn].
    clear -HG. induction HG as [|r x rs bs Hg _ IH]; constructor; [exact (ps_good_bgood _ _ Hg)|exact IH].
  Qed.
End DirAll.

Print Assumptions ps_dir_scan.
