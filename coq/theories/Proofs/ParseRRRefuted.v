(* ParseRR: what is FALSE for the faithful model, by concrete edit histories (all reproduced on the real library,
   scripts under /var/tmp/parserr/).  Every witness is a state rr_run (rr_init v) ops that passes mrr_sizes_ok.

     parse_rr_rejects_nothing_valid_refuted_old   (the code BEFORE commit ac63ee2, parse_rr_gen false) a Rock Ridge name
                     whose 2nd and 3rd bytes are 'XA' (1.10 / 1.12: the NM entry opens the System Use area, so these are
                     bytes 6..7 of it): XARecord.parse took the area for a Yellow Book record, open raised 'Unused fields
                     should be 0' (repro_xa_name.py); with the repaired probe the same image opens
     parse_rr_version_110_ok / parse_rr_rr_in_ce_ok   regression witnesses for two defects this model found and /repo
                     repaired: 1.10 was reopened as 1.09 (before 2755ef8; repro_version_110.py); a 1.09 record whose RR
                     entry lies in the continuation area made open raise 'Inconsistent Rock Ridge versions' (between
                     2755ef8 and 26337bc; repro_rr_in_ce.py).  Both now reopen with the writer's version.
     prr_dup_now_refused                      before 86e3993 add_directory accepted a second record of the same name
                     inside a directory called RR_MOVED; open listed the two in the opposite order and open + write was
                     not a fixpoint (repro_rrmoved_dups.py).  The edit is refused now (AccountRR.dup_allowed = false).
     prr_reopen_step_refuted                  after open pvd.rr_ce_blocks is in WALK order, not in creation order: the
                     same add_fp lands in another continuation block on the reopened object than on the never-closed
                     original; the images differ (repro_block_order.py)
     prr_reopen_space_refuted                 ... and a few edits later even the volume sizes differ *)
From Coq Require Import ZArith List Bool Lia.
From PV.Base Require Import Prim.
From PV.Model Require Import RREntries RRWalk ParseCore AccountRR MasterRR ParseRR ParseRRSpec.
From PV.Model Require Master.
Import ListNotations.
Local Open Scope Z_scope.

Definition prr_dt0 : list Z := [123; 11; 14; 22; 13; 20; 0].

(* open(write(s)) on the model: the graph, or the answer of the parser *)
Definition prr_reopen_gen (xafix : bool) (s : rstate) : presult rgraph :=
  match master_rr prr_dt0 s with
  | Some img => parse_rr_gen xafix (prr_fuel s) img (mrr_root_extent s) (mrr_root_len s)
  | None => PFuel
  end.
Definition prr_reopen := prr_reopen_gen true.
Definition prr_reopen_state (s : rstate) : option rstate :=
  match prr_reopen s with
  | POk g => Some (state_of (prr_pvd s) (mrr_root_len s) g)
  | _ => None
  end.

(* ---- 1. a valid image that cannot be opened ----------------------------------------------------------------- *)
Definition prr_w_xa : list rop := [RAddFile [] [65; 46; 59; 49] [97; 88; 65] 1].          (* /A.;1, rr_name 'aXA' *)

Theorem parse_rr_rejects_nothing_valid_refuted_old :
  exists v ops, let s := rr_run (rr_init v) ops in
    v <> V_unset /\ mrr_wf prr_dt0 s = true /\ mrr_sizes_ok s = true /\ prr_tree_ok s = true /\
    prr_reopen_gen false s = PInvalid 10 /\ prr_reopen s = POk (graph_of prr_dt0 s).
Proof. exists V112, prr_w_xa. split; [discriminate|]. repeat split; vm_compute; reflexivity. Qed.

(* ---- 2. the version survives the round trip (regressions of two repaired defects) -------------------------------- *)
Theorem parse_rr_version_110_ok :
  let s := rr_run (rr_init V110) [] in
  exists g, prr_reopen s = POk g /\ g_ver g = V110 /\ g = graph_of prr_dt0 s /\
            r_ver (state_of (prr_pvd s) (mrr_root_len s) g) = r_ver s.
Proof. cbv zeta. eexists. split; [vm_compute; reflexivity|]. repeat split; vm_compute; reflexivity. Qed.

(* /AAA...A.;1 with a 190-byte identifier: dr_len 254 - 28, the 5-byte RR entry itself goes to the continuation area *)
Definition prr_w_rrce : list rop := [RAddFile [] (repeat 65 190 ++ [46; 59; 49]) [97] 1].
Theorem parse_rr_rr_in_ce_ok :
  let s := rr_run (rr_init V109) prr_w_rrce in
  snd (rr_step (rr_init V109) (hd (RRmDir []) prr_w_rrce)) = true /\ mrr_wf prr_dt0 s = true /\
  exists g, prr_reopen s = POk g /\ g_ver g = V109 /\ g = graph_of prr_dt0 s.
Proof.
  cbv zeta. split; [vm_compute; reflexivity|]. split; [vm_compute; reflexivity|].
  eexists. split; [vm_compute; reflexivity|]. split; vm_compute; reflexivity.
Qed.

(* ---- 3. duplicates inside RR_MOVED are refused now ------------------------------------------------------------------ *)
Definition prr_w_dup : list rop :=
  [RAddDir [] RR_MOVED [113]; RAddDir [RR_MOVED] [88] [102; 105; 114; 115; 116]].
Theorem prr_dup_now_refused :
  snd (rr_step (rr_run (rr_init V109) prr_w_dup) (RAddDir [RR_MOVED] [88] [115; 101; 99; 111; 110; 100])) = false.
Proof. vm_compute. reflexivity. Qed.

(* ---- 4. the order of the continuation blocks after open ------------------------------------------------------------ *)
(* /D ; /D/A.;1 with a 1200-byte name (block 0, first used below /D) ; /B.;1 with a 1200-byte name (block 1, first used
   in the root).  The walk meets block 1 first. *)
Definition prr_w_order : list rop :=
  [RAddDir [] [68] [100];
   RAddFile [[68]] [65; 46; 59; 49] (repeat 97 1200) 1;
   RAddFile [] [66; 46; 59; 49] (repeat 98 1200) 1].
Definition prr_w_order_op : rop := RAddFile [] [67; 46; 59; 49] (repeat 99 400) 1.

Theorem prr_reopen_step_refuted :
  let s := rr_run (rr_init V109) prr_w_order in
  mrr_wf prr_dt0 s = true /\ mrr_sizes_ok s = true /\ prr_tree_ok s = true /\
  exists s', prr_reopen_state s = Some s' /\
    (* the reopened state masters to the same image ... *)
    prr_opt_image_eqb (master_rr prr_dt0 s') (master_rr prr_dt0 s) = true /\
    map snd (r_blocks s) = [[(0, 1109)]; [(0, 1109)]] /\ ce_extents s = [26; 24] /\ ce_extents s' = [24; 26] /\
    (* ... but the same accepted edit gives different images *)
    snd (rr_step s prr_w_order_op) = true /\ snd (rr_step s' prr_w_order_op) = true /\
    prr_opt_image_eqb (master_rr prr_dt0 (fst (rr_step s' prr_w_order_op)))
                      (master_rr prr_dt0 (fst (rr_step s prr_w_order_op))) = false.
Proof.
  cbv zeta. split; [vm_compute; reflexivity|]. split; [vm_compute; reflexivity|]. split; [vm_compute; reflexivity|].
  eexists. split; [vm_compute; reflexivity|]. repeat split; vm_compute; reflexivity.
Qed.

(* the original keeps the block /D/A.;1 lived in (the new record went there); the reopened object frees it *)
Definition prr_w_space_ops : list rop := [prr_w_order_op; RRmFile [[68]] [65; 46; 59; 49]].
Theorem prr_reopen_space_refuted :
  let s := rr_run (rr_init V112) prr_w_order in
  mrr_wf prr_dt0 s = true /\ mrr_sizes_ok s = true /\ prr_tree_ok s = true /\
  exists s', prr_reopen_state s = Some s' /\
    fst (prr_flags s prr_w_space_ops) = [true; true] /\ fst (prr_flags s' prr_w_space_ops) = [true; true] /\
    r_space (snd (prr_flags s prr_w_space_ops)) = 30 /\ r_space (snd (prr_flags s' prr_w_space_ops)) = 29.
Proof.
  cbv zeta. split; [vm_compute; reflexivity|]. split; [vm_compute; reflexivity|]. split; [vm_compute; reflexivity|].
  eexists. split; [vm_compute; reflexivity|]. repeat split; vm_compute; reflexivity.
Qed.

Print Assumptions parse_rr_rejects_nothing_valid_refuted_old.
Print Assumptions parse_rr_version_110_ok.
Print Assumptions parse_rr_rr_in_ce_ok.
Print Assumptions prr_dup_now_refused.
Print Assumptions prr_reopen_step_refuted.
Print Assumptions prr_reopen_space_refuted.
