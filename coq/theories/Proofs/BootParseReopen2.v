(* C11 / C02 -- Model/BootParse.v, part 11: the reopened state also satisfies [PInv] (so the parse theorems
   apply again after any number of edit / write / open rounds). *)
From Coq Require Import ZArith List Bool Lia ZifyBool Sorted Arith Permutation.
From PV.Base Require Import Prim.
From PV.Gen Require Import GenConst GenFun.
From PV.Model Require Import Names Checksums Pack Alloc Codec Eltorito Account AccountLinks AccountBoot BootParse.
From PV.Proofs Require Import PackProofs AllocProofs ChecksumsArithProofs AccountLemmas AccountProofs
     AccountLinksLemmas AccountLinksPurge AccountLinksInv EltoritoCatalogProofs EltoritoBuiltProofs
     AccountBootLemmas AccountBootInv AccountBootInv2 AccountBootFix AccountBootProofs BootParseLayout
     BootParseCat BootParseWalk BootParseLink BootParseTable BootParseProofs BootParseReopen BootParseInv BootParseInv2.
Import ListNotations.
Local Open Scope Z_scope.
Ltac Zify.zify_post_hook ::= Z.to_euclidean_division_equations.

Lemma bp_zsum_le {A} (f g : A -> Z) : forall l, (forall x, In x l -> f x <= g x) ->
  Alloc.zsum (map f l) <= Alloc.zsum (map g l).
Proof.
  induction l as [|a r IH]; intros H; [cbn; lia|]. cbn [map]. rewrite !zsum_cons.
  pose proof (H a (or_introl eq_refl)).
  assert (Alloc.zsum (map f r) <= Alloc.zsum (map g r)) by (apply IH; intros; apply H; right; assumption). lia.
Qed.

Section Reopen2.
  Variable fx : bp_code.
  Variable s : bstate.
  Hypothesis HI : BInv s.
  Hypothesis HF : BFix s.
  Hypothesis HP : PInv s.

  (* a record whose new inode number is not the name of an Inode of the reopened object has no inode *)
  Lemma bp_relabel_not_in_t nm i st : In (LFile nm i st) (lvisit (bl s)) ->
    ~ In (bp_relabel (lnext (bl s)) (linodes (bl s)) i st) (ids (linodes (bl (reopened_gen fx s)))) ->
    has_ino i (linodes (bl s)) = false /\ bp_relabel (lnext (bl s)) (linodes (bl s)) i st = i.
  Proof.
    intros Hv Hn. unfold bp_relabel in *. destruct (has_ino i (linodes (bl s))) eqn:Hh; [|split; reflexivity].
    exfalso. apply Hn. rewrite (bp_t_split fx s). unfold ids. rewrite map_app. apply in_or_app. left.
    destruct (Z.eqb_spec (len_of i (linodes (bl s))) 0) as [E|E]; cbn [andb].
    - eapply bp_in_ids. apply (bp_named_covers0 _ _ nm i st); assumption.
    - eapply bp_in_ids. apply (bp_named_covers _ _ nm i st); [exact Hv|exact Hh|exact E|reflexivity].
  Qed.

  Theorem bp_reopened_pinv : PInv (reopened_gen fx s).
  Proof.
    pose proof (bp_r_bl fx s) as Hbl.
    constructor; rewrite Hbl; cbn [lroot linodes lnext].
    - intros st. unfold bp_stcount. rewrite (bp_ltotal_lmap_same (lw_st st)); [apply (pi_st_le s HP)|intros [? ? ?|? ? ?]; reflexivity].
    - intros st Hst. unfold bp_stcount. rewrite (bp_ltotal_lmap_same (lw_st st)); [|intros [? ? ?|? ? ?]; reflexivity].
      apply (pi_st_fresh s HP). unfold bp_fake in Hst. lia.
    - intros k Hk. apply bp_refcount_lmap_pos in Hk. destruct Hk as (nm & i & st & Hv & <-).
      destruct (in_dec Nat.eq_dec (bp_relabel (lnext (bl s)) (linodes (bl s)) i st) (ids (linodes (bl (reopened_gen fx s)))))
        as [Hin|Hnin]; [left; exact Hin|right].
      destruct (bp_relabel_not_in_t nm i st Hv Hnin) as [Hh ->].
      pose proof (bp_visit_ref (bl s) nm i st Hv) as Hr.
      destruct (pi_cat s HP i Hr) as [H|H]; [apply ab_has_ino_in in H; congruence|].
      unfold reopened_gen. destruct (bboot s) as [b|]; [|discriminate]. cbn [bboot in_cat cat_recs].
      pose proof (bp_noino_in (linodes (bl s)) nm i st _ Hv Hh) as Hm.
      destruct (noino_labels (linodes (bl s)) (lvisit (bl s))); [discriminate|exact Hm].
    - intros j Hj. rewrite bp_refcount_lmap.
      destruct (Z_lt_le_dec 0 (Alloc.zsum (map (fun n => lw_ref j (bp_rl (bp_relabel (lnext (bl s)) (linodes (bl s))) (hdr n))) (lvisit (bl s)))))
        as [Hpos|Hz]; [|lia].
      assert (Hle : Alloc.zsum (map (fun n => lw_ref j (bp_rl (bp_relabel (lnext (bl s)) (linodes (bl s))) (hdr n))) (lvisit (bl s)))
                    <= lrefcount j (lroot (bl s))).
      { unfold lrefcount. rewrite <- (lvisit_sum (lw_ref j) (bl s)). apply bp_zsum_le.
        intros [nm i st|nm dl kids] Hn; cbn [hdr bp_rl]; [|cbn; lia]. rewrite !lw_ref_file.
        destruct (Nat.eqb_spec (bp_relabel (lnext (bl s)) (linodes (bl s)) i st) j) as [E|E]; [|destruct (Nat.eqb i j); lia].
        rewrite <- E in Hj. destruct (bp_relabel_not_in_t nm i st Hn Hj) as [_ E2]. rewrite E2 in E. subst. rewrite Nat.eqb_refl. lia. }
      rewrite <- bp_refcount_lmap in Hpos. apply bp_refcount_lmap_pos in Hpos. destruct Hpos as (nm & i & st & Hv & E).
      rewrite <- E in Hj. destruct (bp_relabel_not_in_t nm i st Hv Hj) as [Hh E2]. rewrite E2 in E. subst i.
      apply bp_has_ino_false in Hh. pose proof (pi_one s HP j Hh). lia.
  Qed.
End Reopen2.

Print Assumptions bp_reopened_pinv.
