(* Reference counts in the abstract file system FsSpec: the multiplicity of a blob in
   [live_blobs] is the number of references to it (names in the three namespaces + El Torito
   boot entries).  Hard-link semantics = "content lives exactly as long as its last reference". *)
From Coq Require Import ZArith List Bool Lia Arith.
From PV.Base Require Import ListX.
From PV.Spec Require Import FsSpec.
From PV.Proofs Require Import FsSpecProofs.
Import ListNotations.

Definition refs (s : fs) (b : Z) : nat := count_occ Z.eq_dec (live_blobs s) b.

(* ---------------------------------------------------------------- counting, generically *)
Definition wk (k : kind) (b : Z) : nat :=
  match k with KFile b' => if Z.eq_dec b' b then 1 else 0 | _ => 0 end.
Definition w (e : entry) (b : Z) : nat := wk (e_kind e) b.
Definition cnt (l : list entry) (b : Z) : nat := count_occ Z.eq_dec (blobs_of l) b.
Definition boot_list (s : fs) : list Z := match f_boot s with Some bt => b_blobs bt | None => [] end.
Definition boot_refs (s : fs) (b : Z) : nat := count_occ Z.eq_dec (boot_list s) b.
Definition names (s : fs) (b : Z) : nat := cnt (f_iso s) b + cnt (f_jol s) b + cnt (f_udf s) b.
Definition nopt {A} (o : option A) : nat := match o with Some _ => 1 | None => 0 end.

Lemma wk_same b : wk (KFile b) b = 1.
Proof. unfold wk. destruct (Z.eq_dec b b); [reflexivity|congruence]. Qed.

Lemma wk_other b b' : b' <> b -> wk (KFile b) b' = 0.
Proof. intros H. unfold wk. destruct (Z.eq_dec b b'); [congruence|reflexivity]. Qed.

Lemma cnt_cons e l b : cnt (e :: l) b = w e b + cnt l b.
Proof.
  unfold cnt, w, wk, blobs_of. cbn [flat_map]. rewrite count_occ_app.
  destruct (e_kind e) as [|b'|t]; cbn [count_occ]; reflexivity.
Qed.

Lemma cnt_app l1 l2 b : cnt (l1 ++ l2) b = cnt l1 b + cnt l2 b.
Proof.
  induction l1 as [|a l1 IH]; [reflexivity|].
  rewrite <- app_comm_cons, !cnt_cons, IH. lia.
Qed.

Lemma cnt_snoc l p k rr b : cnt (l ++ [mk p k rr]) b = cnt l b + wk k b.
Proof. rewrite cnt_app, cnt_cons. unfold w. cbn [mk e_kind]. change (cnt [] b) with 0. lia. Qed.

Lemma cnt_zero l b : (forall e, In e l -> w e b = 0) -> cnt l b = 0.
Proof.
  induction l as [|a l IH]; intros H; [reflexivity|].
  rewrite cnt_cons, (H a (or_introl eq_refl)), IH; [reflexivity|].
  intros e He. apply H. right. exact He.
Qed.

(* filtering out entries that carry no reference to b keeps b's count *)
Lemma cnt_filter_keep f l b : (forall e, In e l -> f e = false -> w e b = 0) -> cnt (filter f l) b = cnt l b.
Proof.
  induction l as [|a l IH]; intros H; [reflexivity|]. cbn [filter].
  assert (IH' : cnt (filter f l) b = cnt l b) by (apply IH; intros e He; apply H; right; exact He).
  destruct (f a) eqn:Ea; rewrite !cnt_cons, IH'; [reflexivity|].
  rewrite (H a (or_introl eq_refl) Ea). reflexivity.
Qed.

Lemma cnt_map f l b : (forall e, In e l -> w (f e) b = w e b) -> cnt (map f l) b = cnt l b.
Proof.
  induction l as [|a l IH]; intros H; [reflexivity|]. cbn [map].
  rewrite !cnt_cons, (H a (or_introl eq_refl)), IH; [reflexivity|].
  intros e He. apply H. right. exact He.
Qed.

(* a path occurs at most once, so removing it removes exactly one entry *)
Lemma remove_path_notin l p : ~ In p (map e_path l) -> remove_path l p = l.
Proof.
  unfold remove_path. induction l as [|a l IH]; cbn [filter map]; intros H; [reflexivity|].
  destruct (path_eqb (e_path a) p) eqn:E.
  - apply path_eqb_eq in E. exfalso. apply H. left. exact E.
  - cbn [negb]. f_equal. apply IH. intros Hin. apply H. right. exact Hin.
Qed.

Lemma cnt_remove_path l p e b :
  NoDup (map e_path l) -> lookup l p = Some e -> cnt l b = w e b + cnt (remove_path l p) b.
Proof.
  unfold lookup. induction l as [|a l IH]; cbn [find map]; intros Hnd Hl; [discriminate|].
  apply NoDup_cons_iff in Hnd. destruct Hnd as [Ha Hnd].
  assert (R : remove_path (a :: l) p = if path_eqb (e_path a) p then remove_path l p else a :: remove_path l p).
  { unfold remove_path. cbn [filter]. destruct (path_eqb (e_path a) p); reflexivity. }
  rewrite R. destruct (path_eqb (e_path a) p) eqn:E.
  - inversion Hl; subst a. apply path_eqb_eq in E.
    rewrite remove_path_notin by (rewrite <- E; exact Ha). apply cnt_cons.
  - rewrite !cnt_cons, (IH Hnd Hl). lia.
Qed.

Lemma cnt_drop_same b l : cnt (drop_blob b l) b = 0.
Proof.
  apply cnt_zero. intros e He. unfold drop_blob in He. apply filter_In in He. destruct He as [_ Hf].
  unfold w, wk. destruct (e_kind e) as [|b'|t]; try reflexivity.
  destruct (Z.eq_dec b' b) as [->|]; [|reflexivity]. rewrite Z.eqb_refl in Hf. discriminate.
Qed.

Lemma cnt_drop_other b l b' : b' <> b -> cnt (drop_blob b l) b' = cnt l b'.
Proof.
  intros Hne. unfold drop_blob. apply cnt_filter_keep. intros e _ Hf. unfold w.
  destruct (e_kind e) as [|b0|t]; try discriminate.
  apply negb_false_iff, Z.eqb_eq in Hf. subst b0. apply wk_other. exact Hne.
Qed.

Lemma cnt_set_hidden l p h b : cnt (set_hidden_in l p h) b = cnt l b.
Proof.
  unfold set_hidden_in. apply cnt_map. intros e _. destruct (path_eqb (e_path e) p); reflexivity.
Qed.

(* ---------------------------------------------------------------- refs, per component *)
Lemma refs_split s b : refs s b = cnt (f_iso s) b + cnt (f_jol s) b + cnt (f_udf s) b + boot_refs s b.
Proof. unfold refs, live_blobs, cnt, boot_refs, boot_list. rewrite !count_occ_app. lia. Qed.

Lemma refs_names s b : refs s b = names s b + boot_refs s b.
Proof. apply refs_split. Qed.

Lemma refs_mk i j u bo b :
  refs {| f_iso := i; f_jol := j; f_udf := u; f_boot := bo |} b =
  cnt i b + cnt j b + cnt u b + count_occ Z.eq_dec (match bo with Some bt => b_blobs bt | None => [] end) b.
Proof. apply refs_split. Qed.

Lemma refs_set_ns s n l b : refs (set_ns s n l) b + cnt (get_ns s n) b = refs s b + cnt l b.
Proof.
  destruct n; unfold set_ns; rewrite refs_mk, (refs_split s b); cbn [get_ns]; unfold boot_refs, boot_list; lia.
Qed.

Lemma refs_add_name s n p k rr b : refs (set_ns s n (get_ns s n ++ [mk p k rr])) b = refs s b + wk k b.
Proof. pose proof (refs_set_ns s n (get_ns s n ++ [mk p k rr]) b) as H. rewrite cnt_snoc in H. lia. Qed.

Lemma refs_rm_name s n p e b :
  NoDup (map e_path (get_ns s n)) -> lookup (get_ns s n) p = Some e ->
  refs s b = wk (e_kind e) b + refs (set_ns s n (remove_path (get_ns s n) p)) b.
Proof.
  intros Hnd Hl. pose proof (refs_set_ns s n (remove_path (get_ns s n) p) b) as H.
  pose proof (cnt_remove_path _ _ _ b Hnd Hl) as H2. unfold w in H2. lia.
Qed.

Lemma boot_refs_zero s b : is_boot_blob s b = false -> boot_refs s b = 0.
Proof.
  unfold is_boot_blob, boot_refs, boot_list. destruct (f_boot s) as [bt|]; [|reflexivity].
  intros H. apply count_occ_not_In. intros Hin.
  assert (H1 : existsb (Z.eqb b) (b_blobs bt) = true).
  { apply existsb_exists. exists b. split; [exact Hin|apply Z.eqb_refl]. }
  congruence.
Qed.

Lemma live_iff s b : In b (live_blobs s) <-> refs s b > 0.
Proof. apply count_occ_In. Qed.

Lemma not_live_iff s b : ~ In b (live_blobs s) <-> refs s b = 0.
Proof. apply count_occ_not_In. Qed.

(* ---------------------------------------------------------------- 1. add_hard_link *)
Theorem refs_add_link s n0 p0 n p rr s' b :
  step s (AddLink (SrcPath n0 p0) n p rr) = (s', Ok) -> blob_of (get_ns s n0) p0 = Some b ->
  refs s' b = S (refs s b) /\ forall b', b' <> b -> refs s' b' = refs s b'.
Proof.
  intros Hs Hb. cbn [step] in Hs. destruct (is_catalog_name s n0 p0); [discriminate|].
  rewrite Hb in Hs. destruct (can_add (get_ns s n) p); [|discriminate].
  inversion Hs; subst s'. split; [|intros b' Hne]; rewrite refs_add_name.
  - rewrite wk_same. lia.
  - rewrite (wk_other b b' Hne). lia.
Qed.

(* a link to the boot catalog is one more reference to [catalog_blob] *)
Theorem refs_add_link_catalog s n p rr s' :
  step s (AddLink SrcBootCatalog n p rr) = (s', Ok) ->
  forall x, refs s' x = refs s x + wk (KFile catalog_blob) x.
Proof.
  intros Hs x. cbn [step] in Hs. destruct (f_boot s) as [bt|] eqn:Eb; [|discriminate].
  destruct (can_add (get_ns s n) p); [|discriminate].
  rewrite <- (refs_add_name s n p (KFile catalog_blob) rr x).
  destruct n; cbn [set_ns f_boot f_iso f_jol f_udf] in Hs; rewrite Eb in Hs; inversion Hs;
    unfold set_ns; rewrite !refs_mk; rewrite Eb; reflexivity.
Qed.

(* ---------------------------------------------------------------- 2. rm_hard_link *)
Theorem refs_rm_link s n p s' e b :
  wf_fs s -> step s (RmLink n p) = (s', Ok) -> lookup (get_ns s n) p = Some e -> e_kind e = KFile b ->
  refs s b = S (refs s' b) /\ forall b', b' <> b -> refs s' b' = refs s b'.
Proof.
  intros Hw Hs Hl Hk. destruct (wf_get s n Hw) as [Hnd _].
  cbn [step] in Hs. rewrite Hl, Hk in Hs. inversion Hs; subst s'.
  split; [|intros b' Hne]; rewrite (refs_rm_name s n p e _ Hnd Hl), Hk.
  - rewrite wk_same. lia.
  - rewrite (wk_other b b' Hne). lia.
Qed.

Theorem refs_rm_link_symlink s n p s' e t :
  wf_fs s -> step s (RmLink n p) = (s', Ok) -> lookup (get_ns s n) p = Some e -> e_kind e = KSym t ->
  forall x, refs s' x = refs s x.
Proof.
  intros Hw Hs Hl Hk x. destruct (wf_get s n Hw) as [Hnd _].
  cbn [step] in Hs. rewrite Hl, Hk in Hs.
  rewrite (refs_rm_name s n p e x Hnd Hl), Hk. destruct n; inversion Hs; reflexivity.
Qed.

Corollary rm_link_content_survives s n p s' e b :
  wf_fs s -> step s (RmLink n p) = (s', Ok) -> lookup (get_ns s n) p = Some e -> e_kind e = KFile b ->
  2 <= refs s b -> In b (live_blobs s').
Proof.
  intros Hw Hs Hl Hk H2. destruct (refs_rm_link s n p s' e b Hw Hs Hl Hk) as [H _].
  apply live_iff. lia.
Qed.

Corollary rm_link_last_releases s n p s' e b :
  wf_fs s -> step s (RmLink n p) = (s', Ok) -> lookup (get_ns s n) p = Some e -> e_kind e = KFile b ->
  refs s b = 1 -> ~ In b (live_blobs s').
Proof.
  intros Hw Hs Hl Hk H1. destruct (refs_rm_link s n p s' e b Hw Hs Hl Hk) as [H _].
  apply not_live_iff. lia.
Qed.

(* ---------------------------------------------------------------- 3. rm_file *)
Theorem refs_rm_file s n p s' e b :
  step s (RmFile n p) = (s', Ok) -> lookup (get_ns s n) p = Some e -> e_kind e = KFile b -> b <> 0%Z ->
  refs s' b = 0 /\ forall b', b' <> b -> refs s' b' = refs s b'.
Proof.
  intros Hs Hl Hk Hb. cbn [step] in Hs. rewrite Hl, Hk in Hs.
  destruct (is_catalog_name s n p); [discriminate|]. cbn [orb] in Hs.
  replace (b =? 0)%Z with false in Hs by (symmetry; apply Z.eqb_neq; exact Hb). cbn [negb andb] in Hs.
  destruct (is_boot_blob s b) eqn:Eb; [discriminate|]. inversion Hs; subst s'.
  split; [|intros b' Hne]; rewrite refs_mk.
  - rewrite !cnt_drop_same. apply (boot_refs_zero s b Eb).
  - rewrite !cnt_drop_other by exact Hne. symmetry. apply refs_split.
Qed.

(* a data-less placeholder (blob 0) is removed like a single name *)
Theorem refs_rm_file_placeholder s n p s' e :
  wf_fs s -> step s (RmFile n p) = (s', Ok) -> lookup (get_ns s n) p = Some e -> e_kind e = KFile 0%Z ->
  refs s 0%Z = S (refs s' 0%Z) /\ forall b', b' <> 0%Z -> refs s' b' = refs s b'.
Proof.
  intros Hw Hs Hl Hk. destruct (wf_get s n Hw) as [Hnd _].
  cbn [step] in Hs. rewrite Hl, Hk in Hs. cbn [Z.eqb negb andb] in Hs.
  destruct (is_catalog_name s n p || false); [discriminate|]. inversion Hs; subst s'.
  split; [|intros b' Hne]; rewrite (refs_rm_name s n p e _ Hnd Hl), Hk.
  - rewrite wk_same. lia.
  - rewrite (wk_other _ b' Hne). lia.
Qed.

Theorem rm_file_refused_when_boot s n p e b :
  lookup (get_ns s n) p = Some e -> e_kind e = KFile b -> b <> 0%Z -> is_boot_blob s b = true ->
  step s (RmFile n p) = (s, Refused).
Proof.
  intros Hl Hk Hb Hboot. cbn [step]. rewrite Hl, Hk, Hboot.
  replace (b =? 0)%Z with false by (symmetry; apply Z.eqb_neq; exact Hb).
  cbn [negb andb]. rewrite orb_true_r. reflexivity.
Qed.

(* ---------------------------------------------------------------- 4. add_fp (and the other triple adders) *)
Definition add3 (s : fs) (k : kind) (iso : option (path * Z)) (jol udf : option path) : fs :=
  let s1 := match iso with Some (p, rr) => set_ns s NsIso (f_iso s ++ [mk p k rr]) | None => s end in
  let s2 := match jol with Some p => set_ns s1 NsJoliet (f_jol s1 ++ [mk p k 0%Z]) | None => s1 end in
  let s3 := match udf with Some p => set_ns s2 NsUdf (f_udf s2 ++ [mk p k 0%Z]) | None => s2 end in
  s3.

Lemma add3_boot s k iso jol udf : f_boot (add3 s k iso jol udf) = f_boot s.
Proof. destruct iso as [[? ?]|], jol, udf; reflexivity. Qed.

Lemma refs_add3 s k iso jol udf b :
  refs (add3 s k iso jol udf) b = refs s b + (nopt iso + nopt jol + nopt udf) * wk k b.
Proof.
  unfold add3. destruct iso as [[pi ri]|], jol as [pj|], udf as [pu|];
    cbn [nopt set_ns f_iso f_jol f_udf f_boot]; rewrite ?refs_mk, (refs_split s b), ?cnt_snoc;
    unfold boot_refs, boot_list; lia.
Qed.

Theorem refs_add_fp s blob iso jol udf s' :
  step s (AddFp blob iso jol udf) = (s', Ok) ->
  refs s' blob = refs s blob + (nopt iso + nopt jol + nopt udf) /\
  forall b', b' <> blob -> refs s' b' = refs s b'.
Proof.
  intros Hs. cbn [step] in Hs.
  match type of Hs with context [if ?c then _ else _] => destruct c end; [|discriminate].
  assert (Hs' : s' = add3 s (KFile blob) iso jol udf) by (inversion Hs; reflexivity). subst s'.
  split; [|intros b' Hne]; rewrite refs_add3.
  - rewrite wk_same. lia.
  - rewrite (wk_other blob b' Hne). lia.
Qed.

(* ---------------------------------------------------------------- 5. El Torito *)
Theorem refs_add_eltorito s bf cat crr cjol cudf s' b :
  step s (AddEltorito bf cat crr cjol cudf) = (s', Ok) -> blob_of (f_iso s) bf = Some b ->
  forall x, refs s' x = refs s x + (if Z.eq_dec x b then 1 else 0) +
                        (if Z.eq_dec x catalog_blob then 1 + nopt cjol + nopt cudf else 0).
Proof.
  intros Hs Hb x. cbn [step] in Hs. rewrite Hb in Hs. destruct (f_boot s) as [bt|] eqn:Eboot; [discriminate|].
  match type of Hs with context [if ?c then _ else _] => destruct c end; [|discriminate].
  set (s3 := add3 s (KFile catalog_blob) (Some (cat, crr)) cjol cudf).
  pose proof (refs_add3 s (KFile catalog_blob) (Some (cat, crr)) cjol cudf x) as H3. fold s3 in H3.
  pose proof (add3_boot s (KFile catalog_blob) (Some (cat, crr)) cjol cudf) as B3. fold s3 in B3.
  assert (E : refs s' x = cnt (f_iso s3) x + cnt (f_jol s3) x + cnt (f_udf s3) x + count_occ Z.eq_dec [b] x).
  { inversion Hs. rewrite refs_mk. reflexivity. }
  rewrite E. rewrite (refs_split s3 x) in H3. unfold boot_refs, boot_list in H3. rewrite B3, Eboot in H3.
  cbn [count_occ nopt] in *. unfold wk in H3.
  destruct (Z.eq_dec b x), (Z.eq_dec x b), (Z.eq_dec catalog_blob x), (Z.eq_dec x catalog_blob); try congruence; lia.
Qed.

Theorem refs_add_eltorito_section s bf s' b :
  step s (AddEltoritoSection bf) = (s', Ok) -> blob_of (f_iso s) bf = Some b ->
  refs s' b = S (refs s b) /\ forall b', b' <> b -> refs s' b' = refs s b'.
Proof.
  intros Hs Hb. cbn [step] in Hs. rewrite Hb in Hs. destruct (f_boot s) as [bt|] eqn:Eboot; [|discriminate].
  match type of Hs with context [if ?c then _ else _] => destruct c end; [|discriminate].
  inversion Hs; subst s'.
  split; [|intros b' Hne]; rewrite refs_mk, refs_split; unfold boot_refs, boot_list; rewrite Eboot;
    cbn [b_blobs]; rewrite count_occ_app; cbn [count_occ].
  - destruct (Z.eq_dec b b); [lia|congruence].
  - destruct (Z.eq_dec b b'); [congruence|lia].
Qed.

Theorem refs_rm_eltorito s s' bt :
  step s RmEltorito = (s', Ok) -> f_boot s = Some bt ->
  refs s' catalog_blob = 0 /\
  forall x, x <> catalog_blob ->
    refs s x = refs s' x + count_occ Z.eq_dec (b_blobs bt) x /\ refs s' x = names s x.
Proof.
  intros Hs Eboot. cbn [step] in Hs. rewrite Eboot in Hs. inversion Hs; subst s'.
  split; [|intros x Hx]; rewrite !refs_mk.
  - rewrite !cnt_drop_same. reflexivity.
  - rewrite !cnt_drop_other by exact Hx. rewrite refs_split. unfold boot_refs, boot_list, names.
    rewrite Eboot. cbn [count_occ]. lia.
Qed.

Corollary refs_rm_eltorito_unrelated s s' bt x :
  step s RmEltorito = (s', Ok) -> f_boot s = Some bt ->
  x <> catalog_blob -> ~ In x (b_blobs bt) -> refs s' x = refs s x.
Proof.
  intros Hs Eb Hx Hn. destruct (refs_rm_eltorito s s' bt Hs Eb) as [_ H]. destruct (H x Hx) as [H1 _].
  apply (count_occ_not_In Z.eq_dec) in Hn. lia.
Qed.

(* a boot file keeps every one of its names: entries not bound to the catalog survive unchanged,
   so the number of names of any other blob is the same in each namespace *)
Theorem rm_eltorito_keeps_names s s' :
  step s RmEltorito = (s', Ok) ->
  (forall m e, In e (get_ns s m) -> e_kind e <> KFile catalog_blob -> In e (get_ns s' m)) /\
  (forall m x, x <> catalog_blob -> cnt (get_ns s' m) x = cnt (get_ns s m) x).
Proof.
  intros Hs. cbn [step] in Hs. destruct (f_boot s); [|discriminate]. inversion Hs; subst s'. split.
  - intros m e He Hk.
    assert (D : forall l, In e l -> In e (drop_blob catalog_blob l)).
    { intros l Hin. unfold drop_blob. apply filter_In. split; [exact Hin|].
      destruct (e_kind e) as [|b'|t]; try reflexivity.
      apply negb_true_iff, Z.eqb_neq. congruence. }
    destruct m; cbn [get_ns f_iso f_jol f_udf] in *; apply D; exact He.
  - intros m x Hx. destruct m; cbn [get_ns f_iso f_jol f_udf]; apply cnt_drop_other; exact Hx.
Qed.

(* a blob whose only references were boot entries (no name anywhere) is no longer live *)
Corollary rm_eltorito_releases_boot_only s s' x :
  step s RmEltorito = (s', Ok) -> names s x = 0 -> ~ In x (live_blobs s').
Proof.
  intros Hs Hn. apply not_live_iff. pose proof Hs as Hs0. cbn [step] in Hs0.
  destruct (f_boot s) as [bt|] eqn:Eb; [|discriminate]. clear Hs0.
  destruct (refs_rm_eltorito s s' bt Hs Eb) as [Hc H].
  destruct (Z.eq_dec x catalog_blob) as [->|Hx]; [exact Hc|]. destruct (H x Hx) as [_ H2]. lia.
Qed.

Theorem refs_eltorito :
  (forall s bf cat crr cjol cudf s' b,
     step s (AddEltorito bf cat crr cjol cudf) = (s', Ok) -> blob_of (f_iso s) bf = Some b ->
     forall x, refs s' x = refs s x + (if Z.eq_dec x b then 1 else 0) +
                           (if Z.eq_dec x catalog_blob then 1 + nopt cjol + nopt cudf else 0)) /\
  (forall s s' bt, step s RmEltorito = (s', Ok) -> f_boot s = Some bt ->
     refs s' catalog_blob = 0 /\
     forall x, x <> catalog_blob ->
       refs s x = refs s' x + count_occ Z.eq_dec (b_blobs bt) x /\ refs s' x = names s x).
Proof. split; [exact refs_add_eltorito|exact refs_rm_eltorito]. Qed.

(* ---------------------------------------------------------------- 6. everything else *)
Lemma refs_add_dir s iso jol udf s' r b : step s (AddDir iso jol udf) = (s', r) -> refs s' b = refs s b.
Proof.
  intros Hs. cbn [step] in Hs.
  match type of Hs with context [if ?c then _ else _] => destruct c end; [|inversion Hs; reflexivity].
  assert (Hs' : s' = add3 s KDir iso jol udf) by (inversion Hs; reflexivity). subst s'.
  rewrite refs_add3. cbn [wk]. lia.
Qed.

Lemma cnt_rm_dir l (o : option path) b :
  wf_ns l ->
  opt_ok (fun p : path => match p with [] => false | _ :: _ => is_dir_at l p && negb (has_children l p) end) o = true ->
  cnt (match o with Some p => remove_path l p | None => l end) b = cnt l b.
Proof.
  intros [Hnd _] Ho. destruct o as [p|]; [|reflexivity]. cbn [opt_ok] in Ho.
  destruct p as [|c q]; [discriminate|]. apply andb_prop in Ho. destruct Ho as [Hd _].
  unfold is_dir_at in Hd. destruct (lookup l (c :: q)) as [e|] eqn:El; [|discriminate].
  rewrite (cnt_remove_path l (c :: q) e b Hnd El). unfold w. destruct (e_kind e); try discriminate. reflexivity.
Qed.

Lemma refs_rm_dir s iso jol udf s' r b : wf_fs s -> step s (RmDir iso jol udf) = (s', r) -> refs s' b = refs s b.
Proof.
  intros (H1 & H2 & H3) Hs. cbn [step] in Hs.
  match type of Hs with context [if ?c then _ else _] => destruct c eqn:E end; [|inversion Hs; reflexivity].
  split_andb E. inversion Hs; subst s' r. rewrite refs_mk, (refs_split s b).
  rewrite (cnt_rm_dir (f_iso s) iso b), (cnt_rm_dir (f_jol s) jol b), (cnt_rm_dir (f_udf s) udf b) by assumption.
  reflexivity.
Qed.

Lemma refs_set_hidden s n p h s' r b : step s (SetHidden n p h) = (s', r) -> refs s' b = refs s b.
Proof.
  intros Hs. cbn [step] in Hs. destruct p as [|c p]; [inversion Hs; reflexivity|].
  destruct (lookup (get_ns s n) (c :: p)); inversion Hs; [|reflexivity].
  pose proof (refs_set_ns s n (set_hidden_in (get_ns s n) (c :: p) h) b) as H.
  rewrite cnt_set_hidden in H. lia.
Qed.

Lemma refs_add_symlink_rr s p rr t s' r b : step s (AddSymlinkRR p rr t) = (s', r) -> refs s' b = refs s b.
Proof.
  intros Hs. cbn [step] in Hs. destruct (can_add (f_iso s) p); inversion Hs; [|reflexivity].
  pose proof (refs_add_name s NsIso p (KSym t) rr b) as H. cbn [wk] in H. rewrite Nat.add_0_r in H. exact H.
Qed.

Definition neutral_op (o : op) : bool :=
  match o with AddDir _ _ _ | RmDir _ _ _ | SetHidden _ _ _ | AddSymlinkRR _ _ _ | Bad => true | _ => false end.

Theorem refs_other_ops_unchanged s o s' r b :
  wf_fs s -> step s o = (s', r) -> neutral_op o = true \/ r = Refused -> refs s' b = refs s b.
Proof.
  intros Hw Hs [Hn| ->]; [|apply refused_unchanged in Hs; subst s'; reflexivity].
  destruct o; try discriminate Hn.
  - eapply refs_add_dir; exact Hs.
  - eapply refs_rm_dir; [exact Hw|exact Hs].
  - eapply refs_add_symlink_rr; exact Hs.
  - eapply refs_set_hidden; exact Hs.
  - cbn [step] in Hs. inversion Hs. reflexivity.
Qed.

(* the ISO placeholder of a UDF symlink is one more name of the data-less blob 0 *)
Theorem refs_add_symlink_udf s ip up t s' :
  step s (AddSymlinkUdf ip up t) = (s', Ok) ->
  refs s' 0%Z = S (refs s 0%Z) /\ forall b, b <> 0%Z -> refs s' b = refs s b.
Proof.
  intros Hs. cbn [step] in Hs.
  match type of Hs with context [if ?c then _ else _] => destruct c end; [|discriminate].
  assert (Hs' : s' = set_ns (set_ns s NsIso (f_iso s ++ [mk ip (KFile 0%Z) 0%Z])) NsUdf
                        (f_udf (set_ns s NsIso (f_iso s ++ [mk ip (KFile 0%Z) 0%Z])) ++ [mk up (KSym t) 0%Z]))
    by (inversion Hs; reflexivity).
  subst s'. clear Hs.
  assert (E : forall b, refs (set_ns (set_ns s NsIso (f_iso s ++ [mk ip (KFile 0%Z) 0%Z])) NsUdf
                               (f_udf (set_ns s NsIso (f_iso s ++ [mk ip (KFile 0%Z) 0%Z])) ++ [mk up (KSym t) 0%Z])) b
                      = refs s b + wk (KFile 0%Z) b).
  { intros b.
    pose proof (refs_add_name (set_ns s NsIso (f_iso s ++ [mk ip (KFile 0%Z) 0%Z])) NsUdf up (KSym t) 0%Z b) as A.
    pose proof (refs_add_name s NsIso ip (KFile 0%Z) 0%Z b) as B.
    cbn [get_ns] in A, B. cbn [wk] in A. lia. }
  split; [|intros b Hb]; rewrite E.
  - rewrite wk_same. lia.
  - rewrite (wk_other _ b Hb). lia.
Qed.

(* ---------------------------------------------------------------- 7. Reopen *)
Lemma nonempty_gt em b : is_empty_blob em b = false -> (-1000 < b)%Z.
Proof. unfold is_empty_blob. intros H. apply orb_false_iff in H. destruct H as [H _]. apply Z.leb_gt in H. exact H. Qed.

Lemma fresh_nonempty em v : (v <= -1000)%Z -> is_empty_blob em v = true.
Proof. intros H. unfold is_empty_blob. apply orb_true_iff. left. apply Z.leb_le. exact H. Qed.

Lemma cnt_renum em base k l b :
  is_empty_blob em b = false -> (base - k <= -1000)%Z -> cnt (renum em base k l) b = cnt l b.
Proof.
  intros Hb. revert k; induction l as [|a l IH]; intros k Hk; cbn [renum]; [reflexivity|].
  rewrite !cnt_cons, IH by lia. f_equal. unfold w.
  destruct (e_kind a) as [|b0|t] eqn:Ek; rewrite ?Ek; try reflexivity.
  destruct (is_empty_blob em b0) eqn:E0; cbn [e_kind]; [|rewrite Ek; reflexivity].
  pose proof (fresh_nonempty em (base - k)%Z Hk) as Hf.
  rewrite !wk_other; [reflexivity| |]; intros ->; congruence.
Qed.

Lemma first_idx_ge b l k : (k <= first_idx b l k)%Z.
Proof.
  revert k; induction l as [|a l IH]; intros k; cbn [first_idx]; [lia|].
  pose proof (IH (k + 1)%Z) as H. destruct (e_kind a) as [|b'|t]; try lia. destruct (b' =? b)%Z; lia.
Qed.

Lemma cnt_renum_shared em base l b :
  is_empty_blob em b = false -> (base <= -1000)%Z -> cnt (renum_shared em base l) b = cnt l b.
Proof.
  intros Hb Hbase. unfold renum_shared. apply cnt_map. intros e _. unfold w.
  destruct (e_kind e) as [|b0|t] eqn:Ek; rewrite ?Ek; try reflexivity.
  destruct (is_empty_blob em b0) eqn:E0; cbn [e_kind]; [|rewrite Ek; reflexivity].
  pose proof (first_idx_ge b0 l 0%Z) as Hi.
  pose proof (fresh_nonempty em (base - first_idx b0 l 0)%Z ltac:(lia)) as Hf.
  rewrite !wk_other; [reflexivity| |]; intros ->; congruence.
Qed.

(* [base <= -1000] is the precondition stated in FsSpec for the Reopen op *)
Theorem reopen_preserves_nonempty_partial s em base s' b :
  (base <= -1000)%Z -> step s (Reopen em base) = (s', Ok) -> is_empty_blob em b = false -> refs s' b = refs s b.
Proof.
  intros Hbase Hs Hb. cbn [step] in Hs. inversion Hs; subst s'. rewrite refs_mk, (refs_split s b).
  rewrite !cnt_renum by (first [exact Hb|lia]). rewrite cnt_renum_shared by (first [exact Hb|lia]). reflexivity.
Qed.

Definition reopen_preserves_nonempty := reopen_preserves_nonempty_partial.

(* without that precondition the statement is false: a "fresh" identifier can collide with a live blob *)
Example reopen_preserves_nonempty_refuted :
  exists s em base s' b,
    wf_fs s /\ step s (Reopen em base) = (s', Ok) /\ is_empty_blob em b = false /\ refs s' b <> refs s b.
Proof.
  exists (fst (step empty_fs (AddFp 5%Z (Some ([1%Z], 0%Z)) None None))), [5%Z], 7%Z.
  eexists. exists 7%Z. split; [apply step_preserves_wf, wf_empty|].
  split; [vm_compute; reflexivity|]. split; [reflexivity|]. vm_compute. discriminate.
Qed.

(* ---------------------------------------------------------------- 8. a concrete history *)
Fixpoint trace (s : fs) (ops : list op) (b : Z) : list (outcome * nat) :=
  match ops with
  | [] => []
  | o :: r => let '(s1, x) := step s o in (x, refs s1 b) :: trace s1 r b
  end.

Example links_history :
  trace empty_fs
    [AddFp 7%Z (Some ([1%Z], 0%Z)) (Some [1%Z]) None;
     AddLink (SrcPath NsIso [1%Z]) NsUdf [1%Z] 0%Z;
     AddEltorito [1%Z] [2%Z] 0%Z None None;
     RmLink NsIso [1%Z];
     RmLink NsJoliet [1%Z];
     RmEltorito;
     RmLink NsUdf [1%Z]] 7%Z
  = [(Ok, 2); (Ok, 3); (Ok, 4); (Ok, 3); (Ok, 2); (Ok, 1); (Ok, 0)].
Proof. vm_compute. reflexivity. Qed.

Print Assumptions refs_add_link.
Print Assumptions refs_rm_link.
Print Assumptions rm_link_content_survives.
Print Assumptions rm_link_last_releases.
Print Assumptions refs_rm_file.
Print Assumptions rm_file_refused_when_boot.
Print Assumptions refs_add_fp.
Print Assumptions refs_eltorito.
Print Assumptions rm_eltorito_keeps_names.
Print Assumptions rm_eltorito_releases_boot_only.
Print Assumptions refs_other_ops_unchanged.
Print Assumptions reopen_preserves_nonempty_partial.
Print Assumptions reopen_preserves_nonempty_refuted.
Print Assumptions links_history.
