(* Lemmas for Proofs/AccountLinksProofs.v, part 1: the tree lemmas of Proofs/AccountLemmas.v for the
   tree with inodes (lnode), the inode table, and the closed form of llayout_end.
   The lemmas about byte strings, list surgery, bisect_left and the records of one directory
   (dir_ok, st_of_add, ...) are reused from Proofs/AccountLemmas.v. *)
From Coq Require Import ZArith List Bool Lia ZifyBool Sorted Arith Permutation.
From PV.Base Require Import Prim.
From PV.Gen Require Import GenConst GenFun.
From PV.Model Require Import Names Pack Alloc Account AccountLinks.
From PV.Proofs Require Import PackProofs AllocProofs AccountLemmas.
Import ListNotations.
Local Open Scope Z_scope.
Ltac Zify.zify_post_hook ::= Z.to_euclidean_division_equations.

(* ---- 1. lookup, subtree, replace ---------------------------------------------------------- *)

Lemma llookup_spec nm kids k c : llookup nm kids = Some (k, c) ->
  nth_error kids k = Some c /\ lname c = nm /\ k = pos nm (map lname kids).
Proof.
  unfold llookup. destruct (nth_error kids (pos nm (map lname kids))) as [c'|] eqn:E; [|discriminate].
  destruct (bytes_eqb (lname c') nm) eqn:B; [|discriminate].
  intros H. inversion H. subst. apply bytes_eqb_eq in B. tauto.
Qed.

Lemma llookup_none nm kids : llookup nm kids = None -> no_dup_at nm (map lname kids).
Proof.
  unfold llookup, no_dup_at. intros H y Hy. rewrite nth_error_map in Hy.
  destruct (nth_error kids (pos nm (map lname kids))) as [c'|]; [|discriminate].
  cbn in Hy. inversion Hy. subst y.
  destruct (bytes_eqb (lname c') nm); [discriminate|reflexivity].
Qed.

Lemma lnames_set_at kids k c c' : nth_error kids k = Some c -> lname c' = lname c ->
  map lname (set_at k c' kids) = map lname kids.
Proof.
  intros H E. destruct (nth_error_decomp kids k c H) as (l1 & l2 & -> & _ & Hs & _).
  rewrite Hs, !map_app. cbn [map]. rewrite E. reflexivity.
Qed.

Lemma lreplace_name : forall p n t old, lsubtree p n = Some old -> lname t = lname old ->
  lname (lreplace p t n) = lname n.
Proof.
  intros [|x q] n t old H E; cbn [lsubtree lreplace] in *.
  - inversion H. subst. exact E.
  - destruct n as [nm ino st|nm dl kids]; [reflexivity|].
    destruct (llookup x kids) as [[k c]|]; reflexivity.
Qed.

Lemma lreplace_is_dir : forall p n t old, lsubtree p n = Some old -> l_is_dir t = l_is_dir old ->
  l_is_dir (lreplace p t n) = l_is_dir n.
Proof.
  intros [|x q] n t old H E; cbn [lsubtree lreplace] in *.
  - inversion H. subst. exact E.
  - destruct n as [nm ino st|nm dl kids]; [reflexivity|].
    destruct (llookup x kids) as [[k c]|]; reflexivity.
Qed.

(* ---- 2. additive measures ------------------------------------------------------------------ *)

Section LNodeInd.
  Variable P : lnode -> Prop.
  Hypothesis HF : forall nm ino st, P (LFile nm ino st).
  Hypothesis HD : forall nm dl kids, Forall P kids -> P (LDir nm dl kids).
  Fixpoint lnode_ind' (n : lnode) : P n :=
    match n with
    | LFile nm ino st => HF nm ino st
    | LDir nm dl kids =>
        HD nm dl kids
           ((fix go (l : list lnode) : Forall P l :=
               match l with
               | [] => Forall_nil P
               | c :: r => Forall_cons c (lnode_ind' c) (go r)
               end) kids)
    end.
End LNodeInd.

Definition ltotals (w : lnode -> Z) (l : list lnode) : Z := Alloc.zsum (map (ltotal w) l).

Lemma ltotal_dir w nm dl kids : ltotal w (LDir nm dl kids) = w (LDir nm dl []) + ltotals w kids.
Proof.
  unfold ltotals, Alloc.zsum. cbn [ltotal]. f_equal.
  induction kids as [|c r IH]; cbn [map fold_right]; [reflexivity|]. rewrite IH. reflexivity.
Qed.

Lemma ltotal_file w nm ino st : ltotal w (LFile nm ino st) = w (LFile nm ino st).
Proof. reflexivity. Qed.

Lemma ltotals_app w l1 l2 : ltotals w (l1 ++ l2) = ltotals w l1 + ltotals w l2.
Proof. unfold ltotals. rewrite map_app. apply zsum_app. Qed.

Lemma ltotals_cons w c l : ltotals w (c :: l) = ltotal w c + ltotals w l.
Proof. reflexivity. Qed.

Lemma ltotals_nil w : ltotals w [] = 0.
Proof. reflexivity. Qed.

Lemma ltotals_set_at w kids k c c' : nth_error kids k = Some c ->
  ltotals w (set_at k c' kids) = ltotals w kids - ltotal w c + ltotal w c'.
Proof.
  intros H. destruct (nth_error_decomp kids k c H) as (l1 & l2 & -> & _ & Hs & _).
  rewrite Hs, !ltotals_app, !ltotals_cons. lia.
Qed.

Lemma ltotals_remove_at w kids k c : nth_error kids k = Some c ->
  ltotals w (remove_at k kids) = ltotals w kids - ltotal w c.
Proof.
  intros H. destruct (nth_error_decomp kids k c H) as (l1 & l2 & -> & _ & _ & Hr).
  rewrite Hr, !ltotals_app, !ltotals_cons. lia.
Qed.

Lemma ltotals_insert_at w kids k c : ltotals w (insert_at k c kids) = ltotals w kids + ltotal w c.
Proof.
  destruct (insert_at_decomp k c kids) as (l1 & l2 & E & ->). subst kids.
  rewrite !ltotals_app, !ltotals_cons. lia.
Qed.

Lemma ltotal_replace w : forall p n t old, lsubtree p n = Some old ->
  ltotal w (lreplace p t n) = ltotal w n - ltotal w old + ltotal w t.
Proof.
  induction p as [|x q IH]; intros n t old H; cbn [lsubtree lreplace] in *.
  - inversion H. subst. lia.
  - destruct n as [nm ino st|nm dl kids]; [discriminate|].
    destruct (llookup x kids) as [[k c]|] eqn:L; [|discriminate].
    apply llookup_spec in L. destruct L as (Hn & _ & _).
    rewrite !ltotal_dir, (ltotals_set_at w kids k c _ Hn), (IH c t old H). lia.
Qed.

Lemma ltotal_nonneg w : (forall n, 0 <= w n) -> forall n, 0 <= ltotal w n.
Proof.
  intros Hw. apply lnode_ind'.
  - intros nm ino st. rewrite ltotal_file. apply Hw.
  - intros nm dl kids HF. rewrite ltotal_dir. specialize (Hw (LDir nm dl [])).
    assert (0 <= ltotals w kids); [|lia].
    unfold ltotals. induction HF as [|c r Hc Hr IH]; cbn [map]; [cbn; lia|].
    rewrite zsum_cons. lia.
Qed.

Lemma ltotals_nonneg w : (forall n, 0 <= w n) -> forall l, 0 <= ltotals w l.
Proof.
  intros Hw l. induction l as [|c r IH]; [rewrite ltotals_nil; lia|].
  rewrite ltotals_cons. pose proof (ltotal_nonneg w Hw c). lia.
Qed.

Lemma lw_ref_nonneg i n : 0 <= lw_ref i n.
Proof. unfold lw_ref. destruct (is_ref i n); lia. Qed.

Lemma lw_ptr_nonneg n : 0 <= lw_ptr n.
Proof.
  destruct n as [nm ino st|nm dl kids]; cbn [lw_ptr]; [lia|].
  unfold ptr_record_length. pose proof (zlen_nonneg nm). lia.
Qed.

Lemma lrefcount_nonneg i n : 0 <= lrefcount i n.
Proof. apply ltotal_nonneg, lw_ref_nonneg. Qed.

Lemma is_ref_spec i n : is_ref i n = true <-> exists nm st, n = LFile nm i st.
Proof.
  split.
  - destruct n as [nm j st|nm dl kids]; cbn [is_ref]; try discriminate.
    intros H. apply Nat.eqb_eq in H. subst j. exists nm, st. reflexivity.
  - intros (nm & st & ->). cbn [is_ref]. apply Nat.eqb_refl.
Qed.

(* a record found by path contributes to the count of its inode *)
Lemma lsubtree_ref i : forall p n nm st, lsubtree p n = Some (LFile nm i st) ->
  0 < lrefcount i n.
Proof.
  unfold lrefcount. induction p as [|x q IH]; intros n nm st H; cbn [lsubtree] in H.
  - inversion H. subst. rewrite ltotal_file. unfold lw_ref. cbn [is_ref]. rewrite Nat.eqb_refl. lia.
  - destruct n as [nm' ino st'|nm' dl kids]; [discriminate|].
    destruct (llookup x kids) as [[k c]|] eqn:L; [|discriminate].
    apply llookup_spec in L. destruct L as (Hk & _ & _).
    specialize (IH c nm st H). rewrite ltotal_dir.
    pose proof (ltotals_remove_at (lw_ref i) kids k c Hk) as E.
    pose proof (ltotals_nonneg (lw_ref i) (lw_ref_nonneg i) (remove_at k kids)).
    unfold lw_ref at 1. cbn [is_ref]. lia.
Qed.

(* ---- 3. the tree invariant ------------------------------------------------------------------ *)

Fixpoint lall_ok (n : lnode) : Prop :=
  match n with
  | LFile _ _ _ => True
  | LDir _ dl kids =>
      dir_ok dl (map lname kids) /\
      (fix go (l : list lnode) : Prop := match l with [] => True | c :: r => lall_ok c /\ go r end) kids
  end.

Lemma lall_ok_dir nm dl kids :
  lall_ok (LDir nm dl kids) <-> dir_ok dl (map lname kids) /\ Forall lall_ok kids.
Proof.
  cbn [lall_ok]. apply and_iff_compat_l.
  induction kids as [|c r IH]; [split; [constructor|trivial]|].
  rewrite IH. split.
  - intros [H1 H2]. constructor; assumption.
  - intros H. inversion H. tauto.
Qed.

Lemma lsubtree_all_ok : forall p n old, lall_ok n -> lsubtree p n = Some old -> lall_ok old.
Proof.
  induction p as [|x q IH]; intros n old Hn H; cbn [lsubtree] in H.
  - inversion H. subst. exact Hn.
  - destruct n as [nm ino st|nm dl kids]; [discriminate|].
    destruct (llookup x kids) as [[k c]|] eqn:L; [|discriminate].
    apply llookup_spec in L. destruct L as (Hk & _ & _).
    apply lall_ok_dir in Hn. destruct Hn as [_ HF]. rewrite Forall_forall in HF.
    apply (IH c old); [apply HF; eapply nth_error_In; exact Hk|exact H].
Qed.

Lemma lall_ok_replace : forall p n t old, lsubtree p n = Some old -> lname t = lname old ->
  lall_ok n -> lall_ok t -> lall_ok (lreplace p t n).
Proof.
  induction p as [|x q IH]; intros n t old H E Hn Ht; cbn [lsubtree lreplace] in *.
  - exact Ht.
  - destruct n as [nm ino st|nm dl kids]; [discriminate|].
    destruct (llookup x kids) as [[k c]|] eqn:L; [|discriminate].
    apply llookup_spec in L. destruct L as (Hk & _ & _).
    apply lall_ok_dir in Hn. destruct Hn as [Hd HF]. apply lall_ok_dir. split.
    + rewrite (lnames_set_at kids k c _ Hk); [exact Hd|]. eapply lreplace_name; eassumption.
    + apply (Forall_set_at lall_ok kids k c _ Hk HF).
      apply (IH c t old H E); [|exact Ht].
      rewrite Forall_forall in HF. apply HF. eapply nth_error_In. exact Hk.
Qed.

(* ---- 4. the BFS traversal ------------------------------------------------------------------- *)

Definition lnsizes (l : list lnode) : nat := fold_right (fun c acc => (lnsize c + acc)%nat) O l.

Lemma lnsize_dir nm dl kids : lnsize (LDir nm dl kids) = S (lnsizes kids).
Proof. reflexivity. Qed.

Lemma lnsize_pos n : (1 <= lnsize n)%nat.
Proof. destruct n as [nm ino st|nm dl kids]; [cbn; lia|rewrite lnsize_dir; lia]. Qed.

Lemma lnsizes_app l1 l2 : lnsizes (l1 ++ l2) = (lnsizes l1 + lnsizes l2)%nat.
Proof.
  induction l1 as [|c r IH]; cbn [app lnsizes fold_right]; [reflexivity|].
  fold (lnsizes (r ++ l2)). fold (lnsizes r). lia.
Qed.

Lemma ltotal_shallow w n : ltotal w n = w (hdr n) + ltotals w (lkids n).
Proof.
  destruct n as [nm ino st|nm dl kids]; [cbn [ltotal hdr lkids]; rewrite ltotals_nil; lia|].
  rewrite ltotal_dir. reflexivity.
Qed.

Lemma lbfs_sum w : forall fuel queue, (lnsizes queue <= fuel)%nat ->
  Alloc.zsum (map (fun n => w (hdr n)) (lbfs fuel queue)) = ltotals w queue.
Proof.
  induction fuel as [|f IH]; intros queue Hq.
  - destruct queue as [|n q]; [reflexivity|].
    cbn [lnsizes fold_right] in Hq. pose proof (lnsize_pos n). lia.
  - destruct queue as [|n q]; [reflexivity|]. cbn [lbfs map]. rewrite zsum_cons, ltotals_cons.
    rewrite IH.
    + rewrite ltotals_app, (ltotal_shallow w n). lia.
    + rewrite lnsizes_app. cbn [lnsizes fold_right] in Hq. fold (lnsizes q) in Hq.
      destruct n as [nm ino st|nm dl kids]; cbn [lkids].
      * cbn [lnsizes fold_right]. cbn [lnsize] in Hq. lia.
      * rewrite lnsize_dir in Hq. lia.
Qed.

Lemma lvisit_sum w s : Alloc.zsum (map (fun n => w (hdr n)) (lvisit s)) = ltotal w (lroot s).
Proof.
  unfold lvisit. rewrite lbfs_sum.
  - rewrite ltotals_cons, ltotals_nil. lia.
  - cbn [lnsizes fold_right]. lia.
Qed.

Lemma lbfs_all_ok : forall fuel queue, Forall lall_ok queue -> Forall lall_ok (lbfs fuel queue).
Proof.
  induction fuel as [|f IH]; intros queue HQ; cbn [lbfs]; [constructor|].
  destruct queue as [|n q]; [constructor|]. inversion HQ as [|? ? Hn Hq]; subst.
  constructor; [exact Hn|]. apply IH, Forall_app. split; [exact Hq|].
  destruct n as [nm ino st|nm dl kids]; cbn [lkids]; [constructor|].
  apply lall_ok_dir in Hn. apply Hn.
Qed.

(* ---- 5. the inode table --------------------------------------------------------------------- *)

Definition ids (t : itable) : list nat := map fst t.
Definition blocks_of (l : Z) : Z := ceiling_div l C.
Definition tbl_sum (t : itable) : Z := Alloc.zsum (map (fun e => blocks_of (snd e)) t).

Lemma tbl_sum_app t1 t2 : tbl_sum (t1 ++ t2) = tbl_sum t1 + tbl_sum t2.
Proof. unfold tbl_sum. rewrite map_app. apply zsum_app. Qed.

Lemma blocks_of_0 : blocks_of 0 = 0.
Proof. reflexivity. Qed.

Lemma tbl_sum_del i t : tbl_sum (del_ino i t) = tbl_sum t - blocks_of (len_of i t).
Proof.
  induction t as [|[j l] r IH]; cbn [del_ino len_of]; [rewrite blocks_of_0; lia|].
  destruct (Nat.eqb j i).
  - unfold tbl_sum. cbn [map snd]. rewrite zsum_cons. lia.
  - unfold tbl_sum in *. cbn [map snd]. rewrite !zsum_cons, IH. lia.
Qed.

Lemma len_of_del j i t : j <> i -> len_of j (del_ino i t) = len_of j t.
Proof.
  intros Hne. induction t as [|[k l] r IH]; cbn [del_ino len_of]; [reflexivity|].
  destruct (Nat.eqb_spec k i) as [->|Hki].
  - destruct (Nat.eqb_spec i j); [congruence|reflexivity].
  - cbn [len_of]. rewrite IH. reflexivity.
Qed.

Lemma ids_del_in j i t : In j (ids (del_ino i t)) -> In j (ids t).
Proof.
  unfold ids. induction t as [|[k l] r IH]; cbn [del_ino map fst In]; [tauto|].
  destruct (Nat.eqb k i); cbn [map fst In]; tauto.
Qed.

Lemma ids_del i t : NoDup (ids t) ->
  NoDup (ids (del_ino i t)) /\ ~ In i (ids (del_ino i t)) /\
  (forall j, j <> i -> (In j (ids (del_ino i t)) <-> In j (ids t))).
Proof.
  unfold ids. induction t as [|[k l] r IH]; intros HN; cbn [del_ino map fst] in *.
  - split; [constructor|]. split; [tauto|]. tauto.
  - inversion HN as [|? ? Hk Hr]; subst. destruct (Nat.eqb_spec k i) as [->|Hki].
    + split; [exact Hr|]. split; [exact Hk|]. intros j Hj. cbn [In]. split; [tauto|].
      intros [E|H]; [congruence|exact H].
    + destruct (IH Hr) as (I1 & I2 & I3). cbn [map fst]. split; [|split].
      * constructor; [|exact I1]. intros H. apply Hk. apply (ids_del_in k i r H).
      * cbn [In]. intros [E|H]; [congruence|tauto].
      * intros j Hj. cbn [In]. rewrite (I3 j Hj). tauto.
Qed.

Lemma Forall_del {P : nat * Z -> Prop} i t : Forall P t -> Forall P (del_ino i t).
Proof.
  induction 1 as [|[k l] r Hx Hr IH]; cbn [del_ino]; [constructor|].
  destruct (Nat.eqb k i); [exact Hr|constructor; assumption].
Qed.

Lemma len_of_notin i t : ~ In i (ids t) -> len_of i t = 0.
Proof.
  unfold ids. induction t as [|[k l] r IH]; cbn [len_of map fst In]; [reflexivity|].
  intros H. destruct (Nat.eqb_spec k i) as [->|Hki]; [tauto|]. apply IH. tauto.
Qed.

Lemma len_of_app_fresh i t n l : len_of i (t ++ [(n, l)]) =
  if existsb (Nat.eqb i) (ids t) then len_of i t else if Nat.eqb n i then l else 0.
Proof.
  unfold ids. induction t as [|[k l'] r IH]; cbn [app len_of map fst existsb]; [reflexivity|].
  rewrite (Nat.eqb_sym i k). destruct (Nat.eqb k i); cbn [orb]; [reflexivity|exact IH].
Qed.

Lemma len_of_in P t : Forall (fun e => P (snd e)) t -> P 0 -> forall i, P (len_of i t).
Proof.
  intros HF H0 i. induction HF as [|[k l] r Hx Hr IH]; cbn [len_of]; [exact H0|].
  destruct (Nat.eqb k i); [exact Hx|exact IH].
Qed.

(* with distinct ids, the table is the graph of len_of *)
Lemma len_of_nodup t : NoDup (ids t) -> map (fun e => len_of (fst e) t) t = map snd t.
Proof.
  unfold ids. induction t as [|[k l] r IH]; intros HN; [reflexivity|].
  inversion HN as [|? ? Hk Hr]; subst. cbn [map fst snd len_of]. rewrite Nat.eqb_refl. f_equal.
  rewrite <- (IH Hr). apply map_ext_in. intros [j l'] Hin. cbn [fst].
  destruct (Nat.eqb_spec k j) as [->|Hkj]; [|reflexivity].
  exfalso. apply Hk. change j with (fst (j, l')). apply in_map. exact Hin.
Qed.

(* ---- 6. de-duplication and the list of laid-out inodes -------------------------------------- *)

Lemma existsb_eqb_in i l : existsb (Nat.eqb i) l = true <-> In i l.
Proof.
  rewrite existsb_exists. split.
  - intros (x & Hx & E). apply Nat.eqb_eq in E. subst. exact Hx.
  - intros H. exists i. split; [exact H|apply Nat.eqb_refl].
Qed.

Lemma dedup_in : forall l seen x, In x (dedup l seen) <-> In x l /\ ~ In x seen.
Proof.
  induction l as [|i r IH]; intros seen x; cbn [dedup In]; [tauto|].
  destruct (existsb (Nat.eqb i) seen) eqn:E.
  - apply existsb_eqb_in in E. rewrite IH. split; [tauto|].
    intros [[->|H] Hs]; tauto.
  - assert (Hi : ~ In i seen) by (rewrite <- existsb_eqb_in, E; discriminate).
    cbn [In]. rewrite IH. cbn [In]. split.
    + intros [->|[H1 H2]]; tauto.
    + intros [[->|H] Hs]; [tauto|]. destruct (Nat.eq_dec i x); [tauto|tauto].
Qed.

Lemma dedup_nodup : forall l seen, NoDup (dedup l seen).
Proof.
  induction l as [|i r IH]; intros seen; cbn [dedup]; [constructor|].
  destruct (existsb (Nat.eqb i) seen); [apply IH|].
  constructor; [|apply IH]. rewrite dedup_in. cbn [In]. tauto.
Qed.

Lemma file_list_in t i : forall recs,
  In i (file_list t recs) <-> (exists n, In n recs /\ is_ref i n = true) /\ len_of i t <> 0.
Proof.
  induction recs as [|n r IH]; cbn [file_list].
  - cbn [In]. split; [tauto|]. intros [(n & [] & _) _].
  - destruct n as [nm j st|nm dl kids].
    + destruct (Z.eqb_spec (len_of j t) 0) as [E0|E0].
      * rewrite IH. split.
        -- intros [(n0 & Hn0 & Hr) Hl]. split; [|exact Hl]. exists n0. split; [right; exact Hn0|exact Hr].
        -- intros [(n0 & [<-|Hn0] & Hr) Hl]; [|split; [exists n0; tauto|exact Hl]].
           cbn [is_ref] in Hr. apply Nat.eqb_eq in Hr. subst j. contradiction.
      * cbn [In]. rewrite IH. split.
        -- intros [->|[(n0 & Hn0 & Hr) Hl]].
           ++ split; [|exact E0]. exists (LFile nm i st). split; [left; reflexivity|].
              cbn [is_ref]. apply Nat.eqb_refl.
           ++ split; [|exact Hl]. exists n0. split; [right; exact Hn0|exact Hr].
        -- intros [(n0 & [<-|Hn0] & Hr) Hl].
           ++ left. cbn [is_ref] in Hr. apply Nat.eqb_eq in Hr. exact Hr.
           ++ right. split; [exists n0; tauto|exact Hl].
    + rewrite IH. split.
      * intros [(n0 & Hn0 & Hr) Hl]. split; [|exact Hl]. exists n0. split; [right; exact Hn0|exact Hr].
      * intros [(n0 & [<-|Hn0] & Hr) Hl]; [discriminate|]. split; [exists n0; tauto|exact Hl].
Qed.

Lemma zsum_pos_iff {A} (f : A -> Z) l : (forall x, 0 <= f x) ->
  (0 < Alloc.zsum (map f l) <-> exists x, In x l /\ 0 < f x).
Proof.
  intros Hf. induction l as [|a r IH]; cbn [map].
  - cbn. split; [lia|]. intros (x & [] & _).
  - rewrite zsum_cons. split.
    + intros H. destruct (Z_lt_le_dec 0 (f a)) as [Ha|Ha].
      * exists a. split; [left; reflexivity|exact Ha].
      * assert (H' : 0 < Alloc.zsum (map f r)) by (specialize (Hf a); lia).
        apply IH in H'. destruct H' as (x & Hx & Hfx). exists x. split; [right; exact Hx|exact Hfx].
    + intros (x & [<-|Hx] & Hfx).
      * assert (0 <= Alloc.zsum (map f r)); [|lia].
        clear -Hf. induction r as [|b r IH]; cbn [map]; [cbn; lia|]. rewrite zsum_cons. specialize (Hf b). lia.
      * assert (0 < Alloc.zsum (map f r)) by (apply IH; exists x; tauto). specialize (Hf a). lia.
Qed.

Lemma lw_ref_hdr i n : lw_ref i (hdr n) = lw_ref i n.
Proof. destruct n as [nm ino st|nm dl kids]; reflexivity. Qed.

(* an inode gets extents iff some record references it and it is not empty -- in ANY state *)
Theorem laid_out_iff s i :
  In i (laid_out s) <-> 0 < lrefcount i (lroot s) /\ len_of i (linodes s) <> 0.
Proof.
  unfold laid_out. rewrite dedup_in, file_list_in. cbn [In].
  unfold lrefcount. rewrite <- (lvisit_sum (lw_ref i) s).
  rewrite (zsum_pos_iff _ _ (fun n => lw_ref_nonneg i (hdr n))).
  split.
  - intros [[(n & Hn & Hr) Hl] _]. split; [|exact Hl]. exists n. split; [exact Hn|].
    rewrite lw_ref_hdr. unfold lw_ref. rewrite Hr. lia.
  - intros [(n & Hn & Hr) Hl]. split; [|tauto]. split; [|exact Hl]. exists n. split; [exact Hn|].
    rewrite lw_ref_hdr in Hr. unfold lw_ref in Hr. destruct (is_ref i n); [reflexivity|lia].
Qed.

Lemma zsum_perm l1 l2 : Permutation l1 l2 -> Alloc.zsum l1 = Alloc.zsum l2.
Proof.
  induction 1 as [|x l l' H IH|x y l|l l' l'' H1 IH1 H2 IH2]; rewrite ?zsum_cons; lia.
Qed.

(* the table conditions: distinct ids, and an inode is in the table iff some record references it *)
Definition tbl_ok (t : itable) (root : lnode) : Prop :=
  NoDup (ids t) /\ forall i, In i (ids t) <-> 0 < lrefcount i root.

Lemma laid_out_sum s : tbl_ok (linodes s) (lroot s) ->
  Alloc.zsum (map (fun i => blocks_of (len_of i (linodes s))) (laid_out s)) = tbl_sum (linodes s).
Proof.
  intros [HN HR]. set (t := linodes s) in *.
  set (nz := fun i => negb (len_of i t =? 0)).
  assert (HP : Permutation (laid_out s) (filter nz (ids t))).
  { apply NoDup_Permutation; [apply dedup_nodup|apply NoDup_filter, HN|].
    intros i. rewrite laid_out_iff, filter_In, HR. fold t. unfold nz.
    destruct (Z.eqb_spec (len_of i t) 0); cbn [negb]; split; intros [H1 H2]; try tauto; try discriminate. }
  rewrite (zsum_perm _ _ (Permutation_map _ HP)), zsum_map_filter.
  unfold tbl_sum, ids. rewrite map_map.
  assert (E : map (fun e => blocks_of (snd e)) t = map (fun e => blocks_of (len_of (fst e) t)) t).
  { pose proof (f_equal (map blocks_of) (len_of_nodup t HN)) as E. rewrite !map_map in E.
    symmetry. exact E. }
  rewrite E. f_equal. apply map_ext. intros [j l]. cbn [fst]. unfold nz.
  destruct (Z.eqb_spec (len_of j t) 0) as [E0|E0]; cbn [negb]; [rewrite E0; reflexivity|reflexivity].
Qed.

(* the end of the from-scratch assignment, in closed form *)
Theorem llayout_end_closed s : tbl_ok (linodes s) (lroot s) ->
  llayout_end s = 19 + 2 * lptr_ext s + ltotal lw_dblk (lroot s) + tbl_sum (linodes s).
Proof.
  intros HT. unfold llayout_end, bump_end, lobjects. rewrite !zsum_app.
  fold (blocks_of). change (fun i => ceiling_div (len_of i (linodes s)) C)
    with (fun i => blocks_of (len_of i (linodes s))).
  rewrite (laid_out_sum s HT), zsum_map_filter.
  rewrite (map_ext (fun x => if l_is_dir x then lw_dblk x else 0) (fun n => lw_dblk (hdr n))).
  - rewrite lvisit_sum. unfold Alloc.zsum at 1. cbn [fold_right]. lia.
  - intros [nm ino st|nm dl kids]; reflexivity.
Qed.
