(* MasterRR, part 4: the tree.
     positions (mrr_node_at) against PathTable.subtree of the two walks, parents, well-formedness at a position
     mrr_keys_pos   two records at different positions have continuation keys that are apart
                    (another block, or ranges that do not meet) -- from the boolean check on the key list *)
From Coq Require Import ZArith List Bool Lia ZifyBool.
From PV.Base Require Import Prim.
From PV.Gen Require Import GenConst GenFun.
From PV.Model Require Import Pack PathTable RREntries RRPlace.
From PV.Model Require Master Account.
From PV.Model Require Import AccountRR MasterRR.
Import ListNotations.
Local Open Scope Z_scope.

(* ---- positions ------------------------------------------------------------------------------------- *)
Lemma mrr_tkids_dtree fk n : tkids (mrr_dtree fk n) = map (mrr_dtree fk) (rkids n).
Proof. destruct n; reflexivity. Qed.
Lemma mrr_tkids_ftree n : tkids (mrr_ftree n) = map mrr_ftree (rkids n).
Proof. destruct n; reflexivity. Qed.

Lemma mrr_subtree_dtree fk p : forall n,
  subtree (mrr_dtree fk n) p = option_map (mrr_dtree fk) (mrr_node_at n p).
Proof.
  induction p as [|i p IH]; intros n; cbn [subtree mrr_node_at]; [reflexivity|].
  rewrite mrr_tkids_dtree, nth_error_map.
  destruct (nth_error (rkids n) i) as [c|]; cbn [option_map]; [apply IH|reflexivity].
Qed.
Lemma mrr_subtree_ftree p : forall n, subtree (mrr_ftree n) p = option_map mrr_ftree (mrr_node_at n p).
Proof.
  induction p as [|i p IH]; intros n; cbn [subtree mrr_node_at]; [reflexivity|].
  rewrite mrr_tkids_ftree, nth_error_map.
  destruct (nth_error (rkids n) i) as [c|]; cbn [option_map]; [apply IH|reflexivity].
Qed.

Lemma mrr_node_at_snoc p j : forall n c, mrr_node_at n p = Some c ->
  mrr_node_at n (p ++ [j]) = nth_error (rkids c) j.
Proof.
  induction p as [|i p IH]; intros n c H; cbn [mrr_node_at app] in *.
  - injection H as <-. destruct (nth_error (rkids n) j); reflexivity.
  - destruct (nth_error (rkids n) i) as [k|]; [|discriminate]. apply (IH k c H).
Qed.

Lemma mrr_node_at_snoc_inv p j : forall n c, mrr_node_at n (p ++ [j]) = Some c ->
  exists m dl kids, mrr_node_at n p = Some (RDir m dl kids) /\ nth_error kids j = Some c.
Proof.
  induction p as [|i p IH]; intros n c H; cbn [mrr_node_at app] in *.
  - destruct n as [m len|m dl kids]; cbn [rkids] in H.
    + destruct j; discriminate.
    + destruct (nth_error kids j) as [k|] eqn:E; [|discriminate]. injection H as <-.
      exists m, dl, kids. split; [reflexivity|exact E].
  - destruct (nth_error (rkids n) i) as [k|]; [|discriminate]. apply (IH k c H).
Qed.

Lemma mrr_parent_dir t p c : r_is_dir t = true -> mrr_node_at t p = Some c ->
  exists m dl kids, mrr_node_at t (removelast p) = Some (RDir m dl kids).
Proof.
  intros Hroot. revert c. pattern p. apply rev_ind.
  - intros c _. cbn. destruct t as [m l|m dl kids]; [discriminate|]. exists m, dl, kids. reflexivity.
  - intros j q _ c H. rewrite removelast_last.
    destruct (mrr_node_at_snoc_inv q j t c H) as (m & dl & kids & Hq & _). exists m, dl, kids. exact Hq.
Qed.

Lemma mrr_height_kid m dl kids j c : nth_error kids j = Some c ->
  (S (mrr_height c) <= mrr_height (RDir m dl kids))%nat.
Proof.
  cbn [mrr_height]. revert j. induction kids as [|k kids IH]; intros [|j] H; cbn [nth_error] in H;
    try discriminate; cbn [fold_right].
  - injection H as <-. lia.
  - specialize (IH j H). lia.
Qed.

(* ---- well-formedness at a position ------------------------------------------------------------------ *)
Lemma mrr_wf_node_at v dt p : forall b isroot n c, mrr_wf_node v dt b isroot n = true ->
  mrr_node_at n p = Some c ->
  exists b', mrr_wf_node v dt b' (match p with [] => isroot | _ => false end) c = true.
Proof.
  induction p as [|i p IH]; intros b isroot n c Hw H; cbn [mrr_node_at] in H.
  - injection H as <-. exists b. exact Hw.
  - destruct (nth_error (rkids n) i) as [k|] eqn:Ek; [|discriminate].
    destruct b as [|f]; [discriminate|]. destruct n as [m len|m dl kids]; [destruct i; discriminate|].
    cbn [mrr_wf_node rkids] in Hw, Ek. apply andb_prop in Hw. destruct Hw as [_ Hw].
    apply andb_prop in Hw. destruct Hw as [_ Hk]. rewrite forallb_forall in Hk.
    pose proof (Hk k (nth_error_In _ _ Ek)) as Hk'.
    destruct (IH f false k c Hk' H) as [b' Hb']. exists b'. destruct p; exact Hb'.
Qed.

Lemma mrr_invb_ge v isroot dl lens : Invb BS (rst_of v isroot dl lens) = true -> dl mod BS = 0 /\ BS <= dl.
Proof.
  unfold Invb, rst_of. cbn [recs dlen]. intros H. apply andb_prop in H. destruct H as [Hm Hn].
  set (l := dot_len v isroot :: dotdot_len v :: lens) in *.
  assert (G : forall l n o, n <= fst (nf BS n o l)).
  { clear. induction l as [|x l IH]; intros n o; cbn [nf fst]; [lia|].
    destruct (o + x >? BS); [specialize (IH (n + 1) (0 + x)); lia|apply IH]. }
  pose proof (G l 1 0) as G1. fold (num_extents BS l) in G1. unfold BS in *. lia.
Qed.

(* ---- continuation keys -------------------------------------------------------------------------------- *)
Definition mrr_apartP (a b : ckey) : Prop := mrr_key_apart a b = true.

Lemma mrr_apart_sym a b : mrr_apartP a b -> mrr_apartP b a.
Proof.
  unfold mrr_apartP, mrr_key_apart. destruct a as [[i o] l], b as [[j p] q].
  rewrite (Nat.eqb_sym j i). lia.
Qed.

Lemma mrr_keys_apart_fop l : mrr_keys_apart l = true -> ForallOrdPairs mrr_apartP l.
Proof.
  induction l as [|k r IH]; intros H; [constructor|]. cbn [mrr_keys_apart] in H.
  apply andb_prop in H. destruct H as [H1 H2]. constructor; [|apply IH; exact H2].
  apply Forall_forall. intros x Hx. rewrite forallb_forall in H1. exact (H1 x Hx).
Qed.

Lemma mrr_fop_app {A} (R : A -> A -> Prop) l1 : forall l2, ForallOrdPairs R (l1 ++ l2) ->
  ForallOrdPairs R l1 /\ ForallOrdPairs R l2 /\ (forall a b, In a l1 -> In b l2 -> R a b).
Proof.
  induction l1 as [|x l1 IH]; intros l2 H; cbn [app] in H.
  - split; [constructor|]. split; [exact H|intros a b []].
  - inversion H as [|? ? Hx Hr]; subst. destruct (IH l2 Hr) as (I1 & I2 & I3).
    rewrite Forall_forall in Hx. split.
    + constructor; [|exact I1]. apply Forall_forall. intros y Hy. apply Hx. apply in_or_app. left. exact Hy.
    + split; [exact I2|]. intros a b [<-|Ha] Hb; [apply Hx; apply in_or_app; right; exact Hb|exact (I3 a b Ha Hb)].
Qed.

Lemma mrr_fop_flat {A B} (R : B -> B -> Prop) (f : A -> list B) l : ForallOrdPairs R (flat_map f l) ->
  (forall c, In c l -> ForallOrdPairs R (f c)) /\
  (forall j1 j2 c1 c2 a b, (j1 < j2)%nat -> nth_error l j1 = Some c1 -> nth_error l j2 = Some c2 ->
     In a (f c1) -> In b (f c2) -> R a b).
Proof.
  induction l as [|c l IH]; intros H; cbn [flat_map] in H.
  - split; [intros c []|intros j1 j2 c1 c2 a b _ H1; destruct j1; discriminate].
  - destruct (mrr_fop_app R _ _ H) as (H1 & H2 & H3). destruct (IH H2) as [I1 I2]. split.
    + intros c' [<-|Hc]; [exact H1|exact (I1 c' Hc)].
    + intros j1 j2 c1 c2 a b Hlt E1 E2 Ha Hb. destruct j2 as [|j2]; [lia|]. cbn [nth_error] in E2.
      destruct j1 as [|j1]; cbn [nth_error] in E1.
      * injection E1 as <-. apply H3; [exact Ha|]. apply in_flat_map. exists c2. split; [|exact Hb].
        eapply nth_error_In. exact E2.
      * apply (I2 j1 j2 c1 c2 a b); [lia|assumption..].
Qed.

Lemma mrr_keys_unfold n : mrr_keys n =
  (match m_ce (meta_of n) with Some k => [k] | None => [] end) ++ flat_map mrr_keys (rkids n).
Proof. destruct n; reflexivity. Qed.

Lemma mrr_key_in q : forall n c k, mrr_node_at n q = Some c -> m_ce (meta_of c) = Some k -> In k (mrr_keys n).
Proof.
  induction q as [|j q IH]; intros n c k H Hk; cbn [mrr_node_at] in H; rewrite mrr_keys_unfold.
  - injection H as <-. rewrite Hk. left. reflexivity.
  - destruct (nth_error (rkids n) j) as [c'|] eqn:E; [|discriminate]. apply in_or_app. right.
    apply in_flat_map. exists c'. split; [eapply nth_error_In; exact E|exact (IH c' c k H Hk)].
Qed.

Theorem mrr_keys_pos q1 : forall n q2 n1 n2 k1 k2, ForallOrdPairs mrr_apartP (mrr_keys n) -> q1 <> q2 ->
  mrr_node_at n q1 = Some n1 -> mrr_node_at n q2 = Some n2 ->
  m_ce (meta_of n1) = Some k1 -> m_ce (meta_of n2) = Some k2 -> mrr_apartP k1 k2.
Proof.
  assert (Top : forall n j q c k0 k, ForallOrdPairs mrr_apartP (mrr_keys n) -> m_ce (meta_of n) = Some k0 ->
                  mrr_node_at n (j :: q) = Some c -> m_ce (meta_of c) = Some k -> mrr_apartP k0 k).
  { intros n j q c k0 k F H0 Hc Hk. rewrite mrr_keys_unfold, H0 in F. cbn [app] in F.
    inversion F as [|? ? Hx _]; subst. rewrite Forall_forall in Hx. apply Hx.
    cbn [mrr_node_at] in Hc. destruct (nth_error (rkids n) j) as [c'|] eqn:E; [|discriminate].
    apply in_flat_map. exists c'. split; [eapply nth_error_In; exact E|exact (mrr_key_in q c' c k Hc Hk)]. }
  induction q1 as [|j1 q1 IH]; intros n q2 n1 n2 k1 k2 F Hne H1 H2 K1 K2.
  - destruct q2 as [|j2 q2]; [congruence|]. cbn [mrr_node_at] in H1. injection H1 as <-.
    exact (Top n j2 q2 n2 k1 k2 F K1 H2 K2).
  - destruct q2 as [|j2 q2].
    + cbn [mrr_node_at] in H2. injection H2 as <-. apply mrr_apart_sym.
      exact (Top n j1 q1 n1 k2 k1 F K2 H1 K1).
    + cbn [mrr_node_at] in H1, H2.
      destruct (nth_error (rkids n) j1) as [c1|] eqn:E1; [|discriminate].
      destruct (nth_error (rkids n) j2) as [c2|] eqn:E2; [|discriminate].
      rewrite mrr_keys_unfold in F. destruct (mrr_fop_app _ _ _ F) as (_ & F2 & _).
      destruct (mrr_fop_flat _ _ _ F2) as [G1 G2].
      destruct (Nat.eq_dec j1 j2) as [->|Hj].
      * rewrite E1 in E2. injection E2 as <-.
        apply (IH c1 q2 n1 n2 k1 k2); try assumption; [apply G1; eapply nth_error_In; exact E1|congruence].
      * pose proof (mrr_key_in q1 c1 n1 k1 H1 K1) as I1. pose proof (mrr_key_in q2 c2 n2 k2 H2 K2) as I2.
        destruct (Nat.lt_ge_cases j1 j2) as [Hlt|Hge].
        -- exact (G2 j1 j2 c1 c2 k1 k2 Hlt E1 E2 I1 I2).
        -- apply mrr_apart_sym. apply (G2 j2 j1 c2 c1 k2 k1); [lia|assumption..].
Qed.

Print Assumptions mrr_keys_pos.
