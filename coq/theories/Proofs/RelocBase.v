(* Proofs/RelocBase.v -- basic facts for Model/RelocCore.v: identifier equality and order, a
   usable induction principle for the nested [node] type, list helpers. *)
From Coq Require Import ZArith List Bool Lia Permutation.
From PV.Model Require Import RelocCore.
Import ListNotations.
Local Open Scope Z_scope.

Lemma rl_neqb_eq a : forall b, neqb a b = true <-> a = b.
Proof.
  induction a as [|x a IH]; intros [|y b]; cbn [neqb]; split; intros H; try reflexivity;
    try discriminate.
  - apply andb_prop in H. destruct H as [H1 H2]. apply Z.eqb_eq in H1. apply IH in H2. congruence.
  - injection H as -> ->. rewrite Z.eqb_refl. apply IH. reflexivity.
Qed.

Lemma rl_neqb_refl a : neqb a a = true.
Proof. apply rl_neqb_eq. reflexivity. Qed.

Lemma rl_neqb_neq a b : neqb a b = false <-> a <> b.
Proof.
  split.
  - intros H E. apply rl_neqb_eq in E. congruence.
  - intros H. destruct (neqb a b) eqn:E; [|reflexivity]. apply rl_neqb_eq in E. contradiction.
Qed.

Lemma rl_neqb_sym a b : neqb a b = neqb b a.
Proof.
  destruct (neqb a b) eqn:E1, (neqb b a) eqn:E2; try reflexivity.
  - apply rl_neqb_eq in E1. subst. rewrite rl_neqb_refl in E2. discriminate.
  - apply rl_neqb_eq in E2. subst. rewrite rl_neqb_refl in E1. discriminate.
Qed.

(* ---- the identifier order is a strict total order ------------------------------------------ *)
Lemma rl_nlt_irrefl a : nlt a a = false.
Proof.
  induction a as [|x a IH]; cbn [nlt]; [reflexivity|]. rewrite Z.ltb_irrefl. exact IH.
Qed.

Lemma rl_nlt_trich a : forall b, a = b \/ nlt a b = true \/ nlt b a = true.
Proof.
  induction a as [|x a IH]; intros [|y b]; cbn [nlt]; auto.
  destruct (x <? y) eqn:E1; [auto|]. destruct (y <? x) eqn:E2; [auto|].
  assert (x = y) by lia. subst. destruct (IH b) as [->|[H|H]]; auto.
Qed.

Lemma rl_nlt_trans a : forall b c, nlt a b = true -> nlt b c = true -> nlt a c = true.
Proof.
  induction a as [|x a IH]; intros [|y b] [|z c]; cbn [nlt]; intros H1 H2; try discriminate;
    try reflexivity.
  destruct (x <? y) eqn:E1.
  - destruct (y <? z) eqn:E2.
    + assert (x <? z = true) as -> by lia. reflexivity.
    + destruct (z <? y) eqn:E3; [discriminate|]. assert (y = z) by lia. subst. rewrite E1. reflexivity.
  - destruct (y <? x) eqn:E1'; [discriminate|]. assert (x = y) by lia. subst.
    destruct (y <? z) eqn:E2; [reflexivity|]. destruct (z <? y) eqn:E3; [discriminate|].
    eapply IH; eassumption.
Qed.

Lemma rl_nlt_asym a b : nlt a b = true -> nlt b a = false.
Proof.
  intros H. destruct (nlt b a) eqn:E; [|reflexivity].
  pose proof (rl_nlt_trans _ _ _ H E) as H'. rewrite rl_nlt_irrefl in H'. discriminate.
Qed.

(* ---- induction on nodes -------------------------------------------------------------------- *)
Lemma rl_node_ind (P : node -> Prop) :
  (forall i r e d m ks, Forall P ks -> P (Dir i r e d m ks)) ->
  (forall sy i r, P (Leaf sy i r)) ->
  forall n, P n.
Proof.
  intros Hd Hl. fix IH 1. intros [i r e d m ks|sy i r]; [|apply Hl].
  apply Hd. induction ks as [|k ks IHks]; constructor; [apply IH|exact IHks].
Qed.

Lemma rl_lnode_ind (P : lnode -> Prop) :
  (forall i r ks, Forall P ks -> P (LDir i r ks)) ->
  (forall sy i r, P (LLeaf sy i r)) ->
  forall n, P n.
Proof.
  intros Hd Hl. fix IH 1. intros [i r ks|sy i r]; [|apply Hl].
  apply Hd. induction ks as [|k ks IHks]; constructor; [apply IH|exact IHks].
Qed.

(* ---- lists --------------------------------------------------------------------------------- *)
Lemma rl_NoDup_app {A} (a b : list A) :
  NoDup a -> NoDup b -> (forall x, In x a -> ~ In x b) -> NoDup (a ++ b).
Proof.
  induction a as [|x a IH]; intros Ha Hb Hd; cbn [app]; [exact Hb|].
  inversion Ha as [|? ? Hx Ha']; subst. constructor.
  - rewrite in_app_iff. intros [H|H]; [contradiction|]. apply (Hd x); [left; reflexivity|exact H].
  - apply IH; [exact Ha'|exact Hb|]. intros y Hy. apply Hd. right. exact Hy.
Qed.

Lemma rl_NoDup_app_inv {A} (a b : list A) :
  NoDup (a ++ b) -> NoDup a /\ NoDup b /\ (forall x, In x a -> ~ In x b).
Proof.
  induction a as [|x a IH]; cbn [app]; intros H.
  - split; [constructor|]. split; [exact H|]. intros x [].
  - inversion H as [|? ? Hx H']; subst. destruct (IH H') as (Ha & Hb & Hd).
    rewrite in_app_iff in Hx. split; [constructor; [tauto|exact Ha]|]. split; [exact Hb|].
    intros y [<-|Hy]; [tauto|apply Hd; exact Hy].
Qed.

Lemma rl_flat_map_perm {A B} (f : A -> list B) (l l' : list A) :
  Permutation l l' -> Permutation (flat_map f l) (flat_map f l').
Proof.
  induction 1; cbn [flat_map].
  - constructor.
  - apply Permutation_app_head. assumption.
  - rewrite !app_assoc. apply Permutation_app_tail. apply Permutation_app_comm.
  - eapply Permutation_trans; eassumption.
Qed.
