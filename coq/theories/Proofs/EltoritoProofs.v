(* Proofs about Model/Eltorito.v, part 1: the three 32-byte record types of the El Torito boot
   catalog (validation entry, initial/section entry, section header).
   Part 2 (catalog, add_section, parse state machine) is Proofs/EltoritoCatalogProofs.v, part 3
   (boot info table) is Proofs/EltoritoBitProofs.v.

   Main results
     val_roundtrip entry_roundtrip header_roundtrip   parse (record x) = x, |record x| = 32
     val_checksum_char        _checksum(record v) = -(K + checksum) mod 2^16
     val_new_word_sum         record(new(pid)) : sixteen LE words sum to 0 mod 65536, parse accepts it
     val_parse_rejects_altered_checksum / val_parse_accepts_iff
     entry_new_spec entry_new_ok entry_new_record_total
     entry_set_data_length_spec default_sector_count_spec *)
From Coq Require Import ZArith List Bool Lia ZifyBool.
From PV.Base Require Import Prim ListX.
From PV.Gen Require Import GenConst GenFun.
From PV.Model Require Import Checksums.
From PV.Proofs Require Import ChecksumsArithProofs.
From PV.Model Require Import Codec Eltorito.
From PV.Proofs Require Import CodecProofs.
Import ListNotations.
Local Open Scope Z_scope.
Ltac Zify.zify_post_hook ::= Z.to_euclidean_division_equations.

(* ---- small tools ---- *)
Lemma bytes_ok_spec l : bytes_ok l = true -> Checksums.bytes l.
Proof.
  unfold bytes_ok, Checksums.bytes. rewrite forallb_forall, Forall_forall.
  intros H x Hx. specialize (H x Hx). unfold u8_ok in H. lia.
Qed.
Lemma bytes_ok_repeat0 n : bytes_ok (repeat 0 n) = true.
Proof. induction n; [reflexivity|exact IHn]. Qed.

Lemma cbytes_app a b : Checksums.bytes a -> Checksums.bytes b -> Checksums.bytes (a ++ b).
Proof. intros Ha Hb. apply Forall_app; split; assumption. Qed.
Lemma cbytes_pack_s n l : Checksums.bytes l -> Checksums.bytes (pack_s n l).
Proof.
  intros H. unfold pack_s. apply cbytes_app.
  - unfold Checksums.bytes in *. rewrite Forall_forall in *. intros x Hx. apply H.
    eapply In_firstn; eauto.
  - apply Forall_forall. intros x Hx. apply repeat_spec in Hx. lia.
Qed.

Lemma list_ind2 {A} (P : list A -> Prop) :
  P [] -> (forall a, P [a]) -> (forall a b r, P r -> P (a :: b :: r)) -> forall l, P l.
Proof.
  intros H0 H1 H2. fix IH 1. intros [|a [|b r]]; [exact H0|apply H1|apply H2, IH].
Qed.

Lemma words16_app_even a b :
  Nat.even (length a) = true -> words16 (a ++ b) = words16 a ++ words16 b.
Proof.
  induction a as [|x|x y r IH] using list_ind2; intros He.
  - reflexivity.
  - discriminate He.
  - cbn [app words16]. rewrite IH by exact He. reflexivity.
Qed.
Lemma zsum_app a b : zsum (a ++ b) = zsum a + zsum b.
Proof. unfold zsum. induction a as [|x a IH]; cbn [app fold_right]; lia. Qed.
Lemma zsum_cons x l : zsum (x :: l) = x + zsum l.
Proof. reflexivity. Qed.
Lemma zsum_nil : zsum [] = 0.
Proof. reflexivity. Qed.

Lemma eqb_nat_true (a b : nat) : (a =? b)%nat = true -> a = b.
Proof. apply Nat.eqb_eq. Qed.

(* closed conjunctions of computations (split only on /\, never on =) *)
Ltac vm_conj_rec :=
  lazymatch goal with
  | |- _ /\ _ => split; [vm_compute; reflexivity|vm_conj_rec]
  | _ => vm_compute; reflexivity
  end.
Ltac vm_conj := intros; vm_conj_rec.

(* split H : a && b && ... = true into its conjuncts *)
Ltac andb_split H :=
  repeat match type of H with
         | (_ && _ = true) => let H' := fresh H in apply andb_prop in H; destruct H as [H H']
         end.

(* ---- validation entry ---- *)
Lemma val_layout v : map (@length Z) (val_fields v) = widths fmt_et_validation_widths.
Proof. cbn [val_fields map]. rewrite pack_s_length. reflexivity. Qed.
Lemma val_bytes_length v : length (val_bytes v) = 32%nat.
Proof. unfold val_bytes. rewrite length_concat, val_layout. reflexivity. Qed.
Lemma val_split v :
  split_widths (widths fmt_et_validation_widths) (val_bytes v) = Some (val_fields v, []).
Proof. unfold val_bytes. rewrite <- (val_layout v). apply split_concat_nil. Qed.

Lemma platform_ok_u8 p : platform_ok p = true -> u8_ok p = true.
Proof. unfold platform_ok, u8_ok. lia. Qed.

(* Round trip: for every in-range validation entry (val_ok), record() gives 32 bytes and parse()
   returns the same attributes. *)
Theorem val_roundtrip v : val_ok v = true ->
  val_record v = Some (val_bytes v) /\ length (val_bytes v) = 32%nat /\
  val_parse (val_bytes v) = Some v.
Proof.
  unfold val_ok. intros H. andb_split H.
  rename H into Hp, H3 into Hl, H2 into Hi, H1 into Hc, H0 into Hs. apply eqb_nat_true in Hl.
  split; [|split; [apply val_bytes_length|]].
  - unfold val_record. rewrite (platform_ok_u8 _ Hp), Hc. reflexivity.
  - unfold val_parse. rewrite val_split, Hs. unfold val_fields. cbv beta iota. unfold d8. cbn [nth].
    rewrite Hp. change (1 =? 1) with true. change (85 =? 85) with true.
    change (170 =? 170) with true. cbn [negb].
    rewrite le16_dle16 by (unfold u16_ok in Hc; unfold u16; lia).
    rewrite pack_s_exact by exact Hl. destruct v; reflexivity.
Qed.

(* the part of the 16-bit word sum that does not depend on the checksum field *)
Definition val_K (pid : Z) (ids : list Z) : Z :=
  1 + 256 * pid + zsum (words16 (pack_s 24 ids)) + 43605.

Lemma val_words v : u16_ok (v_checksum v) = true ->
  zsum (words16 (val_bytes v)) = val_K (v_platform_id v) (v_id_string v) + v_checksum v.
Proof.
  intros Hc. unfold val_bytes, val_fields, val_K.
  set (ids := pack_s 24 (v_id_string v)).
  replace (concat [[1]; [v_platform_id v]; le16 0; ids; le16 (v_checksum v); [85]; [170]])
    with (([1; v_platform_id v; 0; 0] ++ ids) ++ (le16 (v_checksum v) ++ [85; 170])).
  2:{ cbn [concat app le16]. reflexivity. }
  rewrite words16_app_even.
  2:{ rewrite app_length. unfold ids. rewrite pack_s_length. reflexivity. }
  rewrite zsum_app. cbn [app words16 le16]. rewrite !zsum_cons, zsum_nil.
  unfold u16_ok in Hc. lia.
Qed.

Lemma val_bytes_cbytes v : u8_ok (v_platform_id v) = true -> Checksums.bytes (v_id_string v) ->
  Checksums.bytes (val_bytes v).
Proof.
  intros Hp Hi. unfold val_bytes, val_fields. cbn [concat].
  pose proof (cbytes_pack_s 24 _ Hi) as Hk. remember (pack_s 24 (v_id_string v)) as k eqn:Ek.
  clear Ek. unfold u8_ok in Hp.
  repeat apply cbytes_app; try exact Hk; unfold Checksums.bytes, le16;
    repeat (apply Forall_cons; [lia|]); apply Forall_nil.
Qed.

(* _checksum of a recorded validation entry: minus (constant part + checksum field), 16 bits *)
Theorem val_checksum_char v :
  u8_ok (v_platform_id v) = true -> bytes_ok (v_id_string v) = true -> u16_ok (v_checksum v) = true ->
  et_checksum (val_bytes v) = (- (val_K (v_platform_id v) (v_id_string v) + v_checksum v)) mod 65536.
Proof.
  intros Hp Hi Hc. rewrite et_checksum_char by (apply val_bytes_cbytes; [exact Hp|apply bytes_ok_spec, Hi]).
  rewrite val_words by exact Hc. reflexivity.
Qed.

(* Theorem 2: for every accepted platform id and every id string, new() succeeds, stores
   (-K) mod 2^16, the sixteen little-endian words of record() sum to 0 mod 65536 (what a BIOS
   verifies), _checksum of the record is 0, and (24-byte id string) parse accepts it. *)
Theorem val_new_word_sum pid ids :
  platform_ok pid = true -> bytes_ok ids = true ->
  let v := mk_val pid ids ((- val_K pid ids) mod 65536) in
  val_new_ids pid ids = Some v /\ val_record v = Some (val_bytes v) /\
  et_word_sum (val_bytes v) mod 65536 = 0 /\ et_checksum (val_bytes v) = 0 /\
  (length ids = 24%nat -> val_ok v = true /\ val_parse (val_bytes v) = Some v).
Proof.
  intros Hp Hi v. pose proof (platform_ok_u8 _ Hp) as Hu.
  assert (Hcr : u16_ok ((- val_K pid ids) mod 65536) = true) by (unfold u16_ok; lia).
  assert (Hnew : val_new_ids pid ids = Some v).
  { unfold val_new_ids, val_record. cbn [v_platform_id v_checksum]. rewrite Hp, Hu. cbn [negb u16_ok Z.leb andb].
    change (u16_ok 0) with true. cbn [andb]. unfold v. f_equal. f_equal.
    rewrite val_checksum_char by (cbn [v_platform_id v_id_string v_checksum]; auto).
    cbn [v_platform_id v_id_string v_checksum]. f_equal. lia. }
  assert (Hcs : et_checksum (val_bytes v) = 0).
  { rewrite val_checksum_char by (cbn [v_platform_id v_id_string v_checksum]; auto).
    unfold v. cbn [v_platform_id v_id_string v_checksum]. lia. }
  assert (Hrec : val_record v = Some (val_bytes v)).
  { unfold val_record, v. cbn [v_platform_id v_checksum]. rewrite Hu, Hcr. reflexivity. }
  split; [exact Hnew|]. split; [exact Hrec|]. split; [|split; [exact Hcs|]].
  - rewrite (et_word_sum_words _ (val_bytes_length v)), val_words by exact Hcr.
    unfold v. cbn [v_platform_id v_id_string v_checksum]. lia.
  - intros Hl.
    assert (Hok : val_ok v = true).
    { unfold val_ok. rewrite Hcs. unfold v. cbn [v_platform_id v_id_string v_checksum].
      rewrite Hp, Hi, Hcr, Hl. reflexivity. }
    split; [exact Hok|apply val_roundtrip, Hok].
Qed.

(* the code's new(platform_id): id string b'\x00'*24 *)
Corollary val_new_ok pid : platform_ok pid = true ->
  exists v, val_new pid = Some v /\ val_ok v = true /\ v_platform_id v = pid /\
            et_word_sum (val_bytes v) mod 65536 = 0 /\ val_parse (val_bytes v) = Some v.
Proof.
  intros Hp. destruct (val_new_word_sum pid (repeat 0 24) Hp (bytes_ok_repeat0 24))
    as (H1 & _ & H3 & _ & H5). destruct (H5 eq_refl) as [H6 H7].
  eexists. split; [exact H1|]. split; [exact H6|]. split; [reflexivity|]. split; [exact H3|exact H7].
Qed.
Lemma val_new_bad_platform pid : platform_ok pid = false -> val_new pid = None.
Proof. intros H. unfold val_new, val_new_ids. rewrite H. reflexivity. Qed.

(* parse only accepts input whose _checksum is 0 *)
Lemma val_parse_checksum b v : val_parse b = Some v -> et_checksum b = 0.
Proof.
  unfold val_parse. destruct (split_widths _ b) as [[fs rest]|]; [|discriminate].
  do 8 (destruct fs as [|? fs]; try discriminate).
  repeat match goal with |- context [if negb ?c then _ else _] => destruct c eqn:?; cbn [negb]; try discriminate end.
  intros _. lia.
Qed.

(* a validation entry whose checksum field differs from the right one is rejected *)
Theorem val_parse_rejects_altered_checksum v c' : val_ok v = true ->
  u16_ok c' = true -> c' <> v_checksum v ->
  val_parse (val_bytes (mk_val (v_platform_id v) (v_id_string v) c')) = None.
Proof.
  unfold val_ok. intros H Hc' Hne. andb_split H.
  rename H into Hu, H2 into Hi, H1 into Hc, H0 into Hs. apply platform_ok_u8 in Hu.
  apply Z.eqb_eq in Hs.
  rewrite (val_checksum_char v Hu Hi Hc) in Hs.
  destruct (val_parse _) as [w|] eqn:E; [|reflexivity].
  apply val_parse_checksum in E. rewrite val_checksum_char in E by (cbn [v_platform_id v_id_string v_checksum]; auto).
  cbn [v_platform_id v_id_string v_checksum] in E. unfold u16_ok in Hc, Hc'. exfalso. lia.
Qed.

(* exact acceptance condition on an arbitrary 32-byte string *)
Theorem val_parse_accepts_iff b : length b = 32%nat -> Checksums.bytes b ->
  (val_parse b <> None <->
   nth 0 b 0 = 1 /\ platform_ok (nth 1 b 0) = true /\ nth 30 b 0 = 85 /\ nth 31 b 0 = 170 /\
   et_word_sum b mod 65536 = 0).
Proof.
  intros Hl Hb.
  pose proof (et_checksum_zero_sum b Hb Hl) as Hz. pose proof (et_checksum_char b Hb) as Hc.
  assert (Hiff : (et_checksum b =? 0) = true <-> et_word_sum b mod 65536 = 0) by lia.
  clear Hz Hc Hb. unfold val_parse. remember (et_checksum b) as cs eqn:Ecs. remember (et_word_sum b) as ws eqn:Ews.
  clear Ecs Ews.
  do 33 (destruct b as [|? b]; [try discriminate Hl|]); [|discriminate Hl].
  cbn [nth]. vm_compute (widths fmt_et_validation_widths).
  cbn [split_widths length Nat.ltb Nat.leb firstn skipn]. unfold d8. cbn [nth].
  destruct (z =? 1) eqn:E0; cbn [negb]; [|split; [congruence|lia]].
  destruct (platform_ok z0) eqn:E1; cbn [negb]; [|split; [congruence|intros (_ & H & _); discriminate H]].
  destruct (z29 =? 85) eqn:E2; cbn [negb]; [|split; [congruence|lia]].
  destruct (z30 =? 170) eqn:E3; cbn [negb]; [|split; [congruence|lia]].
  destruct (cs =? 0) eqn:E4; cbn [negb].
  - split; [intros _|discriminate]. repeat split; lia.
  - split; [congruence|]. intros (_ & _ & _ & _ & H). apply Hiff in H. discriminate H.
Qed.

(* ---- entry ---- *)
Lemma entry_layout e : map (@length Z) (entry_fields e) = widths fmt_et_entry_widths.
Proof. cbn [entry_fields map]. rewrite pack_s_length. reflexivity. Qed.
Lemma entry_bytes_length e : length (entry_bytes e) = 32%nat.
Proof. unfold entry_bytes. rewrite length_concat, entry_layout. reflexivity. Qed.
Lemma entry_split e :
  split_widths (widths fmt_et_entry_widths) (entry_bytes e) = Some (entry_fields e, []).
Proof. unfold entry_bytes. rewrite <- (entry_layout e). apply split_concat_nil. Qed.

Lemma entry_ok_inv e : entry_ok e = true ->
  (e_boot_indicator e = 136 \/ e_boot_indicator e = 0) /\ 0 <= e_boot_media_type e <= 4 /\
  u16 (e_load_segment e) /\ byte (e_system_type e) /\ u16 (e_sector_count e) /\
  u32 (e_load_rba e) /\ byte (e_sel_type e) /\ length (e_sel_crit e) = 19%nat /\
  bytes_ok (e_sel_crit e) = true.
Proof.
  unfold entry_ok. intros H. andb_split H. apply eqb_nat_true in H1.
  unfold u8_ok, u16_ok, u32_ok in *. unfold u16, u32, byte.
  repeat split; try assumption; lia.
Qed.
Lemma entry_ok_ranges e : entry_ok e = true -> entry_ranges_ok e = true.
Proof.
  intros H. apply entry_ok_inv in H. destruct H as (H1 & H2 & H3 & H4 & H5 & H6 & H7 & _).
  unfold entry_ranges_ok, u8_ok, u16_ok, u32_ok. unfold u16, u32, byte in *. lia.
Qed.

Theorem entry_roundtrip e : entry_ok e = true ->
  entry_record e = Some (entry_bytes e) /\ length (entry_bytes e) = 32%nat /\
  entry_parse (entry_bytes e) = Some e.
Proof.
  intros H. split; [|split; [apply entry_bytes_length|]].
  - unfold entry_record. rewrite (entry_ok_ranges e H). reflexivity.
  - apply entry_ok_inv in H. destruct H as (H1 & H2 & H3 & H4 & H5 & H6 & H7 & Hl & _).
    unfold entry_parse. rewrite entry_split. unfold entry_fields. cbv beta iota. unfold d8. cbn [nth].
    replace ((e_boot_indicator e =? 136) || (e_boot_indicator e =? 0)) with true by lia.
    replace (e_boot_media_type e >? 4) with false by lia.
    change (0 =? 0) with true. cbn [negb].
    rewrite !le16_dle16 by assumption. rewrite le32_dle32 by assumption.
    rewrite pack_s_exact by exact Hl. destruct e; reflexivity.
Qed.

(* the media-type table, the sector count and the range checks of new() *)
Theorem entry_new_spec sc ls m st b :
  entry_new sc ls m st b =
  if negb (new_args_ok sc ls m st) then None else
  match m with
  | MNoemul => Some (mk_entry (if b then 136 else 0) 0 ls st sc 0 0 (repeat 0 19))
  | MFloppy => if (sc =? 2400) || (sc =? 2880) || (sc =? 5760) then
                 Some (mk_entry (if b then 136 else 0)
                                (if sc =? 2400 then 1 else if sc =? 2880 then 2 else 3)
                                ls st 1 0 0 (repeat 0 19))
               else None
  | MHdemul => Some (mk_entry (if b then 136 else 0) 4 ls st 1 0 0 (repeat 0 19))
  | MOther => None
  end.
Proof.
  unfold entry_new, new_args_ok. change (u16_ok 1) with true. cbn [negb].
  destruct (u16_ok ls); destruct (u8_ok st); destruct m; cbn [negb andb]; try reflexivity;
    try (destruct (u16_ok sc); reflexivity);
    destruct (sc =? 2400) eqn:E1; try reflexivity; destruct (sc =? 2880) eqn:E2; try reflexivity;
    destruct (sc =? 5760) eqn:E3; reflexivity.
Qed.

Theorem entry_new_ok sc ls m st b e : entry_new sc ls m st b = Some e ->
  new_args_ok sc ls m st = true /\
  entry_ok e = true /\ e_boot_indicator e = (if b then 136 else 0) /\ e_load_rba e = 0.
Proof.
  rewrite entry_new_spec. destruct (new_args_ok sc ls m st) eqn:Ha; cbn [negb]; [|discriminate].
  intros H. split; [reflexivity|]. unfold new_args_ok in Ha. andb_split Ha.
  assert (Hgen : forall mt s, 0 <= mt <= 4 -> u16_ok s = true ->
            entry_ok (mk_entry (if b then 136 else 0) mt ls st s 0 0 (repeat 0 19)) = true).
  { intros mt s Hmt Hs. unfold entry_ok.
    cbn [e_boot_indicator e_boot_media_type e_load_segment e_system_type e_sector_count e_load_rba
         e_sel_type e_sel_crit].
    rewrite bytes_ok_repeat0, repeat_length. cbn [Nat.eqb].
    unfold u8_ok, u16_ok, u32_ok in *. destruct b; lia. }
  destruct m.
  - apply some_inv in H; subst e. split; [apply Hgen; [lia|exact Ha0]|split; reflexivity].
  - destruct (_ || _); [|discriminate H]. apply some_inv in H; subst e.
    split; [apply Hgen; [destruct (sc =? 2400); [|destruct (sc =? 2880)]; lia|reflexivity]|split; reflexivity].
  - apply some_inv in H; subst e. split; [apply Hgen; [lia|reflexivity]|split; reflexivity].
  - discriminate H.
Qed.

(* every entry new() creates can be recorded (since commit 262580a new() checks what struct.pack
   would refuse: before, a 'noemul' entry of more than 65535 sectors was created and write() failed) *)
Theorem entry_new_record_total sc ls m st b e : entry_new sc ls m st b = Some e ->
  entry_record e <> None /\ entry_record e = Some (entry_bytes e) /\
  entry_parse (entry_bytes e) = Some e.
Proof.
  intros H. destruct (entry_new_ok _ _ _ _ _ _ H) as (_ & Ho & _).
  destruct (entry_roundtrip e Ho) as (Hr & _ & Hp). rewrite Hr. split; [discriminate|split; [reflexivity|exact Hp]].
Qed.
Example entry_new_limits :
  entry_new 65535 0 MNoemul 0 true <> None /\ entry_new 65536 0 MNoemul 0 true = None /\
  entry_new (default_sector_count (2048 * 16384 + 1)) 0 MNoemul 0 true = None /\
  entry_new 65536 0 MHdemul 0 true <> None /\ entry_new 4 65536 MNoemul 0 true = None /\
  entry_new 4 0 MNoemul 256 true = None /\ entry_new (-1) 0 MNoemul 0 false = None.
Proof. repeat match goal with |- _ /\ _ => split end; vm_compute; congruence. Qed.

(* set_data_length: the least number of 512-byte virtual sectors covering [len] *)
Theorem entry_set_data_length_spec e len :
  let e' := entry_set_data_length e len in
  e_sector_count e' = (len + 511) / 512 /\ len <= entry_length e' < len + 512 /\
  e_load_rba e' = e_load_rba e /\ e_boot_indicator e' = e_boot_indicator e.
Proof.
  cbv zeta. unfold entry_length, entry_set_data_length, entry_set_sector_count. cbn [e_sector_count e_load_rba e_boot_indicator].
  rewrite ceiling_div_spec by lia. repeat split; lia.
Qed.
Theorem default_sector_count_spec len :
  default_sector_count len = 4 * ((len + 2047) / 2048).
Proof. unfold default_sector_count. rewrite ceiling_div_spec by lia. lia. Qed.

(* ---- section header ---- *)
Lemma header_layout h : map (@length Z) (header_fields h) = widths fmt_et_section_widths.
Proof. cbn [header_fields map]. rewrite pack_s_length. reflexivity. Qed.
Lemma header_fields_length h : length (concat (header_fields h)) = 32%nat.
Proof. rewrite length_concat, header_layout. reflexivity. Qed.

Lemma concat_entries_length (es : list et_entry) :
  length (concat (map entry_bytes es)) = (32 * length es)%nat.
Proof.
  induction es as [|e es IH]; [reflexivity|].
  cbn [map concat length]. rewrite app_length, entry_bytes_length, IH. lia.
Qed.
Lemma header_bytes_length h : length (header_bytes h) = (32 * (1 + length (h_entries h)))%nat.
Proof.
  unfold header_bytes. rewrite app_length, header_fields_length, concat_entries_length. lia.
Qed.

(* parse() of the first 32 bytes (what the catalog parser hands over) and of the whole record *)
Theorem header_roundtrip h : header_ok h = true ->
  let h0 := header_set_entries h (h_num_entries h) [] in
  header_parse (firstn 32 (header_bytes h)) = Some h0 /\ header_parse (header_bytes h) = Some h0 /\
  (forallb entry_ranges_ok (h_entries h) = true -> header_record h = Some (header_bytes h)).
Proof.
  intros H h0. unfold header_ok in H. andb_split H. apply eqb_nat_true in H1. rename H1 into Hl.
  assert (Hp : forall t, header_parse (concat (header_fields h) ++ t) = Some h0).
  { intros t. unfold header_parse. rewrite <- (header_layout h), split_concat.
    unfold header_fields. cbv beta iota. unfold d8. cbn [nth].
    rewrite le16_dle16 by (unfold u16_ok in H2; unfold u16; lia).
    rewrite pack_s_exact by exact Hl. reflexivity. }
  split; [|split].
  - unfold header_bytes. rewrite (firstn_app_exact 32) by apply header_fields_length.
    rewrite <- (app_nil_r (concat _)). apply Hp.
  - apply Hp.
  - intros He. unfold header_record, header_ranges_ok. rewrite He.
    replace (u8_ok (h_indicator h) && u8_ok (h_platform_id h) && u16_ok (h_num_entries h)) with true
      by (unfold u8_ok, u16_ok in *; lia). reflexivity.
Qed.

(* ---- real objects (PyCdlib().new(); add_fp(b'boot\n', '/BOOT.;1'); add_eltorito('/BOOT.;1')) ---- *)
Definition real_val_bytes : list Z :=
  [1; 0; 0; 0; 0; 0; 0; 0; 0; 0; 0; 0; 0; 0; 0; 0; 0; 0; 0; 0; 0; 0; 0; 0; 0; 0; 0; 0; 170; 85; 85; 170].
Definition real_init_bytes : list Z :=
  [136; 0; 0; 0; 0; 0; 4; 0; 26; 0; 0; 0; 0; 0; 0; 0; 0; 0; 0; 0; 0; 0; 0; 0; 0; 0; 0; 0; 0; 0; 0; 0].
Example real_validation :
  val_new 0 = Some (mk_val 0 (repeat 0 24) 21930) /\
  val_record (mk_val 0 (repeat 0 24) 21930) = Some real_val_bytes /\
  val_parse real_val_bytes = Some (mk_val 0 (repeat 0 24) 21930) /\
  check_validation_case 0 (repeat 0 24) real_val_bytes = true /\
  check_validation_case 3 (repeat 0 24) [] = true /\
  et_word_sum real_val_bytes mod 65536 = 0.
Proof. vm_conj. Qed.
(* initial entry after write(): new(4, 0, 'noemul', 0, True); set_data_location(26, 0) *)
Example real_initial_entry :
  entry_new (default_sector_count 5) 0 MNoemul 0 true = Some (mk_entry 136 0 0 0 4 0 0 (repeat 0 19)) /\
  entry_record (mk_entry 136 0 0 0 4 26 0 (repeat 0 19)) = Some real_init_bytes /\
  entry_parse real_init_bytes = Some (mk_entry 136 0 0 0 4 26 0 (repeat 0 19)) /\
  check_entry_case (136, 0, 0, 0, 4, 26, 0, repeat 0 19) real_init_bytes = true /\
  check_entry_new_case 4 0 0 0 true 26 real_init_bytes = true /\
  check_entry_dec_case real_init_bytes real_init_bytes = true.
Proof. vm_conj. Qed.
(* third boot image: add_eltorito('/THIRD.;1', boot_load_seg=0x7c0) of a 3000-byte file *)
Example real_section :
  let e := (136, 0, 1984, 0, 8, 28, 0, repeat 0 19) in
  check_header_case (145, 0, 1, repeat 0 28) [e]
    ([145; 0; 1; 0] ++ repeat 0 28 ++ [136; 0; 192; 7; 0; 0; 8; 0; 28; 0; 0; 0] ++ repeat 0 20) = true /\
  default_sector_count 3000 = 8 /\
  bad_entry_cases 0 [ (e, [136; 0; 192; 7; 0; 0; 8; 0; 28; 0; 0; 0] ++ repeat 0 20);
                      (e, [136; 0; 192; 7; 0; 0; 9; 0; 28; 0; 0; 0] ++ repeat 0 20);
                      ((136, 0, 65536, 0, 8, 28, 0, repeat 0 19), []) ] = [1%nat].
Proof. vm_conj. Qed.

Print Assumptions val_roundtrip.
Print Assumptions val_new_word_sum.
Print Assumptions val_new_ok.
Print Assumptions val_parse_rejects_altered_checksum.
Print Assumptions val_parse_accepts_iff.
Print Assumptions entry_roundtrip.
Print Assumptions entry_new_ok.
Print Assumptions entry_new_record_total.
Print Assumptions entry_set_data_length_spec.
Print Assumptions header_roundtrip.
