(* C11 / C04 -- El Torito as an edit-history state machine (Model/AccountBoot.v): what add_eltorito
   takes and what rm_eltorito gives back, the statements that are FALSE for the library (with
   witnesses), and a worked history that tools/account_boot_traces.py runs on the real library. *)
From Coq Require Import ZArith List Bool Lia ZifyBool Sorted Arith Permutation.
From PV.Base Require Import Prim.
From PV.Gen Require Import GenConst GenFun.
From PV.Model Require Import Names Checksums Pack Alloc Codec Eltorito Account AccountLinks AccountBoot.
From PV.Proofs Require Import PackProofs AllocProofs ChecksumsArithProofs AccountLemmas AccountProofs
     AccountLinksLemmas AccountLinksPurge AccountLinksInv EltoritoCatalogProofs EltoritoBuiltProofs
     AccountBootLemmas AccountBootInv AccountBootInv2 AccountBootFix AccountBootProofs.
Import ListNotations.
Local Open Scope Z_scope.
Ltac Zify.zify_post_hook ::= Z.to_euclidean_division_equations.

(* ---- 1. rm_eltorito removes the boot record, the catalog (names and block) and nothing else ---------- *)

Theorem ab_rm_eltorito_exact s b :
  BInv s -> bwreck s = false -> bboot s = Some b ->
  let s' := fst (bstep s BRmEltorito) in
  snd (bstep s BRmEltorito) = Acc /\ bboot s' = None /\
  (* the tree: exactly the names of the catalog go; same directories *)
  lrecords [] (lroot (bl s')) =
    filter (fun r => negb (mem (snd r) (cat_recs b))) (lrecords [] (lroot (bl s))) /\
  (forall p, ldirs p (lroot (bl s')) = ldirs p (lroot (bl s))) /\
  (* self.inodes: only boot files WITHOUT any name (hidden with rm_hard_link) are released *)
  (forall i, In i (ids (linodes (bl s'))) <->
             In i (ids (linodes (bl s))) /\ ~ (In i (binos b) /\ lrefcount i (lroot (bl s)) = 0)) /\
  (forall i, In i (ids (linodes (bl s'))) ->
             len_of i (linodes (bl s')) = len_of i (linodes (bl s)) /\
             lrefcount i (lroot (bl s')) = lrefcount i (lroot (bl s))) /\
  (* no boot info table stays on a former boot file *)
  (forall i, In i (bbits s') <-> In i (bbits s) /\ ~ In i (binos b)) /\
  (* the declared size: boot record + catalog block, the directory blocks the catalog's names
     give back, the blocks of the released boot files *)
  lspace (bl s') = lspace (bl s) - 2
                   - (ltotal lw_dblk (lroot (bl s)) - ltotal lw_dblk (lroot (bl s')))
                   - (tbl_sum (linodes (bl s)) - tbl_sum (linodes (bl s'))) /\
  lptr_size (bl s') = lptr_size (bl s) /\ lptr_ext (bl s') = lptr_ext (bl s).
Proof.
  intros HI Hw Hb s'.
  assert (HI' : BInv s') by (apply ab_step_preserves_inv, HI).
  pose proof (bi_space s HI) as E. pose proof (bi_space s' HI') as E'.
  subst s'. revert HI' E'. unfold bstep, bstep_gen. rewrite Hw. unfold bstep_rm_eltorito. rewrite Hb. cbv zeta.
  cbn [fst snd bl bboot bbits lroot linodes lspace lptr_size lptr_ext boot2]. intros HI' E'.
  rewrite Hb in E. cbn [boot2] in E.
  pose proof (bi_cat s HI) as HC. rewrite Hb in HC. destruct HC as (C1 & C2 & _ & _).
  destruct (bi_live s HI) as (HN & HL & HE). destruct (bi_root s HI) as [Hn Hd].
  destruct (ab_purge_all_props (cat_recs b) (lroot (bl s))) as (P1 & P2 & P3 & P4 & P5 & P6).
  pose proof (ab_release_spec (purge_all (cat_recs b) (lroot (bl s))) (binos b) (linodes (bl s)) 0 HN) as HR.
  cbv zeta in HR. destruct HR as (R1 & R2 & R3 & R4 & R5).
  assert (Hrc : forall j, In j (ids (linodes (bl s))) ->
                lrefcount j (purge_all (cat_recs b) (lroot (bl s))) = lrefcount j (lroot (bl s))).
  { intros j Hj. rewrite (ab_purge_all_refcount _ _ _ Hd). destruct (mem j (cat_recs b)) eqn:Hm; [|reflexivity].
    apply ab_mem_in in Hm. destruct (C2 j Hm). tauto. }
  split; [reflexivity|]. split; [reflexivity|].
  split; [apply ab_purge_all_records, Hd|]. split; [exact P6|].
  split; [|split; [|split; [|split; [|split; reflexivity]]]].
  - intros i. rewrite R2. split; intros [H1 H2]; (split; [exact H1|]); rewrite (Hrc i H1) in *; exact H2.
  - intros i Hi. split; [apply R3, Hi|]. apply Hrc. apply R2 in Hi. tauto.
  - intros i. rewrite filter_In, negb_true_iff, ab_mem_false. tauto.
  - lia.
Qed.

Theorem ab_rm_eltorito_exact_run ops b :
  let s := brun binit ops in
  bwreck s = false -> bboot s = Some b ->
  let s' := fst (bstep s BRmEltorito) in
  snd (bstep s BRmEltorito) = Acc /\ bboot s' = None /\
  lrecords [] (lroot (bl s')) =
    filter (fun r => negb (mem (snd r) (cat_recs b))) (lrecords [] (lroot (bl s))) /\
  (forall i, In i (ids (linodes (bl s'))) <->
             In i (ids (linodes (bl s))) /\ ~ (In i (binos b) /\ lrefcount i (lroot (bl s)) = 0)) /\
  lspace (bl s') = lspace (bl s) - 2
                   - (ltotal lw_dblk (lroot (bl s)) - ltotal lw_dblk (lroot (bl s')))
                   - (tbl_sum (linodes (bl s)) - tbl_sum (linodes (bl s'))).
Proof.
  intros s Hw Hb. destruct (ab_rm_eltorito_exact s b (ab_run_inv ops) Hw Hb) as (H1 & H2 & H3 & _ & H5 & _ & _ & H8 & _).
  split; [exact H1|]. split; [exact H2|]. split; [exact H3|]. split; [exact H5|exact H8].
Qed.

(* ---- 2. what the first add_eltorito takes ------------------------------------------------------------- *)

Lemma ab_add_record_keeps l dirp nm ino extra :
  lptr_ext (fst (add_record l dirp nm ino (linodes l) extra)) = lptr_ext l /\
  linodes (fst (add_record l dirp nm ino (linodes l) extra)) = linodes l.
Proof.
  unfold add_record, lrefuse. cbv zeta.
  repeat match goal with |- context [match ?x with _ => _ end] => destruct x end; split; reflexivity.
Qed.

Theorem ab_add_eltorito_first_space s bp cd cn ls pf bit efi m ba sg s1 :
  BInv s -> bwreck s = false -> bboot s = None ->
  bstep s (BAddEltorito bp cd cn ls pf bit efi m ba sg) = (s1, Acc) ->
  (* boot record + catalog block + what the directory of the catalog's name grows by *)
  lspace (bl s1) = lspace (bl s) + 2 + (ltotal lw_dblk (lroot (bl s1)) - ltotal lw_dblk (lroot (bl s))) /\
  linodes (bl s1) = linodes (bl s) /\
  exists b1 i, bboot s1 = Some b1 /\ binos b1 = [i] /\ cat_recs b1 = [lnext (bl s)] /\
               In i (ids (linodes (bl s))).
Proof.
  intros HI Hw Hb Hstep.
  assert (HI1 : BInv s1).
  { pose proof (ab_step_preserves_inv s (BAddEltorito bp cd cn ls pf bit efi m ba sg) HI) as H.
    rewrite Hstep in H. exact H. }
  pose proof (bi_space s HI) as E. pose proof (bi_space s1 HI1) as E1. rewrite Hb in E. cbn [boot2] in E.
  revert Hstep. unfold bstep, bstep_gen. rewrite Hw. unfold bstep_add_eltorito, brefuse. cbv zeta. rewrite Hb.
  destruct (m =? 2); [discriminate|].
  destruct (lsubtree bp (lroot (bl s))) as [[fn i fs|dn dl kids]|]; try discriminate.
  destruct (has_ino i (linodes (bl s))) eqn:Hin; cbn [negb]; [|discriminate].
  destruct (true && (len_of i (linodes (bl s)) =? 0)); [discriminate|].
  destruct (cat_new _ _ _ _ _ _) as [c|]; [|discriminate].
  destruct (snd (add_record (bl s) cd cn (lnext (bl s)) (linodes (bl s)) (C + C))) eqn:Hacc; [|discriminate].
  intros H. injection H as Hs1.
  assert (Hbl : bl s1 = fst (add_record (bl s) cd cn (lnext (bl s)) (linodes (bl s)) (C + C)))
    by (rewrite <- Hs1; reflexivity).
  assert (Hbt : bboot s1 = Some {| cat_recs := [lnext (bl s)]; bcat := c; binos := [i] |})
    by (rewrite <- Hs1; reflexivity).
  destruct (ab_add_record_keeps (bl s) cd cn (lnext (bl s)) (C + C)) as [K1 K2].
  rewrite Hbt in E1. cbn [boot2] in E1. rewrite Hbl in *. rewrite K1, K2 in E1.
  split; [lia|]. split; [exact K2|].
  eexists. exists i. split; [exact Hbt|]. cbn [binos cat_recs]. split; [reflexivity|]. split; [reflexivity|].
  apply ab_has_ino_in, Hin.
Qed.

(* ---- 3. statements that are FALSE for the library ------------------------------------------------------ *)

Definition nA : ident := [65; 46; 59; 49].                              (* A.;1 *)
Definition nB : ident := [66; 46; 59; 49].                              (* B.;1 *)
Definition nZ : ident := [90; 46; 59; 49].                              (* Z.;1 *)
Definition nBOOT : ident := [66; 79; 79; 84; 46; 59; 49].               (* BOOT.;1 *)
Definition nCAT : ident := [66; 79; 79; 84; 46; 67; 65; 84; 59; 49].    (* BOOT.CAT;1 *)
Definition nCAT2 : ident := [67; 65; 84; 50; 46; 59; 49].               (* CAT2.;1 *)
Definition nD : ident := [68].                                          (* D *)
Definition el_plain (bp : path) : bop := BAddEltorito bp [] nCAT None 0 false false 0 true 0.

(* Witnesses (a), (b), (e) are about the code BEFORE commits d8f44b3 / 6a3f4a5 / 4476941
   ([brun_gen false]); each is followed by what the current code does on the same input. *)

(* (a) old code: "the entry points at the boot file's OWN data" was false: a zero-length boot file
   got the extent of whatever came next -- another file's data, or the first sector AFTER the
   volume.  Reproduced (before d8f44b3): /var/tmp/accountboot/repro_empty_bootfile_alias.py (after
   reopening, the entry was attached to the other file), repro_empty_bootfile_last.py (the written
   image could not be opened).  Current code: ab_load_rba_own_extent (AccountBootProofs.v). *)
Theorem ab_load_rba_own_extent_refuted_old :
  (exists ops i j, let s := brun_gen false binit ops in
     bwreck s = false /\ (exists b, bboot s = Some b /\ In i (binos b)) /\ i <> j /\
     len_of j (linodes (bl s)) <> 0 /\ ino_extent s i = ino_extent s j /\ ino_extent s i <> None) /\
  (exists ops, let s := brun_gen false binit ops in
     bwreck s = false /\ entry_rbas s = [lspace (bl s)]).
Proof.
  split.
  - exists [BAddFile [] nBOOT 0; BAddFile [] nA 100; el_plain [nBOOT]], 0%nat, 1%nat.
    vm_compute. split; [reflexivity|]. split; [eexists; split; [reflexivity|left; reflexivity]|].
    repeat split; try discriminate.
  - exists [BAddFile [] nBOOT 0; el_plain [nBOOT]]. vm_compute. split; reflexivity.
Qed.

Theorem ab_empty_boot_file_refused s bp cd cn ls pf bit efi m ba sg fn i st :
  lsubtree bp (lroot (bl s)) = Some (LFile fn i st) -> len_of i (linodes (bl s)) = 0 ->
  bstep s (BAddEltorito bp cd cn ls pf bit efi m ba sg) = (s, Ref).
Proof.
  intros Hsub Hlen. unfold bstep, bstep_gen, brefuse. destruct (bwreck s); [reflexivity|].
  unfold bstep_add_eltorito, brefuse. cbv zeta. rewrite Hsub, Hlen.
  destruct (m =? 2); [reflexivity|]. destruct (negb (has_ino i (linodes (bl s)))); reflexivity.
Qed.

(* (b) old code: "a refused operation leaves the object unchanged" was false for a section-adding
   add_eltorito(boot_info_table=True): the table was attached BEFORE the remaining checks and
   stayed on a file that is not a boot file (bytes 8..63 overwritten in every later image).
   Reproduced (before 6a3f4a5): /var/tmp/accountboot/repro_refused_bit.py.  Current code:
   ab_refused_unchanged_unless_first_call, ab_bits_on_boot_files. *)
Theorem ab_refused_unchanged_refuted_old :
  exists ops o, let s := brun_gen false binit ops in
    snd (bstep_gen false s o) = Late /\ bwreck (fst (bstep_gen false s o)) = false /\
    bbits s = [] /\ bbits (fst (bstep_gen false s o)) = [1%nat] /\
    erefs 1 (bboot (fst (bstep_gen false s o))) = 0 /\
    (* the current code on the same input: refused, nothing changed *)
    bstep (brun binit ops) o = (brun binit ops, Ref).
Proof.
  exists [BAddFile [] nBOOT 2048; BAddFile [] nA 100; el_plain [nBOOT]],
         (BAddEltorito [nA] [] nCAT (Some 70000) 0 true false 0 true 0).
  vm_compute. repeat split; reflexivity.
Qed.

Definition ab_refused_unchanged_partial := ab_refused_unchanged_gen.

(* (e) old code: add_hard_link(iso_old_path=<a name of the boot catalog>) made a record without
   inode that the catalog did not know: no extent (write_fp raised TypeError), and rm_eltorito left
   the name behind.  Reproduced (before 4476941): /var/tmp/accountboot/repro_link_from_catalog_name.py.
   Current code: the new name is a catalog name and goes with rm_eltorito. *)
Theorem ab_link_from_catalog_name_refuted_old :
  exists ops, let nL : ident := [76; 46; 59; 49] in
    let old := brun_gen false binit ops in let cur := brun binit ops in
    (* old: the record L.;1 (number 2) is not a catalog record and survives rm_eltorito *)
    (exists b, bboot old = Some b /\ cat_recs b = [1%nat]) /\
    lrecords [] (lroot (bl (fst (bstep_gen false old BRmEltorito)))) = [([], nBOOT, 0%nat); ([], nL, 2%nat)] /\
    (* current: it is a catalog record and rm_eltorito removes it *)
    (exists b, bboot cur = Some b /\ cat_recs b = [1%nat; 2%nat]) /\
    lrecords [] (lroot (bl (fst (bstep cur BRmEltorito)))) = [([], nBOOT, 0%nat)].
Proof.
  exists [BAddFile [] nBOOT 3000; el_plain [nBOOT]; BAddLink [nCAT] [] [76; 46; 59; 49]].
  vm_compute. repeat split; try reflexivity; eexists; split; reflexivity.
Qed.

(* (c) a first add_eltorito that fails after self.brs.append (duplicate catalog name, bad sector
   count / load segment / media name / platform id, bad catalog path) leaves the object unusable:
   every later _reshuffle_extents raises.  (known finding c14:add_eltorito:*:late) *)
Theorem ab_late_refusal_wrecks :
  exists ops o, let s := brun binit ops in
    bwreck s = false /\ snd (bstep s o) = Late /\ bwreck (fst (bstep s o)) = true.
Proof.
  exists [BAddFile [] nBOOT 2048; BAddFile [] nCAT 10], (el_plain [nBOOT]).
  vm_compute. repeat split; reflexivity.
Qed.

(* (d) "rm_eltorito gives back exactly what add_eltorito took": false by one block when the
   directory of the catalog's name was exactly full (68 + 8*236 + 92 = 2048 bytes): the new record
   makes it grow, and remove_child keeps the second block (dlen - used = 2048 is not > 2048). *)
Definition long_name (c : Z) : ident := repeat 78 199 ++ [c; 59; 49].      (* 202 bytes: record of 236 *)
Definition boot58 : ident := repeat 66 56 ++ [59; 49].                    (* 58 bytes: record of 92 *)
Definition full_root_ops : list bop :=
  map (fun c => BAddFile [] (long_name c) 10) [65; 66; 67; 68; 69; 70; 71; 72] ++ [BAddFile [] boot58 10].

Theorem ab_add_rm_eltorito_inverse_refuted :
  exists ops o, let s := brun binit ops in
    let s1 := fst (bstep s o) in let s2 := fst (bstep s1 BRmEltorito) in
    snd (bstep s o) = Acc /\ snd (bstep s1 BRmEltorito) = Acc /\
    lspace (bl s1) = lspace (bl s) + 3 /\ lspace (bl s2) = lspace (bl s) + 1 /\
    lrecords [] (lroot (bl s2)) = lrecords [] (lroot (bl s)) /\ linodes (bl s2) = linodes (bl s) /\
    ltotal lw_dlen (lroot (bl s)) = 2048 /\ ltotal lw_dlen (lroot (bl s2)) = 4096.
Proof.
  exists full_root_ops, (el_plain [boot58]). vm_compute. repeat split; reflexivity.
Qed.

(* the true form: ab_add_eltorito_first_space + ab_rm_eltorito_exact: the two differ by the
   directory blocks only (and by the boot files that lost all their names in between) *)
Theorem ab_add_rm_eltorito_inverse_partial s o s1 bp cd cn ls pf bit efi m ba sg :
  BInv s -> bwreck s = false -> bboot s = None ->
  o = BAddEltorito bp cd cn ls pf bit efi m ba sg -> bstep s o = (s1, Acc) ->
  let s2 := fst (bstep s1 BRmEltorito) in
  lspace (bl s2) = lspace (bl s) + (ltotal lw_dblk (lroot (bl s2)) - ltotal lw_dblk (lroot (bl s)))
                   - (tbl_sum (linodes (bl s)) - tbl_sum (linodes (bl s2))).
Proof.
  intros HI Hw Hb -> Hstep s2.
  destruct (ab_add_eltorito_first_space s bp cd cn ls pf bit efi m ba sg s1 HI Hw Hb Hstep)
    as (A1 & A2 & b1 & i & A3 & _).
  assert (HI1 : BInv s1).
  { pose proof (ab_step_preserves_inv s (BAddEltorito bp cd cn ls pf bit efi m ba sg) HI) as H.
    rewrite Hstep in H. exact H. }
  assert (Hw1 : bwreck s1 = false).
  { revert Hstep. unfold bstep, bstep_gen. rewrite Hw. unfold bstep_add_eltorito, brefuse. cbv zeta. rewrite Hb.
    repeat match goal with |- context [match ?x with _ => _ end] => destruct x end;
      intros H; inversion H; try reflexivity; exact Hw. }
  destruct (ab_rm_eltorito_exact s1 b1 HI1 Hw1 A3) as (_ & _ & _ & _ & _ & _ & _ & R & _).
  fold s2 in R. rewrite A2 in R. lia.
Qed.

(* ---- 4. a worked history (the same one is run on the real library: directed history 7 of
        tools/account_boot_traces.py) -------------------------------------------------------------- *)

Definition ab_ex_ops : list bop :=
  [BAddFile [] nA 5000; BAddDir [] nD; BAddFile [nD] nBOOT 2049;
   BAddEltorito [nD; nBOOT] [] nCAT None 0 true false 0 true 0;       (* +2 blocks; boot info table *)
   BAddEltorito [nA] [] nCAT None 0 false true 0 true 0;              (* a second (EFI) section *)
   BAddEltorito [nA] [] nCAT (Some 70000) 0 false false 0 true 0;     (* refused *)
   BAddFile [] nZ 100;
   BAddEltorito [nZ] [] nCAT (Some 70000) 0 true false 0 true 0;      (* refused, nothing changed (6a3f4a5) *)
   BRmFile [nD] nBOOT; BRmFile [] nCAT;                                (* both refused *)
   BRmLink [nD] nBOOT;                                                 (* hidden boot file *)
   BRmDir [nD]; BAddCatLink [] nCAT2; BRmLink [] nCAT;
   BRmEltorito;                                                        (* 32 -> 28: BR, catalog, 2 hidden blocks *)
   BRmFile [] nA;                                                      (* accepted again *)
   BAddFile [] nCAT 10; BAddFile [] nB 1;
   el_plain [nB]].                                                     (* duplicate catalog name: wrecked *)

Example ab_ex_history :
  brun_obs ab_ex_ops =
    [(1, [27; 10; 2; 2048; 1; 2; -1; 0; 0], 27, -1, [], [(24, 3)]);
     (1, [28; 20; 2; 4096; 1; 2; -1; 0; 0], 28, -1, [], [(25, 3)]);
     (1, [30; 20; 2; 4096; 2; 2; -1; 0; 0], 30, -1, [], [(25, 3); (28, 2)]);
     (1, [32; 20; 2; 4096; 2; 3; 0; 1; 1], 32, 26, [27], [(29, 3); (27, 2)]);
     (1, [32; 20; 2; 4096; 2; 3; 1; 1; 1], 32, 26, [ 30; 27], [(27, 3); (30, 2)]);
     (0, [32; 20; 2; 4096; 2; 3; 1; 1; 1], 32, 26, [ 30; 27], [(27, 3); (30, 2)]);
     (1, [33; 20; 2; 4096; 3; 3; 1; 1; 1], 33, 26, [ 30; 27], [(27, 3); (30, 2); (32, 1)]);
     (0, [33; 20; 2; 4096; 3; 3; 1; 1; 1], 33, 26, [ 30; 27], [(27, 3); (30, 2); (32, 1)]);
     (0, [33; 20; 2; 4096; 3; 3; 1; 1; 1], 33, 26, [ 30; 27], [(27, 3); (30, 2); (32, 1)]);
     (0, [33; 20; 2; 4096; 3; 3; 1; 1; 1], 33, 26, [ 30; 27], [(27, 3); (30, 2); (32, 1)]);
     (1, [33; 20; 2; 4096; 3; 3; 1; 1; 1], 33, 26, [ 30; 27], [(27, 3); (30, 2); (32, 1)]);
     (1, [32; 10; 2; 2048; 3; 3; 1; 1; 1], 32, 25, [ 29; 26], [(26, 3); (29, 2); (31, 1)]);
     (1, [32; 10; 2; 2048; 3; 3; 1; 1; 2], 32, 25, [ 29; 26], [(26, 3); (29, 2); (31, 1)]);
     (1, [32; 10; 2; 2048; 3; 3; 1; 1; 1], 32, 25, [ 29; 26], [(26, 3); (29, 2); (31, 1)]);
     (1, [28; 10; 2; 2048; 2; 2; -1; 0; 0], 28, -1, [], [(24, 3); (27, 1)]);
     (1, [25; 10; 2; 2048; 1; 2; -1; 0; 0], 25, -1, [], [(24, 1)]);
     (1, [26; 10; 2; 2048; 2; 2; -1; 0; 0], 26, -1, [], [(25, 1); (24, 1)]);
     (1, [27; 10; 2; 2048; 3; 2; -1; 0; 0], 27, -1, [], [(26, 1); (25, 1); (24, 1)]);
     (2, [], -1, -1, [], [])] /\
  (* after the 5th operation: PVD 16, boot record 17, terminator 18, version 19, path tables 20 and
     22, root 24, D 25, catalog 26, A's data 27..29 (the EFI entry), BOOT's data 30..31 *)
  (let s := brun binit (firstn 5 ab_ex_ops) in
   blayout s = [(0, 16); (16, 1); (17, 1); (18, 1); (19, 1); (20, 2); (22, 2); (24, 1); (25, 1);
                (26, 1); (27, 3); (30, 2)] /\
   boot_order s = [0%nat; 1%nat] /\ rest_order s = [] /\ cat_extent s = 26) /\
  (* after the 11th: BOOT has no name left, its inode 1 is still there and still placed *)
  (let s := brun binit (firstn 11 ab_ex_ops) in
   lrefcount 1 (lroot (bl s)) = 0 /\ linodes (bl s) = [(0%nat, 5000); (1%nat, 2049); (3%nat, 100)] /\
   ino_extent s 1 = Some 30) /\
  (* rm_eltorito (15th): the name CAT2.;1 goes, inode 1 is released, A and Z stay *)
  lrecords [] (lroot (bl (brun binit (firstn 14 ab_ex_ops)))) =
    [([], nA, 0%nat); ([], nCAT2, 4%nat); ([], nZ, 3%nat)] /\
  lrecords [] (lroot (bl (brun binit (firstn 15 ab_ex_ops)))) = [([], nA, 0%nat); ([], nZ, 3%nat)] /\
  linodes (bl (brun binit (firstn 15 ab_ex_ops))) = [(0%nat, 5000); (3%nat, 100)] /\
  (* no boot info table is left anywhere; the last call has wrecked the object *)
  bbits (brun binit ab_ex_ops) = [] /\ bwreck (brun binit ab_ex_ops) = true.
Proof. vm_compute. repeat split; reflexivity. Qed.

Example ab_ex_history_inv :
  BInv (brun binit ab_ex_ops) /\ check_case (combine ab_ex_ops (brun_obs ab_ex_ops)) = true.
Proof. split; [apply ab_run_inv|vm_compute; reflexivity]. Qed.

Print Assumptions ab_rm_eltorito_exact.
Print Assumptions ab_rm_eltorito_exact_run.
Print Assumptions ab_add_eltorito_first_space.
Print Assumptions ab_load_rba_own_extent_refuted_old.
Print Assumptions ab_empty_boot_file_refused.
Print Assumptions ab_refused_unchanged_refuted_old.
Print Assumptions ab_link_from_catalog_name_refuted_old.
Print Assumptions ab_late_refusal_wrecks.
Print Assumptions ab_add_rm_eltorito_inverse_refuted.
Print Assumptions ab_add_rm_eltorito_inverse_partial.
Print Assumptions ab_ex_history.
Print Assumptions ab_ex_history_inv.
