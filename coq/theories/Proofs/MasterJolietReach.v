(* C09 -- MasterJoliet for the states REACHED by accepted histories of Model/AccountNs.v.
     mj_dec_utf16          the identifier AccountNs stores for a byte name decodes to that name
     mj_step_le            a weight that is 0 on every record AccountNs can create does not grow on the
                           Joliet tree, whatever the operation (measure argument, as names_bytes in
                           Proofs/AccountNsRefineLemmas.v)
     mj_reach_names_ok     after a history of byte names every Joliet identifier is UTF-16BE
     joliet_read_master_reachable   THEOREM 1 for nrun ops *)
From Coq Require Import ZArith List Bool Lia ZifyBool.
From PV.Base Require Import Prim ListX.
From PV.Gen Require Import GenConst GenFun.
From PV.Model Require Import Names Pack Alloc Account AccountLinks AccountNs.
From PV.Model Require Codec PathTable Master MasterJoliet LongNames.
From PV.Proofs Require Import PackProofs AllocProofs AccountLemmas AccountProofs
     AccountLinksLemmas AccountLinksPurge AccountNsLemmas AccountNsInv AccountNsProofs AccountNsRefineLemmas.
From PV.Proofs Require MasterJolietProofs.
Import ListNotations.
Local Open Scope Z_scope.

Module MJ := MasterJoliet.

Lemma mj_dec_utf16 nm : bytes nm -> LongNames.utf16be_dec (utf16 nm) = Some nm.
Proof.
  unfold bytes. induction 1 as [|b r Hb Hr IH]; [reflexivity|].
  unfold utf16 in *. cbn [flat_map app]. rewrite LongNamesProofs.dec_cons2. cbv zeta.
  replace ((55296 <=? 0 * 256 + b) && (0 * 256 + b <=? 56319)) with false by lia.
  replace ((56320 <=? 0 * 256 + b) && (0 * 256 + b <=? 57343)) with false by lia.
  rewrite IH. reflexivity.
Qed.

(* ---- a weight that the operations cannot increase ------------------------------------------------------ *)

Section Weight.
  Variable w : lnode -> Z.
  Hypothesis Hnn : forall n, 0 <= w n.
  Hypothesis Hdl : dl_free w.
  Hypothesis Hfile : forall nm i st, bytes nm -> w (LFile (utf16 nm) i st) = 0.
  Hypothesis Hdir : forall nm d, bytes nm -> w (LDir (utf16 nm) d []) = 0.

  Lemma mj_add_rec_eq t d n i st t' g : lall_ok t -> bytes n ->
    t_add_rec t d (utf16 n) i st = Some (t', g) -> ltotal w t' = ltotal w t.
  Proof.
    intros Hok Hb H. unfold t_add_rec in H.
    destruct (t_add_node_spec t d (LFile (utf16 n) i st) t' g Hok I H) as (_ & _ & _ & _ & A5 & _).
    rewrite (A5 w Hdl), ltotal_file, (Hfile n i st Hb). lia.
  Qed.

  Lemma mj_add_dir_eq t d n t' g : lall_ok t -> bytes n ->
    t_add_dir t d (utf16 n) = Some (t', g) -> ltotal w t' = ltotal w t.
  Proof.
    intros Hok Hb H. unfold t_add_dir in H.
    assert (Hc : lall_ok (LDir (utf16 n) C [])) by (apply lall_ok_dir; split; [apply dir_ok_new|constructor]).
    destruct (t_add_node_spec t d _ t' g Hok Hc H) as (_ & _ & _ & _ & A5 & _).
    rewrite (A5 w Hdl), ltotal_dir, ltotals_nil, (Hdir n C Hb). lia.
  Qed.

  Lemma mj_remove_le t d dn dl kids k c t' sh : lall_ok t ->
    t_find t d (lname c) = Some (dn, dl, kids, k, c) -> t_remove t d dn dl kids k = (t', sh) ->
    ltotal w t' <= ltotal w t.
  Proof.
    intros Hok Hf Hr. destruct (t_find_spec _ _ _ _ _ _ _ _ Hf) as (Hs & _ & Hk & _).
    destruct (t_remove_spec t d dn dl kids k c t' sh Hok Hs Hk Hr) as (_ & _ & _ & _ & A5 & _).
    rewrite (A5 w Hdl). pose proof (ltotal_nonneg w Hnn c). lia.
  Qed.

  Lemma mj_find_name t d nm dn dl kids k c : t_find t d nm = Some (dn, dl, kids, k, c) -> lname c = nm.
  Proof. intros H. apply t_find_spec in H. tauto. Qed.

  Lemma mj_rm_rec_le t d nm t' sh i : lall_ok t -> t_rm_rec t d nm = Some (t', sh, i) ->
    ltotal w t' <= ltotal w t.
  Proof.
    intros Hok H. unfold t_rm_rec in H.
    destruct (t_find t d nm) as [[[[[dn dl] kids] k] c]|] eqn:Hf; [|discriminate].
    pose proof (mj_find_name _ _ _ _ _ _ _ _ Hf) as Hn. rewrite <- Hn in Hf.
    destruct c as [cn ci cs|cn cdl ck]; [|discriminate].
    destruct (t_remove t d dn dl kids k) as [t1 sh1] eqn:Hr. injection H as <- _ _.
    apply (mj_remove_le _ _ _ _ _ _ _ _ _ Hok Hf Hr).
  Qed.

  Lemma mj_rm_dir_le t p t' sh cdl cn : lall_ok t -> t_rm_dir t p = Some (t', sh, cdl, cn) ->
    ltotal w t' <= ltotal w t.
  Proof.
    intros Hok H. unfold t_rm_dir in H. destruct (unsnoc p) as [[q y]|]; [|discriminate].
    destruct (t_find t q y) as [[[[[dn dl] kids] k] c]|] eqn:Hf; [|discriminate].
    pose proof (mj_find_name _ _ _ _ _ _ _ _ Hf) as Hn. rewrite <- Hn in Hf.
    destruct c as [cn' ci cs|cn' cdl' [|c0 ck]]; try discriminate.
    destruct (t_remove t q dn dl kids k) as [t1 sh1] eqn:Hr. injection H as <- _ _ _.
    apply (mj_remove_le _ _ _ _ _ _ _ _ _ Hok Hf Hr).
  Qed.

  Lemma mj_bytes_pn x : bytes_pn x = true -> bytes (snd x).
  Proof. unfold bytes_pn. intros H. apply andb_prop in H. apply bytes_ident_spec. tauto. Qed.

  Ltac mj_split :=
    repeat (match goal with
            | |- context [t_add_rec ?a ?b ?c ?d ?e] => destruct (t_add_rec a b c d e) as [[? ?]|] eqn:?
            | |- context [t_add_dir ?a ?b ?c] => destruct (t_add_dir a b c) as [[? ?]|] eqn:?
            | |- context [t_rm_dir ?a ?b] => destruct (t_rm_dir a b) as [[[[? ?] ?] ?]|] eqn:?
            | |- context [add_to_ptr_size ?a ?b ?c] => destruct (add_to_ptr_size a b c) as [[? ?] ?] eqn:?
            | |- context [remove_from_ptr_size ?a ?b ?c] =>
                destruct (remove_from_ptr_size a b c) as [[[? ?] ?]|] eqn:?
            | |- context [if ?c then _ else _] => destruct c eqn:?
            end; cbv beta iota zeta).

  Theorem mj_step_le k s o : lall_ok (njol s) -> bytes_op o = true ->
    ltotal w (njol (fst (nstep k s o))) <= ltotal w (njol s).
  Proof.
    intros Hok Hb. destruct o as [iso jol len|iso jol|sns src dns dirp nm|n dirp nm|n dirp nm|iso jol];
      cbn [nstep bytes_op] in *.
    - (* add_fp *)
      apply andb_prop in Hb. destruct Hb as [_ Hbj]. unfold nstep_add_file.
      destruct jol as [[dj nj]|].
      + cbn [opt_legal] in Hbj. apply mj_bytes_pn in Hbj. cbn [snd] in Hbj.
        destruct iso as [[di ni]|]; mj_split; cbn [fst njol set_trees add_orphan]; try lia;
          match goal with
          | H : t_add_rec (njol s) _ (utf16 nj) _ _ = Some (?t2, _) |- _ =>
              rewrite (mj_add_rec_eq _ _ _ _ _ _ _ Hok Hbj H); lia
          end.
      + destruct iso as [[di ni]|]; mj_split; cbn [fst njol set_trees add_orphan]; lia.
    - (* add_directory *)
      apply andb_prop in Hb. destruct Hb as [_ Hbj]. unfold nstep_add_dir.
      destruct jol as [[dj nj]|].
      + cbn [opt_legal] in Hbj. apply mj_bytes_pn in Hbj. cbn [snd] in Hbj.
        destruct iso as [[di ni]|]; mj_split; cbn [fst njol set_all]; try lia;
          match goal with
          | H : t_add_dir (njol s) _ (utf16 nj) = Some (?t2, _) |- _ =>
              rewrite (mj_add_dir_eq _ _ _ _ _ Hok Hbj H); lia
          end.
      + destruct iso as [[di ni]|]; mj_split; cbn [fst njol set_all]; lia.
    - (* add_hard_link *)
      apply andb_prop in Hb. destruct Hb as [_ Hbn]. apply bytes_ident_spec in Hbn. unfold nstep_add_link.
      destruct (lsubtree (ns_path sns src) (tree_of s sns)) as [[on ino ost|on odl okids]|]; try (cbn; lia).
      destruct (ns_file_legal dns dirp nm); [|cbn; lia].
      destruct (t_add_rec (tree_of s dns) (ns_path dns dirp) (ns_name dns nm) ino (stamp_i k))
        as [[t' g]|] eqn:E; [|cbn; lia].
      destruct dns; cbn [set_tree tree_of ns_name ns_path] in *; cbn [fst njol set_trees]; [lia|].
      rewrite (mj_add_rec_eq _ _ _ _ _ _ _ Hok Hbn E). lia.
    - (* rm_hard_link *)
      unfold nstep_rm_link.
      destruct (t_rm_rec (tree_of s n) (ns_path n dirp) (ns_name n nm)) as [[[t' sh] i]|] eqn:E; [|cbn; lia].
      destruct n; cbn [set_tree tree_of] in *.
      + destruct (nrefcount i t' (njol s) =? 0); cbn [fst njol set_trees]; lia.
      + pose proof (mj_rm_rec_le _ _ _ _ _ _ Hok E).
        destruct (nrefcount i (niso s) t' =? 0); cbn [fst njol set_trees]; lia.
    - (* rm_file *)
      unfold nstep_rm_file.
      destruct (t_find (tree_of s n) (ns_path n dirp) (ns_name n nm))
        as [[[[[dn dl] kids] k0] [cn ci cs|cn cdl ck]]|]; try (cbn; lia).
      cbn [fst njol set_trees]. apply (purge_le w ci Hnn Hdl).
    - (* rm_directory *)
      unfold nstep_rm_dir.
      destruct jol as [pj|].
      + destruct iso as [pi|]; mj_split; cbn [fst njol set_all]; try lia;
          match goal with
          | H : t_rm_dir (njol s) _ = Some (?t2, _, _, _) |- _ =>
              pose proof (mj_rm_dir_le _ _ _ _ _ _ Hok H); lia
          end.
      + destruct iso as [pi|]; mj_split; cbn [fst njol set_all]; lia.
  Qed.
End Weight.

(* ---- every identifier of the Joliet tree decodes ---------------------------------------------------------- *)

Definition mj_wnd (n : lnode) : Z := if MJ.mj_decodes (lname n) then 0 else 1.

Lemma mj_wnd_nonneg n : 0 <= mj_wnd n.
Proof. unfold mj_wnd. destruct (MJ.mj_decodes (lname n)); lia. Qed.
Lemma mj_wnd_dl_free : dl_free mj_wnd.
Proof. intros nm d d'. reflexivity. Qed.
Lemma mj_decodes_utf16 nm : bytes nm -> MJ.mj_decodes (utf16 nm) = true.
Proof. intros H. unfold MJ.mj_decodes. rewrite (mj_dec_utf16 nm H). reflexivity. Qed.
Lemma mj_wnd_file nm i st : bytes nm -> mj_wnd (LFile (utf16 nm) i st) = 0.
Proof. intros H. unfold mj_wnd. cbn [lname]. rewrite (mj_decodes_utf16 nm H). reflexivity. Qed.
Lemma mj_wnd_dir nm d : bytes nm -> mj_wnd (LDir (utf16 nm) d []) = 0.
Proof. intros H. unfold mj_wnd. cbn [lname]. rewrite (mj_decodes_utf16 nm H). reflexivity. Qed.

Lemma mj_run_le ops : forall k s, NInv k s -> clean_from k s ops = true -> forallb bytes_op ops = true ->
  ltotal mj_wnd (njol (nrun_from k s ops)) <= ltotal mj_wnd (njol s).
Proof.
  induction ops as [|o r IH]; intros k s HI Hc Hb; cbn [nrun_from]; [lia|].
  unfold clean_from in Hc. cbn [nouts_from existsb] in Hc. rewrite negb_orb in Hc.
  apply andb_prop in Hc. destruct Hc as [H1 H2]. cbn [forallb] in Hb. apply andb_prop in Hb.
  destruct Hb as [Hbo Hbr].
  assert (HI' : NInv (S k) (fst (nstep k s o))).
  { apply nstep_preserves_inv; [exact HI|]. intros E. rewrite E in H1. discriminate. }
  specialize (IH (S k) _ HI' H2 Hbr).
  pose proof (mj_step_le mj_wnd mj_wnd_nonneg mj_wnd_dl_free mj_wnd_file mj_wnd_dir k s o
                (ninv_jtree k s HI) Hbo). lia.
Qed.

Lemma mj_names_of_wnd : forall n, ltotal mj_wnd n <= 0 -> MJ.mj_names_ok n = true.
Proof.
  apply (lnode_ind' (fun n => ltotal mj_wnd n <= 0 -> MJ.mj_names_ok n = true)).
  - intros nm i st H. rewrite ltotal_file in H. unfold mj_wnd in H. cbn [lname MJ.mj_names_ok] in *.
    destruct (MJ.mj_decodes nm); [reflexivity|lia].
  - intros nm dl kids IH H. rewrite ltotal_dir in H.
    pose proof (ltotals_nonneg mj_wnd mj_wnd_nonneg kids) as Hk. pose proof (mj_wnd_nonneg (LDir nm dl [])) as Hn.
    cbn [MJ.mj_names_ok]. apply andb_true_intro. split.
    + change (mj_wnd (LDir nm dl [])) with (if MJ.mj_decodes nm then 0 else 1) in H, Hn.
      destruct (MJ.mj_decodes nm); [reflexivity|lia].
    + assert (Hz : ltotals mj_wnd kids <= 0) by lia. clear H Hk Hn.
      apply forallb_forall. induction IH as [|c r Hc _ IHr]; intros x Hx; [destruct Hx|].
      rewrite ltotals_cons in Hz. pose proof (ltotal_nonneg mj_wnd mj_wnd_nonneg c).
      pose proof (ltotals_nonneg mj_wnd mj_wnd_nonneg r).
      destruct Hx as [<-|Hx]; [apply Hc; lia|apply IHr; [lia|exact Hx]].
Qed.

(* after an accepted history whose names are Python bytes every Joliet identifier is UTF-16BE *)
Theorem mj_reach_names_ok ops : clean ops = true -> forallb bytes_op ops = true ->
  MJ.mj_kid_names_ok (njol (nrun ops)) = true.
Proof.
  intros Hc Hb. pose proof (mj_run_le ops 0%nat ninit ninit_ok Hc Hb) as Hle. fold (nrun ops) in Hle.
  change (ltotal mj_wnd (njol ninit)) with 1 in Hle.
  pose proof (ninv_jroot _ _ (nrun_inv ops Hc)) as [Hn Hd].
  destruct (njol (nrun ops)) as [nm i st|nm dl kids]; [discriminate|]. cbn [lname] in Hn. subst nm.
  rewrite ltotal_dir in Hle. change (mj_wnd (LDir [0] dl [])) with 1 in Hle.
  unfold MJ.mj_kid_names_ok. cbn [lkids]. apply forallb_forall. intros c Hc'.
  apply mj_names_of_wnd. pose proof (ltotals_nonneg mj_wnd mj_wnd_nonneg kids).
  assert (Hz : ltotals mj_wnd kids <= 0) by lia. clear Hle Hd H.
  induction kids as [|c0 r IHr]; [destruct Hc'|]. rewrite ltotals_cons in Hz.
  pose proof (ltotal_nonneg mj_wnd mj_wnd_nonneg c0). pose proof (ltotals_nonneg mj_wnd mj_wnd_nonneg r).
  destruct Hc' as [<-|Hc']; [lia|apply IHr; [exact Hc'|lia]].
Qed.

(* THEOREM 1 for every accepted history of byte names: the image is written and the Joliet reader
   recovers the Joliet tree.  Side conditions: the volume fits 2^32 blocks, every directory extent is
   shorter than 4 GiB, at most 65535 Joliet directories (the struct formats of the library). *)
Theorem joliet_read_master_reachable dt ops : length dt = 7%nat ->
  clean ops = true -> forallb bytes_op ops = true ->
  nlayout_end (nrun ops) <= 4294967296 ->
  MJ.mj_dl_ok (niso (nrun ops)) = true -> MJ.mj_dl_ok (njol (nrun ops)) = true ->
  Z.of_nat (length (MJ.mj_dir_positions (njol (nrun ops)))) <= 65535 ->
  exists img, MJ.master_joliet dt (nrun ops) = Some img /\
    MJ.read_joliet (MJ.mj_height (njol (nrun ops))) img
      (nth 4 (MJ.mj_svd (nrun ops)) 0) (nth 5 (MJ.mj_svd (nrun ops)) 0) = Some (MJ.mj_uview (nrun ops)).
Proof.
  intros Hdt Hc Hb He Hi Hj Hn.
  apply MasterJolietProofs.joliet_read_master; try assumption.
  - apply MasterJolietProofs.joliet_reachable_wf; assumption.
  - apply mj_reach_names_ok; assumption.
Qed.

(* a name given as the bytes nm is read back as the code points nm *)
Theorem joliet_name_given_reachable nm : bytes nm -> MJ.mj_uname (utf16 nm) = nm.
Proof. intros H. unfold MJ.mj_uname. rewrite (mj_dec_utf16 nm H). reflexivity. Qed.

Print Assumptions mj_step_le.
Print Assumptions mj_reach_names_ok.
Print Assumptions joliet_read_master_reachable.
