(* Refinement of Spec/FsSpec.v by Model/AccountNs.v, part 1: ONE namespace.  The relation between a
   directory tree and a namespace of the specification (a list of entries, equal to the tree's
   entry list up to order), what the specification's tests (lookup, can_add, has_children) see in
   the tree, and what the tree mutations do to the entry list. *)
From Coq Require Import ZArith List Bool Lia ZifyBool Sorted Arith Permutation.
From PV.Base Require Import Prim.
From PV.Gen Require Import GenConst GenFun.
From PV.Spec Require FsSpec.
From PV.Model Require Import Names Pack Alloc Account AccountLinks AccountNs.
From PV.Proofs Require FsSpecProofs.
From PV.Proofs Require Import PackProofs AllocProofs AccountLemmas AccountProofs
     AccountLinksLemmas AccountLinksPurge AccountNsLemmas AccountNsInv AccountNsProofs AccountNsRefineLemmas.
Import ListNotations.
Local Open Scope Z_scope.

Module F := FsSpec.
Module FP := FsSpecProofs.

(* what is known of one tree / of one tree and the namespace it is seen as *)
Definition tinv (t : lnode) : Prop := lall_ok t /\ troot_ok t /\ names_bytes t.
Definition trel (t : lnode) (l : list F.entry) : Prop :=
  tinv t /\ FP.wf_ns l /\ Permutation (abs_tree t) l.

(* ---- lists with distinct keys -------------------------------------------------------------------- *)

Lemma NoDup_map_inj {A B} (f : A -> B) l a b :
  NoDup (map f l) -> In a l -> In b l -> f a = f b -> a = b.
Proof.
  induction l as [|x l IH]; intros HN Ha Hb E; [destruct Ha|].
  cbn [map] in HN. inversion HN as [|? ? Hx Hl]; subst.
  destruct Ha as [->|Ha]; destruct Hb as [->|Hb]; try reflexivity.
  - exfalso. apply Hx. rewrite E. apply in_map, Hb.
  - exfalso. apply Hx. rewrite <- E. apply in_map, Ha.
  - apply IH; assumption.
Qed.

Lemma lookup_char l P e : NoDup (map F.e_path l) ->
  (F.lookup l P = Some e <-> In e l /\ F.e_path e = P).
Proof.
  intros HN. split; [apply FP.lookup_some_in|]. intros [Hin Hp].
  destruct (F.lookup l P) as [e'|] eqn:E.
  - destruct (FP.lookup_some_in _ _ _ E) as [Hin' Hp']. f_equal.
    apply (NoDup_map_inj F.e_path l e' e HN Hin' Hin). congruence.
  - exfalso. apply FP.lookup_none_notin in E. apply E. rewrite <- Hp. apply in_map, Hin.
Qed.

Lemma Permutation_filter {A} (f : A -> bool) l1 l2 :
  Permutation l1 l2 -> Permutation (filter f l1) (filter f l2).
Proof.
  induction 1 as [|x l l' H IH|x y l|l l' l'' H1 IH1 H2 IH2]; cbn [filter].
  - constructor.
  - destruct (f x); [constructor|]; exact IH.
  - destruct (f x), (f y); try constructor; apply Permutation_refl.
  - eapply Permutation_trans; eassumption.
Qed.

Lemma entry_path P c : F.e_path (entry_of P c) = P.
Proof. reflexivity. Qed.

Lemma encp_app p q : encp (p ++ q) = encp p ++ encp q.
Proof. apply map_app. Qed.

Lemma bytesp_app p q : bytesp (p ++ q) <-> bytesp p /\ bytesp q.
Proof. apply Forall_app. Qed.

Lemma lsubtree_app : forall p q t,
  lsubtree (p ++ q) t = match lsubtree p t with Some n => lsubtree q n | None => None end.
Proof.
  induction p as [|x p IH]; intros q t; [reflexivity|]. cbn [app lsubtree].
  destruct t as [nm i st|nm dl kids]; [reflexivity|].
  destruct (llookup x kids) as [[k c]|]; [apply IH|reflexivity].
Qed.

(* ---- what the specification's lookup sees ------------------------------------------------------- *)

Lemma trel_in t l e : trel t l ->
  (In e l <-> exists q c, q <> [] /\ lsubtree q t = Some c /\ e = entry_of (encp q) c).
Proof.
  intros ((Hok & _ & _) & _ & HP). split.
  - intros Hin. apply (Permutation_in _ (Permutation_sym HP)) in Hin.
    destruct (ents_in_inv t Hok [] e Hin) as (q & c & Hq & Hs & ->). exists q, c. auto.
  - intros (q & c & Hq & Hs & ->). apply (Permutation_in _ HP).
    apply (ents_in_sub q t [] c Hq Hs).
Qed.

Theorem trel_lookup t l q : trel t l -> bytesp q ->
  F.lookup l (encp q) =
  match q with [] => None | _ => option_map (entry_of (encp q)) (lsubtree q t) end.
Proof.
  intros HR Hq. pose proof HR as ((Hok & _ & Hnb) & (HN & _) & HP).
  destruct q as [|x q0]; [|set (q := x :: q0) in *].
  - destruct (F.lookup l (encp [])) as [e|] eqn:E; [|reflexivity]. exfalso.
    destruct (FP.lookup_some_in _ _ _ E) as [Hin Hp]. apply (trel_in t l e HR) in Hin.
    destruct Hin as (q' & c & Hq' & _ & ->). rewrite entry_path in Hp.
    destruct q'; [congruence|discriminate].
  - destruct (lsubtree q t) as [c|] eqn:Hs; cbn [option_map].
    + apply lookup_char; [exact HN|]. split; [|reflexivity].
      apply (trel_in t l _ HR). exists q, c. split; [discriminate|]. auto.
    + destruct (F.lookup l (encp q)) as [e|] eqn:E; [|reflexivity]. exfalso.
      destruct (FP.lookup_some_in _ _ _ E) as [Hin Hp]. apply (trel_in t l e HR) in Hin.
      destruct Hin as (q' & c & Hq' & Hs' & ->). rewrite entry_path in Hp.
      apply encp_inj in Hp; [congruence| |exact Hq].
      apply (names_bytes_path t Hnb q' c Hs').
Qed.

Lemma trel_is_dir t l d : trel t l -> bytesp d ->
  F.is_dir_at l (encp d) = match lsubtree d t with Some (LDir _ _ _) => true | _ => false end.
Proof.
  intros HR Hd. unfold F.is_dir_at. rewrite (trel_lookup t l d HR Hd).
  destruct d as [|x d0].
  - cbn [encp map lsubtree]. destruct HR as ((_ & (_ & Hdir) & _) & _). destruct t; [discriminate|reflexivity].
  - cbn [encp map]. destruct (lsubtree (x :: d0) t) as [[nm i st|nm dl kids]|]; reflexivity.
Qed.

Lemma parent_snoc (P : F.path) x : F.parent_of (P ++ [x]) = P.
Proof. apply removelast_last. Qed.

Lemma snoc_nonnil {A} (P : list A) x : P ++ [x] <> [].
Proof. destruct P; discriminate. Qed.

Theorem trel_can_add t l d nm : trel t l -> bytesp d -> bytes nm ->
  F.can_add l (encp (d ++ [nm])) =
  match lsubtree d t with
  | Some (LDir _ _ kids) => match llookup nm kids with None => true | Some _ => false end
  | _ => false
  end.
Proof.
  intros HR Hd Hn. unfold F.can_add. rewrite encp_app. cbn [encp map].
  destruct (encp d ++ [enc nm]) as [|z Z] eqn:EP; [exfalso; eapply snoc_nonnil; exact EP|].
  rewrite <- EP, parent_snoc, (trel_is_dir t l d HR Hd).
  change (encp d ++ [enc nm]) with (encp d ++ encp [nm]). rewrite <- encp_app.
  rewrite (trel_lookup t l (d ++ [nm]) HR) by (apply bytesp_app; split; [exact Hd|constructor; [exact Hn|constructor]]).
  destruct (d ++ [nm]) as [|y Y] eqn:EQ; [exfalso; eapply snoc_nonnil; exact EQ|]. rewrite <- EQ.
  rewrite lsubtree_app. destruct (lsubtree d t) as [[fn fi fs|dn dl kids]|]; try reflexivity.
  cbn [lsubtree andb]. destruct (llookup nm kids) as [[k c]|]; reflexivity.
Qed.

(* ---- adding a leaf -------------------------------------------------------------------------------- *)

Definition leaf (c : lnode) : Prop := lkids c = [].

Lemma t_add_node_can t l d c : trel t l -> bytesp d -> bytes (lname c) ->
  match t_add_node t d c with
  | Some _ => F.can_add l (encp (d ++ [lname c])) = true
  | None => drlen_ok (lname c) = true -> F.can_add l (encp (d ++ [lname c])) = false
  end.
Proof.
  intros HR Hd Hn. rewrite (trel_can_add t l d _ HR Hd Hn). unfold t_add_node, drlen_ok.
  destruct (lsubtree d t) as [[fn fi fs|dn dl kids]|]; try reflexivity. cbv zeta.
  destruct (dr_len_of (lname c) >? 255); [discriminate|].
  destruct (llookup (lname c) kids); reflexivity.
Qed.

Lemma names_bytes_zero t : names_bytes t <-> ltotal wnb t <= 0.
Proof. unfold names_bytes. pose proof (ltotal_nonneg wnb wnb_nonneg t). lia. Qed.

Lemma wnb_bytes c : bytes (lname c) -> leaf c -> ltotal wnb c = 0.
Proof.
  intros Hb Hl. rewrite ltotal_shallow, Hl, ltotals_nil. unfold wnb.
  replace (lname (hdr c)) with (lname c) by (destruct c; reflexivity).
  apply bytes_ident_spec in Hb. rewrite Hb. reflexivity.
Qed.

Theorem t_add_node_perm t d c t' g : tinv t -> lall_ok c -> leaf c -> bytes (lname c) ->
  t_add_node t d c = Some (t', g) ->
  tinv t' /\ Permutation (abs_tree t') (abs_tree t ++ [entry_of (encp (d ++ [lname c])) c]).
Proof.
  intros (Hok & (Hn & Hd) & Hnb) Hc Hl Hb H.
  destruct (t_add_node_spec t d c t' g Hok Hc H) as (A1 & A2 & A3 & _ & A5 & _ & (dn & dl & kids & Hsub & Hlk)).
  split.
  - split; [exact A1|]. split; [split; congruence|].
    unfold names_bytes in *. rewrite (A5 wnb dl_free_wnb), Hnb, (wnb_bytes c Hb Hl). reflexivity.
  - unfold t_add_node in H. rewrite Hsub in H. cbv zeta in H.
    destruct (dr_len_of (lname c) >? 255); [discriminate|]. rewrite Hlk in H. injection H as <- _.
    unfold abs_tree.
    pose proof (ents_replace d t dn dl kids
                  (dlen (dir_add C (ldir_st dl kids) (2 + pos (lname c) (map lname kids)) (dr_len_of (lname c))))
                  (insert_at (pos (lname c) (map lname kids)) c kids) [] Hsub) as P.
    cbn [app] in P.
    pose proof (ents_insert_at (encp d) (pos (lname c) (map lname kids)) c kids) as Q.
    rewrite ents_node_eq, Hl in Q. change (ents (encp d ++ [enc (lname c)]) []) with (@nil F.entry) in Q.
    rewrite encp_app. cbn [encp map].
    eapply Permutation_app_inv_r with (l := ents (encp d) kids).
    eapply Permutation_trans; [exact P|].
    eapply Permutation_trans; [apply Permutation_app_head, Q|].
    rewrite <- !app_assoc. apply Permutation_app_head. apply Permutation_app_comm.
Qed.

(* ---- removing a leaf ------------------------------------------------------------------------------ *)

Theorem t_remove_perm t d dn dl kids k c t' sh : tinv t ->
  lsubtree d t = Some (LDir dn dl kids) -> nth_error kids k = Some c -> leaf c ->
  t_remove t d dn dl kids k = (t', sh) ->
  tinv t' /\ Permutation (abs_tree t) (abs_tree t' ++ [entry_of (encp (d ++ [lname c])) c]).
Proof.
  intros (Hok & (Hn & Hd) & Hnb) Hsub Hk Hl Hr.
  destruct (t_remove_spec t d dn dl kids k c t' sh Hok Hsub Hk Hr) as (A1 & A2 & A3 & _ & A5 & _).
  split.
  - split; [exact A1|]. split; [split; congruence|].
    apply names_bytes_zero. rewrite (A5 wnb dl_free_wnb). unfold names_bytes in Hnb.
    pose proof (ltotal_nonneg wnb wnb_nonneg c). lia.
  - assert (Et : t' = lreplace d (LDir dn (dlen (dir_remove C (ldir_st dl kids) (2 + k))) (remove_at k kids)) t)
      by (unfold t_remove in Hr; cbv zeta in Hr; congruence).
    rewrite Et. unfold abs_tree.
    pose proof (ents_replace d t dn dl kids (dlen (dir_remove C (ldir_st dl kids) (2 + k)))
                  (remove_at k kids) [] Hsub) as P.
    cbn [app] in P.
    pose proof (ents_remove_at (encp d) kids k c Hk) as Q.
    rewrite ents_node_eq, Hl in Q. change (ents (encp d ++ [enc (lname c)]) []) with (@nil F.entry) in Q.
    rewrite encp_app. cbn [encp map].
    eapply Permutation_app_inv_r with (l := ents (encp d) (remove_at k kids)).
    eapply Permutation_trans; [apply Permutation_sym, P|].
    eapply Permutation_trans; [apply Permutation_app_head, Q|].
    rewrite <- !app_assoc. apply Permutation_app_head. apply Permutation_app_comm.
Qed.

(* the specification removes by path; with distinct paths that is the one entry *)
Lemma perm_remove_path l A e : NoDup (map F.e_path l) -> Permutation l (A ++ [e]) ->
  Permutation A (F.remove_path l (F.e_path e)).
Proof.
  intros HN HP. unfold F.remove_path.
  eapply Permutation_trans; [|apply Permutation_sym, (Permutation_filter _ _ _ HP)].
  rewrite filter_app. cbn [filter]. rewrite FP.path_eqb_refl. cbn [negb]. rewrite app_nil_r.
  assert (HN' : NoDup (map F.e_path (A ++ [e]))) by (eapply Permutation_NoDup; [apply Permutation_map, HP|exact HN]).
  rewrite map_app in HN'. cbn [map] in HN'.
  rewrite filter_all; [apply Permutation_refl|]. apply Forall_forall. intros x Hx.
  apply negb_true_iff. apply FP.path_eqb_neq. intros E.
  apply NoDup_remove_2 in HN'. apply HN'. rewrite app_nil_r. rewrite <- E. apply in_map, Hx.
Qed.

(* ---- has_children ---------------------------------------------------------------------------------- *)

Theorem trel_has_children t l p dn dl kids : trel t l -> bytesp p ->
  lsubtree p t = Some (LDir dn dl kids) ->
  F.has_children l (encp p) = match kids with [] => false | _ => true end.
Proof.
  intros HR Hp Hs. pose proof HR as ((Hok & _ & Hnb) & _ & _). unfold F.has_children.
  destruct kids as [|c r].
  - apply not_true_iff_false. intros H. apply existsb_exists in H. destruct H as (e & Hin & He).
    apply (trel_in t l e HR) in Hin. destruct Hin as (q & c & Hq & Hsq & ->). rewrite entry_path in He.
    destruct q as [|y q0] using rev_ind; [congruence|]. clear IHq0.
    rewrite encp_app in He. cbn [encp map] in He.
    destruct (encp q0 ++ [enc y]) as [|z Z] eqn:EP; [discriminate|]. rewrite <- EP, parent_snoc in He.
    apply FP.path_eqb_eq in He.
    pose proof (names_bytes_path t Hnb _ _ Hsq) as Hb. apply bytesp_app in Hb. destruct Hb as [Hb0 _].
    apply encp_inj in He; [|exact Hb0|exact Hp]. subst q0.
    rewrite lsubtree_app, Hs in Hsq. cbn in Hsq. discriminate.
  - apply existsb_exists.
    assert (Hsub : lall_ok (LDir dn dl (c :: r))) by (eapply lsubtree_all_ok; eassumption).
    pose proof (lsubtree_kid dn dl (c :: r) c Hsub (or_introl eq_refl)) as Hk.
    exists (entry_of (encp (p ++ [lname c])) c). split.
    + apply (trel_in t l _ HR). exists (p ++ [lname c]), c. split; [apply snoc_nonnil|].
      split; [rewrite lsubtree_app, Hs; exact Hk|reflexivity].
    + rewrite entry_path, encp_app. cbn [encp map].
      destruct (encp p ++ [enc (lname c)]) as [|z Z] eqn:EP; [exfalso; eapply snoc_nonnil; exact EP|].
      rewrite <- EP, parent_snoc. apply FP.path_eqb_refl.
Qed.

(* ---- rm_file ---------------------------------------------------------------------------------------- *)

Theorem purge_perm t l i : tinv t -> Permutation (abs_tree t) l ->
  tinv (purge_node i t) /\
  Permutation (abs_tree (purge_node i t)) (F.drop_blob (blob_of_ino i) l).
Proof.
  intros (Hok & (Hn & Hd) & Hnb) HP. split.
  - split; [apply purge_all_ok, Hok|]. split; [apply troot_purge; split; assumption|].
    apply names_bytes_zero. unfold names_bytes in Hnb.
    pose proof (purge_le wnb i wnb_nonneg dl_free_wnb t). lia.
  - unfold abs_tree. rewrite (ents_purge i t Hd []). apply Permutation_filter, HP.
Qed.
