(* Parse, part 7: from the numbered object graph back to the tree.
     ps_gwalk_tree       in the graph the walk builds, the children list of every queued directory, read
                         through the directory numbers stored in its records, is the sub-tree it was built from
     tree_of_graph_of    tree_of (graph_of t) = t *)
From Coq Require Import ZArith List Bool Lia ZifyBool.
From PV.Base Require Import Prim ListX.
From PV.Gen Require Import GenConst GenFun.
From PV.Model Require Import Codec Pack PathTable Names Master Parse.
From PV.Proofs Require Import PackProofs PathTableLemmas MasterWf.
From PV.Proofs Require Import ParseDir ParseDirAll ParseWalk.
Import ListNotations.
Local Open Scope Z_scope.

(* the conversion tree_of applies to one record *)
Definition ps_conv (fuel : nat) (dirs : list (list prec)) (c : prec) : node :=
  match p_dir c with
  | Some k => Dir (Codec.ident (p_rec c)) (p_dlen c) (ps_tree_kids fuel dirs k)
  | None => File (Codec.ident (p_rec c)) (p_dlen c)
  end.

Lemma ps_tree_kids_S fuel dirs id :
  ps_tree_kids (S fuel) dirs id = map (ps_conv fuel dirs) (skipn 2 (nth id dirs [])).
Proof. reflexivity. Qed.

Section Tree.
  Variable dt : list Z.
  Variable t : node.
  Local Notation DB := (ms_DB t).
  Local Notation FB := (ms_FB t).

  Lemma ps_spec_kids_dirs p : forall kids j cache st,
    s_dirs (ps_spec_kids dt DB FB p j kids cache st) = s_dirs st.
  Proof. intros. apply ps_spec_kids_fields. Qed.

  (* the children built for one directory convert back to the nodes they were built from, provided the
     numbers handed to the child directories lead to their own children *)
  Lemma ps_spec_kids_conv fuel Fd p : forall kids j cache st, length cache = length kids ->
    (forall i cn cdl ck, nth_error (filter Account.is_dir kids) i = Some (Dir cn cdl ck) ->
       ps_tree_kids fuel Fd (length (s_dirs st) + 1 + length (s_queue st) + i) = ck) ->
    map (ps_conv fuel Fd) (s_cur (ps_spec_kids dt DB FB p j kids cache st)) =
    map (ps_conv fuel Fd) (s_cur st) ++ kids.
  Proof.
    induction kids as [|c r IH]; intros j cache st Hl Hk.
    - destruct cache; [|discriminate]. cbn [ps_spec_kids]. rewrite app_nil_r. reflexivity.
    - destruct cache as [|[eth oth] cr]; [discriminate|]. rewrite ps_spec_kids_cons.
      rewrite IH; [| cbn [length] in Hl; lia |].
      + destruct c as [cn len|cn cdl ck]; cbn [ps_spec_kid s_cur]; rewrite map_app, <- app_assoc; f_equal.
        cbn [map app]. f_equal. unfold ps_conv. cbn [p_dir p_rec p_dlen ms_kid_rec ms_rec Codec.ident data_len].
        f_equal. specialize (Hk 0%nat cn cdl ck eq_refl). rewrite Nat.add_0_r in Hk. exact Hk.
      + intros i cn' cdl' ck' Hi. destruct c as [cn len|cn cdl ck]; cbn [ps_spec_kid s_dirs s_queue].
        * apply (Hk i cn' cdl' ck'). exact Hi.
        * rewrite app_length. cbn [length].
          specialize (Hk (S i) cn' cdl' ck' Hi).
          replace (length (s_dirs st) + 1 + (length (s_queue st) + 1) + i)%nat
            with (length (s_dirs st) + 1 + length (s_queue st) + S i)%nat by lia. exact Hk.
  Qed.

  Definition ps_dir_items (items : list (list nat * node)) : list (list nat * node) :=
    filter ps_item_is_dir items.

  Lemma ps_dir_items_kids p : forall kids j,
    map snd (ps_dir_items (ps_items p j kids)) = filter Account.is_dir kids.
  Proof.
    induction kids as [|c r IH]; intros j; [reflexivity|].
    cbn [ps_items ps_dir_items filter]. unfold ps_item_is_dir at 1. cbn [snd].
    destruct (Account.is_dir c); cbn [map snd]; fold (ps_dir_items (ps_items p (S j) r)); rewrite IH; reflexivity.
  Qed.

  Lemma ps_spec_dir_dirs p dl kids st :
    s_dirs (ps_spec_dir dt t DB FB p dl kids st) =
    s_dirs st ++ [s_cur (ps_spec_kids dt DB FB p 0 kids
                    (skipn 2 (cached BS (34 :: 34 :: map Account.dr_len_of (map Account.name_of kids))))
                    (mk_pstate (s_dirs st)
                       [ps_dot_prec (ms_rec dt (ms_ext_at DB p) dl 2 [0]) 0 1 34;
                        ps_dot_prec (ms_rec dt (ms_ext_at DB (removelast p)) (ms_dlen_at t (removelast p)) 2 [1]) 1 1 68]
                       (tl (s_queue st)) (s_inodes st) (s_e2i st) (ps_blocks_of (ms_ext_at DB p) dl ++ s_seen st) 3 (s_lastbyte st)))].
  Proof. unfold ps_spec_dir. cbn [ps_end_dir s_dirs]. rewrite ps_spec_kids_dirs. reflexivity. Qed.

  Lemma ps_cache_len kids :
    length (skipn 2 (cached BS (34 :: 34 :: map Account.dr_len_of (map Account.name_of kids)))) = length kids.
  Proof. rewrite skipn_length, cached_length. cbn [length]. rewrite !map_length. lia. Qed.

  Theorem ps_gwalk_tree : forall f items st,
    length (s_queue st) = length (ps_dir_items items) -> (ps_wsize (ps_dq items) <= f)%nat ->
    let Fd := s_dirs (ps_gwalk f dt t DB FB items st) in
    (exists more, Fd = s_dirs st ++ more) /\
    (forall i p nm dl kids, nth_error (ps_dir_items items) i = Some (p, Dir nm dl kids) ->
       (length (s_dirs st) + i < length Fd)%nat /\
       forall fuel, (length Fd <= fuel + (length (s_dirs st) + i))%nat ->
         ps_tree_kids fuel Fd (length (s_dirs st) + i) = kids).
  Proof.
    induction f as [|f IH]; intros items st Hsync Hs Fd.
    - destruct items as [|[p n] q].
      + split; [exists []; rewrite app_nil_r; reflexivity|]. intros [|i] ? ? ? ? H; discriminate H.
      + cbn [ps_dq map fst snd] in Hs. rewrite ps_wsize_cons in Hs. pose proof (tsize_pos (ms_dtree n)). lia.
    - destruct items as [|[p n] q].
      + split; [exists []; rewrite app_nil_r; reflexivity|]. intros [|i] ? ? ? ? H; discriminate H.
      + cbn [ps_dq map fst snd] in Hs. rewrite ps_wsize_cons in Hs. fold (ps_dq q) in Hs.
        destruct n as [fn len|nm dl kids].
        * (* a file record *)
          change (tsize (ms_dtree (File fn len))) with 1%nat in Hs.
          unfold Fd. cbn [ps_gwalk]. apply (IH q st); [exact Hsync|lia].
        * (* a directory *)
          cbn [ms_dtree tsize] in Hs.
          unfold Fd. cbn [ps_gwalk].
          set (st1 := ps_spec_dir dt t DB FB p dl kids st).
          set (items1 := q ++ ps_items p 0 kids).
          assert (Hd1 : s_dirs st1 = s_dirs st ++ [nth (length (s_dirs st)) (s_dirs st1) []]).
          { unfold st1. rewrite ps_spec_dir_dirs, app_nth2, Nat.sub_diag by lia. reflexivity. }
          assert (Hq1 : length (s_queue st1) = length (ps_dir_items items1)).
          { unfold st1, ps_spec_dir. cbn [ps_end_dir s_queue]. rewrite ps_spec_queue by apply ps_cache_len.
            cbn [s_queue]. unfold items1, ps_dir_items. rewrite filter_app, !app_length, map_length.
            assert (Hsync' : length (s_queue st) = S (length (filter ps_item_is_dir q))) by exact Hsync.
            destruct (s_queue st) as [|x qq]; [discriminate|]. cbn [tl length] in *. lia. }
          assert (Hs1 : (ps_wsize (ps_dq items1) <= f)%nat).
          { unfold items1, ps_dq. rewrite map_app. fold (ps_dq q). fold (ps_dq (ps_items p 0 kids)).
            rewrite ps_wsize_app, ps_dq_items, ps_wsize_child. lia. }
          destruct (IH items1 st1 Hq1 Hs1) as [[more Hmore] Hb].
          set (Fd1 := s_dirs (ps_gwalk f dt t DB FB items1 st1)) in *.
          assert (Hlen1 : length (s_dirs st1) = S (length (s_dirs st))).
          { rewrite Hd1, app_length. cbn [length]. lia. }
          split; [exists ([nth (length (s_dirs st)) (s_dirs st1) []] ++ more); rewrite Hmore, Hd1 at 1;
                  rewrite <- app_assoc; reflexivity|].
          intros i p' nm' dl' kids' Hi. cbn [ps_dir_items filter ps_item_is_dir snd Account.is_dir] in Hi.
          destruct i as [|i]; cbn [nth_error] in Hi.
          -- (* the directory popped now *)
             injection Hi as <- <- <- <-. rewrite Nat.add_0_r.
             assert (Hlt : (length (s_dirs st) < length Fd1)%nat).
             { rewrite Hmore, app_length, Hlen1. lia. }
             split; [exact Hlt|]. intros [|fuel] Hfuel; [lia|].
             rewrite ps_tree_kids_S.
             assert (Hnth : nth (length (s_dirs st)) Fd1 [] = nth (length (s_dirs st)) (s_dirs st1) []).
             { rewrite Hmore. apply app_nth1. lia. }
             rewrite Hnth. unfold st1 at 1. rewrite ps_spec_dir_dirs, app_nth2, Nat.sub_diag by lia.
             cbn [nth]. rewrite <- skipn_map.
             rewrite (ps_spec_kids_conv fuel Fd1 p kids 0 _ _ (ps_cache_len kids)); [reflexivity|].
             cbn [s_dirs s_queue]. intros j cn cdl ck Hj.
             (* the j-th child directory is item number (directories of q) + j of the new queue *)
             assert (Hitem : exists pj, nth_error (ps_dir_items items1) (length (ps_dir_items q) + j)
                                        = Some (pj, Dir cn cdl ck)).
             { unfold items1, ps_dir_items. rewrite filter_app. fold (ps_dir_items q).
               rewrite nth_error_app2 by lia. replace (length (ps_dir_items q) + j - length (ps_dir_items q))%nat with j by lia.
               fold (ps_dir_items (ps_items p 0 kids)).
               pose proof (ps_dir_items_kids p kids 0) as Hm.
               assert (Hn : nth_error (map snd (ps_dir_items (ps_items p 0 kids))) j = Some (Dir cn cdl ck))
                 by (rewrite Hm; exact Hj).
               rewrite nth_error_map in Hn.
               destruct (nth_error (ps_dir_items (ps_items p 0 kids)) j) as [[pj nj]|]; [|discriminate].
               cbn [option_map snd] in Hn. injection Hn as ->. exists pj. reflexivity. }
             destruct Hitem as [pj Hitem]. destruct (Hb _ _ _ _ _ Hitem) as [_ Hkids].
             assert (Hsync' : length (s_queue st) = S (length (ps_dir_items q))) by exact Hsync.
             assert (Htl : length (tl (s_queue st)) = length (ps_dir_items q)).
             { destruct (s_queue st); cbn [tl length] in *; [discriminate|lia]. }
             replace (length (s_dirs st) + 1 + length (tl (s_queue st)) + j)%nat
               with (length (s_dirs st1) + (length (ps_dir_items q) + j))%nat by lia.
             apply Hkids. rewrite Hlen1. lia.
          -- (* a directory that was waiting already *)
             assert (Hi1 : nth_error (ps_dir_items items1) i = Some (p', Dir nm' dl' kids')).
             { assert (Hi' : nth_error (ps_dir_items q) i = Some (p', Dir nm' dl' kids')) by exact Hi.
               unfold items1. unfold ps_dir_items at 1. rewrite filter_app. fold (ps_dir_items q).
               rewrite nth_error_app1; [exact Hi'|]. apply nth_error_Some. rewrite Hi'. discriminate. }
             destruct (Hb _ _ _ _ _ Hi1) as [Hlt Hkids]. rewrite Hlen1 in Hlt, Hkids.
             replace (length (s_dirs st) + S i)%nat with (S (length (s_dirs st)) + i)%nat by lia.
             split; [exact Hlt|exact Hkids].
  Qed.
End Tree.

Theorem tree_of_graph_of dt t : wf_tree t = true -> tree_of (graph_of dt t) (root_len t) = t.
Proof.
  intros Hwf. destruct (ms_wf_root t Hwf) as (dl & kids & E & _).
  unfold tree_of, graph_of. cbn [g_dirs ps_graph].
  destruct (ps_gwalk_tree dt t (tsize (ms_dtree t)) [([], t)] (ps_init (root_extent t) (root_len t)))
    as [_ Hb].
  - rewrite E. reflexivity.
  - cbn [ps_dq map fst snd]. rewrite ps_wsize_cons. unfold ps_wsize. cbn. lia.
  - cbv zeta in Hb. destruct (Hb 0%nat [] [0] dl kids) as [_ Hk].
    { rewrite E. reflexivity. }
    cbn [ps_init s_dirs length Nat.add] in Hk. rewrite Hk by lia.
    unfold root_len, ms_dlen_at. rewrite E at 1. cbn [ms_node_at]. symmetry. exact E.
Qed.

Print Assumptions ps_gwalk_tree.
Print Assumptions tree_of_graph_of.
