(* Parse, part 10: write_fp of the opened, unedited object (Parse.ps_write: _write_directory_records with the
   parsed extents, no reshuffle) reproduces the directory area byte for byte.
     ps_write_graph_of      ps_write (graph_of t) = master t
     reopen_write_fixpoint  write(open(write(t))) = write(t) on the directory area *)
From Coq Require Import ZArith List Bool Lia ZifyBool.
From PV.Base Require Import Prim ListX.
From PV.Gen Require Import GenConst GenFun.
From PV.Model Require Import Codec Pack PathTable Names Master Parse.
From PV.Proofs Require Import CodecProofs PackProofs PathTableLemmas PathTableProofs.
From PV.Proofs Require Import MasterPack MasterWf MasterDir MasterChecker.
From PV.Proofs Require Import ParseTrack ParseDir ParseDirAll ParseWalk ParseTree ParseProofs.
Import ListNotations.
Local Open Scope Z_scope.

(* the deque of _write_directory_records for the queued directory items: (number, extent, data_length) *)
Fixpoint ps_wq (DB : list dirrec) (base : nat) (l : list (list nat * node)) : list (nat * Z * Z) :=
  match l with
  | [] => []
  | it :: r => (base, fst (ps_qof DB it), snd (ps_qof DB it)) :: ps_wq DB (S base) r
  end.

Lemma ps_wq_app DB a : forall base b, ps_wq DB base (a ++ b) = ps_wq DB base a ++ ps_wq DB (base + length a) b.
Proof.
  induction a as [|x a IH]; intros base b; cbn [app ps_wq length]; [rewrite Nat.add_0_r; reflexivity|].
  rewrite IH. replace (S base + length a)%nat with (base + S (length a))%nat by lia. reflexivity.
Qed.

(* a record object whose stored dr_len / len_fi / data_length are those of its fields *)
Definition ps_plain_bytes (c : prec) : Prop := ps_rec_bytes c = enc_dr (p_rec c).

Section Write.
  Variable dt : list Z.
  Hypothesis Hdt : length dt = 7%nat.
  Variable t : node.
  Hypothesis Hwf : wf_tree t = true.
  Hypothesis Hnm : forallb ps_names_ok (Account.kids_of t) = true.
  Local Notation DB := (ms_DB t).
  Local Notation FB := (ms_FB t).

  Lemma ps_kid_plain_bytes p j c ino dir idx eth oth :
    let rc := ms_kid_rec dt DB FB (p ++ [j]) c in
    ps_plain_bytes (mk_prec rc (Account.dr_len_of (Account.name_of c)) (zlen (Account.name_of c))
                            (data_len rc) ino dir idx eth oth).
  Proof.
    unfold ps_plain_bytes, ps_rec_bytes, enc_dr. destruct c as [cn len|cn cdl ck]; cbn [ms_kid_rec Account.name_of p_rec p_drlen p_lenfi p_dlen];
      rewrite ms_dr_len_of; reflexivity.
  Qed.

  (* the children built for one directory: their records, their bytes, the directories among them *)
  Lemma ps_spec_kids_write p : forall kids j cache st, length cache = length kids ->
    (forall i c, nth_error kids i = Some c -> ps_plain (Account.name_of c)) ->
    let st' := ps_spec_kids dt DB FB p j kids cache st in
    map p_rec (s_cur st') = map p_rec (s_cur st) ++ ms_kid_recs dt DB FB p j kids /\
    (Forall ps_plain_bytes (s_cur st) -> Forall ps_plain_bytes (s_cur st')) /\
    ps_child_dirs (s_cur st') =
      ps_child_dirs (s_cur st) ++
      ps_wq DB (length (s_dirs st) + 1 + length (s_queue st)) (ps_dir_items (ps_items p j kids)).
  Proof.
    induction kids as [|c r IH]; intros j cache st Hl Hpl st'.
    - destruct cache; [|discriminate]. unfold st'. cbn [ps_spec_kids ms_kid_recs ps_items ps_dir_items filter ps_wq].
      rewrite !app_nil_r. repeat split. exact (fun H => H).
    - destruct cache as [|[eth oth] cr]; [discriminate|]. unfold st'. rewrite ps_spec_kids_cons.
      destruct (IH (S j) cr (ps_spec_kid dt DB FB p j c eth oth st)) as (A & B & C).
      { cbn [length] in Hl. lia. }
      { intros i c' Hi. apply (Hpl (S i)). exact Hi. }
      pose proof (Hpl 0%nat c eq_refl) as [Hn0 Hn1].
      rewrite A, C. cbn [ms_kid_recs ps_items ps_dir_items filter].
      split; [|split].
      + destruct c; cbn [ps_spec_kid s_cur]; rewrite map_app, <- app_assoc; reflexivity.
      + intros HF. apply B. destruct c as [cn len|cn cdl ck]; cbn [ps_spec_kid s_cur]; apply Forall_app; (split; [exact HF|]);
          constructor; [|constructor| |constructor].
        * exact (ps_kid_plain_bytes p j (File cn len) _ _ _ _ _).
        * exact (ps_kid_plain_bytes p j (Dir cn cdl ck) _ _ _ _ _).
      + destruct c as [cn len|cn cdl ck]; cbn [ps_spec_kid s_cur s_dirs s_queue].
        * change (ps_item_is_dir (p ++ [j], File cn len)) with false. cbv iota.
          unfold ps_child_dirs at 1. rewrite flat_map_app. fold (ps_child_dirs (s_cur st)).
          cbn [flat_map]. change (ps_is_dir _) with false. cbn [andb app]. rewrite app_nil_r. reflexivity.
        * change (ps_item_is_dir (p ++ [j], Dir cn cdl ck)) with true. cbv iota.
          unfold ps_child_dirs at 1. rewrite flat_map_app. fold (ps_child_dirs (s_cur st)).
          cbn [flat_map p_rec ms_kid_rec]. change (ps_is_dir (ms_rec dt (ms_ext_at DB (p ++ [j])) cdl 2 cn)) with true.
          unfold ps_is_dot, ps_is_dotdot. cbn [ms_rec Codec.ident Account.name_of] in *.
          rewrite (ps_zlist_eqb_false _ _ Hn0), (ps_zlist_eqb_false _ _ Hn1).
          cbn [orb negb andb p_dir p_dlen extent data_len app]. rewrite <- app_assoc. cbn [app ps_wq ps_qof fst snd].
          rewrite app_length. cbn [length].
          replace (S (length (s_dirs st) + 1 + length (s_queue st)))
            with (length (s_dirs st) + 1 + (length (s_queue st) + 1))%nat by lia. reflexivity.
  Qed.

  Local Notation chunk := (ms_chunk dt t DB FB).

  Lemma ps_opt_all_plain l : Forall ps_plain_bytes l -> forallb ms_enc_ok (map p_rec l) = true ->
    ps_opt_all (map ps_rec_bytes l) = Some (map ms_enc (map p_rec l)).
  Proof.
    induction l as [|c l IH]; intros HF He; [reflexivity|].
    apply Forall_cons_iff in HF. destruct HF as [Hc HF]. cbn [map forallb] in He. apply andb_prop in He.
    destruct He as [Hok He]. cbn [map ps_opt_all]. rewrite Hc. unfold ms_enc_ok, ms_enc in *.
    destruct (enc_dr (p_rec c)) as [b|]; [|discriminate]. rewrite (IH HF He). reflexivity.
  Qed.

  Lemma ps_gwalk_ndirs : forall f items st, (ps_wsize (ps_dq items) <= f)%nat ->
    (forall p n, In (p, n) items -> ms_node_at t p = Some n) ->
    length (s_dirs (ps_gwalk f dt t DB FB items st)) =
    (length (s_dirs st) + length (filter (ms_is_dir_at t) (wgo f (ps_dq items))))%nat.
  Proof.
    induction f as [|f IH]; intros items st Hs Hn.
    - destruct items as [|[p n] q]; [cbn; lia|].
      cbn [ps_dq map fst snd] in Hs. rewrite ps_wsize_cons in Hs. pose proof (tsize_pos (ms_dtree n)). lia.
    - destruct items as [|[p n] q]; [cbn; lia|].
      cbn [ps_dq map fst snd] in Hs. rewrite ps_wsize_cons in Hs. fold (ps_dq q) in Hs.
      assert (Hpn : ms_node_at t p = Some n) by (apply Hn; left; reflexivity).
      destruct n as [fn len|nm dl kids].
      + change (tsize (ms_dtree (File fn len))) with 1%nat in Hs.
        cbn [ps_gwalk ps_dq map fst snd ms_dtree wgo child_pos_from]. fold (ps_dq q). rewrite app_nil_r. cbn [filter].
        assert (Hnd : ms_is_dir_at t p = false) by (unfold ms_is_dir_at; rewrite Hpn; reflexivity).
        rewrite Hnd. apply IH; [lia|]. intros p' n' Hin. apply Hn. right. exact Hin.
      + cbn [ms_dtree tsize] in Hs.
        assert (Hpd : ms_is_dir_at t p = true) by (unfold ms_is_dir_at; rewrite Hpn; reflexivity).
        cbn [ps_gwalk ps_dq map fst snd ms_dtree wgo]. fold (ps_dq q). rewrite <- (ps_dq_items p kids 0).
        assert (Hdq : ps_dq q ++ ps_dq (ps_items p 0 kids) = ps_dq (q ++ ps_items p 0 kids))
          by (unfold ps_dq; rewrite map_app; reflexivity).
        rewrite Hdq. cbn [filter]. rewrite Hpd. rewrite IH.
        * rewrite ps_spec_dir_dirs, app_length. cbn [length]. lia.
        * rewrite <- Hdq, ps_wsize_app, ps_dq_items, ps_wsize_child. lia.
        * intros p' n' Hin. apply in_app_or in Hin. destruct Hin as [Hin|Hin]; [apply Hn; right; exact Hin|].
          destruct (ps_items_in p kids kids 0 (fun i c H => H) p' n' Hin) as (i & -> & Hi).
          rewrite (ms_node_at_snoc p i t _ Hpn). exact Hi.
  Qed.

  Theorem ps_gwalk_write : forall f items st,
    length (s_queue st) = length (ps_dir_items items) -> (ps_wsize (ps_dq items) <= f)%nat ->
    (forall p n, In (p, n) items -> ms_node_at t p = Some n) ->
    let Fd := s_dirs (ps_gwalk f dt t DB FB items st) in
    forall F, (length (filter (ms_is_dir_at t) (wgo f (ps_dq items))) <= F)%nat ->
    ps_wwalk F Fd (ps_wq DB (length (s_dirs st)) (ps_dir_items items)) =
    Some (map chunk (filter (ms_is_dir_at t) (wgo f (ps_dq items)))).
  Proof.
    induction f as [|f IH]; intros items st Hsync Hs Hn Fd F HF.
    - destruct items as [|[p n] q].
      + cbn [ps_dir_items filter ps_wq ps_dq map wgo]. destruct F; reflexivity.
      + cbn [ps_dq map fst snd] in Hs. rewrite ps_wsize_cons in Hs. pose proof (tsize_pos (ms_dtree n)). lia.
    - destruct items as [|[p n] q].
      + cbn [ps_dir_items filter ps_wq ps_dq map wgo]. destruct F; reflexivity.
      + cbn [ps_dq map fst snd] in Hs. rewrite ps_wsize_cons in Hs. fold (ps_dq q) in Hs.
        assert (Hpn : ms_node_at t p = Some n) by (apply Hn; left; reflexivity).
        destruct n as [fn len|nm dl kids].
        * (* a file record *)
          change (tsize (ms_dtree (File fn len))) with 1%nat in Hs.
          unfold Fd. cbn [ps_gwalk ps_dq map fst snd ms_dtree wgo child_pos_from] in *. fold (ps_dq q) in *.
          rewrite app_nil_r in *. cbn [filter] in *.
          assert (Hnd : ms_is_dir_at t p = false) by (unfold ms_is_dir_at; rewrite Hpn; reflexivity).
          rewrite Hnd in *.
          apply (IH q st); [exact Hsync|lia| |exact HF]. intros p' n' Hin. apply Hn. right. exact Hin.
        * (* a directory *)
          cbn [ms_dtree tsize] in Hs.
          assert (Hpd : ms_is_dir_at t p = true) by (unfold ms_is_dir_at; rewrite Hpn; reflexivity).
          unfold Fd. cbn [ps_gwalk ps_dq map fst snd ms_dtree wgo] in *. fold (ps_dq q) in *.
          rewrite <- (ps_dq_items p kids 0) in *.
          assert (Hdq : ps_dq q ++ ps_dq (ps_items p 0 kids) = ps_dq (q ++ ps_items p 0 kids))
            by (unfold ps_dq; rewrite map_app; reflexivity).
          assert (Hs1 : (ps_wsize (ps_dq (q ++ ps_items p 0 kids)) <= f)%nat).
          { rewrite <- Hdq, ps_wsize_app, ps_dq_items, ps_wsize_child. lia. }
          rewrite Hdq in *. cbn [filter] in *. rewrite Hpd in *.
          set (st1 := ps_spec_dir dt t DB FB p dl kids st) in *.
          set (items1 := q ++ ps_items p 0 kids) in *.
          assert (Hq1 : length (s_queue st1) = length (ps_dir_items items1)).
          { unfold st1, ps_spec_dir. cbn [ps_end_dir s_queue]. rewrite ps_spec_queue by apply ps_cache_len.
            cbn [s_queue]. unfold items1, ps_dir_items. rewrite filter_app, !app_length, map_length.
            assert (Hsync' : length (s_queue st) = S (length (filter ps_item_is_dir q))) by exact Hsync.
            destruct (s_queue st) as [|x qq]; [discriminate|]. cbn [tl length] in *. lia. }
          assert (Hn1 : forall p' n', In (p', n') items1 -> ms_node_at t p' = Some n').
          { intros p' n' Hin. apply in_app_or in Hin. destruct Hin as [Hin|Hin]; [apply Hn; right; exact Hin|].
            destruct (ps_items_in p kids kids 0 (fun i c H => H) p' n' Hin) as (i & -> & Hi).
            rewrite (ms_node_at_snoc p i t _ Hpn). exact Hi. }
          destruct (ps_gwalk_tree dt t f items1 st1 Hq1 Hs1) as [[more Hmore] _].
          set (Fd1 := s_dirs (ps_gwalk f dt t DB FB items1 st1)) in *.
          set (cache := skipn 2 (cached BS (34 :: 34 :: map Account.dr_len_of (map Account.name_of kids)))).
          set (st0 := mk_pstate (s_dirs st)
                        [ps_dot_prec (ms_rec dt (ms_ext_at DB p) dl 2 [0]) 0 1 34;
                         ps_dot_prec (ms_rec dt (ms_ext_at DB (removelast p)) (ms_dlen_at t (removelast p)) 2 [1]) 1 1 68]
                        (tl (s_queue st)) (s_inodes st) (s_e2i st) (ps_blocks_of (ms_ext_at DB p) dl ++ s_seen st) 3 (s_lastbyte st)).
          assert (Hd1 : s_dirs st1 = s_dirs st ++ [s_cur (ps_spec_kids dt DB FB p 0 kids cache st0)])
            by (unfold st1; apply ps_spec_dir_dirs).
          assert (Hpl : forall i c, nth_error kids i = Some c -> ps_plain (Account.name_of c)).
          { intros i c Hi. apply (ps_kid_plain t Hnm p i c). rewrite (ms_node_at_snoc p i t _ Hpn). exact Hi. }
          destruct (ps_spec_kids_write p kids 0 cache st0 (ps_cache_len kids) Hpl) as (Wr & Wb & Wd).
          cbv zeta in Wr, Wb, Wd.
          set (ch := s_cur (ps_spec_kids dt DB FB p 0 kids cache st0)) in *.
          assert (Hnth : nth (length (s_dirs st)) Fd1 [] = ch).
          { rewrite Hmore, Hd1, <- app_assoc, app_nth2, Nat.sub_diag by lia. reflexivity. }
          cbn [ps_dir_items filter ps_item_is_dir snd Account.is_dir ps_wq ps_qof fst].
          fold (ps_dir_items q).
          destruct F as [|F]; [cbn [map length] in HF; lia|]. cbn [ps_wwalk]. rewrite Hnth.
          (* the bytes of this directory *)
          assert (Hrecs : map p_rec ch = ms_dir_recs dt t DB FB p).
          { rewrite Wr, (ms_dir_recs_eq dt t p nm dl kids Hpn). reflexivity. }
          destruct (ms_dir_recs_good dt Hdt t Hwf p nm dl kids Hpn) as (_ & _ & Hok).
          rewrite (ps_opt_all_plain ch).
          2:{ apply Wb. constructor; [reflexivity|constructor; [reflexivity|constructor]]. }
          2:{ rewrite Hrecs. exact Hok. }
          (* the rest of the deque *)
          assert (Hqueue : ps_wq DB (S (length (s_dirs st))) (ps_dir_items q) ++ ps_child_dirs ch
                           = ps_wq DB (length (s_dirs st1)) (ps_dir_items items1)).
          { rewrite Wd. cbn [s_cur s_dirs s_queue st0]. change (ps_child_dirs [_; _]) with (@nil (nat * Z * Z)).
            cbn [app]. unfold items1, ps_dir_items at 3. rewrite filter_app. fold (ps_dir_items q).
            fold (ps_dir_items (ps_items p 0 kids)). rewrite ps_wq_app, Hd1, app_length. cbn [length].
            assert (Hsync' : length (s_queue st) = S (length (ps_dir_items q))) by exact Hsync.
            assert (Htl : length (tl (s_queue st)) = length (ps_dir_items q)).
            { destruct (s_queue st); cbn [tl length] in *; [discriminate|lia]. }
            rewrite Htl. replace (S (length (s_dirs st))) with (length (s_dirs st) + 1)%nat by lia. reflexivity. }
          rewrite Hqueue. unfold Fd1.
          rewrite (IH items1 st1 Hq1 Hs1 Hn1 F) by (cbn [map length] in HF; lia).
          cbn [map]. f_equal. f_equal. unfold ms_chunk. rewrite Hrecs. unfold ms_dlen_at. rewrite Hpn. reflexivity.
  Qed.
End Write.

Theorem ps_write_graph_of dt t : length dt = 7%nat -> ps_tree_ok t = true ->
  ps_write (graph_of dt t) (root_extent t) (root_len t) = master dt t.
Proof.
  intros Hdt Hok. destruct (ps_tree_ok_spec t Hok) as [Hwf Hnm].
  destruct (ms_wf_root t Hwf) as (dl & kids & E & _).
  rewrite (ms_master_some dt Hdt t Hwf). unfold ps_write, graph_of. cbn [g_dirs ps_graph].
  destruct (ps_qof_root t dl kids E) as [Hq Hf].
  pose proof (ps_gwalk_write dt Hdt t Hwf Hnm (tsize (ms_dtree t)) [([], t)]
                (ps_init (root_extent t) (root_len t))) as H.
  cbv zeta in H. unfold ps_dir_items in H. rewrite Hf in H. cbn [ps_wq ps_init s_dirs length] in H.
  rewrite Hq in H. cbn [fst snd] in H. unfold ms_dir_positions, write_order.
  apply H.
  - reflexivity.
  - cbn [ps_dq map fst snd]. rewrite ps_wsize_cons. unfold ps_wsize. cbn. lia.
  - intros p n [Hin|[]]. injection Hin as <- <-. reflexivity.
  - rewrite (ps_gwalk_ndirs dt Hdt t (tsize (ms_dtree t)) [([], t)] (ps_init (root_extent t) (root_len t))).
    + cbn [ps_init s_dirs length Nat.add ps_dq map fst snd]. apply le_n.
    + cbn [ps_dq map fst snd]. rewrite ps_wsize_cons. unfold ps_wsize. cbn. lia.
    + intros p n [Hin|[]]. injection Hin as <- <-. reflexivity.
Qed.

(* write(open(write(t))) = write(t) on the directory area: the opened, unedited object writes the image it read *)
Theorem reopen_write_fixpoint dt t img F isz g : length dt = 7%nat -> ps_tree_ok t = true ->
  master dt t = Some img -> (tsize (ms_dtree t) < F)%nat -> ms_layout_end t * BS <= isz ->
  parse F img (ps_ptr_exts t) isz (root_extent t) (root_len t) = POk g ->
  ps_write g (root_extent t) (root_len t) = Some img.
Proof.
  intros Hdt Hok Hm HF Hisz Hp. rewrite (parse_master dt t img F isz Hdt Hok Hm HF Hisz) in Hp.
  injection Hp as <-. rewrite (ps_write_graph_of dt t Hdt Hok). exact Hm.
Qed.

Print Assumptions ps_write_graph_of.
Print Assumptions reopen_write_fixpoint.
