(* MasterRR, part 7: the image of a well-formed state.
     mrr_writes_src    every write into a continuation block comes from the root's '.' record (the ER sector) or
                       from the record at some position below the root, with that record's (block, offset, length)
     mrr_kid_w_read / mrr_root_w_read   the finished block holds the record's continuation bytes at its offset
     mrr_img_ok        directory extents and continuation blocks do not overlap
     mrr_read_chunk / mrr_read_block    what a reader gets from the image (or any larger image) *)
From Coq Require Import ZArith List Bool Lia ZifyBool.
From PV.Base Require Import Prim.
From PV.Gen Require Import GenConst GenFun.
From PV.Model Require Import Codec Pack PathTable RREntries RRWalk RRPlace.
From PV.Model Require Master Account LongNames.
From PV.Model Require Import AccountRR MasterRR.
From PV.Proofs Require Import CodecProofs PackProofs PathTableLemmas PathTableProofs MasterPack MasterImage MasterBfs.
From PV.Proofs Require Import RRPlaceProofs MasterRRWalk MasterRRRec MasterRRBlock MasterRRTree MasterRRLayout MasterRRDir.
Import ListNotations.
Local Open Scope Z_scope.
Ltac Zify.zify_post_hook ::= Z.to_euclidean_division_equations.

Lemma mrr_cw_single v dt x w1 w2 : In w1 (mrr_cw v dt x) -> In w2 (mrr_cw v dt x) -> w1 = w2.
Proof. unfold mrr_cw. destruct (snd (mrr_su_get v dt x)); [intros [<-|[]] [<-|[]]; reflexivity|intros []]. Qed.

Lemma mrr_kid_specs_in t L p : forall kids j0 x, In x (mrr_kid_specs t L p j0 kids) ->
  exists i c, nth_error kids i = Some c /\ x = mrr_kid_spec t L (p ++ [(j0 + i)%nat]) c.
Proof.
  induction kids as [|c kids IH]; intros j0 x H; [destruct H|]. cbn [mrr_kid_specs] in H. destruct H as [<-|H].
  - exists 0%nat, c. split; [reflexivity|]. rewrite Nat.add_0_r. reflexivity.
  - destruct (IH (S j0) x H) as (i & c' & E & ->). exists (S i), c'. split; [exact E|].
    replace (j0 + S i)%nat with (S j0 + i)%nat by lia. reflexivity.
Qed.
Lemma mrr_kid_specs_nth t L p : forall kids j0 i c, nth_error kids i = Some c ->
  In (mrr_kid_spec t L (p ++ [(j0 + i)%nat]) c) (mrr_kid_specs t L p j0 kids).
Proof.
  induction kids as [|c0 kids IH]; intros j0 i c H; [destruct i; discriminate|]. cbn [mrr_kid_specs].
  destruct i as [|i]; cbn [nth_error] in H.
  - injection H as <-. left. rewrite Nat.add_0_r. reflexivity.
  - right. replace (j0 + S i)%nat with (S j0 + i)%nat by lia. apply IH. exact H.
Qed.

Section Image.
  Variable dt : list Z.
  Variable s : rstate.
  Hypothesis Hdt : length dt = 7%nat.
  Hypothesis Hwf : mrr_wf dt s = true.

  Local Notation t := (r_root s).
  Local Notation v := (r_ver s).
  Local Notation L := (mrr_layout s).
  Local Notation DB := (l_DB L).
  Local Notation st := (mrr_start s).
  Local Notation ws := (mrr_writes v dt t L).
  Local Notation chunk := (mrr_dir_chunk v dt t L).
  Local Notation bchunk := (fun e => (e, mrr_block ws e)).

  Definition mrr_dot_spec (p : list nat) (dl : Z) : rspec :=
    mk_rspec (mrr_is_root p) [0] [] [] DIR_MODE (mrr_links_at t p) (Master.ms_ext_at DB p) dl 2
             (if mrr_is_root p then l_er L else 0) 0.

  (* the write of a record, from its placement *)
  Lemma mrr_cw_good x len : mrr_good dt s x len ->
    exists r bc, place (mrr_pin v dt x) = Some r /\
      record_list v (map (mrr_patch x) (entries_list (pl_ce r))) = Some bc /\
      mrr_cw v dt x = (if is_some (ce_record (pl_dr r)) then [(rs_bl x, rs_off x, bc)] else []) /\
      (is_some (ce_record (pl_dr r)) = true -> zlen bc = pl_celen r) /\
      0 <= rs_off x /\ 0 <= pl_celen r /\ rs_off x + pl_celen r <= BS.
  Proof.
    intros G. pose proof G as (r0 & P0 & _ & _ & _ & _ & Ho & C0 & C1 & _).
    destruct (mrr_good_enc dt s Hdt x len G) as (r & b & bd & bc & Hpl & Esu & _ & Ec & Hz & _).
    rewrite Hpl in P0. injection P0 as <-.
    exists r, bc. split; [exact Hpl|]. split; [exact Ec|]. split.
    - unfold mrr_cw, mrr_su_get. rewrite Esu. cbn [snd]. destruct (is_some (ce_record (pl_dr r))); reflexivity.
    - split; [exact Hz|]. unfold u32_ok in Ho. lia.
  Qed.

  (* a position below the root: its parent directory *)
  Lemma mrr_pos_parent q c : mrr_node_at t q = Some c -> q <> [] ->
    exists p j m dl kids, q = p ++ [j] /\ mrr_node_at t p = Some (RDir m dl kids) /\ nth_error kids j = Some c.
  Proof.
    intros H Hq. destruct (exists_last Hq) as (p & j & ->).
    destruct (mrr_node_at_snoc_inv p j t c H) as (m & dl & kids & Hp & Hj). exists p, j, m, dl, kids. auto.
  Qed.

  (* the write of the record at q, if it has a continuation area *)
  Lemma mrr_kid_w q c w : mrr_node_at t q = Some c -> q <> [] -> In w (mrr_cw v dt (mrr_kid_spec t L q c)) ->
    exists i off len bc, m_ce (meta_of c) = Some (i, off, len) /\ w = (mrr_ce_ext t L i, off, bc) /\
      zlen bc = len /\ 0 <= off /\ off + len <= BS.
  Proof.
    intros Hc Hq Hw. destruct (mrr_pos_parent q c Hc Hq) as (p & j & m & dl & kids & -> & Hp & Hj).
    destruct (mrr_kid_place dt s Hdt Hwf p m dl kids j c Hp Hj) as (_ & _ & r & Hpl & _ & Hce).
    destruct (mrr_cw_good _ _ (mrr_kid_good dt s Hdt Hwf p m dl kids j c Hp Hj)) as (r' & bc & Hpl' & _ & Ecw & Hz & _).
    rewrite Hpl in Hpl'. injection Hpl' as <-. rewrite Ecw in Hw.
    destruct (m_ce (meta_of c)) as [[[i off] len]|] eqn:Ek.
    - destruct Hce as (Hs & -> & H0 & H1). rewrite Hs in Hw. destruct Hw as [<-|[]].
      exists i, off, (pl_celen r), bc. split; [reflexivity|]. split.
      + destruct c; cbn [mrr_kid_spec rs_bl rs_off meta_of] in *; unfold mrr_ce_of; rewrite Ek; reflexivity.
      + split; [exact (Hz Hs)|]. split; assumption.
    - rewrite Hce in Hw. destruct Hw.
  Qed.

  Lemma mrr_root_w m dl kids w : t = RDir m dl kids -> In w (mrr_cw v dt (mrr_dot_spec [] dl)) ->
    exists bc, w = (l_er L, 0, bc) /\ zlen bc <= BS.
  Proof.
    intros Et Hw. assert (Hp : mrr_node_at t [] = Some (RDir m dl kids)) by (rewrite Et; reflexivity).
    destruct (mrr_cw_good _ _ (mrr_dot_good dt s Hdt Hwf [] m dl kids Hp)) as (r & bc & _ & _ & Ecw & Hz & H0 & H1 & H2).
    fold (mrr_dot_spec [] dl) in Ecw. rewrite Ecw in Hw.
    destruct (is_some (ce_record (pl_dr r))) eqn:Hs; [|destruct Hw]. destruct Hw as [<-|[]].
    exists bc. split; [reflexivity|]. rewrite (Hz eq_refl). cbn [mrr_dot_spec rs_off] in H2. lia.
  Qed.

  (* '.' below the root and every '..' write nothing *)
  Lemma mrr_nodot_w x len : mrr_good dt s x len -> rs_first x = false -> rs_rr x = [] -> rs_target x = [] ->
    rs_mode x = DIR_MODE -> (rs_nm x = [0] \/ rs_nm x = [1]) -> mrr_cw v dt x = [].
  Proof.
    intros G Hf Hr Ht Hm Hn. destruct (mrr_cw_good x len G) as (r & bc & Hpl & _ & Ecw & _).
    destruct (mrr_wf_root dt s Hwf) as (Hv & _).
    pose proof (mrr_dot_ok v dt false (rs_nm x) Hdt Hv Hn) as Hck. unfold mrr_dot_check in Hck.
    assert (E : mrr_pin v dt x = mk_pin v false [] DIR_MODE None false false false 0 (Account.dr_len_of (rs_nm x)) [dt; dt; dt])
      by (unfold mrr_pin; rewrite Hf, Hr, Ht, Hm; reflexivity).
    rewrite E in Hpl. rewrite Hpl in Hck. repeat (apply andb_prop in Hck; destruct Hck as [Hck ?]).
    rewrite Ecw. destruct (is_some (ce_record (pl_dr r))); [discriminate|reflexivity].
  Qed.

  (* ---- where every write comes from ---------------------------------------------------------------------- *)
  Theorem mrr_writes_src w : In w ws ->
    (exists m dl kids, t = RDir m dl kids /\ In w (mrr_cw v dt (mrr_dot_spec [] dl))) \/
    (exists q c, mrr_node_at t q = Some c /\ q <> [] /\ In w (mrr_cw v dt (mrr_kid_spec t L q c))).
  Proof.
    intros H. unfold mrr_writes in H. apply in_flat_map in H. destruct H as (p & Hp & H).
    apply in_flat_map in H. destruct H as (x & Hx & Hw).
    destruct (mrr_is_dir_node s p (mrr_positions_dir s p Hp)) as (m & dl & kids & Hn).
    unfold mrr_dir_specs in Hx. rewrite Hn in Hx. destruct Hx as [<-|[<-|Hx]].
    - destruct p as [|j p].
      + left. cbn [mrr_node_at] in Hn. exists m, dl, kids. split; [congruence|exact Hw].
      + exfalso. rewrite (mrr_nodot_w _ _ (mrr_dot_good dt s Hdt Hwf _ m dl kids Hn)) in Hw; auto.
    - exfalso. rewrite (mrr_nodot_w _ _ (mrr_dotdot_good dt s Hdt Hwf _ m dl kids Hn)) in Hw; auto.
    - destruct (mrr_kid_specs_in t L p kids 0%nat x Hx) as (i & c & Hi & ->). cbn [Nat.add] in Hw.
      right. exists (p ++ [i]), c. split; [rewrite (mrr_node_at_snoc p i t _ Hn); exact Hi|].
      split; [destruct p; discriminate|exact Hw].
  Qed.

  Lemma mrr_kid_w_in q c w : mrr_node_at t q = Some c -> q <> [] -> In w (mrr_cw v dt (mrr_kid_spec t L q c)) -> In w ws.
  Proof.
    intros Hc Hq Hw. destruct (mrr_pos_parent q c Hc Hq) as (p & j & m & dl & kids & -> & Hp & Hj).
    unfold mrr_writes. apply in_flat_map. exists p. split.
    - apply (mrr_positions_complete s). unfold mrr_is_dir_at. rewrite Hp. reflexivity.
    - apply in_flat_map. exists (mrr_kid_spec t L (p ++ [j]) c). split; [|exact Hw].
      unfold mrr_dir_specs. rewrite Hp. right. right. exact (mrr_kid_specs_nth t L p kids 0%nat j c Hj).
  Qed.
  Lemma mrr_root_w_in m dl kids w : t = RDir m dl kids -> In w (mrr_cw v dt (mrr_dot_spec [] dl)) -> In w ws.
  Proof.
    intros Et Hw. assert (Hp : mrr_node_at t [] = Some (RDir m dl kids)) by (rewrite Et; reflexivity).
    unfold mrr_writes. apply in_flat_map. exists []. split.
    - apply (mrr_positions_complete s). unfold mrr_is_dir_at. rewrite Hp. reflexivity.
    - apply in_flat_map. exists (mrr_dot_spec [] dl). split; [|exact Hw].
      unfold mrr_dir_specs. rewrite Hp. left. reflexivity.
  Qed.

  Theorem mrr_writes_fit : Forall mrr_wfit ws.
  Proof.
    apply Forall_forall. intros w Hw. destruct (mrr_writes_src w Hw) as [(m & dl & kids & Et & H)|(q & c & Hc & Hq & H)].
    - destruct (mrr_root_w m dl kids w Et H) as (bc & -> & Hz). split; cbn [fst snd]; [lia|]. pose proof (zlen_nonneg bc). lia.
    - destruct (mrr_kid_w q c w Hc Hq H) as (i & off & len & bc & _ & -> & Hz & H0 & H1). split; cbn [fst snd]; lia.
  Qed.

  (* ---- reading a continuation area back from its block ------------------------------------------------------ *)
  Theorem mrr_kid_w_read q c i off len bc : mrr_node_at t q = Some c -> q <> [] ->
    In (mrr_ce_ext t L i, off, bc) (mrr_cw v dt (mrr_kid_spec t L q c)) -> m_ce (meta_of c) = Some (i, off, len) ->
    firstn (Z.to_nat (zlen bc)) (skipn (Z.to_nat off) (mrr_block ws (mrr_ce_ext t L i))) = bc.
  Proof.
    intros Hc Hq Hw Ek. apply mrr_block_read; [exact mrr_writes_fit|exact (mrr_kid_w_in q c _ Hc Hq Hw)|].
    destruct (mrr_kid_w q c _ Hc Hq Hw) as (i0 & off0 & len0 & bc0 & Ek0 & E0 & Hz0 & _).
    rewrite Ek in Ek0. injection Ek0 as <- <- <-. injection E0 as <-.
    apply Forall_forall. intros w Hin.
    destruct (mrr_writes_src w Hin) as [(m & dl & kids & Et & H)|(q' & c' & Hc' & Hq' & H)].
    - right. destruct (mrr_root_w m dl kids w Et H) as (bc' & -> & _). left. cbn [fst].
      pose proof (mrr_ce_range dt s Hwf q c _ Hc Ek) as R. cbn [mrr_key_id fst] in R. lia.
    - destruct (list_eq_dec Nat.eq_dec q' q) as [->|Hne].
      + left. rewrite Hc in Hc'. injection Hc' as <-. exact (mrr_cw_single _ _ _ _ _ H Hw).
      + right. destruct (mrr_kid_w q' c' w Hc' Hq' H) as (i' & off' & len' & bc' & Ek' & -> & Hz' & _).
        destruct (mrr_wf_root dt s Hwf) as (_ & _ & _ & _ & _ & _ & _ & _ & Fop & _).
        pose proof (mrr_keys_pos q' t q c' c _ _ Fop Hne Hc' Hc Ek' Ek) as Hap.
        unfold mrr_apartP, mrr_key_apart in Hap. unfold mrr_wapart. cbn [fst snd].
        destruct (Nat.eqb i' i) eqn:Ei.
        * apply Nat.eqb_eq in Ei. subst i'. right. cbn [negb orb] in Hap. lia.
        * left. apply Nat.eqb_neq in Ei.
          exact (mrr_ce_inj dt s Hwf q' c' _ q c _ Hc' Ek' Hc Ek Ei).
  Qed.

  Theorem mrr_root_w_read m dl kids bc : t = RDir m dl kids ->
    In (l_er L, 0, bc) (mrr_cw v dt (mrr_dot_spec [] dl)) ->
    firstn (Z.to_nat (zlen bc)) (skipn (Z.to_nat 0) (mrr_block ws (l_er L))) = bc.
  Proof.
    intros Et Hw. apply mrr_block_read; [exact mrr_writes_fit|exact (mrr_root_w_in m dl kids _ Et Hw)|].
    apply Forall_forall. intros w Hin.
    destruct (mrr_writes_src w Hin) as [(m' & dl' & kids' & Et' & H)|(q' & c' & Hc' & Hq' & H)].
    - left. rewrite Et in Et'. injection Et' as <- <- <-. exact (mrr_cw_single _ _ _ _ _ H Hw).
    - right. destruct (mrr_kid_w q' c' w Hc' Hq' H) as (i' & off' & len' & bc' & Ek' & -> & _).
      left. cbn [fst]. pose proof (mrr_ce_range dt s Hwf q' c' _ Hc' Ek') as R. cbn [mrr_key_id fst] in R. lia.
  Qed.

  (* ---- the image -------------------------------------------------------------------------------------------- *)
  Definition mrr_img : Master.image :=
    map chunk (mrr_dir_positions t) ++ map bchunk (mrr_block_exts t L).

  Lemma mrr_bchunk_blocks e : ms_cblocks (bchunk e) = 1.
  Proof. unfold ms_cblocks. cbn [snd]. rewrite (mrr_block_len ws e mrr_writes_fit). reflexivity. Qed.

  (* a block extent: the ER sector, or inside the range of a first user, after its directory extents *)
  Lemma mrr_block_ext_cases e : In e (mrr_block_exts t L) ->
    e = l_er L \/ exists q n r, mrr_node_at t q = Some n /\ In r DB /\ d_pos r = q /\
                   d_blocks r = mrr_dblocks n + 1 /\ e = d_extent r + mrr_dblocks n /\
                   Master.ms_ext_at DB q = d_extent r /\ d_extent r + d_blocks r <= l_er L /\ 0 <= mrr_dblocks n.
  Proof.
    unfold mrr_block_exts. intros H. apply in_app_or in H. destruct H as [H|[<-|[]]]; [|left; reflexivity].
    right. apply in_map_iff in H. destruct H as ([q k] & <- & Hin). cbn [snd].
    destruct (mrr_fu_sound s q k Hin) as (n & Hn & Hk & _).
    destruct (mrr_ce_spec dt s Hwf q n k Hn Hk) as (q' & k' & n' & r & _ & _ & Hn' & Hr & Hp & Hb & He & Hx & _ & B2 & B3).
    exists q', n', r. repeat split; assumption.
  Qed.

  Lemma mrr_chunk_range p m dl kids : mrr_node_at t p = Some (RDir m dl kids) ->
    exists r, In r DB /\ d_pos r = p /\ fst (chunk p) = d_extent r /\ Master.ms_ext_at DB p = d_extent r /\
      ms_cblocks (chunk p) = mrr_dblocks (RDir m dl kids) /\
      mrr_dblocks (RDir m dl kids) <= d_blocks r /\ d_extent r + d_blocks r <= l_er L /\
      0 <= mrr_dblocks (RDir m dl kids).
  Proof.
    intros Hp. destruct (mrr_chunk_facts dt s Hdt Hwf p m dl kids Hp) as (F & _ & _ & _ & Cb & _).
    destruct (mrr_ext_spec dt s Hwf p _ Hp) as (r & Hr & Hpos & He & Hb & _ & B2 & B3).
    pose proof (mrr_flag_range (map snd (l_fu L)) m). rewrite mrr_l_fu in H.
    exists r. cbn [meta_of] in Hb. split; [exact Hr|]. split; [exact Hpos|]. split; [congruence|]. split; [exact He|].
    split; [exact Cb|]. split; [lia|]. split; [exact B2|exact B3].
  Qed.

  Theorem mrr_img_ok : ms_img_ok mrr_img.
  Proof.
    intros c1 c2 H1 H2. unfold mrr_img in H1, H2. apply in_app_or in H1. apply in_app_or in H2.
    assert (DD : forall p1 p2, In p1 (mrr_dir_positions t) -> In p2 (mrr_dir_positions t) ->
                   chunk p1 = chunk p2 \/ ms_disjoint (chunk p1) (chunk p2)).
    { intros p1 p2 P1 P2. destruct (list_eq_dec Nat.eq_dec p1 p2) as [->|Hne]; [left; reflexivity|right].
      destruct (mrr_is_dir_node s p1 (mrr_positions_dir s p1 P1)) as (m1 & d1 & k1 & N1).
      destruct (mrr_is_dir_node s p2 (mrr_positions_dir s p2 P2)) as (m2 & d2 & k2 & N2).
      destruct (mrr_chunk_range p1 m1 d1 k1 N1) as (r1 & R1 & Q1 & F1 & _ & C1 & L1 & _ & G1).
      destruct (mrr_chunk_range p2 m2 d2 k2 N2) as (r2 & R2 & Q2 & F2 & _ & C2 & L2 & _ & G2).
      unfold ms_disjoint. rewrite F1, F2, C1, C2.
      destruct (mrr_ranges_disjoint dt s Hwf p1 p2 r1 r2 R1 R2 Q1 Q2 Hne); lia. }
    assert (DB' : forall p e, In p (mrr_dir_positions t) -> In e (mrr_block_exts t L) ->
                    ms_disjoint (chunk p) (bchunk e)).
    { intros p e P E. destruct (mrr_is_dir_node s p (mrr_positions_dir s p P)) as (m & d & k & N).
      destruct (mrr_chunk_range p m d k N) as (r & R & Q & F & X & Cb & Lb & Ub & G).
      unfold ms_disjoint. rewrite F, Cb, mrr_bchunk_blocks. cbn [fst].
      destruct (mrr_block_ext_cases e E) as [->|(q & n & r' & Nq & R' & Q' & B' & -> & X' & U' & G')]; [lia|].
      destruct (list_eq_dec Nat.eq_dec p q) as [->|Hne].
      - rewrite N in Nq. injection Nq as <-. rewrite X in X'. lia.
      - destruct (mrr_ranges_disjoint dt s Hwf p q r r' R R' Q Q' Hne); lia. }
    assert (BB : forall e1 e2, bchunk e1 = bchunk e2 \/ ms_disjoint (bchunk e1) (bchunk e2)).
    { intros e1 e2. destruct (Z.eq_dec e1 e2) as [->|Hne]; [left; reflexivity|right].
      unfold ms_disjoint. rewrite !mrr_bchunk_blocks. cbn [fst]. lia. }
    destruct H1 as [H1|H1]; destruct H2 as [H2|H2]; apply in_map_iff in H1; apply in_map_iff in H2;
      destruct H1 as (x1 & <- & X1); destruct H2 as (x2 & <- & X2).
    - exact (DD x1 x2 X1 X2).
    - right. exact (DB' x1 x2 X1 X2).
    - right. pose proof (DB' x2 x1 X2 X1) as D. unfold ms_disjoint in *. lia.
    - exact (BB x1 x2).
  Qed.

  (* ---- what a reader gets, from this image or from any larger one -------------------------------------------- *)
  Section Reads.
    Variable img' : Master.image.
    Hypothesis Hok : ms_img_ok img'.
    Hypothesis Hincl : incl mrr_img img'.

    Theorem mrr_read_chunk p m dl kids : mrr_node_at t p = Some (RDir m dl kids) ->
      Master.ms_img_read img' (Master.ms_ext_at DB p) dl = Some (snd (chunk p)).
    Proof.
      intros Hp. destruct (mrr_chunk_facts dt s Hdt Hwf p m dl kids Hp) as (F & Lz & M & _).
      rewrite <- F, <- Lz. apply ms_img_read_chunk; [exact Hok| |rewrite Lz; exact M].
      apply Hincl. unfold mrr_img. apply in_or_app. left. rewrite <- surjective_pairing. apply in_map.
      apply (mrr_positions_complete s). unfold mrr_is_dir_at. rewrite Hp. reflexivity.
    Qed.

    Theorem mrr_read_block e : In e (mrr_block_exts t L) ->
      Master.ms_get_block img' e = Some (mrr_block ws e).
    Proof.
      intros He. pose proof (mrr_block_len ws e mrr_writes_fit) as Hl.
      rewrite (ms_get_block_in img' Hok e (mrr_block ws e) e).
      - rewrite Z.sub_diag. cbn [Z.mul Z.to_nat skipn]. f_equal. apply firstn_all2. unfold zlen, BS in Hl.
        rewrite ms_BS. lia.
      - apply Hincl. unfold mrr_img. apply in_or_app. right. apply (in_map bchunk). exact He.
      - rewrite Hl. change (BS / Master.BS) with 1. lia.
    Qed.

    Lemma mrr_ce_ext_in q c k : mrr_node_at t q = Some c -> m_ce (meta_of c) = Some k ->
      In (mrr_ce_ext t L (mrr_key_id k)) (mrr_block_exts t L).
    Proof.
      intros Hc Hk. destruct (mrr_ce_spec dt s Hwf q c k Hc Hk) as (q' & k' & _ & _ & Hin & Eid & _).
      unfold mrr_block_exts. apply in_or_app. left. rewrite <- Eid.
      apply (in_map (fun x : list nat * ckey => mrr_ce_ext t L (mrr_key_id (snd x))) _ (q', k')). exact Hin.
    Qed.
    Lemma mrr_er_in : In (l_er L) (mrr_block_exts t L).
    Proof. unfold mrr_block_exts. apply in_or_app. right. left. reflexivity. Qed.
  End Reads.
End Image.

Print Assumptions mrr_writes_src.
Print Assumptions mrr_kid_w_read.
Print Assumptions mrr_root_w_read.
Print Assumptions mrr_img_ok.
Print Assumptions mrr_read_chunk.
Print Assumptions mrr_read_block.
