(* Proofs about Model/VolDesc.v, part 1: the 17-byte VolumeDescriptorDate, encode_space_pad, the
   embedded root directory record, record()/parse() of PrimaryOrSupplementaryVD (PVD, Joliet SVD,
   ISO9660:1999 enhanced VD), new(), the Volume Descriptor Set Terminator and the Boot Record.
   Part 2 (both-endian discipline, space accounting, real-image examples): VolDescPairProofs.v.

   Main results
     vddate_roundtrip vddate_zero_roundtrip vddate_new_ok vddate_new_roundtrip vddate_new_zero_spec
     vddate_parse_normalises (parse-then-record is NOT the identity on bytes: any unparsable date
                              is re-recorded as '0'*16 + NUL)
     encode_space_pad_length
     root_roundtrip
     record_vd_length  vd_ok_records  vd_roundtrip  vd_roundtrip_same_mdate
     vd_roundtrip_moddate_refuted     (the stored volume_modification_date is never written)
     vd_new_ok  vd_new_ok_any_escape_refuted  vd_new_record_needs_extent  pvd/enhanced/joliet_vd_factory_ok
     vdst_roundtrip  br_record_length br_roundtrip br_new_ok br_update_ok *)
From Coq Require Import ZArith List Bool Lia ZifyBool.
From PV.Base Require Import Prim.
From PV.Gen Require Import GenConst GenFun.
From PV.Model Require Import Codec VolDesc.
From PV.Proofs Require Import CodecProofs.
Import ListNotations.
Local Open Scope Z_scope.
Ltac Zify.zify_post_hook ::= Z.to_euclidean_division_equations.

Ltac split_andb H :=
  repeat match type of H with
         | (_ && _) = true => let H2 := fresh H in apply andb_prop in H; destruct H as [H H2]
         end.
Lemma zlist_eqb_refl l : zlist_eqb l l = true.
Proof. induction l as [|x l IH]; cbn [zlist_eqb]; [reflexivity|rewrite Z.eqb_refl; exact IH]. Qed.
Lemma zlist_eqb_eq a : forall b, zlist_eqb a b = true -> a = b.
Proof.
  induction a as [|x a IH]; intros [|y b] H; cbn [zlist_eqb] in H; try discriminate; [reflexivity|].
  apply andb_prop in H. destruct H as [H1 H2]. f_equal; [lia|apply IH; exact H2].
Qed.
Lemma len_is_eq n l : len_is n l = true -> length l = n.
Proof. unfold len_is. intros H. apply Nat.eqb_eq. exact H. Qed.
Lemma len_is_true n l : length l = n -> len_is n l = true.
Proof. unfold len_is. intros H. apply Nat.eqb_eq. exact H. Qed.

Ltac zlist_hyps :=
  repeat match goal with Hz : zlist_eqb _ _ = true |- _ => apply zlist_eqb_eq in Hz end.
Ltac len_hyps :=
  repeat match goal with Hz : len_is _ _ = true |- _ => apply len_is_eq in Hz end.


(* ---- VolumeDescriptorDate ---------------------------------------------------------------- *)
Lemma dig2_spec v : 0 <= v <= 99 ->
  exists a b, dig2 v = [48 + a; 48 + b] /\ 0 <= a <= 9 /\ 0 <= b <= 9 /\ 10 * a + b = v.
Proof. intros H. exists ((v / 10) mod 10), (v mod 10). split; [reflexivity|lia]. Qed.
Lemma dig4_spec v : 0 <= v <= 9999 ->
  exists a b c d, dig4 v = [48 + a; 48 + b; 48 + c; 48 + d] /\ 0 <= a <= 9 /\ 0 <= b <= 9 /\
                  0 <= c <= 9 /\ 0 <= d <= 9 /\ 1000 * a + 100 * b + 10 * c + d = v.
Proof.
  intros H. exists ((v / 10 / 10 / 10) mod 10), ((v / 10 / 10) mod 10), ((v / 10) mod 10), (v mod 10).
  split; [reflexivity|lia].
Qed.
Lemma days_in_month_le y m : 28 <= days_in_month y m <= 31.
Proof.
  unfold days_in_month. destruct (m =? 2); [destruct (is_leap y); lia|].
  destruct ((m =? 4) || (m =? 6) || (m =? 9) || (m =? 11)); lia.
Qed.
Lemma num2_dig a b : num2 (48 + a) (48 + b) = 10 * a + b.
Proof. unfold num2. lia. Qed.

Lemma strptime14_digits a1 a2 a3 a4 m1 m2 d1 d2 h1 h2 i1 i2 s1 s2 y m d h mi se :
  0 <= a1 <= 9 -> 0 <= a2 <= 9 -> 0 <= a3 <= 9 -> 0 <= a4 <= 9 -> 0 <= m1 <= 9 -> 0 <= m2 <= 9 ->
  0 <= d1 <= 9 -> 0 <= d2 <= 9 -> 0 <= h1 <= 9 -> 0 <= h2 <= 9 -> 0 <= i1 <= 9 -> 0 <= i2 <= 9 ->
  0 <= s1 <= 9 -> 0 <= s2 <= 9 ->
  1000 * a1 + 100 * a2 + 10 * a3 + a4 = y -> 10 * m1 + m2 = m -> 10 * d1 + d2 = d ->
  10 * h1 + h2 = h -> 10 * i1 + i2 = mi -> 10 * s1 + s2 = se ->
  1 <= y -> 1 <= m <= 12 -> 1 <= d <= days_in_month y m -> h <= 23 -> mi <= 59 -> se <= 61 ->
  strptime14 [48 + a1; 48 + a2; 48 + a3; 48 + a4; 48 + m1; 48 + m2; 48 + d1; 48 + d2; 48 + h1; 48 + h2;
              48 + i1; 48 + i2; 48 + s1; 48 + s2] = Some (y, m, d, h, mi, se).
Proof.
  intros A1 A2 A3 A4 M1 M2 D1 D2 H1 H2 I1 I2 S1 S2 Ey Em Ed Eh Ei Es Hy Hm Hd Hh Hmi Hse.
  unfold strptime14. cbv zeta. rewrite !num2_dig.
  replace (1000 * (48 + a1 - 48) + 100 * (48 + a2 - 48) + 10 * (48 + a3 - 48) + (48 + a4 - 48)) with y by lia.
  replace (48 + d1 =? 32) with false by lia.
  rewrite Em, Ed, Eh, Ei, Es. unfold isdig.
  match goal with |- (if ?c then _ else _) = _ => replace c with true by lia end.
  reflexivity.
Qed.

Lemma vddate_eqb_eq a b : vddate_eqb a b = true -> a = b.
Proof.
  destruct a as [y m d h mi se hs off str], b as [y' m' d' h' mi' se' hs' off' str']. unfold vddate_eqb. cbn [dd_year dd_month dd_day dd_hour dd_min dd_sec dd_hsec dd_off dd_str].
  intros H. split_andb H. zlist_hyps. f_equal; lia || assumption.
Qed.

Lemma int2_digits a b : 0 <= a <= 9 -> 0 <= b <= 9 -> int2 (48 + a) (48 + b) = 10 * a + b.
Proof.
  intros Ha Hb. unfold int2, isdig. replace ((48 <=? 48 + a) && (48 + a <=? 57) && ((48 <=? 48 + b) && (48 + b <=? 57)))
    with true by lia. apply num2_dig.
Qed.

(* 4. parse(record(d)) = d for every in-range date object *)
Theorem vddate_roundtrip d : vddate_ok d = true -> parse_vddate (record_vddate d) = Some d.
Proof.
  unfold vddate_ok. intros H. apply orb_prop in H. destruct H as [H|H].
  - apply vddate_eqb_eq in H. subst d. vm_compute. reflexivity.
  - destruct d as [y m dd h mi se hs off str].
    cbn [dd_year dd_month dd_day dd_hour dd_min dd_sec dd_hsec dd_off dd_str] in H.
    split_andb H. match goal with Hz : zlist_eqb _ _ = true |- _ => apply zlist_eqb_eq in Hz; rename Hz into Hstr end.
    match goal with Hz : s8_ok _ = true |- _ => rename Hz into Hoff end. unfold record_vddate. cbn [dd_str].
    destruct (dig4_spec y) as (a1 & a2 & a3 & a4 & Ey & A1 & A2 & A3 & A4 & Ey'); [lia|].
    destruct (dig2_spec m) as (m1 & m2 & Em & M1 & M2 & Em'); [lia|].
    pose proof (days_in_month_le y m) as Hdim.
    destruct (dig2_spec dd) as (d1 & d2 & Ed & D1 & D2 & Ed'); [lia|].
    destruct (dig2_spec h) as (h1 & h2 & Eh & Hh1 & Hh2 & Eh'); [lia|].
    destruct (dig2_spec mi) as (i1 & i2 & Ei & I1 & I2 & Ei'); [lia|].
    destruct (dig2_spec se) as (s1 & s2 & Es & S1 & S2 & Es'); [lia|].
    destruct (dig2_spec hs) as (c1 & c2 & Ec & C1 & C2 & Ec'); [lia|].
    rewrite Ey, Em, Ed, Eh, Ei, Es, Ec in Hstr. cbn [app] in Hstr. subst str.
    unfold parse_vddate, string_to_timestruct. cbn [len_is length Nat.eqb negb firstn nth].
    rewrite (strptime14_digits a1 a2 a3 a4 m1 m2 d1 d2 h1 h2 i1 i2 s1 s2 y m dd h mi se) by (assumption || lia).
    replace ((y =? 0) && (m =? 0) && (dd =? 0) && (h =? 0) && (mi =? 0) && (se =? 0)) with false by lia.
    rewrite int2_digits, s8_roundtrip by (assumption || (unfold s8_ok in Hoff; lia)).
    rewrite Ec'. reflexivity.
Qed.

Theorem vddate_zero_roundtrip :
  vddate_ok vddate_zero = true /\ parse_vddate (record_vddate vddate_zero) = Some vddate_zero /\
  record_vddate vddate_zero = repeat 48 16 ++ [0].
Proof. repeat split; vm_compute; reflexivity. Qed.

(* new(0.0) (pycdlib's default vol_expire_date) is the unspecified form; new(None) is not special:
   None != 0.0, and time.localtime(None) is the current time, i.e. vddate_new at the clock *)
Theorem vddate_new_zero_spec :
  vddate_new_zero = mk_vddate 0 0 0 0 0 0 0 0 (repeat 48 16 ++ [0]) /\ vddate_ok vddate_new_zero = true.
Proof. split; vm_compute; reflexivity. Qed.

Theorem vddate_new_ok y m d h mi se off dt :
  1 <= y <= 9999 -> 1 <= m <= 12 -> 1 <= d <= days_in_month y m -> 0 <= h <= 23 -> 0 <= mi <= 59 ->
  0 <= se <= 61 -> vddate_new y m d h mi se off = Some dt ->
  vddate_ok dt = true /\ length (record_vddate dt) = 17%nat.
Proof.
  intros Hy Hm Hd Hh Hmi Hse. unfold vddate_new. destruct (s8_ok off) eqn:Ho; [|discriminate].
  intros E. apply some_inv in E. subst dt. split; [|reflexivity].
  unfold vddate_ok. cbn [dd_year dd_month dd_day dd_hour dd_min dd_sec dd_hsec dd_off dd_str].
  apply orb_true_iff. right. rewrite Ho. change (dig2 0) with [48; 48]. rewrite zlist_eqb_refl.
  rewrite !andb_true_r. lia.
Qed.

Corollary vddate_new_roundtrip y m d h mi se off dt :
  1 <= y <= 9999 -> 1 <= m <= 12 -> 1 <= d <= days_in_month y m -> 0 <= h <= 23 -> 0 <= mi <= 59 ->
  0 <= se <= 61 -> vddate_new y m d h mi se off = Some dt ->
  parse_vddate (record_vddate dt) = Some dt.
Proof. intros. apply vddate_roundtrip. eapply vddate_new_ok; eassumption. Qed.

Lemma parse_vddate_len s d : parse_vddate s = Some d -> length s = 17%nat.
Proof. unfold parse_vddate. destruct (len_is 17 s) eqn:E; [intros _; apply len_is_eq; exact E|discriminate]. Qed.
Lemma vddate_ok_len d : vddate_ok d = true -> length (dd_str d) = 17%nat.
Proof. intros H. apply (parse_vddate_len _ d). apply (vddate_roundtrip d H). Qed.

(* parse never fails on 17 bytes, and an unparsable date is normalised: record(parse(s)) <> s *)
Theorem vddate_parse_normalises :
  parse_vddate (repeat 0 17) = Some vddate_zero /\ record_vddate vddate_zero <> repeat 0 17 /\
  parse_vddate [50; 48; 50; 48; 48; 50; 51; 48; 48; 48; 48; 48; 48; 48; 48; 48; 4] = Some vddate_zero.
Proof. repeat split; vm_compute; (reflexivity || discriminate). Qed.

(* ---- encode_space_pad -------------------------------------------------------------------- *)
Lemma pad_loop_inv fuel sp : 0 < zlen sp -> forall out lft,
  zlen (fst (pad_loop fuel sp out lft)) + snd (pad_loop fuel sp out lft) = zlen out + lft /\
  (lft <= Z.of_nat fuel -> snd (pad_loop fuel sp out lft) <= 0).
Proof.
  intros Hsp. induction fuel as [|f IH]; intros out lft; cbn [pad_loop].
  - cbn [fst snd]. lia.
  - destruct (0 <? lft) eqn:E; [|cbn [fst snd]; lia].
    destruct (IH (out ++ sp) (lft - zlen sp)) as [I1 I2]. rewrite zlen_app in I1. split; [lia|].
    intros Hf. apply I2. lia.
Qed.

Theorem encode_space_pad_length s n u out : 0 <= n ->
  encode_space_pad s n u = Some out -> length out = Z.to_nat n.
Proof.
  intros Hn. unfold encode_space_pad. destruct (encode_id u s) as [o|]; [|discriminate].
  destruct (n <? zlen o) eqn:E; [discriminate|].
  assert (Hsp : 0 < zlen (if u then [0; 32] else [32])) by (destruct u; reflexivity).
  destruct (pad_loop_inv (Z.to_nat (n - zlen o)) _ Hsp o (n - zlen o)) as [I1 I2].
  destruct (pad_loop (Z.to_nat (n - zlen o)) (if u then [0; 32] else [32]) o (n - zlen o)) as [o' l'].
  cbn [fst snd] in I1, I2. intros H. apply some_inv in H. subst out.
  assert (Hl : l' <= 0) by (apply I2; lia).
  destruct (l' <? 0) eqn:E2.
  - rewrite firstn_length. unfold zlen in *. lia.
  - unfold zlen in *. lia.
Qed.

Lemma ljust_length n c s : length (ljust n c s) = Nat.max n (length s).
Proof. unfold ljust. rewrite app_length, repeat_length. lia. Qed.

(* ---- the embedded root directory record -------------------------------------------------- *)
Lemma root_record_bytes r b : root_ok r = true -> root_record r = Some b ->
  pack_s 34 b = concat (dr_fields (rd_dr_len r) (rd_len_fi r) (rd_rec r)) ++ [0].
Proof.
  unfold root_ok, root_record. intros H E. split_andb H. rewrite enc_dr_raw_eq, H in E.
  apply some_inv in E. zlist_hyps.
  match goal with Hz : ident _ = [0] |- _ => rewrite Hz in E end.
  set (hdr := concat (dr_fields (rd_dr_len r) (rd_len_fi r) (rd_rec r))) in *.
  assert (Hh : length hdr = 33%nat) by apply dr_header_len.
  change (hdr ++ [0] ++ repeat 0 (pad1 (rd_len_fi r)) ++ sysuse (rd_rec r) ++ repeat 0 (pad2 (rd_len_fi r) (rd_rec r)))
    with (hdr ++ [0] ++ (repeat 0 (pad1 (rd_len_fi r)) ++ sysuse (rd_rec r) ++ repeat 0 (pad2 (rd_len_fi r) (rd_rec r)))) in E.
  rewrite app_assoc in E. subst b. unfold pack_s.
  rewrite (firstn_app_exact 34) by (rewrite app_length, Hh; reflexivity).
  rewrite !app_length, Hh. cbn [length]. replace (34 - _)%nat with 0%nat by lia. apply app_nil_r.
Qed.

Theorem root_roundtrip r b : root_ok r = true -> root_record r = Some b ->
  length (pack_s 34 b) = 34%nat /\ parse_root (pack_s 34 b) = Some r.
Proof.
  intros H E. split; [apply pack_s_length|]. rewrite (root_record_bytes r b H E).
  unfold root_ok in H. split_andb H. apply dr_ranges in H.
  destruct H as (Hdl & Hxa & Hex & Hdt & Hfl & Hus & Hgs & Hsq & Hlf).
  set (hdr := concat (dr_fields (rd_dr_len r) (rd_len_fi r) (rd_rec r))).
  assert (Hh : length hdr = 33%nat) by apply dr_header_len.
  unfold parse_root. replace (255 <? zlen (hdr ++ [0])) with false
    by (unfold zlen; rewrite app_length, Hh; reflexivity).
  rewrite (firstn_app_exact 33) by exact Hh. unfold hdr.
  rewrite <- (dr_layout (rd_dr_len r) (rd_len_fi r) (rd_rec r)), split_concat_nil.
  fold hdr. replace (length (hdr ++ [0%Z]) <? 34)%nat with false by (rewrite app_length, Hh; reflexivity).
  unfold dr_fields, fld. cbv beta iota zeta. unfold d8. cbn [nth].
  rewrite !le32_dle32 by (first [assumption | apply swab32_range]).
  rewrite !le16_dle16 by (first [assumption | apply swab16_range]).
  rewrite swab32_invol, swab16_invol, !Z.eqb_refl by assumption. cbn [negb].
  len_hyps. rewrite (pack_s_exact 7) by assumption.
  replace (negb (xattr_len (rd_rec r) =? 0) &&
           (flag_set (flags (rd_rec r)) FILE_FLAG_RECORD_BIT || flag_set (flags (rd_rec r)) FILE_FLAG_PROTECTION_BIT))
    with false.
  2:{ match goal with Hz : (_ || _) = true |- _ => rename Hz into Hx end.
      destruct (xattr_len (rd_rec r) =? 0); [reflexivity|]. cbn [orb negb andb] in Hx |- *.
      apply andb_prop in Hx. destruct Hx as [G1 G2].
      destruct (flag_set (flags (rd_rec r)) FILE_FLAG_RECORD_BIT); [discriminate|].
      destruct (flag_set (flags (rd_rec r)) FILE_FLAG_PROTECTION_BIT); [discriminate|reflexivity]. }
  zlist_hyps. match goal with Hz : is_nil _ = true |- _ => rename Hz into Hnil end.
  destruct r as [dl lf [xa ex dlen dt fl us gs sq id su]].
  cbn [rd_dr_len rd_len_fi rd_rec xattr_len extent data_len date flags unit_size gap_size seqnum ident sysuse] in *.
  subst id. destruct su; [reflexivity|discriminate].
Qed.

(* ---- PrimaryOrSupplementaryVD: layout, length ------------------------------------------- *)
Lemma vd_layout now v root : map (@length Z) (vd_fields now v root) = widths fmt_pvd_widths.
Proof. cbn [vd_fields map]. rewrite !pack_s_length. reflexivity. Qed.

(* 1a. whenever record() does not raise it returns exactly 2048 bytes *)
Theorem record_vd_length now v b : record_vd now v = Some b -> length b = 2048%nat.
Proof.
  unfold record_vd. destruct (root_record (vd_root v)) as [root|]; [|discriminate].
  destruct (vd_ranges_ok v); [|discriminate]. intros E. apply some_inv in E. subst b.
  rewrite length_concat, vd_layout. reflexivity.
Qed.

Lemma vd_ranges v : vd_ranges_ok v = true ->
  byte (vd_type v) /\ byte (vd_version v) /\ byte (vd_flags v) /\ u32 (vd_space v) /\
  u16 (vd_setsize v) /\ u16 (vd_seqnum v) /\ u16 (vd_lbs v) /\ u32 (vd_ptsize v) /\
  u32 (vd_ptloc_le v) /\ u32 (vd_optloc_le v) /\ u32 (vd_ptloc_be v) /\ u32 (vd_optloc_be v) /\
  byte (vd_fsv v).
Proof. unfold vd_ranges_ok, u8_ok, u16_ok, u32_ok, byte, u16, u32. lia. Qed.

Lemma root_ok_records r : root_ok r = true -> exists b, root_record r = Some b.
Proof.
  unfold root_ok, root_record. intros H. split_andb H. rewrite enc_dr_raw_eq, H. eexists; reflexivity.
Qed.

(* every in-range descriptor can be recorded *)
Theorem vd_ok_records now v : vd_ok v = true -> exists b, record_vd now v = Some b.
Proof.
  unfold vd_ok. intros H. split_andb H.
  match goal with Hz : root_ok _ = true |- _ => destruct (root_ok_records _ Hz) as [rb Hrb] end.
  match goal with Hz : vd_ranges_ok _ = true |- _ => rename Hz into Hr end.
  unfold record_vd. rewrite Hrb, Hr. eexists; reflexivity.
Qed.

Lemma parse_date_field d : vddate_ok d = true -> parse_vddate (pack_s 17 (record_vddate d)) = Some d.
Proof.
  intros H. rewrite pack_s_exact by (apply vddate_ok_len; exact H). apply vddate_roundtrip; exact H.
Qed.

Lemma parse_vd_fields_record now v rb : vd_ok v = true -> vddate_ok now = true ->
  root_record (vd_root v) = Some rb ->
  parse_vd_fields (vd_type v) (vd_fields now v rb) = Some (vd_set_mdate now v).
Proof.
  unfold vd_ok. intros H Hnow Hrb. split_andb H.
  match goal with Hz : root_ok _ = true |- _ => destruct (root_roundtrip _ _ Hz Hrb) as [_ Hroot] end.
  match goal with Hz : vd_ranges_ok _ = true |- _ => apply vd_ranges in Hz;
    destruct Hz as (Rty & Rver & Rfl & Rsp & Rss & Rsq & Rlb & Rpt & Rle & Role & Rbe & Robe & Rfsv) end.
  match goal with Hz : Bool.eqb _ _ = true |- _ => apply eqb_prop in Hz; rename Hz into Hutf end.
  match goal with Hz : (_ || _) = true |- _ => rename Hz into Hty end.
  match goal with Hz : (_ =? _) = true |- _ => rename Hz into Hext end.
  len_hyps.
  unfold parse_vd_fields, vd_fields, fld, vd_checks. cbn [nth]. cbv zeta. unfold d8. cbn [nth].
  rewrite !le32_dle32 by (first [assumption | apply swab32_range]).
  rewrite !le16_dle16 by (first [assumption | apply swab16_range]).
  rewrite !swab32_invol, !swab16_invol by assumption.
  rewrite !(pack_s_exact 32), !(pack_s_exact 128), !(pack_s_exact 37), !(pack_s_exact 512) by assumption.
  rewrite !parse_date_field by assumption. rewrite Hroot.
  change (pack_s 5 cd001) with cd001. change (dle64 (repeat 0 8)) with 0.
  change (zlist_eqb cd001 cd001) with true.
  match goal with |- (if negb ?c then None else _) = _ => replace c with true end.
  2:{ unfold VD_TYPE_PRIMARY, VD_TYPE_SUPPLEMENTARY. lia. }
  cbn [negb].
  replace (if vd_type v =? VD_TYPE_PRIMARY then if negb (vd_fsv v =? 1) then 1 else vd_fsv v else vd_fsv v)
    with (vd_fsv v).
  2:{ unfold VD_TYPE_PRIMARY. destruct (vd_type v =? 1) eqn:E1; [|reflexivity].
      destruct (vd_fsv v =? 1) eqn:E2; cbn [negb]; [reflexivity|lia]. }
  rewrite <- Hutf. replace (vd_ptloc_be v - vd_ptloc_le v) with (vd_ptextents v) by lia.
  destruct v; reflexivity.
Qed.

(* 1b. round trip: parse(record(vd)) is vd with the modification date replaced by the clock's *)
Theorem vd_roundtrip now v : vd_ok v = true -> vddate_ok now = true ->
  exists b, record_vd now v = Some b /\ length b = 2048%nat /\
            parse_vd (vd_type v) b = Some (vd_set_mdate now v).
Proof.
  intros H Hnow. destruct (vd_ok_records now v H) as [b Hb]. exists b. split; [exact Hb|].
  split; [apply (record_vd_length now v b Hb)|].
  unfold record_vd in Hb. destruct (root_record (vd_root v)) as [rb|] eqn:Hrb; [|discriminate].
  destruct (vd_ranges_ok v); [|discriminate]. apply some_inv in Hb. subst b.
  unfold parse_vd. rewrite <- (vd_layout now v rb), split_concat_nil.
  apply parse_vd_fields_record; assumption.
Qed.

Lemma vd_set_mdate_same v : vd_set_mdate (vd_mdate v) v = v.
Proof. destruct v; reflexivity. Qed.

Corollary vd_roundtrip_same_mdate v : vd_ok v = true -> vddate_ok (vd_mdate v) = true ->
  exists b, record_vd (vd_mdate v) v = Some b /\ parse_vd (vd_type v) b = Some v.
Proof.
  intros H Hm. destruct (vd_roundtrip (vd_mdate v) v H Hm) as (b & H1 & _ & H3).
  exists b. rewrite vd_set_mdate_same in H3. auto.
Qed.

(* parse(record(vd)) = vd fails exactly on the modification date: record() writes the clock *)
Theorem vd_roundtrip_moddate_refuted v now : vd_ok v = true -> vddate_ok now = true ->
  vd_mdate v <> now -> forall b, record_vd now v = Some b -> parse_vd (vd_type v) b <> Some v.
Proof.
  intros H Hnow Hne b Hb E. destruct (vd_roundtrip now v H Hnow) as (b' & H1 & _ & H3).
  rewrite Hb in H1. apply some_inv in H1. subst b'. rewrite E in H3. apply some_inv in H3.
  apply (f_equal vd_mdate) in H3. destruct v; cbn in H3. cbn in Hne. congruence.
Qed.

(* ---- new() -------------------------------------------------------------------------------- *)
Definition factory_escape (e : list Z) : Prop := e = [] \/ e = esc_at \/ e = esc_c \/ e = esc_e.

Ltac new_step :=
  match goal with
  | |- (match ?e with Some _ => _ | None => None end) = Some _ -> _ =>
      let E := fresh "E" in destruct e eqn:E; [|discriminate]
  | |- (if ?c then None else _) = Some _ -> _ =>
      let C := fresh "C" in destruct c eqn:C; [discriminate|]
  end.

Lemma vd_new_shape ty fl sys vol ss sq lbs volset pub prep app cpr abs bib now xd rdate app_use xa ver esc v :
  vd_new ty fl sys vol ss sq lbs volset pub prep app cpr abs bib now xd rdate app_use xa ver esc = Some v ->
  exists utf16 escs sysid volid vset p1 p2 p3 c1 c2 c3 au,
    v = mk_vd ty ver 0 sysid volid 17 escs ss sq lbs 10 (ceiling_div 10 4096 * 2) 19 0 21 0
              (mk_rootdr (new_dr_len 1 0) 1 (mk_drec 0 (-1) lbs rdate 2 0 0 sq [0] []))
              vset p1 p2 p3 c1 c2 c3 now now xd now ver au utf16 /\
    length sysid = 32%nat /\ length volid = 32%nat /\ length vset = 128%nat /\ length p1 = 128%nat /\
    length p2 = 128%nat /\ length p3 = 128%nat /\ length c1 = 37%nat /\ length c2 = 37%nat /\
    length c3 = 37%nat /\ length au = 512%nat /\ sq <= ss /\ lbs <= 4294967295 /\
    ((ty = 1 /\ ver = 1 /\ utf16 = false /\ escs = repeat 0 32) \/
     (ty = 2 /\ (ver = 1 \/ ver = 2) /\ utf16 = is_joliet_esc esc /\ escs = ljust 32 0 esc)).
Proof.
  unfold vd_new.
  match goal with |- (match ?e with Some _ => _ | None => None end) = Some _ -> _ =>
    destruct e as [[utf16 escs]|] eqn:E0; [|discriminate] end.
  repeat new_step. unfold root_new in *.
  destruct (4294967295 <? lbs) eqn:Clbs; [discriminate|].
  match goal with Hr : Some _ = Some ?r |- _ => apply some_inv in Hr; subst r end.
  intros Hv. apply some_inv in Hv. subst v.
  repeat match goal with Hz : encode_space_pad _ _ _ = Some _ |- _ =>
    apply encode_space_pad_length in Hz; [|lia] end.
  do 12 eexists. split; [reflexivity|]. repeat (split; [assumption || lia|]).
  split.
  { destruct xa.
    - destruct (141 <? zlen app_use) eqn:Ca; [discriminate|].
      match goal with Hz : Some _ = Some _ |- _ => apply some_inv in Hz; rewrite <- Hz end.
      rewrite ljust_length, !app_length, ljust_length, repeat_length. change (length xa_sig) with 8%nat.
      unfold zlen in Ca. lia.
    - destruct (512 <? zlen app_use) eqn:Ca; [discriminate|].
      match goal with Hz : Some _ = Some _ |- _ => apply some_inv in Hz; rewrite <- Hz end.
      rewrite ljust_length. unfold zlen in Ca. lia. }
  split; [lia|]. split; [lia|].
  unfold VD_TYPE_PRIMARY, VD_TYPE_SUPPLEMENTARY in E0.
  destruct (ty =? 1) eqn:T1.
  - left. destruct (negb (fl =? 0) || negb (is_nil esc) || negb (ver =? 1)) eqn:Cc; [discriminate|].
    apply some_inv in E0. injection E0 as <- <-. repeat split; lia.
  - right. destruct (ty =? 2) eqn:T2; [|discriminate].
    destruct (negb ((ver =? 1) || (ver =? 2))) eqn:Cc; [discriminate|].
    apply some_inv in E0. injection E0 as <- <-. repeat split; lia.
Qed.

(* 1c. new() followed by the root extent assignment yields an in-range descriptor *)
Theorem vd_new_ok ty fl sys vol ss sq lbs volset pub prep app cpr abs bib now xd rdate app_use xa ver esc v ext len :
  vd_new ty fl sys vol ss sq lbs volset pub prep app cpr abs bib now xd rdate app_use xa ver esc = Some v ->
  factory_escape esc -> vddate_ok now = true -> vddate_ok xd = true -> length rdate = 7%nat ->
  0 <= sq -> ss <= 65535 -> 0 <= lbs <= 65535 -> u32 ext -> u32 len ->
  vd_ok (vd_set_root_extent v ext len) = true.
Proof.
  intros Hv Hesc Hnow Hxd Hrd Hsq Hss Hlbs Hext Hlen.
  destruct (vd_new_shape _ _ _ _ _ _ _ _ _ _ _ _ _ _ _ _ _ _ _ _ _ _ Hv)
    as (utf16 & escs & sysid & volid & vset & p1 & p2 & p3 & c1 & c2 & c3 & au & -> & L1 & L2 & L3 &
        L4 & L5 & L6 & L7 & L8 & L9 & L10 & Hle & Hl32 & Hcase).
  unfold u32 in *.
  assert (Hescs : len_is 32 escs = true /\ Bool.eqb utf16 (is_joliet_esc32 escs) = true).
  { destruct Hcase as [(-> & -> & -> & ->) | (-> & Hver & -> & ->)]; [split; reflexivity|].
    destruct Hesc as [-> | [-> | [-> | ->]]]; split; reflexivity. }
  destruct Hescs as [Hl Hu].
  unfold vd_ok, vd_set_root_extent, vd_with, root_set_extent.
  cbn [vd_type vd_version vd_flags vd_sysid vd_volid vd_space vd_escape vd_setsize vd_seqnum vd_lbs
       vd_ptsize vd_ptextents vd_ptloc_le vd_optloc_le vd_ptloc_be vd_optloc_be vd_root vd_volset
       vd_pub vd_prep vd_app vd_copyright vd_abstract vd_biblio vd_cdate vd_mdate vd_xdate vd_edate
       vd_fsv vd_appuse vd_utf16 rd_dr_len rd_len_fi rd_rec xattr_len extent data_len date flags
       unit_size gap_size seqnum ident sysuse].
  rewrite Hl, Hu, Hnow, Hxd, !len_is_true by assumption.
  change (ceiling_div 10 4096 * 2 =? 21 - 19) with true. rewrite !andb_true_r.
  apply andb_true_intro. split; [apply andb_true_intro; split|].
  - destruct Hcase as [(-> & -> & _) | (-> & Hver & _)]; lia.
  - unfold vd_ranges_ok, u8_ok, u16_ok, u32_ok.
    cbn [vd_type vd_version vd_flags vd_space vd_setsize vd_seqnum vd_lbs vd_ptsize vd_ptloc_le
         vd_optloc_le vd_ptloc_be vd_optloc_be vd_fsv].
    destruct Hcase as [(-> & -> & _) | (-> & Hver & _)]; lia.
  - unfold root_ok.
    cbn [rd_dr_len rd_len_fi rd_rec xattr_len extent data_len date flags unit_size gap_size seqnum
         ident sysuse].
    rewrite (len_is_true 7) by assumption. change (new_dr_len 1 0) with 34.
    unfold dr_ranges_ok, u8_ok, u16_ok, u32_ok.
    cbn [xattr_len extent data_len flags unit_size gap_size seqnum zlist_eqb is_nil].
    rewrite !Z.eqb_refl. cbn [orb andb]. lia.
Qed.

(* vd_new_ok needs factory_escape: new() compares the UNPADDED escape sequence with %/@ %/C %/E,
   parse() the padded one, so an escape sequence with trailing NULs is 'ascii' for new() and
   'utf-16_be' after record+parse (same on the real library: new(..., 1, b'%/@\x00')) *)
Example vd_new_ok_any_escape_refuted :
  exists v, vd_new 2 0 [83] [86] 1 1 2048 [] [] [] [] [] [] [] vddate_zero vddate_zero [126; 9; 21; 14; 13; 20; 0]
                   [] false 1 (esc_at ++ [0]) = Some v /\
            vd_ok (vd_set_root_extent v 23 2048) = false /\ vd_utf16 v = false /\
            is_joliet_esc32 (vd_escape v) = true.
Proof. eexists. split; [vm_compute; reflexivity|]. repeat split; vm_compute; reflexivity. Qed.

(* a freshly created descriptor cannot be recorded: its root record has no extent yet
   (Python: TypeError inside swab_32bit(None)) *)
Theorem vd_new_record_needs_extent ty fl sys vol ss sq lbs volset pub prep app cpr abs bib now xd rdate app_use xa ver esc v now' :
  vd_new ty fl sys vol ss sq lbs volset pub prep app cpr abs bib now xd rdate app_use xa ver esc = Some v ->
  record_vd now' v = None.
Proof.
  intros Hv. destruct (vd_new_shape _ _ _ _ _ _ _ _ _ _ _ _ _ _ _ _ _ _ _ _ _ _ Hv)
    as (utf16 & escs & sysid & volid & vset & p1 & p2 & p3 & c1 & c2 & c3 & au & -> & _).
  unfold record_vd, root_record, enc_dr_raw, dr_ranges_ok.
  cbn [vd_root rd_dr_len rd_len_fi rd_rec xattr_len extent data_len flags unit_size gap_size seqnum].
  change (u32_ok (-1)) with false. rewrite andb_false_r. reflexivity.
Qed.

Corollary pvd_factory_ok sys vol ss sq lbs volset pub prep app cpr abs bib now xd rdate app_use xa v ext len :
  pvd_factory sys vol ss sq lbs volset pub prep app cpr abs bib now xd rdate app_use xa = Some v ->
  vddate_ok now = true -> vddate_ok xd = true -> length rdate = 7%nat ->
  0 <= sq -> ss <= 65535 -> 0 <= lbs <= 65535 -> u32 ext -> u32 len ->
  vd_type v = 1 /\ vd_version v = 1 /\ vd_ok (vd_set_root_extent v ext len) = true.
Proof.
  unfold pvd_factory. intros Hv. intros. split; [|split].
  - destruct (vd_new_shape _ _ _ _ _ _ _ _ _ _ _ _ _ _ _ _ _ _ _ _ _ _ Hv) as (? & ? & ? & ? & ? & ? & ? & ? & ? & ? & ? & ? & -> & _); reflexivity.
  - destruct (vd_new_shape _ _ _ _ _ _ _ _ _ _ _ _ _ _ _ _ _ _ _ _ _ _ Hv) as (? & ? & ? & ? & ? & ? & ? & ? & ? & ? & ? & ? & -> & _); reflexivity.
  - eapply vd_new_ok; try eassumption. left; reflexivity.
Qed.

Corollary enhanced_vd_factory_ok sys vol ss sq lbs volset pub prep app cpr abs bib now xd rdate app_use xa v ext len :
  enhanced_vd_factory sys vol ss sq lbs volset pub prep app cpr abs bib now xd rdate app_use xa = Some v ->
  vddate_ok now = true -> vddate_ok xd = true -> length rdate = 7%nat ->
  0 <= sq -> ss <= 65535 -> 0 <= lbs <= 65535 -> u32 ext -> u32 len ->
  vd_type v = 2 /\ vd_version v = 2 /\ vd_utf16 v = false /\ vd_ok (vd_set_root_extent v ext len) = true.
Proof.
  unfold enhanced_vd_factory. intros Hv. intros. split; [|split; [|split]].
  4:{ eapply vd_new_ok; try eassumption. left; reflexivity. }
  all: destruct (vd_new_shape _ _ _ _ _ _ _ _ _ _ _ _ _ _ _ _ _ _ _ _ _ _ Hv)
         as (? & ? & ? & ? & ? & ? & ? & ? & ? & ? & ? & ? & -> & _ & _ & _ & _ & _ & _ & _ & _ & _ & _ & _ & _ & Hc);
       destruct Hc as [(Hc & _)|(_ & _ & -> & _)]; [discriminate Hc|reflexivity] || reflexivity.
Qed.

(* all three Joliet levels: UCS-2 (utf-16_be) identifiers, escape sequence %/@ %/C %/E *)
Corollary joliet_vd_factory_ok lvl sys vol ss sq lbs volset pub prep app cpr abs bib now xd rdate app_use xa v ext len :
  joliet_vd_factory lvl sys vol ss sq lbs volset pub prep app cpr abs bib now xd rdate app_use xa = Some v ->
  vddate_ok now = true -> vddate_ok xd = true -> length rdate = 7%nat ->
  0 <= sq -> ss <= 65535 -> 0 <= lbs <= 65535 -> u32 ext -> u32 len ->
  (lvl = 1 \/ lvl = 2 \/ lvl = 3) /\ vd_type v = 2 /\ vd_version v = 1 /\ vd_utf16 v = true /\
  vd_escape v = ljust 32 0 [37; 47; nth (Z.to_nat lvl) [0; 64; 67; 69] 0] /\
  vd_ok (vd_set_root_extent v ext len) = true.
Proof.
  unfold joliet_vd_factory. intros Hv Hnow Hxd Hrd Hsq Hss Hlbs Hext Hlen.
  destruct (lvl =? 1) eqn:L1; [|destruct (lvl =? 2) eqn:L2; [|destruct (lvl =? 3) eqn:L3; [|discriminate]]].
  all: pose proof (vd_new_ok _ _ _ _ _ _ _ _ _ _ _ _ _ _ _ _ _ _ _ _ _ v ext len Hv) as Hok;
       destruct (vd_new_shape _ _ _ _ _ _ _ _ _ _ _ _ _ _ _ _ _ _ _ _ _ _ Hv)
         as (? & ? & ? & ? & ? & ? & ? & ? & ? & ? & ? & ? & Ev & _ & _ & _ & _ & _ & _ & _ & _ & _ & _ & _ & _ & Hc);
       destruct Hc as [(Hc & _)|(_ & _ & Hu & He)]; [discriminate Hc|].
  - replace lvl with 1 by lia. split; [lia|]. rewrite Ev in *. cbn [vd_type vd_version vd_utf16 vd_escape].
    repeat split; try (subst; reflexivity). apply Hok; auto. right; left; reflexivity.
  - replace lvl with 2 by lia. split; [lia|]. rewrite Ev in *. cbn [vd_type vd_version vd_utf16 vd_escape].
    repeat split; try (subst; reflexivity). apply Hok; auto. right; right; left; reflexivity.
  - replace lvl with 3 by lia. split; [lia|]. rewrite Ev in *. cbn [vd_type vd_version vd_utf16 vd_escape].
    repeat split; try (subst; reflexivity). apply Hok; auto. right; right; right; reflexivity.
Qed.

(* ---- Volume Descriptor Set Terminator ----------------------------------------------------- *)
Theorem vdst_roundtrip : length record_vdst = 2048%nat /\ parse_vdst record_vdst = Some tt.
Proof. split; vm_compute; reflexivity. Qed.
(* parse tolerates version 0 and junk in the unused 2041 bytes; record() always writes version 1 *)
Example vdst_version0_accepted : parse_vdst ([255] ++ cd001 ++ [0] ++ repeat 7 2041) = Some tt.
Proof. vm_compute. reflexivity. Qed.

(* ---- Boot Record -------------------------------------------------------------------------- *)
Definition br_fields (b : bootrec) : list (list Z) :=
  [[VD_TYPE_BOOT_RECORD]; pack_s 5 cd001; [1]; pack_s 32 (br_sysid b); pack_s 32 (br_ident b);
   pack_s 1977 (br_sysuse b)].
Lemma br_layout b : map (@length Z) (br_fields b) = widths fmt_br_widths.
Proof. cbn [br_fields map]. rewrite !pack_s_length. reflexivity. Qed.

Theorem br_record_length b : length (record_br b) = 2048%nat.
Proof. change (record_br b) with (concat (br_fields b)). rewrite length_concat, br_layout. reflexivity. Qed.

Theorem br_roundtrip b : br_ok b = true -> parse_br (record_br b) = Some b.
Proof.
  unfold br_ok. intros H. split_andb H. len_hyps.
  change (record_br b) with (concat (br_fields b)). unfold parse_br.
  rewrite <- (br_layout b), split_concat_nil. unfold br_fields, fld. cbn [nth].
  rewrite (pack_s_exact 32), (pack_s_exact 32), (pack_s_exact 1977) by assumption.
  destruct b; reflexivity.
Qed.

Theorem br_new_ok id : (length id <= 32)%nat -> br_ok (br_new id) = true.
Proof.
  intros H. unfold br_ok, br_new. cbn [br_sysid br_ident br_sysuse].
  rewrite !len_is_true; [reflexivity|apply repeat_length|apply repeat_length|].
  rewrite ljust_length. lia.
Qed.

Theorem br_update_ok b u b' : br_ok b = true -> br_update_boot_system_use b u = Some b' ->
  br_ok b' = true /\ br_sysuse b' = u /\ br_sysid b' = br_sysid b /\ br_ident b' = br_ident b.
Proof.
  unfold br_ok, br_update_boot_system_use. intros H. split_andb H.
  destruct (len_is 1977 u) eqn:E; [|discriminate]. cbn [negb]. intros E'. apply some_inv in E'. subst b'.
  cbn [br_sysid br_ident br_sysuse]. rewrite H, E. repeat split; try reflexivity.
  match goal with Hz : len_is 32 (br_ident b) = true |- _ => rewrite Hz end. reflexivity.
Qed.

Print Assumptions vddate_roundtrip.
Print Assumptions vddate_new_roundtrip.
Print Assumptions encode_space_pad_length.
Print Assumptions root_roundtrip.
Print Assumptions record_vd_length.
Print Assumptions vd_roundtrip.
Print Assumptions vd_roundtrip_moddate_refuted.
Print Assumptions vd_new_ok.
Print Assumptions vd_new_record_needs_extent.
Print Assumptions pvd_factory_ok.
Print Assumptions enhanced_vd_factory_ok.
Print Assumptions joliet_vd_factory_ok.
Print Assumptions vdst_roundtrip.
Print Assumptions br_roundtrip.
Print Assumptions br_new_ok.
Print Assumptions br_update_ok.
