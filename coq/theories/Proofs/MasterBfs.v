(* Master, part 3: facts about PathTable's breadth-first walk that the directory area needs, for
   EVERY tree (induction over the queue with PathTableLemmas.go_ind):
     ms_bfs_complete    every position of the tree is visited
     ms_bfs_nodup       no position is visited twice
     ms_ext_at_spec     the extent looked up at a position is the extent of a visited record there
     ms_bfs_bounds      every record lies in [start, assign_end)
     ms_bfs_disjoint    records at different positions do not overlap *)
From Coq Require Import ZArith List Bool Lia ZifyBool.
From PV.Base Require Import Prim ListX.
From PV.Gen Require Import GenConst GenFun.
From PV.Model Require Import Codec Pack PathTable Master.
From PV.Proofs Require Import PathTableLemmas PathTableProofs.
Import ListNotations.
Local Open Scope Z_scope.

Lemma ms_pos_eqb_eq a : forall b, ms_pos_eqb a b = true <-> a = b.
Proof.
  induction a as [|x a IH]; intros [|y b]; cbn [ms_pos_eqb]; split; intros H;
    try reflexivity; try discriminate.
  - apply andb_prop in H. destruct H as [H1 H2]. apply Nat.eqb_eq in H1. apply IH in H2. congruence.
  - injection H as -> ->. rewrite Nat.eqb_refl. apply IH. reflexivity.
Qed.

(* ---- completeness ---------------------------------------------------------------------------- *)

Lemma ms_child_item ks : forall i pn pos path j k, nth_error ks j = Some k ->
  In (k, pn, pos ++ [(i + j)%nat], path ++ [tname k]) (child_items_from i ks pn pos path).
Proof.
  induction ks as [|k0 ks IH]; intros i pn pos path [|j] k H; cbn [nth_error] in H; try discriminate.
  - injection H as <-. left. rewrite Nat.add_0_r. reflexivity.
  - right. replace (i + S j)%nat with (S i + j)%nat by lia. apply IH. exact H.
Qed.

Lemma ms_go_complete f q idx cur : (qsize q <= f)%nat ->
  forall it s t', In it q -> subtree (itree it) s = Some t' ->
  exists r, In r (fst (go f q idx cur)) /\ d_pos r = ipos it ++ s.
Proof.
  revert f q idx cur.
  apply (go_ind (fun q idx cur res => forall it s t', In it q -> subtree (itree it) s = Some t' ->
           exists r, In r (fst res) /\ d_pos r = ipos it ++ s)).
  - intros idx cur it s t' [].
  - intros f nm bl ks pn pos path q idx cur Hf IH it s t' Hin Hs. cbn [fst].
    destruct Hin as [<-|Hin].
    + unfold itree, ipos in *. cbn [fst snd] in *. destruct s as [|j s].
      * eexists. split; [left; reflexivity|]. cbn [d_pos]. rewrite app_nil_r. reflexivity.
      * cbn [subtree tkids] in Hs. destruct (nth_error ks j) as [k|] eqn:Ej; [|discriminate].
        pose proof (ms_child_item ks 0%nat idx pos path j k Ej) as Hc. cbn [Nat.add] in Hc.
        destruct (IH (k, idx, pos ++ [j], path ++ [tname k]) s t') as (r & Hr & Hp).
        { apply in_or_app. right. exact Hc. }
        { exact Hs. }
        exists r. split; [right; exact Hr|]. rewrite Hp. unfold ipos. cbn [fst snd].
        rewrite <- app_assoc. reflexivity.
    + destruct (IH it s t') as (r & Hr & Hp); [apply in_or_app; left; exact Hin|exact Hs|].
      exists r. split; [right; exact Hr|exact Hp].
Qed.

Theorem ms_bfs_complete start T p t' : subtree T p = Some t' ->
  exists r, In r (bfs start T) /\ d_pos r = p.
Proof.
  destruct T as [nm bl ks]. rewrite bfs_unfold. destruct p as [|j s]; intros Hs.
  - eexists. split; [left; reflexivity|reflexivity].
  - cbn [subtree tkids] in Hs. destruct (nth_error ks j) as [k|] eqn:Ej; [|discriminate].
    pose proof (ms_child_item ks 0%nat 1 [] [] j k Ej) as Hc. cbn [Nat.add app] in Hc.
    destruct (ms_go_complete _ (child_items ks 1 [] []) 2 (start + bl) (le_n _)
                (k, 1, [j], [tname k]) s t' Hc Hs) as (r & Hr & Hp).
    exists r. split; [right; exact Hr|exact Hp].
Qed.

(* ---- no position twice ------------------------------------------------------------------------ *)

Definition ms_prefix (a b : list nat) : Prop := exists s, b = a ++ s.
Definition ms_incomp (a b : list nat) : Prop := ~ ms_prefix a b /\ ~ ms_prefix b a.

Fixpoint ms_pfree (l : list (list nat)) : Prop :=
  match l with
  | [] => True
  | a :: r => (forall b, In b r -> ms_incomp a b) /\ ms_pfree r
  end.

Lemma ms_pfree_app l1 : forall l2, ms_pfree l1 -> ms_pfree l2 ->
  (forall a b, In a l1 -> In b l2 -> ms_incomp a b) -> ms_pfree (l1 ++ l2).
Proof.
  induction l1 as [|a l1 IH]; intros l2 H1 H2 Hx; [exact H2|].
  destruct H1 as [Ha H1]. cbn [app ms_pfree]. split.
  - intros b Hb. apply in_app_or in Hb. destruct Hb as [Hb|Hb]; [apply Ha; exact Hb|].
    apply Hx; [left; reflexivity|exact Hb].
  - apply IH; [exact H1|exact H2|]. intros a' b Ha' Hb. apply Hx; [right; exact Ha'|exact Hb].
Qed.

Lemma ms_child_pos i ks pn pos path :
  map ipos (child_items_from i ks pn pos path) = map (fun j => pos ++ [j]) (seq i (length ks)).
Proof.
  revert i; induction ks as [|k ks IH]; intros i; [reflexivity|].
  cbn [child_items_from map length seq]. rewrite IH. reflexivity.
Qed.

Lemma ms_snoc_incomp pos i j : i <> j -> ms_incomp (pos ++ [i]) (pos ++ [j]).
Proof.
  intros Hij. split; intros [s Hs]; rewrite <- app_assoc in Hs; apply app_inv_head in Hs;
    cbn [app] in Hs; injection Hs as E _; congruence.
Qed.

Lemma ms_pfree_kids pos n : forall i, ms_pfree (map (fun j => pos ++ [j]) (seq i n)).
Proof.
  induction n as [|n IH]; intros i; [exact I|]. cbn [seq map ms_pfree]. split; [|apply IH].
  intros b Hb. apply in_map_iff in Hb. destruct Hb as (j & <- & Hj). apply in_seq in Hj.
  apply ms_snoc_incomp. lia.
Qed.

Lemma ms_prefix_snoc a pos j : ms_prefix a (pos ++ [j]) -> ms_prefix a pos \/ a = pos ++ [j].
Proof.
  intros [s Hs]. revert Hs. pattern s. apply rev_ind.
  - rewrite app_nil_r. intros ->. right. reflexivity.
  - intros x s' _ Hs. rewrite app_assoc in Hs. apply app_inj_tail in Hs. destruct Hs as [Hs _].
    left. exists s'. exact Hs.
Qed.

Lemma ms_length_prefix a b : ms_prefix a b -> (length a <= length b)%nat.
Proof. intros [s ->]. rewrite app_length. lia. Qed.

Lemma ms_go_nodup f q idx cur : (qsize q <= f)%nat -> ms_pfree (map ipos q) ->
  NoDup (map d_pos (fst (go f q idx cur))) /\
  (forall r, In r (fst (go f q idx cur)) -> exists it, In it q /\ ms_prefix (ipos it) (d_pos r)).
Proof.
  revert f q idx cur.
  apply (go_ind (fun q idx cur res => ms_pfree (map ipos q) ->
           NoDup (map d_pos (fst res)) /\
           (forall r, In r (fst res) -> exists it, In it q /\ ms_prefix (ipos it) (d_pos r)))).
  - intros idx cur _. split; [constructor|intros r []].
  - intros f nm bl ks pn pos path q idx cur Hf IH Hp. cbn [map ms_pfree] in Hp.
    unfold ipos at 1 in Hp. cbn [fst snd] in Hp. destruct Hp as [Hhead Hq].
    assert (Hnew : ms_pfree (map ipos (q ++ child_items ks idx pos path))).
    { rewrite map_app. unfold child_items. rewrite ms_child_pos.
      apply ms_pfree_app; [exact Hq|apply ms_pfree_kids|].
      intros a b Ha Hb. apply in_map_iff in Hb. destruct Hb as (j & <- & _).
      destruct (Hhead a Ha) as [H1 H2]. split.
      - intros Hpre. apply ms_prefix_snoc in Hpre. destruct Hpre as [Hpre | ->]; [exact (H2 Hpre)|].
        apply H1. exists [j]. reflexivity.
      - intros [s Hs]. apply H1. exists ([j] ++ s). rewrite app_assoc. exact Hs. }
    destruct (IH Hnew) as [Hnd Hpre]. cbn [fst map d_pos]. split.
    + constructor; [|exact Hnd]. intros Hin. apply in_map_iff in Hin.
      destruct Hin as (r & Hr & Hin). destruct (Hpre r Hin) as (it & Hit & Hpf).
      rewrite Hr in Hpf. apply in_app_or in Hit. destruct Hit as [Hit|Hit].
      * destruct (Hhead (ipos it) (in_map ipos _ _ Hit)) as [_ H2]. exact (H2 Hpf).
      * apply (in_map ipos) in Hit. unfold child_items in Hit. rewrite ms_child_pos in Hit.
        apply in_map_iff in Hit. destruct Hit as (j & Hj & _). rewrite <- Hj in Hpf.
        apply ms_length_prefix in Hpf. rewrite app_length in Hpf. cbn [length] in Hpf. lia.
    + intros r [<-|Hin].
      * eexists. split; [left; reflexivity|]. exists []. unfold ipos. cbn [fst snd d_pos].
        rewrite app_nil_r. reflexivity.
      * destruct (Hpre r Hin) as (it & Hit & Hpf). apply in_app_or in Hit.
        destruct Hit as [Hit|Hit]; [exists it; split; [right; exact Hit|exact Hpf]|].
        eexists. split; [left; reflexivity|]. unfold ipos at 1. cbn [fst snd].
        apply (in_map ipos) in Hit. unfold child_items in Hit. rewrite ms_child_pos in Hit.
        apply in_map_iff in Hit. destruct Hit as (j & Hj & _). rewrite <- Hj in Hpf.
        destruct Hpf as [s Hs]. exists ([j] ++ s). rewrite app_assoc. exact Hs.
Qed.

Theorem ms_bfs_nodup start T : NoDup (map d_pos (bfs start T)).
Proof.
  destruct T as [nm bl ks]. rewrite bfs_unfold. cbn [map d_pos].
  destruct (ms_go_nodup _ (child_items ks 1 [] []) 2 (start + bl) (le_n _)) as [Hnd Hpre].
  { unfold child_items. rewrite ms_child_pos. apply ms_pfree_kids. }
  constructor; [|exact Hnd]. intros Hin. apply in_map_iff in Hin. destruct Hin as (r & Hr & Hin).
  destruct (Hpre r Hin) as (it & Hit & Hpf). rewrite Hr in Hpf.
  apply (in_map ipos) in Hit. unfold child_items in Hit. rewrite ms_child_pos in Hit.
  apply in_map_iff in Hit. destruct Hit as (j & Hj & _). rewrite <- Hj in Hpf.
  apply ms_length_prefix in Hpf. cbn in Hpf. lia.
Qed.

(* ---- lookup ------------------------------------------------------------------------------------ *)

Theorem ms_ext_at_spec start T p t' : subtree T p = Some t' ->
  exists r, In r (bfs start T) /\ d_pos r = p /\ ms_ext_at (bfs start T) p = d_extent r /\
            d_name r = tname t' /\ d_blocks r = tblocks t'.
Proof.
  intros Hs. destruct (ms_bfs_complete start T p t' Hs) as (r0 & Hr0 & Hp0).
  unfold ms_ext_at. destruct (find _ (bfs start T)) as [r|] eqn:Ef.
  - apply find_some in Ef. destruct Ef as [Hin Heq]. apply ms_pos_eqb_eq in Heq.
    exists r. split; [exact Hin|]. split; [exact Heq|]. split; [reflexivity|].
    destruct (bfs_describes_tree start T r Hin) as (ks & Hd & _). rewrite Heq, Hs in Hd.
    injection Hd as ->. split; reflexivity.
  - exfalso. pose proof (find_none _ _ Ef r0 Hr0) as H. cbv beta in H.
    rewrite Hp0 in H. assert (ms_pos_eqb p p = true) by (apply ms_pos_eqb_eq; reflexivity). congruence.
Qed.

(* ---- bounds and disjointness ------------------------------------------------------------------- *)

Lemma ms_chain_upper e rs : Forall (fun r => 0 <= d_blocks r) rs -> chain e rs ->
  forall r, In r rs -> e <= d_extent r /\ d_extent r + d_blocks r <= e + sumZ (map d_blocks rs).
Proof.
  revert e; induction rs as [|x rs IH]; intros e Hf H r Hin; [destruct Hin|].
  apply Forall_cons_iff in Hf. destruct Hf as [Hx Hf]. destruct H as [He H].
  cbn [map]. rewrite sumZ_cons.
  assert (Hs : 0 <= sumZ (map d_blocks rs)).
  { clear -Hf. induction Hf as [|y l Hy _ IHl]; [cbn; lia|]. cbn [map]. rewrite sumZ_cons. lia. }
  destruct Hin as [<-|Hin]; [lia|]. specialize (IH _ Hf H r Hin). lia.
Qed.

Lemma ms_bfs_blocks_nonneg start T : blocks_okb T = true ->
  Forall (fun r => 0 <= d_blocks r) (bfs start T).
Proof.
  intros Hb. apply Forall_forall. intros r Hr.
  destruct (bfs_describes_tree _ _ _ Hr) as (ks & Hs & _).
  apply (blocks_ok_subtree _ _ _ Hb) in Hs. cbn [blocks_okb] in Hs. lia.
Qed.

Theorem ms_bfs_bounds start T r : blocks_okb T = true -> In r (bfs start T) ->
  start <= d_extent r /\ d_extent r + d_blocks r <= assign_end start T /\ 0 <= d_blocks r.
Proof.
  intros Hb Hr. destruct (extents_disjoint_consecutive start T) as (Hc & _ & He & _).
  pose proof (ms_bfs_blocks_nonneg start T Hb) as Hf.
  destruct (ms_chain_upper start _ Hf Hc r Hr) as [H1 H2].
  assert (Hs : sumZ (map d_blocks (bfs start T)) = tree_blocks T).
  { rewrite tree_blocks_sum, <- (bfs_sum (fun _ b => b) start T). reflexivity. }
  rewrite Forall_forall in Hf. specialize (Hf r Hr). rewrite He, <- Hs. lia.
Qed.

Theorem ms_bfs_disjoint start T r1 r2 : blocks_okb T = true ->
  In r1 (bfs start T) -> In r2 (bfs start T) -> d_pos r1 <> d_pos r2 ->
  d_extent r1 + d_blocks r1 <= d_extent r2 \/ d_extent r2 + d_blocks r2 <= d_extent r1.
Proof.
  intros Hb H1 H2 Hne. destruct (extents_disjoint_consecutive start T) as (_ & _ & _ & _ & Hd).
  specialize (Hd Hb). apply In_nth_error in H1. apply In_nth_error in H2.
  destruct H1 as [i Hi]. destruct H2 as [j Hj].
  destruct (Nat.lt_total i j) as [Hlt|[Heq|Hlt]].
  - left. exact (Hd i j r1 r2 Hlt Hi Hj).
  - exfalso. subst j. rewrite Hi in Hj. injection Hj as ->. apply Hne. reflexivity.
  - right. exact (Hd j i r2 r1 Hlt Hj Hi).
Qed.

Print Assumptions ms_bfs_complete.
Print Assumptions ms_bfs_nodup.
Print Assumptions ms_ext_at_spec.
Print Assumptions ms_bfs_bounds.
