(* MasterRR, part 2: ONE directory record with its continuation area.
     mrr_place_readable  every entry RockRidge.new places (either side) is of a kind the walker lemma covers
     mrr_su_facts        the recorder succeeds on the patched entries (link count, CE pointer); the System Use bytes
                         have exactly the length `place` counted: identifier part + area = pl_len <= 254, and the
                         continuation bytes have the length of the CE entry
     mrr_su_reads        the independent reader, given the record's System Use field (+ pad) and an image in which
                         the CE target holds the continuation bytes, returns the Rock Ridge name, mode, link count,
                         symlink target that were given (and SP skip / ER identifier on the root's first record) *)
From Coq Require Import ZArith List Bool Lia ZifyBool.
From PV.Base Require Import Prim.
From PV.Model Require Import Codec RREntries RRWalk RRPlace.
From PV.Model Require LongNames Master Account.
From PV.Model Require Import AccountRR MasterRR.
From PV.Proofs Require Import CodecProofs RREntriesProofs RRWalkProofs RRPlaceSLProofs RRPlaceProofs RRPlaceProofs2.
From PV.Proofs Require Import MasterRRWalk.
Import ListNotations.
Local Open Scope Z_scope.

(* ---- membership in RockRidge._record's output ---------------------------------------------------- *)
Lemma mrr_in_opt {A} (f : A -> su_entry) o e : In e (opt_list f o) -> exists a, o = Some a /\ e = f a.
Proof. destruct o as [a|]; cbn; [intros [<-|[]]; exists a; split; reflexivity|intros []]. Qed.
Lemma mrr_in_flag e' b e : In e (flag_list e' b) -> e = e'.
Proof. destruct b; cbn; [intros [<-|[]]; reflexivity|intros []]. Qed.

Ltac mrr_ents H :=
  unfold entries_list in H; rewrite !in_app_iff in H;
  repeat (destruct H as [H|H]);
  first [apply mrr_in_opt in H; destruct H as (? & ? & H)
        |apply mrr_in_flag in H
        |apply in_map_iff in H; destruct H as (? & H & _)];
  try discriminate H.

Lemma mrr_in_px E p : In (E_PX p) (entries_list E) -> px_record E = Some p.
Proof. intros H. mrr_ents H. injection H as ->. assumption. Qed.
Lemma mrr_in_ce E c : In (E_CE c) (entries_list E) -> ce_record E = Some c.
Proof. intros H. mrr_ents H. injection H as ->. assumption. Qed.
Lemma mrr_in_sp E k : In (E_SP k) (entries_list E) -> sp_record E = Some k.
Proof. intros H. mrr_ents H. injection H as ->. assumption. Qed.
Lemma mrr_in_er E x : In (E_ER x) (entries_list E) -> er_record E = Some x.
Proof. intros H. mrr_ents H. injection H as ->. assumption. Qed.

Lemma mrr_px_in E p : px_record E = Some p -> In (E_PX p) (entries_list E).
Proof. intros H. unfold entries_list. rewrite H, !in_app_iff. do 3 right. left. left. reflexivity. Qed.
Lemma mrr_ce_in E c : ce_record E = Some c -> In (E_CE c) (entries_list E).
Proof. intros H. unfold entries_list. rewrite H, !in_app_iff. do 12 right. left. left. reflexivity. Qed.
Lemma mrr_sp_in E k : sp_record E = Some k -> In (E_SP k) (entries_list E).
Proof. intros H. unfold entries_list. rewrite H, !in_app_iff. left. left. reflexivity. Qed.
Lemma mrr_er_in E x : er_record E = Some x -> In (E_ER x) (entries_list E).
Proof. intros H. unfold entries_list. rewrite H, !in_app_iff. do 10 right. left. left. reflexivity. Qed.

Lemma mrr_fm_flag {B} (g : su_entry -> list B) e b : g e = [] -> flat_map g (flag_list e b) = [].
Proof. intros H. destruct b; cbn; [rewrite H|]; reflexivity. Qed.
Lemma mrr_sl_of_entries E : sl_of (entries_list E) = sl_records E.
Proof.
  unfold entries_list, sl_of. rewrite !flat_map_app, !fm_opt by reflexivity.
  rewrite (fm_map _ E_NM), (fm_map _ E_ES), (fm_map _ E_AL), (fm_map _ E_PD), !mrr_fm_flag by reflexivity.
  cbn [app]. rewrite !app_nil_r. induction (sl_records E) as [|s l IH]; [reflexivity|].
  cbn [map flat_map app]. rewrite IH. reflexivity.
Qed.

(* ---- readability of what `place` creates ----------------------------------------------------------- *)
Lemma mrr_er_readable v : mrr_readable v (E_ER (er_of v)).
Proof. destruct v; vm_compute; repeat split. Qed.

Lemma mrr_side_readable i ws d nm sl ce : p_v i <> V_unset -> dates_ok i = true ->
  u32_ok (p_mode i) = true -> u8_ok (p_skip i) = true ->
  Forall nm_fine nm -> Forall sl_made sl -> Forall (fun r => sl_current_length r <= 255) sl ->
  (forall c, ce = Some c -> mrr_readable (p_v i) (E_CE c)) ->
  Forall (mrr_readable (p_v i)) (entries_list (side_entries i ws d nm sl ce)).
Proof.
  intros Hv Hd Hm Hs Hnm Hsl1 Hsl2 Hce. set (v := p_v i). rewrite side_list.
  repeat (apply Forall_app; split).
  - apply forall_opt. exact Hs.
  - apply forall_opt. apply ok_rr_flags.
  - apply Forall_forall. intros e He. apply in_map_iff in He. destruct He as (n & <- & Hn).
    exact (proj1 (Forall_forall _ _) Hnm n Hn).
  - apply forall_opt. exact (ok_px i Hv Hm).
  - apply Forall_forall. intros e He. apply in_map_iff in He. destruct He as (s & <- & Hn).
    split; [exact (proj1 (Forall_forall _ _) Hsl1 s Hn)|exact (proj1 (Forall_forall _ _) Hsl2 s Hn)].
  - apply forall_opt. exact (ok_tf i v Hd).
  - apply forall_opt. reflexivity.
  - apply forall_opt. reflexivity.
  - destruct (pickb (w_re ws) d); cbn [flag_list]; [|constructor]. constructor; [exact I|constructor].
  - apply forall_opt. apply mrr_er_readable.
  - destruct ce as [c|]; cbn [opt_list]; [|constructor]. constructor; [apply Hce; reflexivity|constructor].
Qed.

Theorem mrr_place_readable i r : place i = Some r -> input_ok i r ->
  Forall (mrr_readable (p_v i)) (entries_list (pl_dr r)) /\ Forall (mrr_readable (p_v i)) (entries_list (pl_ce r)).
Proof.
  intros H (H0 & Hm & Hs & Hc).
  destruct (place_pass i r H H0) as (hc & ws & nm_d & nm_c & sl_d & sl_c & F & _ & _ & Hv & Hd).
  destruct (sl_facts _ _ _ _ _ _ _ _ _ F) as (M & L & _ & _).
  apply Forall_app in M. apply Forall_app in L. destruct M as [M1 M2]. destruct L as [L1 L2].
  destruct (f_nm _ _ _ _ _ _ _ _ _ F) as (_ & N & _). apply Forall_app in N. destruct N as [N1 N2].
  split.
  - rewrite (f_dr _ _ _ _ _ _ _ _ _ F). apply mrr_side_readable; try assumption.
    intros c Ec. destruct hc; [|discriminate Ec]. apply some_inv in Ec. subst c. cbn. repeat split. exact Hc.
  - rewrite (f_ce _ _ _ _ _ _ _ _ _ F). apply mrr_side_readable; try assumption. discriminate.
Qed.

Lemma mrr_patch_readable v x e : mrr_readable v e ->
  u32_ok (rs_links x) = true -> u32_ok (rs_bl x) = true -> u32_ok (rs_off x) = true ->
  mrr_readable v (mrr_patch x e).
Proof.
  intros H Hl Hb Ho. destruct e; cbn [mrr_patch]; try exact H.
  - cbn [mrr_readable ce_bl ce_off ce_len] in *. destruct H as (_ & _ & H). repeat split; assumption.
  - cbn [mrr_readable] in *. unfold px_ok, u32_ok in *. cbn [px_mode px_links px_uid px_gid px_serial].
    destruct v; lia.
Qed.

Lemma mrr_readable_recok v e : mrr_readable v e -> recok v e.
Proof.
  destruct e; cbn [mrr_readable]; intros H; try contradiction;
    try (apply recok_of_ok; [exact H|intros ?; discriminate]).
  - apply recok_of_ok; [|intros ?; discriminate]. destruct H as (A & B & D). cbn [entry_ok]. rewrite A, B, D. reflexivity.
  - apply recok_of_ok; [exact (proj1 H)|intros ?; discriminate].
  - apply recok_sl; [exact (proj1 H)|exact (proj2 H)].
  - apply recok_of_ok; [apply ok_nm; exact H|intros ?; discriminate].
  - apply recok_of_ok; [reflexivity|intros ?; discriminate].
Qed.

Lemma mrr_slen_patch v x e : slen v (mrr_patch x e) = slen v e.
Proof. destruct e; reflexivity. Qed.
Lemma mrr_nm_list_patch x es : nm_list (map (mrr_patch x) es) = nm_list es.
Proof. induction es as [|e es IH]; [reflexivity|]. cbn [map nm_list flat_map]. fold (nm_list (map (mrr_patch x) es)).
  fold (nm_list es). rewrite IH. destruct e; reflexivity. Qed.
Lemma mrr_sl_of_patch x es : sl_of (map (mrr_patch x) es) = sl_of es.
Proof. induction es as [|e es IH]; [reflexivity|]. cbn [map sl_of flat_map]. fold (sl_of (map (mrr_patch x) es)).
  fold (sl_of es). rewrite IH. destruct e; reflexivity. Qed.

Lemma mrr_list_len v es bs : Forall (mrr_readable v) es -> record_list v es = Some bs -> (length es <= length bs)%nat.
Proof.
  intros H. revert bs. induction H as [|e es He _ IH]; intros bs Hr; [cbn; lia|].
  destruct (record_list_cons v e es bs Hr) as (b & bs' & Hb & Hbs & ->).
  destruct (mrr_shape_len e b (mrr_entry_shape v e b He Hb)) as [_ L]. specialize (IH bs' Hbs).
  rewrite app_length. cbn [length]. unfold zlen in L. lia.
Qed.

Lemma mrr_walk_list0 v es : Forall (mrr_readable v) es -> forall bs fuel a,
  record_list v es = Some bs -> (length es <= fuel)%nat -> mrr_su_walk fuel bs a = fold_left mrr_absorb_e es a.
Proof.
  intros H bs fuel a Hr Hf. rewrite <- (app_nil_r bs). apply (mrr_walk_list v es H bs [] fuel a Hr); [cbn; lia|exact Hf].
Qed.

(* ---- the reader's accumulator, up to the CE field --------------------------------------------------- *)
Definition mrr_same (a b : racc) : Prop :=
  ra_nm a = ra_nm b /\ ra_px a = ra_px b /\ ra_sl a = ra_sl b /\ ra_sp a = ra_sp b /\ ra_er a = ra_er b.
Lemma mrr_same_clear a : mrr_same (mrr_clear_ce a) a.
Proof. repeat split. Qed.
Lemma mrr_same_trans a b c : mrr_same a b -> mrr_same b c -> mrr_same a c.
Proof. intros (A1 & A2 & A3 & A4 & A5) (B1 & B2 & B3 & B4 & B5). repeat split; congruence. Qed.
Lemma mrr_same_fold es a b : mrr_same a b -> mrr_same (fold_left mrr_absorb_e es a) (fold_left mrr_absorb_e es b).
Proof.
  intros (A1 & A2 & A3 & A4 & A5). unfold mrr_same.
  rewrite !mrr_f_nm, !mrr_f_px, !mrr_f_sl, !mrr_f_sp, !mrr_f_er, A1, A2, A3, A4, A5. repeat split.
Qed.

Lemma mrr_su_read_unfold h img area a :
  mrr_su_read h img area a =
  let a1 := mrr_su_walk (length area) area (mrr_clear_ce a) in
  match ra_ce a1 with
  | None => Some a1
  | Some (bl, off, len) =>
      match h with
      | O => None
      | S h' =>
          match Master.ms_get_block img bl with
          | Some blk => if (0 <=? off) && (off + len <=? BS)
                        then mrr_su_read h' img (firstn (Z.to_nat len) (skipn (Z.to_nat off) blk)) a1
                        else None
          | None => None
          end
      end
  end.
Proof. destruct h; reflexivity. Qed.

(* one kind that occurs at most once *)
Lemma mrr_fold_kind {B} (g : su_entry -> option B) es (b0 : B) (has : bool) :
  (forall e b, In e es -> g e = Some b -> has = true /\ b = b0) ->
  (has = true -> exists e, In e es /\ g e <> None) ->
  fold_left (mrr_upd g) es None = if has then Some b0 else None.
Proof.
  intros H1 H2. destruct has.
  - apply mrr_upd_all; [intros e b Hin Hg; exact (proj2 (H1 e b Hin Hg))|right; apply H2; reflexivity].
  - apply mrr_upd_none. intros e Hin. destruct (g e) as [b|] eqn:E; [|reflexivity].
    destruct (H1 e b Hin E) as [X _]. discriminate X.
Qed.

(* ---- one record -------------------------------------------------------------------------------------- *)
Section Rec.
  Variables (v : rrv) (dt : list Z) (x : rspec) (r : placed).
  Hypothesis Hpl : place (mrr_pin v dt x) = Some r.
  Hypothesis Hmode : u32_ok (rs_mode x) = true.
  Hypothesis Hlinks : u32_ok (rs_links x) = true.
  Hypothesis Hbl : u32_ok (rs_bl x) = true.
  Hypothesis Hoff : u32_ok (rs_off x) = true.
  Hypothesis Hcel : u32_ok (pl_celen r) = true.

  Local Notation i := (mrr_pin v dt x).
  Local Notation dr := (map (mrr_patch x) (entries_list (pl_dr r))).
  Local Notation ce := (map (mrr_patch x) (entries_list (pl_ce r))).

  Lemma mrr_drlen_nonneg : 0 <= Account.dr_len_of (rs_nm x).
  Proof. unfold Account.dr_len_of. pose proof (zlen_nonneg (rs_nm x)). cbv zeta. lia. Qed.

  Lemma mrr_input_ok : input_ok i r.
  Proof. split; [exact mrr_drlen_nonneg|]. split; [exact Hmode|]. split; [reflexivity|exact Hcel]. Qed.

  Lemma mrr_rec_readable : Forall (mrr_readable v) dr /\ Forall (mrr_readable v) ce.
  Proof.
    destruct (mrr_place_readable i r Hpl mrr_input_ok) as [A B]. change (p_v i) with v in A, B.
    split; apply Forall_forall; intros e He; apply in_map_iff in He; destruct He as (e0 & <- & H0);
      apply mrr_patch_readable; try assumption; [exact (proj1 (Forall_forall _ _) A e0 H0)
                                                |exact (proj1 (Forall_forall _ _) B e0 H0)].
  Qed.

  Lemma mrr_sum_patch es : sumz (map (slen v) (map (mrr_patch x) es)) = sumz (map (slen v) es).
  Proof. induction es as [|e es IH]; [reflexivity|]. cbn [map sumz]. rewrite IH, mrr_slen_patch. reflexivity. Qed.

  Theorem mrr_su_facts : exists bd bc,
    record_list v dr = Some bd /\ record_list v ce = Some bc /\
    mrr_su v dt x = Some (bd, if is_some (ce_record (pl_dr r)) then Some bc else None) /\
    Account.dr_len_of (rs_nm x) + zlen bd = pl_len r /\ pl_len r <= 254 /\
    Account.dr_len_of (rs_nm x) + zlen bd <= new_dr_len_of r <= 254 /\ new_dr_len_of r mod 2 = 0 /\
    (is_some (ce_record (pl_dr r)) = true -> zlen bc = pl_celen r) /\
    (is_some (ce_record (pl_dr r)) = false -> bc = []).
  Proof.
    destruct mrr_rec_readable as [Rd Rc].
    assert (Kd : Forall (recok v) dr) by (eapply Forall_impl; [|exact Rd]; apply mrr_readable_recok).
    assert (Kc : Forall (recok v) ce) by (eapply Forall_impl; [|exact Rc]; apply mrr_readable_recok).
    destruct (record_ok _ _ Kd) as (bd & Ed & Zd). destruct (record_ok _ _ Kc) as (bc & Ec & Zc).
    rewrite mrr_sum_patch in Zd, Zc.
    destruct (place_records i r Hpl mrr_input_ok) as (bd0 & bc0 & E1 & E2 & Z1 & Z2).
    destruct (place_dr_fits i r Hpl mrr_input_ok) as (bd1 & E1' & F1 & F2 & F3 & F4).
    rewrite E1 in E1'. apply some_inv in E1'. subst bd1. change (p_v i) with v in *.
    change (p_dr_len i) with (Account.dr_len_of (rs_nm x)) in *.
    unfold area in Z1, Z2. rewrite <- Zd in Z1. rewrite <- Zc in Z2.
    exists bd, bc. split; [exact Ed|]. split; [exact Ec|].
    split; [unfold mrr_su; rewrite Hpl, Ed, Ec; reflexivity|].
    unfold ALLOWED_DR_SIZE in *. split; [lia|]. split; [lia|]. split; [lia|]. split; [exact F4|]. split.
    - intros Hc. destruct (ce_record (pl_dr r)) as [c|] eqn:Ece; [|discriminate Hc].
      destruct (place_ce_len i r c Hpl mrr_input_ok Ece) as (bc1 & E3 & _ & Z3 & _).
      change (p_v i) with v in E3. rewrite E2 in E3. apply some_inv in E3. subst bc1. lia.
    - intros Hc. destruct (ce_record (pl_dr r)) as [c|] eqn:Ece; [discriminate Hc|].
      destruct (place_complete i r Hpl mrr_drlen_nonneg) as (_ & _ & _ & _ & _ & _ & _ & _ & _ & _ & _ & _ & Hemp & _).
      rewrite (Hemp Ece) in Ec. apply some_inv in Ec. symmetry. exact Ec.
  Qed.

  (* what the reader's accumulator holds after the record's area and its continuation area *)
  Lemma mrr_vis_split : visible r = entries_list (pl_dr r) ++ entries_list (pl_ce r).
  Proof.
    unfold visible. destruct (ce_record (pl_dr r)) as [c|] eqn:Ece; [reflexivity|]. cbn [is_some].
    destruct (place_complete i r Hpl mrr_drlen_nonneg) as (_ & _ & _ & _ & _ & _ & _ & _ & _ & _ & _ & _ & Hemp & _).
    rewrite (Hemp Ece). reflexivity.
  Qed.

  Local Notation A := (fold_left mrr_absorb_e (map (mrr_patch x) (visible r)) racc0).

  Lemma mrr_A_name : LongNames.nm_join (ra_nm A) = rs_rr x.
  Proof.
    rewrite mrr_f_nm, mrr_nm_list_patch. cbn [ra_nm racc0 app].
    exact (place_reads_name i r Hpl mrr_drlen_nonneg).
  Qed.

  Lemma mrr_A_target : LongNames.sl_reassemble (ra_sl A) = rs_target x.
  Proof.
    rewrite mrr_f_sl, mrr_sl_of_patch. cbn [ra_sl racc0 app].
    destruct (rs_target x) as [|c t] eqn:Et.
    - destruct (place_complete i r Hpl mrr_drlen_nonneg) as (_ & _ & _ & _ & _ & _ & _ & _ & _ & _ & _ & _ & _ & Hs).
      destruct Hs as [S1 S2]; [unfold target_of; cbn [p_target mrr_pin]; rewrite Et; reflexivity|].
      rewrite mrr_vis_split. unfold sl_of. rewrite flat_map_app.
      fold (sl_of (entries_list (pl_dr r))). fold (sl_of (entries_list (pl_ce r))).
      rewrite !mrr_sl_of_entries, S1, S2. reflexivity.
    - apply (place_reads_target i r (c :: t) Hpl mrr_drlen_nonneg); [cbn [p_target mrr_pin]; rewrite Et; reflexivity|discriminate].
  Qed.

  Lemma mrr_in_vis e : In e (visible r) <-> In e (entries_list (pl_dr r)) \/ In e (entries_list (pl_ce r)).
  Proof. rewrite mrr_vis_split. apply in_app_iff. Qed.

  Lemma mrr_A_px : ra_px A = Some (rs_mode x, rs_links x).
  Proof.
    rewrite mrr_f_px. cbn [ra_px racc0].
    destruct (place_complete i r Hpl mrr_drlen_nonneg) as (_ & Hpx & _).
    apply (mrr_fold_kind mrr_get_px _ (rs_mode x, rs_links x) true).
    - intros e b Hin Hg. split; [reflexivity|]. apply in_map_iff in Hin. destruct Hin as (e0 & <- & H0).
      destruct e0; try discriminate Hg. cbn [mrr_patch mrr_get_px px_mode px_links] in Hg. apply some_inv in Hg. subst b.
      apply mrr_in_vis in H0.
      assert (P : p = px_of i).
      { destruct H0 as [H0|H0]; apply mrr_in_px in H0; destruct Hpx as [[P1 P2]|[P1 P2]]; congruence. }
      subst p. reflexivity.
    - intros _. exists (mrr_patch x (E_PX (px_of i))). split; [|discriminate].
      apply in_map. apply mrr_in_vis. destruct Hpx as [[P1 _]|[_ P2]]; [left|right]; apply mrr_px_in; assumption.
  Qed.

  Lemma mrr_A_sp : ra_sp A = if rs_first x then Some 0 else None.
  Proof.
    rewrite mrr_f_sp. cbn [ra_sp racc0].
    destruct (place_complete i r Hpl mrr_drlen_nonneg) as (_ & _ & _ & Hsp & _).
    cbn [p_first p_skip mrr_pin] in Hsp. apply mrr_fold_kind.
    - intros e b Hin Hg. apply in_map_iff in Hin. destruct Hin as (e0 & <- & H0).
      destruct e0; try discriminate Hg. cbn [mrr_patch mrr_get_sp] in Hg. apply some_inv in Hg. subst b.
      apply mrr_in_vis in H0. unfold placed_as in Hsp.
      destruct (rs_first x); [split; [reflexivity|]|exfalso].
      + destruct H0 as [H0|H0]; apply mrr_in_sp in H0; destruct Hsp as [[P1 P2]|[P1 P2]]; congruence.
      + destruct Hsp as [P1 P2]. destruct H0 as [H0|H0]; apply mrr_in_sp in H0; congruence.
    - intros Hf. rewrite Hf in Hsp. exists (E_SP 0). split; [|discriminate].
      change (E_SP 0) with (mrr_patch x (E_SP 0)). apply in_map. apply mrr_in_vis.
      destruct Hsp as [[P1 _]|[_ P2]]; [left|right]; apply mrr_sp_in; assumption.
  Qed.

  Lemma mrr_A_er : ra_er A = if rs_first x then Some (er_id (er_of v)) else None.
  Proof.
    rewrite mrr_f_er. cbn [ra_er racc0].
    destruct (place_complete i r Hpl mrr_drlen_nonneg) as (_ & _ & _ & _ & Her & _).
    cbn [p_first p_v mrr_pin] in Her. apply mrr_fold_kind.
    - intros e b Hin Hg. apply in_map_iff in Hin. destruct Hin as (e0 & <- & H0).
      destruct e0; try discriminate Hg. cbn [mrr_patch mrr_get_er] in Hg. apply some_inv in Hg. subst b.
      apply mrr_in_vis in H0. unfold placed_as in Her.
      destruct (rs_first x); [split; [reflexivity|]|exfalso].
      + destruct H0 as [H0|H0]; apply mrr_in_er in H0; destruct Her as [[P1 P2]|[P1 P2]]; congruence.
      + destruct Her as [P1 P2]. destruct H0 as [H0|H0]; apply mrr_in_er in H0; congruence.
    - intros Hf. rewrite Hf in Her. exists (E_ER (er_of v)). split; [|discriminate].
      change (E_ER (er_of v)) with (mrr_patch x (E_ER (er_of v))). apply in_map. apply mrr_in_vis.
      destruct Her as [[P1 _]|[_ P2]]; [left|right]; apply mrr_er_in; assumption.
  Qed.

  (* the CE pointer the reader finds in the record's own area *)
  Lemma mrr_dr_ce a : ra_ce (fold_left mrr_absorb_e dr (mrr_clear_ce a)) =
    if is_some (ce_record (pl_dr r)) then Some (rs_bl x, rs_off x, pl_celen r) else None.
  Proof.
    rewrite mrr_f_ce. cbn [ra_ce mrr_clear_ce]. apply mrr_fold_kind.
    - intros e b Hin Hg. apply in_map_iff in Hin. destruct Hin as (e0 & <- & H0).
      destruct e0; try discriminate Hg. cbn [mrr_patch mrr_get_ce ce_bl ce_off ce_len] in Hg.
      apply some_inv in Hg. subst b. apply mrr_in_ce in H0. rewrite H0. split; [reflexivity|].
      destruct (place_ce_len i r c Hpl mrr_input_ok H0) as (bc1 & _ & -> & Z3 & _). cbn [ce_len]. rewrite Z3. reflexivity.
    - intros Hc. destruct (ce_record (pl_dr r)) as [c|] eqn:Ece; [|discriminate Hc].
      exists (mrr_patch x (E_CE c)). split; [apply in_map, mrr_ce_in, Ece|discriminate].
  Qed.
  Lemma mrr_ce_noce a : ra_ce (fold_left mrr_absorb_e ce (mrr_clear_ce a)) = None.
  Proof.
    rewrite mrr_f_ce. cbn [ra_ce mrr_clear_ce]. apply mrr_upd_none. intros e Hin.
    apply in_map_iff in Hin. destruct Hin as (e0 & <- & H0). destruct e0; try reflexivity. exfalso.
    apply mrr_in_ce in H0.
    destruct (place_complete i r Hpl mrr_drlen_nonneg) as (_ & _ & _ & _ & _ & _ & _ & _ & _ & _ & _ & Hn & _).
    congruence.
  Qed.

  Theorem mrr_su_reads img tail bd bc :
    record_list v dr = Some bd -> record_list v ce = Some bc -> (length tail < 4)%nat ->
    (is_some (ce_record (pl_dr r)) = true ->
       exists blk, Master.ms_get_block img (rs_bl x) = Some blk /\ rs_off x + pl_celen r <= BS /\
                   firstn (Z.to_nat (pl_celen r)) (skipn (Z.to_nat (rs_off x)) blk) = bc) ->
    exists a, mrr_su_read mrr_hops img (bd ++ tail) racc0 = Some a /\
      LongNames.nm_join (ra_nm a) = rs_rr x /\ ra_px a = Some (rs_mode x, rs_links x) /\
      LongNames.sl_reassemble (ra_sl a) = rs_target x /\
      ra_sp a = (if rs_first x then Some 0 else None) /\
      ra_er a = (if rs_first x then Some (er_id (er_of v)) else None).
  Proof.
    intros Ed Ec Ht Hblk. destruct mrr_rec_readable as [Rd Rc].
    assert (G : exists a, mrr_su_read mrr_hops img (bd ++ tail) racc0 = Some a /\ mrr_same a A).
    { unfold mrr_hops. rewrite mrr_su_read_unfold. cbv zeta.
      rewrite (mrr_walk_list v _ Rd bd tail _ _ Ed Ht)
        by (rewrite app_length; pose proof (mrr_list_len v _ bd Rd Ed); lia).
      rewrite mrr_dr_ce. destruct (is_some (ce_record (pl_dr r))) eqn:Hc.
      - destruct (Hblk eq_refl) as (blk & Eb & Hfit & Esl). rewrite Eb.
        replace ((0 <=? rs_off x) && (rs_off x + pl_celen r <=? BS)) with true by (unfold u32_ok in Hoff; lia).
        rewrite Esl, mrr_su_read_unfold. cbv zeta.
        rewrite (mrr_walk_list0 v _ Rc bc _ _ Ec) by exact (mrr_list_len v _ bc Rc Ec).
        rewrite mrr_ce_noce. eexists. split; [reflexivity|].
        unfold visible. rewrite Hc, map_app, fold_left_app. apply mrr_same_fold.
        eapply mrr_same_trans; [apply mrr_same_clear|]. apply mrr_same_fold. apply mrr_same_clear.
      - eexists. split; [reflexivity|]. unfold visible. rewrite Hc, app_nil_r.
        apply mrr_same_fold. apply mrr_same_clear. }
    destruct G as (a & Ea & (S1 & S2 & S3 & S4 & S5)). exists a. split; [exact Ea|].
    rewrite S1, S2, S3, S4, S5. split; [exact mrr_A_name|]. split; [exact mrr_A_px|].
    split; [exact mrr_A_target|]. split; [exact mrr_A_sp|exact mrr_A_er].
  Qed.
End Rec.

Print Assumptions mrr_su_facts.
Print Assumptions mrr_su_reads.
