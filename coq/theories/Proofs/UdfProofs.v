(* Proofs about Model/Udf.v, part 1: UDFTag, UDFShortAD, UDFLongAD, UDFICBTag.
   (UDFFileIdentifierDescriptor is in Proofs/UdfFidProofs.v, UDFFileEntry in Proofs/UdfFeProofs.v.)

   Main results
     tag_record_length tag_roundtrip tag_roundtrip_exact        parse (record t body ++ body ++ rest)
     tag_record_verifies_partial / tag_record_verifies_refuted  the independent verify_tag accepts record()
                                                                iff desc_crc_length does not exceed the body
     tag_csum_detects_single_byte                               any one-byte change outside byte 4 is detected
     shortad_roundtrip_partial shortad_parse_loses_type shortad_roundtrip_refuted
     longad_roundtrip icb_roundtrip
   All closed under the global context (Print Assumptions at the end). *)
From Coq Require Import ZArith List Bool Lia ZifyBool.
From PV.Base Require Import Prim ListX.
From PV.Gen Require Import GenConst GenFun.
From PV.Model Require Import Codec Checksums Udf.
From PV.Proofs Require Import ChecksumsProofs ChecksumsArithProofs CodecProofs.
Import ListNotations.
Local Open Scope Z_scope.
Ltac Zify.zify_post_hook ::= Z.to_euclidean_division_equations.

(* a Python bytes object: Checksums.bytes (0 <= b < 256) *)
Notation zbytes := Checksums.bytes.

(* ---- generic ---- *)
Lemma u16_ok_spec v : u16_ok v = true -> u16 v.
Proof. unfold u16_ok, u16. lia. Qed.
Lemma u32_ok_spec v : u32_ok v = true -> u32 v.
Proof. unfold u32_ok, u32. lia. Qed.
Lemma u8_ok_spec v : u8_ok v = true -> 0 <= v <= 255.
Proof. unfold u8_ok. lia. Qed.

Lemma zbytes_app a b : zbytes a -> zbytes b -> zbytes (a ++ b).
Proof. intros Ha Hb. apply Forall_app; split; assumption. Qed.
Lemma zbytes_firstn n l : zbytes l -> zbytes (firstn n l).
Proof.
  unfold zbytes. rewrite !Forall_forall. intros H x Hx. apply H. eapply In_firstn; exact Hx.
Qed.
Lemma zbytes_repeat0 n : zbytes (repeat 0 n).
Proof. induction n; constructor; [lia|assumption]. Qed.
Lemma zbytes_le16 v : zbytes (le16 v).
Proof. repeat constructor; lia. Qed.
Lemma zbytes_le32 v : zbytes (le32 v).
Proof. repeat constructor; lia. Qed.
Lemma zbytes_one v : 0 <= v <= 255 -> zbytes [v].
Proof. intros H. repeat constructor; lia. Qed.
Lemma zbytes_pack_s n l : zbytes l -> zbytes (pack_s n l).
Proof. intros H. apply zbytes_app; [apply zbytes_firstn; exact H|apply zbytes_repeat0]. Qed.

Lemma zsum_cons x l : zsum (x :: l) = x + zsum l.
Proof. reflexivity. Qed.
Lemma zsum_app a b : zsum (a ++ b) = zsum a + zsum b.
Proof. induction a as [|x a IH]; cbn [app]; rewrite ?zsum_cons, ?IH; [reflexivity|lia]. Qed.

Lemma slice_at {A} (pre b post : list A) s e :
  s = zlen pre -> e = s + zlen b -> slice s e (pre ++ b ++ post) = b.
Proof.
  intros -> ->. unfold slice. rewrite to_nat_zlen, skipn_length_app.
  replace (Z.to_nat (zlen pre + zlen b - zlen pre)) with (length b) by (unfold zlen; lia).
  apply firstn_length_app.
Qed.
Lemma nth_error_at {A} (pre : list A) x post n :
  n = length pre -> nth_error (pre ++ x :: post) n = Some x.
Proof. intros ->. rewrite nth_error_app2, Nat.sub_diag by lia. reflexivity. Qed.

(* ---- (a) UDFTag ---- *)
Definition tag_hdr0 (t : utag) (cb : list Z) : list Z :=
  concat (tag_fields t 0 (crc_ccitt (firstn (Z.to_nat (tag_crc_byte_len t cb)) cb))
                     (tag_crc_byte_len t cb)).

Lemma tag_record_inv t cb r : tag_record t cb = Some r ->
  let n := tag_crc_byte_len t cb in
  let crc := crc_ccitt (firstn (Z.to_nat n) cb) in
  u16 (tg_ident t) /\ u16 (tg_version t) /\ u16 (tg_serial t) /\ u16 crc /\ u16 n /\
  u32 (tg_location t) /\
  r = concat (tag_fields t (udf_compute_csum (tag_hdr0 t cb)) crc n) /\
  udf_compute_csum r = udf_compute_csum (tag_hdr0 t cb).
Proof.
  unfold tag_record. cbv zeta.
  destruct (u16_ok (tg_ident t) && _ && _ && _ && _ && _) eqn:Hr; [|discriminate].
  intros H; apply some_inv in H. subst r.
  do 5 (apply andb_prop in Hr; let H2 := fresh "R" in destruct Hr as [Hr H2]).
  repeat (split; [first [apply u16_ok_spec | apply u32_ok_spec]; assumption|]).
  split; [reflexivity|]. apply udf_csum_indep. change (4 < 16)%nat. lia.
Qed.

Theorem tag_record_length t cb r : tag_record t cb = Some r -> length r = 16%nat.
Proof.
  intros H. destruct (tag_record_inv _ _ _ H) as (_ & _ & _ & _ & _ & _ & E & _). subst r. reflexivity.
Qed.

Lemma tag_record_zbytes t cb r : tag_record t cb = Some r -> zbytes r.
Proof.
  intros H. destruct (tag_record_inv _ _ _ H) as (_ & _ & _ & _ & _ & _ & E & _). subst r.
  pose proof (udf_csum_range (tag_hdr0 t cb)) as Hc.
  cbn [tag_fields concat app le16 le32]. repeat constructor; lia.
Qed.

Lemma tag_layout t c crc n : map (@length Z) (tag_fields t c crc n) = widths fmt_udf_tag_widths.
Proof. reflexivity. Qed.

(* the condition under which record() is self-consistent: desc_crc_length unset (new) or within the body *)
Definition tag_crclen_fits (t : utag) (cb : list Z) : Prop := tg_crclen t < 0 \/ tg_crclen t <= zlen cb.

Lemma tag_crc_byte_len_le t cb : tag_crclen_fits t cb -> 0 <= tag_crc_byte_len t cb <= zlen cb.
Proof.
  unfold tag_crclen_fits, tag_crc_byte_len. pose proof (zlen_nonneg cb).
  destruct (0 <=? tg_crclen t) eqn:E; lia.
Qed.

Lemma firstn_app_le {A} n (a b : list A) : (n <= length a)%nat -> firstn n (a ++ b) = firstn n a.
Proof.
  intros H. rewrite firstn_app. replace (n - length a)%nat with 0%nat by lia. apply app_nil_r.
Qed.

(* parse(record(body) + body + anything, extent): every field comes back; tag_location is replaced
   by [extent] whatever it was, desc_crc_length becomes the length actually recorded *)
Theorem tag_roundtrip t cb r rest ext :
  tag_record t cb = Some r -> (tg_version t = 2 \/ tg_version t = 3) -> tag_crclen_fits t cb ->
  tag_parse (r ++ cb ++ rest) ext =
  Some (mk_utag (tg_ident t) (tg_version t) (tg_serial t) ext (tag_crc_byte_len t cb)).
Proof.
  intros Hrec Hv Hfit. pose proof (tag_crc_byte_len_le t cb Hfit) as Hn.
  pose proof (tag_record_length _ _ _ Hrec) as Hlen.
  destruct (tag_record_inv _ _ _ Hrec) as (Hi & Hver & Hs & Hcrc & Hn16 & Hloc & E & Hcs).
  cbv zeta in *. set (n := tag_crc_byte_len t cb) in *.
  set (crc := crc_ccitt (firstn (Z.to_nat n) cb)) in *.
  set (c := udf_compute_csum (tag_hdr0 t cb)) in *.
  unfold tag_parse. rewrite (firstn_app_exact 16) by exact Hlen.
  rewrite Hcs. rewrite E at 1. rewrite <- (tag_layout t c crc n), split_concat.
  cbn [tag_fields]. unfold d8. cbn [nth].
  rewrite !le16_dle16, le32_dle32 by assumption.
  replace (slice 16 (16 + n) (r ++ cb ++ rest)) with (firstn (Z.to_nat n) cb).
  2:{ unfold slice. change (Z.to_nat 16) with 16%nat. rewrite (skipn_app_exact 16) by exact Hlen.
      replace (Z.to_nat (16 + n - 16)) with (Z.to_nat n) by lia.
      symmetry. apply firstn_app_le. unfold zlen in Hn. lia. }
  replace (zlen (r ++ cb ++ rest) - 16 <? n) with false.
  2:{ rewrite !zlen_app. pose proof (zlen_nonneg rest). unfold zlen at 1. rewrite Hlen. lia. }
  fold crc. rewrite !Z.eqb_refl. cbn [negb].
  replace ((tg_version t =? 2) || (tg_version t =? 3)) with true by lia. cbn [negb].
  f_equal. f_equal. destruct (tg_location t =? ext) eqn:El; cbn [negb]; lia.
Qed.

(* the exact parse(record x) = x form *)
Corollary tag_roundtrip_exact t cb r rest :
  tag_record t cb = Some r -> (tg_version t = 2 \/ tg_version t = 3) -> tg_crclen t = zlen cb ->
  tag_parse (r ++ cb ++ rest) (tg_location t) = Some t.
Proof.
  intros Hrec Hv Hc. rewrite (tag_roundtrip t cb r rest _ Hrec Hv) by (right; lia).
  unfold tag_crc_byte_len. pose proof (zlen_nonneg cb).
  replace (0 <=? tg_crclen t) with true by lia. destruct t; reflexivity.
Qed.

(* a tag made by new() records the whole body: DescriptorCRCLength = len(body) *)
Lemma tag_new_crclen ident serial loc cb :
  tag_crc_byte_len (mk_utag ident 2 serial loc (-1)) cb = zlen cb.
Proof. reflexivity. Qed.

Lemma zsum_without4 l : (4 < length l)%nat ->
  zsum (firstn 4 l) + zsum (skipn 5 l) = zsum l - znth 4 l.
Proof.
  intros H. destruct l as [|a [|b [|c [|d [|e r]]]]]; cbn [length] in H; try lia.
  change (znth 4 (a :: b :: c :: d :: e :: r)) with e.
  cbn [firstn skipn]. rewrite !zsum_cons. change (zsum []) with 0. lia.
Qed.

(* record() passes the independent verifier (checksum over bytes 0-3,5-15; bitwise CRC-16 over the
   DescriptorCRCLength bytes after the tag) *)
Theorem tag_record_verifies_partial t cb r :
  zbytes cb -> tag_record t cb = Some r -> tag_crclen_fits t cb ->
  verify_tag (r ++ cb) = true.
Proof.
  intros Hb Hrec Hfit. pose proof (tag_crc_byte_len_le t cb Hfit) as Hn.
  pose proof (tag_record_length _ _ _ Hrec) as Hlen.
  destruct (tag_record_inv _ _ _ Hrec) as (_ & _ & _ & Hcrc & Hn16 & _ & E & Hcs).
  cbv zeta in *. set (n := tag_crc_byte_len t cb) in *.
  set (c := udf_compute_csum (tag_hdr0 t cb)) in *.
  unfold verify_tag. cbv zeta.
  rewrite (firstn_app_exact 16) by exact Hlen. rewrite (skipn_app_exact 16) by exact Hlen.
  rewrite zsum_without4 by lia. rewrite <- udf_csum_unfold, Hcs. fold c.
  rewrite <- crc_ccitt_spec.
  2:{ apply zbytes_firstn. exact Hb. }
  rewrite Hlen, zlen_app. unfold zlen at 1. rewrite Hlen.
  rewrite E. cbn [tag_fields concat app le16 le32 nth].
  unfold u16 in *.
  replace (n mod 256 + 256 * (n / 256 mod 256)) with n by lia.
  rewrite Nat.eqb_refl. cbn [andb].
  rewrite Z.eqb_refl. cbn [andb].
  replace (n <=? 16 + zlen cb - 16) with true by lia. cbn [andb].
  fold n. lia.
Qed.

(* for every tag created by new() (any ident / serial / location that struct.pack accepts) *)
Corollary tag_new_record_verifies ident serial loc cb r :
  zbytes cb -> tag_record (mk_utag ident 2 serial loc (-1)) cb = Some r -> verify_tag (r ++ cb) = true.
Proof. intros Hb Hr. apply (tag_record_verifies_partial _ cb r Hb Hr). left. cbn. lia. Qed.

(* record() exists for every body shorter than 65536 bytes *)
Lemma tag_record_total ident serial loc cb :
  zbytes cb -> zlen cb < 65536 -> u16 ident -> u16 serial -> u32 loc ->
  exists r, tag_record (mk_utag ident 2 serial loc (-1)) cb = Some r.
Proof.
  intros Hb Hl Hi Hs Hloc. unfold tag_record. cbv zeta. rewrite tag_new_crclen.
  cbn [tg_ident tg_version tg_serial tg_location].
  pose proof (crc_ccitt_range (firstn (Z.to_nat (zlen cb)) cb) (zbytes_firstn _ _ Hb)) as Hc.
  pose proof (zlen_nonneg cb). unfold u16, u32 in *.
  replace (u16_ok ident && u16_ok 2 && u16_ok serial &&
           u16_ok (crc_ccitt (firstn (Z.to_nat (zlen cb)) cb)) && u16_ok (zlen cb) && u32_ok loc)
    with true by (unfold u16_ok, u32_ok; lia).
  eexists; reflexivity.
Qed.

(* a parsed tag whose desc_crc_length exceeds the new body records a CRC length it did not cover *)
Theorem tag_record_verifies_refuted :
  exists t cb r, zbytes cb /\ tag_record t cb = Some r /\ verify_tag (r ++ cb) = false /\
                 tag_parse (r ++ cb) (tg_location t) = None.
Proof.
  exists (mk_utag 257 2 0 7 50), (map Z.of_nat (seq 0 40)).
  eexists. split; [|split; [vm_compute; reflexivity|split; vm_compute; reflexivity]].
  apply Forall_forall. intros x Hx. apply in_map_iff in Hx. destruct Hx as (k & <- & Hk).
  apply in_seq in Hk. lia.
Qed.

(* single-byte alteration of the header *)
Lemma zsum_set_nth i v l : (i < length l)%nat -> zsum (set_nth i v l) = zsum l - nth i l 0 + v.
Proof.
  unfold set_nth. revert l; induction i as [|i IH]; intros [|x l] H; cbn [length] in H; try lia.
  - cbn [firstn skipn app nth]. rewrite !zsum_cons. lia.
  - cbn [firstn skipn app nth]. rewrite !zsum_cons. rewrite IH by lia. lia.
Qed.
Lemma nth_set_nth_other i j v l : (i < length l)%nat -> i <> j -> nth j (set_nth i v l) 0 = nth j l 0.
Proof.
  unfold set_nth. revert j l; induction i as [|i IH]; intros j [|x l] H Hne; cbn [length] in H; try lia.
  - destruct j; [lia|]. reflexivity.
  - destruct j; [reflexivity|]. cbn [firstn skipn app nth]. apply IH; lia.
Qed.

Theorem tag_csum_detects_single_byte hdr i v :
  length hdr = 16%nat -> tag_csum_ok hdr = true ->
  (i < 16)%nat -> i <> 4%nat -> 0 <= nth i hdr 0 < 256 -> 0 <= v < 256 -> v <> nth i hdr 0 ->
  tag_csum_ok (set_nth i v hdr) = false.
Proof.
  unfold tag_csum_ok. intros Hl Hok Hi H4 Ho Hv Hne.
  rewrite udf_csum_unfold in *. unfold znth in *. change (Z.to_nat 4) with 4%nat in *.
  rewrite zsum_set_nth, nth_set_nth_other by lia. lia.
Qed.

(* ---- (b) allocation descriptors ---- *)
Lemma land_low30 x : 0 <= x <= 1073741823 -> Z.land x 1073741823 = x.
Proof. intros H. change 1073741823 with (Z.ones 30). rewrite Z.land_ones by lia. apply Z.mod_small. lia. Qed.
Lemma land_hi_of_low30 x : Z.land (Z.land x 1073741823) 3221225472 = 0.
Proof. rewrite <- Z.land_assoc. change (Z.land 1073741823 3221225472) with 0. apply Z.land_0_r. Qed.

(* whatever the bytes, the parsed extent_type is 0: it is computed from the already masked length *)
Theorem shortad_parse_loses_type data a :
  shortad_parse data = Some a -> sa_type a = 0 /\ 0 <= sa_length a <= 1073741823.
Proof.
  unfold shortad_parse. destruct (split_widths _ data) as [[[|f0 [|f1 [|? ?]]] rest]|]; try discriminate.
  intros H; apply some_inv in H; subst a. cbn [sa_type sa_length].
  rewrite land_hi_of_low30. split; [reflexivity|].
  assert (E : Z.land (dle32 f0) 1073741823 = dle32 f0 mod 1073741824)
    by (change 1073741823 with (Z.ones 30); rewrite Z.land_ones by lia; reflexivity).
  rewrite E. lia.
Qed.

Lemma shortad_record_length a b : shortad_record a = Some b -> length b = 8%nat.
Proof.
  unfold shortad_record. cbv zeta. destruct (_ && _); [|discriminate].
  intros H; apply some_inv in H; subst b. reflexivity.
Qed.

Lemma shortad_parse_app v p rest : u32 v -> u32 p ->
  shortad_parse (le32 v ++ le32 p ++ rest) =
  Some (mk_shortad (Z.land v 1073741823) (Z.shiftr (Z.land (Z.land v 1073741823) 3221225472) 30) p).
Proof.
  intros Hv Hp. unfold shortad_parse.
  change (le32 v ++ le32 p ++ rest) with (concat [le32 v; le32 p] ++ rest).
  change (widths fmt_udf_shortad_widths) with (map (@length Z) [le32 v; le32 p]).
  rewrite split_concat, !le32_dle32 by assumption. reflexivity.
Qed.

Theorem shortad_roundtrip_partial a rest :
  sa_type a = 0 -> 0 <= sa_length a <= 1073741823 -> u32 (sa_pos a) ->
  exists b, shortad_record a = Some b /\ length b = 8%nat /\ shortad_parse (b ++ rest) = Some a.
Proof.
  intros Ht Hl Hp. destruct a as [l ty p]. cbn [sa_type sa_length sa_pos] in *. subst ty.
  unfold shortad_record. cbn [sa_type sa_length sa_pos]. change (Z.shiftl 0 30) with 0. rewrite Z.lor_0_r.
  unfold u32 in Hp.
  replace (u32_ok l && u32_ok p) with true by (unfold u32_ok; lia).
  eexists. split; [reflexivity|]. split; [reflexivity|].
  rewrite <- app_assoc, shortad_parse_app by (unfold u32; lia).
  rewrite land_hi_of_low30, land_low30 by lia. reflexivity.
Qed.

(* what does come back for a type 1..3 descriptor: the length and position, with the type cleared *)
Lemma land_lor_shift30 l ty : 0 <= l <= 1073741823 -> 0 <= ty ->
  Z.land (Z.lor l (Z.shiftl ty 30)) 1073741823 = l.
Proof.
  intros Hl Ht. rewrite Z.land_lor_distr_l, land_low30 by exact Hl.
  change 1073741823 with (Z.ones 30). rewrite Z.land_ones, Z.shiftl_mul_pow2 by lia.
  rewrite Z_mod_mult. apply Z.lor_0_r.
Qed.
Theorem shortad_parse_record_general a b rest :
  shortad_record a = Some b -> 0 <= sa_length a <= 1073741823 -> 0 <= sa_type a ->
  shortad_parse (b ++ rest) = Some (mk_shortad (sa_length a) 0 (sa_pos a)).
Proof.
  unfold shortad_record. cbv zeta. intros H Hl Ht.
  destruct (u32_ok _ && u32_ok _) eqn:Hr; [|discriminate]. apply some_inv in H. subst b.
  apply andb_prop in Hr. destruct Hr as [R1 R2]. apply u32_ok_spec in R1, R2.
  rewrite <- app_assoc, shortad_parse_app by assumption.
  rewrite land_hi_of_low30, land_lor_shift30 by assumption. reflexivity.
Qed.

(* UDFShortAD(extent_length=100, extent_type=1, log_block_num=9): record() = 64 00 00 40 09 00 00 00,
   parse() of that gives extent_type 0 (reproduced on the library) *)
Theorem shortad_roundtrip_refuted :
  exists a b, u32 (sa_length a) /\ 0 <= sa_type a <= 3 /\ shortad_record a = Some b /\
              shortad_parse b <> Some a.
Proof.
  exists (mk_shortad 100 1 9), [100; 0; 0; 64; 9; 0; 0; 0].
  split; [unfold u32; cbn; lia|]. split; [cbn; lia|]. split; [vm_compute; reflexivity|].
  vm_compute. discriminate.
Qed.

Lemma longad_layout a : map (@length Z) (longad_fields a) = widths fmt_udf_longad_widths.
Proof. cbn [longad_fields map]. rewrite pack_s_length. reflexivity. Qed.

Lemma longad_record_length a b : longad_record a = Some b -> length b = 16%nat.
Proof.
  unfold longad_record. destruct (_ && _); [|discriminate]. intros H; apply some_inv in H; subst b.
  rewrite length_concat, longad_layout. reflexivity.
Qed.

Theorem longad_roundtrip a b rest :
  longad_record a = Some b -> length (la_impl a) = 6%nat ->
  length b = 16%nat /\ longad_parse (b ++ rest) = Some a.
Proof.
  intros Hrec Hi. split; [eapply longad_record_length; exact Hrec|].
  unfold longad_record in Hrec. destruct (_ && _) eqn:Hr; [|discriminate].
  apply some_inv in Hrec; subst b.
  apply andb_prop in Hr. destruct Hr as [Hr R3]. apply andb_prop in Hr. destruct Hr as [R1 R2].
  apply u32_ok_spec in R1, R2. apply u16_ok_spec in R3.
  unfold longad_parse. rewrite <- (longad_layout a), split_concat. cbn [longad_fields].
  rewrite !le32_dle32, le16_dle16, pack_s_exact by assumption. destruct a; reflexivity.
Qed.

Lemma longad_parse_record a b : longad_record a = Some b -> length (la_impl a) = 6%nat ->
  longad_parse b = Some a.
Proof. intros H Hi. rewrite <- (app_nil_r b). apply (longad_roundtrip a b [] H Hi). Qed.

Lemma longad_record_total a : u32 (la_length a) -> u32 (la_pos a) -> u16 (la_part a) ->
  exists b, longad_record a = Some b.
Proof.
  unfold u32, u16, longad_record. intros H1 H2 H3.
  replace (u32_ok (la_length a) && u32_ok (la_pos a) && u16_ok (la_part a)) with true
    by (unfold u32_ok, u16_ok; lia).
  eexists; reflexivity.
Qed.

Lemma longad_set_loc_impl a nl tl a' : longad_set_loc a nl tl = Some a' -> length (la_impl a') = 6%nat.
Proof.
  unfold longad_set_loc. destruct (u32_ok nl); [|discriminate].
  intros H; apply some_inv in H; subst a'. reflexivity.
Qed.

Lemma longad_record_zbytes a b : longad_record a = Some b -> zbytes (la_impl a) -> zbytes b.
Proof.
  unfold longad_record. destruct (_ && _); [|discriminate]. intros H Hb; apply some_inv in H; subst b.
  cbn [longad_fields concat]. rewrite app_nil_r.
  repeat apply zbytes_app;
    first [apply zbytes_le32 | apply zbytes_le16 | apply zbytes_firstn; exact Hb | apply zbytes_repeat0].
Qed.

(* ---- (c) UDFICBTag ---- *)
Lemma icb_layout i : map (@length Z) (icb_fields i) = widths fmt_udf_icbtag_widths.
Proof. reflexivity. Qed.

Theorem icb_roundtrip i b rest :
  icb_record i = Some b -> (it_strategy_type i = 4 \/ it_strategy_type i = 4096) ->
  length b = 20%nat /\ icb_parse (b ++ rest) = Some i.
Proof.
  unfold icb_record. intros Hrec Hs.
  destruct (u32_ok (it_prior i) && _ && _ && _ && _ && _ && _ && _) eqn:Hr; [|discriminate].
  apply some_inv in Hrec; subst b. split; [reflexivity|].
  do 7 (apply andb_prop in Hr; let H2 := fresh "R" in destruct Hr as [Hr H2]).
  apply u32_ok_spec in Hr, R1. apply u16_ok_spec in R, R0, R3, R4, R5.
  unfold icb_parse. rewrite <- (icb_layout i), split_concat. cbn [icb_fields].
  rewrite !le16_dle16, le32_dle32 by assumption. unfold d8. cbn [nth].
  replace ((it_strategy_type i =? 4) || (it_strategy_type i =? 4096)) with true by lia.
  cbn [negb Z.eqb].
  rewrite pack_s_exact by reflexivity. unfold lbaddr_parse.
  change (le32 (it_parent_lbn i) ++ le16 (it_parent_prn i))
    with (concat [le32 (it_parent_lbn i); le16 (it_parent_prn i)] ++ []).
  change (widths fmt_udf_lbaddr_widths)
    with (map (@length Z) [le32 (it_parent_lbn i); le16 (it_parent_prn i)]).
  rewrite split_concat, le32_dle32, le16_dle16 by assumption. destruct i; reflexivity.
Qed.

(* new(): every file type yields a recordable, parseable ICB tag *)
Lemma icb_new_roundtrip ft i : icb_new ft = Some i ->
  exists b, icb_record i = Some b /\ length b = 20%nat /\ icb_parse b = Some i.
Proof.
  unfold icb_new. intros H.
  destruct (ft =? 0); [|destruct (ft =? 1); [|destruct (ft =? 2); [|discriminate]]];
    apply some_inv in H; subst i; eexists; (split; [reflexivity|split; reflexivity]).
Qed.

(* ---- non-vacuity: bytes obtained from the library (PYTHONPATH=/repo) ---- *)
(* t = UDFTag(); t.new(257, 0); t.tag_location = 5; t.record(bytes(range(40))) *)
Definition ex_body40 : list Z := map Z.of_nat (seq 0 40).
Definition ex_tag_bytes : list Z := [1; 1; 2; 0; 97; 0; 0; 0; 175; 129; 40; 0; 5; 0; 0; 0].
Example ex_tag : check_tag_case 257 0 5 ex_body40 ex_tag_bytes = true /\ verify_tag (ex_tag_bytes ++ ex_body40) = true /\
  tag_parse (ex_tag_bytes ++ ex_body40) 7 = Some (mk_utag 257 2 0 7 40).
Proof. repeat split; vm_compute; reflexivity. Qed.
(* struct.error ('H' format) for ident 70000; a wrong expected byte is reported *)
Example ex_tag_bad : bad_tag_cases 0 [(257, 0, 5, ex_body40, ex_tag_bytes); (70000, 0, 0, [1; 2; 3], []);
                                      (257, 0, 6, ex_body40, ex_tag_bytes)] = [2%nat].
Proof. vm_compute. reflexivity. Qed.

Print Assumptions tag_roundtrip.
Print Assumptions tag_roundtrip_exact.
Print Assumptions tag_record_verifies_partial.
Print Assumptions tag_record_verifies_refuted.
Print Assumptions tag_record_total.
Print Assumptions tag_csum_detects_single_byte.
Print Assumptions shortad_roundtrip_partial.
Print Assumptions shortad_parse_loses_type.
Print Assumptions shortad_parse_record_general.
Print Assumptions shortad_roundtrip_refuted.
Print Assumptions longad_roundtrip.
Print Assumptions icb_roundtrip.
