(* The entry lengths that Model/RREntries.v, Model/RRPlace.v and Model/LongNames.v use are the static `length()`
   methods of /repo/pycdlib/rockridge.py as TRANSLATED on this run (Gen/GenRR.v): a change of one of those methods in
   the source changes the generated definition and breaks the matching lemma here. *)
From Coq Require Import ZArith List Bool Lia.
From PV.Base Require Import Prim PyBytes.
From PV.Gen Require Import GenConst GenRR.
From PV.Model Require Import Codec RREntries RRPlace.
Import ListNotations.
Local Open Scope Z_scope.

Lemma py_bytes_eqb_zlist_eqb a : forall b, py_bytes_eqb a b = zlist_eqb a b.
Proof. induction a as [|x a IH]; intros [|y b]; cbn [py_bytes_eqb zlist_eqb]; try reflexivity. Qed.

(* the version strings '1.09', '1.10', '1.12' *)
Definition rrv_str (v : rrv) : list Z :=
  match v with V109 => [49; 46; 48; 57] | V110 => [49; 46; 49; 48] | V112 => [49; 46; 49; 50] | V_unset => [] end.

Lemma rrgen_constants :
  len_sp = rr_sp_length /\ len_rr = rr_rr_length /\ len_ce = rr_ce_length /\ len_es = rr_es_length /\
  len_pn = rr_pn_length /\ len_link = rr_cl_length /\ len_link = rr_pl_length /\ len_re = rr_re_length /\
  len_re = rr_st_length.
Proof. repeat split; reflexivity. Qed.

Lemma rrgen_px v : len_px v = rr_px_length (rrv_str v).
Proof. destruct v; reflexivity. Qed.

Lemma rrgen_sf v : len_sf v = rr_sf_length (rrv_str v).
Proof. destruct v; reflexivity. Qed.

Lemma rrgen_er id des src : len_er id des src = rr_er_length id des src.
Proof. reflexivity. Qed.

Lemma rrgen_nm name : len_nm name = rr_nm_length name.
Proof. reflexivity. Qed.

Lemma rrgen_pd p : len_pd p = rr_pd_length p.
Proof. reflexivity. Qed.

Lemma rrgen_sl_component name : sl_comp_length name = rr_sl_component_length name.
Proof.
  unfold sl_comp_length, rr_sl_component_length, is_special, s_dot, s_dotdot, s_slash.
  repeat match goal with |- context [py_bytes_eqb ?a ?b] => change (py_bytes_eqb a b) with (zlist_eqb a b) end.
  destruct (zlist_eqb name [46] || zlist_eqb name [46; 46] || zlist_eqb name [47]); reflexivity.
Qed.

Lemma rrgen_sl_record names : len_sl names = fold_left (fun l n => l + rr_sl_component_length n) names rr_sl_header_length.
Proof.
  unfold len_sl, rr_sl_header_length. generalize 5. induction names as [|n ns IH]; intro a; cbn [fold_left]; [reflexivity|].
  rewrite rrgen_sl_component. apply IH.
Qed.

Lemma rrgen_al_component a : 2 + zlen a = rr_al_component_length a.
Proof. reflexivity. Qed.

Lemma rrgen_areas : rr_sl_max_component_area = 250 /\ rr_al_max_component_area = 250 /\ rr_sl_header_length = 5 /\ rr_al_header_length = 5.
Proof. repeat split; reflexivity. Qed.

Print Assumptions rrgen_sl_record.
