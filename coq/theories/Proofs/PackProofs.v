(* Proofs about Model/Pack.v: packing of directory records into logical blocks. *)
From Coq Require Import ZArith List Bool Lia ZifyBool Sorted.
From PV.Model Require Import Pack.
Import ListNotations.
Local Open Scope Z_scope.

Ltac gtb_case a b H := destruct (Z.gtb_spec a b) as [H|H].

Definition nonneg (ls : list Z) : Prop := Forall (fun x => 0 <= x) ls.
Definition sized (C : Z) (ls : list Z) : Prop := Forall (fun x => 0 < x <= C) ls.
Definition halfsized (C : Z) (ls : list Z) : Prop := Forall (fun x => 0 < x /\ 2 * x <= C) ls.

Lemma sized_nonneg C ls : sized C ls -> nonneg ls.
Proof. apply Forall_impl. intros x Hx. lia. Qed.

Lemma halfsized_sized C ls : halfsized C ls -> sized C ls.
Proof. apply Forall_impl. intros x Hx. lia. Qed.

(* 1. restarting the recomputation at an index                                                *)

Lemma nf_app C pre : forall n off post,
  nf C n off (pre ++ post) = nf C (fst (nf C n off pre)) (snd (nf C n off pre)) post.
Proof.
  induction pre as [|x r IH]; intros n off post; cbn [nf app fst snd].
  - reflexivity.
  - destruct ((off + x) >? C); apply IH.
Qed.

Lemma nf_pos_app C pre : forall n off post,
  nf_pos C n off (pre ++ post) =
  nf_pos C n off pre ++ nf_pos C (fst (nf C n off pre)) (snd (nf C n off pre)) post.
Proof.
  induction pre as [|x r IH]; intros n off post; cbn [nf nf_pos app fst snd].
  - reflexivity.
  - destruct ((off + x) >? C); rewrite IH; reflexivity.
Qed.

Lemma nf_pos_length C ls : forall n off, length (nf_pos C n off ls) = length ls.
Proof.
  induction ls as [|x r IH]; intros n off; cbn [nf_pos length].
  - reflexivity.
  - destruct ((off + x) >? C); cbn [length]; rewrite IH; reflexivity.
Qed.

Lemma cached_length C ls : length (cached C ls) = length ls.
Proof. apply nf_pos_length. Qed.

(* the pair cached in the last child of a (non-empty) prefix is the loop state reached there
   (Python reads children[index-1].extents_to_here / .offset_to_here when index <> 0) *)
Lemma nf_pos_snoc C pre y n off :
  nf_pos C n off (pre ++ [y]) = nf_pos C n off pre ++ [nf C n off (pre ++ [y])].
Proof.
  rewrite nf_pos_app, nf_app. destruct (nf C n off pre) as [m a]. cbn [fst snd nf nf_pos].
  destruct ((a + y) >? C); reflexivity.
Qed.

(* [nf_restart]: what _recalculate_extents_and_offsets(index) computes from the state cached in
   child index-1 is what a full recomputation (index = 0) computes. *)
Theorem nf_restart C pre post :
  nf C (fst (nf C 1 0 pre)) (snd (nf C 1 0 pre)) post = nf C 1 0 (pre ++ post).
Proof. symmetry. apply nf_app. Qed.

Theorem nf_pos_restart C pre post :
  cached C (pre ++ post) =
  cached C pre ++ nf_pos C (fst (nf C 1 0 pre)) (snd (nf C 1 0 pre)) post.
Proof. apply nf_pos_app. Qed.

(* same, phrased with the value actually read from the last child of the prefix pre ++ [y] *)
Theorem nf_restart_cached C pre y post :
  let st := last (cached C (pre ++ [y])) (1, 0) in
  nf C (fst st) (snd st) post = nf C 1 0 ((pre ++ [y]) ++ post) /\
  cached C ((pre ++ [y]) ++ post) = cached C (pre ++ [y]) ++ nf_pos C (fst st) (snd st) post.
Proof.
  intros st. assert (E : st = nf C 1 0 (pre ++ [y])).
  { unfold st, cached. rewrite nf_pos_snoc. apply last_last. }
  rewrite E. split; [apply nf_restart|apply nf_pos_restart].
Qed.

(* 2. every record lies inside one block, and records do not overlap                          *)

Definition lexle (n a m b : Z) : Prop := n < m \/ (n = m /\ a <= b).
Definition lexlt (n a m b : Z) : Prop := n < m \/ (n = m /\ a < b).

Definition t_e (t : Z * Z * Z) : Z := fst (fst t).
Definition t_o (t : Z * Z * Z) : Z := snd (fst t).
Definition t_x (t : Z * Z * Z) : Z := snd t.

(* record t (cached (e, o), length x) relative to a loop state (n, off) that precedes it *)
Definition okpos (C n off : Z) (t : Z * Z * Z) : Prop :=
  n <= t_e t /\ 0 < t_x t /\ t_x t <= t_o t <= C /\
  lexle n off (t_e t) (t_o t - t_x t) /\
  (n - 1) * C + off <= (t_e t - 1) * C + t_o t - t_x t.

(* record t1 ends before record t2 starts: in (extent, offset) lexicographic order and as
   absolute byte addresses *)
Definition before (C : Z) (t1 t2 : Z * Z * Z) : Prop :=
  lexlt (t_e t1) (t_o t1) (t_e t2) (t_o t2) /\
  lexle (t_e t1) (t_o t1) (t_e t2) (t_o t2 - t_x t2) /\
  (t_e t1 - 1) * C + t_o t1 <= (t_e t2 - 1) * C + t_o t2 - t_x t2.

Lemma nf_pos_ok C ls : sized C ls -> forall n off, 0 <= off <= C ->
  Forall (okpos C n off) (combine (nf_pos C n off ls) ls) /\
  StronglySorted (before C) (combine (nf_pos C n off ls) ls).
Proof.
  induction ls as [|x r IH]; intros HF n off Hoff; cbn [nf_pos combine].
  - split; constructor.
  - inversion HF as [|x' r' Hx Hr]; subst x' r'.
    gtb_case (off + x) C Ht; cbn [combine];
      [destruct (IH Hr (n + 1) (0 + x) ltac:(lia)) as [IHa IHb]
      |destruct (IH Hr n (off + x) ltac:(lia)) as [IHa IHb]].
    all: split; [constructor|constructor; [exact IHb|]].
    all: try (eapply Forall_impl; [|exact IHa]; intros t Hok).
    all: unfold okpos, before, lexle, lexlt, t_e, t_o, t_x in *; cbn [fst snd] in *; lia.
Qed.

(* [pack_inside]: the record of length x cached at (e, o) occupies bytes [o - x, o) of block e *)
Theorem pack_inside C ls : 0 < C -> sized C ls ->
  forall e o x, In (e, o, x) (combine (cached C ls) ls) ->
  1 <= e /\ 0 <= o - x /\ x <= o /\ o <= C.
Proof.
  intros HC HF e o x Hin.
  destruct (nf_pos_ok C ls HF 1 0 ltac:(lia)) as [Ha _].
  rewrite Forall_forall in Ha. specialize (Ha _ Hin).
  unfold okpos, lexle, t_e, t_o, t_x in Ha; cbn [fst snd] in Ha. lia.
Qed.

(* [pack_sorted]: positions strictly increase lexicographically and records do not overlap *)
Theorem pack_sorted C ls : 0 < C -> sized C ls ->
  StronglySorted (before C) (combine (cached C ls) ls).
Proof. intros HC HF. apply (nf_pos_ok C ls HF 1 0). lia. Qed.

Lemma StronglySorted_nth {A} (R : A -> A -> Prop) (l : list A) d :
  StronglySorted R l -> forall i j, (i < j < length l)%nat -> R (nth i l d) (nth j l d).
Proof.
  induction 1 as [|a l HS IH HF]; intros i j Hij; cbn [length] in Hij; [lia|].
  destruct j as [|j]; [lia|]. destruct i as [|i]; cbn [nth].
  - rewrite Forall_forall in HF. apply HF, nth_In. lia.
  - apply IH. lia.
Qed.

Theorem pack_disjoint C ls i j : 0 < C -> sized C ls -> (i < j < length ls)%nat ->
  let d := (0, 0, 0) in
  before C (nth i (combine (cached C ls) ls) d) (nth j (combine (cached C ls) ls) d).
Proof.
  intros HC HF Hij d. apply StronglySorted_nth; [apply pack_sorted; assumption|].
  rewrite combine_length, cached_length. lia.
Qed.

(* 3. the writer puts each record exactly where the cache says                                *)

Lemma writer_pos_eq C ls : forall n off,
  writer_pos C (n - 1) off ls = map place (combine (nf_pos C n off ls) ls).
Proof.
  induction ls as [|x r IH]; intros n off; cbn [writer_pos nf_pos combine map].
  - reflexivity.
  - destruct ((off + x) >? C); cbn [combine map]; unfold place at 1; cbn [fst snd].
    + replace (n - 1 + 1) with (n + 1 - 1) by lia. rewrite IH. f_equal. f_equal; lia.
    + rewrite IH. f_equal. f_equal; lia.
Qed.

(* no hypothesis on C or on the lengths is needed: both loops use the same test *)
Theorem written_eq_cached C ls : written C ls = cached_places C ls.
Proof. unfold written, cached_places, cached. apply (writer_pos_eq C ls 1 0). Qed.

Definition full_block_dir : list Z := [34; 34] ++ repeat 44 45%nat.

Example full_block_dir_sum : zsum full_block_dir = 2048.
Proof. vm_compute. reflexivity. Qed.

(* with [>=] in the writer the agreement is false: a directory filling its block exactly *)
Example written_eq_cached_iff_test :
  written 2048 full_block_dir = cached_places 2048 full_block_dir /\
  written_ge 2048 full_block_dir <> cached_places 2048 full_block_dir /\
  nth 46 (written_ge 2048 full_block_dir) (0, 0) = (1, 0) /\
  nth 46 (cached_places 2048 full_block_dir) (0, 0) = (0, 2004).
Proof.
  split; [apply written_eq_cached|]. split; [|split; vm_compute; reflexivity].
  vm_compute. discriminate.
Qed.

(* 4. bounds on the number of extents                                                         *)

Lemma nf_bounds C ls : Forall (fun x => 0 <= x <= C) ls -> forall n off, 0 <= off <= C ->
  0 <= snd (nf C n off ls) <= C /\ n <= fst (nf C n off ls) /\
  fst (nf C n off ls) <= n + Z.of_nat (length ls) /\
  (n - 1) * C + off + zsum ls <= (fst (nf C n off ls) - 1) * C + snd (nf C n off ls).
Proof.
  induction ls as [|x r IH]; intros HF n off Hoff.
  - cbn [nf fst snd zsum fold_right length]. lia.
  - inversion HF as [|x' r' Hx Hr]; subst x' r'.
    cbn [nf]. change (zsum (x :: r)) with (x + zsum r).
    change (length (x :: r)) with (S (length r)).
    gtb_case (off + x) C Ht.
    + specialize (IH Hr (n + 1) (0 + x) ltac:(lia)). lia.
    + specialize (IH Hr n (off + x) ltac:(lia)). lia.
Qed.

Lemma sized_weak C ls : sized C ls -> Forall (fun x => 0 <= x <= C) ls.
Proof. apply Forall_impl. intros x Hx. lia. Qed.

Theorem num_extents_lower C ls : 0 < C -> sized C ls ->
  1 <= num_extents C ls /\ 0 <= last_offset C ls <= C /\
  zsum ls <= (num_extents C ls - 1) * C + last_offset C ls /\
  zsum ls <= num_extents C ls * C.
Proof.
  intros HC HF. unfold num_extents, last_offset.
  pose proof (nf_bounds C ls (sized_weak C ls HF) 1 0 ltac:(lia)) as H. lia.
Qed.

Theorem num_extents_upper C ls : 0 < C -> sized C ls -> ls <> [] ->
  num_extents C ls <= Z.of_nat (length ls).
Proof.
  intros HC HF Hne. destruct ls as [|x r]; [congruence|].
  inversion HF as [|x' r' Hx Hr]; subst x' r'.
  unfold num_extents. cbn [nf]. gtb_case (0 + x) C Ht; [lia|].
  pose proof (nf_bounds C r (sized_weak C r Hr) 1 (0 + x) ltac:(lia)) as H.
  change (length (x :: r)) with (S (length r)). lia.
Qed.

(* with records of at most half a block every closed block is more than half full *)
Lemma nf_half C ls : Forall (fun x => 0 <= x /\ 2 * x <= C) ls -> forall n off, 0 <= off ->
  0 <= snd (nf C n off ls) /\
  (fst (nf C n off ls) - n) * C <= 2 * (off + zsum ls - snd (nf C n off ls)).
Proof.
  induction ls as [|x r IH]; intros HF n off Hoff.
  - cbn [nf fst snd zsum fold_right]. lia.
  - inversion HF as [|x' r' Hx Hr]; subst x' r'.
    cbn [nf]. change (zsum (x :: r)) with (x + zsum r).
    gtb_case (off + x) C Ht.
    + specialize (IH Hr (n + 1) (0 + x) ltac:(lia)). lia.
    + specialize (IH Hr n (off + x) ltac:(lia)). lia.
Qed.

Theorem num_extents_upper_half C ls : 0 < C -> halfsized C ls ->
  (num_extents C ls - 1) * C <= 2 * (zsum ls - last_offset C ls).
Proof.
  intros HC HF. unfold num_extents, last_offset.
  assert (HF' : Forall (fun x => 0 <= x /\ 2 * x <= C) ls).
  { revert HF. apply Forall_impl. intros x Hx. lia. }
  pose proof (nf_half C ls HF' 1 0 ltac:(lia)) as H. lia.
Qed.

Lemma zsum_nonneg ls : nonneg ls -> 0 <= zsum ls.
Proof.
  induction 1 as [|y q Hy Hq IHq]; [cbn; lia|].
  change (zsum (y :: q)) with (y + zsum q). lia.
Qed.

(* a list that fits in the current block stays in it *)
Lemma nf_fits C ls : nonneg ls -> forall n off, 0 <= off -> off + zsum ls <= C ->
  nf C n off ls = (n, off + zsum ls).
Proof.
  induction ls as [|x r IH]; intros HF n off Hoff Hs.
  - cbn [nf zsum fold_right]. f_equal. lia.
  - inversion HF as [|x' r' Hx Hr]; subst x' r'.
    pose proof (zsum_nonneg r Hr) as Hz.
    change (zsum (x :: r)) with (x + zsum r) in *. cbn [nf].
    gtb_case (off + x) C Ht; [lia|].
    rewrite (IH Hr n (off + x)) by lia. f_equal. lia.
Qed.

(* 5. monotonicity of the loop in its start state; inserting / removing one record            *)

(* the loop is monotone for the lexicographic order on (num_extents, dirrecord_offset) *)
Lemma nf_mono C ls : nonneg ls -> forall n a m b, lexle n a m b -> 0 <= b ->
  lexle (fst (nf C n a ls)) (snd (nf C n a ls)) (fst (nf C m b ls)) (snd (nf C m b ls)).
Proof.
  induction ls as [|x r IH]; intros HF n a m b Hle Hb; cbn [nf fst snd]; [exact Hle|].
  inversion HF as [|x' r' Hx Hr]; subst x' r'.
  gtb_case (a + x) C Ha; gtb_case (b + x) C Hb'; apply (IH Hr); unfold lexle in *; lia.
Qed.

(* ... and commutes with shifting the start state by whole blocks *)
Lemma nf_shift C d ls : forall n a,
  nf C (n + d) a ls = (fst (nf C n a ls) + d, snd (nf C n a ls)).
Proof.
  induction ls as [|x r IH]; intros n a; cbn [nf fst snd]; [reflexivity|].
  destruct ((a + x) >? C).
  - replace (n + d + 1) with (n + 1 + d) by lia. apply IH.
  - apply IH.
Qed.

Lemma nf_off_nonneg C ls : nonneg ls -> forall n a, 0 <= a -> 0 <= snd (nf C n a ls).
Proof.
  induction ls as [|x r IH]; intros HF n a Ha; cbn [nf snd]; [exact Ha|].
  inversion HF as [|x' r' Hx Hr]; subst x' r'.
  destruct ((a + x) >? C); apply (IH Hr); lia.
Qed.

Lemma nonneg_app_inv (l1 l2 : list Z) : nonneg (l1 ++ l2) -> nonneg l1 /\ nonneg l2.
Proof. unfold nonneg. rewrite Forall_app. tauto. Qed.

(* inserting x after a prefix: at most one more extent, PROVIDED x is at most half a block
   (no bound is needed on the other records, only that lengths are non-negative) *)
Lemma insert_le1_app C pre post x : nonneg pre -> nonneg post -> 0 <= x -> 2 * x <= C ->
  num_extents C (pre ++ x :: post) <= num_extents C (pre ++ post) + 1.
Proof.
  intros Hpre Hpost Hx Hx2. unfold num_extents. rewrite !nf_app.
  pose proof (nf_off_nonneg C pre Hpre 1 0 ltac:(lia)) as Ha.
  destruct (nf C 1 0 pre) as [n a]. cbn [fst snd] in *. cbn [nf].
  pose proof (nf_shift C 1 post n a) as Hs.
  gtb_case (a + x) C Ht.
  - pose proof (nf_mono C post Hpost (n + 1) (0 + x) (n + 1) a) as Hm.
    rewrite Hs in Hm. cbn [fst snd] in Hm. unfold lexle in Hm. lia.
  - pose proof (nf_mono C post Hpost n (a + x) (n + 1) a) as Hm.
    rewrite Hs in Hm. cbn [fst snd] in Hm. unfold lexle in Hm. lia.
Qed.

(* removing x after a prefix never needs more extents (no upper bound on lengths needed) *)
Lemma remove_le0_app C pre post x : nonneg pre -> nonneg post -> 0 <= x ->
  num_extents C (pre ++ post) <= num_extents C (pre ++ x :: post).
Proof.
  intros Hpre Hpost Hx. unfold num_extents. rewrite !nf_app.
  pose proof (nf_off_nonneg C pre Hpre 1 0 ltac:(lia)) as Ha.
  destruct (nf C 1 0 pre) as [n a]. cbn [fst snd] in *. cbn [nf].
  gtb_case (a + x) C Ht.
  - pose proof (nf_mono C post Hpost n a (n + 1) (0 + x)) as Hm. unfold lexle in Hm. lia.
  - pose proof (nf_mono C post Hpost n a n (a + x)) as Hm. unfold lexle in Hm. lia.
Qed.

Lemma skipn_S_tl {A} (k : nat) : forall l : list A, skipn (S k) l = tl (skipn k l).
Proof.
  induction k as [|k IH]; intros l.
  - destruct l; reflexivity.
  - destruct l as [|a l]; [reflexivity|].
    change (skipn (S (S k)) (a :: l)) with (skipn (S k) l).
    change (skipn (S k) (a :: l)) with (skipn k l). apply IH.
Qed.

Lemma Forall_split {A} (P : A -> Prop) k l :
  Forall P l -> Forall P (firstn k l) /\ Forall P (skipn k l).
Proof. intros H. rewrite <- Forall_app, firstn_skipn. exact H. Qed.

Lemma nonneg_split k ls : nonneg ls -> nonneg (firstn k ls) /\ nonneg (skipn k ls).
Proof. intros H. apply nonneg_app_inv. rewrite firstn_skipn. exact H. Qed.

(* [insert_le1] *)
Theorem insert_le1 C ls k x : nonneg ls -> 0 <= x -> 2 * x <= C ->
  num_extents C (insert_at k x ls) <= num_extents C ls + 1.
Proof.
  intros HF Hx Hx2. destruct (nonneg_split k ls HF) as [H1 H2].
  unfold insert_at. rewrite <- (firstn_skipn k ls) at 3.
  apply insert_le1_app; assumption.
Qed.

Corollary insert_le1_half C ls k x : halfsized C (x :: ls) ->
  num_extents C (insert_at k x ls) <= num_extents C ls + 1.
Proof.
  intros HF. inversion HF as [|x' r' Hx Hr]; subst x' r'.
  apply insert_le1; [|lia|lia]. apply (sized_nonneg C), halfsized_sized, Hr.
Qed.

(* without the half-block bound on the inserted record the statement is false *)
Example insert_le1_refuted :
  (exists C ls k x, sized C (x :: ls) /\
     ~ num_extents C (insert_at k x ls) <= num_extents C ls + 1) /\
  num_extents 8 [8; 8; 7; 1] = 3 /\ num_extents 8 (insert_at 3 8 [8; 8; 7; 1]) = 5.
Proof.
  split; [|split; vm_compute; reflexivity].
  exists 8, [8; 8; 7; 1], 3%nat, 8. split.
  - unfold sized. repeat constructor; lia.
  - vm_compute. intros H. apply H. reflexivity.
Qed.

(* [remove_le0]: only non-negativity of the lengths is needed *)
Theorem remove_le0 C ls k : nonneg ls ->
  num_extents C (remove_at k ls) <= num_extents C ls.
Proof.
  intros HF. destruct (nonneg_split k ls HF) as [H1 H2].
  unfold remove_at. rewrite skipn_S_tl. rewrite <- (firstn_skipn k ls) at 3.
  destruct (skipn k ls) as [|x post]; cbn [tl]; [lia|].
  inversion H2 as [|x' r' Hx Hr]; subst x' r'.
  apply remove_le0_app; assumption.
Qed.

(* and inserting never lowers the number of extents *)
Theorem insert_ge0 C ls k x : nonneg ls -> 0 <= x ->
  num_extents C ls <= num_extents C (insert_at k x ls).
Proof.
  intros HF Hx. destruct (nonneg_split k ls HF) as [H1 H2].
  unfold insert_at. rewrite <- (firstn_skipn k ls) at 1.
  apply remove_le0_app; assumption.
Qed.

(* removing a record of at most half a block frees at most one extent *)
Theorem remove_ge1 C ls k : nonneg ls -> 2 * nth k ls 0 <= C ->
  num_extents C ls <= num_extents C (remove_at k ls) + 1.
Proof.
  intros HF Hk. destruct (nonneg_split k ls HF) as [H1 H2].
  unfold remove_at. rewrite skipn_S_tl. rewrite <- (firstn_skipn k ls) at 1.
  assert (Hn : nth k ls 0 = hd 0 (skipn k ls)).
  { rewrite <- (firstn_skipn k ls) at 1. clear. revert ls.
    induction k as [|k IH]; intros ls.
    - destruct ls; reflexivity.
    - destruct ls as [|a l]; [reflexivity|]. cbn [firstn skipn app nth]. apply IH. }
  destruct (skipn k ls) as [|x post]; cbn [tl]; [lia|].
  inversion H2 as [|x' r' Hx Hr]; subst x' r'. cbn [hd] in Hn.
  apply insert_le1_app; try assumption. lia.
Qed.

(* 5b. the directory-length invariant                                                         *)

Definition Inv (C : Z) (d : dirst) : Prop :=
  dlen d mod C = 0 /\ num_extents C (recs d) * C <= dlen d.

Lemma Invb_spec C d : Invb C d = true <-> Inv C d.
Proof. unfold Invb, Inv. rewrite andb_true_iff, Z.eqb_eq, Z.leb_le. tauto. Qed.

Lemma mod0_iff C a : 0 < C -> (a mod C = 0 <-> exists q, a = q * C).
Proof.
  intros HC. split.
  - intros H. exists (a / C). pose proof (Z.div_mod a C ltac:(lia)). lia.
  - intros [q ->]. apply Z_mod_mult.
Qed.

Lemma nonneg_insert k x ls : nonneg ls -> 0 <= x -> nonneg (insert_at k x ls).
Proof.
  intros HF Hx. destruct (nonneg_split k ls HF) as [H1 H2].
  unfold insert_at, nonneg. rewrite Forall_app. split; [exact H1|]. constructor; assumption.
Qed.

Lemma nonneg_remove k ls : nonneg ls -> nonneg (remove_at k ls).
Proof.
  intros HF. destruct (nonneg_split k ls HF) as [H1 _].
  destruct (nonneg_split (S k) ls HF) as [_ H2].
  unfold remove_at, nonneg. rewrite Forall_app. split; assumption.
Qed.

Theorem dir_inv_init_gen C ls : 0 < C -> nonneg ls -> zsum ls <= C ->
  Inv C (dir_init_gen C ls) /\ num_extents C ls = 1.
Proof.
  intros HC HF Hs. unfold Inv, dir_init_gen, num_extents. cbn [recs dlen].
  rewrite (nf_fits C ls HF 1 0) by lia. cbn [fst]. rewrite Z_mod_same_full. lia.
Qed.

Theorem dir_inv_init C : 68 <= C -> Inv C (dir_init C).
Proof.
  intros HC. apply (dir_inv_init_gen C [34; 34]); [lia| |].
  - repeat constructor; lia.
  - change (zsum [34; 34]) with 68. lia.
Qed.

(* [dir_inv_add]: needs only that the inserted record is at most half a block *)
Theorem dir_inv_add C d k x : 0 < C -> nonneg (recs d) -> 0 <= x -> 2 * x <= C ->
  Inv C d -> Inv C (dir_add C d k x).
Proof.
  intros HC HF Hx Hx2 [Hm Hle]. unfold Inv, dir_add. cbn [recs dlen].
  pose proof (insert_le1 C (recs d) k x HF Hx Hx2) as Hi.
  set (n' := num_extents C (insert_at k x (recs d))) in *.
  set (n := num_extents C (recs d)) in *.
  apply (mod0_iff C _ HC) in Hm. destruct Hm as [q Hq].
  gtb_case (n' * C) (dlen d) Ht.
  - split.
    + apply (mod0_iff C _ HC). exists (q + 1). lia.
    + assert (n' * C <= (n + 1) * C) by (apply Z.mul_le_mono_nonneg_r; lia). lia.
  - split; [apply (mod0_iff C _ HC); exists q; exact Hq|exact Ht].
Qed.

(* [dir_inv_remove]: unconditional (non-negative lengths) *)
Theorem dir_inv_remove C d k : 0 < C -> nonneg (recs d) ->
  Inv C d -> Inv C (dir_remove C d k).
Proof.
  intros HC HF [Hm Hle]. unfold Inv, dir_remove. cbn [recs dlen].
  pose proof (remove_le0 C (recs d) k HF) as Hr.
  pose proof (nf_off_nonneg C _ (nonneg_remove k _ HF) 1 0 ltac:(lia)) as Ho.
  unfold last_offset.
  set (n' := num_extents C (remove_at k (recs d))) in *.
  set (o' := snd (nf C 1 0 (remove_at k (recs d)))) in *.
  set (n := num_extents C (recs d)) in *.
  apply (mod0_iff C _ HC) in Hm. destruct Hm as [q Hq].
  gtb_case (dlen d - ((n' - 1) * C + o')) C Ht.
  - split.
    + apply (mod0_iff C _ HC). exists (q - 1). lia.
    + assert (Hp : 0 < (q - n') * C) by lia.
      apply Z.mul_pos_cancel_r in Hp; [|exact HC].
      assert (n' * C <= (q - 1) * C) by (apply Z.mul_le_mono_nonneg_r; lia). lia.
  - split; [apply (mod0_iff C _ HC); exists q; exact Hq|].
    assert (n' * C <= n * C) by (apply Z.mul_le_mono_nonneg_r; lia). lia.
Qed.

(* the directory never keeps more than one spare block *)
Definition Slack (C : Z) (d : dirst) : Prop := dlen d <= (num_extents C (recs d) + 1) * C.

Theorem dir_slack_add C d k x : 0 < C -> nonneg (recs d) -> 0 <= x ->
  Slack C d -> Slack C (dir_add C d k x).
Proof.
  intros HC HF Hx Hs. unfold Slack, dir_add in *. cbn [recs dlen].
  pose proof (insert_ge0 C (recs d) k x HF Hx) as Hi.
  set (n' := num_extents C (insert_at k x (recs d))) in *.
  set (n := num_extents C (recs d)) in *.
  assert (n * C <= n' * C) by (apply Z.mul_le_mono_nonneg_r; lia).
  gtb_case (n' * C) (dlen d) Ht; lia.
Qed.

Theorem dir_slack_remove C d k : 0 < C -> sized C (recs d) -> 2 * nth k (recs d) 0 <= C ->
  Slack C d -> Slack C (dir_remove C d k).
Proof.
  intros HC HF Hk Hs. unfold Slack, dir_remove in *. cbn [recs dlen].
  pose proof (sized_nonneg C _ HF) as HN.
  pose proof (remove_ge1 C (recs d) k HN Hk) as Hr.
  assert (HF' : sized C (remove_at k (recs d))).
  { unfold remove_at, sized. rewrite Forall_app. split.
    - apply (Forall_split _ k _ HF).
    - apply (Forall_split _ (S k) _ HF). }
  pose proof (nf_bounds C _ (sized_weak C _ HF') 1 0 ltac:(lia)) as Hb.
  unfold last_offset.
  set (n' := num_extents C (remove_at k (recs d))) in *.
  set (o' := snd (nf C 1 0 (remove_at k (recs d)))) in *.
  set (n := num_extents C (recs d)) in *.
  assert ((n + 1) * C <= (n' + 2) * C) by (apply Z.mul_le_mono_nonneg_r; lia).
  gtb_case (dlen d - ((n' - 1) * C + o')) C Ht; lia.
Qed.

(* but exact tightness [dlen = num_extents * C] is NOT preserved by remove_child: when the
   removal leaves the last block exactly full, the test [dlen - total > C] keeps a spare block *)
Example remove_keeps_spare_block :
  let d := {| recs := full_block_dir ++ [44]; dlen := 4096 |} in
  num_extents 2048 (recs d) * 2048 = dlen d /\
  let d' := dir_remove 2048 d 47 in
  recs d' = full_block_dir /\ num_extents 2048 (recs d') = 1 /\ dlen d' = 4096.
Proof. vm_compute. repeat split; reflexivity. Qed.

(* any sequence of operations from a new directory *)
Definition op_ok (C : Z) (o : dirop) : Prop :=
  match o with OpAdd _ x => 0 <= x /\ 2 * x <= C | OpRemove _ => True end.

Theorem dir_inv_run C ops : 0 < C -> Forall (op_ok C) ops ->
  forall d, nonneg (recs d) -> Inv C d ->
  nonneg (recs (dir_run C d ops)) /\ Inv C (dir_run C d ops).
Proof.
  intros HC. unfold dir_run. induction 1 as [|o r Ho Hr IH]; intros d HF HI; cbn [fold_left].
  - split; assumption.
  - destruct o as [k x|k]; cbn [dir_step op_ok] in *.
    + apply IH.
      * unfold dir_add. cbn [recs]. apply nonneg_insert; [exact HF|lia].
      * apply dir_inv_add; try assumption; lia.
    + apply IH.
      * unfold dir_remove. cbn [recs]. apply nonneg_remove, HF.
      * apply dir_inv_remove; assumption.
Qed.

Corollary dir_inv_reachable C ops : 68 <= C -> Forall (op_ok C) ops ->
  Inv C (dir_run C (dir_init C) ops).
Proof.
  intros HC Hops. apply dir_inv_run; [lia|exact Hops| |apply dir_inv_init, HC].
  cbn [dir_init recs]. repeat constructor; lia.
Qed.

(* 6. non-vacuity: a concrete directory of 100 records of lengths 40..60                      *)

Example ex_dir100 :
  let d := dir_run 2048 (dir_init 2048) ex_ops100 in
  length (recs d) = 102%nat /\
  forallb (fun x => (40 <=? x) && (x <=? 60)) (skipn 2 (recs d)) = true /\
  num_extents 2048 (recs d) = 3 /\ dlen d = 6144 /\ Inv 2048 d.
Proof.
  cbv zeta. repeat split; try (vm_compute; reflexivity).
  vm_compute. discriminate.
Qed.

(* ... and Inv holds in every intermediate state of 100 adds, 60 removes, 20 adds; the
   directory grows to 3 blocks, shrinks back to 1 and grows again to 2 *)
Example ex_dir_trace :
  forallb (Invb 2048) (dir_trace 2048 (dir_init 2048) ex_ops) = true /\
  let d := dir_run 2048 (dir_init 2048) ex_ops in
  length (recs d) = 62%nat /\ dlen d = 4096 /\ Inv 2048 d.
Proof.
  split; [vm_compute; reflexivity|]. cbv zeta.
  split; [vm_compute; reflexivity|]. split; [vm_compute; reflexivity|].
  apply Invb_spec. vm_compute. reflexivity.
Qed.

(* the checker agrees with the definitions *)
Lemma zz_list_eqb_eq a : forall b, zz_list_eqb a b = true <-> a = b.
Proof.
  induction a as [|[a1 a2] ra IH]; intros [|[b1 b2] rb]; cbn [zz_list_eqb];
    try (split; [discriminate|congruence]); [tauto|].
  rewrite !andb_true_iff, !Z.eqb_eq, IH. split.
  - intros [[-> ->] ->]. reflexivity.
  - intros E. inversion E. tauto.
Qed.

Theorem pack_case_ok_spec C ls n off pos :
  pack_case_ok C ls n off pos = true <-> nf C 1 0 ls = (n, off) /\ cached C ls = pos.
Proof.
  unfold pack_case_ok. rewrite !andb_true_iff, !Z.eqb_eq, zz_list_eqb_eq.
  destruct (nf C 1 0 ls) as [n1 o1]. cbn [fst snd]. split.
  - intros [[-> ->] ->]. tauto.
  - intros [E ->]. inversion E. tauto.
Qed.

Print Assumptions nf_restart. Print Assumptions nf_restart_cached. Print Assumptions pack_inside.
Print Assumptions pack_sorted. Print Assumptions pack_disjoint. Print Assumptions written_eq_cached.
Print Assumptions written_eq_cached_iff_test. Print Assumptions num_extents_lower. Print Assumptions num_extents_upper.
Print Assumptions num_extents_upper_half. Print Assumptions insert_le1. Print Assumptions insert_le1_refuted.
Print Assumptions remove_le0. Print Assumptions remove_ge1. Print Assumptions dir_inv_init.
Print Assumptions dir_inv_add. Print Assumptions dir_inv_remove. Print Assumptions dir_slack_add.
Print Assumptions dir_slack_remove. Print Assumptions remove_keeps_spare_block. Print Assumptions dir_inv_reachable.
Print Assumptions ex_dir100. Print Assumptions ex_dir_trace. Print Assumptions pack_case_ok_spec.
