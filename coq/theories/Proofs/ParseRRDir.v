(* ParseRR, part 5: the records of one directory of the image of a well-formed state.
     prr_record_good   prr_record_ok instantiated from MasterRR's facts about a record (mrr_good), given where its
                       continuation area can be read
     prr_blk_kid / prr_blk_dot   ... which the image provides (MasterRRImage)
     prr_no_overlap    the continuation area of a record that was not tracked yet overlaps no tracked entry
     prr_tinv_step     the table invariant (every tracked entry is the key of a record already walked) *)
From Coq Require Import ZArith List Bool Lia ZifyBool.
From PV.Base Require Import Prim.
From PV.Gen Require Import GenConst GenFun.
From PV.Model Require Import Codec Pack PathTable CeAlloc RREntries RRWalk RRPlace.
From PV.Model Require Master Account LongNames.
From PV.Model Require Import ParseCore AccountRR MasterRR ParseRR ParseRRSpec.
From PV.Proofs Require Import CodecProofs PackProofs PathTableLemmas PathTableProofs MasterPack MasterImage MasterBfs.
From PV.Proofs Require Import RREntriesProofs RRWalkProofs RRPlaceSLProofs RRPlaceProofs RRPlaceProofs2.
From PV.Proofs Require Import MasterRRWalk MasterRRRec MasterRRBlock MasterRRTree MasterRRLayout MasterRRDir
                              MasterRRImage MasterRRRead MasterRRProofs.
From PV.Proofs Require Import ParseRRRec ParseRRRec2 ParseRRStep ParseRRTable.
Import ListNotations.
Local Open Scope Z_scope.

Section Dir.
  Variable dt : list Z.
  Variable s : rstate.
  Hypothesis Hdt : length dt = 7%nat.
  Hypothesis Hwf : mrr_wf dt s = true.
  Variable img' : Master.image.
  Hypothesis Hok : ms_img_ok img'.
  Hypothesis Hincl : incl (mrr_img dt s) img'.

  Local Notation t := (r_root s).
  Local Notation v := (r_ver s).
  Local Notation L := (mrr_layout s).
  Local Notation DB := (l_DB L).
  Local Notation ws := (mrr_writes v dt t L).

  Lemma prr_v : v <> V_unset.
  Proof. exact (proj1 (mrr_wf_root dt s Hwf)). Qed.

  (* where the continuation area of a record can be read *)
  Definition prr_blk_ok (x : rspec) : Prop :=
    forall r bc, place (mrr_pin v dt x) = Some r -> is_some (ce_record (pl_dr r)) = true ->
      record_list v (map (mrr_patch x) (entries_list (pl_ce r))) = Some bc ->
      exists blk, Master.ms_get_block img' (rs_bl x) = Some blk /\ zlen blk = BS /\
                  firstn (Z.to_nat (pl_celen r)) (skipn (Z.to_nat (rs_off x)) blk) = bc.

  Theorem prr_record_good x len d st last blk blocks1 : mrr_good dt s x len -> prr_blk_ok x ->
    (forall r, place (mrr_pin v dt x) = Some r -> sp_record (pl_ce r) = None) ->
    prr_skip_for d (w_cur st) (prr_pad (mrr_drec v dt x)) = POk (rs_first x, 0) ->
    (forall r, place (mrr_pin v dt x) = Some r ->
       (is_some (ce_record (pl_dr r)) = false -> blk = None /\ blocks1 = w_blocks st) /\
       (is_some (ce_record (pl_dr r)) = true ->
          if qd_root d && ps_is_dot (prr_pad (mrr_drec v dt x)) then blk = None /\ blocks1 = w_blocks st
          else exists k, prr_track_ce (w_blocks st) (rs_bl x) (rs_off x) (pl_celen r) = Some (k, blocks1) /\
                         blk = Some k)) ->
    (w_ver st = V_unset \/ w_ver st = prr_ver_of v) ->
    (forall a, In a (w_cur st) -> ps_lt (Codec.ident (q_rec a)) (rs_nm x) = true) ->
    prr_record img' d (st, last) (Master.ms_enc (mrr_drec v dt x)) =
    POk (prr_after v dt x blk blocks1 st, Some (ps_printable (prr_pad (mrr_drec v dt x)))).
  Proof.
    intros G Hblk Hsp Hskip Htrk Hver Hlt.
    pose proof G as (r0 & P0 & _ & Hmo & Hl & Hb & Ho & C0 & C1 & _).
    destruct (mrr_good_enc dt s Hdt x len G) as (r & b & bd & bc & Hpl & _ & Ed & Ec & Hz & Es & _ & Eb & _).
    rewrite Hpl in P0. injection P0 as <-.
    assert (Hcel : u32_ok (pl_celen r) = true) by (unfold u32_ok, BS in *; lia).
    destruct (Htrk r Hpl) as [T1 T2].
    unfold Master.ms_enc. rewrite Eb.
    apply (prr_record_ok v dt x r img' prr_v Hdt Hpl Hmo Hl Hb Ho Hcel C1 (Hsp r Hpl) bd bc b Ed Ec Hz Es Eb);
      try assumption.
    intros Hs. exact (Hblk r bc Hpl Hs Ec).
  Qed.

  (* ---- the image provides the continuation areas ---------------------------------------------------------------- *)
  Lemma prr_blk_kid p m dl kids j c : mrr_node_at t p = Some (RDir m dl kids) -> nth_error kids j = Some c ->
    prr_blk_ok (mrr_kid_spec t L (p ++ [j]) c).
  Proof.
    intros Hp Hj r bc Hpl Hs Ec. set (x := mrr_kid_spec t L (p ++ [j]) c) in *.
    destruct (mrr_kid_place dt s Hdt Hwf p m dl kids j c Hp Hj) as (Hc & _ & r' & Hpl' & _ & Hce).
    fold x in Hpl'. rewrite Hpl in Hpl'. injection Hpl' as <-.
    assert (Hq : p ++ [j] <> []) by (destruct p; discriminate).
    destruct (m_ce (meta_of c)) as [[[i off] len]|] eqn:Ek; [|congruence].
    destruct Hce as (_ & -> & H0 & H1).
    assert (Ebl : rs_bl x = mrr_ce_ext t L i /\ rs_off x = off).
    { unfold x. destruct c; cbn [mrr_kid_spec rs_bl rs_off meta_of] in *; unfold mrr_ce_of; rewrite Ek; split; reflexivity. }
    destruct Ebl as [E1 E2]. rewrite E1, E2.
    exists (mrr_block ws (mrr_ce_ext t L i)). split.
    - apply (mrr_read_block dt s Hdt Hwf img' Hok Hincl).
      exact (mrr_ce_ext_in dt s Hwf (p ++ [j]) c (i, off, pl_celen r) Hc Ek).
    - split; [exact (mrr_block_len ws _ (mrr_writes_fit dt s Hdt Hwf))|].
      destruct (mrr_cw_good dt s Hdt x _ (mrr_kid_good dt s Hdt Hwf p m dl kids j c Hp Hj))
        as (r2 & bc2 & Hpl2 & Ec2 & Ecw & Hz & _).
      rewrite Hpl in Hpl2. injection Hpl2 as <-. rewrite Ec in Ec2. injection Ec2 as <-.
      rewrite Hs in Ecw. rewrite <- (Hz Hs).
      apply (mrr_kid_w_read dt s Hdt Hwf (p ++ [j]) c i off (pl_celen r) bc Hc Hq); [|exact Ek].
      fold x. rewrite Ecw, E1, E2. left. reflexivity.
  Qed.

  Lemma prr_blk_rootdot m dl kids : t = RDir m dl kids -> prr_blk_ok (mrr_dot_spec s [] dl).
  Proof.
    intros Et r bc Hpl Hs Ec.
    assert (Hp : mrr_node_at t [] = Some (RDir m dl kids)) by (rewrite Et; reflexivity).
    pose proof (mrr_dot_good dt s Hdt Hwf [] m dl kids Hp) as G. fold (mrr_dot_spec s [] dl) in G.
    exists (mrr_block ws (l_er L)). cbn [mrr_dot_spec rs_bl rs_off mrr_is_root]. split.
    - apply (mrr_read_block dt s Hdt Hwf img' Hok Hincl). apply mrr_er_in.
    - split; [exact (mrr_block_len ws _ (mrr_writes_fit dt s Hdt Hwf))|].
      destruct (mrr_cw_good dt s Hdt _ _ G) as (r2 & bc2 & Hpl2 & Ec2 & Ecw & Hz & _).
      rewrite Hpl in Hpl2. injection Hpl2 as <-. rewrite Ec in Ec2. injection Ec2 as <-.
      rewrite Hs in Ecw. rewrite <- (Hz Hs).
      apply (mrr_root_w_read dt s Hdt Hwf m dl kids bc Et). rewrite Ecw. left. reflexivity.
  Qed.

  (* '.' below the root and '..': no CE entry at all *)
  Lemma prr_nodot_noce x r : rs_first x = false -> rs_rr x = [] -> rs_target x = [] -> rs_mode x = DIR_MODE ->
    (rs_nm x = [0] \/ rs_nm x = [1]) -> place (mrr_pin v dt x) = Some r -> is_some (ce_record (pl_dr r)) = false.
  Proof.
    intros Hf Hr Ht Hm Hn Hpl.
    pose proof (mrr_dot_ok v dt false (rs_nm x) Hdt prr_v Hn) as Hck. unfold mrr_dot_check in Hck.
    assert (E : mrr_pin v dt x = mk_pin v false [] DIR_MODE None false false false 0 (Account.dr_len_of (rs_nm x)) [dt; dt; dt])
      by (unfold mrr_pin; rewrite Hf, Hr, Ht, Hm; reflexivity).
    rewrite E in Hpl. rewrite Hpl in Hck. repeat (apply andb_prop in Hck; destruct Hck as [Hck ?]).
    destruct (is_some (ce_record (pl_dr r))); [discriminate|reflexivity].
  Qed.
End Dir.
