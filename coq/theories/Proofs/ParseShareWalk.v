(* Parse, part 9: the sharing invariant (ParseShare.ps_G) holds along _walk_directories on ANY image.
     parse_shares_inodes_iff_same_extent
        two non-directory records of the opened object share an Inode iff both have a non-zero
        data_length and the same extent (their lengths may differ!); so every zero-length file has an
        Inode of its own, whatever its extent field says -- exactly the code of commit 1d57d0b *)
From Coq Require Import ZArith List Bool Lia ZifyBool.
From PV.Base Require Import Prim ListX.
From PV.Model Require Import Codec Pack Master Parse.
From PV.Proofs Require Import ParseShare.
Import ListNotations.
Local Open Scope Z_scope.

Definition ps_keys (st : pstate) : list pkey :=
  map ps_key (concat (s_dirs st)) ++ map ps_key (s_cur st).

Definition ps_J (st : pstate) : Prop := ps_G (ps_keys st) (length (s_inodes st)) (s_e2i st).

Lemma ps_key_set_dlen i v c : ps_key (ps_set_dlen i v c) = ps_key c.
Proof. unfold ps_set_dlen. destruct (p_ino c) as [k|] eqn:E; [destruct (Nat.eqb k i)|]; unfold ps_key; cbn; rewrite ?E; reflexivity. Qed.

Lemma ps_keys_set_dlen i v l : map ps_key (map (ps_set_dlen i v) l) = map ps_key l.
Proof. rewrite map_map. apply map_ext. intros c. apply ps_key_set_dlen. Qed.

Lemma ps_concat_map {A B} (f : A -> B) l : concat (map (map f) l) = map f (concat l).
Proof. induction l as [|x l IH]; [reflexivity|]. cbn [map concat]. rewrite map_app, IH. reflexivity. Qed.

Lemma ps_keys_dirs_set_dlen i v dirs :
  map ps_key (concat (map (map (ps_set_dlen i v)) dirs)) = map ps_key (concat dirs).
Proof.
  induction dirs as [|x l IH]; [reflexivity|]. cbn [map concat]. rewrite !map_app, IH, ps_keys_set_dlen. reflexivity.
Qed.

Lemma ps_set_ilen_length i v l : length (ps_set_ilen i v l) = length l.
Proof.
  unfold ps_set_ilen. destruct (nth_error l i) as [[e x]|] eqn:E; [|reflexivity].
  rewrite app_length. cbn [length]. rewrite firstn_length, skipn_length.
  assert (i < length l)%nat by (apply nth_error_Some; congruence). lia.
Qed.

Lemma ps_keys_renum : forall l i n off, map ps_key (ps_renum i n off l) = map ps_key l.
Proof. induction l as [|c r IH]; intros i n off; [reflexivity|]. cbn [ps_renum map]. rewrite IH. reflexivity. Qed.

Lemma ps_keys_recalc k l : map ps_key (ps_recalc k l) = map ps_key l.
Proof.
  unfold ps_recalc. rewrite map_app, ps_keys_renum, <- map_app, firstn_skipn. reflexivity.
Qed.

Lemma ps_keys_insert k c l : map ps_key (insert_at k c l) = insert_at k (ps_key c) (map ps_key l).
Proof. unfold insert_at. rewrite map_app, firstn_map, skipn_map. reflexivity. Qed.

Lemma ps_track_keys cur child last cur2 : ps_track cur child last = POk cur2 ->
  exists k, map ps_key cur2 = insert_at k (ps_key child) (map ps_key cur).
Proof.
  unfold ps_track. cbv zeta.
  match goal with |- (if ?d then _ else _) = _ -> _ => destruct d end.
  - match goal with |- (if ?d then _ else _) = _ -> _ => destruct d end; discriminate.
  - intros H. injection H as <-. eexists. rewrite ps_keys_recalc, ps_keys_insert. reflexivity.
Qed.

(* ---- the inode of a file record ----------------------------------------------------------------------- *)

Lemma ps_link_J isz st r i d st1 : ps_J st -> ps_is_dir r = false ->
  ps_link isz st (extent r) (data_len r) = (i, d, st1) ->
  map ps_key (concat (s_dirs st1)) = map ps_key (concat (s_dirs st)) /\
  map ps_key (s_cur st1) = map ps_key (s_cur st) /\
  (forall K', ps_added (ps_keys st) (r, Some i) K' -> ps_G K' (length (s_inodes st1)) (s_e2i st1)).
Proof.
  intros J Hd. unfold ps_J in J. unfold ps_link, ps_link_gen. cbv zeta.
  destruct (data_len r =? 0) eqn:E0.
  - (* zero length *)
    apply Z.eqb_eq in E0. cbn [negb Z.eqb]. cbv iota.
    destruct (0 * BS + 0 >? isz); intros H; injection H as <- _ <-; cbn [s_dirs s_cur s_inodes s_e2i].
    + rewrite ps_keys_dirs_set_dlen, ps_keys_set_dlen.
      split; [reflexivity|]. split; [reflexivity|]. intros K' Ha. rewrite ps_set_ilen_length, app_length. cbn [length].
      rewrite Nat.add_1_r. apply (ps_G_empty (ps_keys st) _ _ r K'); assumption.
    + split; [reflexivity|]. split; [reflexivity|]. intros K' Ha. rewrite app_length. cbn [length].
      rewrite Nat.add_1_r. apply (ps_G_empty (ps_keys st) _ _ r K'); assumption.
  - rewrite !E0. cbn [negb]. cbv iota. assert (Hn0 : data_len r <> 0) by lia.
    destruct (ps_assoc (extent r) (s_e2i st)) as [k|] eqn:Ea.
    + (* the extent is a key already *)
      destruct (extent r * BS + data_len r >? isz); intros H; injection H as <- _ <-;
        cbn [s_dirs s_cur s_inodes s_e2i].
      * rewrite ps_keys_dirs_set_dlen, ps_keys_set_dlen.
        split; [reflexivity|]. split; [reflexivity|]. intros K' Ha. rewrite ps_set_ilen_length.
        apply (ps_G_shared (ps_keys st) _ _ r k K'); assumption.
      * split; [reflexivity|]. split; [reflexivity|]. intros K' Ha. apply (ps_G_shared (ps_keys st) _ _ r k K'); assumption.
    + (* a new extent *)
      destruct (extent r * BS + data_len r >? isz); intros H; injection H as <- _ <-;
        cbn [s_dirs s_cur s_inodes s_e2i].
      * rewrite ps_keys_dirs_set_dlen, ps_keys_set_dlen.
        split; [reflexivity|]. split; [reflexivity|]. intros K' Ha. rewrite ps_set_ilen_length, app_length. cbn [length].
        rewrite Nat.add_1_r. apply (ps_G_fresh (ps_keys st) _ _ r K'); assumption.
      * split; [reflexivity|]. split; [reflexivity|]. intros K' Ha. rewrite app_length. cbn [length].
        rewrite Nat.add_1_r. apply (ps_G_fresh (ps_keys st) _ _ r K'); assumption.
Qed.

(* ---- one record, one extent, the walk ------------------------------------------------------------------- *)

Lemma ps_record_J ptr isz st last b st' last' : ps_J st ->
  ps_record ptr isz (st, last) b = POk (st', last') -> ps_J st'.
Proof.
  intros J. unfold ps_record.
  destruct (parse_dr b) as [r|]; [|discriminate].
  destruct (ps_outside (sysuse r) (znth 32 b)); [discriminate|].
  destruct (ps_is_dir r) eqn:Hd.
  - (* no inode *)
    cbv beta iota zeta.
    match goal with |- context [if ?c then PInvalid 3 else _] => destruct c; [discriminate|] end.
    destruct (ps_track _ _ last) as [cur2| | |] eqn:Et; try discriminate.
    destruct (ps_track_keys _ _ _ _ Et) as [k Hk].
    intros H. injection H as <- _. unfold ps_J, ps_keys. cbn [s_dirs s_cur s_inodes s_e2i].
    rewrite Hk. apply (ps_G_dir _ _ _ r _ J Hd). apply ps_added_insert.
  - (* a file: ps_link first *)
    destruct (ps_link isz st (extent r) (data_len r)) as [[i d] st1] eqn:El.
    destruct (ps_link_J isz st r i d st1 J Hd El) as (Hk1 & Hk2 & HG).
    cbv beta iota zeta. cbn [andb]. cbv iota.
    destruct (ps_track _ _ last) as [cur2| | |] eqn:Et; try discriminate.
    destruct (ps_track_keys _ _ _ _ Et) as [k Hk].
    match goal with |- match ?o with Some _ => _ | None => _ end = _ -> _ => destruct o; [|discriminate] end.
    intros H. injection H as <- _. unfold ps_J, ps_keys. cbn [s_dirs s_cur s_inodes s_e2i].
    rewrite Hk, Hk1, Hk2. apply HG. apply ps_added_insert.
Qed.

Lemma ps_scan_inv {S} (step : S -> list Z -> presult S) (P : S -> Prop) :
  (forall s b s', P s -> step s b = POk s' -> P s') ->
  forall fuel data off len s s', P s -> ps_scan step fuel data off len s = POk s' -> P s'.
Proof.
  intros Hstep. induction fuel as [|f IH]; intros data off len s s' Hs; [discriminate|].
  cbn [ps_scan]. destruct (off <? len); [|intros H; injection H as <-; exact Hs].
  destruct data as [|x data']; [discriminate|].
  destruct (x =? 0).
  - match goal with |- (if ?c then _ else _) = _ -> _ => destruct c; [|discriminate] end. apply IH. exact Hs.
  - destruct (step s _) as [s1| | |] eqn:E; try discriminate. apply IH. exact (Hstep _ _ _ Hs E).
Qed.

Lemma ps_walk_J fixed rd ptr isz : forall fuel st st', ps_J st -> s_cur st = [] ->
  ps_walk fixed fuel rd ptr isz st = POk st' -> ps_J st' /\ s_cur st' = [].
Proof.
  induction fuel as [|f IH]; intros st st' J Hc; [discriminate|]. cbn [ps_walk].
  destruct (s_queue st) as [|[ext len] q]; [intros H; injection H as <-; split; assumption|].
  destruct (ps_enter fixed isz (s_seen st) ext len) as [w|sn]; [discriminate|].
  destruct (rd ext len) as [data|]; [|discriminate].
  destruct (ps_scan _ _ data 0 len _) as [[st2 l2]| | |] eqn:Es; try discriminate.
  apply IH; [|reflexivity].
  assert (J2 : ps_J st2).
  { apply (ps_scan_inv (ps_record ptr isz) (fun s => ps_J (fst s))
             (fun s b s' Hs H => ltac:(destruct s as [a l]; destruct s' as [a' l'];
                                       exact (ps_record_J ptr isz a l b a' l' Hs H)))
             _ _ _ _ _ (st2, l2)) in Es; [exact Es|].
    cbn [fst]. unfold ps_J, ps_keys in *. cbn [ps_begin_dir s_dirs s_cur s_inodes s_e2i].
    rewrite Hc in J. exact J. }
  unfold ps_J, ps_keys in *. cbn [ps_end_dir s_dirs s_cur s_inodes s_e2i].
  rewrite concat_app. cbn [concat]. rewrite app_nil_r, map_app. cbn [map]. rewrite app_nil_r. exact J2.
Qed.

(* ---- THEOREM -------------------------------------------------------------------------------------------- *)
Theorem parse_shares_inodes_iff_same_extent fuel img ptr isz re rl g :
  parse fuel img ptr isz re rl = POk g ->
  forall l1 c1 l2 c2 l3, ps_all_recs g = l1 ++ c1 :: l2 ++ c2 :: l3 ->
  ps_is_dir (p_rec c1) = false -> ps_is_dir (p_rec c2) = false ->
  (exists i1 i2, p_ino c1 = Some i1 /\ p_ino c2 = Some i2 /\
                 (i1 < length (g_inodes g))%nat /\ (i2 < length (g_inodes g))%nat) /\
  (p_ino c1 = p_ino c2 <->
   data_len (p_rec c1) <> 0 /\ data_len (p_rec c2) <> 0 /\ extent (p_rec c1) = extent (p_rec c2)).
Proof.
  unfold parse, ps_parse, ps_parse_gen. destruct ptr as [|e0 pt]; [discriminate|].
  destruct (ps_walk true fuel (ms_img_read img) (e0 :: pt) isz (ps_init re rl)) as [st| | |] eqn:Ew; try discriminate.
  intros H. injection H as <-. intros l1 c1 l2 c2 l3 EK Hd1 Hd2.
  destruct (ps_walk_J true (ms_img_read img) (e0 :: pt) isz fuel (ps_init re rl) st ps_G_init eq_refl Ew) as [J Hc].
  unfold ps_J, ps_keys in J. rewrite Hc in J. cbn [map] in J. rewrite app_nil_r in J.
  unfold ps_all_recs in EK. cbn [g_dirs ps_graph g_inodes] in *.
  apply (ps_G_share _ _ _ (map ps_key l1) (p_rec c1) (p_ino c1) (map ps_key l2) (p_rec c2) (p_ino c2)
           (map ps_key l3) J); [|exact Hd1|exact Hd2].
  rewrite EK, map_app. cbn [map]. rewrite map_app. reflexivity.
Qed.

(* every zero-length file has an Inode of its own *)
Corollary parse_empty_file_own_inode fuel img ptr isz re rl g :
  parse fuel img ptr isz re rl = POk g ->
  forall l1 c1 l2 c2 l3, ps_all_recs g = l1 ++ c1 :: l2 ++ c2 :: l3 ->
  ps_is_dir (p_rec c1) = false -> ps_is_dir (p_rec c2) = false ->
  data_len (p_rec c1) = 0 \/ data_len (p_rec c2) = 0 -> p_ino c1 <> p_ino c2.
Proof.
  intros Hp l1 c1 l2 c2 l3 EK Hd1 Hd2 H0 E.
  destruct (parse_shares_inodes_iff_same_extent _ _ _ _ _ _ _ Hp _ _ _ _ _ EK Hd1 Hd2) as [_ Hiff].
  apply Hiff in E. lia.
Qed.

Print Assumptions parse_shares_inodes_iff_same_extent.
Print Assumptions parse_empty_file_own_inode.
