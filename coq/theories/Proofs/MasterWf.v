(* Master, part 4: consequences of wf_tree.
     positions           ms_node_at against PathTable.subtree of the two walks, parents
     ms_wf_node_at       well-formedness is inherited by every node of the tree
     ms_wf_blocks_ok     block counts of both walks are non-negative
     ms_rec_good         a record with fields in range encodes, is ms_dr_len bytes long and is decoded
                         back by Codec.dec_dr whatever follows it
     ms_dext_range / ms_fext_range    every extent the records mention fits 32 bits *)
From Coq Require Import ZArith List Bool Lia ZifyBool.
From PV.Base Require Import Prim ListX.
From PV.Gen Require Import GenConst GenFun.
From PV.Model Require Import Codec Pack PathTable Master.
From PV.Proofs Require Import CodecProofs PackProofs PathTableLemmas PathTableProofs.
From PV.Proofs Require AccountLemmas.
From PV.Proofs Require Import MasterPack MasterBfs.
Import ListNotations.
Local Open Scope Z_scope.
Ltac Zify.zify_post_hook ::= Z.to_euclidean_division_equations.

(* ---- positions ---------------------------------------------------------------------------------- *)

Lemma ms_tkids_dtree n : tkids (ms_dtree n) = map ms_dtree (Account.kids_of n).
Proof. destruct n; reflexivity. Qed.
Lemma ms_tkids_ftree n : tkids (ms_ftree n) = map ms_ftree (Account.kids_of n).
Proof. destruct n; reflexivity. Qed.

Lemma ms_subtree_dtree p : forall n, subtree (ms_dtree n) p = option_map ms_dtree (ms_node_at n p).
Proof.
  induction p as [|i p IH]; intros n; cbn [subtree ms_node_at]; [reflexivity|].
  rewrite ms_tkids_dtree, nth_error_map.
  destruct (nth_error (Account.kids_of n) i) as [c|]; cbn [option_map]; [apply IH|reflexivity].
Qed.

Lemma ms_subtree_ftree p : forall n, subtree (ms_ftree n) p = option_map ms_ftree (ms_node_at n p).
Proof.
  induction p as [|i p IH]; intros n; cbn [subtree ms_node_at]; [reflexivity|].
  rewrite ms_tkids_ftree, nth_error_map.
  destruct (nth_error (Account.kids_of n) i) as [c|]; cbn [option_map]; [apply IH|reflexivity].
Qed.

Lemma ms_node_at_snoc p j : forall n c, ms_node_at n p = Some c ->
  ms_node_at n (p ++ [j]) = nth_error (Account.kids_of c) j.
Proof.
  induction p as [|i p IH]; intros n c H; cbn [ms_node_at app] in *.
  - injection H as <-. destruct (nth_error (Account.kids_of n) j); reflexivity.
  - destruct (nth_error (Account.kids_of n) i) as [k|]; [|discriminate]. apply (IH k c H).
Qed.

Lemma ms_node_at_snoc_inv p j : forall n c, ms_node_at n (p ++ [j]) = Some c ->
  exists nm dl kids, ms_node_at n p = Some (Dir nm dl kids) /\ nth_error kids j = Some c.
Proof.
  induction p as [|i p IH]; intros n c H; cbn [ms_node_at app] in *.
  - destruct n as [nm len|nm dl kids]; cbn [Account.kids_of] in H.
    + destruct j; discriminate.
    + exists nm, dl, kids. split; [reflexivity|].
      destruct (nth_error kids j) as [k|]; [injection H as <-; reflexivity|discriminate].
  - destruct (nth_error (Account.kids_of n) i) as [k|]; [|discriminate]. apply (IH k c H).
Qed.

(* the directory above a position of a directory tree is a directory *)
Lemma ms_parent_dir t p c : ms_is_dir_at t [] = true -> ms_node_at t p = Some c ->
  ms_is_dir_at t (removelast p) = true.
Proof.
  intros Hroot. revert c. pattern p. apply rev_ind.
  - intros c _. exact Hroot.
  - intros j q _ c H. rewrite removelast_last.
    destruct (ms_node_at_snoc_inv q j t c H) as (nm & dl & kids & Hq & _).
    unfold ms_is_dir_at. rewrite Hq. reflexivity.
Qed.

(* ---- well-formedness is inherited ------------------------------------------------------------- *)

Lemma ms_wf_node_at p : forall b n c, ms_wf_node b n = true -> ms_node_at n p = Some c ->
  exists b', ms_wf_node b' c = true.
Proof.
  induction p as [|i p IH]; intros b n c Hw H; cbn [ms_node_at] in H.
  - injection H as <-. exists b. exact Hw.
  - destruct (nth_error (Account.kids_of n) i) as [k|] eqn:Ek; [|discriminate].
    destruct b as [|f]; [discriminate|]. destruct n as [nm len|nm dl kids]; cbn [Account.kids_of] in Ek.
    + destruct i; discriminate.
    + cbn [ms_wf_node] in Hw. apply andb_prop in Hw. destruct Hw as [_ Hk].
      rewrite forallb_forall in Hk. apply (IH f k c); [|exact H]. apply Hk.
      eapply nth_error_In. exact Ek.
Qed.

(* what wf says about one directory *)
Lemma ms_wf_dir b nm dl kids : ms_wf_node b (Dir nm dl kids) = true ->
  dl mod BS = 0 /\ num_extents BS (34 :: 34 :: map Account.dr_len_of (map Account.name_of kids)) * BS <= dl /\
  BS <= dl <= 4294967295 /\
  Forall (fun c => exists f, ms_wf_node f c = true) kids.
Proof.
  destruct b as [|f]; [discriminate|]. cbn [ms_wf_node]. intros H.
  repeat (apply andb_prop in H; destruct H as [H ?]).
  match goal with Hi : Invb _ _ = true |- _ => unfold Invb, Account.dir_st, Account.st_of in Hi;
    cbn [recs dlen] in Hi; apply andb_prop in Hi; destruct Hi as [Hm Hn] end.
  assert (Hge : 1 <= num_extents BS (34 :: 34 :: map Account.dr_len_of (map Account.name_of kids))).
  { unfold num_extents. change (nf BS 1 0 (34 :: 34 :: ?l)) with (nf BS 1 68 l).
    set (l := map Account.dr_len_of (map Account.name_of kids)).
    assert (G : forall l n o, n <= fst (nf BS n o l)).
    { clear. induction l as [|x l IH]; intros n o; cbn [nf fst]; [lia|].
      destruct (o + x >? BS); [specialize (IH (n + 1) (0 + x)); lia|apply IH]. }
    apply G. }
  rewrite ms_BS in *. repeat split; try lia.
  apply Forall_forall. intros c Hc. exists f.
  match goal with Hk : forallb _ kids = true |- _ => rewrite forallb_forall in Hk; exact (Hk c Hc) end.
Qed.

Lemma ms_wf_kid b nm dl kids j c : ms_wf_node b (Dir nm dl kids) = true -> nth_error kids j = Some c ->
  match c with
  | File n len => ms_name_ok n = true /\ 0 <= len <= Account.max_len
  | Dir n dl' _ => ms_name_ok n = true /\ BS <= dl' <= 4294967295
  end.
Proof.
  intros Hw Hj. destruct (ms_wf_dir _ _ _ _ Hw) as (_ & _ & _ & Hk).
  rewrite Forall_forall in Hk. destruct (Hk c (nth_error_In _ _ Hj)) as [f Hf].
  destruct c as [n len|n dl' kids'].
  - destruct f as [|f]; [discriminate|]. cbn [ms_wf_node] in Hf.
    repeat (apply andb_prop in Hf; destruct Hf as [Hf ?]). split; [unfold ms_name_ok; lia|lia].
  - destruct (ms_wf_dir _ _ _ _ Hf) as (_ & _ & Hr & _). split; [|exact Hr].
    destruct f as [|f]; [discriminate|]. cbn [ms_wf_node] in Hf.
    repeat (apply andb_prop in Hf; destruct Hf as [Hf ?]). unfold ms_name_ok. lia.
Qed.

Lemma ms_ceil_nonneg v : 0 <= v -> 0 <= ceiling_div v BS.
Proof. unfold ceiling_div. rewrite ms_BS. lia. Qed.

Lemma ms_wf_blocks_ok b : forall n, ms_wf_node b n = true ->
  blocks_okb (ms_dtree n) = true /\ blocks_okb (ms_ftree n) = true.
Proof.
  induction b as [|f IH]; intros n Hw; [discriminate|].
  destruct n as [nm len|nm dl kids].
  - cbn [ms_wf_node] in Hw. repeat (apply andb_prop in Hw; destruct Hw as [Hw ?]).
    cbn [ms_dtree ms_ftree blocks_okb forallb]. pose proof (ms_ceil_nonneg len ltac:(lia)). split; lia.
  - destruct (ms_wf_dir _ _ _ _ Hw) as (_ & _ & Hr & _).
    cbn [ms_wf_node] in Hw. apply andb_prop in Hw. destruct Hw as [_ Hk].
    rewrite forallb_forall in Hk.
    cbn [ms_dtree ms_ftree blocks_okb]. rewrite ms_BS in Hr.
    pose proof (ms_ceil_nonneg dl ltac:(lia)).
    split; apply andb_true_intro; (split; [lia|]); apply forallb_forall; intros x Hx;
      apply in_map_iff in Hx; destruct Hx as (c & <- & Hc); apply (IH c (Hk c Hc)).
Qed.

(* ---- one record ----------------------------------------------------------------------------------- *)

Lemma ms_dr_len_of dt ext len fl nm :
  Codec.dr_len_of (ms_rec dt ext len fl nm) = Account.dr_len_of nm.
Proof.
  unfold Codec.dr_len_of, Account.dr_len_of, ms_rec. cbn [Codec.ident sysuse].
  rewrite zlen_nil. unfold fmt_dr_size. pose proof (zlen_nonneg nm). lia.
Qed.

Lemma ms_name_ok_spec nm : ms_name_ok nm = true -> 34 <= Account.dr_len_of nm <= 254.
Proof. unfold ms_name_ok, Account.dr_len_of. lia. Qed.

Theorem ms_rec_good dt ext len fl nm : length dt = 7%nat ->
  0 <= ext <= 4294967295 -> 0 <= len <= 4294967295 -> 0 <= fl <= 255 ->
  34 <= Account.dr_len_of nm <= 254 ->
  exists b, enc_dr (ms_rec dt ext len fl nm) = Some b /\ ms_good (ms_rec dt ext len fl nm) b /\
            zlen b = Account.dr_len_of nm.
Proof.
  intros Hdt He Hl Hf Hn. set (r := ms_rec dt ext len fl nm).
  assert (Hfit : exists b, enc_dr r = Some b).
  { apply dr_fits. split; [unfold r; rewrite ms_dr_len_of; lia|].
    unfold fields_ok, byte, u32, u16, r, ms_rec.
    cbn [xattr_len extent data_len flags unit_size gap_size seqnum]. lia. }
  destruct Hfit as [b Hb]. exists b. split; [exact Hb|].
  destruct (dr_len_value r b Hb) as [Hlen H0]. unfold r in Hlen, H0. rewrite ms_dr_len_of in Hlen, H0.
  assert (Hw : wf_drec r).
  { split; [exact Hdt|left; reflexivity]. }
  split; [|exact Hlen]. split; [|split; [congruence|rewrite ms_BS; lia]].
  intros rest. rewrite (dr_roundtrip r Hw b rest Hb). reflexivity.
Qed.

Lemma ms_enc_of r b : enc_dr r = Some b -> ms_enc r = b /\ ms_enc_ok r = true.
Proof. intros H. unfold ms_enc, ms_enc_ok. rewrite H. split; reflexivity. Qed.

(* ---- every extent the records mention fits 32 bits ----------------------------------------------- *)

Section Ranges.
  Variable t : node.
  Hypothesis Hwf : wf_tree t = true.

  Lemma ms_wf_root : exists dl kids, t = Dir [0] dl kids /\ ms_wf_node 8 t = true /\
                                     ms_layout_end t <= 4294967296.
  Proof.
    pose proof Hwf as Hw. unfold wf_tree in Hw. destruct t as [nm len|nm dl kids]; [discriminate|].
    repeat (apply andb_prop in Hw; destruct Hw as [Hw ?]).
    apply AccountLemmas.bytes_eqb_eq in Hw. subst nm. exists dl, kids.
    split; [reflexivity|]. split; [assumption|lia].
  Qed.

  Lemma ms_wf_at p c : ms_node_at t p = Some c -> exists b, ms_wf_node b c = true.
  Proof. destruct ms_wf_root as (dl & kids & _ & Hw & _). intros H. exact (ms_wf_node_at p 8 t c Hw H). Qed.

  Lemma ms_root_is_dir : ms_is_dir_at t [] = true.
  Proof. destruct ms_wf_root as (dl & kids & -> & _). reflexivity. Qed.

  Lemma ms_first_nonneg : 0 <= first_dir_extent t.
  Proof.
    unfold first_dir_extent, ms_ptr_ext.
    assert (0 <= Account.total Account.w_ptr t).
    { apply AccountLemmas.total_nonneg. intros d nm v. unfold Account.w_ptr, ptr_record_length.
      pose proof (zlen_nonneg nm). destruct d; lia. }
    unfold ceiling_div. lia.
  Qed.

  Lemma ms_dir_end_le : first_dir_extent t <= ms_dir_end t /\ ms_dir_end t <= ms_layout_end t.
  Proof.
    destruct ms_wf_root as (dl & kids & E & Hw & _).
    destruct (ms_wf_blocks_ok 8 t Hw) as [Hd Hf].
    assert (H1 : exists r, In r (ms_DB t)).
    { unfold ms_DB. rewrite E. cbn [ms_dtree]. rewrite bfs_unfold. eexists. left. reflexivity. }
    assert (H2 : exists r, In r (ms_FB t)).
    { unfold ms_FB. rewrite E. cbn [ms_ftree]. rewrite bfs_unfold. eexists. left. reflexivity. }
    destruct H1 as [r1 H1]. destruct H2 as [r2 H2].
    pose proof (ms_bfs_bounds _ _ r1 Hd H1). pose proof (ms_bfs_bounds _ _ r2 Hf H2).
    unfold ms_layout_end, ms_dir_end in *. lia.
  Qed.

  (* a directory: its record of the first walk *)
  Lemma ms_dext_spec p nm dl kids : ms_node_at t p = Some (Dir nm dl kids) ->
    exists r, In r (ms_DB t) /\ d_pos r = p /\ ms_ext_at (ms_DB t) p = d_extent r /\
              d_blocks r = ceiling_div dl BS.
  Proof.
    intros H.
    destruct (ms_ext_at_spec (first_dir_extent t) (ms_dtree t) p (ms_dtree (Dir nm dl kids)))
      as (r & Hr & Hp & He & _ & Hb).
    { rewrite ms_subtree_dtree, H. reflexivity. }
    exists r. repeat split; assumption.
  Qed.

  Lemma ms_dext_range p nm dl kids : ms_node_at t p = Some (Dir nm dl kids) ->
    first_dir_extent t <= ms_ext_at (ms_DB t) p /\
    ms_ext_at (ms_DB t) p + dl / BS <= ms_dir_end t /\ 0 <= ms_ext_at (ms_DB t) p <= 4294967295.
  Proof.
    intros H. destruct (ms_dext_spec p nm dl kids H) as (r & Hr & _ & He & Hb).
    destruct ms_wf_root as (_ & _ & _ & Hw & Hend).
    destruct (ms_wf_blocks_ok 8 t Hw) as [Hd _].
    pose proof (ms_bfs_bounds _ _ r Hd Hr) as B.
    destruct (ms_wf_at p _ H) as [b Hb'].
    destruct (ms_wf_dir _ _ _ _ Hb') as (Hm & _ & Hr' & _).
    pose proof ms_first_nonneg. pose proof ms_dir_end_le.
    fold (ms_dir_end t) in B. rewrite He, Hb in *.
    unfold ceiling_div in B. rewrite ms_BS in *. lia.
  Qed.

  (* a file with data: its record of the second walk *)
  Lemma ms_fext_range p nm len : ms_node_at t p = Some (File nm len) -> 0 <= len ->
    0 <= ms_fext (ms_FB t) p len <= 4294967295.
  Proof.
    intros H Hl. unfold ms_fext. destruct (len =? 0) eqn:E0; [lia|].
    destruct (ms_ext_at_spec (ms_dir_end t) (ms_ftree t) p (ms_ftree (File nm len)))
      as (r & Hr & _ & He & _ & Hb).
    { rewrite ms_subtree_ftree, H. reflexivity. }
    destruct ms_wf_root as (_ & _ & _ & Hw & Hend).
    destruct (ms_wf_blocks_ok 8 t Hw) as [_ Hf].
    pose proof (ms_bfs_bounds _ _ r Hf Hr) as B.
    pose proof ms_first_nonneg. pose proof ms_dir_end_le.
    fold (ms_FB t) in He. fold (ms_layout_end t) in B. rewrite He.
    cbn [ms_ftree tblocks] in Hb. rewrite Hb in B.
    unfold ceiling_div in B. rewrite ms_BS in *. lia.
  Qed.
End Ranges.

Print Assumptions ms_rec_good.
Print Assumptions ms_dext_range.
Print Assumptions ms_fext_range.
