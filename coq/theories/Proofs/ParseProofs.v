(* Parse: pycdlib's own parser (PyCdlib._walk_directories, Model/Parse.v) run on the directory area that
   pycdlib's writer produced (Model/Master.v), for EVERY well-formed tree whose names the library accepts
   (Parse.ps_tree_ok = Master.wf_tree + _check_iso9660_filename / _check_iso9660_directory at level 3 --
   what add_fp / add_directory test before they create a record).

   Main results (closed under the global context, see the end of the file)
     parse_master                 open(write(t)) is the object graph the writer had, numbered breadth first
     parse_master_frame           ... also from any larger medium whose other chunks do not overlap
     parse_rejects_nothing_valid  no raise statement of the walk is reached, nothing leaves the fragment
     remaster_fixpoint            master (tree_of (parse (master t))) = master t, byte for byte, and the
                                  layout (directory extents, file extents) is the same
   Helper files: ParseScan (one extent), ParseTrack / ParseRecord (one record), ParseDir / ParseDirAll (one
   directory), ParseWalk (the deque), ParseTree (tree_of).
   Further results, in files of their own:
     ParseShareWalk.parse_shares_inodes_iff_same_extent  (for ANY image) two non-directory records share an
                                  Inode iff both have data and the same extent; empty files: one Inode each
     ParseWrite.reopen_write_fixpoint  write_fp of the opened, unedited object gives the image back (no reshuffle)
     ParseTrunc.parse_truncation_lengths  (for ANY image) a record that reaches beyond the end of the image, and
                                  every record linked to its Inode, carries the Inode's length = bytes left
     ParseTotalInst (C15)         parse_file_total_any_image / parse_total_any_image (termination on ANY bytes),
                                  parse_work_bounded_partial (quadratic bound), parse_work_bounded_refuted
                                  (no linear bound: overlapping directories), parse_only_documented_errors
     ParseExamples                non-vacuity; graph_of_level, parse_infers_level_refuted,
                                  parse_truncation_example, parse_truncation_refuted_old (the code before
                                  commit 10cfb30), parse_share_lengths_differ *)
From Coq Require Import ZArith List Bool Lia ZifyBool.
From PV.Base Require Import Prim ListX.
From PV.Gen Require Import GenConst GenFun.
From PV.Model Require Import Codec Pack PathTable Names Master Parse.
From PV.Proofs Require Import CodecProofs PackProofs PathTableLemmas PathTableProofs AccountLemmas.
From PV.Proofs Require Import MasterPack MasterImage MasterBfs MasterWf MasterDir MasterChecker MasterProofs.
From PV.Proofs Require Import ParseScan ParseTrack ParseRecord ParseDir ParseDirAll ParseWalk ParseTree.
Import ListNotations.
Local Open Scope Z_scope.

Lemma ps_tree_ok_spec t : ps_tree_ok t = true ->
  wf_tree t = true /\ forallb ps_names_ok (Account.kids_of t) = true.
Proof. unfold ps_tree_ok. intros H. apply andb_prop in H. exact H. Qed.

Lemma ps_root_ext t dl kids : t = Dir [0] dl kids -> ms_ext_at (ms_DB t) [] = first_dir_extent t.
Proof. intros E. unfold ms_ext_at, ms_DB. rewrite E. cbn [ms_dtree]. rewrite bfs_unfold. reflexivity. Qed.

Lemma ps_qof_root t dl kids : t = Dir [0] dl kids ->
  ps_qof (ms_DB t) ([], t) = (root_extent t, root_len t) /\ filter ps_item_is_dir [([], t)] = [([], t)].
Proof.
  intros ->. split; [|reflexivity]. unfold ps_qof, root_extent, root_len, ms_dlen_at. cbn [ms_node_at].
  rewrite (ps_root_ext _ dl kids eq_refl). reflexivity.
Qed.

Lemma ps_ptr_mem t : wf_tree t = true -> forall p, ms_is_dir_at t p = true ->
  ps_mem (ms_ext_at (ms_DB t) p) (ps_ptr_exts t) = true.
Proof.
  intros Hwf p Hp. unfold ps_mem, ps_ptr_exts. apply existsb_exists.
  exists (ms_ext_at (ms_DB t) p). split; [|apply Z.eqb_refl].
  apply in_map. apply ms_positions_complete. exact Hp.
Qed.

Section Main.
  Variable dt : list Z.
  Hypothesis Hdt : length dt = 7%nat.
  Variable t : node.
  Hypothesis Hok : ps_tree_ok t = true.
  Variable isz : Z.
  Hypothesis Hisz : ms_layout_end t * BS <= isz.
  Variable img' : image.
  Hypothesis Himg : ms_img_ok img'.
  Hypothesis Hincl : incl (map (ms_chunk dt t (ms_DB t) (ms_FB t)) (ms_dir_positions t)) img'.

  Lemma ps_parse_master F : (tsize (ms_dtree t) < F)%nat ->
    parse F img' (ps_ptr_exts t) isz (root_extent t) (root_len t) = POk (graph_of dt t).
  Proof.
    intros HF. destruct (ps_tree_ok_spec t Hok) as [Hwf Hnm].
    destruct (ms_wf_root t Hwf) as (dl & kids & E & _).
    unfold parse, ps_parse, ps_parse_gen, graph_of.
    assert (Hne : ps_ptr_exts t <> []).
    { unfold ps_ptr_exts. intros H. apply map_eq_nil in H.
      pose proof (ms_positions_complete t [] (ms_root_is_dir t Hwf)) as Hin. rewrite H in Hin. exact Hin. }
    destruct (ps_ptr_exts t) as [|e0 pt] eqn:Ept; [congruence|]. rewrite <- Ept.
    rewrite (ps_walk_ok dt Hdt t Hwf Hnm (ps_ptr_exts t) (ps_ptr_mem t Hwf) isz Hisz img' Himg Hincl
               (tsize (ms_dtree t)) [([], t)] (ps_init (root_extent t) (root_len t)) [] F); [reflexivity| |exact HF].
    constructor.
    - destruct (ps_qof_root t dl kids E) as [Hq Hf]. rewrite Hf. cbn [map ps_init s_queue]. rewrite Hq. reflexivity.
    - intros p n [Hin|[]]. injection Hin as <- <-. reflexivity.
    - intros e i [].
    - intros e [].
    - cbn [app ps_dq map fst snd]. fold (write_order (ms_dtree t)).
      rewrite (write_order_is_bfs (first_dir_extent t)). apply ms_bfs_nodup.
    - cbn [ps_dq map fst snd]. rewrite ps_wsize_cons. unfold ps_wsize. cbn. lia.
    - reflexivity.
    - cbn. lia.
  Qed.
End Main.

(* ---- THEOREM 1 ---------------------------------------------------------------------------------------- *)
(* [F]: any fuel above the number of records; [isz]: the length of the image file, at least the layout *)
Theorem parse_master dt t img F isz : length dt = 7%nat -> ps_tree_ok t = true ->
  master dt t = Some img -> (tsize (ms_dtree t) < F)%nat -> ms_layout_end t * BS <= isz ->
  parse F img (ps_ptr_exts t) isz (root_extent t) (root_len t) = POk (graph_of dt t).
Proof.
  intros Hdt Hok Hm HF Hisz. destruct (ps_tree_ok_spec t Hok) as [Hwf _].
  rewrite (ms_master_some dt Hdt t Hwf) in Hm. injection Hm as <-.
  apply ps_parse_master; try assumption; [apply ms_master_img_ok; assumption|apply incl_refl].
Qed.

Theorem parse_master_frame dt t img img' F isz : length dt = 7%nat -> ps_tree_ok t = true ->
  master dt t = Some img -> ms_img_ok img' -> incl img img' ->
  (tsize (ms_dtree t) < F)%nat -> ms_layout_end t * BS <= isz ->
  parse F img' (ps_ptr_exts t) isz (root_extent t) (root_len t) = POk (graph_of dt t).
Proof.
  intros Hdt Hok Hm Hi Hincl HF Hisz. destruct (ps_tree_ok_spec t Hok) as [Hwf _].
  rewrite (ms_master_some dt Hdt t Hwf) in Hm. injection Hm as <-.
  apply ps_parse_master; assumption.
Qed.

(* ---- THEOREM 2 ---------------------------------------------------------------------------------------- *)
(* none of the raise statements of the walk (1 'Invalid directory record', 2 DirectoryRecord.parse,
   3 KeyError extent_to_ptr, 4 duplicate name, 5 ValueError int(version), 6 'Invalid padding on ISO',
   7 'Directory loop on the ISO' (the walk before commit 863c802), 8 empty path table,
   9 'Overlapping directories on the ISO') is reached, nothing leaves the fragment, the fuel
   suffices *)
Theorem parse_rejects_nothing_valid dt t img F isz : length dt = 7%nat -> ps_tree_ok t = true ->
  master dt t = Some img -> (tsize (ms_dtree t) < F)%nat -> ms_layout_end t * BS <= isz ->
  (forall w, parse F img (ps_ptr_exts t) isz (root_extent t) (root_len t) <> PInvalid w) /\
  (forall w, parse F img (ps_ptr_exts t) isz (root_extent t) (root_len t) <> PUnsupported w) /\
  parse F img (ps_ptr_exts t) isz (root_extent t) (root_len t) <> PFuel.
Proof.
  intros Hdt Hok Hm HF Hisz. rewrite (parse_master dt t img F isz Hdt Hok Hm HF Hisz).
  repeat split; intros; discriminate.
Qed.

(* ---- THEOREM 3 ---------------------------------------------------------------------------------------- *)
Theorem remaster_fixpoint dt t img F isz g : length dt = 7%nat -> ps_tree_ok t = true ->
  master dt t = Some img -> (tsize (ms_dtree t) < F)%nat -> ms_layout_end t * BS <= isz ->
  parse F img (ps_ptr_exts t) isz (root_extent t) (root_len t) = POk g ->
  tree_of g (root_len t) = t /\
  master dt (tree_of g (root_len t)) = Some img /\
  ms_layout_pairs (tree_of g (root_len t)) = ms_layout_pairs t /\
  root_extent (tree_of g (root_len t)) = root_extent t /\
  ms_layout_end (tree_of g (root_len t)) = ms_layout_end t.
Proof.
  intros Hdt Hok Hm HF Hisz Hp. rewrite (parse_master dt t img F isz Hdt Hok Hm HF Hisz) in Hp.
  injection Hp as <-. destruct (ps_tree_ok_spec t Hok) as [Hwf _].
  rewrite (tree_of_graph_of dt t Hwf). repeat split; try reflexivity. exact Hm.
Qed.

Print Assumptions parse_master.
Print Assumptions parse_master_frame.
Print Assumptions parse_rejects_nothing_valid.
Print Assumptions remaster_fixpoint.
