(* Parse: non-vacuity, and what is FALSE for the faithful model (each with a concrete witness, by vm_compute).
     ps_example_ok                 a tree with sub-directories, empty files next to each other, an empty file
                                   followed by a non-empty one: all hypotheses of the main theorems hold, and
                                   parse (master t) = graph_of t, tree_of gives t back, ps_write gives the image back
     graph_of_level                the interchange level inferred by open is 3 for EVERY tree ...
     parse_infers_level_refuted    ... even when every name is a level-1 name: the printable name b'.' of the
                                   '.' record is not made of d1 characters (real library: /var/tmp/parse/probe_level.py)
     parse_truncation_example      a file that ends beyond the end of the image: Inode and record get the bytes
                                   that are left (the code after commit 10cfb30; the general statement is
                                   ParseTrunc.parse_truncation_lengths)
     parse_truncation_refuted_old  before that commit (ps_link_gen false) the RECORD got the absolute end offset
                                   extent*2048+length (/var/tmp/parse/probe_trunc.py on the tree before 10cfb30)
     parse_share_lengths_differ    two records with the same extent and different non-zero lengths share one
                                   Inode, whose length is the first record's (probe_same_extent.py) *)
From Coq Require Import ZArith List Bool Lia.
From PV.Base Require Import Prim.
From PV.Model Require Import Codec Pack PathTable Master Parse.
From PV.Proofs Require Import ParseDirAll ParseTree.
Import ListNotations.
Local Open Scope Z_scope.

Definition ps_ex_dt : list Z := [123; 11; 14; 22; 13; 20; 0].

(* /A.;1 (0 bytes) /B.;1 (0 bytes) /C.;1 (5 bytes) /D (directory: /D/E.;1 3000 bytes, /D/F (empty directory)) *)
Definition ps_ex_t : node :=
  Dir [0] 2048 [File [65; 46; 59; 49] 0; File [66; 46; 59; 49] 0; File [67; 46; 59; 49] 5;
                Dir [68] 2048 [File [69; 46; 59; 49] 3000; Dir [70] 2048 []]].

Definition ps_ex_parse : presult pgraph :=
  match master ps_ex_dt ps_ex_t with
  | Some img => parse (ps_fuel ps_ex_t) img (ps_ptr_exts ps_ex_t) (ms_layout_end ps_ex_t * BS)
                      (root_extent ps_ex_t) (root_len ps_ex_t)
  | None => PFuel
  end.

Theorem ps_example_ok :
  ps_tree_ok ps_ex_t = true /\
  ps_ex_parse = POk (graph_of ps_ex_dt ps_ex_t) /\
  map (fun c => ps_oz (p_ino c)) (ps_all_recs (graph_of ps_ex_dt ps_ex_t))
    = [-1; -1; 0; 1; 2; -1;  -1; -1; 3; -1;  -1; -1] /\
  g_inodes (graph_of ps_ex_dt ps_ex_t) = [(0, 0); (0, 0); (26, 5); (27, 3000)] /\
  tree_of (graph_of ps_ex_dt ps_ex_t) (root_len ps_ex_t) = ps_ex_t /\
  ps_write (graph_of ps_ex_dt ps_ex_t) (root_extent ps_ex_t) (root_len ps_ex_t) = master ps_ex_dt ps_ex_t.
Proof. vm_compute. repeat split; reflexivity. Qed.

(* ---- the inferred interchange level ---------------------------------------------------------------------- *)

Lemma ps_gwalk_level dt t : forall f items st, s_level st = 3 ->
  s_level (ps_gwalk f dt t (ms_DB t) (ms_FB t) items st) = 3.
Proof.
  induction f as [|f IH]; intros items st H; [exact H|]. destruct items as [|[p [fn len|nm dl kids]] q]; [exact H| |].
  - cbn [ps_gwalk]. apply IH. exact H.
  - cbn [ps_gwalk]. apply IH. unfold ps_spec_dir. cbn [ps_end_dir s_level].
    destruct (ps_spec_kids_fields dt (ms_DB t) (ms_FB t) p kids 0
                (skipn 2 (cached BS (34 :: 34 :: map Account.dr_len_of (map Account.name_of kids))))
                (mk_pstate (s_dirs st)
                   [ps_dot_prec (ms_rec dt (ms_ext_at (ms_DB t) p) dl 2 [0]) 0 1 34;
                    ps_dot_prec (ms_rec dt (ms_ext_at (ms_DB t) (removelast p)) (ms_dlen_at t (removelast p)) 2 [1]) 1 1 68]
                   (tl (s_queue st)) (s_inodes st) (s_e2i st) (ps_blocks_of (ms_ext_at (ms_DB t) p) dl ++ s_seen st) 3 (s_lastbyte st)))
      as (_ & _ & L). rewrite L. reflexivity.
Qed.

Theorem graph_of_level dt t nm dl kids : t = Dir nm dl kids -> g_level (graph_of dt t) = 3.
Proof.
  intros ->. unfold graph_of. cbn [g_level ps_graph]. cbn [ms_dtree tsize ps_gwalk]. apply ps_gwalk_level.
  unfold ps_spec_dir. cbn [ps_end_dir s_level].
  match goal with |- s_level (ps_spec_kids ?a ?b ?c ?d ?e ?f ?g ?h) = _ =>
    destruct (ps_spec_kids_fields a b c d f e g h) as (_ & _ & L) end.
  rewrite L. reflexivity.
Qed.

(* one level-1 file name, nothing else: new(interchange_level=1) would have accepted it *)
Definition ps_ex_l1 : node := Dir [0] 2048 [File [65; 46; 59; 49] 1].

Theorem parse_infers_level_refuted :
  exists dt t, ps_tree_ok t = true /\
    forallb (fun c => match Names.check_iso9660_filename (Account.name_of c) 1 with
                      | Names.Accept => true | _ => false end) (Account.kids_of t) = true /\
    ~ g_level (graph_of dt t) = 1.
Proof. exists ps_ex_dt, ps_ex_l1. vm_compute. repeat split; try reflexivity. discriminate. Qed.

(* ---- truncation -------------------------------------------------------------------------------------------- *)

(* the image of ps_ex_l1 with a 5000-byte file, cut after 2000 bytes of the file's data *)
Definition ps_ex_cut : node := Dir [0] 2048 [File [65; 46; 59; 49] 5000].
Definition ps_ex_cut_size : Z := (ms_dir_end ps_ex_cut) * BS + 2000.

Definition ps_ex_cut_parse : presult pgraph :=
  match master ps_ex_dt ps_ex_cut with
  | Some img => parse (ps_fuel ps_ex_cut) img (ps_ptr_exts ps_ex_cut) ps_ex_cut_size
                      (root_extent ps_ex_cut) (root_len ps_ex_cut)
  | None => PFuel
  end.

(* the repaired code (commit 10cfb30): record and Inode both get the 2000 bytes that are left *)
Theorem parse_truncation_example :
  exists g c, ps_ex_cut_parse = POk g /\ nth_error (ps_all_recs g) 2 = Some c /\
    p_ino c = Some 0%nat /\ nth_error (g_inodes g) 0 = Some (24, 2000) /\
    data_len (p_rec c) = 5000 /\ p_dlen c = 2000.
Proof.
  unfold ps_ex_cut_parse.
  destruct (master ps_ex_dt ps_ex_cut) as [img|] eqn:E; [|vm_compute in E; discriminate].
  vm_compute in E. injection E as <-.
  eexists. eexists. split; [vm_compute; reflexivity|]. vm_compute. repeat split; reflexivity.
Qed.

(* the code BEFORE the repair (ps_link_gen false): "the new record's data_length is the length of its Inode"
   was FALSE -- the record got the absolute end offset extent*2048+length, the Inode the bytes left *)
Theorem parse_truncation_refuted_old :
  exists isz st ext dl i d st1 e l,
    ps_link_gen false isz st ext dl = (i, d, st1) /\ nth_error (s_inodes st1) i = Some (e, l) /\
    l = isz - ext * 2048 /\ d = ext * 2048 + dl /\ d <> l.
Proof.
  exists ps_ex_cut_size, (ps_init 23 2048), 24, 5000. do 5 eexists.
  split; [vm_compute; reflexivity|]. vm_compute. repeat split; try reflexivity. discriminate.
Qed.

(* ---- sharing by extent only ---------------------------------------------------------------------------------- *)

(* the per-record step on two hand-made file records: same extent 30, lengths 5000 and 100 *)
Definition ps_ex_recA : drec := mk_drec 0 30 5000 ps_ex_dt 0 0 0 1 [65; 46; 59; 49] [].
Definition ps_ex_recB : drec := mk_drec 0 30 100 ps_ex_dt 0 0 0 1 [66; 46; 59; 49] [].

Definition ps_fold_two : presult (pstate * option (list Z)) :=
  match ps_record [23] 1000000 (ps_init 23 2048, None) (ms_enc ps_ex_recA) with
  | POk s => ps_record [23] 1000000 s (ms_enc ps_ex_recB)
  | e => e
  end.

Theorem parse_share_lengths_differ :
  exists st, ps_fold_two = POk st /\
    map (fun c => ps_oz (p_ino c)) (s_cur (fst st)) = [0; 0] /\ s_inodes (fst st) = [(30, 5000)].
Proof. eexists. split; [vm_compute; reflexivity|]. vm_compute. split; reflexivity. Qed.

Print Assumptions ps_example_ok.
Print Assumptions graph_of_level.
Print Assumptions parse_infers_level_refuted.
Print Assumptions parse_truncation_example.
Print Assumptions parse_truncation_refuted_old.
Print Assumptions parse_share_lengths_differ.
