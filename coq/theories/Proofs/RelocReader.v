(* Proofs/RelocReader.v -- the independent reader of Model/RelocView.v, run on the image of any
   state that satisfies the invariant, returns the logical tree with st_nlink = 2 + logical
   sub-directories at every directory, and for the root the PX count of its '.' record. *)
From Coq Require Import ZArith List Bool Lia Permutation.
From PV.Model Require Import RelocCore RelocView.
From PV.Proofs Require Import RelocBase RelocPath RelocInv RelocExt RelocPaths.
Import ListNotations.
Local Open Scope Z_scope.

Lemma rl_lookup_in (im : image) e recs : NoDup (map fst im) -> In (e, recs) im -> lookup im e = Some recs.
Proof.
  induction im as [|[e' r'] im IH]; intros N H; [destruct H|]. cbn [lookup].
  cbn [map fst] in N. inversion N as [|? ? Hn N']; subst. destruct H as [H|H].
  - injection H as -> ->. rewrite Z.eqb_refl. reflexivity.
  - destruct (e' =? e) eqn:E; [|apply IH; assumption]. apply Z.eqb_eq in E. subst e'.
    exfalso. apply Hn. change e with (fst (e, recs)). apply in_map. exact H.
Qed.

Lemma rl_ldirs_erase ks : ldirs (map erase ks) = ndirs ks.
Proof. induction ks as [|k ks IH]; cbn [map ldirs ndirs]; [reflexivity|]. rewrite IH. destruct k; reflexivity. Qed.

Lemma rl_read_recs_cons rd b r rs :
  read_recs rd b (r :: rs) =
  if neqb (r_iso r) dot_name || neqb (r_iso r) dotdot_name then read_recs rd b rs
  else if r_re r then read_recs rd b rs
  else if b && neqb (r_iso r) moved_name then read_recs rd b rs
  else match r_cl r with
       | Some ce => match rd ce, read_recs rd b rs with
                    | Some (n, ks), Some rest => Some (RDir (r_iso r) (r_rr r) n ks :: rest)
                    | _, _ => None
                    end
       | None => if r_dir r
                 then match rd (r_ext r), read_recs rd b rs with
                      | Some (n, ks), Some rest => Some (RDir (r_iso r) (r_rr r) n ks :: rest)
                      | _, _ => None
                      end
                 else match read_recs rd b rs with
                      | Some rest => Some (RLeaf (r_sym r) (r_iso r) (r_rr r) :: rest)
                      | None => None
                      end
       end.
Proof. reflexivity. Qed.

Lemma rl_name_ok_parts i : name_ok i = true ->
  neqb i dot_name = false /\ neqb i dotdot_name = false /\ neqb i moved_name = false.
Proof. unfold name_ok. rewrite !andb_true_iff, !negb_true_iff. tauto. Qed.

(* the records of the children of a directory read back as the decorated logical children *)
Lemma rl_read_recs_kids (E : ppath -> Z) rd b self ks : Forall rl_ok ks ->
  (forall k, In k ks -> match k with
                        | Dir i r e d m sub => rd (E (self_path self k)) =
                            Some (2 + ldirs (map erase sub), map decorate (map erase sub))
                        | Leaf _ _ _ => True
                        end) ->
  read_recs rd b (map (kid_rec E self) ks) = Some (map decorate (map erase ks)).
Proof.
  induction ks as [|k ks IH]; intros F H; [reflexivity|]. inversion F as [|? ? Fk F']; subst.
  cbn [map]. rewrite rl_read_recs_cons.
  rewrite IH; [|exact F'|intros k2 Hk2; apply H; right; exact Hk2].
  pose proof (H k (or_introl eq_refl)) as Hk.
  destruct (rl_name_ok_parts _ (rl_ok_name _ Fk)) as (N0 & N1 & N2).
  destruct k as [i r e d [mn|] sub|sy i r]; cbn [kid_rec r_iso r_rr r_re r_cl r_dir r_ext r_sym niso] in *;
    rewrite N0, N1, N2, andb_false_r; cbn [orb].
  - cbn [self_path] in Hk. rewrite Hk. reflexivity.
  - cbn [self_path niso] in Hk. rewrite Hk. reflexivity.
  - reflexivity.
Qed.

Lemma rl_read_recs_ins rd own l : r_iso own = moved_name ->
  read_recs rd true (ins_rec own l) = read_recs rd true l.
Proof.
  intros Ho. assert (Skip : forall t, read_recs rd true (own :: t) = read_recs rd true t).
  { intros t. rewrite rl_read_recs_cons, Ho. cbn. destruct (r_re own); reflexivity. }
  induction l as [|h l IH]; cbn [ins_rec]; [apply Skip|].
  destruct (nlt (r_iso h) (r_iso own)); [|apply Skip].
  rewrite !(rl_read_recs_cons rd true h), IH. reflexivity.
Qed.

Section Reader.
Variables (sz : ppath -> Z) (start : Z) (s : state).
Hypothesis Hsz : forall x, 1 <= sz x.
Hypothesis Hinv : rl_inv s.

Let E := ext_of sz start s.
Let im := view sz start s.

Lemma rl_entry_fst mv x : fst (entry E mv x) = node_path x.
Proof. destruct x as [[pcur pl] [i r e d [mn|] ks|sy i r]]; reflexivity. Qed.

Lemma rl_phys_paths : map fst (phys E s) = ppaths s.
Proof.
  unfold phys, ppaths, moved_entry. cbn [map fst root_entry]. f_equal. rewrite map_app. f_equal.
  - destruct (moved_live s); reflexivity.
  - rewrite map_map. apply map_ext. intros x. apply rl_entry_fst.
Qed.

Lemma rl_im_keys : map fst im = map E (ppaths s).
Proof. unfold im, view. rewrite map_map. cbn [fst]. rewrite <- rl_phys_paths, map_map. reflexivity. Qed.

Lemma rl_E_inj p q : In p (ppaths s) -> In q (ppaths s) -> E p = E q -> p = q.
Proof. apply rl_ext_inj. exact Hsz. Qed.

Lemma rl_im_NoDup : NoDup (map fst im).
Proof.
  rewrite rl_im_keys. apply rl_NoDup_map_inj; [apply rl_ppaths_NoDup; exact Hinv|].
  intros x y. apply rl_E_inj.
Qed.

Lemma rl_im_lookup p recs : In (p, recs) (phys E s) -> lookup im (E p) = Some recs.
Proof.
  intros H. apply rl_lookup_in; [apply rl_im_NoDup|]. unfold im, view.
  apply (in_map (fun x => (ext_of sz start s (fst x), snd x))) in H. exact H.
Qed.

Lemma rl_node_lookup x : In x (all_nodes s) ->
  lookup im (E (node_path x)) = Some (snd (entry E (moved_ent s) x)).
Proof.
  intros H. rewrite <- (rl_entry_fst (moved_ent s) x). apply rl_im_lookup. unfold phys.
  right. apply in_or_app. right. rewrite <- surjective_pairing. apply in_map. exact H.
Qed.

Lemma rl_entry_shape pcur pl i r e d m ks : exists par ddl plv,
  snd (entry E (moved_ent s) (pcur, pl, Dir i r e d m ks)) =
  dir_recs E (self_path pcur (Dir i r e d m ks)) par d ddl plv ks.
Proof. destruct m as [mn|]; cbn [entry snd self_path niso]; do 3 eexists; reflexivity. Qed.

Lemma rl_height_kid k ks : In k ks -> (height k <= list_max (map height ks))%nat.
Proof.
  intros H. assert (F : Forall (fun n => (n <= list_max (map height ks))%nat) (map height ks))
    by (apply list_max_le; apply le_n).
  rewrite Forall_forall in F. apply F. apply in_map. exact H.
Qed.

Lemma rl_read_node n : forall pcur pl fuel,
  incl (nodes_of pcur pl n) (all_nodes s) -> rl_ok n -> (height n <= fuel)%nat ->
  match n with
  | Dir i r e d m ks => read_dir im fuel false (E (self_path pcur n)) =
                        Some (2 + ldirs (map erase ks), map decorate (map erase ks))
  | Leaf _ _ _ => True
  end.
Proof.
  induction n as [i r e d m ks IH|sy i r] using rl_node_ind; intros pcur pl fuel Hin Ok Hf; [|exact I].
  cbn [height] in Hf. destruct fuel as [|f]; [lia|]. cbn [read_dir].
  assert (Hx : In (pcur, pl, Dir i r e d m ks) (all_nodes s)) by (apply Hin; left; reflexivity).
  pose proof (rl_node_lookup _ Hx) as L. unfold node_path in L. cbn [fst snd] in L. rewrite L.
  destruct (rl_entry_shape pcur pl i r e d m ks) as (par & ddl & plv & ->). unfold dir_recs.
  rewrite !rl_read_recs_cons. cbn [r_iso r_links]. rewrite !rl_neqb_refl. cbn [orb].
  replace (neqb dotdot_name dot_name) with false by reflexivity. cbn [orb].
  inversion Ok as [? ? ? ? ? ? Hi He Hd Hnd Fs|]; subst.
  set (self := self_path pcur (Dir i r (2 + ndirs ks) (2 + ndirs ks) m ks)) in *.
  rewrite (rl_read_recs_kids E (read_dir im f false) false self ks Fs).
  - rewrite rl_ldirs_erase. reflexivity.
  - intros k Hk. rewrite Forall_forall in IH, Fs. specialize (IH k Hk self (2 + ndirs ks) f).
    destruct k as [i2 r2 e2 d2 m2 sub|]; [|exact I]. apply IH.
    + intros x Hxx. apply Hin. right. cbn [nodes_of]. apply in_flat_map. exists (Dir i2 r2 e2 d2 m2 sub).
      split; [exact Hk|exact Hxx].
    + apply Fs. exact Hk.
    + pose proof (rl_height_kid _ _ Hk). lia.
Qed.

Theorem rl_read_root fuel : (fuel_of s <= fuel)%nat ->
  read_dir im fuel true (E []) = Some (s_dot s, expected (logical s)).
Proof.
  unfold fuel_of. intros Hf. destruct fuel as [|f]; [lia|]. cbn [read_dir].
  rewrite (rl_im_lookup [] (snd (root_entry E s))); [|left; reflexivity].
  cbn [root_entry snd]. rewrite !rl_read_recs_cons. cbn [r_iso r_links]. rewrite !rl_neqb_refl. cbn [orb].
  replace (neqb dotdot_name dot_name) with false by reflexivity. cbn [orb].
  assert (K : read_recs (read_dir im f false) true (map (kid_rec E []) (s_kids s)) =
              Some (expected (logical s))).
  { destruct Hinv as [Ik _ _ _ _ _]. apply rl_read_recs_kids; [exact Ik|].
    intros k Hk. pose proof (rl_read_node k [] (s_dot s) f) as R.
    destruct k as [i r e d m sub|]; [|exact I]. apply R.
    - intros x Hx. unfold all_nodes. apply in_flat_map. exists (Dir i r e d m sub). split; assumption.
    - rewrite Forall_forall in Ik. apply Ik. exact Hk.
    - pose proof (rl_height_kid _ _ Hk). lia. }
  destruct (moved_live s); [rewrite rl_read_recs_ins by reflexivity|]; rewrite K; reflexivity.
Qed.
End Reader.
