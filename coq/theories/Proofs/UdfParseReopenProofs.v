(* C10 / C02 -- Model/UdfParse.v: the opened object presents the written tree (up to the identities of
   the inodes, which open renumbers one to one), so forcing the layout on it gives the layout that was
   written: udf_reopen_tree, udf_reopen_layout_fixpoint. *)
From Coq Require Import ZArith List Bool Lia ZifyBool Arith.
From PV.Base Require Import Prim.
From PV.Gen Require Import GenFun.
From PV.Model Require Import Codec Fid UdfDir UdfLayout UdfParse.
From PV.Proofs Require Import UdfLayoutBfsProofs UdfLayoutViewProofs UdfLayoutFactsProofs UdfLayoutWalkProofs
     UdfParseTableProofs UdfParseWalkProofs UdfParseKeysProofs UdfParseShapeProofs UdfParseProofs UdfParseSharesProofs
     UdfParseRelabelProofs.
Import ListNotations.
Local Open Scope Z_scope.

(* the Inode index open gives to tree inode i *)
Definition up_index (ids : list nat) (i : nat) : nat :=
  match up_find_from (Nat.eqb i) ids 0 with Some k => k | None => 0%nat end.

Lemma up_find_from_nth : forall l k ix i, NoDup l -> nth_error l ix = Some i ->
  up_find_from (Nat.eqb i) l k = Some (k + ix)%nat.
Proof.
  induction l as [|x r IH]; intros k ix i Hnd Hix; [destruct ix; discriminate|]. apply NoDup_cons_iff in Hnd. destruct Hnd as [Hx Hr].
  cbn [up_find_from]. destruct ix as [|ix]; cbn [nth_error] in Hix.
  - inversion Hix; subst. rewrite Nat.eqb_refl. f_equal. lia.
  - replace (Nat.eqb i x) with false.
    + rewrite (IH (S k) ix i Hr Hix). f_equal. lia.
    + symmetry. apply Nat.eqb_neq. intros E. subst x. apply Hx. exact (nth_error_In _ _ Hix).
Qed.

Lemma up_index_nth ids ix i : NoDup ids -> nth_error ids ix = Some i -> up_index ids i = ix.
Proof. intros Hnd H. unfold up_index. rewrite (up_find_from_nth ids 0 ix i Hnd H). reflexivity. Qed.

Section Reopen.
  Variables (ps : Z) (iso : iso_side) (t : utree).
  Hypothesis Hwf : wf_utree t = true.
  Let lo := udf_layout_iso ps iso t.
  Let F : ul_facts ps iso t lo := ul_facts_of_wf ps iso t Hwf.

  Variables (e0 : pentry) (ds : list pdir) (wt : list winode).
  Hypothesis Hg : ugraph_of lo = mk_ugraph (Some e0) ds (map wi_ino wt).
  Hypothesis Hpost : up_dirs_post lo 0 (lo_dirs lo) [0%nat] 1 [] ds wt.
  Let g := ugraph_of lo.
  Let ids := up_ids wt.
  Let rl := up_relabel (up_index ids).

  Let Hnd : NoDup ids := proj1 (proj2 Hpost).
  Let HF : Forall2 (up_dir_ok lo ids) (lo_dirs lo) ds := proj1 (proj2 (proj2 Hpost)).

  Lemma up_find_dir_nth p d : nth_error ds p = Some d -> up_find_dir g (pd_obj d) = Some d.
  Proof.
    intros Hd. unfold up_find_dir, g. rewrite Hg. cbn [g_dirs].
    pose proof Hpost as Hp'. destruct Hp' as (_ & _ & _ & _ & _ & Hpd & _). exact (up_find_nth ds Hpd p d Hd).
  Qed.

  Definition up_tree_P (c : utree) : Prop :=
    forall p r d fuel, nth_error (lo_dirs lo) p = Some r -> nth_error ds p = Some d -> dr_node r = ut_children c ->
      ut_isdir c = true -> (ul_depth c <= fuel)%nat ->
      up_tree fuel g (pd_obj d) = Some (map rl (ut_children c)) /\
      forall x, In x (flat_map ul_inodes (ut_children c)) -> In (fst x) ids.

  Lemma up_tree_kids_ok f dobj : forall cs kids j,
    Forall2 (up_kid_ok dobj ids) cs kids ->
    (forall jj e, nth_error (up_dir_entries kids) jj = Some e ->
       exists d', nth_error ds (j + jj) = Some d' /\ pd_obj d' = pe_obj e) ->
    (forall jj n sub, nth_error (ul_dir_children cs) jj = Some (n, sub) ->
       exists r', nth_error (lo_dirs lo) (j + jj) = Some r' /\ dr_node r' = sub) ->
    Forall (fun c => up_tree_P c /\ (ul_depth c <= f)%nat) cs ->
    up_tree_kids (up_tree f g) kids = Some (map rl cs) /\
    forall x, In x (flat_map ul_inodes cs) -> In (fst x) ids.
  Proof.
    intros cs kids j H2. revert j. induction H2 as [|c f0 cs kids Hk H2 IH]; intros j HG HL HP.
    - split; [reflexivity|intros x []].
    - destruct Hk as (N1 & D1 & P1 & e & En & Pa & Ki & Hc). pose proof (Forall_inv HP) as [Pc Dc]. pose proof (Forall_inv_tail HP) as HP'.
      cbn [up_tree_kids]. rewrite P1, En, D1. destruct c as [n l i|n sub]; cbn [ut_isdir ut_name map] in *.
      + destruct Hc as (Hi & ix & Ix & Id). rewrite Ix, N1, Hi.
        destruct (IH j) as [I1 I2].
        { intros jj e' H. apply HG. rewrite up_dir_entries_cons, En, D1. exact H. }
        { intros jj n' sub H. apply (HL jj n' sub). exact H. }
        { exact HP'. }
        rewrite I1. unfold rl at 2. cbn [up_relabel]. rewrite (up_index_nth ids ix i Hnd Id). split; [reflexivity|].
        intros x Hx. cbn [flat_map ul_inodes app] in Hx. destruct Hx as [<-|Hx]; [exact (nth_error_In _ _ Id)|exact (I2 x Hx)].
      + destruct (HG 0%nat e) as (d' & Hd' & Od'); [rewrite up_dir_entries_cons, En, D1; reflexivity|].
        destruct (HL 0%nat n sub eq_refl) as (r' & Hr' & Nr'). rewrite Nat.add_0_r in Hd', Hr'.
        destruct (Pc j r' d' f Hr' Hd' Nr' eq_refl Dc) as [T1 T2]. cbn [ut_children] in T1, T2. rewrite <- Od', T1, N1.
        destruct (IH (S j)) as [I1 I2].
        { intros jj e' H. destruct (HG (S jj) e') as (d'' & H1 & H3); [rewrite up_dir_entries_cons, En, D1; exact H|].
          exists d''. split; [|exact H3]. rewrite <- H1. f_equal. lia. }
        { intros jj n' sub' H. destruct (HL (S jj) n' sub') as (r'' & H1 & H3); [exact H|].
          exists r''. split; [|exact H3]. rewrite <- H1. f_equal. lia. }
        { exact HP'. }
        rewrite I1. split; [reflexivity|]. intros x Hx. cbn [flat_map] in Hx. apply in_app_or in Hx.
        destruct Hx as [Hx|Hx]; [rewrite ul_inodes_dir in Hx; exact (T2 x Hx)|exact (I2 x Hx)].
  Qed.

  Lemma up_tree_all c : up_tree_P c.
  Proof.
    induction c as [n l i|n cs IHcs] using ul_utree_ind; intros p r d fuel Hr Hd Hnode Hdir Hdep; [discriminate|].
    cbn [ut_children] in *. cbn [ul_depth] in Hdep. destruct fuel as [|f]; [lia|]. apply le_S_n in Hdep.
    cbn [up_tree]. rewrite (up_find_dir_nth p d Hd).
    destruct (up_Forall2_nth _ _ _ HF p r Hr) as (d1 & Hd1 & (_ & pf & kids & Ef & Pp & _ & _ & Pe & HK)).
    rewrite Hd in Hd1. inversion Hd1; subst d1. rewrite Ef. cbn [up_tree_kids]. rewrite Pp. rewrite Hnode in HK.
    pose proof Hpost as Hp'. destruct Hp' as (_ & _ & _ & _ & Hlink & _).
    apply (up_tree_kids_ok f (pd_obj d) cs kids (dr_kid0 r) HK).
    - intros jj e He. destruct (Hlink p r d Hr Hd jj e) as (d' & H1 & H2).
      { rewrite Ef, up_dir_entries_cons, Pe. exact He. }
      exists d'. rewrite Nat.sub_0_r in H1. split; assumption.
    - intros jj n' sub H. destruct (uf_link _ _ _ _ F p r Hr) as [_ Hk]. rewrite Hnode in Hk.
      destruct (Hk jj n' sub H) as (r' & H1 & (_ & _ & H2)). exists r'. rewrite Nat.sub_0_r in H1. split; assumption.
    - apply Forall_forall. intros c Hc. split; [exact (proj1 (Forall_forall _ _) IHcs c Hc)|].
      pose proof (ul_depth_child c cs Hc). lia.
  Qed.

  (* the tree the opened object presents: the written one, inode i renamed to its Inode index *)
  Theorem up_reopen_tree : exists n cs, t = UDir n cs /\
    utree_of_graph (S (ul_depth t)) g = Some (UDir [] (map rl cs)) /\
    up_inj_on (up_index ids) (map fst (ul_inodes t)).
  Proof.
    destruct (ul_wf_is_dir t Hwf) as (n & cs & Et & _ & _). exists n, cs. split; [exact Et|].
    destruct (uf_root _ _ _ _ F) as (r0 & Hr0 & (_ & _ & E3)).
    pose proof Hpost as Hp'. destruct Hp' as (_ & _ & _ & Hq & _). destruct (Hq 0%nat 0%nat eq_refl) as (d0 & Hd0 & Od0).
    destruct (up_tree_all t 0%nat r0 d0 (S (ul_depth t)) Hr0 Hd0 E3 ltac:(rewrite Et; reflexivity) ltac:(lia)) as [T1 T2].
    split.
    - unfold utree_of_graph. unfold g at 1. rewrite Hg. cbn [g_root].
      assert (Eo : pe_obj e0 = 0%nat).
      { pose proof Hg as Hg'. unfold ugraph_of in Hg'. destruct (lo_dirs lo); [discriminate|].
        destruct (ug_dirs lo (d :: l) [0%nat] 1 []). inversion Hg'. reflexivity. }
      rewrite Eo, <- Od0, T1, Et. reflexivity.
    - intros i j Hi Hj E. apply in_map_iff in Hi. destruct Hi as (x & <- & Hx). apply in_map_iff in Hj. destruct Hj as (y & <- & Hy).
      rewrite Et, ul_inodes_dir in Hx, Hy. rewrite Et in T2. cbn [ut_children] in T2.
      destruct (In_nth_error _ _ (T2 x Hx)) as (a & Ha). destruct (In_nth_error _ _ (T2 y Hy)) as (b & Hb).
      rewrite (up_index_nth ids a _ Hnd Ha), (up_index_nth ids b _ Hnd Hb) in E. subst b. rewrite Ha in Hb. inversion Hb. reflexivity.
  Qed.
End Reopen.

(* the root's own name is recorded nowhere and plays no role in the layout *)
Lemma up_layout_root_name ps iso n cs : udf_layout_iso ps iso (UDir [] cs) = udf_layout_iso ps iso (UDir n cs).
Proof. reflexivity. Qed.

(* open (write t), force the layout: every extent, ICB, length and counter is the written one *)
Theorem udf_reopen_layout_fixpoint s t fuel : wf_utree t = true -> 0 <= s -> (ul_count_dirs t <= fuel)%nat ->
  exists g t',
    udf_parse s fuel (view (udf_layout s t)) 2 = POk g /\
    utree_of_graph (S (ul_depth t)) g = Some t' /\
    let lo := udf_layout s t in let lo' := udf_layout s t' in
    view lo' = view lo /\ lo_ps lo' = lo_ps lo /\ lo_udf_end lo' = lo_udf_end lo /\ lo_end lo' = lo_end lo /\
    lo_part_length lo' = lo_part_length lo /\ lo_num_files lo' = lo_num_files lo /\ lo_num_dirs lo' = lo_num_dirs lo /\
    lo_unique_id lo' = lo_unique_id lo /\
    map (fun x => (snd (fst x), snd x)) (lo_fes lo') = map (fun x => (snd (fst x), snd x)) (lo_fes lo) /\
    map (fun x => (snd (fst x), snd x)) (lo_data lo') = map (fun x => (snd (fst x), snd x)) (lo_data lo) /\
    map dr_fe (lo_dirs lo') = map dr_fe (lo_dirs lo).
Proof.
  intros Hwf Hs Hfuel. pose proof (udf_parse_layout s t fuel Hwf Hs Hfuel) as HP. change (fst (view (udf_layout s t))) with 2 in HP.
  destruct (up_graph_post s iso_none t Hwf) as (e0 & ds & wt & Eg & _ & _ & Hpost).
  destruct (up_reopen_tree s iso_none t Hwf e0 ds wt Eg Hpost) as (n & cs & Et & Htree & Hinj).
  exists (ugraph_of (udf_layout s t)), (UDir [] (map (up_relabel (up_index (up_ids wt))) cs)).
  split; [exact HP|]. split; [exact Htree|]. cbv zeta. unfold udf_layout. rewrite up_layout_root_name with (n := n).
  pose proof (up_layout_relabel (up_index (up_ids wt)) s iso_none t Hwf eq_refl Hinj) as H. cbv zeta in H.
  rewrite Et in H at 1. cbn [up_relabel] in H. rewrite Et. rewrite Et in H. exact H.
Qed.

Print Assumptions up_reopen_tree.
Print Assumptions udf_reopen_layout_fixpoint.
