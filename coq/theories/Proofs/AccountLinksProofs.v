(* C07 -- hard links in the ISO9660 namespace: the content of a file is stored once, lives
   exactly as long as its last name, and the declared volume size stays exact, for every history
   of the six operations of Model/AccountLinks.v.  (Invariant and preservation: AccountLinksInv.v.) *)
From Coq Require Import ZArith List Bool Lia ZifyBool Sorted Arith Permutation.
From PV.Base Require Import Prim.
From PV.Gen Require Import GenConst GenFun.
From PV.Model Require Import Names Checksums Pack Alloc Account AccountLinks.
From PV.Proofs Require Import PackProofs AllocProofs ChecksumsArithProofs AccountLemmas AccountProofs
     AccountLinksLemmas AccountLinksPurge AccountLinksInv.
Import ListNotations.
Local Open Scope Z_scope.
Ltac Zify.zify_post_hook ::= Z.to_euclidean_division_equations.

(* ---- 1. every history ----------------------------------------------------------------------- *)

(* the declared volume size is exactly the end of the from-scratch extent assignment *)
Theorem C07_space_exact ops : lspace (lrun linit ops) = llayout_end (lrun linit ops).
Proof. apply linv_layout, lrun_inv. Qed.

(* self.inodes has no duplicates and is exactly the set of inodes referenced by some record *)
Theorem C07_inode_table_is_the_referenced_set ops :
  let s := lrun linit ops in
  NoDup (ids (linodes s)) /\ forall i, In i (ids (linodes s)) <-> 0 < lrefcount i (lroot s).
Proof. apply linv_tbl, lrun_inv. Qed.

(* a content gets extents at most once, and it gets them iff it is not empty and some record
   references it (in any state, reachable or not) *)
Theorem C07_stored_once s :
  NoDup (laid_out s) /\
  forall i, In i (laid_out s) <-> 0 < lrefcount i (lroot s) /\ len_of i (linodes s) <> 0.
Proof. split; [apply dedup_nodup|apply laid_out_iff]. Qed.

(* ---- 2. objects are pairwise disjoint and inside the declared volume ------------------------ *)

Lemma lobjects_nonneg s : LInv s -> Forall (fun z => 0 <= z) (lobjects s).
Proof.
  intros HI. unfold lobjects.
  assert (He : 0 <= lptr_ext s).
  { destruct (linv_ptr s HI) as [H0 He]. pose proof (ceiling_div_nonneg (lptr_size s) 4096). lia. }
  assert (HV : Forall lall_ok (lvisit s)).
  { apply lbfs_all_ok. constructor; [apply (linv_tree s HI)|constructor]. }
  repeat (constructor; [lia|]). apply Forall_app. split.
  - apply Forall_map. rewrite Forall_forall in *. intros n Hn. apply filter_In in Hn.
    destruct Hn as [Hn Hd]. specialize (HV n Hn). destruct n as [nm ino st|nm dl kids]; [discriminate|].
    apply lall_ok_dir in HV. destruct HV as [HV _]. apply dir_ok_dlen in HV.
    cbn [lw_dblk]. apply ceiling_div_nonneg; unfold C in *; lia.
  - apply Forall_map, Forall_forall. intros i _.
    apply ceiling_div_nonneg; [unfold C; lia|].
    apply (len_of_in (fun l => 0 <= l) (linodes s)); [|lia].
    eapply Forall_impl; [|apply (linv_len s HI)]. intros e He'. cbv beta in He'. lia.
Qed.

Theorem C07_objects_disjoint_and_inside ops :
  let s := lrun linit ops in
  ForallOrdPairs disjoint (llayout s) /\
  Forall (fun iv => 0 <= fst iv /\ fst iv + snd iv <= lspace s) (llayout s).
Proof.
  intros s. pose proof (lrun_inv ops) as HI. fold s in HI.
  pose proof (lobjects_nonneg s HI) as HN. unfold llayout. split.
  - apply bump_disjoint, HN.
  - rewrite (linv_layout s HI). apply bump_inside, HN.
Qed.

(* ---- 3. rm_hard_link: the content goes exactly with its last name ---------------------------- *)

Theorem C07_content_released_exactly_at_last_name s dirp nm dn dl kids k cn i st s' :
  LInv s ->
  lsubtree dirp (lroot s) = Some (LDir dn dl kids) ->
  llookup nm kids = Some (k, LFile cn i st) ->            (* the name points to inode i *)
  lstep s (LRmLink dirp nm) = (s', true) ->
  let len := len_of i (linodes s) in
  (* one reference less *)
  lrefcount i (lroot s') = lrefcount i (lroot s) - 1 /\
  (* its blocks are in the layout iff some record still references it (and it is not empty) *)
  (In i (laid_out s') <-> 0 < lrefcount i (lroot s') /\ len <> 0) /\
  (In i (ids (linodes s')) <-> 0 < lrefcount i (lroot s')) /\
  (0 < lrefcount i (lroot s') -> len_of i (linodes s') = len) /\
  (* space: the directory may give back one block; the data blocks are released iff this was
     the last name *)
  (exists sh, (sh = 0 \/ sh = 1) /\
     lspace s' = lspace s - sh - (if lrefcount i (lroot s') =? 0 then blocks_of len else 0)) /\
  (* nothing else changes *)
  (forall j, j <> i -> lrefcount j (lroot s') = lrefcount j (lroot s) /\
                       len_of j (linodes s') = len_of j (linodes s) /\
                       (In j (laid_out s') <-> In j (laid_out s))).
Proof.
  intros HI Hsub Hl Hstep len.
  assert (HI' : LInv s') by (pose proof (lstep_preserves_inv s (LRmLink dirp nm) HI) as H; rewrite Hstep in H; exact H).
  cbn [lstep] in Hstep. unfold lstep_rm_link in Hstep. rewrite Hsub, Hl in Hstep. cbv zeta in Hstep.
  apply llookup_spec in Hl. destruct Hl as (Hk & _ & _).
  rewrite (rm_record_refcount i s dirp dn dl kids k _ _ Hsub Hk), ltotal_file, lw_ref_file, Nat.eqb_refl in Hstep.
  destruct (linv_tbl s HI) as [HN HR]. destruct (linv_tbl s' HI') as [HN' HR'].
  assert (Hroot : forall j, lrefcount j (lroot s') = lrefcount j (lroot s) - lw_ref j (LFile cn i st)).
  { intros j. destruct (lrefcount i (lroot s) - 1 =? 0); inversion Hstep; subst s'; cbn [lroot];
      rewrite (rm_record_refcount j s dirp dn dl kids k _ _ Hsub Hk), ltotal_file; reflexivity. }
  assert (E1 : lrefcount i (lroot s') = lrefcount i (lroot s) - 1).
  { rewrite Hroot, lw_ref_file, Nat.eqb_refl. reflexivity. }
  assert (Hlen : 0 < lrefcount i (lroot s') -> len_of i (linodes s') = len).
  { intros Hpos. destruct (Z.eqb_spec (lrefcount i (lroot s) - 1) 0) as [E0|E0]; [lia|].
    inversion Hstep; subst s'. reflexivity. }
  assert (Hoth : forall j, j <> i -> len_of j (linodes s') = len_of j (linodes s)).
  { intros j Hne. destruct (lrefcount i (lroot s) - 1 =? 0); inversion Hstep; subst s'; cbn [linodes];
      [apply len_of_del; exact Hne|reflexivity]. }
  split; [exact E1|]. split; [|split; [apply HR'|split; [exact Hlen|split]]].
  - rewrite laid_out_iff. split.
    + intros [Hp Hn]. split; [exact Hp|]. rewrite <- (Hlen Hp). exact Hn.
    + intros [Hp Hn]. split; [exact Hp|]. rewrite (Hlen Hp). exact Hn.
  - rewrite E1. set (sh := if rm_underflows (ldir_st dl kids) (2 + k) then C else 0) in *.
    assert (Hsh : sh = 0 \/ sh = 2048) by apply grow_cases.
    exists (sh / 2048). split; [destruct Hsh as [-> | ->]; [left|right]; reflexivity|].
    fold len in Hstep. pose proof (len_of_in (fun l => 0 <= l) (linodes s)) as Hl0.
    destruct (lrefcount i (lroot s) - 1 =? 0); inversion Hstep; subst s'; cbn [lspace];
      unfold blocks_of, ceiling_div, C; destruct Hsh as [-> | ->]; lia.
  - intros j Hne. assert (Hrj : lrefcount j (lroot s') = lrefcount j (lroot s)).
    { rewrite Hroot, lw_ref_file. destruct (Nat.eqb_spec i j); [congruence|lia]. }
    split; [exact Hrj|]. split; [apply Hoth, Hne|].
    rewrite !laid_out_iff, Hrj, (Hoth j Hne). tauto.
Qed.

(* ---- 4. rm_file: all the names of the content, and only those --------------------------------- *)

Theorem C07_rm_file_removes_exactly_the_names_of_the_content s dirp nm dn dl kids k cn i st s' :
  LInv s ->
  lsubtree dirp (lroot s) = Some (LDir dn dl kids) ->
  llookup nm kids = Some (k, LFile cn i st) ->
  lstep s (LRmFile dirp nm) = (s', true) ->
  (* the file records left are those that were there and do not point to inode i, in the same
     directories and in the same order; the directories are the same *)
  lrecords [] (lroot s') = filter (notrec i) (lrecords [] (lroot s)) /\
  ldirs [] (lroot s') = ldirs [] (lroot s) /\
  (* the content is gone: no reference, not in self.inodes, no extents *)
  lrefcount i (lroot s') = 0 /\ ~ In i (ids (linodes s')) /\ ~ In i (laid_out s') /\
  (* its data blocks are released once, together with the directory blocks freed *)
  lspace s' = lspace s - (ltotal lw_dblk (lroot s) - ltotal lw_dblk (lroot s'))
              - blocks_of (len_of i (linodes s)) /\
  (* every other content is untouched *)
  (forall j, j <> i -> lrefcount j (lroot s') = lrefcount j (lroot s) /\
                       len_of j (linodes s') = len_of j (linodes s) /\
                       (In j (laid_out s') <-> In j (laid_out s))).
Proof.
  intros HI Hsub Hl Hstep.
  assert (HI' : LInv s') by (pose proof (lstep_preserves_inv s (LRmFile dirp nm) HI) as H; rewrite Hstep in H; exact H).
  cbn [lstep] in Hstep. unfold lstep_rm_file in Hstep. rewrite Hsub, Hl in Hstep. cbv zeta in Hstep.
  inversion Hstep; subst s'; clear Hstep. cbn [lroot linodes lspace] in *.
  destruct (linv_root s HI) as [_ Hd]. destruct (linv_tbl s HI) as [HN HR].
  destruct (ids_del i (linodes s) HN) as (D1 & D2 & D3).
  assert (E0 : lrefcount i (purge_node i (lroot s)) = 0) by (apply purge_refcount_self, Hd).
  split; [apply purge_records, Hd|]. split; [apply purge_dirs|]. split; [exact E0|].
  split; [exact D2|]. split; [|split].
  - rewrite laid_out_iff. cbn [lroot]. lia.
  - pose proof (purge_dblk i (lroot s)) as E. unfold blocks_of, ceiling_div, C in *. lia.
  - intros j Hne. pose proof (purge_refcount_other i j (lroot s) Hne) as Hrj.
    pose proof (len_of_del j i (linodes s) Hne) as Hlj.
    split; [exact Hrj|]. split; [exact Hlj|].
    rewrite !laid_out_iff. cbn [lroot linodes]. rewrite Hrj, Hlj. tauto.
Qed.

(* ---- 5. add_hard_link adds a name, not content ------------------------------------------------ *)

Ltac break_match :=
  repeat match goal with
         | |- context [match ?x with _ => _ end] => destruct x
         end.

Theorem C07_add_link_shares_the_content s src dirp nm s' :
  lstep s (LAddLink src dirp nm) = (s', true) ->
  linodes s' = linodes s /\ exists g, (g = 0 \/ g = 1) /\ lspace s' = lspace s + g.
Proof.
  cbn [lstep]. unfold lstep_add_link, add_record, lrefuse. cbv zeta.
  destruct (lsubtree src (lroot s)) as [[? ? ?|? ? ?]|]; try discriminate.
  destruct (too_deep dirp); [discriminate|].
  destruct (lsubtree dirp (lroot s)) as [[? ? ?|dn dl kids]|]; try discriminate.
  destruct (check_iso9660_filename nm 3); try discriminate.
  destruct (dr_len_of nm >? 255); [discriminate|].
  destruct (llookup nm kids); [discriminate|].
  intros H. inversion H; subst s'; clear H. cbn [linodes lspace]. split; [reflexivity|].
  match goal with |- context [if ?b then C else 0] => destruct (grow_cases b) as [E|E]; rewrite E end;
    [exists 0|exists 1]; (split; [tauto|]); unfold ceiling_div, C; lia.
Qed.

(* a directory (or the root) cannot be the source of a hard link: refused, state unchanged *)
Theorem C07_add_link_refuses_a_directory s src dirp nm dn dl kids :
  lsubtree src (lroot s) = Some (LDir dn dl kids) -> lstep s (LAddLink src dirp nm) = (s, false).
Proof. intros H. cbn [lstep]. unfold lstep_add_link. rewrite H. reflexivity. Qed.

(* ---- 6. a refused operation leaves the state unchanged ---------------------------------------- *)

Lemma lrefused_fst s o : snd (lstep s o) = false -> fst (lstep s o) = s.
Proof.
  destruct o; cbn [lstep];
    unfold lstep_add_file, lstep_add_link, add_record, lstep_add_dir, lstep_rm_link, lstep_rm_file,
      lstep_rm_dir, lrefuse; cbv zeta;
    break_match; cbn [fst snd]; intros H; try reflexivity; discriminate.
Qed.

Theorem lrefused_unchanged s o s' : lstep s o = (s', false) -> s' = s.
Proof.
  intros H. pose proof (lrefused_fst s o) as R. rewrite H in R. cbn [fst snd] in R.
  apply R. reflexivity.
Qed.

(* the 'should never happen' exception of remove_from_ptr_size is never reached *)
Theorem C07_ptr_exception_unreachable ops q dn dl kids y k cn cdl ckids :
  let s := lrun linit ops in
  lsubtree q (lroot s) = Some (LDir dn dl kids) -> llookup y kids = Some (k, LDir cn cdl ckids) ->
  remove_from_ptr_size (lptr_size s) (lptr_ext s) (ptr_record_length (zlen cn)) <> None.
Proof.
  intros s Hsub Hl. apply llookup_spec in Hl. destruct Hl as (Hk & _ & _).
  destruct (lrm_dir_ptr_ok s q dn dl kids k cn cdl ckids (lrun_inv ops) Hsub Hk) as (b & pe & Hr & _).
  rewrite Hr. discriminate.
Qed.

(* ---- 7. non-vacuity --------------------------------------------------------------------------- *)

Example linit_values :
  lprobe linit = [24; 10; 2; 2048; 0] /\ llayout_end linit = 24 /\
  lobjects linit = [16; 1; 1; 1; 2; 2; 1].
Proof. vm_compute. repeat split; reflexivity. Qed.

(* 23 operations (7 refused).  A content of 5000 bytes gets three names (/A;1, /D/B;1, /C;1, the
   third made from the second), an empty file two; a link whose old path is the DIRECTORY /D is
   refused; then the names of the first content go one by one (space drops only at the last one,
   28 -> 25), a new content gets three names and rm_file on one of them removes all three at once
   (27 -> 25).  The same history is run against the real library by
   tools/account_links_traces.py (spec `example`). *)
Definition nA : ident := [65; 59; 49].
Definition nB : ident := [66; 59; 49].
Definition nC : ident := [67; 59; 49].
Definition nY : ident := [89; 59; 49].
Definition nZ : ident := [90; 59; 49].
Definition nDL : ident := [68; 76; 59; 49].
Definition nD : ident := [68].
Definition lex_ops : list lop :=
  [LAddFile [] nA 5000; LAddDir [] nD; LAddLink [nA] [nD] nB; LAddLink [nD; nB] [] nC;
   LAddFile [nD] nZ 0; LAddLink [nD; nZ] [] nY;
   LAddLink [nD] [] nDL;                                  (* old path is a directory: refused *)
   LAddLink [[78]] [] nB;                                 (* no such source *)
   LAddLink [nA] [] nA; LAddLink [nA] [] nD;              (* duplicate target names *)
   LRmLink [] nD;                                         (* a directory *)
   LRmLink [] nA; LRmLink [nD] nB; LRmLink [] nC;         (* the last one releases 3 blocks *)
   LAddFile [] nA 2049; LAddLink [nA] [nD] nB; LAddLink [nD; nB] [nD] nC;
   LRmDir [nD];                                           (* not empty *)
   LRmFile [nD] nB;                                       (* all three names, 2 blocks *)
   LRmFile [] nDL;                                        (* no such file *)
   LRmLink [] nY; LRmLink [nD] nZ; LRmDir [nD]].

Example lex_history :
  (* (space, layout_end) after every operation *)
  lrun_ends lex_ops =
    [(27, 27); (28, 28); (28, 28); (28, 28); (28, 28); (28, 28); (28, 28); (28, 28); (28, 28);
     (28, 28); (28, 28); (28, 28); (28, 28); (25, 25); (27, 27); (27, 27); (27, 27); (27, 27);
     (25, 25); (25, 25); (25, 25); (25, 25); (24, 24)] /\
  lrun_flags lex_ops =
    [true; true; true; true; true; true; false; false; false; false; false; true; true; true; true;
     true; true; false; true; false; true; true; true] /\
  (* sorted (data length, number of names) of every inode *)
  map snd (lrun_probe lex_ops) =
    [[(5000, 1)]; [(5000, 1)]; [(5000, 2)]; [(5000, 3)]; [(0, 1); (5000, 3)]; [(0, 2); (5000, 3)];
     [(0, 2); (5000, 3)]; [(0, 2); (5000, 3)]; [(0, 2); (5000, 3)]; [(0, 2); (5000, 3)];
     [(0, 2); (5000, 3)]; [(0, 2); (5000, 2)]; [(0, 2); (5000, 1)]; [(0, 2)]; [(0, 2); (2049, 1)];
     [(0, 2); (2049, 2)]; [(0, 2); (2049, 3)]; [(0, 2); (2049, 3)]; [(0, 2)]; [(0, 2)]; [(0, 1)];
     []; []] /\
  lprobe (lrun linit lex_ops) = [24; 10; 2; 2048; 0] /\
  (* after the 7th operation: five names, two contents, ONE data object of 3 blocks *)
  (let s := lrun linit (firstn 7 lex_ops) in
   laid_out s = [0%nat] /\ lobjects s = [16; 1; 1; 1; 2; 2; 1; 1; 3] /\
   lrecords [] (lroot s) =
     [([], nA, 0%nat); ([], nC, 0%nat); ([nD], nB, 0%nat); ([nD], nZ, 3%nat); ([], nY, 3%nat)]) /\
  (* rm_file on /D/B;1 (19th operation) removes the three names of inode 5 and nothing else *)
  lrecords [] (lroot (lrun linit (firstn 18 lex_ops))) =
    [([], nA, 5%nat); ([nD], nB, 5%nat); ([nD], nC, 5%nat); ([nD], nZ, 3%nat); ([], nY, 3%nat)] /\
  lrecords [] (lroot (lrun linit (firstn 19 lex_ops))) = [([nD], nZ, 3%nat); ([], nY, 3%nat)] /\
  laid_out (lrun linit (firstn 18 lex_ops)) = [5%nat] /\
  laid_out (lrun linit (firstn 19 lex_ops)) = [].
Proof. vm_compute. repeat split; reflexivity. Qed.

Example lex_history_inv :
  LInv (lrun linit lex_ops) /\ lspace (lrun linit (firstn 7 lex_ops)) = 28 /\
  llayout_end (lrun linit (firstn 7 lex_ops)) = 28.
Proof.
  split; [apply lrun_inv|]. rewrite <- C07_space_exact. split; vm_compute; reflexivity.
Qed.

Print Assumptions C07_space_exact.
Print Assumptions C07_inode_table_is_the_referenced_set.
Print Assumptions C07_stored_once.
Print Assumptions C07_objects_disjoint_and_inside.
Print Assumptions C07_content_released_exactly_at_last_name.
Print Assumptions C07_rm_file_removes_exactly_the_names_of_the_content.
Print Assumptions C07_add_link_shares_the_content.
Print Assumptions C07_add_link_refuses_a_directory.
Print Assumptions lrefused_unchanged.
Print Assumptions C07_ptr_exception_unreachable.
Print Assumptions lex_history.
Print Assumptions lex_history_inv.
