From Coq Require Import ZArith List Bool Lia.
From PV.Gen Require Import GenFun.
From PV.Model Require Import Tools Names.
Import ListNotations.
Local Open Scope Z_scope.

Lemma zlist_eqb_eq a : forall b, zlist_eqb a b = true <-> a = b.
Proof.
  induction a as [|x a IH]; intros [|y b]; cbn; split; intros H; try reflexivity; try discriminate.
  - apply andb_prop in H. destruct H as [H1 H2]. apply Z.eqb_eq in H1. apply IH in H2. subst. reflexivity.
  - inversion H; subst. rewrite Z.eqb_refl. cbn. apply IH. reflexivity.
Qed.

Lemma mem_name_In n used : mem_name n used = true <-> In n used.
Proof.
  unfold mem_name. rewrite existsb_exists. split.
  - intros (x & Hx & E). apply zlist_eqb_eq in E. subst. exact Hx.
  - intros H. exists n. split; [exact H|apply zlist_eqb_eq; reflexivity].
Qed.

Lemma find_free_fresh fuel cand used : forall k n, find_free_c fuel cand used k = Some n -> ~ In n used.
Proof.
  induction fuel as [|f IH]; intros k n H; cbn in H; [discriminate|].
  destruct (mem_name (cand k) used) eqn:M.
  - apply (IH (k + 1) n H).
  - inversion H; subst. intros I. apply mem_name_In in I. congruence.
Qed.

(* every name handed out is new in its directory; the set of used names stays duplicate-free *)
Theorem assign_name_fresh d fm ext used n used' :
  assign_name d fm ext used = Some (n, used') -> ~ In n used /\ used' = n :: used.
Proof.
  unfold assign_name. destruct (mem_name fm used) eqn:M.
  - unfold find_free. destruct (find_free_c 1000 (candidate d (firstn 5 (if d then fm else fname fm ext)) ext) used 0) as [c|] eqn:F; [|discriminate].
    intros H; inversion H; subst. split; [exact (find_free_fresh _ _ _ _ _ F)|reflexivity].
  - intros H; inversion H; subst. split; [|reflexivity]. intros I. apply mem_name_In in I. congruence.
Qed.

Lemma assign_all_incl : forall items U, incl U (snd (assign_all items U)).
Proof.
  induction items as [|[[d1 f1] e1] r1 IHr]; intros U; cbn [assign_all]; [apply incl_refl|].
  destruct (assign_name d1 f1 e1 U) as [[n1 U1]|] eqn:A1.
  - destruct (assign_name_fresh _ _ _ _ _ _ A1) as [_ E1]. subst U1.
    specialize (IHr (n1 :: U)). destruct (assign_all r1 (n1 :: U)) as [ns1 u1]. cbn [snd] in *.
    intros x Hx. apply IHr. right. exact Hx.
  - specialize (IHr U). destruct (assign_all r1 U) as [ns1 u1]. cbn [snd] in *. exact IHr.
Qed.

Theorem assign_all_distinct items : forall used, NoDup used ->
  NoDup (snd (assign_all items used)) /\
  (forall n, In (Some n) (fst (assign_all items used)) -> In n (snd (assign_all items used)) /\ ~ In n used).
Proof.
  induction items as [|[[d fm] ext] r IH]; intros used ND; cbn [assign_all].
  - split; [exact ND|intros n []].
  - destruct (assign_name d fm ext used) as [[n used']|] eqn:A.
    + destruct (assign_name_fresh _ _ _ _ _ _ A) as [Fr E]. subst used'.
      assert (ND' : NoDup (n :: used)) by (constructor; assumption).
      destruct (IH (n :: used) ND') as [H1 H2].
      pose proof (assign_all_incl r (n :: used)) as Inc.
      destruct (assign_all r (n :: used)) as [ns u]. cbn [fst snd] in *. split; [exact H1|].
      intros m [Hm|Hm].
      * inversion Hm; subst. split; [apply Inc; left; reflexivity|exact Fr].
      * destruct (H2 m Hm) as [A1 A2]. split; [exact A1|]. intros I. apply A2. right. exact I.
    + destruct (IH used ND) as [H1 H2]. destruct (assign_all r used) as [ns u]. cbn [fst snd] in *.
      split; [exact H1|]. intros m [Hm|Hm]; [discriminate|apply (H2 m Hm)].
Qed.

(* ... but the numbered name need not be a legal identifier: the prefix is cut from the mangled name
   INCLUDING its dot / extension / version.  "AB.C;1" taken twice gives "AB.C;000.C;1". *)
Theorem collision_name_illegal_refuted :
  exists fm ext used n used',
    check_iso9660_filename fm 1 = Accept /\ mem_name fm used = true /\
    assign_name_old false fm ext used = Some (n, used') /\ check_iso9660_filename n 1 = Refuse.
Proof.
  exists [65; 66; 46; 67; 59; 49], [67; 59; 49], [[65; 66; 46; 67; 59; 49]].
  eexists. eexists. repeat split; vm_compute; reflexivity.
Qed.

(* the repaired tool on the same input: "AB.C;1" taken twice gives "AB000.C;1", a legal level-1 identifier *)
Example collision_name_legal_after_the_fix :
  exists n used', assign_name false [65; 66; 46; 67; 59; 49] [67; 59; 49] [[65; 66; 46; 67; 59; 49]] = Some (n, used')
                  /\ n = [65; 66; 48; 48; 48; 46; 67; 59; 49] /\ check_iso9660_filename n 1 = Accept.
Proof. eexists. eexists. repeat split; vm_compute; reflexivity. Qed.

(* names whose first five characters hold no separator are numbered legally (level 1 shown by evaluation) *)
Example collision_name_legal_when_prefix_plain :
  exists n used', assign_name false [76;79;78;71;78;65;77;69;46;84;88;84;59;49] [84;88;84;59;49] [[76;79;78;71;78;65;77;69;46;84;88;84;59;49]] = Some (n, used')
                  /\ check_iso9660_filename n 1 = Accept.
Proof. eexists. eexists. split; vm_compute; reflexivity. Qed.

(* duplicate detection by size + 32-bit hash alone: two different 8-byte contents with one hash *)
Theorem dedup_hash_collision_refuted :
  exists a b : list Z, a <> b /\ length a = length b /\ hash_blocks [a] = hash_blocks [b].
Proof.
  exists [233; 35; 139; 112; 249; 200; 239; 179], [191; 191; 183; 191; 104; 220; 177; 41].
  split; [discriminate|]. split; [reflexivity|]. vm_compute. reflexivity.
Qed.

(* chaining matters: without feeding the hash of a block into the next one, files that differ only
   before their last block collide *)
Theorem unchained_hash_ignores_all_but_last_block : forall pre pre' last,
  hash_blocks_unchained (pre ++ [last]) = hash_blocks_unchained (pre' ++ [last]).
Proof.
  intros pre pre' last. unfold hash_blocks_unchained. rewrite !fold_left_app. reflexivity.
Qed.

Example chained_hash_sees_first_block :
  hash_blocks [[1; 2; 3; 4]; [9; 9]] <> hash_blocks [[1; 2; 3; 5]; [9; 9]].
Proof. vm_compute. discriminate. Qed.
