(* C10 / C02 -- Model/UdfParse.v: the Inode table.  The parser finds Inodes by EXTENT KEY
   (extent_to_inode), the writer had them by IDENTITY; as long as the key is injective on the inodes
   of the tree both tables evolve in lock step (up_link_sim).  Plus the list helpers of the model. *)
From Coq Require Import ZArith List Bool Lia ZifyBool Arith.
From PV.Base Require Import Prim.
From PV.Gen Require Import GenFun.
From PV.Model Require Import Codec Fid UdfDir UdfLayout UdfParse.
From PV.Proofs Require Import UdfLayoutViewProofs.
Import ListNotations.
Local Open Scope Z_scope.

Lemma up_find_from_map {A B} (f : A -> B) (p : B -> bool) (q : A -> bool) l :
  (forall x, In x l -> p (f x) = q x) -> forall k, up_find_from p (map f l) k = up_find_from q l k.
Proof.
  induction l as [|x r IH]; intros H k; [reflexivity|]. cbn [map up_find_from].
  rewrite (H x (or_introl eq_refl)). destruct (q x); [reflexivity|]. apply IH. intros y Hy. apply H. right. exact Hy.
Qed.

Lemma up_update_map {A B} (f : A -> B) (g : A -> A) (h : B -> B) :
  (forall x, f (g x) = h (f x)) -> forall l ix, map f (up_update g ix l) = up_update h ix (map f l).
Proof.
  intros H. induction l as [|x r IH]; intros ix; [destruct ix; reflexivity|].
  destruct ix as [|j]; cbn [up_update map]; [rewrite H; reflexivity|rewrite IH; reflexivity].
Qed.

Lemma up_update_Forall {A} (P : A -> Prop) (g : A -> A) : (forall x, P x -> P (g x)) ->
  forall l ix, Forall P l -> Forall P (up_update g ix l).
Proof.
  intros H. induction l as [|x r IH]; intros ix Hl; [destruct ix; constructor|].
  inversion Hl as [|? ? Hx Hr]; subst. destruct ix as [|j]; cbn [up_update]; constructor; auto.
Qed.

Lemma up_ads_head pos l : 0 < l -> exists a r, ul_ads pos l = (pos, a) :: r.
Proof.
  intros H. unfold ul_ads. assert (0 <= l / ul_max_ad) by (apply Z.div_pos; [lia|reflexivity]).
  destruct (Z.to_nat (l / ul_max_ad + 1)) as [|f] eqn:E; [lia|]. cbn [ul_file_ads].
  replace (l >? 0) with true by lia. eexists. eexists. reflexivity.
Qed.

Section Table.
  Variable lo : layout.
  Variable N : list (nat * Z).
  Hypothesis Hcons : forall i l l', In (i, l) N -> In (i, l') N -> l = l'.
  Hypothesis Hinj : forall i l j l', In (i, l) N -> In (j, l') N -> ug_key lo i l = ug_key lo j l' -> i = j.
  Hypothesis Hpos : forall i l, In (i, l) N -> 0 < l -> 0 < lo_ps lo + ul_data_pos lo i.

  Definition up_wt_inv (w : winode) : Prop :=
    pi_key (wi_ino w) = Some (ug_key lo (wi_id w) (pi_len (wi_ino w))) /\ In (wi_id w, pi_len (wi_ino w)) N.

  Lemma up_link_sim wt obj i l : Forall up_wt_inv wt -> In (i, l) N -> 0 <= l ->
    up_link (lo_ps lo) (map wi_ino wt) obj (ug_fe_block lo i) l (ul_ads (ul_data_pos lo i) l)
    = Some (map wi_ino (fst (ug_link lo wt obj i l)), snd (ug_link lo wt obj i l)) /\
    Forall up_wt_inv (fst (ug_link lo wt obj i l)).
  Proof.
    intros Hwt Hin Hl. unfold up_link.
    assert (E : exists d,
      (if l >? 0 then match ul_ads (ul_data_pos lo i) l with (b, _) :: _ => Some (lo_ps lo + b) | [] => None end
       else Some 0) = Some d /\ d = ug_extent lo i l /\
      (if d =? 0 then - (lo_ps lo + ug_fe_block lo i) else d) = ug_key lo i l).
    { unfold ug_extent, ug_key. destruct (l >? 0) eqn:El.
      - destruct (up_ads_head (ul_data_pos lo i) l ltac:(lia)) as (a & r & Ea). rewrite Ea.
        eexists. split; [reflexivity|]. split; [reflexivity|].
        pose proof (Hpos i l Hin ltac:(lia)). replace (lo_ps lo + ul_data_pos lo i =? 0) with false by lia. reflexivity.
      - exists 0. repeat split. }
    destruct E as (d & -> & Ed & Ek). rewrite Ek.
    assert (Hfind : up_find_from (up_key_is (ug_key lo i l)) (map wi_ino wt) 0 =
                    up_find_from (fun w => Nat.eqb (wi_id w) i) wt 0).
    { apply up_find_from_map. intros w Hw. destruct (proj1 (Forall_forall _ _) Hwt w Hw) as [Hk HN].
      unfold up_key_is. rewrite Hk. destruct (Nat.eqb (wi_id w) i) eqn:Ei.
      - apply Nat.eqb_eq in Ei. rewrite Ei in HN |- *. rewrite (Hcons i _ _ HN Hin). apply Z.eqb_refl.
      - apply Nat.eqb_neq in Ei. apply Z.eqb_neq. intros Hk2. apply Ei. exact (Hinj _ _ _ _ HN Hin Hk2). }
    rewrite Hfind. unfold ug_link. destruct (up_find_from (fun w => Nat.eqb (wi_id w) i) wt 0) as [ix|]; cbn [fst snd].
    - split.
      + rewrite (up_update_map wi_ino _ (up_push obj)); [reflexivity|]. intros w. reflexivity.
      + apply up_update_Forall; [|exact Hwt]. intros w [H1 H2]. split; assumption.
    - split.
      + rewrite map_app, map_length. cbn [map wi_ino]. rewrite Ed. reflexivity.
      + apply Forall_app. split; [exact Hwt|]. constructor; [|constructor]. split; [reflexivity|exact Hin].
  Qed.
End Table.

Print Assumptions up_link_sim.
