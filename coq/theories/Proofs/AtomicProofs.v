From Coq Require Import List Bool.
From PV.Model Require Import Atomic.
Import ListNotations.

Section AtomicProofs.
  Variable state : Type.
  Notation stage := (stage state).
  Notation exec := (exec state).

  Lemma exec_only_mutations (stages : list stage) s :
    forallb (fun st => negb (is_check state st)) stages = true -> exists s', exec stages s = Done state s'.
  Proof.
    revert s; induction stages as [|st r IH]; intros s H; cbn [Atomic.exec]; [eexists; reflexivity|].
    destruct st as [ok|f]; cbn in H; [discriminate|]. apply IH. exact H.
  Qed.

  (* a call written validate-first is atomic: whatever it refuses, the object is untouched *)
  Theorem validate_first_atomic (stages : list stage) s left :
    validate_first state stages = true -> exec stages s = Refused state left -> left = s.
  Proof.
    revert s; induction stages as [|st r IH]; intros s V E; cbn [Atomic.exec] in E; [discriminate|].
    destruct st as [ok|f]; cbn [Atomic.validate_first] in V.
    - destruct (ok s); [apply (IH s V E)|inversion E; reflexivity].
    - destruct (exec_only_mutations r (f s) V) as [s' D]. rewrite D in E. discriminate.
  Qed.

  (* a refusal raised before any mutation ran leaves the object untouched, whatever follows *)
  Theorem early_refusal_atomic (stages : list stage) s left :
    exec stages s = Refused state left -> refusal_after_mutation state stages s false = Some false -> left = s.
  Proof.
    revert s; induction stages as [|st r IH]; intros s E R; cbn in E, R; [discriminate|].
    destruct st as [ok|f].
    - destruct (ok s); [apply (IH s E R)|inversion E; reflexivity].
    - exfalso. clear IH E.
      assert (G : forall l t, refusal_after_mutation state l t true <> Some false).
      { induction l as [|x l IHl]; intros t; cbn; [discriminate|].
        destruct x as [ok|g]; [destruct (ok t); [apply IHl|discriminate]|apply IHl]. }
      exact (G r (f s) R).
  Qed.

  (* what a late refusal leaves behind is exactly the state after the mutations that already ran *)
  Theorem late_refusal_leftover (pre : list stage) ok (post : list stage) s :
    forallb (fun st => negb (is_check state st)) pre = true ->
    forall s1, exec pre s = Done state s1 -> ok s1 = false ->
    exec (pre ++ Check state ok :: post) s = Refused state s1.
  Proof.
    revert s; induction pre as [|st r IH]; intros s H s1 D K; cbn [app Atomic.exec] in *.
    - inversion D; subst. rewrite K. reflexivity.
    - destruct st as [c|f]; cbn in H; [discriminate|]. apply (IH (f s) H s1 D K).
  Qed.
End AtomicProofs.

(* the discipline is necessary: one check after an effective mutation and a refused call changes the object *)
Theorem check_after_mutation_not_atomic :
  exists (stages : list (stage nat)) s left,
    exec nat stages s = Refused nat left /\ left <> s.
Proof.
  exists [Mutate nat S; Check nat (fun _ => false)], 0, 1. split; [reflexivity|discriminate].
Qed.
