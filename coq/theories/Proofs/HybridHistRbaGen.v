(* C12 -- Model/HybridHist.v, fold level: after the hybrid part of _reshuffle_extents (push) the MBR's boot
   file address is 4 * the extent of the INITIAL El Torito entry's boot file, whatever other entries,
   names and sections there are (current tree, 9b70343). *)
From Coq Require Import ZArith List Bool Arith Lia.
From PV.Base Require Import Prim.
From PV.Gen Require Import GenConst GenFun.
From PV.Model Require Import Names Pack Alloc Codec Eltorito Account AccountLinks AccountBoot Hybrid HybridHist.
From PV.Proofs Require Import HybridHistProofs HybridHistWrite HybridHistRba.
Import ListNotations.
Local Open Scope Z_scope.

Definition enc_k (e : henc) : nat := fst (snd e).
Definition enc_ino (e : henc) : nat := fst (snd (snd e)).
Definition enc_pf (e : henc) : Z := fst (snd (snd (snd e))).

Ltac hh_cases :=
  repeat match goal with
         | |- context [if ?c then _ else _] =>
             lazymatch c with true => fail | false => fail | _ => destruct c end
         | |- context [match ?c with Some _ => _ | None => _ end] =>
             lazymatch c with Some _ => fail | None => fail | _ => destruct c end
         end.

(* seen_entries only grows (or the state is returned as it is) *)
Lemma hh_push_step_ents_true s st (e : henc) :
  AccountBoot.mem 0%nat (p_ents st) = true -> AccountBoot.mem 0%nat (p_ents (push_step s st e)) = true.
Proof.
  intros H. unfold push_step, push_step_gen. cbv zeta. cbn [negb orb].
  hh_cases; cbn [p_ents]; try exact H; unfold AccountBoot.mem in *; cbn [existsb]; rewrite H; apply orb_true_r.
Qed.

Lemma hh_push_step_ents_false s st (e : henc) :
  enc_k e <> 0%nat -> AccountBoot.mem 0%nat (p_ents st) = false ->
  AccountBoot.mem 0%nat (p_ents (push_step s st e)) = false.
Proof.
  intros Hk H. assert (Hn : Nat.eqb 0 (fst (snd e)) = false) by (apply Nat.eqb_neq; intros E; apply Hk; symmetry; exact E).
  unfold push_step, push_step_gen. cbv zeta. cbn [negb orb].
  hh_cases; cbn [p_ents]; try exact H; unfold AccountBoot.mem in *; cbn [existsb]; rewrite H, Hn; reflexivity.
Qed.

Section Fold.
Variable s : bstate.
Variable i0 : nat.
Let R := rba_of s i0 * 4.

(* every enc of entry 0 is an enc of the initial entry: its inode is i0 and its platform 0 *)
Definition enc0_ok (l : list henc) : Prop :=
  forall e, In e l -> enc_k e = 0%nat -> enc_ino e = i0 /\ enc_pf e = 0.

Lemma hh_fold_rba_done l : forall st,
  pst_good st -> AccountBoot.mem 0%nat (p_ents st) = true -> ih_rba (hy_ih (p_hy st)) = R ->
  ih_rba (hy_ih (p_hy (fold_left (push_step s) l st))) = R.
Proof.
  induction l as [|e r IH]; intros st Hg Hm Hr; [exact Hr|]. cbn [fold_left].
  apply IH; [apply hh_push_step_good; exact Hg|apply hh_push_step_ents_true; exact Hm|].
  destruct (hh_push_step_rba s st e) as (H1 & _ & H3).
  destruct (Nat.eq_dec (fst (snd e)) 0) as [E|E].
  - rewrite H3; [exact Hr|]. rewrite E. exact Hm.
  - rewrite (H1 E). exact Hr.
Qed.

Lemma hh_fold_rba_pending l : forall st,
  pst_good st -> AccountBoot.mem 0%nat (p_ents st) = false -> enc0_ok l ->
  (exists e, In e l /\ enc_k e = 0%nat) ->
  ih_rba (hy_ih (p_hy (fold_left (push_step s) l st))) = R.
Proof.
  induction l as [|e r IH]; intros st Hg Hm H0 [x [Hin Hx]]; [destruct Hin|]. cbn [fold_left].
  destruct (hh_push_step_rba s st e) as (_ & H2 & _).
  destruct (Nat.eq_dec (enc_k e) 0) as [E|E].
  - destruct (H0 e (or_introl eq_refl) E) as [Hi Hp]. destruct Hg as [Hok Hwf].
    assert (Hm' : AccountBoot.mem (fst (snd e)) (p_ents st) = false) by (unfold enc_k in E; rewrite E; exact Hm).
    destruct (H2 E Hp Hok Hm') as [Hr Hm2].
    apply hh_fold_rba_done; [apply hh_push_step_good; split; assumption|exact Hm2|].
    rewrite Hr. unfold enc_ino in Hi. rewrite Hi. reflexivity.
  - apply IH.
    + apply hh_push_step_good; exact Hg.
    + apply hh_push_step_ents_false; assumption.
    + intros e' Hin' Hk'. apply H0; [right; exact Hin'|exact Hk'].
    + destruct Hin as [<-|Hin]; [contradiction|]. exists x. split; assumption.
Qed.
End Fold.

(* ---- the enc list really contains the initial entry's enc, and nothing else has index 0 ------------- *)

Lemma hh_hinsort_in x l z : In z (hinsort x l) <-> z = x \/ In z l.
Proof.
  induction l as [|y r IH]; cbn [hinsort].
  - cbn. intuition.
  - destruct (bytes_ltb (fst x) (fst y)); cbn [In]; [intuition|]. rewrite IH. intuition.
Qed.

Lemma hh_fold_insort_in (x : hentry) names : forall acc z,
  In z (fold_left (fun a nm => hinsort (nm, x) a) names acc) <-> (exists nm, In nm names /\ z = (nm, x)) \/ In z acc.
Proof.
  induction names as [|n r IH]; intros acc z; cbn [fold_left].
  - split; [intros H; right; exact H|intros [[nm [[] _]]|H]; exact H].
  - rewrite IH, hh_hinsort_in. split.
    + intros [[nm [Hin ->]]|[->|H]].
      * left. exists nm. split; [right; exact Hin|reflexivity].
      * left. exists n. split; [left; reflexivity|reflexivity].
      * right. exact H.
    + intros [[nm [[<-|Hin] ->]]|H].
      * right. left. reflexivity.
      * left. exists nm. split; [exact Hin|reflexivity].
      * right. right. exact H.
Qed.

Lemma hh_henc_add_in root acc (x : hentry) z :
  In z (henc_add root acc x) <-> (snd z = x /\ In z (henc_add root [] x)) \/ In z acc.
Proof.
  unfold henc_add. destruct (linked_names (fst (snd x)) root) as [|n names].
  - rewrite !hh_hinsort_in. cbn [In]. split.
    + intros [->|H]; [left; split; [reflexivity|left; reflexivity]|right; exact H].
    + intros [[_ [->|[]]]|H]; [left; reflexivity|right; exact H].
  - rewrite !hh_fold_insort_in. cbn [In]. split.
    + intros [[nm [Hin ->]]|H]; [left; split; [reflexivity|left; exists nm; split; [exact Hin|reflexivity]]|right; exact H].
    + intros [[_ [H|[]]]|H]; [left; exact H|right; exact H].
Qed.

Lemma hh_henc_add_nonempty root (x : hentry) : exists nm, In (nm, x) (henc_add root [] x).
Proof.
  unfold henc_add. destruct (linked_names (fst (snd x)) root) as [|n names].
  - exists dummy_name. left. reflexivity.
  - exists n. apply hh_fold_insort_in. left. exists n. split; [left; reflexivity|reflexivity].
Qed.

Lemma hh_henc_list_in root es : forall acc z,
  In z (fold_left (henc_add root) es acc) -> In (snd z) es \/ In z acc.
Proof.
  induction es as [|x r IH]; intros acc z H; cbn [fold_left] in H; [right; exact H|].
  destruct (IH _ _ H) as [Hr|Ha]; [left; right; exact Hr|].
  apply hh_henc_add_in in Ha. destruct Ha as [[Hs _]|Ha]; [left; left; symmetry; exact Hs|right; exact Ha].
Qed.

Lemma hh_henc_list_keeps root es : forall acc z, In z acc -> In z (fold_left (henc_add root) es acc).
Proof.
  induction es as [|x r IH]; intros acc z H; cbn [fold_left]; [exact H|].
  apply IH. apply hh_henc_add_in. right. exact H.
Qed.

Lemma hh_henc_list_has root es (x : hentry) : In x es -> exists nm, In (nm, x) (henc_list root es).
Proof.
  unfold henc_list. generalize (@nil henc). induction es as [|y r IH]; intros acc Hin; [destruct Hin|].
  cbn [fold_left]. destruct Hin as [->|Hin]; [|apply IH; exact Hin].
  destruct (hh_henc_add_nonempty root x) as [nm Hnm]. exists nm. apply hh_henc_list_keeps.
  apply hh_henc_add_in. left. split; [reflexivity|exact Hnm].
Qed.

(* indices of [hentries]: combine (seq 0 n) l -- index 0 is the head *)
Lemma hh_combine_seq_index {A} (l : list A) : forall k n x, In (n, x) (combine (seq k (length l)) l) -> (k <= n)%nat.
Proof.
  induction l as [|a r IH]; intros k n x H; [destruct H|]. cbn [length seq combine In] in H.
  destruct H as [H|H]; [injection H as <- _; lia|]. apply IH in H. lia.
Qed.

(* EVERY state whose catalog has its initial entry (binos = i0 :: _, true for every catalog add_eltorito
   builds) with validation platform 0 and whose hybrid object is well formed (Proofs/HybridHistWrite.v:
   hh_run_wf gives it for every history): after the reshuffle the MBR's rba is 4 * the extent of the
   initial entry's boot file *)
Theorem hh_rba_is_initial_entry_gen b bt y i0 rest :
  hy_wf y -> bboot b = Some bt -> binos bt = i0 :: rest -> v_platform_id (c_validation (bcat bt)) = 0 ->
  ih_rba (hy_ih (p_hy (push b y))) = rba_of b i0 * 4 /\ p_ok (push b y) = true.
Proof.
  intros Hwf Hb Hi Hpf. split; [|apply hh_push_good; exact Hwf].
  unfold push, push_gen. rewrite Hb. fold push_step.
  set (x0 := (0%nat, (i0, (0, e_sector_count (c_initial (bcat bt))))) : hentry).
  assert (Hes : exists tl, hentries bt = x0 :: tl /\ forall x, In x tl -> fst x <> 0%nat).
  { unfold hentries, entry_descr. rewrite Hi, Hpf. cbn [combine length seq]. eexists. split; [reflexivity|].
    intros [n x] Hin. apply hh_combine_seq_index in Hin. cbn [fst]. lia. }
  destruct Hes as (tl & Hes & Htl). rewrite Hes.
  apply hh_fold_rba_pending.
  - split; [reflexivity|exact Hwf].
  - reflexivity.
  - intros e Hin Hk. apply hh_henc_list_in in Hin. destruct Hin as [Hin|[]].
    destruct Hin as [Hx|Hin].
    + unfold enc_ino, enc_pf. rewrite <- Hx. split; reflexivity.
    + exfalso. apply (Htl _ Hin). exact Hk.
  - destruct (hh_henc_list_has (lroot (bl b)) (x0 :: tl) x0 (or_introl eq_refl)) as [nm Hnm].
    exists (nm, x0). split; [exact Hnm|reflexivity].
Qed.

(* for every history: the state after it, when it has a catalog whose validation platform is 0 *)
Theorem hh_rba_is_initial_entry_run ops bt y i0 rest :
  let s := hrun hinit ops in
  hhyb s = Some y -> bboot (hb s) = Some bt -> binos bt = i0 :: rest ->
  v_platform_id (c_validation (bcat bt)) = 0 ->
  ih_rba (hy_ih (p_hy (push (hb s) y))) = rba_of (hb s) i0 * 4.
Proof.
  intros s Hy Hb Hi Hpf. pose proof (hh_run_wf ops) as Hwf. fold s in Hwf. unfold hwf in Hwf. rewrite Hy in Hwf.
  apply (hh_rba_is_initial_entry_gen (hb s) bt y i0 rest Hwf Hb Hi Hpf).
Qed.

(* the hypotheses hold on a non-trivial state: EFI image with two names, Mac image, efi + mac hybrid
   (HybridHistProofs.w_two_names, before its final write): catalog with initial entry, validation
   platform 0, four encs (BOOT, EA, EB, MAC), and the conclusion computed: rba = 4 * 26 *)
Definition rba_gen_chk (s : hstate) : bool :=
  match hhyb s, bboot (hb s) with
  | Some y, Some bt =>
      match binos bt with
      | i0 :: _ =>
          (v_platform_id (c_validation (bcat bt)) =? 0) &&
          Nat.eqb (length (henc_list (lroot (bl (hb s))) (hentries bt))) 4 &&
          (ih_rba (hy_ih (p_hy (push (hb s) y))) =? rba_of (hb s) i0 * 4) && (rba_of (hb s) i0 =? 26)
      | [] => false
      end
  | _, _ => false
  end.
Example hh_rba_gen_example : rba_gen_chk (hrun hinit (removelast w_two_names)) = true.
Proof. vm_compute. reflexivity. Qed.

Print Assumptions hh_rba_is_initial_entry_gen.
Print Assumptions hh_rba_is_initial_entry_run.
Print Assumptions hh_rba_gen_example.
