From Coq Require Import List Bool.
From PV.Model Require Import Lazy.
Import ListNotations.

Section LazyProofs.
  Variables core derived image edit : Type.
  Variable apply : edit -> core -> core.
  Variable reshuffle : core -> derived.
  Variable master : core -> derived -> image.
  Variable marks : edit -> bool.

  Notation st := (st core derived).
  Notation step := (step core derived image edit apply reshuffle master marks).
  Notation run := (run core derived image edit apply reshuffle master marks).
  Notation refresh := (refresh core derived reshuffle).
  Notation init := (init core derived reshuffle).
  Notation final_image := (final_image core derived image edit apply reshuffle master marks).
  Notation apply_all := (apply_all core edit apply).
  Notation edits_of := (edits_of edit).

  (* the invariant: metadata that is not flagged stale IS the from-scratch metadata *)
  Definition Inv (s : st) : Prop := stale _ _ s = false -> d _ _ s = reshuffle (c _ _ s).

  Lemma Inv_init c0 : Inv (init c0).
  Proof. intros _. reflexivity. Qed.

  Lemma refresh_Inv s : Inv s -> Inv (refresh s).
  Proof. unfold Inv, Lazy.refresh. intros H. destruct (stale _ _ s) eqn:E; cbn; [reflexivity|]. rewrite E. exact H. Qed.

  Lemma refresh_fresh s : Inv s -> d _ _ (refresh s) = reshuffle (c _ _ (refresh s)) /\ c _ _ (refresh s) = c _ _ s.
  Proof.
    unfold Inv, Lazy.refresh. intros H. destruct (stale _ _ s) eqn:E; cbn; [split; reflexivity|].
    split; [apply H; reflexivity|reflexivity].
  Qed.

  (* an edit that does not flag the metadata (set_hidden, clear_hidden, ...) must not influence it *)
  Hypothesis unmarked_irrelevant : forall e, marks e = false -> forall c0, reshuffle (apply e c0) = reshuffle c0.

  Lemma step_Inv always s a : Inv s -> Inv (fst (step always s a)).
  Proof.
    intros H. destruct a as [e| | |]; cbn [Lazy.step fst].
    - destruct (marks e) eqn:M.
      + destruct always; cbn [fst]; intros E; cbn in *; [reflexivity|discriminate].
      + cbn [fst]. intros E. cbn in *. rewrite (unmarked_irrelevant e M). apply H. exact E.
    - intros _. reflexivity.
    - apply refresh_Inv. exact H.
    - apply refresh_Inv. exact H.
  Qed.

  Lemma step_core always s a :
    c _ _ (fst (step always s a)) = match a with Edit _ e => apply e (c _ _ s) | _ => c _ _ s end.
  Proof.
    destruct a as [e| | |]; cbn [Lazy.step fst].
    - destruct (marks e); [destruct always|]; reflexivity.
    - reflexivity.
    - unfold Lazy.refresh. destruct (stale _ _ s); reflexivity.
    - unfold Lazy.refresh. destruct (stale _ _ s); reflexivity.
  Qed.

  Lemma run_Inv_core always acts : forall s, Inv s ->
    Inv (fst (run always s acts)) /\ c _ _ (fst (run always s acts)) = apply_all (edits_of acts) (c _ _ s).
  Proof.
    induction acts as [|a r IH]; intros s H; cbn [Lazy.run Lazy.edits_of flat_map].
    - split; [exact H|reflexivity].
    - pose proof (step_Inv always s a H) as H1. pose proof (step_core always s a) as C1.
      destruct (step always s a) as [s1 o] eqn:Es. cbn [fst] in *.
      specialize (IH s1 H1). destruct (run always s1 r) as [s2 os] eqn:Er. cbn [fst] in *.
      destruct IH as [I2 C2]. split; [exact I2|]. rewrite C2, C1.
      destruct a; cbn; reflexivity.
  Qed.

  (* C06: the bytes depend only on the edits -- not on the mode, not on where force_consistency,
     queries or extra writes were interleaved *)
  Theorem final_image_only_edits always c0 acts :
    final_image always c0 acts =
    master (apply_all (edits_of acts) c0) (reshuffle (apply_all (edits_of acts) c0)).
  Proof.
    unfold Lazy.final_image.
    destruct (run_Inv_core always acts (init c0) (Inv_init c0)) as [I C].
    destruct (refresh_fresh _ I) as [D Cc]. rewrite D, Cc, C. reflexivity.
  Qed.

  Corollary schedule_independent a1 a2 c0 acts1 acts2 :
    edits_of acts1 = edits_of acts2 -> final_image a1 c0 acts1 = final_image a2 c0 acts2.
  Proof. intros E. rewrite !final_image_only_edits, E. reflexivity. Qed.

  (* every image written in the middle of a schedule is the from-scratch image of the edits so far *)
  Theorem every_write_consistent always acts : forall s, Inv s ->
    Forall (fun i => exists k, i = master (apply_all (edits_of (firstn k acts)) (c _ _ s))
                                          (reshuffle (apply_all (edits_of (firstn k acts)) (c _ _ s))))
           (snd (run always s acts)).
  Proof.
    induction acts as [|a r IH]; intros s H; cbn [Lazy.run snd]; [constructor|].
    pose proof (step_Inv always s a H) as H1. pose proof (step_core always s a) as C1.
    destruct (step always s a) as [s1 o] eqn:Es. cbn [fst] in *.
    specialize (IH s1 H1). destruct (run always s1 r) as [s2 os] eqn:Er. cbn [snd] in *.
    assert (T : Forall (fun i => exists k, i = master (apply_all (edits_of (firstn k (a :: r))) (c _ _ s))
                                  (reshuffle (apply_all (edits_of (firstn k (a :: r))) (c _ _ s)))) os).
    { eapply Forall_impl; [|exact IH]. intros i [k Hk]. exists (S k). cbn [firstn Lazy.edits_of flat_map].
      rewrite Hk, C1. destruct a; cbn; reflexivity. }
    destruct o as [i|]; [|exact T]. constructor; [|exact T].
    destruct a; cbn [Lazy.step] in Es; try (destruct (marks e); [destruct always|]); try discriminate.
    inversion Es; subst. exists 1%nat. cbn [firstn Lazy.edits_of flat_map app Lazy.apply_all fold_left].
    destruct (refresh_fresh _ H) as [D Cc]. rewrite D, Cc. reflexivity.
  Qed.
End LazyProofs.

(* the hypothesis is necessary: one edit that does not flag the metadata makes the schedule visible *)
Section Refuted.
  Definition r_apply (e : bool) (c : nat) : nat := S c.
  Definition r_reshuffle (c : nat) : nat := c.
  Definition r_master (c d : nat) : nat * nat := (c, d).
  Definition r_marks (e : bool) : bool := e.
  Lemma unflagged_edit_breaks_transparency :
    exists acts1 acts2,
      edits_of bool acts1 = edits_of bool acts2 /\
      final_image nat nat (nat * nat) bool r_apply r_reshuffle r_master r_marks false 0 acts1 <>
      final_image nat nat (nat * nat) bool r_apply r_reshuffle r_master r_marks false 0 acts2.
  Proof.
    exists [Edit bool true; Edit bool false], [Edit bool true; Force bool; Edit bool false].
    split; [reflexivity|]. vm_compute. discriminate.
  Qed.
End Refuted.
