(* Proofs about Model/Eltorito.v, part 2b: the invariant of EltoritoBootCatalog.new / .add_section,
   the catalogs reachable through them, and examples from real objects.

   Main results
     cat_new_inv add_section_inv built_inv cat_inv_wf     the invariant (last header 0x91, the others
                                     0x90, one entry each, at most 31 sections, everything recordable)
     built_roundtrip          built c ab -> parse_catalog (record c ++ 0 :: rest) = Some c  (any flags)
     built_extent_roundtrip   built c ab -> parse_catalog_extent (extent as written ++ anything) = Some c
     full_catalog_roundtrip   ... in particular with 31 sections, where record() is 2048 bytes long
     full_catalog_exists      such a catalog exists (31 add_section, mixed bootable flags)
     extension_entry_lost     a 0x44 extension is parsed but never written back
     underfull_section_padded a header announcing more entries than present: zero units are taken
                              as (non-bootable) entries *)
From Coq Require Import ZArith List Bool Lia ZifyBool.
From PV.Base Require Import Prim ListX.
From PV.Gen Require Import GenConst GenFun.
From PV.Model Require Import Codec Eltorito.
From PV.Proofs Require Import CodecProofs EltoritoProofs EltoritoCatalogProofs.
Import ListNotations.
Local Open Scope Z_scope.
Ltac Zify.zify_post_hook ::= Z.to_euclidean_division_equations.

(* ---- the invariant of new() and add_section() ---- *)
Lemma indicators_app i x :
  indicators_ok (i ++ [x]) = forallb (fun h => h_indicator h =? 144) i && (h_indicator x =? 145).
Proof.
  induction i as [|a i IH]; [cbn; rewrite andb_true_r; reflexivity|].
  cbn [app indicators_ok forallb]. rewrite IH.
  destruct i; cbn [app]; [cbn [forallb]|]; rewrite ?andb_assoc; reflexivity.
Qed.

Lemma indicators_sane secs : indicators_ok secs = true ->
  forallb section_ok secs = true -> sections_sane secs = true.
Proof.
  induction secs as [|s r IH]; [reflexivity|]. cbn [indicators_ok forallb sections_sane].
  intros Hi Ho. apply andb_prop in Hi. apply andb_prop in Ho. destruct Hi as [Hi1 Hi2]. destruct Ho as [Ho1 Ho2].
  destruct (section_ok_inv s Ho1) as (_ & Hn & _). rewrite (IH Hi2 Ho2), andb_true_r.
  apply andb_true_intro. split; [lia|]. destruct r; [reflexivity|exact Hi1].
Qed.

Lemma cat_inv_inv c : cat_inv c = true ->
  val_ok (c_validation c) = true /\ entry_ok (c_initial c) = true /\
  forallb section_ok (c_sections c) = true /\ indicators_ok (c_sections c) = true /\
  zlen (c_sections c) <= 31 /\ forallb (fun h => h_num_entries h =? 1) (c_sections c) = true /\
  c_standalone c = [].
Proof.
  unfold cat_inv. intros H. andb_split H. repeat split; try assumption; [lia|].
  destruct (c_standalone c); [reflexivity|discriminate].
Qed.
Lemma cat_inv_intro c :
  val_ok (c_validation c) = true -> entry_ok (c_initial c) = true ->
  forallb section_ok (c_sections c) = true -> indicators_ok (c_sections c) = true ->
  zlen (c_sections c) <= 31 -> forallb (fun h => h_num_entries h =? 1) (c_sections c) = true ->
  c_standalone c = [] -> cat_inv c = true.
Proof.
  intros H1 H2 H3 H4 H5 H6 H7. unfold cat_inv. rewrite H1, H2, H3, H4, H6, H7.
  replace (zlen (c_sections c) <=? 31) with true by lia. reflexivity.
Qed.

(* a catalog satisfying the invariant is well formed, whatever the bootable flags *)
Theorem cat_inv_wf c : cat_inv c = true -> cat_wf c = true.
Proof.
  intros H. destruct (cat_inv_inv c H) as (H1 & H2 & H3 & H4 & _ & _ & H7).
  unfold cat_wf. rewrite H1, H2, H3, H7, (indicators_sane _ H4 H3). reflexivity.
Qed.

Lemma nrec_one ss : forallb section_ok ss = true -> forallb (fun h => h_num_entries h =? 1) ss = true ->
  nrec ss = (2 * length ss)%nat.
Proof.
  induction ss as [|s ss IH]; [reflexivity|]. cbn [forallb nrec length]. intros Ho H1.
  apply andb_prop in Ho. apply andb_prop in H1. destruct Ho as [Ho1 Ho2]. destruct H1 as [H1a H1b].
  destruct (section_ok_inv s Ho1) as (_ & Hn & _). rewrite (IH Ho2 H1b). unfold zlen in Hn. lia.
Qed.
Lemma cat_inv_fits c : cat_inv c = true ->
  length (cat_bytes c) = (64 + 64 * length (c_sections c))%nat /\ (length (cat_bytes c) <= 2048)%nat.
Proof.
  intros H. destruct (cat_inv_inv c H) as (_ & _ & H3 & _ & H5 & H6 & H7).
  rewrite cat_bytes_length, H7, (nrec_one _ H3 H6). cbn [length]. unfold zlen in H5. lia.
Qed.

Theorem cat_new_inv sc ls m st pid b c : cat_new sc ls m st pid b = Some c ->
  cat_inv c = true /\ all_bootable c = true /\
  v_platform_id (c_validation c) = pid.
Proof.
  unfold cat_new. intros H. destruct (platform_ok pid) eqn:Hp.
  - destruct (val_new_ok pid Hp) as (v & Hv & Hvo & Hvp & _). rewrite Hv in H.
    destruct (entry_new sc ls m st b) as [e|] eqn:He; [|discriminate H].
    apply some_inv in H; subst c. destruct (entry_new_ok _ _ _ _ _ _ He) as (_ & Heo & _).
    split; [apply cat_inv_intro; cbn [c_validation c_initial c_sections c_standalone]; auto;
            rewrite zlen_nil; lia|].
    split; [reflexivity|exact Hvp].
  - rewrite (val_new_bad_platform pid Hp) in H. discriminate H.
Qed.

Lemma new_section_ok e pid : entry_ok e = true -> u8_ok pid = true ->
  section_ok (header_add_new_entry (header_new (repeat 0 28) pid) e) = true.
Proof.
  intros He Hp. unfold section_ok, header_ok, header_add_new_entry, header_new, header_set_entries.
  cbn [h_indicator h_platform_id h_num_entries h_id_string h_entries app forallb].
  rewrite He, Hp, bytes_ok_repeat0, repeat_length. reflexivity.
Qed.
Lemma section_ok_not_last s : section_ok s = true -> section_ok (header_set_record_not_last s) = true.
Proof.
  unfold section_ok, header_ok, header_set_record_not_last.
  cbn [h_indicator h_platform_id h_num_entries h_id_string h_entries]. intros H. andb_split H.
  rewrite H3, H2, H1, H4, H0, H5. reflexivity.
Qed.

(* add_section maintains the invariant: a new last section 0x91 with one entry, the previous last
   one switched to 0x90, at most 31 sections *)
Theorem add_section_inv c sc ls m st efi b c' : cat_inv c = true ->
  cat_add_section c sc ls m st efi b = Some c' ->
  cat_inv c' = true /\ zlen (c_sections c') = zlen (c_sections c) + 1 /\
  (b = true -> all_bootable c = true -> all_bootable c' = true).
Proof.
  intros H Ha. destruct (cat_inv_inv c H) as (H1 & H2 & H3 & H4 & H5 & H6 & H7).
  unfold cat_add_section in Ha. destruct (zlen (c_sections c) =? 31) eqn:E31; [discriminate Ha|].
  destruct (entry_new sc ls m st b) as [e|] eqn:He; [|discriminate Ha].
  apply some_inv in Ha; subst c'. cbn [c_validation c_initial c_sections c_standalone].
  destruct (entry_new_ok _ _ _ _ _ _ He) as (_ & Heo & Hbi & _).
  assert (Hpid : u8_ok (if efi then 239 else v_platform_id (c_validation c)) = true).
  { destruct efi; [reflexivity|]. unfold val_ok in H1. andb_split H1. apply platform_ok_u8, H1. }
  pose proof (new_section_ok e _ Heo Hpid) as Hnew.
  set (sec := header_add_new_entry (header_new (repeat 0 28) _) e) in *.
  pose proof (split_last_spec (c_sections c)) as Hsl. unfold all_bootable. cbn [c_sections].
  destruct (split_last (c_sections c)) as [[i l]|].
  - rewrite Hsl in *. clear Hsl. rewrite forallb_app in H3, H6. rewrite indicators_app in H4.
    apply andb_prop in H3. apply andb_prop in H4. apply andb_prop in H6.
    destruct H3 as [H3a H3b]. destruct H4 as [H4a H4b]. destruct H6 as [H6a H6b].
    cbn [forallb] in H3b, H6b. rewrite andb_true_r in H3b, H6b.
    rewrite zlen_app, zlen_cons, zlen_nil in *.
    split; [|split; [rewrite !zlen_app, !zlen_cons, !zlen_nil; lia|]].
    + apply cat_inv_intro; cbn [c_validation c_initial c_sections c_standalone]; auto.
      * rewrite !forallb_app. cbn [forallb]. rewrite H3a, Hnew, (section_ok_not_last l H3b). reflexivity.
      * rewrite indicators_app, forallb_app. cbn [forallb]. rewrite H4a. reflexivity.
      * rewrite !zlen_app, !zlen_cons, !zlen_nil. lia.
      * rewrite !forallb_app. cbn [forallb]. rewrite H6a. cbn [header_set_record_not_last h_num_entries].
        rewrite H6b. reflexivity.
    + intros Hb Hab. rewrite !forallb_app in *. cbn [forallb] in *. apply andb_prop in Hab. destruct Hab as [Hab1 Hab2].
      rewrite Hab1. cbn [header_set_record_not_last h_entries]. rewrite Hab2.
      unfold sec, header_add_new_entry, header_set_entries, header_new. cbn [h_entries app forallb].
      unfold entry_bootable. rewrite Hbi, Hb. reflexivity.
  - rewrite Hsl in *. clear Hsl. cbn [app]. split; [|split; [reflexivity|]].
    + apply cat_inv_intro; cbn [c_validation c_initial c_sections c_standalone]; auto;
        cbn [forallb]; rewrite ?Hnew, ?zlen_cons, ?zlen_nil; try reflexivity; lia.
    + intros Hb _. cbn [forallb]. unfold sec, header_add_new_entry, header_set_entries, header_new.
      cbn [h_entries app forallb]. unfold entry_bootable. rewrite Hbi, Hb. reflexivity.
Qed.
Lemma add_section_limit c sc ls m st efi b :
  zlen (c_sections c) = 31 -> cat_add_section c sc ls m st efi b = None.
Proof. intros H. unfold cat_add_section. rewrite H. reflexivity. Qed.

(* catalogs reachable from new() by add_section(); the flag says whether all section entries were
   added with bootable=True *)
Inductive built : et_catalog -> bool -> Prop :=
| built_new sc ls m st pid b c : cat_new sc ls m st pid b = Some c -> built c true
| built_add c ab sc ls m st efi b c' :
    built c ab -> cat_add_section c sc ls m st efi b = Some c' -> built c' (ab && b).

Theorem built_inv c ab : built c ab -> cat_inv c = true /\ (ab = true -> all_bootable c = true).
Proof.
  induction 1 as [sc ls m st pid b c Hn|c ab sc ls m st efi b c' Hb [IH1 IH2] Hadd].
  - destruct (cat_new_inv _ _ _ _ _ _ _ Hn) as (H1 & H2 & _). auto.
  - destruct (add_section_inv _ _ _ _ _ _ _ _ IH1 Hadd) as (H1 & _ & H3).
    split; [exact H1|]. intros Hab. apply andb_prop in Hab. destruct Hab as [Hab1 Hab2]. auto.
Qed.
(* every catalog built through the API is recordable and parses back, whatever the bootable flags *)
Corollary built_roundtrip c ab rest : built c ab ->
  cat_record c = Some (cat_bytes c) /\ parse_catalog (cat_bytes c ++ 0 :: rest) = Some c.
Proof. intros H. destruct (built_inv c ab H) as [H1 _]. apply cat_roundtrip, cat_inv_wf, H1. Qed.
(* ... and is read back from the extent write() produces, whatever follows it in the image *)
Theorem built_extent_roundtrip c ab beyond : built c ab ->
  parse_catalog_extent (cat_extent_bytes c ++ beyond) = Some c.
Proof.
  intros H. destruct (built_inv c ab H) as [H1 _].
  apply cat_extent_roundtrip; [apply cat_inv_wf, H1|apply cat_inv_fits, H1].
Qed.
(* the 31-section case: record() is exactly the 2048-byte extent, no terminator, no padding; the
   reader supplies the terminator itself (before commit 351102c it went on into the next extent) *)
Theorem full_catalog_roundtrip c ab beyond : built c ab -> zlen (c_sections c) = 31 ->
  length (cat_bytes c) = 2048%nat /\ cat_extent_bytes c = cat_bytes c /\
  parse_catalog_extent (cat_bytes c ++ beyond) = Some c /\
  (forall sc ls m st efi b, cat_add_section c sc ls m st efi b = None).
Proof.
  intros H H31. destruct (built_inv c ab H) as [H1 _]. destruct (cat_inv_fits c H1) as [Hl _].
  assert (Hl' : length (cat_bytes c) = 2048%nat) by (unfold zlen in H31; lia).
  assert (He : cat_extent_bytes c = cat_bytes c).
  { unfold cat_extent_bytes. rewrite Hl'. cbn [Nat.sub repeat]. apply app_nil_r. }
  split; [exact Hl'|]. split; [exact He|]. split.
  - rewrite <- He. apply (built_extent_roundtrip c ab beyond H).
  - intros. apply add_section_limit, H31.
Qed.

Fixpoint add_sections (n : nat) (b : bool) (c : et_catalog) : option et_catalog :=
  match n with
  | O => Some c
  | S n' => match cat_add_section c 4 0 MNoemul 0 false b with
            | Some c' => add_sections n' (negb b) c'
            | None => None
            end
  end.
Lemma add_sections_built n : forall b c ab c', built c ab -> add_sections n b c = Some c' ->
  exists ab', built c' ab'.
Proof.
  induction n as [|n IH]; intros b c ab c' Hb H; cbn [add_sections] in H.
  - apply some_inv in H; subst c'. exists ab. exact Hb.
  - destruct (cat_add_section c 4 0 MNoemul 0 false b) as [c1|] eqn:E; [|discriminate H].
    apply (IH (negb b) c1 (ab && b) c'); [|exact H]. eapply built_add; [exact Hb|exact E].
Qed.
(* non-vacuity of full_catalog_roundtrip, computed: 31 sections with alternating bootable flags,
   followed in the image by a boot file 'boot\n' *)
Theorem full_catalog_exists :
  exists c ab, built c ab /\ zlen (c_sections c) = 31 /\ length (cat_bytes c) = 2048%nat /\
    all_bootable c = false /\
    parse_catalog_extent (cat_bytes c ++ [98; 111; 111; 116; 10] ++ repeat 0 2043) = Some c /\
    check_catalog_bytes (cat_bytes c ++ [98; 111; 111; 116; 10] ++ repeat 0 2043) = true /\
    parse_catalog (cat_bytes c ++ [98; 111; 111; 116; 10] ++ repeat 0 2043) = None.
Proof.
  destruct (cat_new 4 0 MNoemul 0 0 true) as [c0|] eqn:E0; [|vm_compute in E0; discriminate E0].
  assert (Hb0 : built c0 true) by (eapply built_new; exact E0).
  destruct (add_sections 31 false c0) as [c|] eqn:E.
  2:{ vm_compute in E0. apply some_inv in E0. subst c0. vm_compute in E. discriminate E. }
  destruct (add_sections_built 31 false c0 true c Hb0 E) as [ab Hb].
  exists c, ab. split; [exact Hb|].
  vm_compute in E0. apply some_inv in E0. subst c0. vm_compute in E. apply some_inv in E. subst c.
  vm_conj.
Qed.

(* the witness of the former add_section_nonbootable_refuted (new(); add_section(bootable=False))
   now round-trips: the 0x00 entry is taken as the entry the header announced *)
Example nonbootable_section_roundtrip :
  exists c c', cat_new 4 0 MNoemul 0 0 true = Some c /\
    cat_add_section c 4 0 MNoemul 0 false false = Some c' /\
    parse_catalog_extent (cat_extent_bytes c') = Some c' /\
    parse_catalog (cat_extent_bytes c') = Some c' /\ check_catalog_bytes (cat_extent_bytes c') = true.
Proof. do 2 eexists. vm_conj. Qed.

(* ---- remaining peculiarities ---- *)
(* a 0x44 Section Entry Extension is appended to the selection criteria of the last entry, but
   record() packs only 19 bytes ('19s') and never emits an extension entry; with no section (or
   an empty one) the subscript [-1] raises IndexError *)
Example extension_entry_lost :
  let e := mk_entry 136 0 0 0 4 27 1 (repeat 7 19) in
  let s := mk_header 145 0 1 (repeat 0 28) [e] in
  let ext := [68; 0] ++ repeat 9 30 in
  forall v i, cat_new 4 0 MNoemul 0 0 true = Some (mk_cat v i [] []) ->
  let data := cat_bytes (mk_cat v i [s] []) ++ ext ++ repeat 0 32 in
  parse_catalog data =
    Some (mk_cat v i [mk_header 145 0 1 (repeat 0 28)
                        [mk_entry 136 0 0 0 4 27 1 (repeat 7 19 ++ repeat 9 30)]] []) /\
  check_catalog_bytes data = false /\
  parse_catalog (cat_bytes (mk_cat v i [] []) ++ ext ++ repeat 0 32) = None.
Proof.
  intros e s ext v i H. vm_compute in H. apply some_inv in H. injection H as <- <-.
  vm_conj.
Qed.

(* a header that announces more entries than follow: the zero padding (and, past the 64th unit, the
   synthetic zero units) is consumed as all-zero non-bootable entries until the section is full;
   before commit acaa253 this raised 'section header specified 3 entries, only saw 1'.  record()
   of the result writes the fabricated entries as zero bytes, so the image bytes are reproduced. *)
Example underfull_section_padded :
  forall v i, cat_new 4 0 MNoemul 0 0 true = Some (mk_cat v i [] []) ->
  let e := mk_entry 136 0 0 0 4 27 0 (repeat 0 19) in
  let z := mk_entry 0 0 0 0 0 0 0 (repeat 0 19) in
  let data := cat_extent_bytes (mk_cat v i [mk_header 145 0 3 (repeat 0 28) [e]] []) in
  parse_catalog_extent data = Some (mk_cat v i [mk_header 145 0 3 (repeat 0 28) [e; z; z]] []) /\
  check_catalog_bytes data = true.
Proof.
  intros v i H. vm_compute in H. apply some_inv in H. injection H as <- <-. vm_conj.
Qed.

(* ---- real objects: new(); three add_eltorito (the second efi=True, the third load_seg 0x7c0 on
   a 3000-byte file); write; eltorito_boot_catalog.record() and the catalog's extent ---- *)
Definition zero28 : list Z := repeat 0 28.
Definition real_cat : et_catalog :=
  mk_cat (mk_val 0 (repeat 0 24) 21930) (mk_entry 136 0 0 0 4 26 0 (repeat 0 19))
    [ mk_header 144 239 1 zero28 [mk_entry 136 0 0 0 4 27 0 (repeat 0 19)];
      mk_header 145 0 1 zero28 [mk_entry 136 0 1984 0 8 28 0 (repeat 0 19)] ] [].
Definition real_cat_bytes : list Z :=
  real_val_bytes ++ real_init_bytes
  ++ [144; 239; 1; 0] ++ zero28 ++ [136; 0; 0; 0; 0; 0; 4; 0; 27; 0; 0; 0] ++ repeat 0 20
  ++ [145; 0; 1; 0] ++ zero28 ++ [136; 0; 192; 7; 0; 0; 8; 0; 28; 0; 0; 0] ++ repeat 0 20.
(* the extents are assigned later (set_data_location); add_section creates the entries with rba 0 *)
Definition set_rbas (c : et_catalog) (r0 : Z) (rs : list Z) : et_catalog :=
  mk_cat (c_validation c) (entry_set_data_location (c_initial c) r0)
    (map (fun '(h, r) => header_set_entries h (h_num_entries h)
                           (map (fun e => entry_set_data_location e r) (h_entries h)))
         (combine (c_sections c) rs)) (c_standalone c).
Example real_catalog :
  cat_record real_cat = Some real_cat_bytes /\ length real_cat_bytes = 192%nat /\
  cat_wf real_cat = true /\ cat_inv real_cat = true /\
  parse_catalog (real_cat_bytes ++ repeat 0 1856) = Some real_cat /\
  parse_catalog_extent (real_cat_bytes ++ repeat 0 1856 ++ [7; 7; 7]) = Some real_cat /\
  cat_extent_bytes real_cat = real_cat_bytes ++ repeat 0 1856 /\
  check_catalog_bytes (real_cat_bytes ++ repeat 0 1856) = true /\
  bad_catalog_cases 0 [real_cat_bytes ++ repeat 0 1856; real_cat_bytes; real_val_bytes] = [1%nat; 2%nat] /\
  (exists c1 c2 c3, cat_new 4 0 MNoemul 0 0 true = Some c1 /\
     cat_add_section c1 4 0 MNoemul 0 true true = Some c2 /\
     cat_add_section c2 (default_sector_count 3000) 1984 MNoemul 0 false true = Some c3 /\
     set_rbas c3 26 [27; 28] = real_cat).
Proof.
  repeat match goal with |- _ /\ _ => split end; try (vm_compute; reflexivity).
  do 3 eexists. vm_conj.
Qed.

Print Assumptions cat_inv_wf.
Print Assumptions cat_new_inv.
Print Assumptions add_section_inv.
Print Assumptions built_inv.
Print Assumptions built_roundtrip.
Print Assumptions built_extent_roundtrip.
Print Assumptions full_catalog_roundtrip.
Print Assumptions full_catalog_exists.
Print Assumptions nonbootable_section_roundtrip.
Print Assumptions extension_entry_lost.
Print Assumptions underfull_section_padded.
