(* Examples for Model/RRPlace.v (RockRidge.new, rockridge.py after the repair "Rock Ridge symlink components are
   accounted and recorded by their real length").  The inputs below were the witnesses of the three statements
   that used to be refuted (place_ce_iff_refuted, place_complete_sl_trunc_refuted, place_complete_sl_dot_refuted);
   they now read back exactly, as Proofs/RRPlaceProofs2.v proves for every input (place_ce_iff,
   place_reads_target).  The byte-level Examples compare the model with the real library:
   rr = pycdlib.rockridge.RockRidge(); rr.new(first, name, mode, target, version, child, relocated, parent,
   bytes_to_skip, curr_dr_len, {}, 1e9); rr.record_dr_entries() / rr.record_ce_entries() / the returned value. *)
From Coq Require Import ZArith List Bool Lia.
From PV.Base Require Import Prim.
From PV.Model Require Import Codec RREntries RRWalk RRPlace.
From PV.Model Require LongNames.
From PV.Proofs Require Import RRPlaceSLProofs RRPlaceProofs RRPlaceProofs2.
Import ListNotations.
Local Open Scope Z_scope.

Definition d7 : list Z := [101; 9; 9; 1; 46; 40; 0].
(* '/' * 13 , name 'n' * 122, plain record of 34 bytes, Rock Ridge 1.10: before the repair the first pass kept 12
   components in the record and dropped the 13th (no CE entry); now 197 + 33 + 26 > 254 is seen and a CE entry is
   planned *)
Definition w_trunc : place_in :=
  mk_pin V110 false (repeat 110 122%nat) 41471 (Some (repeat 47 13%nat)) false false false 0 34 [d7; d7; d7].
(* 'a/a/.../a' (13 names), name 'n' * 112 *)
Definition w_trunc_names : place_in :=
  mk_pin V110 false (repeat 110 112%nat) 41471 (Some (LongNames.join_slash (repeat [97] 13%nat)))
         false false false 0 34 [d7; d7; d7].
(* '/.b' at curr_dr_len 210: the name ".b" is cut right after its dot *)
Definition w_dot : place_in := mk_pin V110 false [110] 41471 (Some [47; 46; 98]) false false false 0 210 [d7; d7; d7].

Example w_trunc_reads_back : exists r, place w_trunc = Some r /\ input_ok w_trunc r /\
  is_some (ce_record (pl_dr r)) = true /\ entries_list (pl_ce r) <> [] /\ first_fit w_trunc = false /\
  read_target r = repeat 47 13%nat /\ read_name r = p_name w_trunc.
Proof.
  eexists. split; [vm_compute; reflexivity|]. split; [repeat split; vm_compute; congruence|].
  split; [reflexivity|]. split; [vm_compute; discriminate|]. repeat split; vm_compute; reflexivity.
Qed.
Example w_trunc_names_reads_back : exists r, place w_trunc_names = Some r /\
  is_some (ce_record (pl_dr r)) = true /\ read_target r = LongNames.join_slash (repeat [97] 13%nat).
Proof. eexists. split; [vm_compute; reflexivity|]. split; vm_compute; reflexivity. Qed.
Example w_dot_reads_back : exists r, place w_dot = Some r /\ input_ok w_dot r /\
  is_some (ce_record (pl_dr r)) = true /\ read_target r = [47; 46; 98] /\ read_name r = [110] /\
  map sl_view (sl_of (visible r)) =
    [(true, [LongNames.CRoot; LongNames.CName true [46]]); (false, [LongNames.CName false [98]])].
Proof.
  eexists. split; [vm_compute; reflexivity|]. split; [repeat split; vm_compute; congruence|].
  repeat split; vm_compute; reflexivity.
Qed.

(* ---- the model against the real library (bytes copied from the calls named in the header) ---- *)
Example ex_dot :
  let t : place_tuple := (110, false, [110], 41471, [47; 46; 98], (false, false, false), 0, 210, [[101; 9; 9; 1; 
46; 40; 0]; [101; 9; 9; 1; 46; 40; 0]; [101; 9; 9; 1; 46; 40; 0]]) in
  check_place_case t
    ([78; 77; 6; 1; 0; 110; 83; 76; 10; 1; 1; 8; 0; 1; 1; 46; 67; 69; 28; 1] ++ repeat 0 16%nat ++ [70; 0; 0; 0; 0; 
0; 0; 70])
    ([80; 88; 36; 1; 255; 161; 0; 0; 0; 0; 161; 255; 1; 0; 0; 0; 0; 0; 0; 1] ++ repeat 0 16%nat ++ [83; 76; 8; 1; 
0; 0; 1; 98; 84; 70; 26; 1; 14; 101; 9; 9; 1; 46; 40; 0; 101; 9; 9; 1; 46; 40; 0; 101; 9; 9; 1; 46; 40; 0]) && 
check_place_ret t (254) = true.
Proof. vm_compute. reflexivity. Qed.

Example ex_root_109 :
  let t : place_tuple := (109, true, [], 16749, [], (false, false, false), 0, 34, [[101; 9; 9; 1; 46; 40; 0]; [101; 
9; 9; 1; 46; 40; 0]; [101; 9; 9; 1; 46; 40; 0]]) in
  check_place_case t
    ([83; 80; 7; 1; 190; 239; 0; 82; 82; 5; 1; 129; 80; 88; 36; 1; 109; 65; 0; 0; 0; 0; 65; 109; 1; 0; 0; 0; 0; 0; 
0; 1] ++ repeat 0 16%nat ++ [84; 70; 26; 1; 14; 101; 9; 9; 1; 46; 40; 0; 101; 9; 9; 1; 46; 40; 0; 101; 9; 9; 1; 46; 
40; 0; 67; 69; 28; 1] ++ repeat 0 16%nat ++ [237; 0; 0; 0; 0; 0; 0; 237])
    ([69; 82; 237; 1; 10; 84; 135; 1; 82; 82; 73; 80; 95; 49; 57; 57; 49; 65; 84; 72; 69; 32; 82; 79; 67; 75; 32; 
82; 73; 68; 71; 69; 32; 73; 78; 84; 69; 82; 67; 72; 65; 78; 71; 69; 32; 80; 82; 79; 84; 79; 67; 79; 76; 32; 80; 82; 
79; 86; 73; 68; 69; 83; 32; 83; 85; 80; 80; 79; 82; 84; 32; 70; 79; 82; 32; 80; 79; 83; 73; 88; 32; 70; 73; 76; 69; 
32; 83; 89; 83; 84; 69; 77; 32; 83; 69; 77; 65; 78; 84; 73; 67; 83; 80; 76; 69; 65; 83; 69; 32; 67; 79; 78; 84; 65; 
67; 84; 32; 68; 73; 83; 67; 32; 80; 85; 66; 76; 73; 83; 72; 69; 82; 32; 70; 79; 82; 32; 83; 80; 69; 67; 73; 70; 73; 
67; 65; 84; 73; 79; 78; 32; 83; 79; 85; 82; 67; 69; 46; 32; 32; 83; 69; 69; 32; 80; 85; 66; 76; 73; 83; 72; 69; 82; 
32; 73; 68; 69; 78; 84; 73; 70; 73; 69; 82; 32; 73; 78; 32; 80; 82; 73; 77; 65; 82; 89; 32; 86; 79; 76; 85; 77; 69; 
32; 68; 69; 83; 67; 82; 73; 80; 84; 79; 82; 32; 70; 79; 82; 32; 67; 79; 78; 84; 65; 67; 84; 32; 73; 78; 70; 79; 82; 
77; 65; 84; 73; 79; 78; 46]) && check_place_ret t (136) = true.
Proof. vm_compute. reflexivity. Qed.

Example ex_long_name_xa :
  let t : place_tuple := (112, false, repeat 110 255%nat, 33060, [], (false, false, false), 14, 60, [[101; 9; 9; 1; 
46; 40; 0]; [101; 9; 9; 1; 46; 40; 0]; [101; 9; 9; 1; 46; 40; 0]]) in
  check_place_case t
    ([78; 77; 166; 1; 1] ++ repeat 110 161%nat ++ [67; 69; 28; 1] ++ repeat 0 16%nat ++ [169; 0; 0; 0; 0; 0; 0; 
169])
    ([78; 77; 99; 1; 0] ++ repeat 110 94%nat ++ [80; 88; 44; 1; 36; 129; 0; 0; 0; 0; 129; 36; 1; 0; 0; 0; 0; 0; 0; 
1] ++ repeat 0 24%nat ++ [84; 70; 26; 1; 14; 101; 9; 9; 1; 46; 40; 0; 101; 9; 9; 1; 46; 40; 0; 101; 9; 9; 1; 46; 
40; 0]) && check_place_ret t (254) = true.
Proof. vm_compute. reflexivity. Qed.

Example ex_truncated :
  let t : place_tuple := (110, false, repeat 110 122%nat, 41471, repeat 47 13%nat, (false, false, false), 0, 34, 
[[101; 9; 9; 1; 46; 40; 0]; [101; 9; 9; 1; 46; 40; 0]; [101; 9; 9; 1; 46; 40; 0]]) in
  check_place_case t
    ([78; 77; 127; 1; 0] ++ repeat 110 122%nat ++ [80; 88; 36; 1; 255; 161; 0; 0; 0; 0; 161; 255; 1; 0; 0; 0; 0; 0; 
0; 1] ++ repeat 0 16%nat ++ [83; 76; 29; 1; 1; 8] ++ repeat 0 23%nat ++ [67; 69; 28; 1] ++ repeat 0 16%nat ++ [35; 
0; 0; 0; 0; 0; 0; 35])
    ([83; 76; 9; 1; 0; 0; 0; 0; 0; 84; 70; 26; 1; 14; 101; 9; 9; 1; 46; 40; 0; 101; 9; 9; 1; 46; 40; 0; 101; 9; 9; 
1; 46; 40; 0]) && check_place_ret t (254) = true.
Proof. vm_compute. reflexivity. Qed.

Example ex_relocated_symlink :
  let t : place_tuple := (110, false, [108; 110; 107], 41471, [46; 46; 47] ++ repeat 120 300%nat ++ [47; 46], 
(true, true, true), 0, 38, [[101; 9; 9; 1; 46; 40; 0]; [101; 9; 9; 1; 46; 40; 0]; [101; 9; 9; 1; 46; 40; 0]]) in
  check_place_case t
    ([78; 77; 8; 1; 0; 108; 110; 107; 80; 88; 36; 1; 255; 161; 0; 0; 0; 0; 161; 255; 1; 0; 0; 0; 0; 0; 0; 1] ++ 
repeat 0 16%nat ++ [83; 76; 144; 1; 1; 4; 0; 1; 135] ++ repeat 120 135%nat ++ [67; 69; 28; 1] ++ repeat 0 16%nat ++ 
[228; 0; 0; 0; 0; 0; 0; 228])
    ([83; 76; 174; 1; 0; 0; 165] ++ repeat 120 165%nat ++ [2; 0; 84; 70; 26; 1; 14; 101; 9; 9; 1; 46; 40; 0; 101; 
9; 9; 1; 46; 40; 0; 101; 9; 9; 1; 46; 40; 0; 67; 76; 12; 1] ++ repeat 0 8%nat ++ [80; 76; 12; 1] ++ repeat 0 8%nat 
++ [82; 69; 4; 1]) && check_place_ret t (254) = true.
Proof. vm_compute. reflexivity. Qed.

Example ex_raises :
  let t : place_tuple := (110, false, [110], 41471, [97], (false, false, false), 0, 250, [[0; 0; 0; 0; 0; 0; 0]; 
[0; 0; 0; 0; 0; 0; 0]; [0; 0; 0; 0; 0; 0; 0]]) in
  check_place_case t
    ([])
    ([]) && check_place_ret t (-1) = true.
Proof. vm_compute. reflexivity. Qed.

Print Assumptions w_trunc_reads_back.
Print Assumptions w_dot_reads_back.
