(* Witnesses and examples for Model/RRPlace.v (RockRidge.new).  Every witness below was reproduced on the real
   library: rr = pycdlib.rockridge.RockRidge(); rr.new(first, name, mode, target, version, child, relocated,
   parent, bytes_to_skip, curr_dr_len, {}, 1e9); the Examples compare the model with rr.record_dr_entries() /
   rr.record_ce_entries() / the returned value of those very calls.

   Refuted statements (the general statements they limit are in Proofs/RRPlaceProofs2.v):
     place_ce_iff_refuted            "CE entry present iff the continuation part is non-empty": on the FIRST pass
                                     _new_symlink can push SL records into ce_entries although no CE entry exists
                                     (they are never written).  Smallest target: 13 bytes.
     place_complete_sl_trunc_refuted consequently a reader gets a truncated target although no_dot_names holds
                                     (rr.new(False, b'n'*122, 0o120777, b'/'*13, '1.10', ..., 0, 34, {}, _):
                                      dr_entries.ce_record is None, ce_entries.sl_records has one record;
                                      natural variant: b'n'*112 and 'a/a/a/a/a/a/a/a/a/a/a/a/a' reads 12 names)
     first_pass_truncates            the reason: the test `curr_dr_len + RRSLRecord.length(split) > 254` uses the
                                     true size (33, it fits: 220 + 33 <= 254), the loop's tracker loses 2 bytes per component and keeps 31
     place_complete_sl_dot_refuted   with a CE entry: a name beginning with '.' cut right after the dot reads back
                                     with an extra '/'.  Smallest target: b'/.b' (3 bytes) at curr_dr_len 210:
                                     rr.new(False, b'n', 0o120777, b'/.b', '1.10', ..., 0, 210, {}, _) records
                                     SL [ROOT, CURRENT]+CONTINUE | SL [NAME b]; symlink_path() = b'/./b' *)
From Coq Require Import ZArith List Bool Lia.
From PV.Base Require Import Prim.
From PV.Model Require Import Codec RREntries RRWalk RRPlace.
From PV.Model Require LongNames.
From PV.Proofs Require Import RRPlaceSLProofs RRPlaceProofs RRPlaceProofs2.
Import ListNotations.
Local Open Scope Z_scope.

Definition d7 : list Z := [101; 9; 9; 1; 46; 40; 0].
(* '/' * 13 , name 'n' * 122, plain record of 34 bytes, Rock Ridge 1.10 *)
Definition w_trunc : place_in :=
  mk_pin V110 false (repeat 110 122%nat) 41471 (Some (repeat 47 13%nat)) false false false 0 34 [d7; d7; d7].
(* 'a/a/.../a' (13 names), name 'n' * 112 *)
Definition w_trunc_names : place_in :=
  mk_pin V110 false (repeat 110 112%nat) 41471 (Some (LongNames.join_slash (repeat [97] 13%nat)))
         false false false 0 34 [d7; d7; d7].
(* '/.b' at curr_dr_len 210 *)
Definition w_dot : place_in := mk_pin V110 false [110] 41471 (Some [47; 46; 98]) false false false 0 210 [d7; d7; d7].

Lemma zlist_neq a b : zlist_eqb a b = false -> a <> b.
Proof. intros H E. subst. induction b as [|x b IH]; cbn in H; [discriminate|]. rewrite Z.eqb_refl in H. auto. Qed.

Theorem place_ce_iff_refuted : exists i r, place i = Some r /\ input_ok i r /\
  ce_record (pl_dr r) = None /\ entries_list (pl_ce r) = [E_SL (mk_sl 0 [mk_comp 0 0 []])] /\
  ~ (ce_record (pl_dr r) = None <-> entries_list (pl_ce r) = []).
Proof.
  exists w_trunc. eexists. split; [vm_compute; reflexivity|]. split; [repeat split; vm_compute; congruence|].
  split; [reflexivity|]. split; [reflexivity|]. intros [H _]. specialize (H eq_refl). discriminate H.
Qed.

Theorem place_complete_sl_trunc_refuted : exists i r t, place i = Some r /\ p_target i = Some t /\
  LongNames.no_dot_names t = true /\ read_target r = firstn 12 t /\ read_target r <> t.
Proof.
  exists w_trunc. eexists. eexists. split; [vm_compute; reflexivity|]. split; [reflexivity|].
  split; [vm_compute; reflexivity|]. split; [vm_compute; reflexivity|]. apply zlist_neq. vm_compute. reflexivity.
Qed.
Lemma w_trunc_names_reads : exists r, place w_trunc_names = Some r /\ ce_record (pl_dr r) = None /\
  read_target r = LongNames.join_slash (repeat [97] 12%nat).
Proof. eexists. split; [vm_compute; reflexivity|]. split; vm_compute; reflexivity. Qed.

Theorem first_pass_truncates : exists i l, first_fit i = true /\ sl_in_dr i = Some l /\ l = 31 /\
  len_sl (LongNames.split_slash (target_of i)) = 33.
Proof. exists w_trunc, 31. repeat split; vm_compute; reflexivity. Qed.

Theorem place_complete_sl_dot_refuted : exists i r t, place i = Some r /\ input_ok i r /\ p_target i = Some t /\
  is_some (ce_record (pl_dr r)) = true /\ LongNames.no_dot_names t = false /\
  read_target r = [47; 46; 47; 98] /\ read_target r <> t /\ read_name r = p_name i.
Proof.
  exists w_dot. eexists. eexists. split; [vm_compute; reflexivity|]. split; [repeat split; vm_compute; congruence|].
  split; [reflexivity|]. split; [reflexivity|]. split; [vm_compute; reflexivity|].
  split; [vm_compute; reflexivity|]. split; [apply zlist_neq; vm_compute; reflexivity|vm_compute; reflexivity].
Qed.

(* ---- the model against the real library (bytes copied from the calls named in the header) ---- *)
Example ex_dot :
  let t : place_tuple := (110, false, [110], 41471, [47; 46; 98], (false, false, false), 0, 210, [[101; 9; 9; 1; 
46; 40; 0]; [101; 9; 9; 1; 46; 40; 0]; [101; 9; 9; 1; 46; 40; 0]]) in
  check_place_case t
    ([78; 77; 6; 1; 0; 110; 83; 76; 9; 1; 1; 8; 0; 2; 0; 67; 69; 28; 1] ++ repeat 0 16%nat ++ [70; 0; 0; 0; 0; 0; 
0; 70])
    ([80; 88; 36; 1; 255; 161; 0; 0; 0; 0; 161; 255; 1; 0; 0; 0; 0; 0; 0; 1] ++ repeat 0 16%nat ++ [83; 76; 8; 1; 
0; 0; 1; 98; 84; 70; 26; 1; 14; 101; 9; 9; 1; 46; 40; 0; 101; 9; 9; 1; 46; 40; 0; 101; 9; 9; 1; 46; 40; 0]) && 
check_place_ret t (254) = true.
Proof. vm_compute. reflexivity. Qed.

Example ex_root_109 :
  let t : place_tuple := (109, true, [], 16749, [], (false, false, false), 0, 34, [[101; 9; 9; 1; 46; 40; 0]; [101; 
9; 9; 1; 46; 40; 0]; [101; 9; 9; 1; 46; 40; 0]]) in
  check_place_case t
    ([83; 80; 7; 1; 190; 239; 0; 82; 82; 5; 1; 129; 80; 88; 36; 1; 109; 65; 0; 0; 0; 0; 65; 109; 1; 0; 0; 0; 0; 0; 
0; 1] ++ repeat 0 16%nat ++ [84; 70; 26; 1; 14; 101; 9; 9; 1; 46; 40; 0; 101; 9; 9; 1; 46; 40; 0; 101; 9; 9; 1; 46; 
40; 0; 67; 69; 28; 1] ++ repeat 0 16%nat ++ [237; 0; 0; 0; 0; 0; 0; 237])
    ([69; 82; 237; 1; 10; 84; 135; 1; 82; 82; 73; 80; 95; 49; 57; 57; 49; 65; 84; 72; 69; 32; 82; 79; 67; 75; 32; 
82; 73; 68; 71; 69; 32; 73; 78; 84; 69; 82; 67; 72; 65; 78; 71; 69; 32; 80; 82; 79; 84; 79; 67; 79; 76; 32; 80; 82; 
79; 86; 73; 68; 69; 83; 32; 83; 85; 80; 80; 79; 82; 84; 32; 70; 79; 82; 32; 80; 79; 83; 73; 88; 32; 70; 73; 76; 69; 
32; 83; 89; 83; 84; 69; 77; 32; 83; 69; 77; 65; 78; 84; 73; 67; 83; 80; 76; 69; 65; 83; 69; 32; 67; 79; 78; 84; 65; 
67; 84; 32; 68; 73; 83; 67; 32; 80; 85; 66; 76; 73; 83; 72; 69; 82; 32; 70; 79; 82; 32; 83; 80; 69; 67; 73; 70; 73; 
67; 65; 84; 73; 79; 78; 32; 83; 79; 85; 82; 67; 69; 46; 32; 32; 83; 69; 69; 32; 80; 85; 66; 76; 73; 83; 72; 69; 82; 
32; 73; 68; 69; 78; 84; 73; 70; 73; 69; 82; 32; 73; 78; 32; 80; 82; 73; 77; 65; 82; 89; 32; 86; 79; 76; 85; 77; 69; 
32; 68; 69; 83; 67; 82; 73; 80; 84; 79; 82; 32; 70; 79; 82; 32; 67; 79; 78; 84; 65; 67; 84; 32; 73; 78; 70; 79; 82; 
77; 65; 84; 73; 79; 78; 46]) && check_place_ret t (136) = true.
Proof. vm_compute. reflexivity. Qed.

Example ex_long_name_xa :
  let t : place_tuple := (112, false, repeat 110 255%nat, 33060, [], (false, false, false), 14, 60, [[101; 9; 9; 1; 
46; 40; 0]; [101; 9; 9; 1; 46; 40; 0]; [101; 9; 9; 1; 46; 40; 0]]) in
  check_place_case t
    ([78; 77; 166; 1; 1] ++ repeat 110 161%nat ++ [67; 69; 28; 1] ++ repeat 0 16%nat ++ [169; 0; 0; 0; 0; 0; 0; 
169])
    ([78; 77; 99; 1; 0] ++ repeat 110 94%nat ++ [80; 88; 44; 1; 36; 129; 0; 0; 0; 0; 129; 36; 1; 0; 0; 0; 0; 0; 0; 
1] ++ repeat 0 24%nat ++ [84; 70; 26; 1; 14; 101; 9; 9; 1; 46; 40; 0; 101; 9; 9; 1; 46; 40; 0; 101; 9; 9; 1; 46; 
40; 0]) && check_place_ret t (254) = true.
Proof. vm_compute. reflexivity. Qed.

Example ex_truncated :
  let t : place_tuple := (110, false, repeat 110 122%nat, 41471, repeat 47 13%nat, (false, false, false), 0, 34, 
[[101; 9; 9; 1; 46; 40; 0]; [101; 9; 9; 1; 46; 40; 0]; [101; 9; 9; 1; 46; 40; 0]]) in
  check_place_case t
    ([78; 77; 127; 1; 0] ++ repeat 110 122%nat ++ [80; 88; 36; 1; 255; 161; 0; 0; 0; 0; 161; 255; 1; 0; 0; 0; 0; 0; 
0; 1] ++ repeat 0 16%nat ++ [83; 76; 31; 1; 1; 8] ++ repeat 0 25%nat ++ [84; 70; 26; 1; 14; 101; 9; 9; 1; 46; 40; 
0; 101; 9; 9; 1; 46; 40; 0; 101; 9; 9; 1; 46; 40; 0])
    ([83; 76; 7; 1; 0; 0; 0]) && check_place_ret t (254) = true.
Proof. vm_compute. reflexivity. Qed.

Example ex_relocated_symlink :
  let t : place_tuple := (110, false, [108; 110; 107], 41471, [46; 46; 47] ++ repeat 120 300%nat ++ [47; 46], 
(true, true, true), 0, 38, [[101; 9; 9; 1; 46; 40; 0]; [101; 9; 9; 1; 46; 40; 0]; [101; 9; 9; 1; 46; 40; 0]]) in
  check_place_case t
    ([78; 77; 8; 1; 0; 108; 110; 107; 80; 88; 36; 1; 255; 161; 0; 0; 0; 0; 161; 255; 1; 0; 0; 0; 0; 0; 0; 1] ++ 
repeat 0 16%nat ++ [83; 76; 144; 1; 1; 4; 0; 1; 135] ++ repeat 120 135%nat ++ [67; 69; 28; 1] ++ repeat 0 16%nat ++ 
[228; 0; 0; 0; 0; 0; 0; 228])
    ([83; 76; 174; 1; 0; 0; 165] ++ repeat 120 165%nat ++ [2; 0; 84; 70; 26; 1; 14; 101; 9; 9; 1; 46; 40; 0; 101; 
9; 9; 1; 46; 40; 0; 101; 9; 9; 1; 46; 40; 0; 67; 76; 12; 1] ++ repeat 0 8%nat ++ [80; 76; 12; 1] ++ repeat 0 8%nat 
++ [82; 69; 4; 1]) && check_place_ret t (254) = true.
Proof. vm_compute. reflexivity. Qed.

Example ex_raises :
  let t : place_tuple := (110, false, [110], 41471, [97], (false, false, false), 0, 250, [[0; 0; 0; 0; 0; 0; 0]; 
[0; 0; 0; 0; 0; 0; 0]; [0; 0; 0; 0; 0; 0; 0]]) in
  check_place_case t
    ([])
    ([]) && check_place_ret t (-1) = true.
Proof. vm_compute. reflexivity. Qed.

Print Assumptions place_ce_iff_refuted.
Print Assumptions place_complete_sl_trunc_refuted.
Print Assumptions first_pass_truncates.
Print Assumptions place_complete_sl_dot_refuted.
