(* C11 / C04 -- El Torito edit histories (Model/AccountBoot.v), part 3: add_eltorito and rm_eltorito
   preserve the invariant BInv; every history does. *)
From Coq Require Import ZArith List Bool Lia ZifyBool Sorted Arith Permutation.
From PV.Base Require Import Prim.
From PV.Gen Require Import GenConst GenFun.
From PV.Model Require Import Names Checksums Pack Alloc Codec Eltorito Account AccountLinks AccountBoot.
From PV.Proofs Require Import PackProofs AllocProofs ChecksumsArithProofs AccountLemmas AccountProofs
     AccountLinksLemmas AccountLinksPurge AccountLinksInv EltoritoCatalogProofs EltoritoBuiltProofs
     AccountBootLemmas AccountBootInv.
Import ListNotations.
Local Open Scope Z_scope.
Ltac Zify.zify_post_hook ::= Z.to_euclidean_division_equations.

(* ---- the catalog object ---------------------------------------------------------------------------- *)

Lemma ab_cat_new_sections sc seg m st pf b c : cat_new sc seg m st pf b = Some c -> c_sections c = [].
Proof.
  unfold cat_new. destruct (val_new pf); [|discriminate].
  destruct (entry_new sc seg m st b); [|discriminate]. intros H. inversion H. reflexivity.
Qed.

Lemma ab_add_section_len c sc seg m st efi b c' : cat_add_section c sc seg m st efi b = Some c' ->
  length (c_sections c') = S (length (c_sections c)).
Proof.
  unfold cat_add_section. destruct (zlen (c_sections c) =? 31); [discriminate|].
  destruct (entry_new sc seg m st b); [|discriminate]. intros H. inversion H. subst c'. cbn [c_sections].
  rewrite app_length. cbn [length]. pose proof (split_last_spec (c_sections c)) as Hs.
  destruct (split_last (c_sections c)) as [[i l]|]; [rewrite Hs, !app_length; cbn [length]; lia|lia].
Qed.

Lemma ab_cat_len b ab : built (bcat b) ab ->
  zlen (cat_bytes (bcat b)) = 64 + 64 * zlen (c_sections (bcat b)) /\ 0 < zlen (cat_bytes (bcat b)) <= 2048.
Proof.
  intros H. destruct (built_inv _ _ H) as [Hi _]. destruct (cat_inv_fits _ Hi) as [E1 E2].
  unfold zlen. lia.
Qed.

(* ---- a change of the catalog object only ------------------------------------------------------------- *)

Lemma ab_boot_change_inv s bt' bits' wr' :
  BInv s -> boot2 bt' = boot2 (bboot s) ->
  (forall j, In j (ids (linodes (bl s))) -> 0 < lrefcount j (lroot (bl s)) + erefs j bt') ->
  (forall j, 0 < erefs j bt' -> In j (ids (linodes (bl s)))) ->
  cat_ok_of bt' (lnext (bl s)) (linodes (bl s)) ->
  BInv {| bl := bl s; bboot := bt'; bbits := bits'; bwreck := wr' |}.
Proof.
  intros [H1 H2 H3 H4 H5 H6 H7 H8 H9] Hb HL HE HC.
  constructor; cbn [bl bboot]; try assumption.
  - rewrite Hb. exact H1.
  - destruct H6 as (HN & _ & _). split; [exact HN|]. split; assumption.
Qed.

Lemma ab_add_eltorito_inv fx s bp cd cn ls pf bit efi m ba sg :
  BInv s -> BInv (fst (bstep_add_eltorito fx s bp cd cn ls pf bit efi m ba sg)).
Proof.
  intros HI. unfold bstep_add_eltorito, brefuse. cbv zeta.
  destruct (m =? 2); [exact HI|].
  destruct (lsubtree bp (lroot (bl s))) as [[fn i fs|dn dl kids]|] eqn:Hsub; try exact HI.
  destruct (has_ino i (linodes (bl s))) eqn:Hin; cbn [negb]; [|exact HI].
  apply ab_has_ino_in in Hin. destruct (bi_live s HI) as (HN & HL & HE).
  destruct (fx && (len_of i (linodes (bl s)) =? 0)); [exact HI|].
  set (sc := match ls with Some v => v | None => default_sector_count (len_of i (linodes (bl s))) end).
  destruct (bboot s) as [b|] eqn:Hb.
  - pose proof (bi_cat s HI) as HC. try rewrite Hb in HC. destruct HC as (C1 & C2 & (ab & C3) & C4).
    destruct (cat_add_section (bcat b) sc sg (media_of_Z m) 0 efi ba) as [c'|] eqn:Hadd; cbn [fst].
    + apply ab_boot_change_inv; [exact HI|rewrite Hb; reflexivity| | |].
      * intros j Hj. specialize (HL j Hj). try rewrite Hb in HL. cbn [erefs binos] in *.
        rewrite ab_count_app. pose proof (ab_count_nonneg j [i]). lia.
      * intros j. cbn [erefs binos]. rewrite ab_count_app. cbn [count]. intros Hj.
        destruct (Nat.eqb_spec i j) as [E|Hne]; [rewrite <- E; exact Hin|]. apply HE. try rewrite Hb. cbn [erefs]. lia.
      * cbn [cat_ok_of cat_recs bcat binos]. split; [exact C1|]. split; [exact C2|]. split.
        -- exists (ab && ba). eapply built_add; [exact C3|exact Hadd].
        -- rewrite app_length, (ab_add_section_len _ _ _ _ _ _ _ _ Hadd), C4. cbn [length]. lia.
    + rewrite <- Hb. apply ab_inv_bits, HI.
  - destruct (cat_new sc sg (media_of_Z m) 0 pf ba) as [c|] eqn:Hnew.
    + destruct (snd (add_record (bl s) cd cn (lnext (bl s)) (linodes (bl s)) (C + C))) eqn:Hacc; cbn [fst].
      * destruct (bi_fresh s HI (lnext (bl s)) (Nat.le_refl _)) as [Hf0 Hfr].
        apply ab_add_record_inv; try assumption.
        -- rewrite Hb. cbn [boot2]. change (blocks_of (C + C)) with 2. lia.
        -- intros j Hj. specialize (HL j Hj). try rewrite Hb in HL. cbn [erefs binos count] in *.
           pose proof (lw_ref_nonneg j (LFile cn (lnext (bl s)) (lnext (bl s)))).
           destruct (Nat.eqb i j); lia.
        -- intros j. cbn [erefs binos count]. destruct (Nat.eqb_spec i j) as [E|Hne]; [intros _; rewrite <- E; exact Hin|lia].
        -- lia.
        -- intros j Hj. destruct (bi_fresh s HI j) as [_ H']; [lia|exact H'].
        -- cbn [cat_ok_of cat_recs bcat binos]. split; [discriminate|]. split; [|split].
           ++ intros j [<-|[]]. split; [lia|exact Hfr].
           ++ exists true. eapply built_new. exact Hnew.
           ++ rewrite (ab_cat_new_sections _ _ _ _ _ _ _ Hnew). reflexivity.
        -- apply (bi_len s HI).
      * rewrite <- Hb. apply ab_inv_bits, HI.
    + cbn [fst]. rewrite <- Hb. apply ab_inv_bits, HI.
Qed.

(* ---- rm_eltorito --------------------------------------------------------------------------------------- *)

Lemma ab_rm_eltorito_inv s : BInv s -> BInv (fst (bstep_rm_eltorito s)).
Proof.
  intros HI. unfold bstep_rm_eltorito, brefuse. cbv zeta.
  destruct (bboot s) as [b|] eqn:Hb; [|exact HI]. cbn [fst].
  pose proof (bi_cat s HI) as HC. try rewrite Hb in HC. destruct HC as (C1 & C2 & (ab & C3) & C4).
  destruct (bi_live s HI) as (HN & HL & HE). destruct (bi_root s HI) as [Hn Hd].
  destruct (ab_purge_all_props (cat_recs b) (lroot (bl s))) as (P1 & P2 & P3 & P4 & P5 & P6).
  pose proof (ab_release_spec (purge_all (cat_recs b) (lroot (bl s))) (binos b) (linodes (bl s)) 0 HN) as HR.
  cbv zeta in HR. destruct HR as (R1 & R2 & R3 & R4 & R5).
  assert (Hrc : forall j, In j (ids (linodes (bl s))) ->
                lrefcount j (purge_all (cat_recs b) (lroot (bl s))) = lrefcount j (lroot (bl s))).
  { intros j Hj. rewrite (ab_purge_all_refcount _ _ _ Hd). destruct (mem j (cat_recs b)) eqn:Hm; [|reflexivity].
    apply ab_mem_in in Hm. destruct (C2 j Hm). tauto. }
  constructor; cbn [bl bboot lroot linodes lnext lptr_size lptr_ext lspace boot2].
  - pose proof (bi_space s HI) as E. try rewrite Hb in E. cbn [boot2] in E.
    destruct (ab_cat_len b ab C3) as [_ Hlen]. rewrite R4. unfold ceiling_div, C in *. lia.
  - rewrite P1, P2. split; assumption.
  - apply P3, (bi_tree s HI).
  - apply (bi_ptr s HI).
  - rewrite P4. apply (bi_ptr_sum s HI).
  - split; [exact R1|]. unfold live; cbn [bl bboot lroot linodes erefs]. split; [|intros j Hj; lia].
    intros j Hj. apply R2 in Hj. destruct Hj as [Hj Hnz]. specialize (HL j Hj). try rewrite Hb in HL.
    cbn [erefs] in HL. pose proof (lrefcount_nonneg j (purge_all (cat_recs b) (lroot (bl s)))) as N.
    rewrite (Hrc j Hj) in *. destruct (Z_lt_le_dec 0 (count j (binos b))) as [Hp|Hp]; [|lia].
    apply ab_count_pos in Hp. assert (lrefcount j (lroot (bl s)) <> 0) by tauto. lia.
  - intros j Hj. destruct (bi_fresh s HI j Hj) as [H0 Hnin]. split.
    + rewrite (ab_purge_all_refcount _ _ _ Hd). destruct (mem j (cat_recs b)); [reflexivity|exact H0].
    + intros H. apply R2 in H. tauto.
  - exact I.
  - apply R5, (bi_len s HI).
Qed.

(* ---- every operation, every history ---------------------------------------------------------------------- *)

Theorem ab_step_gen_preserves_inv fx s o : BInv s -> BInv (fst (bstep_gen fx s o)).
Proof.
  intros HI. unfold bstep_gen. destruct (bwreck s); [exact HI|].
  destruct o;
    [apply ab_add_file_inv|apply ab_add_dir_inv|apply ab_add_link_inv|apply ab_add_cat_link_inv
    |apply ab_rm_link_inv|apply ab_rm_file_inv|apply ab_rm_dir_inv|apply ab_add_eltorito_inv
    |apply ab_rm_eltorito_inv]; exact HI.
Qed.

Theorem ab_step_preserves_inv s o : BInv s -> BInv (fst (bstep s o)).
Proof. apply ab_step_gen_preserves_inv. Qed.

Theorem ab_run_gen_inv_from fx ops : forall s, BInv s -> BInv (brun_gen fx s ops).
Proof.
  unfold brun_gen. induction ops as [|o r IH]; intros s HI; cbn [fold_left]; [exact HI|].
  apply IH, ab_step_gen_preserves_inv, HI.
Qed.

Theorem ab_run_inv_from ops : forall s, BInv s -> BInv (brun s ops).
Proof. apply ab_run_gen_inv_from. Qed.

(* for the current code and for the code before the three repairs *)
Theorem ab_run_gen_inv fx ops : BInv (brun_gen fx binit ops).
Proof. apply ab_run_gen_inv_from, ab_init_ok. Qed.

Theorem ab_run_inv ops : BInv (brun binit ops).
Proof. apply ab_run_gen_inv. Qed.

Print Assumptions ab_add_eltorito_inv.
Print Assumptions ab_rm_eltorito_inv.
Print Assumptions ab_run_inv.
