(* ParseRR, part 9: the reconstructed continuation-block table, for a whole image (deliverable (ii)).
     prr_gwalk_blocks     the table of graph_of = the keys of all records in walk order, tracked one after the other
     prr_walk_keys_complete  every record below the root is met by the walk
     parse_rr_blocks      for a state with AccountRR's invariant (every history): the reconstructed pvd.rr_ce_blocks hold
                          EXACTLY the entries of r_blocks s -- entry (o, l) lies in the block with extent e iff some
                          tracked block i of the original object holds (o, l) and the writer placed block i at extent e --,
                          one block per extent, and one insertion per record with a continuation area (also when two
                          records share a block; the root's ER sector is not tracked, as in the original object) *)
From Coq Require Import ZArith List Bool Lia ZifyBool.
From PV.Base Require Import Prim.
From PV.Gen Require Import GenConst GenFun.
From PV.Model Require Import Codec Pack PathTable CeAlloc RREntries RRWalk RRPlace.
From PV.Model Require Master Account LongNames.
From PV.Model Require Import ParseCore AccountRR MasterRR ParseRR ParseRRSpec.
From PV.Proofs Require Import AccountRRLemmas AccountRRCe AccountRRInv.
From PV.Proofs Require Import PathTableLemmas PathTableProofs MasterRRTree MasterRRLayout MasterRRRun.
From PV.Proofs Require Import ParseWalk ParseRRTable ParseRRDir2 ParseRRWalk ParseRRProofs.
Import ListNotations.
Local Open Scope Z_scope.

Lemma prr_items_nth p : forall kids j0 j c, nth_error kids j = Some c ->
  In (p ++ [(j0 + j)%nat], c) (prr_items p j0 kids).
Proof.
  induction kids as [|c0 r IH]; intros j0 [|j] c Ej; cbn [nth_error] in Ej; try discriminate; cbn [prr_items].
  - injection Ej as <-. left. rewrite Nat.add_0_r. reflexivity.
  - right. replace (j0 + S j)%nat with (S j0 + j)%nat by lia. apply IH. exact Ej.
Qed.

Section Blocks.
  Variable dt : list Z.
  Variable s : rstate.
  Local Notation t := (r_root s).
  Local Notation v := (r_ver s).
  Local Notation L := (mrr_layout s).

  Definition prr_key_of (c : rnode) : list tkey :=
    match m_ce (meta_of c) with Some (i, off, len) => [(mrr_ce_ext t L i, off, len)] | None => [] end.
  Definition prr_kid_keys (kids : list rnode) : list tkey := flat_map prr_key_of kids.

  Lemma prr_track_list_app a b tb : prr_track_list (a ++ b) tb = prr_track_list b (prr_track_list a tb).
  Proof. unfold prr_track_list. apply fold_left_app. Qed.

  Lemma prr_spec_kids_blocks p : forall kids j st,
    w_blocks (prr_spec_kids v dt t L p j kids st) = prr_track_list (prr_kid_keys kids) (w_blocks st).
  Proof.
    induction kids as [|c r IH]; intros j st; [reflexivity|].
    cbn [prr_spec_kids prr_kid_keys flat_map]. fold (prr_kid_keys r). rewrite prr_track_list_app.
    unfold prr_key_of at 1.
    destruct (m_ce (meta_of c)) as [[[i off] len]|].
    - destruct (prr_track_u (w_blocks st) (mrr_ce_ext t L i) off len) as [k b] eqn:E.
      rewrite IH. cbn [w_blocks prr_track_list fold_left]. unfold prr_step_u. cbn [fst snd]. rewrite E. reflexivity.
    - rewrite IH. reflexivity.
  Qed.

  Lemma prr_spec_dir_blocks p dl kids st : mrr_node_at t p = Some (RDir (meta_of (RDir root_meta dl kids)) dl kids) \/ True ->
    forall m, mrr_node_at t p = Some (RDir m dl kids) ->
    w_blocks (prr_spec_dir v dt t L p dl kids st) = prr_track_list (prr_kid_keys kids) (w_blocks st).
  Proof.
    intros _ m Hp. unfold prr_spec_dir, mrr_dir_specs. rewrite Hp. cbn [prr_end_dir w_blocks].
    rewrite prr_spec_kids_blocks. reflexivity.
  Qed.

  (* the keys in the order of the walk *)
  Fixpoint prr_walk_keys (fuel : nat) (items : list (list nat * rnode)) : list tkey :=
    match fuel with
    | O => []
    | S f =>
        match items with
        | [] => []
        | (p, RFile _ _) :: q => prr_walk_keys f q
        | (p, RDir _ _ kids) :: q => prr_kid_keys kids ++ prr_walk_keys f (q ++ prr_items p 0 kids)
        end
    end.

  Lemma prr_gwalk_blocks : forall f items st, (forall p n, In (p, n) items -> mrr_node_at t p = Some n) ->
    w_blocks (prr_gwalk f v dt t L items st) = prr_track_list (prr_walk_keys f items) (w_blocks st).
  Proof.
    induction f as [|f IH]; intros items st Hn; [reflexivity|].
    destruct items as [|[p [m len|m dl kids]] q]; [reflexivity| |]; cbn [prr_gwalk prr_walk_keys].
    - apply IH. intros p' n' Hin. apply Hn. right. exact Hin.
    - rewrite prr_track_list_app, IH.
      + rewrite (prr_spec_dir_blocks p dl kids st (or_intror I) m (Hn _ _ (or_introl eq_refl))). reflexivity.
      + intros p' n' Hin. apply in_app_or in Hin. destruct Hin as [Hin|Hin]; [apply Hn; right; exact Hin|].
        destruct (prr_items_in p kids kids 0 (fun i c H => H) p' n' Hin) as (i & -> & Hi).
        rewrite (mrr_node_at_snoc p i t _ (Hn _ _ (or_introl eq_refl))). exact Hi.
  Qed.

  (* every record below a queued record is met *)
  Lemma prr_walk_keys_complete : forall f items, (ps_wsize (prr_dq items) <= f)%nat ->
    forall p n j q c k, In (p, n) items -> mrr_node_at n (j :: q) = Some c -> In k (prr_key_of c) ->
    In k (prr_walk_keys f items).
  Proof.
    induction f as [|f IH]; intros items Hs p n j q c k Hin Hc Hk.
    - destruct items as [|[p0 n0] r]; [destruct Hin|]. cbn [prr_dq map fst snd] in Hs. rewrite ps_wsize_cons in Hs.
      pose proof (tsize_pos (mrr_dtree [] n0)). lia.
    - destruct items as [|[p0 n0] r]; [destruct Hin|]. cbn [prr_dq map fst snd] in Hs. rewrite ps_wsize_cons in Hs.
      fold (prr_dq r) in Hs.
      destruct n0 as [m0 len0|m0 dl0 kids0]; cbn [prr_walk_keys].
      + destruct Hin as [Hin|Hin].
        * injection Hin as <- <-. cbn [mrr_node_at rkids] in Hc. destruct j; discriminate.
        * apply (IH r ltac:(cbn [mrr_dtree tsize map list_sum] in Hs; lia) p n j q c k Hin Hc Hk).
      + assert (Hs' : (ps_wsize (prr_dq (r ++ prr_items p0 0 kids0)) <= f)%nat).
        { unfold prr_dq. rewrite map_app. fold (prr_dq r). fold (prr_dq (prr_items p0 0 kids0)).
          rewrite ps_wsize_app, prr_dq_items, ps_wsize_child. cbn [mrr_dtree tsize] in Hs. lia. }
        apply in_or_app. destruct Hin as [Hin|Hin].
        * injection Hin as <- <-. cbn [mrr_node_at rkids] in Hc.
          destruct (nth_error kids0 j) as [kj|] eqn:Ej; [|discriminate].
          destruct q as [|j' q'].
          -- left. cbn [mrr_node_at] in Hc. injection Hc as <-. unfold prr_kid_keys. apply in_flat_map.
             exists kj. split; [exact (nth_error_In _ _ Ej)|exact Hk].
          -- right. apply (IH _ Hs' (p0 ++ [j]) kj j' q' c k); [|exact Hc|exact Hk].
             apply in_or_app. right. exact (prr_items_nth p0 kids0 0%nat j kj Ej).
        * right. apply (IH _ Hs' p n j q c k); [apply in_or_app; left; exact Hin|exact Hc|exact Hk].
  Qed.

  Lemma prr_walk_keys_sound : forall f items k, In k (prr_walk_keys f items) ->
    exists p n j q c, In (p, n) items /\ mrr_node_at n (j :: q) = Some c /\ In k (prr_key_of c).
  Proof.
    induction f as [|f IH]; intros items k Hk; [destruct Hk|].
    destruct items as [|[p0 [m0 len0|m0 dl0 kids0]] r]; cbn [prr_walk_keys] in Hk; [destruct Hk| |].
    - destruct (IH r k Hk) as (p & n & j & q & c & A & B & D). exists p, n, j, q, c. split; [right; exact A|auto].
    - apply in_app_or in Hk. destruct Hk as [Hk|Hk].
      + unfold prr_kid_keys in Hk. apply in_flat_map in Hk. destruct Hk as (c & Hc & Hk).
        destruct (In_nth_error _ _ Hc) as [j Hj].
        exists p0, (RDir m0 dl0 kids0), j, [], c. split; [left; reflexivity|]. split; [|exact Hk].
        cbn [mrr_node_at rkids]. rewrite Hj. reflexivity.
      + destruct (IH _ k Hk) as (p & n & j & q & c & A & B & D). apply in_app_or in A. destruct A as [A|A].
        * exists p, n, j, q, c. split; [right; exact A|auto].
        * destruct (prr_items_in p0 kids0 kids0 0 (fun i c H => H) p n A) as (i & -> & Hi).
          exists p0, (RDir m0 dl0 kids0), i, (j :: q), c. split; [left; reflexivity|]. split; [|exact D].
          cbn [mrr_node_at rkids]. rewrite Hi. exact B.
  Qed.

  Lemma prr_insort_length x es : length (insort_left x es) = S (length es).
  Proof.
    unfold insort_left. rewrite app_length. cbn [length]. rewrite Nat.add_succ_r, <- app_length, firstn_skipn. reflexivity.
  Qed.

  Definition prr_tbl_count (tb : list (Z * block)) : nat := list_sum (map (fun b => length (snd b)) tb).

  Lemma prr_tbl_count_cons e es tl : prr_tbl_count ((e, es) :: tl) = (length es + prr_tbl_count tl)%nat.
  Proof. reflexivity. Qed.
  Lemma prr_track_u_count tb e off len : prr_tbl_count (snd (prr_track_u tb e off len)) = S (prr_tbl_count tb).
  Proof.
    induction tb as [|[e0 es0] tl IH]; [reflexivity|]. cbn [prr_track_u]. destruct (e0 =? e).
    - cbn [snd]. rewrite !prr_tbl_count_cons, prr_insort_length. lia.
    - destruct (prr_track_u tl e off len) as [k tl']. cbn [snd] in *. rewrite !prr_tbl_count_cons, IH. lia.
  Qed.
  Lemma prr_track_list_count ks : forall tb, prr_tbl_count (prr_track_list ks tb) = (prr_tbl_count tb + length ks)%nat.
  Proof.
    induction ks as [|k ks IH]; intros tb; cbn [prr_track_list fold_left length]; [lia|].
    fold (prr_track_list ks (prr_step_u tb k)). rewrite IH. unfold prr_step_u. rewrite prr_track_u_count. lia.
  Qed.
  Lemma prr_track_list_nodup ks : forall tb, NoDup (map fst tb) -> NoDup (map fst (prr_track_list ks tb)).
  Proof.
    induction ks as [|k ks IH]; intros tb H; [exact H|]. cbn [prr_track_list fold_left].
    apply IH. apply prr_track_u_nodup. exact H.
  Qed.

  (* a positive additive measure is carried by some record *)
  Lemma prr_total_witness w : (forall d m x, 0 <= w d m x) -> forall n, 0 < rtotal w n ->
    exists q c, mrr_node_at n q = Some c /\ 0 < rshallow w c.
  Proof.
    intros Hw. apply (arr_node_ind (fun n => 0 < rtotal w n -> exists q c, mrr_node_at n q = Some c /\ 0 < rshallow w c)).
    - intros m len H. exists [], (RFile m len). split; [reflexivity|exact H].
    - intros m dl kids IH H. rewrite arr_total_dir in H.
      destruct (Z_lt_le_dec 0 (w true m dl)) as [Hp|Hp]; [exists [], (RDir m dl kids); split; [reflexivity|exact Hp]|].
      assert (Hk : 0 < rtotals w kids) by lia. clear H Hp.
      induction IH as [|c r Hc Hr IHr]; [unfold rtotals in Hk; cbn in Hk; lia|].
      rewrite arr_totals_cons in Hk. destruct (Z_lt_le_dec 0 (rtotal w c)) as [Hp|Hp].
      + destruct (Hc Hp) as (q & c' & A & B). exists (0%nat :: q), c'. split; [exact A|exact B].
      + destruct (IHr ltac:(lia)) as (q & c' & A & B). destruct q as [|j q].
        * cbn [mrr_node_at] in A. injection A as <-. cbn [rshallow] in B.
          exists [], (RDir m dl (c :: r)). split; [reflexivity|exact B].
        * exists (S j :: q), c'. split; [exact A|exact B].
  Qed.

  Theorem parse_rr_blocks : RInv s ->
    (forall e o l, tbl_has (g_blocks (graph_of dt s)) e o l <->
       exists i es, In (i, es) (r_blocks s) /\ In (o, l) es /\ mrr_ce_ext t L i = e) /\
    NoDup (map fst (g_blocks (graph_of dt s))) /\
    prr_tbl_count (g_blocks (graph_of dt s)) = length (prr_walk_keys (prr_size s) [([], t)]).
  Proof.
    intros HI.
    assert (Hn : forall p n, In (p, n) [([], t)] -> mrr_node_at t p = Some n) by (intros p n [H|[]]; injection H as <- <-; reflexivity).
    assert (Eg : g_blocks (graph_of dt s) = prr_track_list (prr_walk_keys (prr_size s) [([], t)]) []).
    { unfold graph_of. cbn [prr_graph g_blocks]. rewrite (prr_gwalk_blocks _ _ _ Hn). reflexivity. }
    rewrite Eg. split; [|split; [apply prr_track_list_nodup; constructor|rewrite prr_track_list_count; reflexivity]].
    intros e o l. rewrite prr_track_list_has.
    assert (Hroot : m_ce (meta_of t) = None) by (rewrite (proj1 (ri_root s HI)); reflexivity).
    split.
    - intros [(es & [] & _)|Hk].
      destruct (prr_walk_keys_sound _ _ _ Hk) as (p & n & j & q & c & [A|[]] & B & D). injection A as <- <-.
      unfold prr_key_of in D. destruct (m_ce (meta_of c)) as [[[i o'] l']|] eqn:Ek; [|destruct D].
      destruct D as [D|[]]. injection D as E1 E2 E3. subst e o' l'.
      pose proof (mrr_total_pos (rw_ref (i, o, l)) (arr_rw_ref_nonneg (i, o, l)) (j :: q) t c B) as T1.
      rewrite arr_shallow_ref, Ek, (ri_refs s HI) in T1. unfold kind in T1. rewrite arr_key_eqb_refl in T1.
      assert (Hin : In (i, o, l) (flat (r_blocks s))) by (apply arr_kcount_pos; lia).
      apply arr_in_flat in Hin. destruct Hin as ([i' es] & Hb & Hi & He). cbn [fst snd] in Hi, He. subst i'.
      exists i, es. auto.
    - intros (i & es & Hb & He & <-). right.
      assert (Hin : In (i, o, l) (flat (r_blocks s))).
      { apply arr_in_flat. exists (i, es). split; [exact Hb|]. split; [reflexivity|exact He]. }
      apply arr_kcount_pos in Hin. rewrite <- (ri_refs s HI) in Hin.
      destruct (prr_total_witness _ (arr_rw_ref_nonneg (i, o, l)) t Hin) as (q & c & A & B).
      rewrite arr_shallow_ref in B. destruct (m_ce (meta_of c)) as [k'|] eqn:Ek; [|lia].
      unfold kind in B. destruct (key_eqb k' (i, o, l)) eqn:Eq; [|lia]. apply arr_key_eqb_spec in Eq. subst k'.
      destruct q as [|j q]; [cbn [mrr_node_at] in A; injection A as <-; congruence|].
      apply (prr_walk_keys_complete (prr_size s) [([], t)]) with (p := []) (n := t) (j := j) (q := q) (c := c).
      + cbn [prr_dq map fst snd]. rewrite ps_wsize_cons. unfold prr_size. cbn. lia.
      + left. reflexivity.
      + exact A.
      + unfold prr_key_of. rewrite Ek. left. reflexivity.
  Qed.
End Blocks.

(* for every edit history *)
Theorem parse_rr_blocks_run v ops dt : let s := rr_run (rr_init v) ops in
  (forall e o l, tbl_has (g_blocks (graph_of dt s)) e o l <->
     exists i es, In (i, es) (r_blocks s) /\ In (o, l) es /\ mrr_ce_ext (r_root s) (mrr_layout s) i = e) /\
  NoDup (map fst (g_blocks (graph_of dt s))).
Proof.
  intros s0. destruct (MasterRRRunInv.mrr_run_meta v ops) as (HI & _ & _).
  destruct (parse_rr_blocks dt s0 HI) as (A & B & _). split; assumption.
Qed.

Print Assumptions parse_rr_blocks.
Print Assumptions parse_rr_blocks_run.
