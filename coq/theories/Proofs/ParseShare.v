(* Parse, part 8: which records share an Inode after open -- for ANY image, not only mastered ones.
   The invariant of extent_to_inode / self.inodes / record.inode over the four ways a record is added:
     a directory record (no inode), a zero-length file (a new inode, never entered in extent_to_inode),
     a file with data at an extent not seen before (a new inode, entered), a file with data at an extent
     seen before (the inode found in extent_to_inode). *)
From Coq Require Import ZArith List Bool Lia ZifyBool.
From PV.Base Require Import Prim ListX.
From PV.Model Require Import Codec Pack Master Parse.
Import ListNotations.
Local Open Scope Z_scope.

(* what sharing depends on: the parsed fields and the inode *)
Definition pkey : Type := (drec * option nat)%type.
Definition ps_key (c : prec) : pkey := (p_rec c, p_ino c).

Definition ps_kmatch (i : nat) (k : pkey) : bool :=
  match snd k with Some j => Nat.eqb j i | None => false end.
Definition ps_kcount (i : nat) (K : list pkey) : nat := length (filter (ps_kmatch i) K).

(* K' is K with one more key, anywhere *)
Definition ps_added (K : list pkey) (new : pkey) (K' : list pkey) : Prop :=
  (forall x, In x K' <-> x = new \/ In x K) /\
  (forall i, ps_kcount i K' = (ps_kcount i K + (if ps_kmatch i new then 1 else 0))%nat).

Lemma ps_kcount_app i a b : ps_kcount i (a ++ b) = (ps_kcount i a + ps_kcount i b)%nat.
Proof. unfold ps_kcount. rewrite filter_app, app_length. reflexivity. Qed.

Lemma ps_added_insert A B k new : ps_added (A ++ B) new (A ++ insert_at k new B).
Proof.
  unfold insert_at.
  assert (HB : forall x, In x B <-> In x (firstn k B) \/ In x (skipn k B)).
  { intros x. rewrite <- in_app_iff, firstn_skipn. tauto. }
  assert (HC : forall i, ps_kcount i B = (ps_kcount i (firstn k B) + ps_kcount i (skipn k B))%nat).
  { intros i. rewrite <- ps_kcount_app, firstn_skipn. reflexivity. }
  split.
  - intros x. rewrite !in_app_iff. cbn [In]. rewrite (HB x). split; intros H.
    + destruct H as [H|[H|[H|H]]]; auto.
    + destruct H as [H|[H|[H|H]]]; auto.
  - intros i. rewrite !ps_kcount_app, (HC i).
    change (ps_kcount i (new :: skipn k B))
      with (length (if ps_kmatch i new then new :: filter (ps_kmatch i) (skipn k B) else filter (ps_kmatch i) (skipn k B))).
    destruct (ps_kmatch i new); cbn [length]; unfold ps_kcount; lia.
Qed.

Lemma ps_assoc_snoc x l e i :
  ps_assoc x (l ++ [(e, i)]) =
  match ps_assoc x l with Some v => Some v | None => if e =? x then Some i else None end.
Proof.
  induction l as [|[k v] l IH]; cbn [app ps_assoc]; [reflexivity|].
  destruct (k =? x); [reflexivity|exact IH].
Qed.

(* ---- the invariant --------------------------------------------------------------------------------- *)

Record ps_G (K : list pkey) (n : nat) (e2i : list (Z * nat)) : Prop := {
  g_dir : forall r o, In (r, o) K -> ps_is_dir r = true -> o = None;
  g_file : forall r o, In (r, o) K -> ps_is_dir r = false -> exists i, o = Some i /\ (i < n)%nat;
  g_data : forall r i, In (r, Some i) K -> data_len r <> 0 -> ps_assoc (extent r) e2i = Some i;
  g_range : forall e i, ps_assoc e e2i = Some i -> (i < n)%nat;
  g_empty : forall r i, In (r, Some i) K -> data_len r = 0 ->
            (forall e, ps_assoc e e2i <> Some i) /\ ps_kcount i K = 1%nat;
  g_inj : forall e1 e2 i, ps_assoc e1 e2i = Some i -> ps_assoc e2 e2i = Some i -> e1 = e2;
  g_some : forall r i, In (r, Some i) K -> (i < n)%nat }.

Lemma ps_G_init : ps_G [] 0 [].
Proof. constructor; intros; try contradiction; discriminate. Qed.

Lemma ps_kcount_fresh K n : (forall r i, In (r, Some i) K -> (i < n)%nat) -> ps_kcount n K = 0%nat.
Proof.
  intros H. unfold ps_kcount. induction K as [|[r o] K IH]; [reflexivity|]. cbn [filter].
  unfold ps_kmatch at 1. cbn [snd]. destruct o as [j|].
  - assert (j < n)%nat by (apply (H r j); left; reflexivity).
    replace (Nat.eqb j n) with false by (symmetry; apply Nat.eqb_neq; lia).
    apply IH. intros r' i' Hin. apply (H r' i'). right. exact Hin.
  - apply IH. intros r' i' Hin. apply (H r' i'). right. exact Hin.
Qed.

(* A. a record with the directory flag *)
Lemma ps_G_dir K n e2i r K' : ps_G K n e2i -> ps_is_dir r = true -> ps_added K (r, None) K' ->
  ps_G K' n e2i.
Proof.
  intros G Hd [Hin Hcnt]. constructor.
  - intros r' o H Hd'. apply Hin in H. destruct H as [H|H]; [injection H as _ <-; reflexivity|].
    exact (g_dir _ _ _ G r' o H Hd').
  - intros r' o H Hd'. apply Hin in H. destruct H as [H|H]; [injection H as <- _; congruence|].
    exact (g_file _ _ _ G r' o H Hd').
  - intros r' i H. apply Hin in H. destruct H as [H|H]; [discriminate|]. exact (g_data _ _ _ G r' i H).
  - exact (g_range _ _ _ G).
  - intros r' i H H0. apply Hin in H. destruct H as [H|H]; [discriminate|].
    destruct (g_empty _ _ _ G r' i H H0) as [A B]. split; [exact A|]. rewrite Hcnt, B. reflexivity.
  - exact (g_inj _ _ _ G).
  - intros r' i H. apply Hin in H. destruct H as [H|H]; [discriminate|]. exact (g_some _ _ _ G r' i H).
Qed.

(* B. a zero-length file: a new inode that extent_to_inode never sees *)
Lemma ps_G_empty K n e2i r K' : ps_G K n e2i -> ps_is_dir r = false -> data_len r = 0 ->
  ps_added K (r, Some n) K' -> ps_G K' (S n) e2i.
Proof.
  intros G Hd H0 [Hin Hcnt]. constructor.
  - intros r' o H Hd'. apply Hin in H. destruct H as [H|H]; [injection H as <- _; congruence|].
    exact (g_dir _ _ _ G r' o H Hd').
  - intros r' o H Hd'. apply Hin in H. destruct H as [H|H].
    + injection H as _ ->. exists n. split; [reflexivity|lia].
    + destruct (g_file _ _ _ G r' o H Hd') as (i & -> & Hi). exists i. split; [reflexivity|lia].
  - intros r' i H Hl. apply Hin in H. destruct H as [H|H]; [injection H as <- _; congruence|].
    exact (g_data _ _ _ G r' i H Hl).
  - intros e i H. pose proof (g_range _ _ _ G e i H). lia.
  - intros r' i H Hl. apply Hin in H. rewrite Hcnt. destruct H as [H|H].
    + injection H as _ ->. split.
      * intros e He. pose proof (g_range _ _ _ G e n He). lia.
      * rewrite (ps_kcount_fresh K n (g_some _ _ _ G)). unfold ps_kmatch. cbn [snd]. rewrite Nat.eqb_refl. reflexivity.
    + destruct (g_empty _ _ _ G r' i H Hl) as [A B]. split; [exact A|]. rewrite B.
      pose proof (g_some _ _ _ G r' i H). unfold ps_kmatch. cbn [snd].
      replace (Nat.eqb n i) with false by (symmetry; apply Nat.eqb_neq; lia). reflexivity.
  - exact (g_inj _ _ _ G).
  - intros r' i H. apply Hin in H. destruct H as [H|H]; [injection H as _ ->; lia|].
    pose proof (g_some _ _ _ G r' i H). lia.
Qed.

(* C. a file with data at an extent that is not a key yet: a new inode, entered *)
Lemma ps_G_fresh K n e2i r K' : ps_G K n e2i -> ps_is_dir r = false -> data_len r <> 0 ->
  ps_assoc (extent r) e2i = None ->
  ps_added K (r, Some n) K' -> ps_G K' (S n) (e2i ++ [(extent r, n)]).
Proof.
  intros G Hd H0 Hnone [Hin Hcnt]. constructor.
  - intros r' o H Hd'. apply Hin in H. destruct H as [H|H]; [injection H as <- _; congruence|].
    exact (g_dir _ _ _ G r' o H Hd').
  - intros r' o H Hd'. apply Hin in H. destruct H as [H|H].
    + injection H as _ ->. exists n. split; [reflexivity|lia].
    + destruct (g_file _ _ _ G r' o H Hd') as (i & -> & Hi). exists i. split; [reflexivity|lia].
  - intros r' i H Hl. apply Hin in H. rewrite ps_assoc_snoc. destruct H as [H|H].
    + injection H as -> ->. rewrite Hnone, Z.eqb_refl. reflexivity.
    + rewrite (g_data _ _ _ G r' i H Hl). reflexivity.
  - intros e i H. rewrite ps_assoc_snoc in H. destruct (ps_assoc e e2i) as [v|] eqn:E.
    + injection H as <-. pose proof (g_range _ _ _ G e v E). lia.
    + destruct (extent r =? e); [injection H as <-; lia|discriminate].
  - intros r' i H Hl. apply Hin in H. rewrite Hcnt. destruct H as [H|H]; [injection H as <- _; congruence|].
    destruct (g_empty _ _ _ G r' i H Hl) as [A B]. pose proof (g_some _ _ _ G r' i H) as Hi. split.
    + intros e He. rewrite ps_assoc_snoc in He. destruct (ps_assoc e e2i) as [v|] eqn:E.
      * apply (A e). rewrite E. exact He.
      * destruct (extent r =? e); [injection He as He; lia|discriminate].
    + rewrite B. unfold ps_kmatch. cbn [snd].
      replace (Nat.eqb n i) with false by (symmetry; apply Nat.eqb_neq; lia). reflexivity.
  - intros e1 e2 i H1 H2. rewrite ps_assoc_snoc in H1, H2.
    destruct (ps_assoc e1 e2i) as [v1|] eqn:E1; destruct (ps_assoc e2 e2i) as [v2|] eqn:E2.
    + apply (g_inj _ _ _ G e1 e2 i); congruence.
    + injection H1 as <-. pose proof (g_range _ _ _ G e1 v1 E1).
      destruct (extent r =? e2); [injection H2 as H2; lia|discriminate].
    + injection H2 as <-. pose proof (g_range _ _ _ G e2 v2 E2).
      destruct (extent r =? e1); [injection H1 as H1; lia|discriminate].
    + destruct (extent r =? e1) eqn:A1; [|discriminate]. destruct (extent r =? e2) eqn:A2; [|discriminate]. lia.
  - intros r' i H. apply Hin in H. destruct H as [H|H]; [injection H as _ ->; lia|].
    pose proof (g_some _ _ _ G r' i H). lia.
Qed.

(* D. a file with data at an extent that is a key: the inode found there *)
Lemma ps_G_shared K n e2i r i K' : ps_G K n e2i -> ps_is_dir r = false -> data_len r <> 0 ->
  ps_assoc (extent r) e2i = Some i ->
  ps_added K (r, Some i) K' -> ps_G K' n e2i.
Proof.
  intros G Hd H0 Hsome [Hin Hcnt]. pose proof (g_range _ _ _ G _ _ Hsome) as Hi. constructor.
  - intros r' o H Hd'. apply Hin in H. destruct H as [H|H]; [injection H as <- _; congruence|].
    exact (g_dir _ _ _ G r' o H Hd').
  - intros r' o H Hd'. apply Hin in H. destruct H as [H|H].
    + injection H as _ ->. exists i. split; [reflexivity|exact Hi].
    + exact (g_file _ _ _ G r' o H Hd').
  - intros r' i' H Hl. apply Hin in H. destruct H as [H|H]; [injection H as -> ->; exact Hsome|].
    exact (g_data _ _ _ G r' i' H Hl).
  - exact (g_range _ _ _ G).
  - intros r' i' H Hl. apply Hin in H. rewrite Hcnt. destruct H as [H|H]; [injection H as <- _; congruence|].
    destruct (g_empty _ _ _ G r' i' H Hl) as [A B]. split; [exact A|]. rewrite B.
    unfold ps_kmatch. cbn [snd].
    replace (Nat.eqb i i') with false; [reflexivity|]. symmetry. apply Nat.eqb_neq. intros ->.
    exact (A _ Hsome).
  - exact (g_inj _ _ _ G).
  - intros r' i' H. apply Hin in H. destruct H as [H|H]; [injection H as _ ->; exact Hi|].
    exact (g_some _ _ _ G r' i' H).
Qed.

(* ---- what the invariant says about two records --------------------------------------------------------- *)

Lemma ps_kcount_two i l1 k1 l2 k2 l3 : ps_kmatch i k1 = true -> ps_kmatch i k2 = true ->
  (2 <= ps_kcount i (l1 ++ k1 :: l2 ++ k2 :: l3))%nat.
Proof.
  intros H1 H2. rewrite ps_kcount_app. unfold ps_kcount at 2. cbn [filter]. rewrite H1. cbn [length].
  fold (ps_kcount i (l2 ++ k2 :: l3)). rewrite ps_kcount_app. unfold ps_kcount at 3. cbn [filter]. rewrite H2.
  cbn [length]. lia.
Qed.

Theorem ps_G_share K n e2i l1 r1 o1 l2 r2 o2 l3 : ps_G K n e2i ->
  K = l1 ++ (r1, o1) :: l2 ++ (r2, o2) :: l3 -> ps_is_dir r1 = false -> ps_is_dir r2 = false ->
  (exists i1 i2, o1 = Some i1 /\ o2 = Some i2 /\ (i1 < n)%nat /\ (i2 < n)%nat) /\
  (o1 = o2 <-> data_len r1 <> 0 /\ data_len r2 <> 0 /\ extent r1 = extent r2).
Proof.
  intros G EK Hd1 Hd2.
  assert (In1 : In (r1, o1) K) by (rewrite EK; apply in_or_app; right; left; reflexivity).
  assert (In2 : In (r2, o2) K).
  { rewrite EK. apply in_or_app. right. right. apply in_or_app. right. left. reflexivity. }
  destruct (g_file _ _ _ G r1 o1 In1 Hd1) as (i1 & -> & Hi1).
  destruct (g_file _ _ _ G r2 o2 In2 Hd2) as (i2 & -> & Hi2).
  split; [exists i1, i2; repeat split; assumption|]. split.
  - intros E. injection E as <-.
    assert (Hm1 : ps_kmatch i1 (r1, Some i1) = true) by (unfold ps_kmatch; cbn [snd]; apply Nat.eqb_refl).
    assert (Hm2 : ps_kmatch i1 (r2, Some i1) = true) by (unfold ps_kmatch; cbn [snd]; apply Nat.eqb_refl).
    pose proof (ps_kcount_two i1 l1 _ l2 _ l3 Hm1 Hm2) as H2.
    destruct (Z.eq_dec (data_len r1) 0) as [E1|E1].
    { destruct (g_empty _ _ _ G r1 i1 In1 E1) as [_ B]. rewrite EK in B.
      assert (Hc : (2 <= 1)%nat) by exact (eq_ind _ (fun x => (2 <= x)%nat) H2 _ B). lia. }
    destruct (Z.eq_dec (data_len r2) 0) as [E2|E2].
    { destruct (g_empty _ _ _ G r2 i1 In2 E2) as [_ B]. rewrite EK in B.
      assert (Hc : (2 <= 1)%nat) by exact (eq_ind _ (fun x => (2 <= x)%nat) H2 _ B). lia. }
    split; [exact E1|]. split; [exact E2|].
    apply (g_inj _ _ _ G _ _ i1); [exact (g_data _ _ _ G r1 i1 In1 E1)|exact (g_data _ _ _ G r2 i1 In2 E2)].
  - intros (E1 & E2 & Ee).
    pose proof (g_data _ _ _ G r1 i1 In1 E1) as A1. pose proof (g_data _ _ _ G r2 i2 In2 E2) as A2.
    rewrite Ee in A1. congruence.
Qed.

Print Assumptions ps_G_share.
