(* Proofs/RelocPaths.v -- the physical paths of the directories of a state are pairwise
   different: no two directory objects (main tree, RR_MOVED, relocated directories and everything
   below them) share a physical place.  [rl_ppaths_NoDup]. *)
From Coq Require Import ZArith List Bool Lia Permutation.
From PV.Model Require Import RelocCore RelocView.
From PV.Proofs Require Import RelocBase RelocPath RelocInv.
Import ListNotations.
Local Open Scope Z_scope.

Fixpoint dpaths (pcur : ppath) (n : node) : list ppath :=
  match n with
  | Leaf _ _ _ => []
  | Dir _ _ _ _ _ ks => self_path pcur n :: flat_map (dpaths (self_path pcur n)) ks
  end.

Lemma rl_map_flat_map {A B C} (f : B -> C) (g : A -> list B) l :
  map f (flat_map g l) = flat_map (fun x => map f (g x)) l.
Proof. induction l as [|h l IH]; cbn [flat_map map]; [reflexivity|]. rewrite map_app, IH. reflexivity. Qed.

Lemma rl_flat_map_ext_in {A B} (f g : A -> list B) l :
  (forall x, In x l -> f x = g x) -> flat_map f l = flat_map g l.
Proof.
  induction l as [|h l IH]; intros H; cbn [flat_map]; [reflexivity|].
  rewrite (H h (or_introl eq_refl)), IH; [reflexivity|]. intros x Hx. apply H. right. exact Hx.
Qed.

Lemma rl_nodes_paths n : forall pcur pl, map node_path (nodes_of pcur pl n) = dpaths pcur n.
Proof.
  induction n as [i r e d m ks IH|sy i r] using rl_node_ind; intros pcur pl; [|reflexivity].
  cbn [nodes_of dpaths map]. f_equal. rewrite rl_map_flat_map. apply rl_flat_map_ext_in.
  intros k Hk. rewrite Forall_forall in IH. apply IH. exact Hk.
Qed.

Lemma rl_all_paths s : map node_path (all_nodes s) = flat_map (dpaths []) (s_kids s).
Proof.
  unfold all_nodes. rewrite rl_map_flat_map. apply rl_flat_map_ext_in. intros k _. apply rl_nodes_paths.
Qed.

(* ---- where the paths of a subtree can lie -------------------------------------------------- *)
(* a prefix that starts with RR_MOVED continues with a name that is not in use below *)
Definition pfx_ok (forb : list name) (self : ppath) : Prop :=
  match self with
  | [] => True
  | a :: t => a = moved_name -> match t with mn0 :: _ => ~ In mn0 forb | [] => False end
  end.

Definition cls (self : ppath) (n : node) (p : ppath) : Prop :=
  (exists rest, p = self ++ niso n :: rest) \/
  (exists mn rest, In mn (mnames_n n) /\ p = moved_name :: mn :: rest).

Lemma rl_pfx_ok_incl f1 f2 self : incl f1 f2 -> pfx_ok f2 self -> pfx_ok f1 self.
Proof.
  intros Hi. destruct self as [|a [|mn0 t]]; cbn [pfx_ok]; try tauto.
  intros H E Hin. apply (H E). apply Hi. exact Hin.
Qed.

Lemma rl_name_ok_moved i : name_ok i = true -> i <> moved_name.
Proof.
  unfold name_ok. rewrite !andb_true_iff, !negb_true_iff. intros (_ & H). apply rl_neqb_neq. exact H.
Qed.

Lemma rl_ok_name n : rl_ok n -> name_ok (niso n) = true.
Proof. intros H. inversion H; subst; assumption. Qed.

Lemma rl_clash forb self i r1 mn r2 : pfx_ok forb self -> i <> moved_name ->
  self ++ i :: r1 = moved_name :: mn :: r2 -> In mn forb -> False.
Proof.
  intros P Hi E Hin. destruct self as [|a t]; cbn [app] in E.
  - injection E as E _. contradiction.
  - injection E as Ea E. cbn [pfx_ok] in P. specialize (P Ea). destruct t as [|mn0 t]; [exact P|].
    cbn [app] in E. injection E as E _. subst. contradiction.
Qed.

Lemma rl_mnames_in k ks : In k ks -> incl (mnames_n k) (mnames ks).
Proof. intros Hk x Hx. unfold mnames. apply in_flat_map. exists k. split; assumption. Qed.

Definition claim (n : node) : Prop :=
  forall pcur, rl_ok n -> NoDup (mnames_n n) -> pfx_ok (mnames_n n) pcur ->
  (forall p, In p (dpaths pcur n) -> cls pcur n p) /\ NoDup (dpaths pcur n).

Lemma rl_dpaths_list self ks : Forall claim ks -> Forall rl_ok ks -> NoDup (map niso ks) ->
  NoDup (mnames ks) -> pfx_ok (mnames ks) self ->
  (forall p, In p (flat_map (dpaths self) ks) -> exists k, In k ks /\ cls self k p) /\
  NoDup (flat_map (dpaths self) ks).
Proof.
  induction ks as [|k ks IH]; intros C F N M P; cbn [flat_map].
  - split; [intros p []|constructor].
  - inversion C as [|? ? Ck C']; subst. inversion F as [|? ? Fk F']; subst.
    cbn [map] in N. inversion N as [|? ? Nk N']; subst.
    rewrite rl_mnames_cons in M, P. destruct (rl_NoDup_app_inv _ _ M) as (Mk & M' & Md).
    destruct (Ck self Fk Mk (rl_pfx_ok_incl _ _ _ (incl_appl _ (incl_refl _)) P)) as [Kc Kn].
    destruct (IH C' F' N' M' (rl_pfx_ok_incl _ _ _ (incl_appr _ (incl_refl _)) P)) as [Lc Ln].
    split.
    + intros p Hp. apply in_app_or in Hp. destruct Hp as [Hp|Hp].
      * exists k. split; [left; reflexivity|apply Kc; exact Hp].
      * destruct (Lc p Hp) as (k2 & Hk2 & Hc). exists k2. split; [right; exact Hk2|exact Hc].
    + apply rl_NoDup_app; [exact Kn|exact Ln|]. intros p Hp1 Hp2.
      pose proof (Kc p Hp1) as C1. destruct (Lc p Hp2) as (k2 & Hk2 & C2).
      pose proof (rl_name_ok_moved _ (rl_ok_name _ Fk)) as Hik.
      assert (Fk2 : rl_ok k2) by (rewrite Forall_forall in F'; apply F'; exact Hk2).
      pose proof (rl_name_ok_moved _ (rl_ok_name _ Fk2)) as Hik2.
      destruct C1 as [(r1 & E1)|(mn1 & r1 & I1 & E1)]; destruct C2 as [(r2 & E2)|(mn2 & r2 & I2 & E2)].
      * rewrite E1 in E2. apply app_inv_head in E2. injection E2 as E2 _.
        apply Nk. rewrite E2. apply in_map. exact Hk2.
      * rewrite E1 in E2. eapply (rl_clash _ _ _ _ _ _ P Hik E2). apply in_or_app. right.
        apply (rl_mnames_in _ _ Hk2). exact I2.
      * rewrite E2 in E1. eapply (rl_clash _ _ _ _ _ _ P Hik2 E1). apply in_or_app. left. exact I1.
      * rewrite E1 in E2. injection E2 as E2 _. subst mn2. apply (Md mn1 I1).
        apply (rl_mnames_in _ _ Hk2). exact I2.
Qed.

Lemma rl_claim n : claim n.
Proof.
  induction n as [i r e d m ks IH|sy i r] using rl_node_ind; intros pcur Ok M P;
    [|split; [intros p []|constructor]].
  inversion Ok as [? ? ? ? ? ? Hi He Hd Hnd Fs|]; subst.
  cbn [mnames_n] in M, P. fold (mnames ks) in M, P. cbn [dpaths].
  set (self := self_path pcur (Dir i r (2 + ndirs ks) (2 + ndirs ks) m ks)) in *.
  pose proof (rl_name_ok_moved _ Hi) as Him.
  assert (Mks : NoDup (mnames ks)) by (destruct m; [inversion M; assumption|exact M]).
  assert (Ps : pfx_ok (mnames ks) self).
  { subst self. destruct m as [mn|]; cbn [self_path niso].
    - cbn [pfx_ok]. intros _. cbn [app] in M. inversion M; assumption.
    - cbn [app] in P. destruct pcur as [|a t]; cbn [app pfx_ok]; [intros E; contradiction|].
      intros Ea. cbn [pfx_ok] in P. specialize (P Ea). destruct t as [|mn0 t]; [destruct P|exact P]. }
  destruct (rl_dpaths_list self ks IH Fs Hnd Mks Ps) as [Lc Ln].
  assert (Sub : forall k p, In k ks -> cls self k p ->
                  cls pcur (Dir i r (2 + ndirs ks) (2 + ndirs ks) m ks) p).
  { intros k p Hk [(rest & E)|(mn' & rest & I' & E)].
    - subst self. destruct m as [mn|]; cbn [self_path niso] in E.
      + right. exists mn, (niso k :: rest). split; [cbn [mnames_n]; left; reflexivity|exact E].
      + left. exists (niso k :: rest). cbn [niso]. rewrite E, <- app_assoc. reflexivity.
    - right. exists mn', rest. split; [|exact E]. cbn [mnames_n]. apply in_or_app. right.
      apply (rl_mnames_in _ _ Hk). exact I'. }
  split.
  - intros p [<-|Hp].
    + subst self. destruct m as [mn|]; cbn [self_path niso].
      * right. exists mn, []. split; [cbn [mnames_n]; left; reflexivity|reflexivity].
      * left. exists []. reflexivity.
    + destruct (Lc p Hp) as (k & Hk & Hc). exact (Sub k p Hk Hc).
  - constructor; [|exact Ln]. intros Hin. destruct (Lc _ Hin) as (k & Hk & [(rest & E)|(mn' & rest & I' & E)]).
    + apply (f_equal (@length name)) in E. rewrite app_length in E. cbn [length] in E. lia.
    + destruct self as [|a [|mn0 t]]; try discriminate. injection E as Ea Em _. subst a mn0.
      cbn [pfx_ok] in Ps. apply (Ps eq_refl). apply (rl_mnames_in _ _ Hk). exact I'.
Qed.

Theorem rl_ppaths_NoDup s : rl_inv s -> NoDup (ppaths s).
Proof.
  intros [Ik Inn Im _ _ _]. unfold ppaths. rewrite rl_all_paths.
  assert (C : Forall claim (s_kids s)) by (apply Forall_forall; intros k _; apply rl_claim).
  destruct (rl_dpaths_list [] (s_kids s) C Ik Inn Im I) as [Lc Ln].
  assert (Hnil : ~ In [] (flat_map (dpaths []) (s_kids s))).
  { intros H. destruct (Lc _ H) as (k & _ & [(rest & E)|(mn & rest & _ & E)]); discriminate. }
  assert (Hmv : ~ In [moved_name] (flat_map (dpaths []) (s_kids s))).
  { intros H. destruct (Lc _ H) as (k & Hk & [(rest & E)|(mn & rest & _ & E)]); [|discriminate].
    cbn [app] in E. injection E as E _. rewrite Forall_forall in Ik.
    apply (rl_name_ok_moved _ (rl_ok_name _ (Ik k Hk))). symmetry. exact E. }
  constructor.
  - intros H. apply in_app_or in H. destruct H as [H|H]; [|contradiction].
    destruct (moved_live s); [destruct H as [H|[]]; discriminate|destruct H].
  - destruct (moved_live s); cbn [app]; [constructor; assumption|exact Ln].
Qed.
