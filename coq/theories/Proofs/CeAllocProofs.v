(* Proofs about the Rock Ridge continuation-block allocator model (Model/CeAlloc.v):
   the allocator never produces overlapping entries. *)
From Coq Require Import ZArith List Bool Lia ZifyBool Permutation.
From PV.Model Require Import CeAlloc.
Import ListNotations.
Local Open Scope Z_scope.

(* well-formedness                                                                          *)
Fixpoint chain (R : entry -> entry -> Prop) (l : block) : Prop :=
  match l with
  | [] => True
  | a :: tl => match tl with [] => True | b :: _ => R a b end /\ chain R tl
  end.

Definition entry_ok (M : Z) (e : entry) : Prop := 0 <= fst e /\ 0 < snd e /\ fst e + snd e <= M.
Definition sorted_off : block -> Prop := chain (fun a b => fst a <= fst b).
Definition nonoverlap : block -> Prop := chain (fun a b => fst a + snd a <= fst b).

Definition wf (M : Z) (es : block) : Prop :=
  sorted_off es /\ Forall (entry_ok M) es /\ nonoverlap es.

(* equivalent one-pass form: every entry starts at or after the end of the previous one *)
Fixpoint wf_from (M lo : Z) (es : block) : Prop :=
  match es with
  | [] => True
  | e :: tl => lo <= fst e /\ 0 < snd e /\ fst e + snd e <= M /\ wf_from M (fst e + snd e) tl
  end.

Lemma wf_from_iff M : forall es lo, 0 <= lo ->
  (wf_from M lo es <-> wf M es /\ match es with [] => True | e :: _ => lo <= fst e end).
Proof.
  induction es as [|e tl IH]; intros lo Hlo.
  - unfold wf, sorted_off, nonoverlap; cbn. intuition.
  - cbn [wf_from]. split.
    + intros (H1 & H2 & H3 & H4).
      apply IH in H4; [|lia]. destruct H4 as [(S & F & N) Hd].
      split; [|lia]. unfold wf, sorted_off, nonoverlap in *. cbn [chain].
      split; [|split].
      * split; [destruct tl; [exact I | lia] | exact S].
      * constructor; [unfold entry_ok; lia | exact F].
      * split; [destruct tl; [exact I | lia] | exact N].
    + intros [(S & F & N) Hd]. inversion F as [|x l Hx F']; subst.
      unfold sorted_off, nonoverlap in S, N. cbn [chain] in S, N.
      destruct S as [S1 S2], N as [N1 N2]. unfold entry_ok in Hx.
      split; [lia|]. split; [lia|]. split; [lia|].
      apply IH; [lia|]. split; [split; [|split]; assumption|].
      destruct tl; [exact I | exact N1].
Qed.

Lemma wf_wf_from M es : wf M es <-> wf_from M 0 es.
Proof.
  rewrite (wf_from_iff M es 0) by lia. split; [|tauto].
  intros H; split; [exact H|]. destruct es as [|e tl]; [exact I|].
  destruct H as (_ & F & _). inversion F as [|x l Hx F']; subst. unfold entry_ok in Hx; lia.
Qed.

Lemma wf_sorted M es : wf M es -> sorted_off es.
Proof. intros H; apply H. Qed.

Lemma wf_nil M : wf M [].
Proof. apply wf_wf_from; exact I. Qed.

Lemma wf_from_weaken M es lo lo' : wf_from M lo es -> lo' <= lo -> wf_from M lo' es.
Proof. destruct es as [|e tl]; cbn; [tauto|]. intros (A & B & C & D) L; repeat split; try lia; exact D. Qed.

Lemma wf_from_bounds M : forall es lo, wf_from M lo es ->
  Forall (fun e => lo <= fst e /\ 0 < snd e /\ fst e + snd e <= M) es.
Proof.
  induction es as [|e tl IH]; intros lo H; [constructor|].
  cbn in H. destruct H as (A & B & C & D). constructor; [lia|].
  eapply Forall_impl; [|apply (IH _ D)]. cbn; intros a Ha; lia.
Qed.

Lemma wf_from_last M : forall es p lo, wf_from M lo (p :: es) ->
  Forall (fun e => fst e + snd e <= fst (last (p :: es) (0,0)) + snd (last (p :: es) (0,0))) (p :: es)
  /\ fst (last (p :: es) (0,0)) + snd (last (p :: es) (0,0)) <= M.
Proof.
  induction es as [|e tl IH]; intros p lo H.
  - cbn in *. split; [constructor; [lia|constructor]|lia].
  - destruct H as (A & B & C & D). destruct (IH e _ D) as [F L].
    change (last (p :: e :: tl) (0,0)) with (last (e :: tl) (0,0)).
    split; [|exact L]. constructor; [|exact F].
    inversion F as [|x l Hx F']; subst. cbn [wf_from] in D. lia.
Qed.

(* boolean reflection *)
Lemma wfb_from_iff M : forall es lo, wfb_from M lo es = true <-> wf_from M lo es.
Proof.
  induction es as [|e tl IH]; intros lo; cbn; [tauto|].
  rewrite !andb_true_iff, IH, !Z.leb_le, Z.ltb_lt. tauto.
Qed.

Lemma wfb_iff M es : wfb M es = true <-> wf M es.
Proof. unfold wfb. rewrite wfb_from_iff. symmetry; apply wf_wf_from. Qed.

(* insort_left = linear insertion on sorted lists                                            *)
Fixpoint lin_insert (x : entry) (l : block) : block :=
  match l with
  | [] => [x]
  | e :: tl => if entry_lt e x then e :: lin_insert x tl else x :: e :: tl
  end.

Fixpoint lin_idx (x : entry) (l : block) : nat :=
  match l with
  | [] => O
  | e :: tl => if entry_lt e x then S (lin_idx x tl) else O
  end.

Lemma lin_insert_idx x : forall l,
  lin_insert x l = firstn (lin_idx x l) l ++ x :: skipn (lin_idx x l) l.
Proof. induction l as [|e tl IH]; cbn; [reflexivity|]. destruct (entry_lt e x); cbn; congruence. Qed.

Lemma lin_idx_le x : forall l, (lin_idx x l <= length l)%nat.
Proof. induction l as [|e tl IH]; cbn; [lia|]. destruct (entry_lt e x); lia. Qed.

Lemma sorted_head : forall l a, sorted_off (a :: l) -> Forall (fun e => fst a <= fst e) l.
Proof.
  induction l as [|b tl IH]; intros a H; [constructor|].
  unfold sorted_off in H; cbn [chain] in H. destruct H as [H1 H2].
  constructor; [exact H1|]. eapply Forall_impl; [|apply (IH b H2)]. cbn; intros; lia.
Qed.

Lemma sorted_tail a l : sorted_off (a :: l) -> sorted_off l.
Proof. unfold sorted_off; cbn [chain]; tauto. Qed.

Lemma lin_idx_char (x : entry) : forall l : block, sorted_off l -> forall i, (i < length l)%nat ->
  (entry_lt (nth i l (0,0)) x = true <-> (i < lin_idx x l)%nat).
Proof.
  induction l as [|e tl IH]; intros S i Hi; [cbn in Hi; lia|].
  cbn [lin_idx]. destruct (entry_lt e x) eqn:E.
  - destruct i as [|i]; cbn [nth]; [rewrite E; split; intros; [lia|reflexivity]|].
    cbn in Hi. rewrite (IH (sorted_tail _ _ S) i) by lia. lia.
  - split; [|lia]. intros H. exfalso.
    destruct i as [|i]; cbn [nth] in H; [congruence|].
    pose proof (sorted_head _ _ S) as F. rewrite Forall_forall in F.
    assert (In (nth i tl (0,0)) tl) as Hin by (apply nth_In; cbn in Hi; lia).
    apply F in Hin. unfold entry_lt in *. lia.
Qed.

Lemma bisect_loop_correct (a : block) (x : entry) n :
  (forall i, (i < length a)%nat -> (entry_lt (nth i a (0,0)) x = true <-> (i < n)%nat)) ->
  forall fuel lo hi, (hi - lo <= fuel)%nat -> (lo <= n)%nat -> (n <= hi)%nat -> (hi <= length a)%nat ->
  bisect_loop fuel a x lo hi = n.
Proof.
  intros C. induction fuel as [|f IH]; intros lo hi Hf L1 L2 L3; cbn [bisect_loop]; [lia|].
  destruct (Nat.ltb lo hi) eqn:E; [|apply Nat.ltb_ge in E; lia].
  apply Nat.ltb_lt in E. cbv zeta.
  assert (lo <= Nat.div (lo + hi) 2 /\ Nat.div (lo + hi) 2 < hi)%nat as [D1 D2].
  { pose proof (Nat.div_mod (lo + hi) 2 ltac:(lia)) as Q.
    pose proof (Nat.mod_upper_bound (lo + hi) 2 ltac:(lia)) as R. lia. }
  set (mid := Nat.div (lo + hi) 2) in *.
  destruct (entry_lt _ x) eqn:T.
  - apply C in T; [|lia]. apply IH; lia.
  - assert (~ (mid < n)%nat) as N by (intros Q; apply C in Q; [congruence|lia]).
    apply IH; lia.
Qed.

Lemma bisect_left_sorted a x : sorted_off a -> bisect_left a x = lin_idx x a.
Proof.
  intros S. unfold bisect_left. apply bisect_loop_correct; try lia.
  - intros i Hi. apply lin_idx_char; assumption.
  - apply lin_idx_le.
Qed.

Lemma insort_left_sorted a x : sorted_off a -> insort_left x a = lin_insert x a.
Proof. intros S. unfold insort_left. rewrite (bisect_left_sorted a x S), lin_insert_idx. reflexivity. Qed.

(* insertion never loses or duplicates anything, sorted or not *)
Lemma insort_left_perm x a : Permutation (insort_left x a) (x :: a).
Proof.
  unfold insort_left. set (i := bisect_left a x).
  rewrite <- (firstn_skipn i a) at 3. symmetry. apply Permutation_middle.
Qed.

(* inserting into a free place keeps wf                                                      *)
Definition fits (es : block) (o len : Z) : Prop :=
  Forall (fun e => o + len <= fst e \/ fst e + snd e <= o) es.

Lemma lin_insert_wf_from M o len : 0 < len -> o + len <= M ->
  forall es lo, wf_from M lo es -> lo <= o -> fits es o len -> wf_from M lo (lin_insert (o, len) es).
Proof.
  intros Hl HM. induction es as [|e tl IH]; intros lo W L F.
  - cbn. lia.
  - cbn [lin_insert]. inversion F as [|x l Hx F']; subst.
    destruct W as (A & B & C & D). unfold entry_lt; cbn [fst].
    destruct (fst e <? o) eqn:E.
    + cbn [wf_from]. repeat split; try lia. apply IH; [exact D|lia|exact F'].
    + cbn [wf_from fst snd]. repeat split; try lia. exact D.
Qed.

Lemma insort_wf M es o len : 0 <= o -> 0 < len -> o + len <= M ->
  wf M es -> fits es o len -> wf M (insort_left (o, len) es).
Proof.
  intros Ho Hl HM W F. rewrite (insort_left_sorted _ _ (wf_sorted _ _ W)).
  apply wf_wf_from. apply lin_insert_wf_from; try assumption. apply wf_wf_from; exact W.
Qed.

(* add_entry                                                                                 *)
Section AddEntry.
Variables (M len : Z).
Hypothesis HM : 0 < M.
Hypothesis Hlen : 0 < len.

(* when the loop breaks at index > 0, the offset is the end of some entry and the place is free *)
Lemma add_scan_some : forall es p lo o, wf_from M lo (p :: es) ->
  add_scan len (Some p) es = Some o ->
  fits (p :: es) o len /\ fst p + snd p <= o /\ o + len <= M.
Proof.
  induction es as [|e tl IH]; intros p lo o W H; [discriminate|].
  cbn [add_scan] in H. cbv zeta in H.
  destruct W as (A & B & C & D).
  destruct (fst e - (fst p + snd p - 1) - 1 >=? len) eqn:G.
  - inversion H; subst o; clear H.
    pose proof (wf_from_bounds _ _ _ D) as F.
    inversion F as [|x l Hx F']; subst.
    split; [|lia]. constructor; [lia|]. constructor; [lia|].
    cbn [wf_from] in D. destruct D as (D1 & D2 & D3 & D4).
    eapply Forall_impl; [|apply (wf_from_bounds _ _ _ D4)]. cbn; intros a Ha; lia.
  - destruct (IH e _ o D H) as (F & L & R).
    cbn [wf_from] in D. split; [|lia]. constructor; [lia|exact F].
Qed.

Lemma add_offset_ok es : wf_from M 0 es -> 0 <= add_offset M es len ->
  fits es (add_offset M es len) len /\ add_offset M es len + len <= M.
Proof.
  intros W. unfold add_offset. destruct es as [|e tl].
  - cbn [add_scan]. destruct (M >=? len) eqn:G; [|lia]. intros _. split; [constructor|lia].
  - cbn [add_scan].
    destruct (negb (fst e =? 0) && (len <=? fst e)) eqn:G.
    + intros _. pose proof (wf_from_bounds _ _ _ W) as F.
      inversion F as [|x l Hx F']; subst. split; [|lia].
      constructor; [lia|]. cbn [wf_from] in W. destruct W as (A & B & C & D).
      eapply Forall_impl; [|apply (wf_from_bounds _ _ _ D)]. cbn; intros a Ha; lia.
    + destruct (add_scan len (Some e) tl) as [o|] eqn:S.
      * intros _. destruct (add_scan_some _ _ _ _ W S) as (F & L & R). split; assumption.
      * cbv zeta. destruct (wf_from_last _ _ _ _ W) as [F L].
        set (le := last (e :: tl) (0,0)) in *.
        destruct (M - (fst le + snd le - 1) - 1 >=? len) eqn:T; [|lia].
        intros _. split; [|lia]. eapply Forall_impl; [|exact F]. cbn; intros a Ha; lia.
Qed.

Theorem add_entry_wf es : wf M es -> wf M (snd (add_entry M es len)).
Proof.
  intros W. unfold add_entry. cbv zeta.
  destruct (add_offset M es len >=? 0) eqn:G; cbn [snd]; [|exact W].
  destruct (add_offset_ok es) as [F R]; [apply wf_wf_from; exact W|lia|].
  apply insort_wf; try assumption; lia.
Qed.

Theorem add_entry_placed es o : wf M es -> fst (add_entry M es len) = o -> 0 <= o ->
  In (o, len) (snd (add_entry M es len))
  /\ o + len <= M
  /\ Permutation (snd (add_entry M es len)) ((o, len) :: es)
  /\ Forall (fun e => o + len <= fst e \/ fst e + snd e <= o) es.
Proof.
  intros W. unfold add_entry. cbv zeta.
  destruct (add_offset M es len >=? 0) eqn:G; cbn [fst snd]; intros E Ho; [|lia].
  subst o. destruct (add_offset_ok es) as [F R]; [apply wf_wf_from; exact W|lia|].
  pose proof (insort_left_perm (add_offset M es len, len) es) as P.
  split; [|split; [exact R|split; [exact P|exact F]]].
  eapply Permutation_in; [symmetry; exact P|left; reflexivity].
Qed.

End AddEntry.

(* no hypotheses needed at all *)
Theorem add_entry_fail_unchanged M es len : fst (add_entry M es len) < 0 -> snd (add_entry M es len) = es.
Proof.
  unfold add_entry. cbv zeta. destruct (add_offset M es len >=? 0) eqn:G; cbn [fst snd]; [lia|reflexivity].
Qed.

Lemma add_entry_fst M es len : fst (add_entry M es len) = add_offset M es len.
Proof. unfold add_entry. cbv zeta. destruct (add_offset M es len >=? 0); reflexivity. Qed.

(* remove_entry                                                                              *)
Theorem remove_entry_exact : forall es off len es', remove_entry es off len = Some es' ->
  exists l1 l2, es = l1 ++ (off, len) :: l2 /\ es' = l1 ++ l2 /\ ~ In (off, len) l1.
Proof.
  induction es as [|e tl IH]; intros off len es' H; [discriminate|].
  cbn [remove_entry] in H. destruct ((fst e =? off) && (snd e =? len)) eqn:E.
  - inversion H; subst es'. exists [], tl. destruct e as [a b]; cbn [fst snd] in E.
    assert (a = off /\ b = len) as [-> ->] by lia. cbn. auto.
  - destruct (remove_entry tl off len) as [tl'|] eqn:R; [|discriminate].
    inversion H; subst es'. destruct (IH _ _ _ R) as (l1 & l2 & E1 & E2 & N).
    exists (e :: l1), l2. subst tl tl'. cbn. repeat split; try reflexivity.
    intros [Q|Q]; [|exact (N Q)]. subst e. cbn [fst snd] in E. lia.
Qed.

Theorem remove_entry_none : forall es off len, remove_entry es off len = None <-> ~ In (off, len) es.
Proof.
  induction es as [|e tl IH]; intros off len; cbn [remove_entry In]; [tauto|].
  destruct ((fst e =? off) && (snd e =? len)) eqn:E.
  - split; [discriminate|]. intros N; exfalso; apply N; left.
    destruct e as [a b]; cbn [fst snd] in E. f_equal; lia.
  - specialize (IH off len). destruct (remove_entry tl off len) as [tl'|].
    + split; [discriminate|]. intros N; exfalso. apply (proj1 (not_iff_compat IH)); [discriminate|tauto].
    + split; [|reflexivity]. intros _ [Q|Q]; [subst e; cbn [fst snd] in E; lia|].
      apply (proj1 IH eq_refl Q).
Qed.

Lemma wf_from_remove M : forall l1 lo e l2, wf_from M lo (l1 ++ e :: l2) -> wf_from M lo (l1 ++ l2).
Proof.
  induction l1 as [|a l1 IH]; intros lo e l2 W; cbn [app] in *.
  - destruct W as (A & B & C & D). eapply wf_from_weaken; [exact D|lia].
  - destruct W as (A & B & C & D). cbn [wf_from]. repeat split; try assumption. eapply IH; exact D.
Qed.

Theorem remove_entry_wf M es off len es' : wf M es -> remove_entry es off len = Some es' -> wf M es'.
Proof.
  intros W H. destruct (remove_entry_exact _ _ _ _ H) as (l1 & l2 & -> & -> & _).
  apply wf_wf_from. apply wf_wf_from in W. eapply wf_from_remove; exact W.
Qed.

(* track_entry                                                                               *)
Lemma overlaps_false_fits es off len : 0 < len -> Forall (fun e => 0 < snd e) es ->
  existsb (overlaps off len) es = false -> fits es off len.
Proof.
  intros Hl P H. unfold fits. rewrite Forall_forall in *. intros e He.
  pose proof (P e He) as Pe.
  assert (overlaps off len e = false) as O.
  { destruct (overlaps off len e) eqn:O; [|reflexivity].
    assert (existsb (overlaps off len) es = true) by (apply existsb_exists; exists e; auto). congruence. }
  unfold overlaps in O. cbv zeta in O. lia.
Qed.

Theorem track_entry_wf M es off len es' : 0 <= off -> 0 < len -> wf M es ->
  track_entry M es off len = Some es' ->
  wf M es' /\ Permutation es' ((off, len) :: es) /\ off + len <= M
  /\ Forall (fun e => off + len <= fst e \/ fst e + snd e <= off) es.
Proof.
  intros Ho Hl W H. unfold track_entry in H.
  destruct (existsb (overlaps off len) es) eqn:E; [discriminate|].
  destruct (off + len >? M) eqn:G; [discriminate|]. inversion H; subst es'; clear H.
  assert (fits es off len) as F.
  { apply overlaps_false_fits; try assumption.
    destruct W as (_ & F & _). eapply Forall_impl; [|exact F]. unfold entry_ok; intros a Ha; lia. }
  split; [apply insort_wf; try assumption; lia|].
  split; [apply insort_left_perm|]. split; [lia|exact F].
Qed.

(* track_entry refuses exactly the overlapping / overflowing requests (for positive lengths) *)
Theorem track_entry_none M es off len : 0 < len -> Forall (fun e => 0 < snd e) es ->
  (track_entry M es off len = None <-> (M < off + len \/ ~ fits es off len)).
Proof.
  intros Hl P. unfold track_entry.
  destruct (existsb (overlaps off len) es) eqn:E.
  - split; [|reflexivity]. intros _. right. intros F.
    apply existsb_exists in E. destruct E as (e & He & O).
    unfold fits in F. rewrite Forall_forall in F, P. pose proof (F e He). pose proof (P e He).
    unfold overlaps in O. cbv zeta in O. lia.
  - destruct (off + len >? M) eqn:G.
    + split; [|reflexivity]. intros _; left; lia.
    + split; [discriminate|]. intros [Q|Q]; [lia|]. exfalso; apply Q.
      apply overlaps_false_fits; assumption.
Qed.

(* add_rr_ce_entry (several blocks)                                                          *)
Lemma add_rr_loop_spec M len : forall bs,
  match fst (add_rr_loop M bs len) with
  | Some (i, o) => 0 <= o /\ exists l1 b l2, bs = l1 ++ b :: l2 /\ length l1 = i
        /\ fst (add_entry M b len) = o
        /\ snd (add_rr_loop M bs len) = l1 ++ snd (add_entry M b len) :: l2
  | None => snd (add_rr_loop M bs len) = bs /\ Forall (fun b => fst (add_entry M b len) < 0) bs
  end.
Proof.
  induction bs as [|b tl IH]; cbn [add_rr_loop]; cbv zeta; [cbn; auto|].
  destruct (fst (add_entry M b len) >=? 0) eqn:G; cbn [fst snd].
  - split; [lia|]. exists [], b, tl. cbn. auto.
  - assert (fst (add_entry M b len) < 0) as Neg by lia.
    rewrite (add_entry_fail_unchanged _ _ _ Neg).
    destruct (fst (add_rr_loop M tl len)) as [[i o]|].
    + destruct IH as (Ho & l1 & b0 & l2 & E1 & E2 & E3 & E4).
      split; [exact Ho|]. exists (b :: l1), b0, l2. rewrite E4. subst tl. cbn. auto.
    + destruct IH as [E F]. rewrite E. split; [reflexivity|constructor; assumption].
Qed.

Lemma nth_middle_other {A} (d x y : A) l1 l2 j : j <> length l1 ->
  nth j (l1 ++ x :: l2) d = nth j (l1 ++ y :: l2) d.
Proof.
  intros N. destruct (Nat.lt_ge_cases j (length l1)) as [L|L].
  - rewrite !app_nth1 by exact L. reflexivity.
  - rewrite !app_nth2 by exact L. destruct (j - length l1)%nat as [|k] eqn:K; [lia|reflexivity].
Qed.

Section Blocks.
Variables (M len : Z).
Hypothesis HM : 0 < M.
Hypothesis Hlen : 0 < len.
Variable blocks : list block.
Hypothesis Hwf : Forall (wf M) blocks.

Theorem blocks_wf ab i o bs' : add_rr_ce_entry M blocks len = (ab, i, o, bs') -> Forall (wf M) bs'.
Proof.
  unfold add_rr_ce_entry. cbv zeta. pose proof (add_rr_loop_spec M len blocks) as S.
  destruct (fst (add_rr_loop M blocks len)) as [[i0 o0]|]; intros E; inversion E; subst; clear E.
  - destruct S as (_ & l1 & b & l2 & E1 & _ & _ & E4). rewrite E4. rewrite E1 in Hwf.
    apply Forall_app in Hwf. destruct Hwf as [F1 F2]. inversion F2 as [|x l Hx F2']; subst.
    apply Forall_app; split; [exact F1|]. constructor; [|exact F2'].
    apply add_entry_wf; assumption.
  - destruct S as [E _]. rewrite E. apply Forall_app; split; [exact Hwf|].
    constructor; [|constructor]. apply add_entry_wf; [assumption|apply wf_nil].
Qed.

(* the returned (block index, offset) designates the new entry; every other block is untouched;
   a new block is appended exactly when added_block is true *)
Theorem blocks_designates ab i o bs' : add_rr_ce_entry M blocks len = (ab, i, o, bs') ->
  length bs' = (if ab then S (length blocks) else length blocks)
  /\ (i < length bs')%nat
  /\ (ab = true -> i = length blocks /\ Forall (fun b => fst (add_entry M b len) < 0) blocks)
  /\ (forall j, j <> i -> nth j bs' [] = nth j blocks [])
  /\ (0 <= o -> In (o, len) (nth i bs' []) /\ o + len <= M
               /\ Permutation (nth i bs' []) ((o, len) :: nth i blocks [])
               /\ Forall (fun e => o + len <= fst e \/ fst e + snd e <= o) (nth i blocks []))
  /\ (o < 0 -> ab = true /\ bs' = blocks ++ [[]]).
Proof.
  unfold add_rr_ce_entry. cbv zeta. pose proof (add_rr_loop_spec M len blocks) as S.
  destruct (fst (add_rr_loop M blocks len)) as [[i0 o0]|]; intros E; inversion E; subst; clear E.
  - destruct S as (Ho & l1 & b & l2 & E1 & E2 & E3 & E4). rewrite E4, E1. subst i.
    rewrite !app_length. cbn [length]. split; [reflexivity|]. split; [lia|].
    split; [discriminate|]. split; [intros j Hj; apply nth_middle_other; exact Hj|].
    split; [|lia]. intros _. rewrite !nth_middle.
    rewrite E1 in Hwf. apply Forall_app in Hwf. destruct Hwf as [_ F2].
    inversion F2 as [|x l Hx F2']; subst.
    apply add_entry_placed; try assumption. reflexivity.
  - destruct S as [E F]. rewrite E. rewrite app_length. cbn [length].
    split; [lia|]. split; [lia|]. split; [auto|].
    split.
    { intros j Hj. destruct (Nat.lt_ge_cases j (length blocks)) as [L|L].
      - rewrite app_nth1 by exact L. reflexivity.
      - rewrite app_nth2 by exact L. rewrite (nth_overflow blocks) by exact L.
        destruct (j - length blocks)%nat as [|k] eqn:K; [lia|]. cbn. destruct k; reflexivity. }
    rewrite app_nth2, Nat.sub_diag by lia. cbn [nth]. rewrite (nth_overflow blocks) by lia.
    split.
    + intros Ho. apply add_entry_placed; try assumption; [apply wf_nil|reflexivity].
    + intros Ho. split; [reflexivity|]. rewrite add_entry_fail_unchanged by exact Ho. reflexivity.
Qed.

(* the offset is negative exactly when len > M; in that case an EMPTY block was still appended *)
Theorem blocks_success_iff ab i o bs' : add_rr_ce_entry M blocks len = (ab, i, o, bs') ->
  (o < 0 <-> M < len).
Proof.
  intros E. destruct (blocks_designates _ _ _ _ E) as (_ & _ & A & _ & P & N). split.
  - intros Ho. destruct (N Ho) as [-> ->].
    unfold add_rr_ce_entry in E. cbv zeta in E.
    destruct (fst (add_rr_loop M blocks len)) as [[i0 o0]|]; inversion E; subst.
    rewrite add_entry_fst in Ho. unfold add_offset in Ho. cbn [add_scan] in Ho.
    destruct (M >=? len) eqn:G; lia.
  - intros L. destruct (Z.lt_ge_cases o 0) as [Q|Q]; [exact Q|]. destruct (P Q) as (_ & R & _). lia.
Qed.

Corollary blocks_success ab i o bs' : add_rr_ce_entry M blocks len = (ab, i, o, bs') ->
  len <= M -> 0 <= o /\ In (o, len) (nth i bs' []).
Proof.
  intros E L. pose proof (blocks_success_iff _ _ _ _ E) as Q.
  assert (0 <= o) as Ho by lia. split; [exact Ho|].
  destruct (blocks_designates _ _ _ _ E) as (_ & _ & _ & _ & P & _). apply P; exact Ho.
Qed.

End Blocks.

(* sequences of operations                                                                   *)
Definition op_ok (op : ceop) : Prop := match op with CeAdd len => 0 < len | CeRemove _ _ _ => True end.

Lemma replace_nth_Forall {A} (P : A -> Prop) x : forall l n, Forall P l -> P x -> Forall P (replace_nth n x l).
Proof.
  induction l as [|y tl IH]; intros n F Px; cbn; [constructor|].
  inversion F; subst. destruct n; constructor; auto.
Qed.

Lemma ce_step_inv M bs op : 0 < M -> op_ok op -> Forall (wf M) bs -> Forall (wf M) (snd (ce_step M bs op)).
Proof.
  intros HM Hop W. destruct op as [len|blk off len]; cbn [ce_step op_ok] in *.
  - destruct (add_rr_ce_entry M bs len) as [[[ab i] o] bs'] eqn:E. cbn [snd].
    eapply blocks_wf; eauto.
  - destruct (nth_error bs blk) as [b|] eqn:N; [|exact W].
    destruct (remove_entry b off len) as [b'|] eqn:R; [|exact W]. cbn [snd].
    apply replace_nth_Forall; [exact W|].
    eapply remove_entry_wf; [|exact R]. rewrite Forall_forall in W. apply W.
    eapply nth_error_In; exact N.
Qed.

Lemma run_from_inv M : 0 < M -> forall ops bs, Forall op_ok ops -> Forall (wf M) bs ->
  Forall (wf M) (snd (run_from M bs ops)).
Proof.
  intros HM. induction ops as [|op tl IH]; intros bs Hops W; cbn [run_from]; [exact W|].
  cbv zeta. cbn [snd]. inversion Hops; subst. apply IH; [assumption|]. apply ce_step_inv; assumption.
Qed.

Theorem run_inv M ops : 0 < M -> Forall op_ok ops -> Forall (wf M) (final_blocks M ops).
Proof. intros HM Hops. unfold final_blocks. apply run_from_inv; [exact HM|exact Hops|constructor]. Qed.

(* the positivity of the requested lengths is necessary: the Python code does not check it *)
Theorem run_inv_needs_pos_refuted : exists ops, ~ Forall (wf 2048) (final_blocks 2048 ops).
Proof.
  exists [CeAdd 0]. intros H. inversion H as [|x l Hx _]; subst.
  apply wfb_iff in Hx. vm_compute in Hx. discriminate.
Qed.

(* theorem 1 is not vacuous: the off-by-one variant breaks wf                                *)
Theorem add_entry_gapbug_refuted :
  exists es len, 0 < len /\ wf 2048 es /\ ~ wf 2048 (snd (add_entry_gapbug 2048 es len)).
Proof.
  exists [(0, 10); (20, 10)], 11. split; [lia|]. split.
  - apply wfb_iff. vm_compute. reflexivity.
  - intros H. apply wfb_iff in H. vm_compute in H. discriminate.
Qed.

(* completeness: no gap is missed                                                            *)
(* gap_from M len lo es: starting at lo (the end of the previous entry, 0 at the start), there is
   room for len before the first entry of es, or between two consecutive entries of es, or between
   the last entry and M *)
Fixpoint gap_from (M len lo : Z) (es : block) : Prop :=
  match es with
  | [] => lo + len <= M
  | e :: tl => lo + len <= fst e \/ gap_from M len (fst e + snd e) tl
  end.
Definition has_gap (M : Z) (es : block) (len : Z) : Prop := gap_from M len 0 es.

Lemma gap_from_between M len : forall l1 lo a b l2, fst a + snd a + len <= fst b ->
  gap_from M len lo (l1 ++ a :: b :: l2).
Proof. induction l1 as [|x l1 IH]; intros; cbn [app gap_from]; [right; left; assumption|right; apply IH; assumption]. Qed.

Lemma gap_from_after_last M len : forall es p lo,
  fst (last (p :: es) (0,0)) + snd (last (p :: es) (0,0)) + len <= M -> gap_from M len lo (p :: es).
Proof.
  induction es as [|e tl IH]; intros p lo H; [cbn in *; right; exact H|].
  cbn [gap_from]. right. apply IH. exact H.
Qed.

Section Complete.
Variables (M len : Z).
Hypothesis HM : 0 < M.
Hypothesis Hlen : 0 < len.

Lemma gap_from_fits : forall es lo, wf_from M lo es -> gap_from M len lo es ->
  exists o, lo <= o /\ o + len <= M /\ fits es o len.
Proof.
  induction es as [|e tl IH]; intros lo W G; cbn [gap_from] in G.
  - exists lo. split; [lia|]. split; [exact G|constructor].
  - destruct W as (A & B & C & D). destruct G as [G|G].
    + exists lo. split; [lia|]. split; [lia|]. constructor; [lia|].
      eapply Forall_impl; [|apply (wf_from_bounds _ _ _ D)]. cbn; intros a Ha; lia.
    + destruct (IH _ D G) as (o & O1 & O2 & O3). exists o. split; [lia|]. split; [exact O2|].
      constructor; [lia|exact O3].
Qed.

(* if the loop runs to completion, every free place after p lies after the last entry *)
Lemma add_scan_none : forall es p lo, wf_from M lo (p :: es) -> add_scan len (Some p) es = None ->
  forall o, fst p + snd p <= o -> fits es o len ->
  fst (last (p :: es) (0,0)) + snd (last (p :: es) (0,0)) <= o.
Proof.
  induction es as [|e tl IH]; intros p lo W H o Ho F; [cbn; exact Ho|].
  cbn [add_scan] in H. cbv zeta in H.
  destruct (fst e - (fst p + snd p - 1) - 1 >=? len) eqn:G; [discriminate|].
  destruct W as (A & B & C & D). inversion F as [|x l Hx F']; subst.
  change (last (p :: e :: tl) (0,0)) with (last (e :: tl) (0,0)).
  apply (IH e _ D H); [|exact F']. cbn [wf_from] in D. lia.
Qed.

(* semantic completeness: if ANY place is free, add_entry succeeds *)
Theorem add_entry_complete es o : wf M es -> 0 <= o -> o + len <= M -> fits es o len ->
  0 <= fst (add_entry M es len).
Proof.
  intros W Ho HoM F. rewrite add_entry_fst. apply wf_wf_from in W. unfold add_offset.
  destruct es as [|e tl]; cbn [add_scan].
  - destruct (M >=? len) eqn:G; lia.
  - destruct (negb (fst e =? 0) && (len <=? fst e)) eqn:G; [lia|].
    destruct (add_scan len (Some e) tl) as [o'|] eqn:S.
    + destruct (add_scan_some _ _ _ _ _ _ W S) as (_ & L & _). cbn [wf_from] in W. lia.
    + cbv zeta. inversion F as [|x l Hx F']; subst.
      assert (fst e + snd e <= o) as Q by (cbn [wf_from] in W; lia).
      pose proof (add_scan_none _ _ _ W S o Q F') as L.
      set (le := last (e :: tl) (0,0)) in *.
      destruct (M - (fst le + snd le - 1) - 1 >=? len) eqn:T; [|lia].
      destruct (wf_from_last _ _ _ _ W) as [FL _]. fold le in FL.
      inversion FL as [|x l Hx' _]; subst. cbn [wf_from] in W. lia.
Qed.

(* the property asked for: a gap before the first entry, between two consecutive entries or after
   the last one is never missed (PROVED: the index == 0 branch falling through is harmless) *)
Theorem add_entry_finds_first_gap es : wf M es -> has_gap M es len -> 0 <= fst (add_entry M es len).
Proof.
  intros W G. destruct (gap_from_fits es 0 (proj1 (wf_wf_from _ _) W) G) as (o & O1 & O2 & O3).
  eapply add_entry_complete; eauto.
Qed.

(* and conversely a success means there was a gap *)
Theorem add_entry_success_iff es : wf M es ->
  (0 <= fst (add_entry M es len) <-> exists o, 0 <= o /\ o + len <= M /\ fits es o len).
Proof.
  intros W. split.
  - intros H. exists (fst (add_entry M es len)).
    destruct (add_entry_placed M len es _ W eq_refl H) as (_ & A & _ & B). auto.
  - intros (o & A & B & C). eapply add_entry_complete; eauto.
Qed.

End Complete.

Print Assumptions add_entry_wf. Print Assumptions add_entry_placed. Print Assumptions add_entry_fail_unchanged.
Print Assumptions remove_entry_wf. Print Assumptions remove_entry_exact. Print Assumptions track_entry_wf.
Print Assumptions blocks_wf. Print Assumptions blocks_designates. Print Assumptions blocks_success_iff.
Print Assumptions run_inv. Print Assumptions add_entry_gapbug_refuted. Print Assumptions add_entry_finds_first_gap.
Print Assumptions add_entry_complete.
