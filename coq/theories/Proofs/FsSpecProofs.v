From Coq Require Import ZArith List Bool Lia.
From PV.Base Require Import ListX.
From PV.Spec Require Import FsSpec.
Import ListNotations.
Local Open Scope Z_scope.

(* ---------------------------------------------------------------- path equality *)
Lemma path_eqb_refl p : path_eqb p p = true.
Proof. induction p as [|x p IH]; cbn; [reflexivity|]. rewrite Z.eqb_refl, IH. reflexivity. Qed.

Lemma path_eqb_eq a b : path_eqb a b = true <-> a = b.
Proof.
  revert b; induction a as [|x a IH]; intros [|y b]; cbn; split; intros H; try reflexivity; try discriminate.
  - apply andb_prop in H. destruct H as [H1 H2]. apply Z.eqb_eq in H1. apply IH in H2. subst. reflexivity.
  - inversion H; subst. rewrite Z.eqb_refl. cbn. apply IH. reflexivity.
Qed.

Lemma path_eqb_neq a b : path_eqb a b = false <-> a <> b.
Proof.
  split; intros H.
  - intros E. apply path_eqb_eq in E. congruence.
  - destruct (path_eqb a b) eqn:E; [|reflexivity]. apply path_eqb_eq in E. congruence.
Qed.

(* ---------------------------------------------------------------- lookup *)
Lemma lookup_none_notin l p : lookup l p = None <-> ~ In p (map e_path l).
Proof.
  unfold lookup. induction l as [|e l IH]; cbn; [tauto|].
  destruct (path_eqb (e_path e) p) eqn:E.
  - apply path_eqb_eq in E. split; [discriminate|]. intros H. exfalso. apply H. left. exact E.
  - apply path_eqb_neq in E. rewrite IH. tauto.
Qed.

Lemma lookup_some_in l p e : lookup l p = Some e -> In e l /\ e_path e = p.
Proof.
  unfold lookup. intros H. apply find_some in H. destruct H as [H1 H2]. apply path_eqb_eq in H2. auto.
Qed.

Lemma lookup_app_old l p e x : lookup l p = Some e -> lookup (l ++ [x]) p = Some e.
Proof.
  unfold lookup. induction l as [|a l IH]; cbn; [discriminate|].
  destruct (path_eqb (e_path a) p); [auto|]. exact IH.
Qed.

Lemma lookup_app_new l x : lookup l (e_path x) = None -> lookup (l ++ [x]) (e_path x) = Some x.
Proof.
  unfold lookup. induction l as [|a l IH]; cbn.
  - rewrite path_eqb_refl. reflexivity.
  - destruct (path_eqb (e_path a) (e_path x)); [discriminate|]. exact IH.
Qed.

Lemma lookup_app_other l x p : e_path x <> p -> lookup (l ++ [x]) p = lookup l p.
Proof.
  intros Hne. unfold lookup. induction l as [|a l IH]; cbn.
  - apply path_eqb_neq in Hne. rewrite Hne. reflexivity.
  - destruct (path_eqb (e_path a) p); [reflexivity|]. exact IH.
Qed.

Lemma is_dir_at_app l x p : is_dir_at l p = true -> is_dir_at (l ++ [x]) p = true.
Proof.
  unfold is_dir_at. destruct p as [|c p]; [reflexivity|].
  destruct (lookup l (c :: p)) as [e|] eqn:E; [|discriminate].
  rewrite (lookup_app_old l (c :: p) e x E). tauto.
Qed.

(* ---------------------------------------------------------------- well-formed namespaces *)
Definition wf_ns (l : list entry) : Prop :=
  NoDup (map e_path l) /\
  forall e, In e l -> e_path e <> [] /\ is_dir_at l (parent_of (e_path e)) = true.

Definition wf_fs (s : fs) : Prop := wf_ns (f_iso s) /\ wf_ns (f_jol s) /\ wf_ns (f_udf s).

Lemma wf_empty : wf_fs empty_fs.
Proof.
  assert (H : wf_ns []) by (split; [constructor|intros e []]).
  unfold wf_fs; cbn. auto.
Qed.

Lemma can_add_facts l p :
  can_add l p = true -> p <> [] /\ is_dir_at l (parent_of p) = true /\ lookup l p = None.
Proof.
  unfold can_add. destruct p as [|c p]; [discriminate|].
  intros H. apply andb_prop in H. destruct H as [H1 H2].
  split; [discriminate|]. split; [exact H1|]. destruct (lookup l (c :: p)); [discriminate|reflexivity].
Qed.

Lemma wf_ns_add l p k rr : wf_ns l -> can_add l p = true -> wf_ns (l ++ [mk p k rr]).
Proof.
  intros [Hnd Hpar] Hc. destruct (can_add_facts l p Hc) as (Hne & Hdir & Hnone).
  split.
  - rewrite map_app. cbn [map mk e_path]. apply NoDup_app_single.
    + exact Hnd.
    + apply lookup_none_notin. exact Hnone.
  - intros e He. apply in_app_or in He. destruct He as [He|[He|[]]].
    + destruct (Hpar e He) as [H1 H2]. split; [exact H1|]. apply is_dir_at_app. exact H2.
    + subst e. cbn [mk e_path]. split; [exact Hne|]. apply is_dir_at_app. exact Hdir.
Qed.

(* ---------------------------------------------------------------- removing entries *)
Lemma lookup_filter_keep f l p e :
  lookup l p = Some e -> f e = true -> lookup (filter f l) p = Some e.
Proof.
  unfold lookup. induction l as [|a l IH]; cbn; [discriminate|].
  destruct (path_eqb (e_path a) p) eqn:E.
  - intros H Hf. inversion H; subst a. rewrite Hf. cbn. rewrite E. reflexivity.
  - intros H Hf. destruct (f a); cbn; [rewrite E|]; apply IH; assumption.
Qed.

Lemma in_filter_in {A} (f : A -> bool) l x : In x (filter f l) -> In x l /\ f x = true.
Proof. apply filter_In. Qed.

Definition keeps_dirs (f : entry -> bool) : Prop := forall e, e_kind e = KDir -> f e = true.

(* filtering out entries never breaks well-formedness as long as every directory that still has
   a surviving child is kept *)
Lemma wf_ns_filter f l :
  wf_ns l ->
  (forall e d, In e l -> f e = true -> lookup l (parent_of (e_path e)) = Some d -> f d = true) ->
  wf_ns (filter f l).
Proof.
  intros [Hnd Hpar] Hkeep. split.
  - apply NoDup_map_filter. exact Hnd.
  - intros e He. apply in_filter_in in He. destruct He as [He Hf].
    destruct (Hpar e He) as [H1 H2]. split; [exact H1|].
    unfold is_dir_at in *. destruct (parent_of (e_path e)) as [|c q] eqn:Ep; [reflexivity|].
    destruct (lookup l (c :: q)) as [d|] eqn:Ed; [|discriminate].
    rewrite (lookup_filter_keep f l (c :: q) d Ed); [exact H2|].
    apply (Hkeep e d He Hf). rewrite Ep. exact Ed.
Qed.

Lemma wf_ns_remove_nondir l p e :
  wf_ns l -> lookup l p = Some e -> e_kind e <> KDir -> wf_ns (remove_path l p).
Proof.
  intros Hw Hl Hk. unfold remove_path. apply wf_ns_filter; [exact Hw|].
  intros x d Hx Hfx Hd. destruct Hw as [Hnd Hpar].
  destruct (path_eqb (e_path d) p) eqn:E; [|reflexivity]. exfalso.
  apply path_eqb_eq in E.
  destruct (lookup_some_in _ _ _ Hd) as [Hd1 Hd2].
  (* d sits at path p, so d = e by the lookup, but d is a directory (it is x's parent) *)
  destruct (Hpar x Hx) as [_ Hdir]. unfold is_dir_at in Hdir.
  destruct (parent_of (e_path x)) as [|c q] eqn:Ep.
  - rewrite Hd2 in E. subst p. cbn in Hl. destruct (lookup_some_in _ _ _ Hl) as [He1 He2].
    destruct (Hpar e He1) as [Hne _]. congruence.
  - rewrite Hd in Hdir. rewrite <- E in Hl. rewrite Hd2 in Hl. rewrite Hd in Hl. inversion Hl; subst d.
    destruct (e_kind e); congruence.
Qed.

Lemma wf_ns_drop_blob b l : wf_ns l -> wf_ns (drop_blob b l).
Proof.
  intros Hw. unfold drop_blob. apply wf_ns_filter; [exact Hw|].
  intros x d Hx Hfx Hd. destruct Hw as [Hnd Hpar].
  destruct (Hpar x Hx) as [_ Hdir]. unfold is_dir_at in Hdir.
  destruct (parent_of (e_path x)) as [|c q] eqn:Ep.
  - destruct (lookup_some_in _ _ _ Hd) as [Hd1 Hd2]. destruct (Hpar d Hd1) as [Hne _]. congruence.
  - rewrite Hd in Hdir. destruct (e_kind d); try discriminate. reflexivity.
Qed.

Lemma wf_ns_remove_emptydir l p :
  wf_ns l -> has_children l p = false -> wf_ns (remove_path l p).
Proof.
  intros Hw Hc. unfold remove_path. apply wf_ns_filter; [exact Hw|].
  intros x d Hx Hfx Hd.
  destruct (path_eqb (e_path d) p) eqn:E; [|reflexivity]. exfalso.
  apply path_eqb_eq in E. destruct (lookup_some_in _ _ _ Hd) as [Hd1 Hd2].
  unfold has_children in Hc. rewrite <- not_true_iff_false in Hc. apply Hc.
  apply existsb_exists. exists x. split; [exact Hx|].
  destruct Hw as [_ Hpar]. destruct (Hpar x Hx) as [Hne _].
  destruct (e_path x) as [|c q] eqn:Ex; [congruence|]. rewrite <- Ex.
  apply path_eqb_eq. congruence.
Qed.

Lemma is_dir_at_set_hidden l p h q : is_dir_at (set_hidden_in l p h) q = is_dir_at l q.
Proof.
  unfold is_dir_at. destruct q as [|c q]; [reflexivity|]. unfold lookup, set_hidden_in.
  induction l as [|a l IH]; [reflexivity|]. cbn [map find].
  destruct (path_eqb (e_path a) p) eqn:Ea; cbn [e_path].
  - destruct (path_eqb (e_path a) (c :: q)); [reflexivity|]. exact IH.
  - destruct (path_eqb (e_path a) (c :: q)); [reflexivity|]. exact IH.
Qed.

Lemma wf_ns_set_hidden l p h : wf_ns l -> wf_ns (set_hidden_in l p h).
Proof.
  intros [Hnd Hpar].
  assert (Hmap : map e_path (set_hidden_in l p h) = map e_path l).
  { unfold set_hidden_in. rewrite map_map. apply map_ext. intros e. destruct (path_eqb (e_path e) p); reflexivity. }
  split; [rewrite Hmap; exact Hnd|].
  intros e He. unfold set_hidden_in in He. apply in_map_iff in He. destruct He as (x & Hx1 & Hx2).
  destruct (Hpar x Hx2) as [H1 H2].
  assert (Hp : e_path e = e_path x) by (subst e; destruct (path_eqb (e_path x) p); reflexivity).
  rewrite Hp, is_dir_at_set_hidden. auto.
Qed.

(* ---------------------------------------------------------------- reopening (renumbering empty contents) *)
Lemma renum_paths em base k l : map e_path (renum em base k l) = map e_path l.
Proof.
  revert k; induction l as [|e l IH]; intros k; cbn [renum map]; [reflexivity|]. rewrite IH. f_equal.
  destruct (e_kind e); try reflexivity. destruct (is_empty_blob em _); reflexivity.
Qed.

Lemma renum_lookup_dir em base k l q :
  match lookup (renum em base k l) q with Some e => match e_kind e with KDir => true | _ => false end | None => false end =
  match lookup l q with Some e => match e_kind e with KDir => true | _ => false end | None => false end.
Proof.
  unfold lookup. revert k; induction l as [|a l IH]; intros k; cbn [renum find]; [reflexivity|].
  destruct (e_kind a) as [|b|t] eqn:Ea.
  - destruct (path_eqb (e_path a) q); [rewrite Ea; reflexivity|apply IH].
  - destruct (is_empty_blob em b); cbn [e_path].
    + destruct (path_eqb (e_path a) q); [cbn [e_kind]; rewrite Ea; reflexivity|apply IH].
    + destruct (path_eqb (e_path a) q); [rewrite Ea; reflexivity|apply IH].
  - destruct (path_eqb (e_path a) q); [rewrite Ea; reflexivity|apply IH].
Qed.

Lemma is_dir_at_renum em base k l q : is_dir_at (renum em base k l) q = is_dir_at l q.
Proof. unfold is_dir_at. destruct q as [|c q]; [reflexivity|]. apply renum_lookup_dir. Qed.

Lemma renum_in em base k l e : In e (renum em base k l) -> exists x, In x l /\ e_path e = e_path x.
Proof.
  revert k; induction l as [|a l IH]; intros k; cbn [renum]; [intros []|].
  intros [H|H].
  - exists a. split; [left; reflexivity|]. subst e. destruct (e_kind a); try reflexivity.
    destruct (is_empty_blob em _); reflexivity.
  - destruct (IH _ H) as (x & Hx & Hp). exists x. split; [right; exact Hx|exact Hp].
Qed.

Lemma wf_ns_renum em base k l : wf_ns l -> wf_ns (renum em base k l).
Proof.
  intros [Hnd Hpar]. split; [rewrite renum_paths; exact Hnd|].
  intros e He. destruct (renum_in _ _ _ _ _ He) as (x & Hx & Hp). rewrite Hp, is_dir_at_renum. apply Hpar. exact Hx.
Qed.

(* a map that keeps paths and directory-ness keeps well-formedness *)
Lemma lookup_map_dir (f : entry -> entry) l q :
  (forall e, e_path (f e) = e_path e) ->
  (forall e, match e_kind (f e) with KDir => true | _ => false end = match e_kind e with KDir => true | _ => false end) ->
  match lookup (map f l) q with Some e => match e_kind e with KDir => true | _ => false end | None => false end =
  match lookup l q with Some e => match e_kind e with KDir => true | _ => false end | None => false end.
Proof.
  intros Hp Hk. unfold lookup. induction l as [|a l IH]; cbn [map find]; [reflexivity|].
  rewrite Hp. destruct (path_eqb (e_path a) q); [apply Hk|exact IH].
Qed.

Lemma wf_ns_map (f : entry -> entry) l :
  (forall e, e_path (f e) = e_path e) ->
  (forall e, match e_kind (f e) with KDir => true | _ => false end = match e_kind e with KDir => true | _ => false end) ->
  wf_ns l -> wf_ns (map f l).
Proof.
  intros Hp Hk [Hnd Hpar].
  assert (Hmap : map e_path (map f l) = map e_path l) by (rewrite map_map; apply map_ext; exact Hp).
  split; [rewrite Hmap; exact Hnd|].
  intros e He. apply in_map_iff in He. destruct He as (x & Hx1 & Hx2). subst e. rewrite Hp.
  destruct (Hpar x Hx2) as [H1 H2]. split; [exact H1|].
  unfold is_dir_at in *. destruct (parent_of (e_path x)) as [|c q]; [reflexivity|].
  rewrite lookup_map_dir; assumption.
Qed.

Lemma wf_ns_renum_shared em base l : wf_ns l -> wf_ns (renum_shared em base l).
Proof.
  intros H. unfold renum_shared. apply wf_ns_map; [| |exact H].
  - intros e. destruct (e_kind e); try reflexivity. destruct (is_empty_blob em _); reflexivity.
  - intros e. destruct (e_kind e) eqn:Ek; try (rewrite Ek; reflexivity).
    destruct (is_empty_blob em _); [reflexivity|rewrite Ek; reflexivity].
Qed.

(* ---------------------------------------------------------------- steps preserve well-formedness *)
Lemma wf_get s n : wf_fs s -> wf_ns (get_ns s n).
Proof. intros (H1 & H2 & H3). destruct n; assumption. Qed.

Lemma wf_set s n l : wf_fs s -> wf_ns l -> wf_fs (set_ns s n l).
Proof. intros (H1 & H2 & H3) Hl. destruct n; unfold wf_fs; cbn; auto. Qed.

Lemma wf_boot_irrelevant s b :
  wf_fs s -> wf_fs {| f_iso := f_iso s; f_jol := f_jol s; f_udf := f_udf s; f_boot := b |}.
Proof. intros H. exact H. Qed.

Lemma get_set_same s n l : get_ns (set_ns s n l) n = l.
Proof. destruct n; reflexivity. Qed.

Lemma opt_ok_some {A} (f : A -> bool) a : opt_ok f (Some a) = f a.
Proof. reflexivity. Qed.

Ltac split_andb H :=
  repeat match type of H with
         | (_ && _) = true => let H1 := fresh H in apply andb_prop in H; destruct H as [H H1]
         end.

Lemma wf_add3 s k iso jol udf :
  wf_fs s ->
  opt_ok (fun x => can_add (f_iso s) (fst x)) iso = true ->
  opt_ok (can_add (f_jol s)) jol = true -> opt_ok (can_add (f_udf s)) udf = true ->
  let s1 := match iso with Some (p, rr) => set_ns s NsIso (f_iso s ++ [mk p k rr]) | None => s end in
  let s2 := match jol with Some p => set_ns s1 NsJoliet (f_jol s1 ++ [mk p k 0]) | None => s1 end in
  let s3 := match udf with Some p => set_ns s2 NsUdf (f_udf s2 ++ [mk p k 0]) | None => s2 end in
  wf_fs s3.
Proof.
  intros Hw Hi Hj Hu. cbv zeta.
  assert (W1 : wf_fs (match iso with Some (p, rr) => set_ns s NsIso (f_iso s ++ [mk p k rr]) | None => s end)).
  { destruct iso as [[p rr]|]; [|exact Hw]. apply wf_set; [exact Hw|].
    apply wf_ns_add; [apply (wf_get s NsIso Hw)|exact Hi]. }
  set (s1 := match iso with Some (p, rr) => set_ns s NsIso (f_iso s ++ [mk p k rr]) | None => s end) in *.
  assert (J1 : f_jol s1 = f_jol s) by (subst s1; destruct iso as [[? ?]|]; reflexivity).
  assert (U1 : f_udf s1 = f_udf s) by (subst s1; destruct iso as [[? ?]|]; reflexivity).
  assert (W2 : wf_fs (match jol with Some p => set_ns s1 NsJoliet (f_jol s1 ++ [mk p k 0]) | None => s1 end)).
  { destruct jol as [p|]; [|exact W1]. apply wf_set; [exact W1|].
    apply wf_ns_add; [apply (wf_get s1 NsJoliet W1)|]. rewrite J1. exact Hj. }
  set (s2 := match jol with Some p => set_ns s1 NsJoliet (f_jol s1 ++ [mk p k 0]) | None => s1 end) in *.
  assert (U2 : f_udf s2 = f_udf s) by (subst s2; destruct jol; [cbn; exact U1|exact U1]).
  destruct udf as [p|]; [|exact W2]. apply wf_set; [exact W2|].
  apply wf_ns_add; [apply (wf_get s2 NsUdf W2)|]. rewrite U2. exact Hu.
Qed.

Theorem step_preserves_wf s o : wf_fs s -> wf_fs (fst (step s o)).
Proof.
  intros Hw. destruct o as [blob iso jol udf|iso jol udf|n p|iso jol udf|src n p rr|n p|p rr t|ip up t|n p h
                            |bf cat crr cjol cudf|bf| |em base| ]; cbn [step].
  - (* AddFp *)
    match goal with |- context [if ?c then _ else _] => destruct c eqn:E end; [|exact Hw].
    split_andb E. cbn [fst]. apply wf_add3; assumption.
  - (* AddDir *)
    match goal with |- context [if ?c then _ else _] => destruct c eqn:E end; [|exact Hw].
    split_andb E. cbn [fst]. apply wf_add3; assumption.
  - (* RmFile *)
    destruct (lookup (get_ns s n) p) as [e|] eqn:El; [|exact Hw].
    destruct (e_kind e) as [|b|t] eqn:Ek; try exact Hw.
    match goal with |- context [if ?c then _ else _] => destruct c end; [exact Hw|].
    destruct (b =? 0).
    + cbn [fst]. apply wf_set; [exact Hw|].
      apply (wf_ns_remove_nondir _ _ e (wf_get s n Hw) El). rewrite Ek. discriminate.
    + cbn [fst]. destruct Hw as (H1 & H2 & H3). unfold wf_fs; cbn. auto using wf_ns_drop_blob.
  - (* RmDir *)
    match goal with |- context [if ?c then _ else _] => destruct c eqn:E end; [|exact Hw].
    split_andb E. cbn [fst]. destruct Hw as (H1 & H2 & H3).
    assert (R : forall l o, wf_ns l ->
       opt_ok (fun p => match p with [] => false | _ :: _ => is_dir_at l p && negb (has_children l p) end) o = true ->
       wf_ns (match o with Some p => remove_path l p | None => l end)).
    { intros l [q|] Hl Ho; [|exact Hl]. cbn in Ho. destruct q as [|c q]; [discriminate|].
      apply andb_prop in Ho. destruct Ho as [_ Ho]. apply negb_true_iff in Ho.
      apply wf_ns_remove_emptydir; assumption. }
    unfold wf_fs; cbn. auto.
  - (* AddLink *)
    match goal with |- context [match ?b with Some _ => _ | None => _ end] => destruct b as [blob|] end; [|exact Hw].
    destruct (can_add (get_ns s n) p) eqn:Ec; [|exact Hw]. cbn [fst].
    assert (W : wf_fs (set_ns s n (get_ns s n ++ [mk p (KFile blob) rr]))).
    { apply wf_set; [exact Hw|]. apply wf_ns_add; [apply wf_get; exact Hw|exact Ec]. }
    destruct src; [exact W|]. destruct (f_boot (set_ns s n (get_ns s n ++ [mk p (KFile blob) rr]))); exact W.
  - (* RmLink *)
    destruct (lookup (get_ns s n) p) as [e|] eqn:El; [|exact Hw].
    destruct (e_kind e) as [|b|t] eqn:Ek; [exact Hw| |].
    + cbn [fst]. apply wf_set; [exact Hw|].
      apply (wf_ns_remove_nondir _ _ e (wf_get s n Hw) El). rewrite Ek. discriminate.
    + assert (W : wf_fs (set_ns s n (remove_path (get_ns s n) p))).
      { apply wf_set; [exact Hw|].
        apply (wf_ns_remove_nondir _ _ e (wf_get s n Hw) El). rewrite Ek. discriminate. }
      destruct n; exact W.
  - (* AddSymlinkRR *)
    destruct (can_add (f_iso s) p) eqn:Ec; [|exact Hw]. cbn [fst].
    apply wf_set; [exact Hw|]. apply wf_ns_add; [apply (wf_get s NsIso Hw)|exact Ec].
  - (* AddSymlinkUdf *)
    match goal with |- context [if ?c then _ else _] => destruct c eqn:E end; [|exact Hw].
    split_andb E. cbn [fst].
    assert (W1 : wf_fs (set_ns s NsIso (f_iso s ++ [mk ip (KFile 0) 0]))).
    { apply wf_set; [exact Hw|]. apply wf_ns_add; [apply (wf_get s NsIso Hw)|assumption]. }
    apply wf_set; [exact W1|]. apply wf_ns_add; [apply (wf_get _ NsUdf W1)|assumption].
  - (* SetHidden *)
    destruct p as [|c p]; [exact Hw|].
    destruct (lookup (get_ns s n) (c :: p)); [|exact Hw]. cbn [fst].
    apply wf_set; [exact Hw|]. apply wf_ns_set_hidden. apply wf_get. exact Hw.
  - (* AddEltorito *)
    destruct (f_boot s); [exact Hw|].
    destruct (blob_of (f_iso s) bf) as [b|]; [|exact Hw].
    match goal with |- context [if ?c then _ else _] => destruct c eqn:E end; [|exact Hw].
    split_andb E. cbn [fst].
    pose proof (wf_add3 s (KFile catalog_blob) (Some (cat, crr)) cjol cudf Hw) as H.
    cbn [opt_ok fst] in H. pose proof (H ltac:(assumption) ltac:(assumption) ltac:(assumption)) as W.
    cbv zeta in W. exact W.
  - (* AddEltoritoSection *)
    destruct (f_boot s); [|exact Hw].
    destruct (blob_of (f_iso s) bf); [|exact Hw].
    match goal with |- context [if ?c then _ else _] => destruct c end; exact Hw.
  - (* RmEltorito *)
    destruct (f_boot s); [|exact Hw]. cbn [fst].
    destruct Hw as (H1 & H2 & H3). unfold wf_fs; cbn. auto using wf_ns_drop_blob.
  - (* Reopen *) cbn [fst]. destruct Hw as (H1 & H2 & H3). unfold wf_fs; cbn. auto using wf_ns_renum, wf_ns_renum_shared.
  - (* Bad *) exact Hw.
Qed.

Theorem run_preserves_wf ops : forall s, wf_fs s -> wf_fs (fst (run s ops)).
Proof.
  induction ops as [|o r IH]; intros s Hw; cbn [run]; [exact Hw|].
  pose proof (step_preserves_wf s o Hw) as H1.
  destruct (step s o) as [s1 x]. cbn [fst] in H1. specialize (IH s1 H1).
  destruct (run s1 r) as [s2 xs]. exact IH.
Qed.

(* ---------------------------------------------------------------- a refused edit changes nothing *)
Theorem refused_unchanged s o s' : step s o = (s', Refused) -> s' = s.
Proof.
  destruct o; cbn [step];
    repeat match goal with
           | |- context [match ?x with _ => _ end] => destruct x
           end; intros H; inversion H; reflexivity.
Qed.

(* ---------------------------------------------------------------- frame lemmas *)
Lemma lookup_remove_same l p : lookup (remove_path l p) p = None.
Proof.
  unfold lookup, remove_path. induction l as [|a l IH]; cbn; [reflexivity|].
  destruct (path_eqb (e_path a) p) eqn:E; cbn; [exact IH|]. rewrite E. exact IH.
Qed.

Lemma lookup_remove_other l p q : q <> p -> lookup (remove_path l p) q = lookup l q.
Proof.
  intros Hne. unfold lookup, remove_path. induction l as [|a l IH]; cbn; [reflexivity|].
  destruct (path_eqb (e_path a) p) eqn:E; cbn.
  - apply path_eqb_eq in E. destruct (path_eqb (e_path a) q) eqn:E2; [|exact IH].
    apply path_eqb_eq in E2. congruence.
  - destruct (path_eqb (e_path a) q); [reflexivity|exact IH].
Qed.

Lemma get_set_other s n m l : n <> m -> get_ns (set_ns s n l) m = get_ns s m.
Proof. destruct n, m; intros H; try reflexivity; congruence. Qed.

(* rm_hard_link removes the one addressed name and nothing else, in any namespace *)
Theorem rm_link_frame s n p s' :
  step s (RmLink n p) = (s', Ok) ->
  lookup (get_ns s' n) p = None /\
  (forall q, q <> p -> lookup (get_ns s' n) q = lookup (get_ns s n) q) /\
  (forall m, m <> n -> get_ns s' m = get_ns s m) /\ f_boot s' = f_boot s.
Proof.
  cbn [step]. destruct (lookup (get_ns s n) p) as [e|]; [|discriminate].
  assert (R : forall s0, s0 = set_ns s n (remove_path (get_ns s n) p) ->
    lookup (get_ns s0 n) p = None /\
    (forall q, q <> p -> lookup (get_ns s0 n) q = lookup (get_ns s n) q) /\
    (forall m, m <> n -> get_ns s0 m = get_ns s m) /\ f_boot s0 = f_boot s).
  { intros s0 ->. rewrite get_set_same. split; [apply lookup_remove_same|].
    split; [intros q Hq; apply lookup_remove_other; exact Hq|].
    split; [intros m Hm; apply get_set_other; congruence|]. destruct n; reflexivity. }
  destruct (e_kind e); [discriminate| |].
  - intros H. inversion H. apply R. reflexivity.
  - destruct n; intros H; inversion H; apply R; reflexivity.
Qed.

Lemma lookup_drop_blob b l q :
  lookup (drop_blob b l) q =
  match lookup l q with
  | Some e => match e_kind e with KFile b' => if b' =? b then lookup (drop_blob b l) q else Some e | _ => Some e end
  | None => None
  end.
Proof.
  unfold lookup, drop_blob. induction l as [|a l IH]; cbn [filter find]; [reflexivity|].
  destruct (path_eqb (e_path a) q) eqn:E.
  - destruct (e_kind a) as [|b'|t] eqn:Ek; cbn [negb]; cbn [find]; rewrite ?E; try reflexivity.
    destruct (b' =? b) eqn:Eb; cbn [negb]; [reflexivity|]. cbn [find]. rewrite E. reflexivity.
  - destruct (match e_kind a with KFile b' => negb (b' =? b) | _ => true end); cbn [find]; rewrite ?E; exact IH.
Qed.

(* every entry that survives rm_file is an entry that was there and is not bound to the removed blob;
   every entry not bound to that blob survives *)
Theorem rm_file_exact s n p s' e b :
  step s (RmFile n p) = (s', Ok) -> lookup (get_ns s n) p = Some e -> e_kind e = KFile b -> b <> 0 ->
  forall m x, In x (get_ns s' m) <-> (In x (get_ns s m) /\ e_kind x <> KFile b).
Proof.
  intros Hs Hl Hk Hb. cbn [step] in Hs. rewrite Hl, Hk in Hs.
  destruct (is_catalog_name s n p || negb (b =? 0) && is_boot_blob s b); [discriminate|].
  replace (b =? 0) with false in Hs by (symmetry; apply Z.eqb_neq; exact Hb).
  inversion Hs; subst s'. clear Hs. intros m x.
  assert (D : forall l, In x (drop_blob b l) <-> In x l /\ e_kind x <> KFile b).
  { intros l. unfold drop_blob. rewrite filter_In. split; intros [H1 H2]; split; try exact H1.
    - destruct (e_kind x) as [|b'|t]; try discriminate. intros E. inversion E; subst b'.
      rewrite Z.eqb_refl in H2. discriminate.
    - destruct (e_kind x) as [|b'|t]; try reflexivity. apply negb_true_iff. apply Z.eqb_neq. congruence. }
  destruct m; cbn [get_ns f_iso f_jol f_udf]; apply D.
Qed.

(* add_fp binds exactly the given names to the new blob *)
Theorem add_fp_exact s blob iso jol udf s' :
  wf_fs s -> step s (AddFp blob iso jol udf) = (s', Ok) ->
  (forall p rr, iso = Some (p, rr) -> lookup (f_iso s') p = Some (mk p (KFile blob) rr)) /\
  (forall p, jol = Some p -> lookup (f_jol s') p = Some (mk p (KFile blob) 0)) /\
  (forall p, udf = Some p -> lookup (f_udf s') p = Some (mk p (KFile blob) 0)) /\
  (forall q, (forall rr, iso <> Some (q, rr)) -> lookup (f_iso s') q = lookup (f_iso s) q) /\
  (forall q, jol <> Some q -> lookup (f_jol s') q = lookup (f_jol s) q) /\
  (forall q, udf <> Some q -> lookup (f_udf s') q = lookup (f_udf s) q) /\
  f_boot s' = f_boot s.
Proof.
  intros Hw Hs. cbn [step] in Hs.
  match type of Hs with context [if ?c then _ else _] => destruct c eqn:E end; [|discriminate].
  split_andb E. inversion Hs; subst s'. clear Hs.
  destruct iso as [[pi rri]|]; destruct jol as [pj|]; destruct udf as [pu|];
    cbn [opt_ok fst] in *; cbn [set_ns f_iso f_jol f_udf f_boot];
    repeat match goal with
           | H : can_add _ _ = true |- _ => apply can_add_facts in H; destruct H as (? & ? & ?)
           end;
    repeat split; intros;
    repeat match goal with
           | H : Some _ = Some _ |- _ => inversion H; subst; clear H
           | H : None = Some _ |- _ => discriminate H
           end;
    try reflexivity;
    try (match goal with |- lookup (?l ++ [mk ?p ?k ?r]) ?p = _ =>
           apply (lookup_app_new l (mk p k r)); assumption end);
    try (apply lookup_app_other; cbn [mk e_path]; congruence).
  all: try (apply lookup_app_other; cbn [mk e_path]; intros ->;
            match goal with H : forall rr, Some _ <> Some _ |- _ => eapply H; reflexivity end).
Qed.
