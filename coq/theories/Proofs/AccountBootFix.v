(* C11 -- El Torito edit histories (Model/AccountBoot.v), the CURRENT code (fx = true: commits d8f44b3,
   6a3f4a5, 4476941): every boot file is non-empty, and a boot info table sits only on boot files --
   for every history. *)
From Coq Require Import ZArith List Bool Lia ZifyBool Sorted Arith Permutation.
From PV.Base Require Import Prim.
From PV.Gen Require Import GenConst GenFun.
From PV.Model Require Import Names Checksums Pack Alloc Codec Eltorito Account AccountLinks AccountBoot.
From PV.Proofs Require Import PackProofs AllocProofs ChecksumsArithProofs AccountLemmas AccountProofs
     AccountLinksLemmas AccountLinksPurge AccountLinksInv EltoritoCatalogProofs EltoritoBuiltProofs
     AccountBootLemmas AccountBootInv AccountBootInv2.
Import ListNotations.
Local Open Scope Z_scope.
Ltac Zify.zify_post_hook ::= Z.to_euclidean_division_equations.

Definition BFix (s : bstate) : Prop :=
  (forall i, 0 < erefs i (bboot s) -> len_of i (linodes (bl s)) <> 0) /\
  (forall i, In i (bbits s) -> 0 < erefs i (bboot s)).

Ltac ab_break :=
  repeat match goal with
         | |- context [match ?x with _ => _ end] => destruct x
         end.

Lemma ab_fix_tbl s l' bt' w : BInv s -> BFix s ->
  (forall j, erefs j bt' = erefs j (bboot s)) ->
  (forall j, 0 < erefs j (bboot s) -> len_of j (linodes l') = len_of j (linodes (bl s))) ->
  BFix {| bl := l'; bboot := bt'; bbits := bbits s; bwreck := w |}.
Proof.
  intros HI [F1 F2] He Hl. split; cbn [bl bboot bbits].
  - intros i Hi. rewrite He in Hi. rewrite (Hl i Hi). apply F1, Hi.
  - intros i Hi. rewrite He. apply F2, Hi.
Qed.

Lemma ab_state_eta' s : {| bl := bl s; bboot := bboot s; bbits := bbits s; bwreck := bwreck s |} = s.
Proof. destruct s; reflexivity. Qed.

(* add_record leaves the lengths of the inodes that were there *)
Lemma ab_add_record_len l dirp nm ino tbl extra :
  (forall j, In j (ids (linodes l)) -> len_of j tbl = len_of j (linodes l)) ->
  forall j, In j (ids (linodes l)) ->
  len_of j (linodes (fst (add_record l dirp nm ino tbl extra))) = len_of j (linodes l).
Proof.
  intros H j Hj. unfold add_record, lrefuse. cbv zeta. ab_break; cbn [fst linodes]; try reflexivity; apply H, Hj.
Qed.

Lemma ab_add_record_keeps_tbl l dirp nm ino extra :
  linodes (fst (add_record l dirp nm ino (linodes l) extra)) = linodes l.
Proof. unfold add_record, lrefuse. cbv zeta. ab_break; reflexivity. Qed.

Lemma ab_lift_fix s r : BInv s -> BFix s ->
  (forall j, In j (ids (linodes (bl s))) -> len_of j (linodes (fst r)) = len_of j (linodes (bl s))) ->
  BFix (fst (lift s r)).
Proof.
  intros HI HF H. unfold lift, with_l. destruct (snd r); [|exact HF]. cbn [fst].
  apply ab_fix_tbl; [exact HI|exact HF|reflexivity|].
  intros j Hj. apply H. destruct (bi_live s HI) as (_ & _ & HE). apply HE, Hj.
Qed.

Lemma ab_add_file_fix s d n len : BInv s -> BFix s -> BFix (fst (lift s (lstep_add_file (bl s) d n len))).
Proof.
  intros HI HF. apply ab_lift_fix; [exact HI|exact HF|]. intros j Hj. unfold lstep_add_file, lrefuse.
  destruct (negb ((0 <=? len) && (len <=? max_len))); [reflexivity|].
  apply ab_add_record_len; [|exact Hj]. intros k Hk. rewrite len_of_app_fresh.
  apply existsb_eqb_in in Hk. rewrite Hk. reflexivity.
Qed.

Lemma ab_add_dir_fix s d n : BInv s -> BFix s -> BFix (fst (lift s (lstep_add_dir (bl s) d n))).
Proof.
  intros HI HF. apply ab_lift_fix; [exact HI|exact HF|]. intros j _. unfold lstep_add_dir, lrefuse. cbv zeta.
  ab_break; reflexivity.
Qed.

Lemma ab_rm_dir_fix s p : BInv s -> BFix s -> BFix (fst (lift s (lstep_rm_dir (bl s) p))).
Proof.
  intros HI HF. apply ab_lift_fix; [exact HI|exact HF|]. intros j _. unfold lstep_rm_dir, lrefuse. cbv zeta.
  ab_break; reflexivity.
Qed.

Lemma ab_add_cat_name_fix s b dirp nm : BInv s -> BFix s -> bboot s = Some b ->
  BFix (fst (add_cat_name s b dirp nm)).
Proof.
  intros HI HF Hb. unfold add_cat_name, brefuse. cbv zeta.
  destruct (snd (add_record (bl s) dirp nm (lnext (bl s)) (linodes (bl s)) 0)); [|exact HF]. cbn [fst].
  apply ab_fix_tbl; [exact HI|exact HF|rewrite Hb; reflexivity|].
  intros j Hj. apply ab_add_record_len; [reflexivity|]. destruct (bi_live s HI) as (_ & _ & HE). apply HE, Hj.
Qed.

Lemma ab_add_link_fix s src dirp nm : BInv s -> BFix s -> BFix (fst (bstep_add_link true s src dirp nm)).
Proof.
  intros HI HF. unfold bstep_add_link, brefuse.
  assert (HP : forall ino, BFix (fst (lift s (add_record (bl s) dirp nm ino (linodes (bl s)) 0)))).
  { intros ino. apply ab_lift_fix; [exact HI|exact HF|]. intros j Hj. apply ab_add_record_len; [reflexivity|exact Hj]. }
  destruct (lsubtree src (lroot (bl s))) as [[on i ost|on odl okids]|]; try exact HF.
  destruct (has_ino i (linodes (bl s))); [apply HP|].
  destruct (bboot s) as [b|] eqn:Hb; [|apply HP].
  destruct (true && mem i (cat_recs b)); [apply ab_add_cat_name_fix; assumption|apply HP].
Qed.

Lemma ab_add_cat_link_fix s dirp nm : BInv s -> BFix s -> BFix (fst (bstep_add_cat_link s dirp nm)).
Proof.
  intros HI HF. unfold bstep_add_cat_link, brefuse. destruct (bboot s) as [b|] eqn:Hb; [|exact HF].
  destruct (cat_recs b); [exact HF|]. apply ab_add_cat_name_fix; assumption.
Qed.

Lemma ab_rm_link_fix s dirp nm : BInv s -> BFix s -> BFix (fst (bstep_rm_link s dirp nm)).
Proof.
  intros HI HF. unfold bstep_rm_link, brefuse. cbv zeta.
  destruct (lsubtree dirp (lroot (bl s))) as [[fn fi fs|dn dl kids]|]; try exact HF.
  destruct (llookup nm kids) as [[k [cn i st|cn cdl ckids]]|]; try exact HF. cbn [fst].
  rewrite ab_rm_record_root.
  apply ab_fix_tbl; [exact HI|exact HF|intros j; apply ab_erefs_forget|].
  intros j Hj. unfold rm_record. cbn [linodes].
  match goal with |- context [if ?c then del_ino i _ else _] => destruct c eqn:Hlast end; [|reflexivity].
  apply andb_prop in Hlast. destruct Hlast as [_ Hz]. apply Z.eqb_eq in Hz.
  pose proof (lrefcount_nonneg i (lreplace dirp (LDir dn (dlen (dir_remove C (ldir_st dl kids) (2 + k)))
                                             (remove_at k kids)) (lroot (bl s)))) as N.
  apply len_of_del. intros ->. lia.
Qed.

Lemma ab_rm_file_fix s dirp nm : BInv s -> BFix s -> BFix (fst (bstep_rm_file s dirp nm)).
Proof.
  intros HI HF. unfold bstep_rm_file, brefuse. cbv zeta.
  destruct (lsubtree dirp (lroot (bl s))) as [[fn fi fs|dn dl kids]|] eqn:Hsub; try exact HF.
  destruct (llookup nm kids) as [[k [cn i st|cn cdl ckids]]|] eqn:Hl; try exact HF.
  destruct (in_cat i (bboot s)); [exact HF|].
  destruct (has_ino i (linodes (bl s))).
  - destruct (0 <? erefs i (bboot s)) eqn:Her; [exact HF|]. apply Z.ltb_ge in Her.
    unfold lift, lstep_rm_file, with_l. rewrite Hsub, Hl. cbn [snd fst].
    apply ab_fix_tbl; [exact HI|exact HF|reflexivity|]. cbn [linodes].
    intros j Hj. apply len_of_del. intros ->. lia.
  - cbn [fst]. unfold with_l. apply ab_fix_tbl; [exact HI|exact HF|reflexivity|]. reflexivity.
Qed.

Lemma ab_add_bit_in bit i bits j : In j (add_bit bit i bits) -> j = i \/ In j bits.
Proof. unfold add_bit. destruct (bit && negb (mem i bits)); cbn [In]; intuition congruence. Qed.

Lemma ab_add_eltorito_fix s bp cd cn ls pf bit efi m ba sg :
  BInv s -> BFix s -> BFix (fst (bstep_add_eltorito true s bp cd cn ls pf bit efi m ba sg)).
Proof.
  intros HI HF. pose proof HF as [F1 F2]. unfold bstep_add_eltorito, brefuse. cbv zeta.
  destruct (m =? 2); [exact HF|].
  destruct (lsubtree bp (lroot (bl s))) as [[fn i fs|dn dl kids]|]; try exact HF.
  destruct (negb (has_ino i (linodes (bl s)))); [exact HF|].
  destruct (Z.eqb_spec (len_of i (linodes (bl s))) 0) as [E0|E0]; cbn [andb]; [exact HF|].
  destruct (bboot s) as [b|] eqn:Hb.
  - destruct (cat_add_section _ _ _ _ _ _ _); cbn [fst]; [|rewrite <- Hb, ab_state_eta'; exact HF].
    split; cbn [bl bboot bbits erefs binos].
    + intros j. rewrite ab_count_app. cbn [count]. intros Hj.
      destruct (Nat.eqb_spec i j) as [E|Hne]; [rewrite <- E; exact E0|]. apply F1. cbn [erefs]. lia.
    + intros j Hj. rewrite ab_count_app. cbn [count]. pose proof (ab_count_nonneg j (binos b)).
      apply ab_add_bit_in in Hj. destruct Hj as [->|Hj]; [rewrite Nat.eqb_refl; lia|].
      specialize (F2 j Hj). cbn [erefs] in F2. destruct (Nat.eqb i j); lia.
  - assert (Hw : BFix {| bl := bl s; bboot := None; bbits := bbits s; bwreck := true |}).
    { split; cbn [bl bboot bbits]; assumption. }
    destruct (cat_new _ _ _ _ _ _); [|exact Hw].
    destruct (snd (add_record (bl s) cd cn (lnext (bl s)) (linodes (bl s)) (C + C))); [|exact Hw].
    cbn [fst]. pose proof (ab_add_record_keeps_tbl (bl s) cd cn (lnext (bl s)) (C + C)) as K.
    split; cbn [bl bboot bbits erefs binos count].
    + intros j Hj. destruct (Nat.eqb_spec i j) as [E|Hne]; [|lia]. rewrite K, <- E. exact E0.
    + intros j Hj. apply ab_add_bit_in in Hj. destruct Hj as [->|Hj]; [rewrite Nat.eqb_refl; lia|].
      specialize (F2 j Hj). cbn [erefs] in F2. lia.
Qed.

Lemma ab_rm_eltorito_fix s : BFix s -> BFix (fst (bstep_rm_eltorito s)).
Proof.
  intros HF. pose proof HF as [F1 F2]. unfold bstep_rm_eltorito, brefuse. cbv zeta.
  destruct (bboot s) as [b|] eqn:Hb; [|exact HF]. cbn [fst]. split; cbn [bl bboot bbits erefs]; [intros; lia|].
  intros j Hj. apply filter_In in Hj. destruct Hj as [Hj Hm]. apply negb_true_iff, ab_mem_false in Hm.
  specialize (F2 j Hj). cbn [erefs] in F2. apply ab_count_pos in F2. contradiction.
Qed.

Theorem ab_step_fix s o : BInv s -> BFix s -> BFix (fst (bstep s o)).
Proof.
  intros HI HF. unfold bstep, bstep_gen, brefuse. destruct (bwreck s); [exact HF|].
  destruct o;
    [apply ab_add_file_fix|apply ab_add_dir_fix|apply ab_add_link_fix|apply ab_add_cat_link_fix
    |apply ab_rm_link_fix|apply ab_rm_file_fix|apply ab_rm_dir_fix|apply ab_add_eltorito_fix
    |apply ab_rm_eltorito_fix]; assumption.
Qed.

Theorem ab_run_fix ops : BFix (brun binit ops).
Proof.
  assert (H : forall s, BInv s -> BFix s -> BFix (brun s ops)).
  { unfold brun, brun_gen. induction ops as [|o r IH]; intros s HI HF; cbn [fold_left]; [exact HF|].
    apply IH; [apply ab_step_gen_preserves_inv, HI|apply (ab_step_fix s o HI HF)]. }
  apply H; [apply ab_init_ok|]. split; cbn [binit bboot bbits erefs]; [intros; lia|intros i []].
Qed.

Print Assumptions ab_run_fix.
