(* Soundness of the model of pycdlib's identifier checkers (Model/Names.v):
   whatever _check_iso9660_filename / _check_iso9660_directory accept obeys the declarative rule
   sets legal_file / legal_dir; the repaired checkers only ever answer Accept / Refuse; what the
   checkers do NOT bound (total length at levels 2-4). *)
From Coq Require Import ZArith List Bool Lia ZifyBool.
From PV.Base Require Import Prim ListX.
From PV.Gen Require Import GenConst.
From PV.Model Require Import Names.
From PV.Proofs Require Import NamesProofs.
Import ListNotations.
Local Open Scope Z_scope.

(* one [if] of a checker: the test must have been false for the outcome to be Accept *)
Ltac step E :=
  match goal with
  | |- (if ?b then _ else _) = Accept -> _ => destruct b eqn:E; [discriminate|]
  end.

(* ---------------------------------------------------------------- split_last / _split_iso9660_filename *)
Lemma split_last_none_inv sep l : split_last sep l = None -> mem sep l = false.
Proof.
  induction l as [|c r IH]; cbn [split_last mem existsb]; [reflexivity|].
  destruct (split_last sep r) as [[b a]|]; [discriminate|].
  destruct (c =? sep) eqn:E; [discriminate|]. intros _.
  rewrite Z.eqb_sym, E. cbn [orb]. apply IH. reflexivity.
Qed.

(* the four ways an identifier decomposes (exactly the disjunction used by legal_file) *)
Definition shape (s name ext ver : list Z) : Prop :=
  s = name ++ [dot] ++ ext ++ [semi] ++ ver \/ (ver = [] /\ s = name ++ [dot] ++ ext) \/
  (ext = [] /\ s = name ++ [semi] ++ ver) \/ (ext = [] /\ ver = [] /\ s = name).

Lemma split_spec s name ext ver :
  split_iso9660_filename s = (name, ext, ver) ->
  shape s name ext ver /\ mem semi ver = false /\ mem dot ext = false.
Proof.
  unfold split_iso9660_filename, shape.
  destruct (split_last semi s) as [[b a]|] eqn:Es; cbv beta iota zeta.
  - destruct (split_last_some semi s b a Es) as [Hs Ha].
    destruct (split_last dot b) as [[n e]|] eqn:Ed; intros H; injection H as <- <- <-.
    + destruct (split_last_some dot b n e Ed) as [Hb He].
      split; [|split; assumption]. left. rewrite Hs, Hb, <- app_assoc. reflexivity.
    + split; [|split; [assumption|reflexivity]]. right; right; left. split; [reflexivity|exact Hs].
  - destruct (split_last dot s) as [[n e]|] eqn:Ed; intros H; injection H as <- <- <-.
    + destruct (split_last_some dot s n e Ed) as [Hb He].
      split; [|split; [reflexivity|assumption]]. right; left. split; [reflexivity|exact Hb].
    + split; [|split; reflexivity]. right; right; right. repeat split; reflexivity.
Qed.

(* when there is no separator at all the components are forced *)
Lemma split_no_semi s name ext ver :
  split_iso9660_filename s = (name, ext, ver) -> mem semi s = false -> ver = [].
Proof.
  unfold split_iso9660_filename. intros H Hm. rewrite (split_last_none semi s Hm) in H.
  cbv beta iota zeta in H. destruct (split_last dot s) as [[n e]|]; injection H as _ _ <-; reflexivity.
Qed.

(* ---------------------------------------------------------------- the version test *)
Lemma check_version_accept v :
  check_version true v = Accept ->
  all_digits v = true /\ zlen v <= 5 /\ (v <> [] -> 1 <= digits_value v 0 <= 32767).
Proof.
  destruct v as [|c r].
  - intros _. split; [reflexivity|]. split; [cbn; lia|congruence].
  - cbn [check_version].
    destruct (negb (all_digits (c :: r)) || (zlen (c :: r) >? 5)) eqn:E1; [discriminate|].
    destruct ((digits_value (c :: r) 0 <? 1) || (digits_value (c :: r) 0 >? 32767)) eqn:E2; [discriminate|].
    intros _. apply orb_false_elim in E1. destruct E1 as [A B]. apply negb_false_iff in A.
    apply orb_false_elim in E2. destruct E2 as [C D].
    split; [exact A|]. split; [lia|]. intros _. lia.
Qed.

Lemma check_version_no_fault v : check_version true v <> Fault.
Proof.
  destruct v as [|c r]; [discriminate|]. cbn [check_version].
  destruct (negb (all_digits (c :: r)) || (zlen (c :: r) >? 5)); [discriminate|].
  destruct ((digits_value (c :: r) 0 <? 1) || (digits_value (c :: r) 0 >? 32767)); discriminate.
Qed.

(* ---------------------------------------------------------------- what Accept means, test by test *)
Lemma accept_file_inv s lvl name ext ver :
  split_iso9660_filename s = (name, ext, ver) ->
  check_iso9660_filename s lvl = Accept ->
  check_version true ver = Accept /\ (name <> [] \/ ext <> []) /\
  mem semi name = false /\ mem semi ext = false /\
  (lvl = 1 -> zlen name <= 8 /\ zlen ext <= 3) /\
  (lvl < 4 -> all_d1 name = true /\ all_d1 ext = true).
Proof.
  intros Hs. unfold check_iso9660_filename, check_iso9660_filename_gen. rewrite Hs.
  cbv beta iota zeta.
  destruct (check_version true ver) eqn:Ev; try discriminate.
  step E0. step E1. step E2. step E3. intros _.
  split; [reflexivity|]. split.
  { destruct name; [|left; discriminate]. destruct ext; [cbn in E0; discriminate E0|right; discriminate]. }
  apply orb_false_elim in E1. destruct E1 as [E1a E1b].
  split; [exact E1a|]. split; [exact E1b|]. split.
  - intros H1. rewrite H1 in E2. cbn [Z.eqb Pos.eqb andb] in E2.
    apply orb_false_elim in E2. destruct E2 as [A B]. split; lia.
  - intros H4. replace (lvl <? 4) with true in E3 by lia. cbn [andb] in E3.
    apply negb_false_iff in E3. apply andb_prop in E3. exact E3.
Qed.

Lemma accept_dir_inv s lvl :
  check_iso9660_directory s lvl = Accept ->
  s <> [] /\ (lvl = 1 -> zlen s <= 8) /\ (lvl = 2 \/ lvl = 3 -> zlen s <= 207) /\
  (lvl < 4 -> all_d1 s = true).
Proof.
  unfold check_iso9660_directory. destruct s as [|c r]; [discriminate|].
  step E1. step E2. step E3. intros _.
  split; [discriminate|]. split; [|split].
  - intros H1. rewrite H1 in E1. cbn [Z.eqb Pos.eqb andb] in E1. lia.
  - intros H23. apply andb_false_iff in E2. destruct E2 as [E2|E2]; [|lia].
    apply orb_false_elim in E2. destruct E2 as [A B]. lia.
  - intros H4. replace (lvl <? 4) with true in E3 by lia. cbn [andb] in E3.
    apply negb_false_iff in E3. exact E3.
Qed.

(* ================================================================ 1. accepted file identifiers are legal *)
Theorem accept_file_legal s lvl :
  (lvl = 1 \/ lvl = 2 \/ lvl = 3) -> check_iso9660_filename s lvl = Accept -> legal_file lvl s.
Proof.
  intros Hl Ha. destruct (split_iso9660_filename s) as [[name ext] ver] eqn:Hs.
  destruct (split_spec s name ext ver Hs) as (Hsh & _ & _).
  destruct (accept_file_inv s lvl name ext ver Hs Ha) as (Hv & Hne & _ & _ & H1 & H4).
  destruct (check_version_accept ver Hv) as (Hd & _ & Hr).
  destruct H4 as [Dn De]; [lia|].
  exists name, ext, ver.
  split; [exact Hsh|]. split; [exact Dn|]. split; [exact De|]. split; [exact Hne|].
  split; [exact H1|]. split; [exact Hd|exact Hr].
Qed.

(* the components the checker looked at are the ones of the decomposition, and they contain
   neither separator (so the decomposition is the unique one) *)
Theorem accept_file_components s lvl name ext ver :
  (lvl = 1 \/ lvl = 2 \/ lvl = 3) -> check_iso9660_filename s lvl = Accept ->
  split_iso9660_filename s = (name, ext, ver) ->
  shape s name ext ver /\ mem semi name = false /\ mem semi ext = false /\ mem semi ver = false /\
  mem dot name = false /\ mem dot ext = false /\ mem dot ver = false.
Proof.
  intros Hl Ha Hs.
  destruct (split_spec s name ext ver Hs) as (Hsh & Hsv & Hde).
  destruct (accept_file_inv s lvl name ext ver Hs Ha) as (Hv & _ & Sn & Se & _ & H4).
  destruct (check_version_accept ver Hv) as (Hd & _ & _).
  destruct H4 as [Dn De]; [lia|].
  repeat (split; [assumption|]). split; [exact (mem_false_notd1 dot name d1_dot Dn)|].
  split; [assumption|].
  clear -Hd. induction ver as [|c r IH]; [reflexivity|]. cbn [all_digits forallb] in Hd.
  apply andb_prop in Hd. destruct Hd as [Hc Hr]. cbn [mem existsb]. unfold is_digit, dot in *.
  replace (46 =? c) with false by lia. cbn [orb]. apply IH. exact Hr.
Qed.

(* ================================================================ 2. accepted directory identifiers are legal *)
Theorem accept_dir_legal s lvl :
  (lvl = 1 \/ lvl = 2 \/ lvl = 3) -> check_iso9660_directory s lvl = Accept -> legal_dir lvl s.
Proof.
  intros Hl Ha. destruct (accept_dir_inv s lvl Ha) as (Hne & H1 & H23 & H4).
  unfold legal_dir. split; [exact Hne|]. split; [apply H4; lia|]. split; assumption.
Qed.

(* ================================================================ 3. no exception other than PyCdlibInvalidInput *)
Theorem checker_never_faults s lvl :
  check_iso9660_filename s lvl <> Fault /\ check_iso9660_directory s lvl <> Fault.
Proof.
  split.
  - unfold check_iso9660_filename, check_iso9660_filename_gen.
    destruct (split_iso9660_filename s) as [[name ext] ver]. cbv beta iota zeta.
    destruct (check_version true ver) eqn:Ev;
      [|discriminate|exfalso; exact (check_version_no_fault ver Ev)].
    repeat match goal with |- (if ?b then _ else _) <> _ => destruct b end; discriminate.
  - unfold check_iso9660_directory. destruct s as [|c r]; [discriminate|].
    repeat match goal with |- (if ?b then _ else _) <> _ => destruct b end; discriminate.
Qed.

(* the pinned original: int(version) on a non-numeric version lets ValueError escape ("X.;A") *)
Theorem original_checker_faults : exists s lvl, check_iso9660_filename_gen false s lvl = Fault.
Proof. exists [88; 46; 59; 65], 1. vm_compute. reflexivity. Qed.

Lemma original_fault_now_refused : check_iso9660_filename [88; 46; 59; 65] 1 = Refuse.
Proof. vm_compute. reflexivity. Qed.

(* the repaired test agrees with Python's int() wherever it lets int() run: on a non-empty string of
   ASCII digits int(bytes) is the plain decimal value (so using digits_value in the model of the
   repaired branch is not a simplification) *)
Lemma digit_not_ws c : is_digit c = true -> is_ws c = false.
Proof. unfold is_digit, is_ws. lia. Qed.

Lemma lstrip_digit_head l : l <> [] -> all_digits l = true -> lstrip l = l.
Proof.
  destruct l as [|c r]; [congruence|]. intros _ H. cbn [all_digits forallb] in H.
  apply andb_prop in H. destruct H as [Hc _]. cbn [lstrip]. rewrite (digit_not_ws c Hc). reflexivity.
Qed.

Lemma all_digits_rev l : all_digits l = true -> all_digits (rev l) = true.
Proof.
  unfold all_digits. intros H. apply forallb_forall. intros x Hx. apply in_rev in Hx.
  exact (proj1 (forallb_forall _ _) H x Hx).
Qed.

Lemma strip_digits l : l <> [] -> all_digits l = true -> strip l = l.
Proof.
  intros Hne Hd. unfold strip. rewrite (lstrip_digit_head l Hne Hd).
  rewrite lstrip_digit_head; [apply rev_involutive| |apply all_digits_rev; exact Hd].
  intros H. apply Hne. rewrite <- (rev_involutive l), H. reflexivity.
Qed.

Lemma int_digits_all l : forall acc p,
  all_digits l = true -> (l <> [] \/ p = true) -> int_digits l acc p = Some (digits_value l acc).
Proof.
  induction l as [|c r IH]; intros acc p Hd Hp.
  - destruct Hp as [Hp|Hp]; [congruence|]. subst p. reflexivity.
  - cbn [all_digits forallb] in Hd. apply andb_prop in Hd. destruct Hd as [Hc Hr].
    cbn [int_digits digits_value]. rewrite Hc. apply IH; [exact Hr|right; reflexivity].
Qed.

Theorem py_int_digits v : v <> [] -> all_digits v = true -> py_int v = Some (digits_value v 0).
Proof.
  intros Hne Hd. unfold py_int. rewrite (strip_digits v Hne Hd).
  destruct v as [|c r]; [congruence|].
  assert (Hc : is_digit c = true).
  { cbn [all_digits forallb] in Hd. apply andb_prop in Hd. exact (proj1 Hd). }
  unfold is_digit in Hc. replace (c =? 43) with false by lia. replace (c =? 45) with false by lia.
  apply int_digits_all; [exact Hd|left; discriminate].
Qed.

(* the repair only turned outcomes into Refuse: whatever it accepts the original accepted too *)
Theorem fixed_accept_original_accept s lvl :
  check_iso9660_filename s lvl = Accept -> check_iso9660_filename_gen false s lvl = Accept.
Proof.
  unfold check_iso9660_filename, check_iso9660_filename_gen.
  destruct (split_iso9660_filename s) as [[name ext] ver]. cbv beta iota zeta.
  destruct (check_version true ver) eqn:Ev; try discriminate.
  assert (Ev' : check_version false ver = Accept).
  { destruct (check_version_accept ver Ev) as (Hd & _ & Hr).
    destruct ver as [|c r]; [reflexivity|].
    assert (Hne : c :: r <> []) by discriminate.
    cbn [check_version]. rewrite (py_int_digits (c :: r) Hne Hd).
    specialize (Hr Hne).
    replace ((digits_value (c :: r) 0 <? 1) || (digits_value (c :: r) 0 >? 32767)) with false by lia.
    reflexivity. }
  rewrite Ev'. intros H. exact H.
Qed.

(* ================================================================ 4. level 4 *)
Theorem accept_file_level4 s :
  check_iso9660_filename s 4 = Accept ->
  forall name ext ver, split_iso9660_filename s = (name, ext, ver) ->
  shape s name ext ver /\ (name <> [] \/ ext <> []) /\
  mem semi name = false /\ mem semi ext = false /\ mem semi ver = false /\ mem dot ext = false /\
  all_digits ver = true /\ zlen ver <= 5 /\ (ver <> [] -> 1 <= digits_value ver 0 <= 32767).
Proof.
  intros Ha name ext ver Hs.
  destruct (split_spec s name ext ver Hs) as (Hsh & Hsv & Hde).
  destruct (accept_file_inv s 4 name ext ver Hs Ha) as (Hv & Hne & Sn & Se & _ & _).
  destruct (check_version_accept ver Hv) as (Hd & Hl & Hr).
  repeat (split; [assumption|]). exact Hr.
Qed.

(* ... and nothing else: at level 4 the characters themselves are not looked at *)
Lemma level4_any_characters :
  check_iso9660_filename [0; 255; 10] 4 = Accept /\ check_iso9660_directory [0; 255; 10] 4 = Accept /\
  check_iso9660_filename [0; 255; 10] 3 = Refuse /\ check_iso9660_directory [0; 255; 10] 3 = Refuse.
Proof. repeat split; vm_compute; reflexivity. Qed.

(* ================================================================ 5. lengths *)
(* levels 2-4 put no bound on the total length: an accepted identifier need not fit the
   255-byte directory record (33 fixed bytes + identifier) *)
Theorem accepted_name_may_not_fit :
  exists s, check_iso9660_filename s 3 = Accept /\ 33 + Z.of_nat (length s) > 255.
Proof.
  exists (repeat 65 230 ++ [46; 59; 49]). split; vm_compute; reflexivity.
Qed.

Lemma accepted_name_may_not_fit_level2 :
  exists s, check_iso9660_filename s 2 = Accept /\ legal_file 2 s /\ 33 + Z.of_nat (length s) > 255.
Proof.
  exists (repeat 65 230 ++ [46; 59; 49]).
  assert (H : check_iso9660_filename (repeat 65 230 ++ [46; 59; 49]) 2 = Accept) by (vm_compute; reflexivity).
  split; [exact H|]. split; [apply accept_file_legal; [lia|exact H]|vm_compute; reflexivity].
Qed.

(* level 1 identifiers are bounded: name <= 8, '.', ext <= 3, ';', version <= 5 digits *)
Theorem accepted_level1_fits s :
  check_iso9660_filename s 1 = Accept -> Z.of_nat (length s) <= 8 + 1 + 3 + 1 + 5.
Proof.
  intros Ha. destruct (split_iso9660_filename s) as [[name ext] ver] eqn:Hs.
  destruct (split_spec s name ext ver Hs) as (Hsh & _ & _).
  destruct (accept_file_inv s 1 name ext ver Hs Ha) as (Hv & _ & _ & _ & H1 & _).
  destruct (check_version_accept ver Hv) as (_ & Hl & _).
  destruct (H1 eq_refl) as [Ln Le]. clear Hs Ha Hv H1.
  unfold zlen in *.
  destruct Hsh as [H|[[Hv H]|[[He H]|[He [Hv H]]]]]; subst;
    repeat rewrite app_length; cbn [length] in *; lia.
Qed.

Lemma accepted_level1_record_fits s :
  check_iso9660_filename s 1 = Accept -> 33 + Z.of_nat (length s) + 1 <= 52.
Proof. intros H. pose proof (accepted_level1_fits s H). lia. Qed.

(* directory identifiers are bounded at levels 1-3: 33 + 207 + pad byte = 241 <= 254 *)
Theorem accepted_dir_fits s lvl :
  (lvl = 1 \/ lvl = 2 \/ lvl = 3) -> check_iso9660_directory s lvl = Accept ->
  33 + Z.of_nat (length s) + 1 <= 241.
Proof.
  intros Hl Ha. destruct (accept_dir_inv s lvl Ha) as (_ & H1 & H23 & _). unfold zlen in *.
  destruct Hl as [Hl|Hl]; [specialize (H1 Hl); lia|specialize (H23 Hl); lia].
Qed.

Lemma accepted_dir_bound_tight :
  check_iso9660_directory (repeat 65 207) 3 = Accept /\ 33 + Z.of_nat (length (repeat 65 207)) + 1 = 241 /\
  check_iso9660_directory (repeat 65 208) 3 = Refuse.
Proof. repeat split; vm_compute; reflexivity. Qed.

(* level 4 directories are unbounded too *)
Lemma accepted_dir_level4_may_not_fit :
  exists s, check_iso9660_directory s 4 = Accept /\ 33 + Z.of_nat (length s) > 255.
Proof. exists (repeat 65 230). split; vm_compute; reflexivity. Qed.

(* ================================================================ 6. completeness on the canonical shape *)
Theorem legal_canonical_accepted b e lvl :
  lvl = 1 \/ lvl = 2 \/ lvl = 3 ->
  all_d1 b = true -> all_d1 e = true -> (b <> [] \/ e <> []) ->
  (lvl = 1 -> zlen b <= 8 /\ zlen e <= 3) ->
  check_iso9660_filename (b ++ [dot] ++ e ++ [semi; 49]) lvl = Accept.
Proof. intros Hl Hb He Hne Hlen. exact (proj1 (check_shape b e lvl Hl Hb He Hne Hlen)). Qed.

(* the converse of accept_file_legal does not hold in general: legal_file puts no bound on the number
   of version digits, the repaired checker refuses more than five ("A;000001") *)
Lemma legal_long_version_refused :
  legal_file 1 [65; 59; 48; 48; 48; 48; 48; 49] /\
  check_iso9660_filename [65; 59; 48; 48; 48; 48; 48; 49] 1 = Refuse /\
  check_iso9660_filename_gen false [65; 59; 48; 48; 48; 48; 48; 49] 1 = Accept.
Proof.
  split; [|split; vm_compute; reflexivity].
  exists [65], [], [48; 48; 48; 48; 48; 49].
  split; [right; right; left; split; reflexivity|].
  split; [vm_compute; reflexivity|]. split; [reflexivity|]. split; [left; discriminate|].
  split; [intros _; cbn; lia|]. split; [vm_compute; reflexivity|]. intros _. vm_compute. split; discriminate.
Qed.

Print Assumptions accept_file_legal.
Print Assumptions accept_dir_legal.
Print Assumptions checker_never_faults.
Print Assumptions original_checker_faults.
Print Assumptions accept_file_level4.
Print Assumptions accepted_name_may_not_fit.
Print Assumptions accepted_level1_fits.
Print Assumptions accepted_dir_fits.
Print Assumptions fixed_accept_original_accept.
