(* C11 / C02 -- Model/BootParse.v, part 1: the boot catalog with the load_rba of its entries filled in
   is written and parsed back exactly (on top of Proofs/EltoritoCatalogProofs.v: cat_extent_roundtrip),
   and clearing the load_rba gives the catalog AccountBoot keeps. *)
From Coq Require Import ZArith List Bool Lia ZifyBool.
From PV.Base Require Import Prim.
From PV.Gen Require Import GenConst GenFun.
From PV.Model Require Import Codec Eltorito AccountBoot BootParse.
From PV.Proofs Require Import CodecProofs EltoritoProofs EltoritoCatalogProofs EltoritoBuiltProofs.
Import ListNotations.
Local Open Scope Z_scope.

(* ---- one entry ------------------------------------------------------------------------------------- *)

Lemma bp_entry_ok_set e x : entry_ok e = true -> u32_ok x = true -> entry_ok (entry_set_rba e x) = true.
Proof.
  destruct e as [a b c d sc rba st cr]. unfold entry_ok, entry_set_rba.
  cbn [e_boot_indicator e_boot_media_type e_load_segment e_system_type e_sector_count e_load_rba
       e_sel_type e_sel_crit].
  intros H Hx. rewrite !andb_true_iff in *. tauto.
Qed.

Lemma bp_entry_clear_set e x : e_load_rba e = 0 -> entry_set_rba (entry_set_rba e x) 0 = e.
Proof. destruct e. cbn. intros ->. reflexivity. Qed.

(* ---- the entries of one section ----------------------------------------------------------------------- *)

Lemma bp_set_entries_length : forall es rbas, length (fst (set_entries_rbas es rbas)) = length es.
Proof.
  induction es as [|e r IH]; intros rbas; [reflexivity|]. cbn [set_entries_rbas].
  destruct rbas as [|x rb]; [reflexivity|]. cbn [fst length]. rewrite IH. reflexivity.
Qed.

Lemma bp_set_entries_ok : forall es rbas, forallb entry_ok es = true -> forallb u32_ok rbas = true ->
  forallb entry_ok (fst (set_entries_rbas es rbas)) = true /\ forallb u32_ok (snd (set_entries_rbas es rbas)) = true.
Proof.
  induction es as [|e r IH]; intros rbas He Hr; [split; [reflexivity|exact Hr]|].
  cbn [set_entries_rbas]. destruct rbas as [|x rb]; [split; [exact He|reflexivity]|].
  cbn [forallb] in He, Hr. apply andb_prop in He. apply andb_prop in Hr.
  destruct He as [He1 He2]. destruct Hr as [Hr1 Hr2]. destruct (IH rb He2 Hr2) as [I1 I2].
  cbn [fst snd forallb]. rewrite (bp_entry_ok_set e x He1 Hr1), I1. split; [reflexivity|exact I2].
Qed.

Lemma bp_set_entries_clear : forall es rbas, Forall (fun e => e_load_rba e = 0) es ->
  map (fun e => entry_set_rba e 0) (fst (set_entries_rbas es rbas)) = es.
Proof.
  induction es as [|e r IH]; intros rbas H; [reflexivity|]. inversion H as [|? ? H1 H2]; subst.
  cbn [set_entries_rbas]. destruct rbas as [|x rb].
  - cbn [fst map]. f_equal.
    + destruct e. cbn in *. subst. reflexivity.
    + clear IH H. induction r as [|a r IH]; [reflexivity|]. inversion H2; subst. cbn [map]. f_equal; [|apply IH; assumption].
      destruct a. cbn in *. subst. reflexivity.
  - cbn [fst map]. rewrite (bp_entry_clear_set e x H1), (IH rb H2). reflexivity.
Qed.

(* when there are enough load_rba: what is read back, what is left over *)
Lemma bp_set_entries_rbas_of : forall es rbas, (length es <= length rbas)%nat ->
  map e_load_rba (fst (set_entries_rbas es rbas)) = firstn (length es) rbas /\
  snd (set_entries_rbas es rbas) = skipn (length es) rbas /\
  map e_sector_count (fst (set_entries_rbas es rbas)) = map e_sector_count es.
Proof.
  induction es as [|e r IH]; intros rbas Hl; [repeat split|].
  destruct rbas as [|x rb]; [cbn [length] in Hl; lia|]. cbn [length] in Hl.
  destruct (IH rb ltac:(lia)) as (I1 & I2 & I3). cbn [set_entries_rbas fst snd map length firstn skipn].
  rewrite I1, I2, I3. destruct e; repeat split.
Qed.

(* ---- the sections --------------------------------------------------------------------------------------- *)

Definition bp_nent (ss : list et_header) : nat := length (concat (map h_entries ss)).

Lemma bp_header_ok_set h n es : header_ok (header_set_entries h n es) = header_ok (header_set_entries h n []).
Proof. destruct h. reflexivity. Qed.

Lemma bp_section_ok_set h rbas : section_ok h = true -> forallb u32_ok rbas = true ->
  section_ok (header_set_entries h (h_num_entries h) (fst (set_entries_rbas (h_entries h) rbas))) = true.
Proof.
  intros H Hr. unfold section_ok in *. rewrite !andb_true_iff in H. destruct H as [[H1 H2] H3].
  destruct (bp_set_entries_ok (h_entries h) rbas H3 Hr) as [I1 _].
  pose proof (bp_set_entries_length (h_entries h) rbas) as Hl.
  destruct h as [ind pid num ids es]. unfold header_set_entries, header_ok in *.
  cbn [h_indicator h_platform_id h_num_entries h_id_string h_entries] in *.
  rewrite H1, I1. unfold zlen in *. rewrite Hl, H2. reflexivity.
Qed.

Lemma bp_secs_ok : forall ss rbas, forallb section_ok ss = true -> forallb u32_ok rbas = true ->
  forallb section_ok (set_secs_rbas ss rbas) = true.
Proof.
  induction ss as [|h r IH]; intros rbas H Hr; [reflexivity|]. cbn [forallb] in H. apply andb_prop in H.
  destruct H as [H1 H2]. cbn [set_secs_rbas forallb]. rewrite (bp_section_ok_set h rbas H1 Hr).
  apply IH; [exact H2|]. apply (bp_set_entries_ok (h_entries h) rbas); [|exact Hr].
  unfold section_ok in H1. rewrite !andb_true_iff in H1. tauto.
Qed.

Lemma bp_secs_sane : forall ss rbas, sections_sane (set_secs_rbas ss rbas) = sections_sane ss.
Proof.
  induction ss as [|h r IH]; intros rbas; [reflexivity|]. cbn [set_secs_rbas sections_sane].
  rewrite IH. pose proof (bp_set_entries_length (h_entries h) rbas) as Hl.
  destruct h as [ind pid num ids es]. cbn [header_set_entries h_num_entries h_entries h_indicator] in *.
  unfold zlen. rewrite Hl. destruct r; reflexivity.
Qed.

Lemma bp_secs_nrec : forall ss rbas, nrec (set_secs_rbas ss rbas) = nrec ss.
Proof.
  induction ss as [|h r IH]; intros rbas; [reflexivity|]. cbn [set_secs_rbas nrec]. rewrite IH.
  pose proof (bp_set_entries_length (h_entries h) rbas) as Hl. destruct h as [ind pid num ids es].
  cbn [header_set_entries h_entries] in *. rewrite Hl. reflexivity.
Qed.

Lemma bp_secs_clear : forall ss rbas,
  Forall (fun h => Forall (fun e => e_load_rba e = 0) (h_entries h)) ss ->
  map (fun h => header_set_entries h (h_num_entries h) (map (fun e => entry_set_rba e 0) (h_entries h)))
      (set_secs_rbas ss rbas) = ss.
Proof.
  induction ss as [|h r IH]; intros rbas H; [reflexivity|]. inversion H as [|? ? H1 H2]; subst.
  cbn [set_secs_rbas map]. rewrite (IH _ H2). f_equal.
  pose proof (bp_set_entries_clear (h_entries h) rbas H1) as Hc. destruct h as [ind pid num ids es].
  cbn [header_set_entries h_num_entries h_entries h_indicator h_platform_id h_id_string] in *. rewrite Hc. reflexivity.
Qed.

Lemma bp_secs_rbas_of : forall ss rbas, (bp_nent ss <= length rbas)%nat ->
  map e_load_rba (concat (map h_entries (set_secs_rbas ss rbas))) = firstn (bp_nent ss) rbas /\
  map e_sector_count (concat (map h_entries (set_secs_rbas ss rbas))) = map e_sector_count (concat (map h_entries ss)).
Proof.
  unfold bp_nent. induction ss as [|h r IH]; intros rbas Hl; [split; reflexivity|].
  cbn [map concat] in Hl. rewrite app_length in Hl.
  destruct (bp_set_entries_rbas_of (h_entries h) rbas ltac:(lia)) as (E1 & E2 & E3).
  cbn [set_secs_rbas map concat]. rewrite !map_app, app_length.
  assert (Hh : h_entries (header_set_entries h (h_num_entries h) (fst (set_entries_rbas (h_entries h) rbas)))
               = fst (set_entries_rbas (h_entries h) rbas)) by (destruct h; reflexivity).
  rewrite Hh, E1, E3, E2.
  destruct (IH (skipn (length (h_entries h)) rbas)) as [I1 I2]; [rewrite skipn_length; lia|].
  rewrite I1, I2. split; [|reflexivity].
  rewrite <- (firstn_skipn (length (h_entries h)) rbas) at 3.
  rewrite firstn_app, firstn_length, firstn_firstn.
  replace (Nat.min (length (h_entries h) + length (concat (map h_entries r))) (length (h_entries h)))
    with (length (h_entries h)) by lia.
  f_equal. f_equal. lia.
Qed.

(* ---- the catalog ---------------------------------------------------------------------------------------- *)

(* load_rba is 0 everywhere: what new() and add_section() build *)
Definition bp_rba0 (c : et_catalog) : Prop :=
  e_load_rba (c_initial c) = 0 /\
  Forall (fun h => Forall (fun e => e_load_rba e = 0) (h_entries h)) (c_sections c) /\ c_standalone c = [].

Lemma bp_entry_new_rba0 sc seg m st b e : entry_new sc seg m st b = Some e -> e_load_rba e = 0.
Proof.
  unfold entry_new. intros H.
  repeat match type of H with
         | (if ?x then _ else _) = _ => destruct x
         | match ?m with MNoemul => _ | _ => _ end = _ => destruct m
         end; try discriminate; inversion H; reflexivity.
Qed.

Lemma bp_split_last_forall {A} (P : A -> Prop) : forall (l i : list A) x, split_last l = Some (i, x) ->
  Forall P l -> Forall P i /\ P x.
Proof.
  induction l as [|a l IH]; intros i x H HF; [discriminate|]. cbn [split_last] in H. inversion HF; subst.
  destruct (split_last l) as [[i' y]|] eqn:E.
  - inversion H; subst. destruct (IH _ _ eq_refl H3) as [I1 I2]. split; [constructor; assumption|exact I2].
  - inversion H; subst. split; [constructor|assumption].
Qed.

Lemma bp_built_rba0 c ab : built c ab -> bp_rba0 c.
Proof.
  induction 1 as [sc ls m st pid b c Hn|c ab sc ls m st efi b c' Hb IH Hadd].
  - unfold cat_new in Hn. destruct (val_new pid); [|discriminate].
    destruct (entry_new sc ls m st b) as [en|] eqn:He; [|discriminate]. inversion Hn; subst.
    split; [exact (bp_entry_new_rba0 _ _ _ _ _ _ He)|]. split; [constructor|reflexivity].
  - destruct IH as (I1 & I2 & I3). unfold cat_add_section in Hadd.
    destruct (zlen (c_sections c) =? 31); [discriminate|].
    destruct (entry_new sc ls m st b) as [en|] eqn:He; [|discriminate]. inversion Hadd; subst.
    cbn [c_initial c_sections c_standalone]. split; [exact I1|]. split; [|exact I3].
    apply Forall_app. split.
    + destruct (split_last (c_sections c)) as [[i l]|] eqn:E; [|exact I2].
      destruct (bp_split_last_forall _ _ _ _ E I2) as [J1 J2]. apply Forall_app. split; [exact J1|].
      constructor; [|constructor]. destruct l. exact J2.
    + constructor; [|constructor]. cbn. constructor; [|constructor]. exact (bp_entry_new_rba0 _ _ _ _ _ _ He).
Qed.

(* the number of entries of a catalog made by new() and add_section(): one per section, plus the initial one *)
Lemma bp_built_nent c ab : built c ab -> length (cat_entries c) = S (length (c_sections c)).
Proof.
  intros H. destruct (built_inv c ab H) as [Hi _].
  destruct (cat_inv_inv c Hi) as (_ & _ & H3 & _ & _ & H6 & _).
  unfold cat_entries. cbn [length]. f_equal.
  induction (c_sections c) as [|h r IH]; [reflexivity|]. cbn [forallb] in H3, H6.
  apply andb_prop in H3. apply andb_prop in H6. destruct H3 as [A1 A2]. destruct H6 as [B1 B2].
  cbn [map concat length]. rewrite app_length, (IH A2 B2).
  unfold section_ok in A1. rewrite !andb_true_iff in A1. destruct A1 as [[_ A1] _]. unfold zlen in A1. lia.
Qed.

Theorem bp_cat_roundtrip c ab rbas : built c ab -> forallb u32_ok rbas = true ->
  length rbas = length (cat_entries c) ->
  let c' := cat_set_rbas c rbas in
  parse_catalog_extent (cat_extent_bytes c') = Some c' /\
  cat_clear_rbas c' = c /\
  map e_load_rba (cat_entries c') = rbas /\
  map e_sector_count (cat_entries c') = cat_scs c /\
  length (cat_bytes c') = length (cat_bytes c).
Proof.
  intros Hb Hr Hl c'. destruct (built_inv c ab Hb) as [Hi _].
  destruct (cat_inv_inv c Hi) as (H1 & H2 & H3 & H4 & H5 & H6 & H7).
  destruct (bp_built_rba0 c ab Hb) as (Z1 & Z2 & Z3).
  unfold cat_entries in Hl. cbn [length] in Hl. destruct rbas as [|x rb]; [discriminate|].
  cbn [length] in Hl. cbn [forallb] in Hr. apply andb_prop in Hr. destruct Hr as [Hx Hrb].
  subst c'. unfold cat_set_rbas.
  assert (Hlen : length (cat_bytes (mk_cat (c_validation c) (entry_set_rba (c_initial c) x)
                                          (set_secs_rbas (c_sections c) rb) (c_standalone c)))
                 = length (cat_bytes c)).
  { rewrite !cat_bytes_length. cbn [c_sections c_standalone]. rewrite bp_secs_nrec. reflexivity. }
  split; [|split; [|split; [|split]]].
  - rewrite <- (app_nil_r (cat_extent_bytes _)). apply cat_extent_roundtrip.
    + pose proof (cat_inv_wf c Hi) as Hw. unfold cat_wf in Hw. rewrite !andb_true_iff in Hw.
      destruct Hw as [[[_ Hs] _] _].
      unfold cat_wf. cbn [c_validation c_initial c_sections c_standalone].
      rewrite H1, (bp_entry_ok_set _ _ H2 Hx), (bp_secs_ok _ _ H3 Hrb), bp_secs_sane, Hs, H7. reflexivity.
    + rewrite Hlen. apply (cat_inv_fits c Hi).
  - unfold cat_clear_rbas. cbn [c_validation c_initial c_sections c_standalone].
    rewrite (bp_entry_clear_set _ _ Z1), (bp_secs_clear _ _ Z2), Z3. destruct c. cbn in *. subst. reflexivity.
  - unfold cat_entries. cbn [c_initial c_sections map].
    assert (Hn : (bp_nent (c_sections c) <= length rb)%nat) by (unfold bp_nent; lia).
    destruct (bp_secs_rbas_of _ _ Hn) as [E1 _]. rewrite E1. unfold bp_nent.
    replace (length (concat (map h_entries (c_sections c)))) with (length rb) by lia.
    rewrite firstn_all. destruct (c_initial c); reflexivity.
  - unfold cat_scs, cat_entries. cbn [c_initial c_sections map].
    assert (Hn : (bp_nent (c_sections c) <= length rb)%nat) by (unfold bp_nent; lia).
    destruct (bp_secs_rbas_of _ _ Hn) as [_ E2]. rewrite E2. destruct (c_initial c); reflexivity.
  - exact Hlen.
Qed.

Print Assumptions bp_cat_roundtrip.
