(* Proofs/NlinkProofs.v -- Rock Ridge directory link counts (C08): invariant over arbitrary
   histories of add_directory / rm_directory and the '..' refresh of the recomputation pass. *)
From Coq Require Import ZArith List Bool Lia.
Import ListNotations.
From PV.Model Require Import Nlink.
Local Open Scope Z_scope.

Arguments nsubp : simpl never.
Arguments is_child_of : simpl never.
Arguments removelast : simpl never.
Arguments peq : simpl never.
Arguments find_node : simpl never.

Ltac nsimpl := cbn [bump unbump add_dot add_entry add_dotdot sub_dot sub_entry sub_dotdot
                    set_dotdot path entry_links dot_links dotdot_links] in *.

(* ---------- paths ---------- *)
Lemma is_child_spec q p : is_child_of q p = true <-> (p <> [] /\ removelast p = q).
Proof.
  unfold is_child_of. destruct p as [|x p'].
  - split; [discriminate | intros [H _]; congruence].
  - destruct (peq (removelast (x :: p')) q) as [E|E]; split; intros H.
    + split; [discriminate | exact E].
    + reflexivity.
    + discriminate.
    + destruct H as [_ H]; contradiction.
Qed.

Lemma removelast_neq (p : list Z) : p <> [] -> removelast p <> p.
Proof.
  intros Hp E. pose proof (@app_removelast_last Z p 0 Hp) as H.
  rewrite E in H. apply (f_equal (@length Z)) in H. rewrite app_length in H.
  simpl in H. lia.
Qed.

Lemma is_child_self p : is_child_of p p = false.
Proof.
  destruct (is_child_of p p) eqn:E; [|reflexivity].
  apply is_child_spec in E. destruct E as [Hp E]. exfalso. exact (removelast_neq p Hp E).
Qed.

Lemma is_child_parent p : p <> [] -> is_child_of (removelast p) p = true.
Proof. intros Hp. apply is_child_spec. split; [exact Hp | reflexivity]. Qed.

Lemma is_child_other q p : removelast p <> q -> is_child_of q p = false.
Proof.
  intros Hq. destruct (is_child_of q p) eqn:E; [|reflexivity].
  apply is_child_spec in E. destruct E as [_ E]. contradiction.
Qed.

Lemma nsubp_cons p ps q :
  nsubp (p :: ps) q = nsubp ps q + (if is_child_of q p then 1 else 0).
Proof.
  unfold nsubp. simpl filter. destruct (is_child_of q p).
  - simpl length. rewrite Nat2Z.inj_succ. lia.
  - lia.
Qed.

Lemma nsubp_zero ps q :
  (forall p, In p ps -> is_child_of q p = false) -> nsubp ps q = 0.
Proof.
  induction ps as [|a ps IH]; intros H.
  - reflexivity.
  - rewrite nsubp_cons, IH.
    + rewrite (H a (or_introl eq_refl)). reflexivity.
    + intros p Hp. apply H. right. exact Hp.
Qed.

Definition neqb (p x : list Z) : bool := if peq x p then false else true.

Lemma filter_notin p ps : ~ In p ps -> filter (neqb p) ps = ps.
Proof.
  induction ps as [|a ps IH]; intros H.
  - reflexivity.
  - simpl. unfold neqb at 1. destruct (peq a p) as [E|E].
    + exfalso. apply H. left. exact E.
    + rewrite IH; [reflexivity|]. intros Hin. apply H. right. exact Hin.
Qed.

Lemma nsubp_remove p ps q :
  NoDup ps -> In p ps ->
  nsubp (filter (neqb p) ps) q = nsubp ps q - (if is_child_of q p then 1 else 0).
Proof.
  induction ps as [|a ps IH]; intros Hnd Hin.
  - destruct Hin.
  - inversion Hnd as [|a' ps' Hna Hnd']; subst a' ps'.
    simpl filter. unfold neqb at 1. destruct (peq a p) as [E|E].
    + subst a. rewrite (filter_notin p ps Hna), nsubp_cons. lia.
    + destruct Hin as [Hin|Hin]; [contradiction|].
      rewrite !nsubp_cons, (IH Hnd' Hin). lia.
Qed.

Lemma filter_neqb_In p ps x : In x (filter (neqb p) ps) <-> In x ps /\ x <> p.
Proof.
  rewrite filter_In. unfold neqb. destruct (peq x p) as [E|E].
  - split; intros [H1 H2]; [discriminate | contradiction].
  - split; intros [H1 H2]; split; auto.
Qed.

(* ---------- nodes ---------- *)
Lemma paths_map (g : node -> node) s :
  (forall n, path (g n) = path n) -> paths (map g s) = paths s.
Proof.
  intros H. unfold paths. rewrite map_map. apply map_ext. exact H.
Qed.

Lemma paths_map_node s q f :
  (forall n, path (f n) = path n) -> paths (map_node s q f) = paths s.
Proof.
  intros H. unfold map_node. apply paths_map. intros n.
  destruct (peq (path n) q); [apply H | reflexivity].
Qed.

Lemma In_map_node s q f n' :
  In n' (map_node s q f) -> exists n, In n s /\ n' = (if peq (path n) q then f n else n).
Proof.
  unfold map_node. intros H. apply in_map_iff in H. destruct H as [n [E Hn]].
  exists n. split; [exact Hn | symmetry; exact E].
Qed.

Lemma paths_filter p s :
  paths (filter (fun n => if peq (path n) p then false else true) s) = filter (neqb p) (paths s).
Proof.
  induction s as [|a s IH]; [reflexivity|].
  simpl. unfold neqb at 1. destruct (peq (path a) p); simpl; rewrite IH; reflexivity.
Qed.

Lemma path_bump q n : path (bump q n) = path n.
Proof. destruct q; reflexivity. Qed.
Lemma path_unbump q n : path (unbump q n) = path n.
Proof. destruct q; reflexivity. Qed.

Lemma find_node_some s q n : find_node s q = Some n -> In n s /\ path n = q.
Proof.
  unfold find_node. intros H. apply find_some in H. destruct H as [H1 H2].
  split; [exact H1|]. destruct (peq (path n) q); [assumption | discriminate].
Qed.

Lemma find_node_in s q : In q (paths s) -> exists n, find_node s q = Some n.
Proof.
  unfold find_node. induction s as [|a s IH]; intros H.
  - destruct H.
  - simpl. destruct (peq (path a) q) as [E|E].
    + exists a. reflexivity.
    + destruct H as [H|H]; [contradiction|]. apply IH. exact H.
Qed.

Lemma has_node_iff s q : has_node s q = true <-> In q (paths s).
Proof.
  unfold has_node. split.
  - destruct (find_node s q) as [n|] eqn:E; [|discriminate]. intros _.
    apply find_node_some in E. destruct E as [H1 H2]. subst q.
    unfold paths. apply in_map. exact H1.
  - intros H. destruct (find_node_in s q H) as [n E]. rewrite E. reflexivity.
Qed.

Lemma has_node_false s q : has_node s q = false -> ~ In q (paths s).
Proof.
  intros H Hin. apply has_node_iff in Hin. rewrite H in Hin. discriminate.
Qed.

Lemma find_node_map (g : node -> node) s q :
  (forall n, path (g n) = path n) ->
  find_node (map g s) q = option_map g (find_node s q).
Proof.
  intros H. unfold find_node. induction s as [|a s IH]; [reflexivity|].
  simpl. rewrite H. destruct (peq (path a) q); [reflexivity | exact IH].
Qed.

Lemma has_subdir_false s p :
  has_subdir s p = false -> forall p', In p' (paths s) -> is_child_of p p' = false.
Proof.
  unfold has_subdir. intros H p' Hin.
  destruct (is_child_of p p') eqn:E; [|reflexivity].
  assert (existsb (is_child_of p) (paths s) = true) as H'.
  { apply existsb_exists. exists p'. split; assumption. }
  rewrite H in H'. discriminate.
Qed.

(* ---------- the invariant ---------- *)
Definition wf (ps : list (list Z)) : Prop :=
  NoDup ps /\ In [] ps /\ (forall p, In p ps -> p <> [] -> In (removelast p) ps).

Definition okn (ps : list (list Z)) (n : node) : Prop :=
  dot_links n = 2 + nsubp ps (path n) /\
  (path n = [] -> dotdot_links n = dot_links n) /\
  (path n <> [] -> entry_links n = dot_links n).

(* paths are unique, the root exists, every parent exists, and every directory carries
   2 + #sub-directories on its '.' and on its own record (root: on '.' and '..') *)
Definition Inv (s : state) : Prop :=
  wf (paths s) /\ forall n, In n s -> okn (paths s) n.

Lemma Inv_counts s n :
  Inv s -> In n s ->
  dot_links n = 2 + nsub s (path n) /\
  (path n = [] -> dotdot_links n = 2 + nsub s (path n)) /\
  (path n <> [] -> entry_links n = 2 + nsub s (path n)).
Proof.
  intros [_ HG] Hin. destruct (HG n Hin) as [H1 [H2 H3]]. unfold nsub.
  split; [exact H1|]. split; intros Hp.
  - rewrite (H2 Hp). exact H1.
  - rewrite (H3 Hp). exact H1.
Qed.

Theorem Inv_init : Inv init.
Proof.
  split.
  - split; [|split].
    + simpl. constructor; [intros []|constructor].
    + simpl. left. reflexivity.
    + intros p [H|[]] Hp. subst p. contradiction.
  - intros n [H|[]]. subst n. unfold okn. nsimpl.
    split; [vm_compute; reflexivity|]. split; [intros _; reflexivity|].
    intros H; contradiction.
Qed.

(* ---------- one step: the three possible outcomes ---------- *)
Definition rm_filter (p : list Z) (s : state) : state :=
  filter (fun n => if peq (path n) p then false else true) s.

Lemma step_cases s o :
  (step s o = s /\ accepts s o = false) \/
  (exists p q, o = AddDir p /\ p <> [] /\ q = removelast p /\ In q (paths s) /\
     ~ In p (paths s) /\ accepts s o = true /\
     step s o = new_node (map_node s q (bump q)) p q :: map_node s q (bump q)) \/
  (exists p q, o = RmDir p /\ p <> [] /\ q = removelast p /\ In p (paths s) /\
     has_subdir s p = false /\ accepts s o = true /\
     step s o = rm_filter p (map_node s q (unbump q))).
Proof.
  destruct o as [p|p]; destruct p as [|x p'].
  - left. auto.
  - unfold step, accepts. cbv beta iota zeta.
    destruct (max_depth <? length (x :: p'))%nat; [left; auto|].
    destruct (has_node s (removelast (x :: p'))) eqn:Hq; [|left; auto].
    apply has_node_iff in Hq.
    destruct (has_node s (x :: p')) eqn:Hp; [left; auto|].
    apply has_node_false in Hp. right. left.
    exists (x :: p'), (removelast (x :: p')).
    repeat split; auto. discriminate.
  - left. auto.
  - unfold step, accepts. cbv beta iota zeta.
    destruct (has_node s (x :: p')) eqn:Hp; [|left; auto].
    apply has_node_iff in Hp.
    destruct (has_subdir s (x :: p')) eqn:Hs; [left; auto|].
    right. right.
    exists (x :: p'), (removelast (x :: p')).
    repeat split; auto. discriminate.
Qed.

(* every refused operation (missing parent, duplicate name, missing or non-empty directory,
   the root, depth > 7) leaves the state unchanged *)
Theorem step_refused_unchanged s o : accepts s o = false -> step s o = s.
Proof.
  intros Ha.
  destruct (step_cases s o) as [[H _]|[H|H]]; [exact H| |];
    destruct H as [p [q [_ [_ [_ [_ [_ [Ha' _]]]]]]]]; congruence.
Qed.

Lemma okn_bump ps p q n :
  p <> [] -> q = removelast p -> okn ps n ->
  okn (p :: ps) (if peq (path n) q then bump q n else n).
Proof.
  intros Hp Hq [H1 [H2 H3]]. unfold okn.
  destruct (peq (path n) q) as [E|E].
  - rewrite path_bump, nsubp_cons, E, Hq, (is_child_parent p Hp), <- Hq.
    rewrite <- E in *. destruct n as [pn e d dd]. nsimpl.
    destruct pn as [|z pn']; nsimpl.
    + split; [lia|]. split; [intros _; rewrite (H2 eq_refl); reflexivity|].
      intros H; contradiction.
    + split; [lia|]. split; [intros H; discriminate|].
      intros _; rewrite H3; [reflexivity|discriminate].
  - rewrite nsubp_cons, (is_child_other (path n) p); [|congruence].
    split; [lia|]. split; [exact H2 | exact H3].
Qed.

Lemma add_ok s p q :
  Inv s -> p <> [] -> q = removelast p -> In q (paths s) -> ~ In p (paths s) ->
  Inv (new_node (map_node s q (bump q)) p q :: map_node s q (bump q)).
Proof.
  intros [[Hnd [Hroot Hcl]] HG] Hp Hq Hqin Hpnot.
  assert (paths (map_node s q (bump q)) = paths s) as HP
    by (apply paths_map_node; apply path_bump).
  assert (paths (new_node (map_node s q (bump q)) p q :: map_node s q (bump q)) = p :: paths s)
    as HP' by (unfold paths at 1; simpl; f_equal; exact HP).
  split.
  - rewrite HP'. split; [|split].
    + constructor; assumption.
    + right. exact Hroot.
    + intros p0 [H|H] Hne.
      * subst p0. right. rewrite <- Hq. exact Hqin.
      * right. apply Hcl; assumption.
  - rewrite HP'. intros n' [H|H].
    + subst n'. unfold okn, new_node, px_new. nsimpl.
      rewrite nsubp_cons, is_child_self, nsubp_zero.
      * split; [reflexivity|]. split; [intros H; contradiction|].
        intros _; reflexivity.
      * intros p' Hin. destruct (is_child_of p p') eqn:E; [|reflexivity].
        apply is_child_spec in E. destruct E as [Hne E]. exfalso. apply Hpnot.
        rewrite <- E. apply Hcl; assumption.
    + apply In_map_node in H. destruct H as [n [Hin E]]. subst n'.
      apply okn_bump; auto.
Qed.

Lemma okn_unbump ps p q n :
  NoDup ps -> In p ps -> p <> [] -> q = removelast p -> okn ps n ->
  okn (filter (neqb p) ps) (if peq (path n) q then unbump q n else n).
Proof.
  intros Hnd Hin Hp Hq [H1 [H2 H3]]. unfold okn.
  destruct (peq (path n) q) as [E|E].
  - rewrite path_unbump, (nsubp_remove p ps _ Hnd Hin), E, Hq,
      (is_child_parent p Hp), <- Hq.
    rewrite <- E in *. destruct n as [pn e d dd]. nsimpl.
    destruct pn as [|z pn']; nsimpl.
    + split; [lia|]. split; [intros _; rewrite (H2 eq_refl); reflexivity|].
      intros H; contradiction.
    + split; [lia|]. split; [intros H; discriminate|].
      intros _; rewrite H3; [reflexivity|discriminate].
  - rewrite (nsubp_remove p ps _ Hnd Hin), (is_child_other (path n) p); [|congruence].
    split; [lia|]. split; [exact H2 | exact H3].
Qed.

Lemma rm_ok s p q :
  Inv s -> p <> [] -> q = removelast p -> In p (paths s) -> has_subdir s p = false ->
  Inv (rm_filter p (map_node s q (unbump q))).
Proof.
  intros [[Hnd [Hroot Hcl]] HG] Hp Hq Hpin Hsub.
  assert (paths (rm_filter p (map_node s q (unbump q))) = filter (neqb p) (paths s)) as HP.
  { unfold rm_filter. rewrite paths_filter, paths_map_node; [reflexivity | apply path_unbump]. }
  split.
  - rewrite HP. split; [|split].
    + apply NoDup_filter. exact Hnd.
    + apply filter_neqb_In. split; [exact Hroot | congruence].
    + intros p0 H Hne. apply filter_neqb_In in H. destruct H as [H Hnp].
      apply filter_neqb_In. split; [apply Hcl; assumption|].
      intros E. pose proof (has_subdir_false s p Hsub p0 H) as Hc.
      rewrite <- E, (is_child_parent p0 Hne) in Hc. discriminate.
  - rewrite HP. intros n' H. unfold rm_filter in H. apply filter_In in H. destruct H as [H _].
    apply In_map_node in H. destruct H as [n [Hin E]]. subst n'.
    apply okn_unbump; auto.
Qed.

(* Theorem 1 *)
Theorem Inv_step s o : Inv s -> Inv (step s o).
Proof.
  intros HI. destruct (step_cases s o) as [[H _]|[H|H]].
  - rewrite H. exact HI.
  - destruct H as [p [q [_ [Hp [Hq [Hqin [Hpn [_ E]]]]]]]]. rewrite E. apply add_ok; assumption.
  - destruct H as [p [q [_ [Hp [Hq [Hpin [Hs [_ E]]]]]]]]. rewrite E. apply rm_ok; assumption.
Qed.

Lemma Inv_run_from ops : forall s, Inv s -> Inv (run s ops).
Proof.
  induction ops as [|o r IH]; intros s H; [exact H|].
  simpl. apply IH. apply Inv_step. exact H.
Qed.

Theorem Inv_run : forall ops, Inv (run init ops).
Proof. intros ops. apply Inv_run_from. exact Inv_init. Qed.

(* ---------- the '..' refresh ---------- *)
Lemma refresh_fields s n :
  path (refresh s n) = path n /\ entry_links (refresh s n) = entry_links n /\
  dot_links (refresh s n) = dot_links n.
Proof.
  unfold refresh. destruct (path n) as [|z l] eqn:E.
  - rewrite E. auto.
  - destruct (find_node s (removelast (z :: l))); simpl; rewrite ?E; auto.
Qed.

Lemma refresh_path s n : path (refresh s n) = path n.
Proof. apply refresh_fields. Qed.

Lemma refresh_root s n : path n = [] -> refresh s n = n.
Proof. intros E. unfold refresh. rewrite E. reflexivity. Qed.

Lemma refresh_nonroot s n pn :
  path n <> [] -> find_node s (removelast (path n)) = Some pn ->
  refresh s n = set_dotdot n (match removelast (path n) with
                              | [] => dot_links pn | _ => entry_links pn end).
Proof.
  intros Hne Hf. unfold refresh. destruct (path n) as [|z l] eqn:E; [congruence|].
  rewrite Hf. reflexivity.
Qed.

Lemma refresh_orphan s n :
  find_node s (removelast (path n)) = None -> refresh s n = n.
Proof.
  intros Hf. unfold refresh. destruct (path n) as [|z l] eqn:E; [reflexivity|].
  rewrite Hf. reflexivity.
Qed.

Lemma paths_reshuffle s : paths (reshuffle s) = paths s.
Proof. unfold reshuffle. apply paths_map. apply refresh_path. Qed.

Lemma nsub_reshuffle s q : nsub (reshuffle s) q = nsub s q.
Proof. unfold nsub. rewrite paths_reshuffle. reflexivity. Qed.

Lemma find_node_reshuffle s q :
  find_node (reshuffle s) q = option_map (refresh s) (find_node s q).
Proof. unfold reshuffle. apply find_node_map. apply refresh_path. Qed.

(* reshuffle touches nothing but '..' counts ... *)
Definition strip (n : node) := (path n, entry_links n, dot_links n).

Theorem reshuffle_only_dotdot s : map strip (reshuffle s) = map strip s.
Proof.
  unfold reshuffle. rewrite map_map. apply map_ext. intros n. unfold strip.
  destruct (refresh_fields s n) as [H1 [H2 H3]]. rewrite H1, H2, H3. reflexivity.
Qed.

(* ... and not the root's '..' *)
Theorem reshuffle_root_unchanged s n :
  find_node s [] = Some n -> find_node (reshuffle s) [] = Some n.
Proof.
  intros H. rewrite find_node_reshuffle, H. simpl. f_equal.
  apply refresh_root. apply find_node_some in H. apply H.
Qed.

(* Theorem 2: after reshuffle every non-root '..' carries its parent's count record *)
Theorem reshuffle_dotdot s n :
  wf (paths s) -> In n (reshuffle s) -> path n <> [] ->
  exists pn, find_node (reshuffle s) (removelast (path n)) = Some pn /\
             path pn = removelast (path n) /\
             dotdot_links n = match path pn with [] => dot_links pn | _ => entry_links pn end.
Proof.
  intros [_ [_ Hcl]] Hin Hne. unfold reshuffle in Hin. apply in_map_iff in Hin.
  destruct Hin as [n0 [E Hin0]]. subst n.
  rewrite refresh_path in *.
  assert (In (path n0) (paths s)) as Hp by (unfold paths; apply in_map; exact Hin0).
  destruct (find_node_in s _ (Hcl _ Hp Hne)) as [pn Hf].
  exists (refresh s pn). rewrite find_node_reshuffle, Hf. simpl.
  destruct (refresh_fields s pn) as [H1 [H2 H3]].
  pose proof (find_node_some _ _ _ Hf) as [_ Hpp].
  split; [reflexivity|]. split; [congruence|].
  rewrite (refresh_nonroot s n0 pn Hne Hf), H1, H2, H3, Hpp. reflexivity.
Qed.

Lemma refresh_idem s n : refresh (reshuffle s) (refresh s n) = refresh s n.
Proof.
  destruct (path n) as [|z l] eqn:E.
  - rewrite (refresh_root s n E). apply refresh_root. exact E.
  - assert (path n <> []) as Hne by congruence.
    destruct (find_node s (removelast (path n))) as [pn|] eqn:Hf.
    + rewrite (refresh_nonroot s n pn Hne Hf).
      set (v := match removelast (path n) with [] => dot_links pn | _ :: _ => entry_links pn end).
      assert (path (set_dotdot n v) = path n) as Hp by reflexivity.
      assert (find_node (reshuffle s) (removelast (path (set_dotdot n v))) = Some (refresh s pn))
        as Hf' by (rewrite Hp, find_node_reshuffle, Hf; reflexivity).
      rewrite (refresh_nonroot (reshuffle s) (set_dotdot n v) (refresh s pn));
        [|rewrite Hp; exact Hne | exact Hf'].
      destruct (refresh_fields s pn) as [_ [H2 H3]]. rewrite Hp, H2, H3. reflexivity.
    + rewrite (refresh_orphan s n Hf). apply refresh_orphan.
      rewrite find_node_reshuffle, Hf. reflexivity.
Qed.

Theorem reshuffle_idempotent s : reshuffle (reshuffle s) = reshuffle s.
Proof.
  unfold reshuffle at 1. unfold reshuffle at 2 3. rewrite map_map. apply map_ext.
  intros n. apply refresh_idem.
Qed.

Lemma Inv_reshuffle s : Inv s -> Inv (reshuffle s).
Proof.
  intros [Hwf HG]. split; rewrite paths_reshuffle; [exact Hwf|].
  intros n' H. unfold reshuffle in H. apply in_map_iff in H. destruct H as [n [E Hin]]. subst n'.
  destruct (HG n Hin) as [H1 [H2 H3]].
  destruct (refresh_fields s n) as [F1 [F2 F3]]. unfold okn.
  rewrite F1, F2, F3. split; [exact H1|]. split; [|assumption].
  intros Hr. rewrite (refresh_root s n Hr). apply H2. exact Hr.
Qed.

(* ---------- Theorem 3 ---------- *)
(* what an independent reader expects as st_nlink on the three records of every directory *)
Definition nlink_ok (s : state) : Prop :=
  forall n, In n s ->
    dot_links n = 2 + nsub s (path n) /\
    (path n = [] -> dotdot_links n = 2 + nsub s []) /\
    (path n <> [] ->
       entry_links n = 2 + nsub s (path n) /\
       exists pn, find_node s (removelast (path n)) = Some pn /\
                  path pn = removelast (path n) /\
                  dotdot_links n = 2 + nsub s (path pn)).

Lemma Inv_nlink_ok r : Inv r -> nlink_ok (reshuffle r).
Proof.
  intros HI. pose proof (Inv_reshuffle r HI) as [Hwf HG].
  intros n Hin. destruct (HG n Hin) as [H1 [H2 H3]]. unfold nsub.
  split; [exact H1|]. split.
  - intros Hr. rewrite (H2 Hr), H1, Hr. reflexivity.
  - intros Hne. split; [rewrite (H3 Hne); exact H1|].
    destruct HI as [Hwf0 _].
    destruct (reshuffle_dotdot r n Hwf0 Hin Hne) as [pn [Hf [Hp Hd]]].
    exists pn. split; [exact Hf|]. split; [exact Hp|].
    pose proof (find_node_some _ _ _ Hf) as [Hpin _].
    destruct (HG pn Hpin) as [P1 [_ P3]]. rewrite Hd.
    destruct (path pn) as [|z l] eqn:E.
    + rewrite P1, ?E. reflexivity.
    + rewrite P3, P1, ?E; [reflexivity | rewrite ?E; discriminate].
Qed.

Theorem C08_nlink : forall ops, nlink_ok (reshuffle (run init ops)).
Proof. intros ops. apply Inv_nlink_ok. apply Inv_run. Qed.

(* ---------- examples, expected values printed by the real library ---------- *)
Example nlink_ex1 :
  run_probe [AddDir [1]; AddDir [2]; AddDir [1;1]; AddDir [1;2]; AddDir [1;1;1]] =
  [([], 0, 4, 4); ([1], 4, 4, 4); ([1;1], 3, 3, 4); ([1;1;1], 2, 2, 3); ([1;2], 2, 2, 4);
   ([2], 2, 2, 4)].
Proof. vm_compute. reflexivity. Qed.

Example nlink_ex2 :
  run_probe [AddDir [1]; AddDir [1;1]; AddDir [2]; AddDir [1;2]; RmDir [1;1]; AddDir [2;5]] =
  [([], 0, 4, 4); ([1], 3, 3, 4); ([1;2], 2, 2, 3); ([2], 3, 3, 4); ([2;5], 2, 2, 3)].
Proof. vm_compute. reflexivity. Qed.

Example nlink_ex3 :
  run_probe [AddDir [1]; AddDir [1;1]; AddDir [1;1;1]; AddDir [1;1;2]; AddDir [1;2];
             RmDir [1;1;1]; RmDir [3]] =
  [([], 0, 3, 3); ([1], 4, 4, 3); ([1;1], 3, 3, 4); ([1;1;2], 2, 2, 3); ([1;2], 2, 2, 4)].
Proof. vm_compute. reflexivity. Qed.

(* stale '..' before the recomputation pass (records walked directly, no force_consistency) *)
Example nlink_ex1_raw :
  run_probe_raw [AddDir [1]; AddDir [2]; AddDir [1;1]; AddDir [1;2]; AddDir [1;1;1]] =
  [([], 0, 4, 4); ([1], 4, 4, 3); ([1;1], 3, 3, 3); ([1;1;1], 2, 2, 3); ([1;2], 2, 2, 4);
   ([2], 2, 2, 4)].
Proof. vm_compute. reflexivity. Qed.

(* a refused duplicate add_directory ('Failed adding duplicate name to parent') leaves the
   counts alone: the root holds 3 = 2 + one sub-directory (the library before the repair of
   add_directory left 4 here) *)
Example nlink_ex_dup :
  run_probe [AddDir [1]; AddDir [1]] = [([], 0, 3, 3); ([1], 2, 2, 3)].
Proof. vm_compute. reflexivity. Qed.

Example nlink_ex_dup2 :
  run_probe [AddDir [1]; AddDir [1;1]; AddDir [1;1]; AddDir [1;1]] =
  [([], 0, 3, 3); ([1], 3, 3, 3); ([1;1], 2, 2, 3)].
Proof. vm_compute. reflexivity. Qed.

Print Assumptions Inv_init.
Print Assumptions Inv_step.
Print Assumptions Inv_run.
Print Assumptions step_refused_unchanged.
Print Assumptions reshuffle_dotdot.
Print Assumptions reshuffle_only_dotdot.
Print Assumptions reshuffle_root_unchanged.
Print Assumptions reshuffle_idempotent.
Print Assumptions C08_nlink.
