(* Byte-level facts for Model/InPlace.v: which bytes of a re-recorded directory record / UDF File Entry /
   volume descriptor can differ from the bytes recorded before set_data_length(length).
     ip_crc_ccitt_range_any     the table-driven CRC of ANY list is a 16-bit value
     ip_dr_set_len_some / ip_dr_diff       directory record: record() still succeeds; only bytes 10..17 differ
     ip_fe_set_len_wf                      set_data_length on a canonical File Entry with the same sector count
     ip_fe_record_some / ip_fe_diff        File Entry: record() still succeeds; only bytes 4, 8..9, 56..63 and
                                           the length words of the allocation descriptors differ
     ip_vd_diff                            volume descriptor: only the modification date 830..846 differs *)
From Coq Require Import ZArith List Bool Lia ZifyBool.
From PV.Base Require Import Prim.
From PV.Gen Require Import GenConst GenFun.
From PV.Model Require Import Codec Checksums Udf InPlace.
From PV.Proofs Require Import ChecksumsProofs ChecksumsArithProofs CodecProofs UdfProofs UdfFeProofs InPlaceImgProofs.
Import ListNotations.
Local Open Scope Z_scope.
Ltac Zify.zify_post_hook ::= Z.to_euclidean_division_equations.

Ltac se_build :=
  repeat first [ apply ip_se_refl | eassumption | apply ip_se_app | (apply ip_se_all; reflexivity) ].

(* ---- crc_ccitt of any list ---- *)
Lemma ip_crc_table_range : forallb (fun v => (0 <=? v) && (v <? 65536)) crc_ccitt_table = true.
Proof. vm_compute. reflexivity. Qed.

Lemma ip_crc16_tstep_range crc x : 0 <= crc16_tstep crc x < 65536.
Proof.
  unfold crc16_tstep. change 65536 with (2 ^ 16). apply lxor_bound; [lia| |].
  - unfold znth. set (k := Z.to_nat _).
    destruct (Nat.lt_ge_cases k (length crc_ccitt_table)) as [H|H].
    + pose proof (proj1 (forallb_forall _ _) ip_crc_table_range _ (nth_In _ 0 H)) as Hr.
      cbv beta in Hr. change (2 ^ 16) with 65536. lia.
    + rewrite nth_overflow by exact H. lia.
  - change 65280 with (Z.shiftl (Z.ones 8) 8). rewrite <- Z.shiftl_land, Z.land_ones, Z.shiftl_mul_pow2 by lia.
    change (2 ^ 8) with 256. change (2 ^ 16) with 65536. lia.
Qed.

Theorem ip_crc_ccitt_range_any data : 0 <= crc_ccitt data < 65536.
Proof.
  rewrite crc_ccitt_unfold. destruct data as [|x data] using rev_ind; [cbn; lia|].
  rewrite fold_left_app. cbn [fold_left]. apply ip_crc16_tstep_range.
Qed.

(* ---- directory record ---- *)
Lemma ip_dr_set_len_some dl lf r n b : enc_dr_raw dl lf r = Some b -> 0 <= n <= 4294967295 ->
  exists b', enc_dr_raw dl lf (dr_set_len r n) = Some b'.
Proof.
  rewrite !enc_dr_raw_eq. destruct r as [xa ex dlen dt fl us gs sq id su].
  unfold dr_ranges_ok, dr_set_len. cbn [xattr_len extent data_len date flags unit_size gap_size seqnum ident sysuse].
  destruct (u8_ok dl && u8_ok xa && u32_ok ex && u32_ok dlen && u8_ok fl && u8_ok us && u8_ok gs && u16_ok sq && u8_ok lf)
    eqn:E; [|discriminate].
  intros _ Hn.
  replace (u8_ok dl && u8_ok xa && u32_ok ex && u32_ok n && u8_ok fl && u8_ok us && u8_ok gs && u16_ok sq && u8_ok lf)
    with true by (unfold u8_ok, u16_ok, u32_ok in *; lia).
  eexists. reflexivity.
Qed.

Lemma ip_dr_diff dl lf r n b b' : enc_dr_raw dl lf r = Some b -> enc_dr_raw dl lf (dr_set_len r n) = Some b' ->
  same_except (fun i => (10 <= i < 18)%nat) b b'.
Proof.
  rewrite !enc_dr_raw_eq. destruct (dr_ranges_ok dl lf r); [|discriminate].
  destruct (dr_ranges_ok dl lf (dr_set_len r n)); [|discriminate].
  intros H1 H2. apply some_inv in H1. apply some_inv in H2. subst b b'.
  destruct r as [xa ex dlen dt fl us gs sq id su].
  unfold dr_set_len, dr_fields, pad2.
  cbn [xattr_len extent data_len date flags unit_size gap_size seqnum ident sysuse concat].
  eapply ip_se_weaken; [se_build|].
  cbv beta. intros i Hi. cbn [length le32] in Hi. lia.
Qed.

Lemma ip_dr_data_len_set r n : data_len (dr_set_len r n) = n.
Proof. reflexivity. Qed.

(* ---- allocation descriptors ---- *)
Inductive ad_relen : ad -> ad -> Prop :=
  ad_relen_short a l : 0 <= l <= 1073741823 -> sa_type a = 0 ->
                       ad_relen (ADShort a) (ADShort (mk_shortad l (sa_type a) (sa_pos a))).

(* byte j of the descriptor area belongs to the length word of one of n short descriptors *)
Definition ad_len_pos (n j : nat) : Prop := (j < 8 * n)%nat /\ (j mod 8 < 4)%nat.

Lemma ip_ads_relen_record ds : forall ds' b, Forall2 ad_relen ds ds' -> ads_record ds = Some b ->
  exists b', ads_record ds' = Some b' /\
             same_except (ad_len_pos (length ds)) b b' /\
             length b = (8 * length ds)%nat.
Proof.
  induction ds as [|d r IH]; intros ds' b HF Hrec; inversion HF as [|? d' ? r' Hd Hr]; subst.
  - cbn [ads_record] in *. apply some_inv in Hrec. subst b. exists []. split; [reflexivity|].
    split; [|reflexivity]. split; [reflexivity|]. intros i _. reflexivity.
  - cbn [ads_record] in Hrec |- *.
    destruct (ad_record d) as [bd|] eqn:Ed; [|discriminate].
    destruct (ads_record r) as [br|] eqn:Er; [|discriminate]. apply some_inv in Hrec. subst b.
    destruct (IH r' br Hr eq_refl) as (br' & Er' & Hse & Hlen). rewrite Er'.
    inversion Hd as [a l Hl Hty]; subst. cbn [ad_record] in Ed |- *.
    unfold shortad_record in Ed |- *. cbv zeta in Ed |- *. cbn [sa_length sa_type sa_pos] in *.
    destruct (u32_ok (Z.lor (sa_length a) (Z.shiftl (sa_type a) 30)) && u32_ok (sa_pos a)) eqn:E; [|discriminate].
    apply some_inv in Ed. subst bd.
    rewrite Hty. change (Z.shiftl 0 30) with 0. rewrite Z.lor_0_r.
    replace (u32_ok l && u32_ok (sa_pos a)) with true by (unfold u32_ok in *; lia).
    eexists. split; [reflexivity|]. split.
    + eapply ip_se_weaken; [se_build|].
      cbv beta. intros i Hi. cbn [length le32 app] in Hi |- *. unfold ad_len_pos in *.
      destruct Hi as [[H|[_ []]]|[H1 [H2 H3]]].
      * split; [lia|]. rewrite Nat.mod_small by lia. lia.
      * split; [lia|]. replace i with ((i - 8) + 1 * 8)%nat by lia. rewrite Nat.mod_add by lia. exact H3.
    + rewrite !app_length, Hlen. cbn [length le32]. lia.
Qed.

Lemma ip_ads_relen_length ds ds' : Forall2 ad_relen ds ds' -> ads_length ds' = ads_length ds.
Proof.
  induction 1 as [|d d' r r' Hd Hr IH]; [reflexivity|].
  rewrite !ads_length_cons, IH. inversion Hd; subst. reflexivity.
Qed.

(* ---- File Entry: set_data_length on a canonical entry (at most one descriptor) ---- *)
Lemma ip_fe_ad_lengths_one len : 0 < len <= UDF_MAX_AD -> fe_ad_lengths len = [len].
Proof.
  intros H. destruct (fe_ad_lengths_closed len ltac:(lia)) as [E _]. rewrite E.
  unfold UDF_MAX_AD in *. replace ((len - 1) / 1073739776) with 0 by lia. cbn [Z.to_nat repeat app]. f_equal. lia.
Qed.

Lemma ip_fe_set_len_wf e old n :
  fe_info_len e = old -> map ad_extent_length (fe_ads e) = fe_ad_lengths old ->
  forallb short_ok (fe_ads e) = true -> 0 <= old <= UDF_MAX_AD -> 0 <= n ->
  ceiling_div old 2048 = ceiling_div n 2048 ->
  exists ds', fe_set_len e n = Some (fe_with_len e n ds') /\ Forall2 ad_relen (fe_ads e) ds' /\
              map ad_extent_length ds' = fe_ad_lengths n /\ n <= UDF_MAX_AD.
Proof.
  intros Hinfo Hads Hshort Hold Hn Hceil. unfold fe_set_len, fe_set_data_length. rewrite Hinfo. cbv zeta.
  unfold ceiling_div, UDF_MAX_AD in *.
  destruct (Z.eq_dec old 0) as [E0|E0].
  - assert (n = 0) by lia. subst n. rewrite E0 in Hads |- *.
    rewrite fe_ad_lengths_nonpos in Hads by lia. destruct (fe_ads e) as [|d r]; [|discriminate].
    cbn. exists []. repeat split; [constructor|lia].
  - assert (Hn0 : 0 < n <= 1073739776) by lia.
    rewrite ip_fe_ad_lengths_one in Hads by (unfold UDF_MAX_AD; lia).
    destruct (fe_ads e) as [|d [|d2 r]] eqn:Ea; try discriminate.
    cbn [map] in Hads. injection Hads as Hd. cbn [forallb] in Hshort.
    destruct d as [a|a|x y z]; cbn [short_ok] in Hshort; try discriminate.
    cbn [ad_extent_length] in Hd.
    exists [ADShort (mk_shortad n (sa_type a) (sa_pos a))].
    assert (HF : Forall2 ad_relen [ADShort a] [ADShort (mk_shortad n (sa_type a) (sa_pos a))]).
    { constructor; [|constructor]. constructor; lia. }
    rewrite ip_fe_ad_lengths_one by (unfold UDF_MAX_AD; lia).
    destruct (n - old >? 0) eqn:E1.
    + cbn [rev app ad_extent_length ad_set_extent_length]. unfold UDF_MAX_AD.
      replace (sa_length a + (n - old) >? 1073739776) with false by lia.
      replace (sa_length a + (n - old)) with n by lia. repeat split; [exact HF|lia].
    + destruct (n - old <? 0) eqn:E2.
      * cbn [shrink_ads]. replace (n >? 0) with true by lia. cbv zeta. unfold UDF_MAX_AD.
        replace (Z.min n 1073739776) with n by lia. rewrite Z.sub_diag. cbn [Z.gtb Z.compare].
        cbn [ad_set_extent_length]. repeat split; [exact HF|lia].
      * assert (n = old) by lia. subst n.
        replace (ADShort a) with (ADShort (mk_shortad old (sa_type a) (sa_pos a))) at 1
          by (destruct a as [l t p]; cbn in *; subst l; reflexivity).
        repeat split; [exact HF|lia].
Qed.

(* set_data_length twice with the same length = once (a File Entry that is in the list once per name) *)
Lemma ip_fe_set_len_idem e n e' : fe_set_len e n = Some e' -> fe_set_len e' n = Some e'.
Proof.
  unfold fe_set_len. destruct (fe_set_data_length (fe_info_len e) (fe_ads e) n) as [[i ds]|] eqn:E; [|discriminate].
  intros H. apply some_inv in H. subst e'. cbn [fe_with_len fe_info_len fe_ads].
  assert (i = n).
  { unfold fe_set_data_length in E. cbv zeta in E.
    destruct (n - fe_info_len e >? 0).
    - destruct (rev (fe_ads e)); [discriminate|]. destruct (_ >? UDF_MAX_AD); [discriminate|].
      apply some_inv in E. congruence.
    - destruct (n - fe_info_len e <? 0).
      + destruct (shrink_ads n (fe_ads e)); [|discriminate]. apply some_inv in E. congruence.
      + apply some_inv in E. congruence. }
  subst i. unfold fe_set_data_length. cbv zeta. rewrite Z.sub_diag. cbn [Z.gtb Z.ltb Z.compare].
  reflexivity.
Qed.

(* ---- File Entry: record() after set_data_length ---- *)
Lemma ip_fe_record_some e n ds' b : fe_record e = Some b -> Forall2 ad_relen (fe_ads e) ds' ->
  0 <= n <= 18446744073709551615 ->
  exists b', fe_record (fe_with_len e n ds') = Some b' /\
    same_except (fun i => i = 4%nat \/ (8 <= i < 10)%nat \/ (56 <= i < 64)%nat \/
                          (176 + length (fe_ea e) <= i)%nat /\
                          ad_len_pos (length (fe_ads e)) (i - (176 + length (fe_ea e)))) b b'.
Proof.
  intros Hrec HF Hn.
  destruct (fe_record_inv _ _ Hrec) as (t & icbrec & earec & adrec & Hi & Hea & Ha & Hrg & Ht & ->).
  cbv zeta in Ht.
  destruct (ip_ads_relen_record _ _ _ HF Ha) as (adrec' & Ha' & Hse & Hlen).
  pose proof (ip_ads_relen_length _ _ HF) as Hal.
  destruct (tag_record_inv _ _ _ Ht) as (T1 & T2 & T3 & T4 & T5 & T6 & Et & _). cbv zeta in T4, T5, Et.
  set (body := concat (fe_fields e icbrec earec (ads_length (fe_ads e))) ++ fe_ea e ++ adrec) in *.
  set (body' := concat (fe_fields (fe_with_len e n ds') icbrec earec (ads_length (fe_ads e))) ++ fe_ea e ++ adrec').
  assert (Hbl : zlen body' = zlen body).
  { unfold body, body'. rewrite !zlen_app. unfold zlen.
    rewrite !length_concat. destruct Hse as [Hse _]. rewrite <- Hse.
    cbn [fe_fields map]. rewrite !pack_s_length. reflexivity. }
  assert (Hcl : tag_crc_byte_len (fe_tag e) body' = tag_crc_byte_len (fe_tag e) body).
  { unfold tag_crc_byte_len. rewrite Hbl. reflexivity. }
  assert (Hrec' : fe_record (fe_with_len e n ds') =
                  match tag_record (fe_tag e) body' with Some t' => Some (t' ++ body') | None => None end).
  { unfold fe_record, fe_body. cbn [fe_with_len fe_icb fe_ea_icb fe_ads fe_tag fe_ea]. rewrite Hi, Hea, Ha', Hal.
    unfold fe_ranges_ok in Hrg |- *.
    cbn [fe_with_len fe_uid fe_gid fe_perms fe_link_count fe_info_len fe_lbr fe_unique_id fe_len_ea].
    replace (u32_ok (fe_uid e) && u32_ok (fe_gid e) && u32_ok (fe_perms e) && u16_ok (fe_link_count e) &&
             u64_ok n && u64_ok (fe_lbr e) && u64_ok (fe_unique_id e) && u32_ok (fe_len_ea e) &&
             u32_ok (ads_length (fe_ads e))) with true by (unfold u64_ok, u32_ok, u16_ok in *; lia).
    reflexivity. }
  assert (Htr : exists t', tag_record (fe_tag e) body' = Some t').
  { unfold tag_record. cbv zeta. rewrite Hcl.
    pose proof (ip_crc_ccitt_range_any (firstn (Z.to_nat (tag_crc_byte_len (fe_tag e) body)) body')) as Hc.
    unfold u16, u32 in *.
    replace (u16_ok (tg_ident (fe_tag e)) && u16_ok (tg_version (fe_tag e)) && u16_ok (tg_serial (fe_tag e)) &&
             u16_ok (crc_ccitt (firstn (Z.to_nat (tag_crc_byte_len (fe_tag e) body)) body')) &&
             u16_ok (tag_crc_byte_len (fe_tag e) body) && u32_ok (tg_location (fe_tag e)))
      with true by (unfold u16_ok, u32_ok; lia).
    eexists. reflexivity. }
  destruct Htr as [t' Ht']. rewrite Hrec', Ht'. eexists. split; [reflexivity|].
  destruct (tag_record_inv _ _ _ Ht') as (_ & _ & _ & _ & _ & _ & Et' & _). cbv zeta in Et'.
  rewrite Hcl in Et'. rewrite Et, Et'. unfold body, body'.
  cbn [tag_fields fe_fields concat fe_with_len fe_uid fe_gid fe_perms fe_link_count fe_info_len fe_lbr
       fe_atime fe_mtime fe_attrtime fe_impl_ident fe_unique_id fe_len_ea].
  eapply ip_se_weaken; [se_build|].
  cbv beta. intros i Hi'.
  do 2 (rewrite ?app_length, ?pack_s_length in Hi'; cbn [length le16 le32 le64 app] in Hi').
  repeat match goal with
         | H : _ \/ _ |- _ => destruct H as [H|H]
         | H : _ /\ _ |- _ => let H1 := fresh "C" in destruct H as [H1 H]
         | H : False |- _ => destruct H
         end; try lia.
  right; right; right. split; [lia|].
  match goal with H : ad_len_pos _ ?x |- ad_len_pos _ ?y => replace y with x by lia; exact H end.
Qed.

(* ---- volume descriptor ---- *)
Lemma ip_vd_diff v now old b :
  length (vd_pre v) = 80%nat -> length (vd_mid v) = 742%nat -> length now = 17%nat -> length old = 17%nat ->
  vd_record v now = Some b ->
  same_except (fun i => (830 <= i < 847)%nat)
              (vd_pre v ++ le32 (vd_space v) ++ le32 (swab32 (vd_space v)) ++ vd_mid v ++ old ++ vd_post v) b.
Proof.
  intros Hp Hm Hn Ho. unfold vd_record. destruct (u32_ok (vd_space v)); [|discriminate].
  intros H. apply some_inv in H. subst b.
  eapply ip_se_weaken.
  - repeat first [ apply ip_se_refl | apply ip_se_app | (apply ip_se_all; congruence) ].
  - cbv beta. intros i Hi. rewrite Hp, Hm, Ho in Hi. cbn [length le32] in Hi. lia.
Qed.

Lemma ip_vd_record_length v now b :
  length (vd_pre v) = 80%nat -> length (vd_mid v) = 742%nat -> length now = 17%nat -> length (vd_post v) = 1201%nat ->
  vd_record v now = Some b -> zlen b = 2048.
Proof.
  intros Hp Hm Hn Hq. unfold vd_record. destruct (u32_ok (vd_space v)); [|discriminate].
  intros H. apply some_inv in H. subst b. unfold zlen. rewrite !app_length, Hp, Hm, Hn, Hq. reflexivity.
Qed.

Print Assumptions ip_crc_ccitt_range_any.
Print Assumptions ip_dr_diff.
Print Assumptions ip_fe_set_len_wf.
Print Assumptions ip_fe_set_len_idem.
Print Assumptions ip_fe_record_some.
Print Assumptions ip_vd_diff.
