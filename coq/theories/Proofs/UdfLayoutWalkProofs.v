(* C10 -- Model/UdfLayout.v: the reader (ul_walk_dir) on the view of a layout whose directories are
   linked as ul_bfs links them recovers the namespace.  The hypotheses of the section are discharged
   for udf_layout_iso in UdfLayoutProofs.v. *)
From Coq Require Import ZArith List Bool Lia ZifyBool Arith.
From PV.Base Require Import Prim.
From PV.Gen Require Import GenFun.
From PV.Model Require Import Codec Fid UdfDir UdfLayout.
From PV.Proofs Require Import ChecksumsArithProofs FidProofs UdfDirProofs UdfLayoutBfsProofs UdfLayoutViewProofs.
Import ListNotations.
Local Open Scope Z_scope.

(* what the loop over the FIDs needs from each child: its pointer leads to the right thing *)
Fixpoint ul_kids_ok (rec : Z -> upath -> option (list entry)) (v : list (Z * summary)) (p : upath)
         (cs : list utree) (icbs : list Z) : Prop :=
  match cs, icbs with
  | [], [] => True
  | c :: r, i :: ics =>
      match c with
      | UDir n cs' => rec i (p ++ [n]) = Some (flat_map (ul_ns (p ++ [n])) cs')
      | UFile n l _ => ul_read_file v i = Some l
      end /\ ul_kids_ok rec v p r ics
  | _, _ => False
  end.

Lemma ul_walk_fids_ok rec v apos info p : forall cs off icbs,
  off + Fid.zsum (map ul_clen cs) = info ->
  ul_kids_ok rec v p cs icbs ->
  ul_walk_fids rec v apos info p
    (ul_mk_fids (map (fun c => child_fident (ut_fident c)) cs)
                (map (fun s => apos + s / 2048) (starts off (map ul_clen cs))) icbs) off
  = Some (flat_map (ul_ns p) cs).
Proof.
  induction cs as [|c r IH]; intros off icbs Hsum Hk.
  - destruct icbs; [|destruct Hk]. cbn [map starts ul_mk_fids ul_walk_fids flat_map].
    unfold Fid.zsum in Hsum. cbn [map fold_right] in Hsum. replace (off =? info) with true by lia. reflexivity.
  - destruct icbs as [|i ics]; [destruct Hk|]. cbn [ul_kids_ok] in Hk. destruct Hk as [Hc Hr].
    cbn [map] in Hsum. rewrite fzsum_cons in Hsum.
    cbn [map starts ul_mk_fids ul_walk_fids flat_map].
    change (fi_isparent (child_fident (ut_fident c))) with false.
    change (fi_name (child_fident (ut_fident c))) with (ut_name c).
    change (fi_isdir (child_fident (ut_fident c))) with (ut_isdir c).
    rewrite Z.eqb_refl. cbn [negb orb].
    change (udf_fid_length (zlen (ut_name c))) with (ul_clen c).
    rewrite (IH (off + ul_clen c) ics ltac:(lia) Hr).
    destruct c as [n l j|n cs']; cbn [ut_isdir ut_name ul_ns]; rewrite Hc; reflexivity.
Qed.

Lemma ul_depth_child c cs : In c cs -> (ul_depth c <= fold_right (fun c m => Nat.max (ul_depth c) m) 0%nat cs)%nat.
Proof.
  induction cs as [|x r IH]; intros H; [destruct H|]. cbn [fold_right]. destruct H as [<-|H]; [lia|].
  specialize (IH H). lia.
Qed.

Section Walk.
  Variable lo : layout.
  Let ps := lo_ps lo.
  Let v := snd (view lo).
  Variable lo0 : Z.
  Hypothesis Hkeys : ul_incr lo0 (map fst v).
  Hypothesis Hlink : ul_linked 0 (lo_dirs lo).
  Hypothesis Hok : Forall (fun r => ul_node_ok (dr_node r)) (lo_dirs lo).
  Hypothesis Hfiles : forall r n l i, In r (lo_dirs lo) -> In (UFile n l i) (dr_node r) ->
    exists fe, ul_find i (lo_fes lo) = Some fe /\ In (i, fe, l) (lo_fes lo) /\ 0 <= l.

  Lemma ul_view_fe r : In r (lo_dirs lo) ->
    vlookup (dr_fe r - ps) v =
    Some (SFe true (dr_fe r - ps) (ul_dir_info (dr_node r)) [(dr_fe r - ps + 1, ul_dir_info (dr_node r))]).
  Proof.
    intros Hin. apply (ul_vlookup_in v lo0); [exact Hkeys|]. unfold v, view. cbn [snd]. apply in_or_app. left.
    apply in_flat_map. exists r. split; [exact Hin|]. left. reflexivity.
  Qed.

  Lemma ul_view_area r : In r (lo_dirs lo) ->
    vlookup (dr_fe r - ps + 1) v =
    Some (SArea (ul_mk_fids (ul_dir_descs (dr_node r)) (ul_dir_tags lo r) (ul_dir_icbs lo r))).
  Proof.
    intros Hin. apply (ul_vlookup_in v lo0); [exact Hkeys|]. unfold v, view. cbn [snd]. apply in_or_app. left.
    apply in_flat_map. exists r. split; [exact Hin|]. right. left. reflexivity.
  Qed.

  Lemma ul_view_file i fe l : In (i, fe, l) (lo_fes lo) -> 0 <= l -> ul_read_file v (fe - ps) = Some l.
  Proof.
    intros Hin Hl. unfold ul_read_file.
    rewrite (ul_vlookup_in v lo0 (fe - ps) (SFe false (fe - ps) l (ul_ads (ul_data_pos lo i) l)) Hkeys).
    - rewrite Z.eqb_refl, (ul_ads_sum _ l Hl), Z.eqb_refl. reflexivity.
    - unfold v, view. cbn [snd]. apply in_or_app. right.
      change (fe - ps, SFe false (fe - ps) l (ul_ads (ul_data_pos lo i) l)) with (ul_file_entry lo (i, fe, l)).
      apply in_map. exact Hin.
  Qed.

  Definition ul_walk_P (t : utree) : Prop :=
    forall r fuel, In r (lo_dirs lo) -> dr_node r = ut_children t -> ut_isdir t = true -> (ul_depth t <= fuel)%nat ->
      ul_walk_dir fuel v (dr_fe r - ps) (dr_parent_fe r - ps) (dr_path r) =
      Some (flat_map (ul_ns (dr_path r)) (ut_children t)).

  Lemma ul_kids_ok_build f pfe p : forall cs2 j0,
    (forall j n cs', nth_error (ul_dir_children cs2) j = Some (n, cs') ->
       exists r', nth_error (lo_dirs lo) (j0 + j) = Some r' /\ ul_is_rec r' (p ++ [n]) pfe cs') ->
    Forall (fun c => ul_walk_P c /\ (ul_depth c <= f)%nat) cs2 ->
    (forall n l i, In (UFile n l i) cs2 ->
       exists fe, ul_find i (lo_fes lo) = Some fe /\ In (i, fe, l) (lo_fes lo) /\ 0 <= l) ->
    ul_kids_ok (fun icb q => ul_walk_dir f v icb (pfe - ps) q) v p cs2 (ul_kid_icbs lo j0 cs2).
  Proof.
    induction cs2 as [|c r2 IH]; intros j0 Hd Hp Hf; [exact I|].
    inversion Hp as [|? ? [Hc Hdep] Hp2]; subst. destruct c as [n l i|n cs'].
    - cbn [ul_kid_icbs ul_kids_ok]. destruct (Hf n l i (or_introl eq_refl)) as (fe & H1 & H2 & H3). rewrite H1. split.
      + exact (ul_view_file i fe l H2 H3).
      + apply IH; [exact Hd|exact Hp2|]. intros n' l' i' Hin. apply (Hf n' l' i'). right. exact Hin.
    - cbn [ul_kid_icbs ul_kids_ok]. destruct (Hd 0%nat n cs' eq_refl) as (r' & Hr' & (E1 & E2 & E3)).
      rewrite Nat.add_0_r in Hr'. rewrite Hr'. split.
      + rewrite <- E1, <- E2. apply (Hc r' f); [exact (nth_error_In _ _ Hr')|exact E3|reflexivity|exact Hdep].
      + apply IH; [|exact Hp2|].
        * intros j n' cs'' Hj. destruct (Hd (S j) n' cs'' Hj) as (r'' & H1 & H2). exists r''. split; [|exact H2].
          rewrite <- H1. f_equal. lia.
        * intros n' l' i' Hin. apply (Hf n' l' i'). right. exact Hin.
  Qed.

  Lemma ul_walk_all t : ul_walk_P t.
  Proof.
    induction t as [n l i|n cs IHcs] using ul_utree_ind; intros r fuel Hin Hnode Hdir Hdep; [discriminate|].
    cbn [ut_children] in *. cbn [ul_depth] in Hdep. destruct fuel as [|f]; [lia|].
    apply le_S_n in Hdep. pose proof (proj1 (Forall_forall _ _) Hok r Hin) as Hnok. cbv beta in Hnok.
    cbn [ul_walk_dir]. rewrite (ul_view_fe r Hin), !Z.eqb_refl. cbn [andb].
    rewrite (ul_view_area r Hin). rewrite (ul_dir_tags_eq lo r Hnok). rewrite Hnode.
    unfold ul_dir_descs, ul_dir_icbs, ul_lens. cbn [starts map ul_mk_fids].
    change (fi_isdir parent_fident) with true. change (fi_isparent parent_fident) with true.
    change (fi_name parent_fident) with (@nil Z). fold ps.
    change (0 / 2048) with 0. rewrite Z.add_0_r, !Z.eqb_refl. change (zlen (@nil Z) =? 0) with true. cbn [andb].
    rewrite Hnode.
    replace (dr_fe r + 1 - ps) with (dr_fe r - ps + 1) by lia.
    rewrite Z.eqb_refl. cbn [andb]. change (0 + udf_fid_length 0) with (udf_fid_length 0).
    apply ul_walk_fids_ok.
    - rewrite ul_info_eq. unfold ul_lens. rewrite fzsum_cons. change (0 + udf_fid_length 0) with (udf_fid_length 0). reflexivity.
    - destruct (In_nth_error _ _ Hin) as (ix & Hix). destruct (Hlink ix r Hix) as [_ Hk].
      apply ul_kids_ok_build.
      + intros j n' cs' Hj. rewrite Hnode in Hk. destruct (Hk j n' cs' Hj) as (r' & H1 & H2).
        exists r'. rewrite Nat.sub_0_r in H1. split; [exact H1|exact H2].
      + apply Forall_forall. intros c Hc. split; [exact (proj1 (Forall_forall _ _) IHcs c Hc)|].
        pose proof (ul_depth_child c cs Hc). lia.
      + intros n' l' i' Hc. apply (Hfiles r n' l' i' Hin). rewrite Hnode. exact Hc.
  Qed.
End Walk.

Print Assumptions ul_walk_all.
Print Assumptions ul_walk_fids_ok.
