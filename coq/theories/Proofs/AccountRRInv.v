(* The invariant of Model/AccountRR.v and its preservation by every operation (both variants of rm_file that
   release the continuation entry; the variant fx = false is treated in AccountRRProofs.v). *)
From Coq Require Import ZArith List Bool Lia ZifyBool Permutation.
From PV.Base Require Import Prim.
From PV.Gen Require Import GenConst GenFun.
From PV.Model Require Import Names Checksums Pack Alloc CeAlloc RREntries RRWalk RRPlace Account AccountRR.
From PV.Proofs Require Import PackProofs AllocProofs ChecksumsArithProofs CeAllocProofs AccountLemmas
  AccountRRPlace AccountRRLemmas AccountRRCe.
Import ListNotations.
Local Open Scope Z_scope.
Ltac Zify.zify_post_hook ::= Z.to_euclidean_division_equations.

Record RInv (s : rstate) : Prop := {
  (* the declared size in closed form: 16 + PVD + terminator + version block + two path tables +
     directory blocks + one block per tracked continuation block + the ER block + file blocks *)
  ri_space : r_space s = 20 + 2 * r_ptr_ext s + rtotal rw_dblk (r_root s)
                         + Z.of_nat (length (r_blocks s)) + rtotal rw_fblk (r_root s);
  ri_root : meta_of (r_root s) = root_meta /\ r_is_dir (r_root s) = true;
  ri_tree : rall_ok (r_ver s) true (r_root s);
  ri_ptr : PtrInv (r_ptr_size s) (r_ptr_ext s);
  ri_ptr_sum : r_ptr_size s = rtotal rw_ptr (r_root s);
  ri_blocks : blocks_ok (r_blocks s);                  (* distinct objects, each well formed and non-empty *)
  ri_ids : ids_below (r_blocks s) (r_next s);
  (* every key is held by as many records as the tracked blocks have entries for it *)
  ri_refs : forall k, rtotal (rw_ref k) (r_root s) = kcount k (flat (r_blocks s))
}.

(* ---- 1. the fresh image ----------------------------------------------------------------------------- *)
Theorem arr_init_ok v : RInv (rr_init v).
Proof.
  constructor; cbn [rr_init r_space r_ptr_ext r_root r_blocks r_ver r_ptr_size r_next].
  - vm_compute. reflexivity.
  - split; reflexivity.
  - apply arr_all_ok_dir. split; [vm_compute; discriminate|]. split; [apply arr_dir_ok_new|constructor].
  - destruct ptr_init as (_ & H & _). exact H.
  - vm_compute. reflexivity.
  - split; constructor.
  - constructor.
  - intros k. rewrite arr_total_dir, arr_totals_nil. reflexivity.
Qed.

(* ---- 2. the blocks the extent assignment places ------------------------------------------------------ *)
Lemma arr_zsum_member {A} (f : A -> Z) l x : (forall y, 0 <= f y) -> In x l -> f x <= Alloc.zsum (map f l).
Proof.
  intros Hf. induction l as [|y l IH]; intros Hin; [destruct Hin|].
  cbn [map]. rewrite zsum_cons. destruct Hin as [->|Hin].
  - assert (0 <= Alloc.zsum (map f l)); [|lia]. clear IH.
    induction l as [|z l IH]; [cbn; lia|]. cbn [map]. rewrite zsum_cons. specialize (Hf z). lia.
  - specialize (IH Hin). specialize (Hf y). lia.
Qed.
Lemma arr_zsum_pos {A} (f : A -> Z) l : 0 < Alloc.zsum (map f l) -> exists x, In x l /\ 0 < f x.
Proof.
  induction l as [|y l IH]; [cbn; lia|]. cbn [map]. rewrite zsum_cons. intros H.
  destruct (Z_lt_le_dec 0 (f y)) as [Hy|Hy]; [exists y; split; [left; reflexivity|exact Hy]|].
  destruct IH as (x & Hx & Hf); [lia|]. exists x. split; [right; exact Hx|exact Hf].
Qed.
Lemma arr_rw_ref_nonneg k d m v : 0 <= rw_ref k d m v.
Proof. unfold rw_ref. destruct (m_ce m) as [k'|]; [destruct (key_eqb k' k)|]; lia. Qed.
Lemma arr_shallow_ref k n : rshallow (rw_ref k) n =
  match m_ce (meta_of n) with Some k' => kind k' k | None => 0 end.
Proof. destruct n; reflexivity. Qed.

Lemma arr_in_ce_ids i l : In i (ce_ids l) <-> exists n, In n l /\ ce_id n = Some i.
Proof.
  unfold ce_ids. rewrite in_flat_map. split.
  - intros (n & Hn & Hi). exists n. split; [exact Hn|]. destruct (ce_id n); [|destruct Hi].
    destruct Hi as [->|[]]. reflexivity.
  - intros (n & Hn & Hi). exists n. split; [exact Hn|]. rewrite Hi. left. reflexivity.
Qed.

Theorem arr_fresh_blocks s : blocks_ok (r_blocks s) ->
  (forall k, rtotal (rw_ref k) (r_root s) = kcount k (flat (r_blocks s))) ->
  fresh [] (rvisit s) = length (r_blocks s).
Proof.
  intros [Hnd Hok] Hrefs. rewrite <- (map_length fst (r_blocks s)).
  apply arr_fresh_count; [exact Hnd|intros i _ []| |].
  - intros i Hi. right. apply arr_in_ce_ids in Hi. destruct Hi as (n & Hn & Hi).
    unfold ce_id in Hi. destruct (m_ce (meta_of n)) as [[[j o] l]|] eqn:E; [|discriminate].
    inversion Hi. subst j. set (k := (i, o, l)).
    pose proof (arr_zsum_member (rshallow (rw_ref k)) (rvisit s) n) as Hm.
    rewrite arr_visit_sum, Hrefs, arr_shallow_ref, E in Hm. unfold kind in Hm.
    rewrite arr_key_eqb_refl in Hm.
    assert (Hin : In k (flat (r_blocks s))).
    { apply arr_kcount_pos. apply Z.lt_le_trans with 1; [lia|]. apply Hm; [|exact Hn].
      intros y. destruct y; apply arr_rw_ref_nonneg. }
    apply arr_in_flat in Hin. destruct Hin as (b & Hb & Hfst & _). cbn in Hfst. rewrite Hfst.
    apply in_map. exact Hb.
  - intros i Hi. apply in_map_iff in Hi. destruct Hi as ([j es] & Hj & Hb). cbn in Hj. subst j.
    rewrite Forall_forall in Hok. destruct (Hok _ Hb) as [_ Hne]. cbn [snd] in Hne.
    destruct es as [|e es]; [congruence|]. set (k := tag i e).
    assert (Hin : In k (flat (r_blocks s))).
    { apply arr_in_flat. exists (i, e :: es). split; [exact Hb|]. split; [reflexivity|].
      left. destruct e. reflexivity. }
    apply arr_kcount_pos in Hin. rewrite <- Hrefs, <- arr_visit_sum in Hin.
    destruct (arr_zsum_pos _ _ Hin) as (n & Hn & Hp). apply arr_in_ce_ids. exists n. split; [exact Hn|].
    rewrite arr_shallow_ref in Hp. unfold ce_id. destruct (m_ce (meta_of n)) as [k'|]; [|lia].
    unfold kind in Hp. destruct (key_eqb k' k) eqn:E; [|lia]. apply arr_key_eqb_spec in E. subst k'.
    reflexivity.
Qed.

Theorem arr_inv_space s : RInv s -> r_space s = rr_layout_end s.
Proof.
  intros HI. rewrite arr_layout_end_closed, (arr_fresh_blocks s (ri_blocks s HI) (ri_refs s HI)).
  rewrite (ri_space s HI). lia.
Qed.

(* ---- 3. one generic update ---------------------------------------------------------------------------- *)
Lemma arr_sub_root_true p : sub_root true p = is_root_path p.
Proof. destruct p; reflexivity. Qed.

Lemma arr_found_dir s p dm dl kids : RInv s -> rsubtree p (r_root s) = Some (RDir dm dl kids) ->
  zlen (m_name dm) <= 255 /\ rdir_ok (r_ver s) (is_root_path p) dl (rlens kids) /\
  Forall (rall_ok (r_ver s) false) kids.
Proof.
  intros HI H. apply (arr_all_ok_dir (r_ver s) (is_root_path p) dm). rewrite <- arr_sub_root_true.
  eapply arr_subtree_all_ok; [apply (ri_tree s HI)|exact H].
Qed.

Lemma arr_update_inv s p dm dl kids dl' kids' ps' pe' sp' bs' nid' :
  RInv s -> rsubtree p (r_root s) = Some (RDir dm dl kids) ->
  rdir_ok (r_ver s) (is_root_path p) dl' (rlens kids') -> Forall (rall_ok (r_ver s) false) kids' ->
  PtrInv ps' pe' ->
  ps' = r_ptr_size s + (rtotals rw_ptr kids' - rtotals rw_ptr kids) ->
  blocks_ok bs' -> ids_below bs' nid' ->
  (forall k, rtotals (rw_ref k) kids' - rtotals (rw_ref k) kids
             = kcount k (flat bs') - kcount k (flat (r_blocks s))) ->
  sp' = r_space s + 2 * (pe' - r_ptr_ext s) + (ceiling_div dl' C - ceiling_div dl C)
        + (rtotals rw_dblk kids' - rtotals rw_dblk kids) + (rtotals rw_fblk kids' - rtotals rw_fblk kids)
        + (Z.of_nat (length bs') - Z.of_nat (length (r_blocks s))) ->
  RInv {| r_ver := r_ver s; r_root := rreplace p (RDir dm dl' kids') (r_root s);
          r_ptr_size := ps'; r_ptr_ext := pe'; r_space := sp'; r_blocks := bs'; r_next := nid' |}.
Proof.
  intros HI Hsub Hd HF Hptr Hps Hb Hids Hrefs Hsp.
  destruct (arr_found_dir s p dm dl kids HI Hsub) as (Hz & _ & _).
  constructor; cbn [r_root r_ptr_size r_ptr_ext r_space r_blocks r_next r_ver].
  - rewrite !(arr_total_replace _ p _ _ _ Hsub), !arr_total_dir.
    pose proof (ri_space s HI) as E. cbn [rw_dblk rw_fblk]. lia.
  - destruct (ri_root s HI) as [Hn Hdd]. split.
    + rewrite (arr_replace_meta p _ _ _ Hsub); [exact Hn|reflexivity].
    + rewrite (arr_replace_is_dir p _ _ _ Hsub); [exact Hdd|reflexivity].
  - apply (arr_all_ok_replace _ p _ _ _ _ Hsub); [reflexivity|apply (ri_tree s HI)|].
    rewrite arr_sub_root_true. apply arr_all_ok_dir. auto.
  - exact Hptr.
  - rewrite (arr_total_replace _ p _ _ _ Hsub), !arr_total_dir, Hps, (ri_ptr_sum s HI). cbn [rw_ptr]. lia.
  - exact Hb.
  - exact Hids.
  - intros k. rewrite (arr_total_replace _ p _ _ _ Hsub), !arr_total_dir.
    pose proof (ri_refs s HI k). pose proof (Hrefs k). unfold rw_ref at 2 4. lia.
Qed.

(* ---- 4. adding a record (add_fp, add_symlink, add_directory share this tail) -------------------------- *)
Lemma arr_grow_cases (b : bool) : (if b then C else 0) = 0 \/ (if b then C else 0) = 2048.
Proof. destruct b; [right|left]; reflexivity. Qed.

Definition leaf (c : rnode) : Prop := rkids c = [].
Lemma arr_total_leaf w c : leaf c -> rtotal w c = rshallow w c.
Proof. intros H. rewrite arr_total_shallow, H, arr_totals_nil. lia. Qed.

Lemma arr_add_record_inv s dirp dm dl kids mk nm x ce b ps pe extra :
  RInv s -> rsubtree dirp (r_root s) = Some (RDir dm dl kids) -> len_ok x ->
  match ce with Some l => 0 < l <= M | None => True end ->
  (forall ky, leaf (mk ky) /\ m_rlen (meta_of (mk ky)) = x /\ m_ce (meta_of (mk ky)) = ky /\
              rall_ok (r_ver s) false (mk ky) /\
              ps = r_ptr_size s + rshallow rw_ptr (mk ky) /\
              0 <= extra /\ ceiling_div extra C = rshallow rw_dblk (mk ky) + rshallow rw_fblk (mk ky)) ->
  PtrInv ps pe -> (pe = r_ptr_ext s \/ pe = r_ptr_ext s + 2) -> (b = true <-> pe <> r_ptr_ext s) ->
  RInv (fst (add_record s dirp dm dl kids mk nm x ce (b, ps, pe) extra)).
Proof.
  intros HI Hsub Hx Hce Hmk Hptr Hpe Hb. unfold add_record. cbv zeta.
  destruct (arr_found_dir s dirp dm dl kids HI Hsub) as (Hz & Hd & HF).
  set (k := pos nm (map rname kids)).
  set (d := rst_of (r_ver s) (is_root_path dirp) dl (rlens kids)).
  (* the continuation entry *)
  assert (Hc : exists cebytes cekey bs' nid',
    match ce with
    | Some celen =>
        let '(added, ky, bs') := ce_alloc (r_blocks s) (r_next s) celen in
        ((if added then C else 0), Some ky, bs', if added then S (r_next s) else r_next s)
    | None => (0, None, r_blocks s, r_next s)
    end = (cebytes, cekey, bs', nid') /\
    blocks_ok bs' /\ ids_below bs' nid' /\
    (forall k0, kcount k0 (flat bs') = kcount k0 (flat (r_blocks s))
                + match cekey with Some ky => kind ky k0 | None => 0 end) /\
    cebytes = C * (Z.of_nat (length bs') - Z.of_nat (length (r_blocks s)))).
  { destruct ce as [celen|].
    - destruct (ce_alloc (r_blocks s) (r_next s) celen) as [[added ky] bs'] eqn:E.
      destruct (arr_ce_alloc_spec _ _ _ _ _ _ (ri_blocks s HI) (ri_ids s HI) Hce E)
        as (B1 & B2 & B3 & B4 & _).
      do 4 eexists. split; [reflexivity|]. split; [exact B1|]. split; [exact B2|]. split; [exact B3|].
      rewrite B4. destruct added; unfold C; lia.
    - do 4 eexists. split; [reflexivity|]. split; [apply (ri_blocks s HI)|]. split; [apply (ri_ids s HI)|].
      split; [intros; lia|lia]. }
  destruct Hc as (cebytes & cekey & bs' & nid' & -> & Hbok & Hbid & Hcnt & Hceb).
  destruct (Hmk cekey) as (Hleaf & Hlen & Hcek & Hok & Hps & He0 & Hext).
  cbn [fst].
  apply (arr_update_inv s dirp dm dl kids _ _ _ _ _ _ _ HI Hsub).
  - unfold rlens. rewrite map_insert_at. fold (rlens kids). rewrite Hlen.
    apply arr_dir_ok_add; assumption.
  - apply Forall_insert_at; assumption.
  - exact Hptr.
  - rewrite arr_totals_insert_at, (arr_total_leaf _ _ Hleaf). lia.
  - exact Hbok.
  - exact Hbid.
  - intros k0. rewrite arr_totals_insert_at, (arr_total_leaf _ _ Hleaf), arr_shallow_ref, Hcek, (Hcnt k0). lia.
  - rewrite !arr_totals_insert_at, !(arr_total_leaf _ _ Hleaf), dlen_add. fold d. cbn [dlen].
    unfold d at 2. cbn [rst_of dlen].
    assert (Hpb : (if b then 4 * C else 0) = 2 * (pe - r_ptr_ext s) * C).
    { destruct b.
      - assert (pe <> r_ptr_ext s) by (apply Hb; reflexivity). unfold C. lia.
      - destruct (Z.eq_dec pe (r_ptr_ext s)) as [->|Hne]; [lia|]. apply Hb in Hne. discriminate. }
    rewrite Hpb, Hceb.
    destruct (arr_grow_cases (add_overflows d (2 + k) x)) as [E|E]; rewrite E;
      unfold ceiling_div, C in *; lia.
Qed.

(* ---- 5. releasing the continuation entry of a record that is being removed ---------------------------- *)
Lemma arr_release_spec s q dm dl kids y k c : RInv s ->
  rsubtree q (r_root s) = Some (RDir dm dl kids) -> rlookup y kids = Some (k, c) ->
  exists cebytes bs', release_of (r_blocks s) (meta_of c) = Some (cebytes, bs') /\
    blocks_ok bs' /\ ids_below bs' (r_next s) /\
    (forall k0, kcount k0 (flat bs') = kcount k0 (flat (r_blocks s)) - rshallow (rw_ref k0) c) /\
    cebytes = C * (Z.of_nat (length (r_blocks s)) - Z.of_nat (length bs')).
Proof.
  intros HI Hsub Hl. unfold release_of.
  destruct (m_ce (meta_of c)) as [[[id off] len]|] eqn:E.
  - set (ky := (id, off, len)).
    assert (Hc : rsubtree (q ++ [y]) (r_root s) = Some c).
    { apply arr_subtree_snoc. exists dm, dl, kids, k. split; assumption. }
    pose proof (arr_total_subtree_ge (rw_ref ky) (arr_rw_ref_nonneg ky) _ _ _ Hc) as Hge.
    rewrite arr_shallow_ref, E in Hge. unfold kind in Hge. rewrite arr_key_eqb_refl in Hge.
    rewrite (ri_refs s HI) in Hge.
    assert (Hin : In ky (flat (r_blocks s))) by (apply arr_kcount_pos; lia).
    destruct (arr_ce_release_spec _ _ _ _ (ri_blocks s HI) Hin) as (dropped & bs' & Er & B1 & B2 & B3 & B4).
    fold ky in Er. unfold ky in Er. rewrite Er. do 2 eexists. split; [reflexivity|].
    split; [exact B1|]. split; [apply B2, (ri_ids s HI)|]. split.
    + intros k0. rewrite (B3 k0), arr_shallow_ref, E. reflexivity.
    + rewrite B4. destruct dropped; unfold C; lia.
  - do 2 eexists. split; [reflexivity|]. split; [apply (ri_blocks s HI)|]. split; [apply (ri_ids s HI)|].
    split; [intros k0; rewrite arr_shallow_ref, E; lia|lia].
Qed.
