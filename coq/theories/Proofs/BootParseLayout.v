(* C11 / C02 -- Model/BootParse.v, part 2: what the from-scratch layout of AccountBoot gives the parser:
   every non-empty inode of self.inodes has an extent of its own behind the catalog and inside the
   volume, and different inodes have different extents (so extent_to_inode finds the inode back). *)
From Coq Require Import ZArith List Bool Lia ZifyBool Sorted Arith Permutation.
From PV.Base Require Import Prim.
From PV.Gen Require Import GenConst GenFun.
From PV.Model Require Import Names Checksums Pack Alloc Codec Eltorito Account AccountLinks AccountBoot BootParse.
From PV.Proofs Require Import PackProofs AllocProofs ChecksumsArithProofs AccountLemmas AccountProofs
     AccountLinksLemmas AccountLinksPurge AccountLinksInv EltoritoCatalogProofs EltoritoBuiltProofs
     AccountBootLemmas AccountBootInv AccountBootInv2 AccountBootFix AccountBootProofs.
Import ListNotations.
Local Open Scope Z_scope.
Ltac Zify.zify_post_hook ::= Z.to_euclidean_division_equations.

(* an inode that gets an extent: it is in self.inodes and not empty *)
Definition bp_placed (s : bstate) (i : nat) : Prop :=
  In i (ids (linodes (bl s))) /\ len_of i (linodes (bl s)) <> 0.

Lemma bp_placed_in s i : BInv s -> bp_placed s i -> In i (data_inos s).
Proof.
  intros HI [Hi Hl]. destruct (bi_live s HI) as (_ & HL & _). specialize (HL i Hi).
  unfold data_inos. apply in_or_app.
  destruct (Z_lt_le_dec 0 (erefs i (bboot s))) as [Hp|Hp].
  - left. apply ab_boot_order_in, Hp.
  - right. apply ab_rest_order_in. split; [lia|]. split; [exact Hl|lia].
Qed.

Lemma bp_len_nonneg s i : BInv s -> 0 <= len_of i (linodes (bl s)) <= max_len.
Proof.
  intros HI. apply (len_of_in (fun l => 0 <= l <= max_len) (linodes (bl s))); [|unfold max_len; lia].
  eapply Forall_impl; [|apply (bi_len s HI)]. intros e He. exact He.
Qed.

Lemma bp_blk_pos s i : BInv s -> len_of i (linodes (bl s)) <> 0 -> 0 < blk_of s i.
Proof.
  intros HI Hl. pose proof (bp_len_nonneg s i HI) as Hn. unfold blk_of, ceiling_div, C. lia.
Qed.

Lemma bp_rba_spec s i : BInv s -> bp_placed s i ->
  ino_extent s i = Some (rba_of s i) /\ data_start s <= rba_of s i /\ 0 < blk_of s i /\
  rba_of s i + blk_of s i <= lspace (bl s).
Proof.
  intros HI Hp. pose proof (bp_placed_in s i HI Hp) as Hd. destruct Hp as [Hi Hl].
  destruct (ab_assoc_bump (blk_of s) (fun j => ab_blk_nonneg s j HI) (data_inos s) (data_start s) i Hd)
    as (e & H1 & H2 & H3).
  assert (Hext : ino_extent s i = Some e) by (unfold ino_extent, placed; rewrite H1; reflexivity).
  assert (Hr : rba_of s i = e) by (unfold rba_of; rewrite Hext; reflexivity).
  rewrite Hr. split; [exact Hext|]. split; [exact H3|]. split; [apply bp_blk_pos; assumption|].
  pose proof (ab_objects_nonneg s HI) as HNn.
  pose proof (bump_inside (bobjects s) 0 HNn) as Hin. rewrite Forall_forall in Hin.
  assert (Hlay : In (e, blk_of s i) (blayout s)).
  { rewrite ab_layout_split. apply in_or_app. right. apply in_or_app. right. exact H2. }
  specialize (Hin _ Hlay). cbn [fst snd] in Hin. rewrite (ab_inv_layout s HI). unfold blayout_end. lia.
Qed.

Lemma bp_rba_inj s i j : BInv s -> bp_placed s i -> bp_placed s j -> rba_of s i = rba_of s j -> i = j.
Proof.
  intros HI Hi Hj E. destruct (Nat.eq_dec i j) as [->|Hne]; [reflexivity|exfalso].
  destruct (bp_rba_spec s i HI Hi) as (Ei & _ & Pi & _).
  destruct (bp_rba_spec s j HI Hj) as (Ej & _ & Pj & _).
  unfold ino_extent in Ei, Ej.
  destruct (assoc i (placed s)) as [vi|] eqn:Ai; [|discriminate].
  destruct (assoc j (placed s)) as [vj|] eqn:Aj; [|discriminate].
  unfold placed in Ai, Aj.
  pose proof (ab_assoc_disjoint (blk_of s) (fun x => ab_blk_nonneg s x HI) _ _ _ _ _ _ Hne Ai Aj) as D.
  destruct (ab_assoc_lower (blk_of s) (fun x => ab_blk_nonneg s x HI) _ _ _ _ Ai) as [_ Si].
  destruct (ab_assoc_lower (blk_of s) (fun x => ab_blk_nonneg s x HI) _ _ _ _ Aj) as [_ Sj].
  inversion Ei as [Fi]. inversion Ej as [Fj]. unfold disjoint in D.
  rewrite Fi, Fj, Si, Sj in D. clear - D E Pi Pj. lia.
Qed.

(* the catalog has the block before the first data extent *)
Lemma bp_data_start s : data_start s = cat_extent s + (if has_boot s then 1 else 0).
Proof.
  unfold data_start, cat_extent, bump_end, cat_objects. rewrite zsum_app.
  destruct (has_boot s); unfold Alloc.zsum; cbn [fold_right]; lia.
Qed.

Lemma bp_cat_extent_bounds s : BInv s ->
  17 <= cat_extent s /\ cat_extent s + (if has_boot s then 1 else 0) <= lspace (bl s).
Proof.
  intros HI. pose proof (ab_objects_nonneg s HI) as HN. unfold bobjects in HN.
  apply Forall_app in HN. destruct HN as [Hh HN]. apply Forall_app in HN. destruct HN as [_ Hd].
  rewrite (ab_inv_layout s HI). unfold blayout_end, cat_extent, bump_end, bobjects, cat_objects.
  rewrite !zsum_app. pose proof (AllocProofs.zsum_nonneg _ Hd) as N1.
  assert (N2 : 17 <= Alloc.zsum (head_objects s)).
  { unfold head_objects in *. apply Forall_app in Hh. destruct Hh as [_ Hh].
    rewrite zsum_app. pose proof (AllocProofs.zsum_nonneg _ Hh) as N.
    unfold Alloc.zsum at 1. cbn [fold_right]. lia. }
  destruct (has_boot s); [change (Alloc.zsum [1]) with 1|change (Alloc.zsum (@nil Z)) with 0]; lia.
Qed.

Print Assumptions bp_rba_inj.
