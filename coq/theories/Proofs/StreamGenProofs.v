(* Model/Stream.v (the code after the read/readinto repair, fixed = true) IS pycdlibio.py as TRANSLATED on this run
   (Gen/GenIO.v: PyCdlibIO.seek / readall / read / readinto; `self._fp.seek(p, 0)` is the effect fp_pos := p,
   `self._fp.read(n)` is PyIO.py_fread on the shared file position): a change of one of those methods in the source
   changes the generated definition and breaks the matching lemma here. *)
From Coq Require Import ZArith List Bool Lia.
From PV.Base Require Import Prim PyIO.
From PV.Gen Require Import GenIO.
From PV.Model Require Import Stream.
Import ListNotations.
Local Open Scope Z_scope.

Lemma sg_set_stream_same i : forall (l : list stream) s, nth_error l i = Some s -> set_stream i s l = l.
Proof.
  unfold set_stream. induction i as [|i IH]; intros [|x l] s H; cbn [nth_error] in H; try discriminate.
  - injection H as ->. reflexivity.
  - cbn [firstn skipn app]. f_equal. apply (IH l s H).
Qed.

Lemma sg_upd_same w i s : nth_error (w_streams w) i = Some s -> upd w i (with_off s (st_off s)) (w_pos w) = w.
Proof.
  intros H. destruct w as [d p l]. destruct s as [a b c o]. unfold upd, with_off. cbn [w_data w_pos w_streams st_start st_len st_off st_open] in *.
  f_equal. apply sg_set_stream_same. exact H.
Qed.

Lemma sg_fread d p n : py_fread d p n = fread d p n.
Proof. reflexivity. Qed.

(* PyCdlibIO.seek *)
Lemma sg_seek w i s off wh :
  match pyio_seek (st_off s) (st_len s) (st_start s) (w_pos w) off wh with
  | Some (r, o', p') => do_seek w i s off wh = (upd w i (with_off s o') p', OInt r)
  | None => do_seek w i s off wh = (w, ORefused)
  end.
Proof.
  unfold pyio_seek, do_seek. cbn [negb].
  destruct (wh =? 0) eqn:E0.
  - destruct (off <? 0); [reflexivity|]. destruct (off <? st_len s); reflexivity.
  - destruct (wh =? 1) eqn:E1.
    + destruct (st_off s + off <? 0); [reflexivity|]. destruct (st_off s + off <? st_len s); reflexivity.
    + destruct (wh =? 2) eqn:E2; [|reflexivity].
      destruct ((off <? 0) && (Z.abs off >? st_len s)); [reflexivity|].
      destruct (st_len s + off <? st_len s); reflexivity.
Qed.

(* PyCdlibIO.readall *)
Lemma sg_readall w i s : nth_error (w_streams w) i = Some s ->
  match pyio_readall (st_off s) (st_len s) (st_start s) (w_data w) (w_pos w) with
  | Some (d, o', p') => do_readall true w i s = (upd w i (with_off s o') p', OBytes d)
  | None => False
  end.
Proof.
  intros H. unfold pyio_readall, do_readall. cbn [negb]. rewrite sg_fread.
  destruct (st_len s - st_off s >? 0).
  - destruct (fread (w_data w) (st_start s + st_off s) (st_len s - st_off s)) as [d p']. reflexivity.
  - rewrite (sg_upd_same w i s H). reflexivity.
Qed.

(* PyCdlibIO.read(size) with an integer size; read() / read(None) is the branch `size is None`, i.e. readall *)
Lemma sg_read w i s size : nth_error (w_streams w) i = Some s ->
  match pyio_read (st_off s) (st_len s) (st_start s) (w_data w) (w_pos w) size with
  | Some (d, o', p') => do_read true w i s (Some size) = (upd w i (with_off s o') p', OBytes d)
  | None => False
  end.
Proof.
  intros H. unfold pyio_read, do_read. cbn [negb orb]. rewrite sg_fread.
  destruct (st_off s >=? st_len s).
  - rewrite (sg_upd_same w i s H). reflexivity.
  - destruct (size <? 0).
    + pose proof (sg_readall w i s H) as R.
      destruct (pyio_readall (st_off s) (st_len s) (st_start s) (w_data w) (w_pos w)) as [[[d o'] p']|]; [exact R|contradiction].
    + destruct (fread (w_data w) (st_start s + st_off s) (Z.min (st_len s - st_off s) size)) as [d p']. reflexivity.
Qed.

(* PyCdlibIO.readinto(b): the result is the number of bytes, the bytes placed into the buffer are [data] *)
Lemma sg_readinto w i s (b : list Z) : nth_error (w_streams w) i = Some s ->
  match pyio_readinto (st_off s) (st_len s) (st_start s) (w_data w) (w_pos w) b with
  | Some (n, o', p', d) => do_readinto true w i s (zlen b) = (upd w i (with_off s o') p', OBytes d) /\ n = zlen d
  | None => False
  end.
Proof.
  intros H. unfold pyio_readinto, do_readinto. cbn [negb]. rewrite sg_fread. fold (zlen b).
  destruct (st_len s - st_off s >? 0).
  - destruct (fread (w_data w) (st_start s + st_off s) (Z.min (st_len s - st_off s) (zlen b))) as [d p']. split; reflexivity.
  - rewrite (sg_upd_same w i s H). split; reflexivity.
Qed.

Print Assumptions sg_readinto.
