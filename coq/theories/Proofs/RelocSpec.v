(* Proofs/RelocSpec.v -- the object graph of Model/RelocCore.v refines the plain logical
   specification: erasing link counts and relocation marks from the state after any history
   gives exactly the tree the edits imply ([logical_spec]), whatever was relocated. *)
From Coq Require Import ZArith List Bool Lia.
From PV.Model Require Import RelocCore.
From PV.Proofs Require Import RelocBase.
Import ListNotations.
Local Open Scope Z_scope.

Lemma rl_liso_erase n : liso (erase n) = niso n.
Proof. destruct n; reflexivity. Qed.

Lemma rl_l_has_erase c l : l_has c (map erase l) = has_name c l.
Proof. induction l as [|h l IH]; cbn [map l_has has_name]; [reflexivity|]. rewrite rl_liso_erase, IH. reflexivity. Qed.

Lemma rl_l_find_erase c l : l_find c (map erase l) = option_map erase (find_kid c l).
Proof.
  induction l as [|h l IH]; cbn [map l_find find_kid]; [reflexivity|]. rewrite rl_liso_erase.
  destruct (neqb (niso h) c); [reflexivity|exact IH].
Qed.

Lemma rl_l_ins_erase n l : l_ins (erase n) (map erase l) = map erase (ins n l).
Proof.
  induction l as [|h l IH]; cbn [map l_ins ins]; [reflexivity|]. rewrite !rl_liso_erase.
  destruct (nlt (niso h) (niso n)); cbn [map]; [rewrite IH|]; reflexivity.
Qed.

Lemma rl_l_del_erase c l : l_del c (map erase l) = map erase (del_kid c l).
Proof.
  induction l as [|h l IH]; cbn [map l_del del_kid]; [reflexivity|]. rewrite rl_liso_erase.
  destruct (neqb (niso h) c); cbn [map]; [|rewrite IH]; reflexivity.
Qed.

Lemma rl_l_on_erase c g g' l : (forall k, g' (erase k) = option_map erase (g k)) ->
  l_on c g' (map erase l) = option_map (map erase) (on_kid c g l).
Proof.
  intros Hg. induction l as [|h l IH]; cbn [map l_on on_kid]; [reflexivity|]. rewrite rl_liso_erase.
  destruct (neqb (niso h) c).
  - rewrite Hg. destruct (g h); reflexivity.
  - rewrite IH. destruct (on_kid c g l); reflexivity.
Qed.

Lemma rl_l_at_erase g g' p : (forall k, g' (erase k) = option_map erase (g k)) ->
  forall l, l_at p g' (map erase l) = option_map (map erase) (at_path p g l).
Proof.
  intros Hg. induction p as [|c p IH]; intros l; [reflexivity|].
  destruct p as [|c2 p]; [apply rl_l_on_erase; exact Hg|].
  change (l_at (c :: c2 :: p) g' (map erase l))
    with (l_on c (fun k => match k with
                           | LDir i r ks => option_map (LDir i r) (l_at (c2 :: p) g' ks)
                           | LLeaf _ _ _ => None
                           end) (map erase l)).
  change (at_path (c :: c2 :: p) g l)
    with (on_kid c (fun k => match k with
                             | Dir i r e d m ks => option_map (Dir i r e d m) (at_path (c2 :: p) g ks)
                             | Leaf _ _ _ => None
                             end) l).
  apply rl_l_on_erase. intros [i r e d m ks|sy i r]; cbn [erase]; [|reflexivity].
  rewrite IH. destruct (at_path (c2 :: p) g ks); reflexivity.
Qed.

Lemma rl_l_get_erase p : forall l, l_get p (map erase l) = option_map erase (get p l).
Proof.
  induction p as [|c p IH]; intros l; [reflexivity|]. cbn [l_get get]. rewrite rl_l_find_erase.
  destruct (find_kid c l) as [k|]; cbn [option_map]; [|reflexivity].
  destruct p as [|c2 p]; [reflexivity|]. destruct k as [i r e d m ks|]; cbn [erase]; [|reflexivity].
  apply IH.
Qed.

(* ---- add_node / del_node ------------------------------------------------------------------- *)
Lemma rl_add_node_spec s q new b :
  l_add (logical s) q (erase new) = option_map logical (add_node s q new b).
Proof.
  unfold logical, l_add, add_node. destruct q as [|c q].
  - rewrite rl_liso_erase, rl_l_has_erase. destruct (has_name (niso new) (s_kids s)); [reflexivity|].
    cbn [option_map bump_root set_kids s_kids]. rewrite rl_l_ins_erase. reflexivity.
  - rewrite (rl_l_at_erase (add_in new b)).
    + destruct (at_path (c :: q) (add_in new b) (s_kids s)); reflexivity.
    + intros [i r e d m ks|sy i r]; cbn [erase add_in]; [|reflexivity].
      rewrite rl_liso_erase, rl_l_has_erase. destruct (has_name (niso new) ks); [reflexivity|].
      cbn [option_map erase]. rewrite rl_l_ins_erase. reflexivity.
Qed.

Lemma rl_del_node_spec s q c b :
  l_rm (logical s) q c = option_map logical (del_node s q c b).
Proof.
  unfold logical, l_rm, del_node. destruct q as [|c1 q].
  - cbn [option_map bump_root set_kids s_kids]. rewrite rl_l_del_erase. reflexivity.
  - rewrite (rl_l_at_erase (del_in c b)).
    + destruct (at_path (c1 :: q) (del_in c b) (s_kids s)); reflexivity.
    + intros [i r e d m ks|sy i r]; cbn [erase del_in option_map]; [|reflexivity].
      rewrite rl_l_del_erase. reflexivity.
Qed.

Lemma rl_logical_ensure s : logical (ensure_moved s) = logical s.
Proof. unfold ensure_moved. destruct (s_moved s); reflexivity. Qed.

Lemma rl_logical_bump s v : logical (bump_moved s v) = logical s.
Proof. unfold bump_moved. destruct (s_moved s) as [[? ?]|]; reflexivity. Qed.

Lemma rl_logical_drop s : logical (drop_moved s) = logical s.
Proof.
  unfold drop_moved. destruct (s_moved s) as [[? ?]|]; [|reflexivity].
  destruct (_ =? 1); reflexivity.
Qed.

(* ---- one operation ------------------------------------------------------------------------- *)
Theorem rl_step_spec s o : snd (step s o) <> Oom ->
  logical (fst (step s o)) = spec_step (logical s) o.
Proof.
  unfold step. destruct (op_ok o); cbn [negb]; [|intros H; contradiction H; reflexivity].
  destruct o as [p rr|p|sy p rr|p|]; cbn [spec_step]; [| | | |reflexivity].
  - unfold add_dir. destruct (split_last p) as [[q nm]|]; [|reflexivity].
    change (LDir nm rr []) with (erase (new_dir nm rr None)).
    destruct (relocates p).
    + destruct (fresh_name nm (mnames (s_kids s))) as [mn|]; [|intros H; contradiction H; reflexivity].
      intros _. change (erase (new_dir nm rr None)) with (erase (new_dir nm rr (Some mn))).
      rewrite <- (rl_logical_ensure s), (rl_add_node_spec _ q _ true).
      destruct (add_node (ensure_moved s) q (new_dir nm rr (Some mn)) true) as [s2|];
        cbn [fst option_map or_same]; [apply rl_logical_bump|symmetry; apply rl_logical_ensure].
    + intros _. rewrite (rl_add_node_spec _ q _ true).
      destruct (add_node s q (new_dir nm rr None) true) as [s2|]; reflexivity.
  - intros _. unfold rm_dir. destruct (split_last p) as [[q nm]|]; [|reflexivity].
    unfold logical at 2. rewrite rl_l_get_erase.
    destruct (get p (s_kids s)) as [[i r e d m [|k0 ks0]|sy i r]|]; cbn [option_map erase map]; try reflexivity.
    destruct m as [mn|].
    + rewrite <- (rl_logical_drop s), (rl_del_node_spec _ q nm true).
      destruct (del_node (drop_moved s) q nm true); cbn [fst option_map or_same];
        [reflexivity|symmetry; apply rl_logical_drop].
    + rewrite (rl_del_node_spec _ q nm true). destruct (del_node s q nm true); reflexivity.
  - intros _. unfold add_leaf. destruct (split_last p) as [[q nm]|]; [|reflexivity].
    change (LLeaf sy nm rr) with (erase (Leaf sy nm rr)). rewrite (rl_add_node_spec _ q _ false).
    destruct (add_node s q (Leaf sy nm rr) false); reflexivity.
  - intros _. unfold rm_leaf. destruct (split_last p) as [[q nm]|]; [|reflexivity].
    unfold logical at 2. rewrite rl_l_get_erase.
    destruct (get p (s_kids s)) as [[i r e d m ks|sy i r]|]; cbn [option_map erase]; try reflexivity.
    rewrite (rl_del_node_spec _ q nm false). destruct (del_node s q nm false); reflexivity.
Qed.

Theorem rl_run_spec ops : forall s, run_ok s ops = true ->
  logical (run s ops) = fold_left spec_step ops (logical s).
Proof.
  induction ops as [|o ops IH]; intros s H; cbn [run run_ok fold_left] in *; [reflexivity|].
  destruct (snd (step s o)) eqn:E; try discriminate;
    (rewrite (IH _ H), rl_step_spec; [reflexivity|rewrite E; discriminate]).
Qed.

(* the refused and out-of-model operations leave the state alone *)
Theorem rl_step_refused s o : snd (step s o) <> Acc -> fst (step s o) = s.
Proof.
  unfold step. destruct (op_ok o); cbn [negb]; [|reflexivity].
  destruct o as [p rr|p|sy p rr|p|]; [| | | |intros H; contradiction H; reflexivity].
  - unfold add_dir. destruct (split_last p) as [[q nm]|]; [|reflexivity].
    destruct (relocates p).
    + destruct (fresh_name _ _); [|reflexivity]. destruct (add_node _ _ _ _); [|reflexivity].
      intros H; contradiction H; reflexivity.
    + destruct (add_node _ _ _ _); [|reflexivity]. intros H; contradiction H; reflexivity.
  - unfold rm_dir. destruct (split_last p) as [[q nm]|]; [|reflexivity].
    destruct (get p (s_kids s)) as [[i r e d m [|k0 ks0]|sy i r]|]; try reflexivity.
    destruct (del_node _ _ _ _); [|reflexivity]. intros H; contradiction H; reflexivity.
  - unfold add_leaf. destruct (split_last p) as [[q nm]|]; [|reflexivity].
    destruct (add_node _ _ _ _); [|reflexivity]. intros H; contradiction H; reflexivity.
  - unfold rm_leaf. destruct (split_last p) as [[q nm]|]; [|reflexivity].
    destruct (get p (s_kids s)) as [[i r e d m ks|sy i r]|]; try reflexivity.
    destruct (del_node _ _ _ _); [|reflexivity]. intros H; contradiction H; reflexivity.
Qed.
