(* Proofs about Model/UdfVds.v, part 3: partition maps and the Logical Volume Descriptor, the Logical
   Volume Integrity Descriptor (+ UDFLogicalVolumeImplementationUse), the num_files / num_dirs counters
   and the part_length / size_tables[0] bookkeeping of pycdlib.py.
     lvd_sound_partial lvd_roundtrip_refuted   parse(record d) = d needs len(all partition maps) < 72:
                                               12 type-1 maps (72 bytes) are recorded but rejected by parse
     lvid_sound counters_invariant lvid_counts_recorded sizes_sync sizes_new_sync
   All closed under the global context. *)
From Coq Require Import ZArith List Bool Lia ZifyBool.
From PV.Base Require Import Prim ListX.
From PV.Gen Require Import GenConst GenFun.
From PV.Model Require Import Codec Checksums Udf UdfVds UdfVdsBook.
From PV.Proofs Require Import CodecProofs UdfProofs UdfFeProofs UdfVdsProofs.
Import ListNotations.
Local Open Scope Z_scope.
Ltac Zify.zify_post_hook ::= Z.to_euclidean_division_equations.

(* ---- partition maps ---- *)
Definition pmap_wf (m : pmap) : Prop :=
  match m with
  | PMap0 d => 2 + zlen d <= 255 /\ zbytes d
  | PMap1 v p => u16 v /\ u16 p
  | PMap2 i => length i = 62%nat /\ zbytes i
  end.
Lemma pmap_zb m : pmap_wf m -> zbytes (pmap_bytes m).
Proof.
  destruct m as [d|v p|i]; cbn [pmap_wf pmap_bytes]; intros [H1 H2].
  - pose proof (zlen_nonneg d). apply zbytes_app; [|exact H2]. repeat constructor; lia.
  - apply zbytes_app; [repeat constructor; lia|auto with zb].
  - apply zbytes_app; [repeat constructor; lia|auto with zb].
Qed.
(* the two-byte header of a recorded map gives its type and its exact length; parse inverts record *)
Lemma pmap_head m X : pmap_wf m -> exists t,
  split_widths [1; 1]%nat (pmap_bytes m ++ X) = Some ([[t]; [zlen (pmap_bytes m)]], skipn 2 (pmap_bytes m ++ X)) /\
  pmap_parse t (pmap_bytes m) = Some m /\ 2 <= zlen (pmap_bytes m) <= 255.
Proof.
  destruct m as [d|v p|i]; cbn [pmap_wf pmap_bytes]; intros [H1 H2].
  - exists 0. pose proof (zlen_nonneg d).
    assert (E : zlen ([0; 2 + zlen d] ++ d) = 2 + zlen d) by (rewrite zlen_app; reflexivity).
    rewrite E. split; [reflexivity|]. split; [|lia]. unfold pmap_parse. cbn [Z.eqb].
    change (split_widths [1; 1]%nat ([0; 2 + zlen d] ++ d)) with (Some ([[0]; [2 + zlen d]], d)).
    unfold d8. cbn [nth]. rewrite E, Z.eqb_refl. reflexivity.
  - exists 1. split; [reflexivity|]. split; [|cbn; lia]. unfold pmap_parse. cbn [Z.eqb Pos.eqb].
    change (split_widths [1; 1; 2; 2]%nat ([1; 6] ++ le16 v ++ le16 p)) with (Some ([[1]; [6]; le16 v; le16 p], @nil Z)).
    unfold d8. cbn [nth Z.eqb Pos.eqb negb]. rewrite !le16_dle16 by assumption. reflexivity.
  - exists 2. rewrite pack_s_exact by exact H1.
    assert (E : zlen ([2; 64] ++ i) = 64) by (rewrite zlen_app; unfold zlen; rewrite H1; reflexivity).
    rewrite E. split; [reflexivity|]. split; [|lia]. unfold pmap_parse. cbn [Z.eqb Pos.eqb].
    replace [1; 1; 62]%nat with (map (@length Z) [[2]; [64]; i]) by (cbn [map length]; congruence).
    replace ([2; 64] ++ i) with (concat [[2]; [64]; i]) by (cbn [concat app]; rewrite app_nil_r; reflexivity).
    rewrite split_concat_nil. reflexivity.
Qed.
Definition pmaps_bytes (ms : list pmap) : list Z := concat (map pmap_bytes ms).
Lemma pmaps_zb ms : Forall pmap_wf ms -> zbytes (pmaps_bytes ms).
Proof.
  intros H. apply zbytes_concat. induction H; cbn [map]; constructor; [apply pmap_zb; assumption|assumption].
Qed.
Lemma pmaps_len_ge ms : Forall pmap_wf ms -> 2 * zlen ms <= zlen (pmaps_bytes ms).
Proof.
  unfold pmaps_bytes. induction 1 as [|m ms Hm _ IH]; [cbn; lia|]. cbn [map concat].
  destruct (pmap_head m [] Hm) as (_ & _ & _ & Hl). rewrite zlen_app, zlen_cons. lia.
Qed.
Lemma pmaps_rt ms : forall tail left, Forall pmap_wf ms -> zlen (pmaps_bytes ms) <= left ->
  pmaps_parse (length ms) (pmaps_bytes ms ++ tail) left = Some ms.
Proof.
  unfold pmaps_bytes. induction ms as [|m ms IH]; intros tail left Hw Hl; [reflexivity|].
  inversion Hw as [|? ? Hm Hms]; subst. cbn [length pmaps_parse map concat]. cbn [map concat] in Hl.
  rewrite zlen_app in Hl. rewrite <- app_assoc.
  destruct (pmap_head m (concat (map pmap_bytes ms) ++ tail) Hm) as (t & Hs & Hp & Hr).
  rewrite Hs. unfold d8. cbn [nth]. pose proof (zlen_nonneg (concat (map pmap_bytes ms) ++ tail)).
  pose proof (zlen_nonneg (concat (map pmap_bytes ms))). rewrite zlen_app. kill_ifs.
  rewrite to_nat_zlen, firstn_length_app, skipn_length_app, Hp.
  rewrite IH by (assumption || lia). reflexivity.
Qed.

(* ---- Logical Volume Descriptor ---- *)
Definition lvd_wf0 (d : lvd) : Prop :=
  charspec_wf (lv_char_set d) /\ entity_wf (lv_domain d) /\
  firstn 19 (en_ident (lv_domain d)) = str_osta_compliant /\ lad_wf (lv_contents_use d) /\
  entity_wf (lv_impl_ident d) /\ extad_wf (lv_integrity d) /\ length (lv_ident d) = 128%nat /\
  length (lv_impl_use d) = 128%nat /\ zbytes (lv_ident d) /\ zbytes (lv_impl_use d) /\ Forall pmap_wf (lv_maps d).
Definition lvd_wf (d : lvd) : Prop := lvd_wf0 d /\ zlen (lvd_all_partmaps d) < 72.
Lemma lvd_layout d : map (@length Z) (lvd_fields d) = [4; 64; 128; 4; 32; 16; 4; 4; 32; 128; 8; 72]%nat.
Proof. cbn [lvd_fields map]. cbv zeta. autorewrite with vlen. reflexivity. Qed.
Lemma pack_s_zeros n l k : (length l + k <= n)%nat -> pack_s n (l ++ zeros k) = l ++ zeros (n - length l).
Proof.
  intros H. unfold pack_s, zeros. rewrite firstn_all2 by (rewrite app_length, repeat_length; lia).
  rewrite <- app_assoc, <- repeat_app, app_length, repeat_length. do 2 f_equal. lia.
Qed.
Lemma lvd_spec : body_spec lvd_wf lvd_body lvd_parse_body.
Proof.
  intros d b ((C & E1 & Hs & A & E2 & X & L1 & L2 & B1 & B2 & M) & Hlt) Hb.
  apply body_of_inv in Hb. destruct Hb as [Hok ->]. unfold lvd_ok, u32_ok in Hok.
  pose proof (pmaps_zb _ M) as Hzb. pose proof (pmaps_len_ge _ M) as Hge.
  change (pmaps_bytes (lv_maps d)) with (lvd_all_partmaps d) in Hzb, Hge. pose proof (zlen_nonneg (lvd_all_partmaps d)) as Hnn.
  split; [apply zbytes_concat; cbn [lvd_fields]; cbv zeta; zb_fields|].
  split; [apply (fields_zlen _ _ _ (lvd_layout d)); reflexivity|].
  intros h rest Hh. unfold lvd_parse_body. rewrite (tagged_split h _ rest _ Hh (lvd_layout d)).
  cbn [lvd_fields]. cbv zeta. rewrite !le32_dle32 by rng.
  rewrite pack_s_zeros.
  2:{ unfold zero_pad_len, zlen in *. destruct (_ =? 72); lia. }
  rewrite !pack_s_exact by assumption.
  assert (E72 : zlen (lvd_all_partmaps d ++ zeros (72 - length (lvd_all_partmaps d))) = 72).
  { rewrite zlen_app. unfold zeros, zlen in *. rewrite repeat_length. lia. }
  rewrite E72. kill_ifs. rewrite to_nat_zlen.
  rewrite charspec_rt, !entity_rt, extad_rt0, lad_rt, Hs, zlist_eqb_refl by assumption.
  unfold lvd_all_partmaps. rewrite (pmaps_rt (lv_maps d)) by (assumption || (unfold pmaps_bytes; lia)).
  destruct d; reflexivity.
Qed.
Theorem lvd_sound_partial t d r : lvd_wf d -> lvd_record (t, d) = Some r -> tag_wf 6 t ->
  length r = 512%nat /\ verify_tag r = true /\
  forall rest ext, lvd_parse (r ++ rest) ext = Some (retag t ext (crclen_rec t), d).
Proof. apply (desc_sound 6 lvd_wf lvd_body lvd_parse_body lvd_spec). Qed.

(* new() + add_partition_map(1) twelve times (add_partition_map only refuses when the maps ALREADY
   recorded exceed 72 bytes): record() succeeds and the verifier accepts it, parse() raises
   'Map table length greater than size of partition map data' because of its ">=" test *)
Definition ex_lvd12 : lvd :=
  mk_lvd 3 (mk_charspec 0 (zeros 63)) (zeros 128) (mk_entity 0 (pack_s 23 str_osta_compliant) (zeros 8))
         (longad_new 4096 0) (mk_entity 0 (pack_s 23 str_pycdlib) (zeros 8)) (zeros 128)
         (mk_extent_ad 4096 64) (repeat (PMap1 1 0) 12).
Theorem lvd_roundtrip_refuted : exists d r,
  lvd_wf0 d /\ zlen (lvd_all_partmaps d) = 72 /\ lvd_record (tag_new 6 0, d) = Some r /\
  verify_tag r = true /\ lvd_parse r 0 = None.
Proof.
  exists ex_lvd12. eexists. split; [|split; [reflexivity|split; [vm_compute; reflexivity|split; vm_compute; reflexivity]]].
  unfold lvd_wf0, ex_lvd12, charspec_wf, entity_wf, lad_wf, extad_wf, u32, u16. cbn.
  repeat split; try lia; try reflexivity; try apply zbytes_repeat0;
    try (apply zbytes_pack_s; repeat constructor; lia); repeat constructor; unfold u16; lia.
Qed.

(* ---- Logical Volume Integrity Descriptor ---- *)
Definition lvid_wf (d : lvid) : Prop :=
  ts_wf (li_date d) /\ (li_type d = 0 \/ li_type d = 1) /\ extad_wf (li_next d) /\
  zlen (li_free d) = li_num_partitions d /\ zlen (li_size d) = li_num_partitions d /\
  li_length_impl_use d <= 432 - 8 * li_num_partitions d /\ entity_wf (lu_impl_id (li_impl d)) /\
  zbytes (lu_impl_use (li_impl d)) /\ zlen (lu_impl_use (li_impl d)) = 386 - 8 * li_num_partitions d.
Lemma le32s_len vs : zlen (concat (map le32 vs)) = 4 * zlen vs.
Proof. induction vs as [|v vs IH]; [reflexivity|]. cbn [map concat]. rewrite zlen_app, zlen_cons, IH. change (zlen (le32 v)) with 4. lia. Qed.
Lemma le32s_zb vs : zbytes (concat (map le32 vs)).
Proof. apply zbytes_concat. induction vs; cbn [map]; constructor; auto with zb. Qed.
Lemma le32s_rt vs : forall s, forallb u32_ok vs = true ->
  le32s_parse (length vs) (concat (map le32 vs) ++ s) = Some (vs, s).
Proof.
  induction vs as [|v vs IH]; intros s H; [reflexivity|]. cbn [forallb] in H. apply andb_prop in H.
  destruct H as [Hv H]. cbn [length le32s_parse map concat]. rewrite <- app_assoc.
  change (length (le32 v ++ concat (map le32 vs) ++ s) <? 4)%nat with false.
  rewrite (skipn_app_exact 4), (firstn_app_exact 4), IH by (reflexivity || exact H).
  rewrite le32_dle32 by (apply u32_ok_spec; exact Hv). reflexivity.
Qed.
Lemma lvimpl_zlen u : zlen (lvimpl_bytes u) = 46 + zlen (lu_impl_use u).
Proof. unfold lvimpl_bytes, zlen. rewrite !app_length, entity_len. cbn [length le32 le16]. lia. Qed.
Lemma lvimpl_rt u : entity_wf (lu_impl_id u) -> lvimpl_ok u = true -> lvimpl_parse (lvimpl_bytes u) = Some u.
Proof.
  intros He Hok. unfold lvimpl_ok, u32_ok, u16_ok in Hok. unfold lvimpl_parse, lvimpl_bytes.
  set (fs := [entity_bytes (lu_impl_id u); le32 (lu_num_files u); le32 (lu_num_dirs u); le16 (lu_min_read u);
              le16 (lu_min_write u); le16 (lu_max_write u)]).
  replace (entity_bytes (lu_impl_id u) ++ _) with (concat fs ++ lu_impl_use u)
    by (unfold fs; cbn [concat]; rewrite app_nil_r, <- !app_assoc; reflexivity).
  replace [32; 4; 4; 2; 2; 2]%nat with (map (@length Z) fs) by (unfold fs; cbn [map]; rewrite entity_len; reflexivity).
  rewrite split_concat. unfold fs. rewrite entity_rt, !le32_dle32, !le16_dle16 by (assumption || rng).
  destruct u; reflexivity.
Qed.
Lemma lvid_layout d : map (@length Z) (lvid_fields d) = [12; 4; 8; 32; 4; 4; 432]%nat.
Proof. cbn [lvid_fields map]. autorewrite with vlen. reflexivity. Qed.
Lemma lvid_spec : body_spec lvid_wf lvid_body lvid_parse_body.
Proof.
  intros d b (T & Ht & X & F & S & Hl & E & B & Lu) Hb. apply body_of_inv in Hb. destruct Hb as [Hok ->].
  unfold lvid_ok in Hok. apply andb_prop in Hok. destruct Hok as [Hok Hu].
  apply andb_prop in Hok. destruct Hok as [Hok Hs]. apply andb_prop in Hok. destruct Hok as [Hok Hf].
  unfold u32_ok, u64_ok in Hok.
  pose proof (le32s_len (li_free d)) as Lf. pose proof (le32s_len (li_size d)) as Ls.
  pose proof (lvimpl_zlen (li_impl d)) as Li. pose proof (zlen_nonneg (lu_impl_use (li_impl d))) as Hnn.
  assert (Hend : length (lvid_end d) = 432%nat).
  { unfold lvid_end. rewrite !app_length. unfold zlen in *. lia. }
  split.
  { apply zbytes_concat. cbn [lvid_fields]. pose proof (le32s_zb (li_free d)). pose proof (le32s_zb (li_size d)).
    assert (zbytes (lvid_end d)).
    { unfold lvid_end, lvimpl_bytes. auto 15 with zb. }
    zb_fields. }
  split; [apply (fields_zlen _ _ _ (lvid_layout d)); reflexivity|].
  intros h rest Hh. unfold lvid_parse_body. rewrite (tagged_split h _ rest _ Hh (lvid_layout d)).
  cbn [lvid_fields]. rewrite !le32_dle32 by rng. rewrite pack_s_exact by exact Hend.
  rewrite (firstn_app_exact 8) by reflexivity. rewrite le64_dle64 by lia.
  rewrite ts_rt, extad_rt0 by assumption. unfold lvid_end.
  rewrite <- F at 2. rewrite to_nat_zlen, le32s_rt by exact Hf.
  rewrite <- S at 2. rewrite to_nat_zlen, le32s_rt by exact Hs.
  rewrite lvimpl_rt by assumption. kill_ifs. destruct d; reflexivity.
Qed.
Theorem lvid_sound t d r : lvid_wf d -> lvid_record (t, d) = Some r -> tag_wf 9 t ->
  length r = 512%nat /\ verify_tag r = true /\
  forall rest ext, lvid_parse (r ++ rest) ext = Some (retag t ext (crclen_rec t), d).
Proof. apply (desc_sound 9 lvid_wf lvid_body lvid_parse_body lvid_spec). Qed.

(* ---- num_files / num_dirs ---- *)
Definition lvimpl_run (u : lvimpl) (evs : list cnt_event) : lvimpl := fold_left lvimpl_event evs u.
Theorem counters_invariant evs : forall u,
  lu_num_files (lvimpl_run u evs) = lu_num_files u + net_files evs /\
  lu_num_dirs (lvimpl_run u evs) = lu_num_dirs u + net_dirs evs /\
  lu_impl_id (lvimpl_run u evs) = lu_impl_id u /\ lu_impl_use (lvimpl_run u evs) = lu_impl_use u.
Proof.
  unfold lvimpl_run, net_files, net_dirs. induction evs as [|e evs IH]; intros u.
  - cbn. repeat split; lia.
  - cbn [fold_left map]. destruct (IH (lvimpl_event u e)) as (H1 & H2 & H3 & H4).
    rewrite H1, H2, H3, H4, !zsum_cons.
    destruct e; cbn [lvimpl_event lvimpl_with_counts lu_num_files lu_num_dirs lu_impl_id lu_impl_use file_delta dir_delta];
      repeat split; lia.
Qed.
Definition lvid_with_impl (d : lvid) (u : lvimpl) : lvid :=
  mk_lvid (li_date d) (li_type d) (li_next d) (li_unique_id d) (li_num_partitions d) (li_length_impl_use d)
          (li_free d) (li_size d) u.
(* after any sequence of add / remove events the descriptor that gets written carries the counts:
   a reader recovers initial + (#adds - #removes), and record() exists only while they fit 32 bits *)
Theorem lvid_counts_recorded t d evs r rest ext : lvid_wf d ->
  lvid_record (t, lvid_with_impl d (lvimpl_run (li_impl d) evs)) = Some r -> tag_wf 9 t ->
  exists t' d', lvid_parse (r ++ rest) ext = Some (t', d') /\ verify_tag r = true /\
    lu_num_files (li_impl d') = lu_num_files (li_impl d) + net_files evs /\
    lu_num_dirs (li_impl d') = lu_num_dirs (li_impl d) + net_dirs evs /\
    u32 (lu_num_files (li_impl d')) /\ u32 (lu_num_dirs (li_impl d')).
Proof.
  intros Hw Hrec Ht. destruct (counters_invariant evs (li_impl d)) as (H1 & H2 & H3 & H4).
  set (d1 := lvid_with_impl d (lvimpl_run (li_impl d) evs)) in *.
  assert (Hw1 : lvid_wf d1).
  { destruct Hw as (T & Hty & X & F & S & Hl & E & B & Lu). unfold lvid_wf, d1, lvid_with_impl.
    cbn [li_date li_type li_next li_num_partitions li_free li_size li_length_impl_use li_impl].
    rewrite H3, H4. repeat (split; [assumption|]). assumption. }
  destruct (lvid_sound t d1 r Hw1 Hrec Ht) as (_ & Hv & Hp).
  exists (retag t ext (crclen_rec t)), d1. split; [apply Hp|]. split; [exact Hv|].
  split; [exact H1|]. split; [exact H2|].
  unfold lvid_record, desc_record in Hrec. cbn [fst snd] in Hrec.
  destruct (lvid_body d1) as [b|] eqn:Hb; [|discriminate]. apply body_of_inv in Hb. destruct Hb as [Hok _].
  unfold lvid_ok in Hok. apply andb_prop in Hok. destruct Hok as [_ Hu].
  unfold lvimpl_ok, u32_ok in Hu. unfold u32. lia.
Qed.

(* ---- part_length (main and reserve) and size_tables[0] move together ---- *)
Definition sizes_synced (s : udf_sizes) : Prop :=
  hd_error (uz_size_tables s) = Some (uz_main_len s) /\ uz_reserve_len s = uz_main_len s.
Lemma sizes_shift_synced s k s' : sizes_shift s k = Some s' -> sizes_synced s ->
  sizes_synced s' /\ uz_main_len s' = uz_main_len s + k /\ tl (uz_size_tables s') = tl (uz_size_tables s).
Proof.
  unfold sizes_shift, sizes_synced. destruct (uz_size_tables s) as [|x r]; [discriminate|].
  intros H [H1 H2]. apply some_inv in H. subst s'. cbn in *. apply some_inv in H1. repeat split; try lia. f_equal. lia.
Qed.
Theorem sizes_sync evs : forall s s', sizes_run s evs = Some s' -> sizes_synced s ->
  sizes_synced s' /\ tl (uz_size_tables s') = tl (uz_size_tables s).
Proof.
  induction evs as [|e evs IH]; intros s s' Hrun Hs; cbn [sizes_run] in Hrun.
  - apply some_inv in Hrun. subst s'. auto.
  - destruct (sizes_event s e) as [s1|] eqn:He; [|discriminate].
    assert (H1 : sizes_synced s1 /\ tl (uz_size_tables s1) = tl (uz_size_tables s)).
    { destruct e as [n|n [|]]; cbn [sizes_event] in He.
      - destruct (sizes_shift_synced _ _ _ He Hs) as (A & _ & B). auto.
      - destruct (sizes_shift_synced _ _ _ He Hs) as (A & _ & B). auto.
      - apply some_inv in He. subst s1. auto. }
    destruct H1 as [A B]. destruct (IH s1 s' Hrun A) as [C D]. split; [exact C|congruence].
Qed.
(* from the values set by new() (part_length = 3 twice, size_tables = [3]) every run stays in sync and
   never raises *)
Corollary sizes_new_sync evs : exists s', sizes_run (mk_udf_sizes 3 3 [3]) evs = Some s' /\ sizes_synced s'.
Proof.
  assert (G : forall evs s, sizes_synced s -> exists s', sizes_run s evs = Some s').
  { induction evs0 as [|e evs0 IH]; intros s Hs; [eexists; reflexivity|]. cbn [sizes_run].
    assert (exists s1, sizes_event s e = Some s1) as [s1 H1].
    { destruct Hs as [Hh _]. destruct e as [n|n [|]]; cbn [sizes_event]; unfold sizes_shift;
        destruct (uz_size_tables s); try discriminate; eexists; reflexivity. }
    rewrite H1. apply IH. apply (sizes_sync [e] s s1); [cbn [sizes_run]; rewrite H1; reflexivity|exact Hs]. }
  destruct (G evs (mk_udf_sizes 3 3 [3])) as [s' H]; [split; reflexivity|].
  exists s'. split; [exact H|]. apply (sizes_sync evs _ _ H). split; reflexivity.
Qed.

Print Assumptions lvd_sound_partial.
Print Assumptions lvd_roundtrip_refuted.
Print Assumptions lvid_sound.
Print Assumptions counters_invariant.
Print Assumptions lvid_counts_recorded.
Print Assumptions sizes_sync.
Print Assumptions sizes_new_sync.
