(* Proofs about Model/Eltorito.v, part 2: EltoritoBootCatalog.record / .parse (state machine driven
   by the read(32) loop of PyCdlib._check_and_parse_eltorito) / .new / .add_section.

   Main results
     cat_bytes_length                |record()| = 32 * (2 + headers + entries)
     cat_roundtrip                   cat_wf c -> parse_catalog (record c ++ 0 :: rest) = Some c
                                     (any number of sections / entries / standalone entries)
     cat_record_alone_unterminated   record() itself carries no terminator: parse of it alone fails
     cat_new_inv add_section_inv built_inv built_roundtrip     the invariant of new + add_section
     add_section_nonbootable_refuted   a non-bootable section entry (first byte 0x00) ends the parse
     full_catalog_refuted              31 sections fill the 2048-byte extent: no terminator left
     extension_entry_lost              a 0x44 extension is parsed but never written back *)
From Coq Require Import ZArith List Bool Lia ZifyBool.
From PV.Base Require Import Prim ListX.
From PV.Gen Require Import GenConst GenFun.
From PV.Model Require Import Codec Eltorito.
From PV.Proofs Require Import CodecProofs EltoritoProofs.
Import ListNotations.
Local Open Scope Z_scope.
Ltac Zify.zify_post_hook ::= Z.to_euclidean_division_equations.

(* ---- lists ---- *)
Lemma split_last_app {A} (l : list A) x : split_last (l ++ [x]) = Some (l, x).
Proof. induction l as [|a l IH]; cbn [app split_last]; [reflexivity|rewrite IH; reflexivity]. Qed.
Lemma split_last_spec {A} (l : list A) :
  match split_last l with None => l = [] | Some (i, x) => l = i ++ [x] end.
Proof.
  induction l as [|a l IH]; cbn [split_last]; [reflexivity|].
  destruct (split_last l) as [[i y]|]; subst l; reflexivity.
Qed.

(* ---- the loop, one 32-byte record at a time ---- *)
Lemma loop_step f st chunk rest st' :
  length chunk = 32%nat -> cat_parse_step st chunk = Some (st', false) ->
  parse_loop (S f) st (chunk ++ rest) = parse_loop f st' rest.
Proof.
  intros Hl Hs. cbn [parse_loop]. rewrite (firstn_app_exact 32) by exact Hl.
  rewrite (skipn_app_exact 32) by exact Hl. rewrite Hs. reflexivity.
Qed.

Lemma entry_bytes_head e : exists t, entry_bytes e = e_boot_indicator e :: t.
Proof. eexists. unfold entry_bytes, entry_fields. cbn [concat app]. reflexivity. Qed.
Definition hdr_bytes (h : et_header) : list Z := concat (header_fields h).
Lemma hdr_bytes_head h : exists t, hdr_bytes h = h_indicator h :: t.
Proof. eexists. unfold hdr_bytes, header_fields. cbn [concat app]. reflexivity. Qed.
Lemma header_bytes_eq h : header_bytes h = hdr_bytes h ++ concat (map entry_bytes (h_entries h)).
Proof. reflexivity. Qed.

Lemma step_val v : val_ok v = true ->
  cat_parse_step PExpectVal (val_bytes v) = Some (PExpectInit v, false).
Proof. intros H. cbn [cat_parse_step]. destruct (val_roundtrip v H) as (_ & _ & Hp). rewrite Hp. reflexivity. Qed.
Lemma step_init v e : entry_ok e = true ->
  cat_parse_step (PExpectInit v) (entry_bytes e) = Some (PSections v e [] [], false).
Proof. intros H. cbn [cat_parse_step]. destruct (entry_roundtrip e H) as (_ & _ & Hp). rewrite Hp. reflexivity. Qed.

Lemma step_header v i secs sa h : header_ok h = true ->
  cat_parse_step (PSections v i secs sa) (hdr_bytes h) =
  Some (PSections v i (secs ++ [header_set_entries h (h_num_entries h) []]) sa, false).
Proof.
  intros H. destruct (header_roundtrip h H) as (Hp & _ & _).
  rewrite header_bytes_eq, (firstn_app_exact 32) in Hp by apply header_fields_length.
  destruct (hdr_bytes_head h) as [t Ht]. rewrite Ht in *.
  unfold header_ok in H. andb_split H. unfold cat_parse_step.
  destruct (h_indicator h =? 0) eqn:E0; [lia|]. rewrite H, Hp. reflexivity.
Qed.

Lemma step_entry v i pre ind pid num ids done sa e :
  entry_ok e = true -> entry_bootable e = true -> zlen done < num ->
  cat_parse_step (PSections v i (pre ++ [mk_header ind pid num ids done]) sa) (entry_bytes e) =
  Some (PSections v i (pre ++ [mk_header ind pid num ids (done ++ [e])]) sa, false).
Proof.
  intros H Hb Hn. destruct (entry_roundtrip e H) as (_ & _ & Hp).
  destruct (entry_bytes_head e) as [t Ht]. rewrite Ht in *.
  unfold entry_bootable in Hb. apply Z.eqb_eq in Hb. rewrite Hb in *.
  unfold cat_parse_step. change (136 =? 0) with false. change ((136 =? 144) || (136 =? 145)) with false.
  change ((136 =? 136) || false) with true. cbv iota. rewrite Hp, split_last_app.
  cbn [h_entries h_num_entries]. replace (zlen done <? num) with true by lia.
  unfold header_add_parsed_entry. cbn [h_entries h_num_entries]. replace (zlen done >=? num) with false by lia.
  reflexivity.
Qed.

(* the last section (if any) already has all the entries its header announced *)
Definition last_full (secs : list et_header) : bool :=
  match split_last secs with
  | None => true
  | Some (_, l) => negb (zlen (h_entries l) <? h_num_entries l)
  end.

Lemma step_standalone v i secs sa e :
  entry_ok e = true -> entry_bootable e = true -> last_full secs = true ->
  cat_parse_step (PSections v i secs sa) (entry_bytes e) = Some (PSections v i secs (sa ++ [e]), false).
Proof.
  intros H Hb Hf. destruct (entry_roundtrip e H) as (_ & _ & Hp).
  destruct (entry_bytes_head e) as [t Ht]. rewrite Ht in *.
  unfold entry_bootable in Hb. apply Z.eqb_eq in Hb. rewrite Hb in *.
  unfold cat_parse_step. change (136 =? 0) with false. change ((136 =? 144) || (136 =? 145)) with false.
  change ((136 =? 136) || false) with true. cbv iota. rewrite Hp.
  unfold last_full in Hf. destruct (split_last secs) as [[pre l]|]; [|reflexivity].
  destruct (zlen (h_entries l) <? h_num_entries l); [discriminate Hf|reflexivity].
Qed.

(* ---- whole lists of records ---- *)
Lemma loop_entries v i pre ind pid num ids sa rest f : forall todo done,
  forallb entry_ok todo = true -> forallb entry_bootable todo = true ->
  zlen done + zlen todo = num ->
  parse_loop (length todo + f) (PSections v i (pre ++ [mk_header ind pid num ids done]) sa)
             (concat (map entry_bytes todo) ++ rest) =
  parse_loop f (PSections v i (pre ++ [mk_header ind pid num ids (done ++ todo)]) sa) rest.
Proof.
  induction todo as [|e todo IH]; intros done Ho Hb Hn.
  - cbn [length map concat app plus]. rewrite app_nil_r. reflexivity.
  - cbn [forallb] in Ho, Hb. apply andb_prop in Ho. apply andb_prop in Hb.
    destruct Ho as [Ho1 Ho2]. destruct Hb as [Hb1 Hb2]. rewrite zlen_cons in Hn.
    pose proof (zlen_nonneg todo) as Hnn.
    cbn [length map concat plus]. rewrite <- app_assoc.
    rewrite (loop_step _ _ _ _ _ (entry_bytes_length e)
               (step_entry v i pre ind pid num ids done sa e Ho1 Hb1 ltac:(lia))).
    rewrite IH by (try assumption; rewrite zlen_app, zlen_cons, zlen_nil; lia).
    rewrite <- app_assoc. reflexivity.
Qed.

(* number of 32-byte records of a list of sections *)
Fixpoint nrec (ss : list et_header) : nat :=
  match ss with [] => O | s :: r => S (length (h_entries s) + nrec r) end.

Lemma section_ok_inv s : section_ok s = true ->
  header_ok s = true /\ h_num_entries s = zlen (h_entries s) /\ forallb entry_ok (h_entries s) = true.
Proof.
  unfold section_ok. intros H. apply andb_prop in H. destruct H as [H H0].
  apply andb_prop in H. destruct H as [H H1]. split; [exact H|split; [lia|exact H0]].
Qed.

Lemma loop_sections v i sa rest f : forall ss pre,
  forallb section_ok ss = true ->
  forallb (fun h => forallb entry_bootable (h_entries h)) ss = true ->
  parse_loop (nrec ss + f) (PSections v i pre sa) (concat (map header_bytes ss) ++ rest) =
  parse_loop f (PSections v i (pre ++ ss) sa) rest.
Proof.
  induction ss as [|s ss IH]; intros pre Ho Hb.
  - cbn [nrec map concat app plus]. rewrite app_nil_r. reflexivity.
  - cbn [forallb] in Ho, Hb. apply andb_prop in Ho. apply andb_prop in Hb.
    destruct Ho as [Ho1 Ho2]. destruct Hb as [Hb1 Hb2].
    destruct (section_ok_inv s Ho1) as (Hh & Hn & He).
    cbn [nrec map concat plus]. rewrite header_bytes_eq, <- !app_assoc.
    rewrite (loop_step _ _ _ _ _ (header_fields_length s) (step_header v i pre sa s Hh)).
    unfold header_set_entries. rewrite <- Nat.add_assoc.
    rewrite (loop_entries v i pre _ _ _ _ sa _ _ (h_entries s) []) by (try assumption; rewrite zlen_nil; lia).
    cbn [app]. rewrite IH by assumption. rewrite <- app_assoc. cbn [app]. destruct s; reflexivity.
Qed.

Lemma loop_standalone v i secs rest f : last_full secs = true -> forall es sa,
  forallb entry_ok es = true -> forallb entry_bootable es = true ->
  parse_loop (length es + f) (PSections v i secs sa) (concat (map entry_bytes es) ++ rest) =
  parse_loop f (PSections v i secs (sa ++ es)) rest.
Proof.
  intros Hf. induction es as [|e es IH]; intros sa Ho Hb.
  - cbn [length map concat app plus]. rewrite app_nil_r. reflexivity.
  - cbn [forallb] in Ho, Hb. apply andb_prop in Ho. apply andb_prop in Hb.
    destruct Ho as [Ho1 Ho2]. destruct Hb as [Hb1 Hb2].
    cbn [length map concat plus]. rewrite <- app_assoc.
    rewrite (loop_step _ _ _ _ _ (entry_bytes_length e) (step_standalone v i secs sa e Ho1 Hb1 Hf)).
    rewrite IH by assumption. rewrite <- app_assoc. reflexivity.
Qed.

Lemma sections_last_full secs : forallb section_ok secs = true -> last_full secs = true.
Proof.
  intros H. unfold last_full. pose proof (split_last_spec secs) as Hs.
  destruct (split_last secs) as [[pre l]|]; [|reflexivity]. subst secs.
  rewrite forallb_app in H. apply andb_prop in H. destruct H as [_ H]. cbn [forallb] in H.
  rewrite andb_true_r in H. destruct (section_ok_inv l H) as (_ & Hn & _). lia.
Qed.

(* ---- lengths ---- *)
Lemma concat_headers_length ss : length (concat (map header_bytes ss)) = (32 * nrec ss)%nat.
Proof.
  induction ss as [|s ss IH]; [reflexivity|].
  cbn [map concat nrec]. rewrite app_length, header_bytes_length, IH. lia.
Qed.
Theorem cat_bytes_length c :
  length (cat_bytes c) = (32 * (2 + nrec (c_sections c) + length (c_standalone c)))%nat.
Proof.
  unfold cat_bytes. rewrite !app_length, val_bytes_length, entry_bytes_length,
    concat_headers_length, concat_entries_length. lia.
Qed.

Lemma cat_wf_inv c : cat_wf c = true ->
  val_ok (c_validation c) = true /\ entry_ok (c_initial c) = true /\
  forallb section_ok (c_sections c) = true /\ sections_sane (c_sections c) = true /\
  forallb (fun h => forallb entry_bootable (h_entries h)) (c_sections c) = true /\
  forallb entry_ok (c_standalone c) = true /\ forallb entry_bootable (c_standalone c) = true.
Proof. unfold cat_wf. intros H. andb_split H. repeat split; assumption. Qed.

(* everything up to (not including) the terminator *)
Lemma loop_catalog c rest f : cat_wf c = true ->
  parse_loop (S (S (nrec (c_sections c) + (length (c_standalone c) + f)))) PExpectVal
             (cat_bytes c ++ rest) =
  parse_loop f (PSections (c_validation c) (c_initial c) (c_sections c) (c_standalone c)) rest.
Proof.
  intros H. destruct (cat_wf_inv c H) as (Hv & Hi & Hs & _ & Hb & Hso & Hsb).
  unfold cat_bytes. rewrite <- !app_assoc.
  rewrite (loop_step _ _ _ _ _ (val_bytes_length _) (step_val _ Hv)).
  rewrite (loop_step _ _ _ _ _ (entry_bytes_length _) (step_init _ _ Hi)).
  rewrite (loop_sections _ _ _ _ _ _ [] Hs Hb). cbn [app].
  rewrite (loop_standalone _ _ _ _ _ (sections_last_full _ Hs) _ [] Hso Hsb). reflexivity.
Qed.

(* Theorem 3: record() followed by any 32-byte unit whose first byte is 0 (the zero padding of the
   catalog's extent) parses back to the same catalog, for any number of sections and entries. *)
Theorem cat_roundtrip c rest : cat_wf c = true ->
  cat_record c <> None /\ parse_catalog (cat_bytes c ++ 0 :: rest) = Some c.
Proof.
  intros H. split.
  - destruct (cat_wf_inv c H) as (Hv & Hi & Hs & _ & _ & Hso & _).
    unfold cat_record, cat_ranges_ok.
    destruct (val_roundtrip _ Hv) as (Hvr & _). unfold val_record in Hvr.
    destruct (u8_ok _ && u16_ok _); [|discriminate Hvr]. rewrite (entry_ok_ranges _ Hi).
    replace (forallb _ (c_sections c)) with true; [replace (forallb _ (c_standalone c)) with true; [discriminate|]|].
    + symmetry. apply forallb_forall. intros e He. apply entry_ok_ranges.
      rewrite forallb_forall in Hso. apply Hso, He.
    + symmetry. apply forallb_forall. intros s Hin. rewrite forallb_forall in Hs.
      destruct (section_ok_inv s (Hs s Hin)) as (Hh & _ & He).
      unfold header_ok in Hh. andb_split Hh. apply andb_true_intro. split.
      * unfold header_ranges_ok, u8_ok, u16_ok in *. lia.
      * apply forallb_forall. intros e Hie. apply entry_ok_ranges. rewrite forallb_forall in He. apply He, Hie.
  - unfold parse_catalog. pose proof (cat_bytes_length c) as Hl.
    replace (S (length (cat_bytes c ++ 0 :: rest)))
      with (S (S (nrec (c_sections c) + (length (c_standalone c) +
               S (length (cat_bytes c ++ 0 :: rest) - (2 + nrec (c_sections c) + length (c_standalone c)))))))
      by (rewrite app_length; cbn [length]; lia).
    rewrite (loop_catalog c _ _ H). cbn [parse_loop firstn cat_parse_step]. change (0 =? 0) with true. cbv iota.
    destruct (cat_wf_inv c H) as (_ & _ & _ & Hsane & _). rewrite Hsane. destruct c; reflexivity.
Qed.

(* record() on its own has no terminator: the loop reads on past its end (b'' -> IndexError) *)
Theorem cat_record_alone_unterminated c : cat_wf c = true -> parse_catalog (cat_bytes c) = None.
Proof.
  intros H. unfold parse_catalog. pose proof (cat_bytes_length c) as Hl.
  replace (S (length (cat_bytes c)))
    with (S (S (nrec (c_sections c) + (length (c_standalone c) +
             S (length (cat_bytes c) - (2 + nrec (c_sections c) + length (c_standalone c)))))))
    by lia.
  rewrite <- (app_nil_r (cat_bytes c)) at 2. rewrite (loop_catalog c _ _ H). reflexivity.
Qed.

(* ---- the invariant of new() and add_section() ---- *)
Lemma indicators_app i x :
  indicators_ok (i ++ [x]) = forallb (fun h => h_indicator h =? 144) i && (h_indicator x =? 145).
Proof.
  induction i as [|a i IH]; [cbn; rewrite andb_true_r; reflexivity|].
  cbn [app indicators_ok forallb]. rewrite IH.
  destruct i; cbn [app]; [cbn [forallb]|]; rewrite ?andb_assoc; reflexivity.
Qed.

Lemma indicators_sane secs : indicators_ok secs = true ->
  forallb section_ok secs = true -> sections_sane secs = true.
Proof.
  induction secs as [|s r IH]; [reflexivity|]. cbn [indicators_ok forallb sections_sane].
  intros Hi Ho. apply andb_prop in Hi. apply andb_prop in Ho. destruct Hi as [Hi1 Hi2]. destruct Ho as [Ho1 Ho2].
  destruct (section_ok_inv s Ho1) as (_ & Hn & _). rewrite (IH Hi2 Ho2), andb_true_r.
  apply andb_true_intro. split; [lia|]. destruct r; [reflexivity|exact Hi1].
Qed.

Lemma cat_inv_inv c : cat_inv c = true ->
  val_ok (c_validation c) = true /\ entry_ok (c_initial c) = true /\
  forallb section_ok (c_sections c) = true /\ indicators_ok (c_sections c) = true /\
  zlen (c_sections c) <= 31 /\ forallb (fun h => h_num_entries h =? 1) (c_sections c) = true /\
  c_standalone c = [].
Proof.
  unfold cat_inv. intros H. andb_split H. repeat split; try assumption; [lia|].
  destruct (c_standalone c); [reflexivity|discriminate].
Qed.
Lemma cat_inv_intro c :
  val_ok (c_validation c) = true -> entry_ok (c_initial c) = true ->
  forallb section_ok (c_sections c) = true -> indicators_ok (c_sections c) = true ->
  zlen (c_sections c) <= 31 -> forallb (fun h => h_num_entries h =? 1) (c_sections c) = true ->
  c_standalone c = [] -> cat_inv c = true.
Proof.
  intros H1 H2 H3 H4 H5 H6 H7. unfold cat_inv. rewrite H1, H2, H3, H4, H6, H7.
  replace (zlen (c_sections c) <=? 31) with true by lia. reflexivity.
Qed.

(* a catalog satisfying the invariant, all of whose section entries are bootable, is well formed *)
Theorem cat_inv_wf c : cat_inv c = true -> all_bootable c = true -> cat_wf c = true.
Proof.
  intros H Hb. destruct (cat_inv_inv c H) as (H1 & H2 & H3 & H4 & _ & _ & H7).
  unfold cat_wf. unfold all_bootable in Hb. rewrite H1, H2, H3, Hb, H7, (indicators_sane _ H4 H3). reflexivity.
Qed.

Theorem cat_new_inv sc ls m st pid b c : cat_new sc ls m st pid b = Some c ->
  new_args_ok sc ls m st = true -> cat_inv c = true /\ all_bootable c = true /\
  v_platform_id (c_validation c) = pid.
Proof.
  unfold cat_new. intros H Ha. destruct (platform_ok pid) eqn:Hp.
  - destruct (val_new_ok pid Hp) as (v & Hv & Hvo & Hvp & _). rewrite Hv in H.
    destruct (entry_new sc ls m st b) as [e|] eqn:He; [|discriminate H].
    apply some_inv in H; subst c. destruct (entry_new_ok _ _ _ _ _ _ He Ha) as (Heo & _).
    split; [apply cat_inv_intro; cbn [c_validation c_initial c_sections c_standalone]; auto;
            rewrite zlen_nil; lia|].
    split; [reflexivity|exact Hvp].
  - rewrite (val_new_bad_platform pid Hp) in H. discriminate H.
Qed.

Lemma new_section_ok e pid : entry_ok e = true -> u8_ok pid = true ->
  section_ok (header_add_new_entry (header_new (repeat 0 28) pid) e) = true.
Proof.
  intros He Hp. unfold section_ok, header_ok, header_add_new_entry, header_new, header_set_entries.
  cbn [h_indicator h_platform_id h_num_entries h_id_string h_entries app forallb].
  rewrite He, Hp, bytes_ok_repeat0, repeat_length. reflexivity.
Qed.
Lemma section_ok_not_last s : section_ok s = true -> section_ok (header_set_record_not_last s) = true.
Proof.
  unfold section_ok, header_ok, header_set_record_not_last.
  cbn [h_indicator h_platform_id h_num_entries h_id_string h_entries]. intros H. andb_split H.
  rewrite H3, H2, H1, H4, H0, H5. reflexivity.
Qed.

(* add_section maintains the invariant: a new last section 0x91 with one entry, the previous last
   one switched to 0x90, at most 31 sections *)
Theorem add_section_inv c sc ls m st efi b c' : cat_inv c = true ->
  cat_add_section c sc ls m st efi b = Some c' -> new_args_ok sc ls m st = true ->
  cat_inv c' = true /\ zlen (c_sections c') = zlen (c_sections c) + 1 /\
  (b = true -> all_bootable c = true -> all_bootable c' = true).
Proof.
  intros H Ha Hargs. destruct (cat_inv_inv c H) as (H1 & H2 & H3 & H4 & H5 & H6 & H7).
  unfold cat_add_section in Ha. destruct (zlen (c_sections c) =? 31) eqn:E31; [discriminate Ha|].
  destruct (entry_new sc ls m st b) as [e|] eqn:He; [|discriminate Ha].
  apply some_inv in Ha; subst c'. cbn [c_validation c_initial c_sections c_standalone].
  destruct (entry_new_ok _ _ _ _ _ _ He Hargs) as (Heo & Hbi & _).
  assert (Hpid : u8_ok (if efi then 239 else v_platform_id (c_validation c)) = true).
  { destruct efi; [reflexivity|]. unfold val_ok in H1. andb_split H1. apply platform_ok_u8, H1. }
  pose proof (new_section_ok e _ Heo Hpid) as Hnew.
  set (sec := header_add_new_entry (header_new (repeat 0 28) _) e) in *.
  pose proof (split_last_spec (c_sections c)) as Hsl. unfold all_bootable. cbn [c_sections].
  destruct (split_last (c_sections c)) as [[i l]|].
  - rewrite Hsl in *. clear Hsl. rewrite forallb_app in H3, H6. rewrite indicators_app in H4.
    apply andb_prop in H3. apply andb_prop in H4. apply andb_prop in H6.
    destruct H3 as [H3a H3b]. destruct H4 as [H4a H4b]. destruct H6 as [H6a H6b].
    cbn [forallb] in H3b, H6b. rewrite andb_true_r in H3b, H6b.
    rewrite zlen_app, zlen_cons, zlen_nil in *.
    split; [|split; [rewrite !zlen_app, !zlen_cons, !zlen_nil; lia|]].
    + apply cat_inv_intro; cbn [c_validation c_initial c_sections c_standalone]; auto.
      * rewrite !forallb_app. cbn [forallb]. rewrite H3a, Hnew, (section_ok_not_last l H3b). reflexivity.
      * rewrite indicators_app, forallb_app. cbn [forallb]. rewrite H4a. reflexivity.
      * rewrite !zlen_app, !zlen_cons, !zlen_nil. lia.
      * rewrite !forallb_app. cbn [forallb]. rewrite H6a. cbn [header_set_record_not_last h_num_entries].
        rewrite H6b. reflexivity.
    + intros Hb Hab. rewrite !forallb_app in *. cbn [forallb] in *. apply andb_prop in Hab. destruct Hab as [Hab1 Hab2].
      rewrite Hab1. cbn [header_set_record_not_last h_entries]. rewrite Hab2.
      unfold sec, header_add_new_entry, header_set_entries, header_new. cbn [h_entries app forallb].
      unfold entry_bootable. rewrite Hbi, Hb. reflexivity.
  - rewrite Hsl in *. clear Hsl. cbn [app]. split; [|split; [reflexivity|]].
    + apply cat_inv_intro; cbn [c_validation c_initial c_sections c_standalone]; auto;
        cbn [forallb]; rewrite ?Hnew, ?zlen_cons, ?zlen_nil; try reflexivity; lia.
    + intros Hb _. cbn [forallb]. unfold sec, header_add_new_entry, header_set_entries, header_new.
      cbn [h_entries app forallb]. unfold entry_bootable. rewrite Hbi, Hb. reflexivity.
Qed.
Lemma add_section_limit c sc ls m st efi b :
  zlen (c_sections c) = 31 -> cat_add_section c sc ls m st efi b = None.
Proof. intros H. unfold cat_add_section. rewrite H. reflexivity. Qed.

(* catalogs reachable from new() by add_section(), all calls with packable arguments *)
Inductive built : et_catalog -> bool -> Prop :=
| built_new sc ls m st pid b c :
    cat_new sc ls m st pid b = Some c -> new_args_ok sc ls m st = true -> built c true
| built_add c ab sc ls m st efi b c' :
    built c ab -> cat_add_section c sc ls m st efi b = Some c' -> new_args_ok sc ls m st = true ->
    built c' (ab && b).

Theorem built_inv c ab : built c ab -> cat_inv c = true /\ (ab = true -> all_bootable c = true).
Proof.
  induction 1 as [sc ls m st pid b c Hn Ha|c ab sc ls m st efi b c' Hb [IH1 IH2] Hadd Ha].
  - destruct (cat_new_inv _ _ _ _ _ _ _ Hn Ha) as (H1 & H2 & _). auto.
  - destruct (add_section_inv _ _ _ _ _ _ _ _ IH1 Hadd Ha) as (H1 & _ & H3).
    split; [exact H1|]. intros Hab. apply andb_prop in Hab. destruct Hab as [Hab1 Hab2]. auto.
Qed.
(* every catalog built with bootable=True section entries survives write + open *)
Corollary built_roundtrip c rest : built c true ->
  parse_catalog (cat_bytes c ++ 0 :: rest) = Some c.
Proof.
  intros H. destruct (built_inv c true H) as [H1 H2]. apply cat_roundtrip, cat_inv_wf; auto.
Qed.

(* ---- what is false ---- *)
(* add_section(..., bootable=False) keeps the invariant and record() works, but the entry starts
   with 0x00, which parse takes for the terminator: "section header specified 1 entries, only saw
   0".  (Reproduced on the library: add_eltorito twice, the second with bootable=False, write,
   open -> PyCdlibInvalidISO.) *)
Theorem add_section_nonbootable_refuted :
  exists c c', built c true /\ cat_add_section c 4 0 MNoemul 0 false false = Some c' /\
    cat_inv c' = true /\ cat_record c' <> None /\ parse_catalog (cat_extent_bytes c') = None.
Proof.
  destruct (cat_new 4 0 MNoemul 0 0 true) as [c|] eqn:E; [|vm_compute in E; discriminate E].
  exists c. eexists. split; [eapply built_new; [exact E|reflexivity]|].
  vm_compute in E. apply some_inv in E. subst c.
  split; [vm_compute; reflexivity|]. split; [vm_compute; reflexivity|].
  split; [vm_compute; discriminate|vm_compute; reflexivity].
Qed.

Fixpoint add_sections (n : nat) (c : et_catalog) : option et_catalog :=
  match n with
  | O => Some c
  | S n' => match cat_add_section c 4 0 MNoemul 0 false true with
            | Some c' => add_sections n' c'
            | None => None
            end
  end.
Lemma add_sections_built n : forall c c', built c true -> add_sections n c = Some c' -> built c' true.
Proof.
  induction n as [|n IH]; intros c c' Hb H; cbn [add_sections] in H.
  - apply some_inv in H; subst c'. exact Hb.
  - destruct (cat_add_section c 4 0 MNoemul 0 false true) as [c1|] eqn:E; [|discriminate H].
    apply (IH c1 c'); [|exact H]. change true with (true && true).
    eapply built_add; [exact Hb|exact E|reflexivity].
Qed.

(* the limit of 31 sections lets record() fill the whole 2048-byte extent: nothing is left for the
   terminator, so the image cannot be parsed again whatever follows the extent unless it happens
   to start with a zero byte.  (Reproduced: 1 + 31 add_eltorito, write, open ->
   PyCdlibInvalidISO 'Invalid El Torito Boot Catalog entry', the next extent being a boot file.) *)
Theorem full_catalog_refuted :
  exists c, built c true /\ zlen (c_sections c) = 31 /\ cat_wf c = true /\
    length (cat_bytes c) = 2048%nat /\ cat_extent_bytes c = cat_bytes c /\
    parse_catalog (cat_extent_bytes c) = None /\
    parse_catalog (cat_extent_bytes c ++ [98; 111; 111; 116; 10] ++ repeat 0 2043) = None /\
    cat_add_section c 4 0 MNoemul 0 false true = None.
Proof.
  destruct (cat_new 4 0 MNoemul 0 0 true) as [c0|] eqn:E0; [|vm_compute in E0; discriminate E0].
  assert (Hb0 : built c0 true) by (eapply built_new; [exact E0|reflexivity]).
  destruct (add_sections 31 c0) as [c|] eqn:E.
  2:{ vm_compute in E0. apply some_inv in E0. subst c0. vm_compute in E. discriminate E. }
  exists c. split; [exact (add_sections_built 31 c0 c Hb0 E)|].
  vm_compute in E0. apply some_inv in E0. subst c0. vm_compute in E. apply some_inv in E. subst c.
  vm_conj.
Qed.
(* for every well-formed catalog that fills its extent *)
Theorem full_catalog_unterminated c : cat_wf c = true -> length (cat_bytes c) = 2048%nat ->
  parse_catalog (cat_extent_bytes c) = None.
Proof.
  intros H Hl. unfold cat_extent_bytes. rewrite Hl. cbn [Nat.sub repeat]. rewrite app_nil_r.
  apply cat_record_alone_unterminated, H.
Qed.

(* a 0x44 Section Entry Extension is appended to the selection criteria of the last entry, but
   record() packs only 19 bytes ('19s') and never emits an extension entry; with no section (or
   an empty one) the subscript [-1] raises IndexError *)
Example extension_entry_lost :
  let e := mk_entry 136 0 0 0 4 27 1 (repeat 7 19) in
  let s := mk_header 145 0 1 (repeat 0 28) [e] in
  let ext := [68; 0] ++ repeat 9 30 in
  forall v i, cat_new 4 0 MNoemul 0 0 true = Some (mk_cat v i [] []) ->
  let data := cat_bytes (mk_cat v i [s] []) ++ ext ++ repeat 0 32 in
  parse_catalog data =
    Some (mk_cat v i [mk_header 145 0 1 (repeat 0 28)
                        [mk_entry 136 0 0 0 4 27 1 (repeat 7 19 ++ repeat 9 30)]] []) /\
  check_catalog_bytes data = false /\
  parse_catalog (cat_bytes (mk_cat v i [] []) ++ ext ++ repeat 0 32) = None.
Proof.
  intros e s ext v i H. vm_compute in H. apply some_inv in H. injection H as <- <-.
  vm_conj.
Qed.

(* ---- real objects: new(); three add_eltorito (the second efi=True, the third load_seg 0x7c0 on
   a 3000-byte file); write; eltorito_boot_catalog.record() and the catalog's extent ---- *)
Definition zero28 : list Z := repeat 0 28.
Definition real_cat : et_catalog :=
  mk_cat (mk_val 0 (repeat 0 24) 21930) (mk_entry 136 0 0 0 4 26 0 (repeat 0 19))
    [ mk_header 144 239 1 zero28 [mk_entry 136 0 0 0 4 27 0 (repeat 0 19)];
      mk_header 145 0 1 zero28 [mk_entry 136 0 1984 0 8 28 0 (repeat 0 19)] ] [].
Definition real_cat_bytes : list Z :=
  real_val_bytes ++ real_init_bytes
  ++ [144; 239; 1; 0] ++ zero28 ++ [136; 0; 0; 0; 0; 0; 4; 0; 27; 0; 0; 0] ++ repeat 0 20
  ++ [145; 0; 1; 0] ++ zero28 ++ [136; 0; 192; 7; 0; 0; 8; 0; 28; 0; 0; 0] ++ repeat 0 20.
(* the extents are assigned later (set_data_location); add_section creates the entries with rba 0 *)
Definition set_rbas (c : et_catalog) (r0 : Z) (rs : list Z) : et_catalog :=
  mk_cat (c_validation c) (entry_set_data_location (c_initial c) r0)
    (map (fun '(h, r) => header_set_entries h (h_num_entries h)
                           (map (fun e => entry_set_data_location e r) (h_entries h)))
         (combine (c_sections c) rs)) (c_standalone c).
Example real_catalog :
  cat_record real_cat = Some real_cat_bytes /\ length real_cat_bytes = 192%nat /\
  cat_wf real_cat = true /\ cat_inv real_cat = true /\
  parse_catalog (real_cat_bytes ++ repeat 0 1856) = Some real_cat /\
  cat_extent_bytes real_cat = real_cat_bytes ++ repeat 0 1856 /\
  check_catalog_bytes (real_cat_bytes ++ repeat 0 1856) = true /\
  bad_catalog_cases 0 [real_cat_bytes ++ repeat 0 1856; real_cat_bytes; real_val_bytes] = [1%nat; 2%nat] /\
  (exists c1 c2 c3, cat_new 4 0 MNoemul 0 0 true = Some c1 /\
     cat_add_section c1 4 0 MNoemul 0 true true = Some c2 /\
     cat_add_section c2 (default_sector_count 3000) 1984 MNoemul 0 false true = Some c3 /\
     set_rbas c3 26 [27; 28] = real_cat).
Proof.
  repeat match goal with |- _ /\ _ => split end; try (vm_compute; reflexivity).
  do 3 eexists. vm_conj.
Qed.

Print Assumptions cat_bytes_length.
Print Assumptions cat_roundtrip.
Print Assumptions cat_record_alone_unterminated.
Print Assumptions cat_inv_wf.
Print Assumptions cat_new_inv.
Print Assumptions add_section_inv.
Print Assumptions built_inv.
Print Assumptions built_roundtrip.
Print Assumptions add_section_nonbootable_refuted.
Print Assumptions full_catalog_refuted.
Print Assumptions full_catalog_unterminated.
Print Assumptions extension_entry_lost.
