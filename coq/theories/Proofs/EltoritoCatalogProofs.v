(* Proofs about Model/Eltorito.v, part 2: EltoritoBootCatalog.record / .parse (state machine) under
   the reader loop of PyCdlib._check_and_parse_eltorito.  The invariant of new/add_section and the
   examples are in Proofs/EltoritoBuiltProofs.v.

   Main results
     cat_bytes_length                |record()| = 32 * (2 + headers + entries)
     cat_roundtrip                   cat_wf c -> parse_catalog (record c ++ 0 :: rest) = Some c
                                     (any number of sections / entries, bootable or not, and
                                     bootable standalone entries)
     cat_record_alone_unterminated   record() itself carries no terminator
     cat_extent_roundtrip            cat_wf c, |record c| <= 2048 ->
                                     parse_catalog_extent (extent as written ++ anything) = Some c *)
From Coq Require Import ZArith List Bool Lia ZifyBool.
From PV.Base Require Import Prim ListX.
From PV.Gen Require Import GenConst GenFun.
From PV.Model Require Import Codec Eltorito.
From PV.Proofs Require Import CodecProofs EltoritoProofs.
Import ListNotations.
Local Open Scope Z_scope.
Ltac Zify.zify_post_hook ::= Z.to_euclidean_division_equations.

(* ---- lists ---- *)
Lemma split_last_app {A} (l : list A) x : split_last (l ++ [x]) = Some (l, x).
Proof. induction l as [|a l IH]; cbn [app split_last]; [reflexivity|rewrite IH; reflexivity]. Qed.
Lemma split_last_spec {A} (l : list A) :
  match split_last l with None => l = [] | Some (i, x) => l = i ++ [x] end.
Proof.
  induction l as [|a l IH]; cbn [split_last]; [reflexivity|].
  destruct (split_last l) as [[i y]|]; subst l; reflexivity.
Qed.

(* ---- the loop, one 32-byte unit at a time ---- *)
Lemma units_step after st u r st' :
  cat_parse_step st u = Some (st', false) -> parse_units after (u :: r) st = parse_units after r st'.
Proof. intros Hs. cbn [parse_units]. rewrite Hs. reflexivity. Qed.

Lemma entry_bytes_head e : exists t, entry_bytes e = e_boot_indicator e :: t.
Proof. eexists. unfold entry_bytes, entry_fields. cbn [concat app]. reflexivity. Qed.
Definition hdr_bytes (h : et_header) : list Z := concat (header_fields h).
Lemma hdr_bytes_head h : exists t, hdr_bytes h = h_indicator h :: t.
Proof. eexists. unfold hdr_bytes, header_fields. cbn [concat app]. reflexivity. Qed.
Lemma header_bytes_eq h : header_bytes h = hdr_bytes h ++ concat (map entry_bytes (h_entries h)).
Proof. reflexivity. Qed.

Lemma step_val v : val_ok v = true ->
  cat_parse_step PExpectVal (val_bytes v) = Some (PExpectInit v, false).
Proof. intros H. cbn [cat_parse_step]. destruct (val_roundtrip v H) as (_ & _ & Hp). rewrite Hp. reflexivity. Qed.
Lemma step_init v e : entry_ok e = true ->
  cat_parse_step (PExpectInit v) (entry_bytes e) = Some (PSections v e [] [], false).
Proof. intros H. cbn [cat_parse_step]. destruct (entry_roundtrip e H) as (_ & _ & Hp). rewrite Hp. reflexivity. Qed.

Lemma step_header v i secs sa h : header_ok h = true ->
  cat_parse_step (PSections v i secs sa) (hdr_bytes h) =
  Some (PSections v i (secs ++ [header_set_entries h (h_num_entries h) []]) sa, false).
Proof.
  intros H. destruct (header_roundtrip h H) as (Hp & _ & _).
  rewrite header_bytes_eq, (firstn_app_exact 32) in Hp by apply header_fields_length.
  destruct (hdr_bytes_head h) as [t Ht]. rewrite Ht in *.
  unfold header_ok in H. andb_split H. unfold cat_parse_step.
  destruct (h_indicator h =? 0) eqn:E0; [lia|]. cbn [andb]. rewrite H, Hp. reflexivity.
Qed.

Lemma last_pending_app pre l :
  last_pending (pre ++ [l]) = (zlen (h_entries l) <? h_num_entries l).
Proof. unfold last_pending. rewrite split_last_app. reflexivity. Qed.

(* a section entry, bootable (0x88) or not (0x00), while the last header still expects entries *)
Lemma step_entry v i pre ind pid num ids done sa e :
  entry_ok e = true -> zlen done < num ->
  cat_parse_step (PSections v i (pre ++ [mk_header ind pid num ids done]) sa) (entry_bytes e) =
  Some (PSections v i (pre ++ [mk_header ind pid num ids (done ++ [e])]) sa, false).
Proof.
  intros H Hn. destruct (entry_roundtrip e H) as (_ & _ & Hp).
  destruct (entry_bytes_head e) as [t Ht]. rewrite Ht in *.
  destruct (entry_ok_inv e H) as (Hbi & _).
  unfold cat_parse_step. rewrite last_pending_app. cbn [h_entries h_num_entries].
  replace (zlen done <? num) with true by lia.
  destruct Hbi as [Hb|Hb]; rewrite Hb in *.
  - change (136 =? 0) with false. change ((136 =? 144) || (136 =? 145)) with false.
    change ((136 =? 136) || false) with true. cbv iota. cbn [andb]. rewrite Hp, split_last_app.
    cbn [h_entries h_num_entries]. replace (zlen done <? num) with true by lia.
    unfold header_add_parsed_entry. cbn [h_entries h_num_entries].
    replace (zlen done >=? num) with false by lia. reflexivity.
  - change (0 =? 0) with true. cbn [andb]. rewrite Hp, split_last_app.
    unfold header_add_parsed_entry. cbn [h_entries h_num_entries].
    replace (zlen done >=? num) with false by lia. reflexivity.
Qed.

Lemma step_standalone v i secs sa e :
  entry_ok e = true -> entry_bootable e = true -> last_pending secs = false ->
  cat_parse_step (PSections v i secs sa) (entry_bytes e) = Some (PSections v i secs (sa ++ [e]), false).
Proof.
  intros H Hb Hf. destruct (entry_roundtrip e H) as (_ & _ & Hp).
  destruct (entry_bytes_head e) as [t Ht]. rewrite Ht in *.
  unfold entry_bootable in Hb. apply Z.eqb_eq in Hb. rewrite Hb in *.
  unfold cat_parse_step. change (136 =? 0) with false. change ((136 =? 144) || (136 =? 145)) with false.
  change ((136 =? 136) || false) with true. cbv iota. cbn [andb]. rewrite Hp.
  unfold last_pending in Hf. destruct (split_last secs) as [[pre l]|]; [|reflexivity].
  rewrite Hf. reflexivity.
Qed.

(* the terminator: a unit starting with 0x00 when no section expects an entry *)
Lemma step_term v i secs sa t :
  last_pending secs = false -> sections_sane secs = true ->
  cat_parse_step (PSections v i secs sa) (0 :: t) = Some (PSections v i secs sa, true).
Proof. intros Hf Hs. cbn [cat_parse_step]. change (0 =? 0) with true. rewrite Hf, Hs. reflexivity. Qed.

(* ---- whole lists of units ---- *)
Lemma units_entries after v i pre ind pid num ids sa r : forall todo done,
  forallb entry_ok todo = true -> zlen done + zlen todo = num ->
  parse_units after (map entry_bytes todo ++ r) (PSections v i (pre ++ [mk_header ind pid num ids done]) sa) =
  parse_units after r (PSections v i (pre ++ [mk_header ind pid num ids (done ++ todo)]) sa).
Proof.
  induction todo as [|e todo IH]; intros done Ho Hn.
  - cbn [map app]. rewrite app_nil_r. reflexivity.
  - cbn [forallb] in Ho. apply andb_prop in Ho. destruct Ho as [Ho1 Ho2]. rewrite zlen_cons in Hn.
    pose proof (zlen_nonneg todo) as Hnn. cbn [map app].
    rewrite (units_step _ _ _ _ _ (step_entry v i pre ind pid num ids done sa e Ho1 ltac:(lia))).
    rewrite IH by (try assumption; rewrite zlen_app, zlen_cons, zlen_nil; lia).
    rewrite <- app_assoc. reflexivity.
Qed.

(* the 32-byte units of a list of sections: each header followed by its entries *)
Fixpoint sec_units (ss : list et_header) : list (list Z) :=
  match ss with [] => [] | s :: r => (hdr_bytes s :: map entry_bytes (h_entries s)) ++ sec_units r end.

Lemma section_ok_inv s : section_ok s = true ->
  header_ok s = true /\ h_num_entries s = zlen (h_entries s) /\ forallb entry_ok (h_entries s) = true.
Proof.
  unfold section_ok. intros H. apply andb_prop in H. destruct H as [H H0].
  apply andb_prop in H. destruct H as [H H1]. split; [exact H|split; [lia|exact H0]].
Qed.

Lemma units_sections after v i sa r : forall ss pre,
  forallb section_ok ss = true ->
  parse_units after (sec_units ss ++ r) (PSections v i pre sa) =
  parse_units after r (PSections v i (pre ++ ss) sa).
Proof.
  induction ss as [|s ss IH]; intros pre Ho.
  - cbn [sec_units app]. rewrite app_nil_r. reflexivity.
  - cbn [forallb] in Ho. apply andb_prop in Ho. destruct Ho as [Ho1 Ho2].
    destruct (section_ok_inv s Ho1) as (Hh & Hn & He).
    cbn [sec_units]. rewrite <- app_assoc. cbn [app].
    rewrite (units_step _ _ _ _ _ (step_header v i pre sa s Hh)).
    unfold header_set_entries.
    rewrite (units_entries after v i pre _ _ _ _ sa _ (h_entries s) []) by (try assumption; rewrite zlen_nil; lia).
    cbn [app]. rewrite IH by assumption. rewrite <- app_assoc. cbn [app]. destruct s; reflexivity.
Qed.

Lemma units_standalone after v i secs r : last_pending secs = false -> forall es sa,
  forallb entry_ok es = true -> forallb entry_bootable es = true ->
  parse_units after (map entry_bytes es ++ r) (PSections v i secs sa) =
  parse_units after r (PSections v i secs (sa ++ es)).
Proof.
  intros Hf. induction es as [|e es IH]; intros sa Ho Hb.
  - cbn [map app]. rewrite app_nil_r. reflexivity.
  - cbn [forallb] in Ho, Hb. apply andb_prop in Ho. apply andb_prop in Hb.
    destruct Ho as [Ho1 Ho2]. destruct Hb as [Hb1 Hb2]. cbn [map app].
    rewrite (units_step _ _ _ _ _ (step_standalone v i secs sa e Ho1 Hb1 Hf)).
    rewrite IH by assumption. rewrite <- app_assoc. reflexivity.
Qed.

Lemma sections_not_pending secs : forallb section_ok secs = true -> last_pending secs = false.
Proof.
  intros H. unfold last_pending. pose proof (split_last_spec secs) as Hs.
  destruct (split_last secs) as [[pre l]|]; [|reflexivity]. subst secs.
  rewrite forallb_app in H. apply andb_prop in H. destruct H as [_ H]. cbn [forallb] in H.
  rewrite andb_true_r in H. destruct (section_ok_inv l H) as (_ & Hn & _). lia.
Qed.

(* ---- units and bytes ---- *)
Definition cat_units (c : et_catalog) : list (list Z) :=
  val_bytes (c_validation c) :: entry_bytes (c_initial c) ::
  sec_units (c_sections c) ++ map entry_bytes (c_standalone c).

Lemma concat_sec_units ss : concat (sec_units ss) = concat (map header_bytes ss).
Proof.
  induction ss as [|s ss IH]; [reflexivity|].
  cbn [sec_units map concat]. rewrite concat_app, IH. reflexivity.
Qed.
Lemma cat_bytes_units c : cat_bytes c = concat (cat_units c).
Proof.
  unfold cat_bytes, cat_units. cbn [concat]. rewrite concat_app, concat_sec_units. reflexivity.
Qed.
Lemma sec_units_32 ss : Forall (fun u : list Z => length u = 32%nat) (sec_units ss).
Proof.
  induction ss as [|s ss IH]; [constructor|]. cbn [sec_units]. apply Forall_app. split; [|exact IH].
  constructor; [apply header_fields_length|]. apply Forall_forall. intros u Hu.
  apply in_map_iff in Hu. destruct Hu as (e & <- & _). apply entry_bytes_length.
Qed.
Lemma cat_units_32 c : Forall (fun u : list Z => length u = 32%nat) (cat_units c).
Proof.
  unfold cat_units. constructor; [apply val_bytes_length|]. constructor; [apply entry_bytes_length|].
  apply Forall_app. split; [apply sec_units_32|]. apply Forall_forall. intros u Hu.
  apply in_map_iff in Hu. destruct Hu as (e & <- & _). apply entry_bytes_length.
Qed.
Lemma concat_32_length us : Forall (fun u : list Z => length u = 32%nat) us ->
  length (concat us) = (32 * length us)%nat.
Proof.
  induction 1 as [|u us Hu _ IH]; [reflexivity|]. cbn [concat length]. rewrite app_length, Hu, IH. lia.
Qed.

(* reading a stream that starts with whole units *)
Lemma read32_units us : Forall (fun u : list Z => length u = 32%nat) us -> forall n rest,
  read32 (length us + n) (concat us ++ rest) = us ++ read32 n rest.
Proof.
  induction 1 as [|u us Hu _ IH]; intros n rest; [reflexivity|].
  cbn [length plus read32 concat]. rewrite <- app_assoc.
  rewrite (firstn_app_exact 32), (skipn_app_exact 32) by exact Hu. rewrite IH. reflexivity.
Qed.

(* number of 32-byte records of a list of sections *)
Fixpoint nrec (ss : list et_header) : nat :=
  match ss with [] => O | s :: r => S (length (h_entries s) + nrec r) end.
Lemma sec_units_length ss : length (sec_units ss) = nrec ss.
Proof.
  induction ss as [|s ss IH]; [reflexivity|].
  cbn [sec_units nrec]. rewrite app_length. cbn [length]. rewrite map_length, IH. reflexivity.
Qed.
Lemma cat_units_length c :
  length (cat_units c) = (2 + nrec (c_sections c) + length (c_standalone c))%nat.
Proof. unfold cat_units. cbn [length]. rewrite app_length, sec_units_length, map_length. lia. Qed.
Theorem cat_bytes_length c :
  length (cat_bytes c) = (32 * (2 + nrec (c_sections c) + length (c_standalone c)))%nat.
Proof. rewrite cat_bytes_units, (concat_32_length _ (cat_units_32 c)), cat_units_length. reflexivity. Qed.

Lemma cat_wf_inv c : cat_wf c = true ->
  val_ok (c_validation c) = true /\ entry_ok (c_initial c) = true /\
  forallb section_ok (c_sections c) = true /\ sections_sane (c_sections c) = true /\
  forallb entry_ok (c_standalone c) = true /\ forallb entry_bootable (c_standalone c) = true.
Proof. unfold cat_wf. intros H. andb_split H. repeat split; assumption. Qed.

(* everything up to (not including) the terminator *)
Lemma units_catalog after c r : cat_wf c = true ->
  parse_units after (cat_units c ++ r) PExpectVal =
  parse_units after r (PSections (c_validation c) (c_initial c) (c_sections c) (c_standalone c)).
Proof.
  intros H. destruct (cat_wf_inv c H) as (Hv & Hi & Hs & _ & Hso & Hsb).
  unfold cat_units. cbn [app].
  rewrite (units_step _ _ _ _ _ (step_val _ Hv)), (units_step _ _ _ _ _ (step_init _ _ Hi)).
  rewrite <- app_assoc, (units_sections _ _ _ _ _ _ [] Hs). cbn [app].
  rewrite (units_standalone _ _ _ _ _ (sections_not_pending _ Hs) _ [] Hso Hsb). reflexivity.
Qed.
(* ... and the terminator *)
Lemma units_catalog_term after c t r : cat_wf c = true ->
  parse_units after (cat_units c ++ (0 :: t) :: r) PExpectVal = Some c.
Proof.
  intros H. rewrite (units_catalog _ c _ H). destruct (cat_wf_inv c H) as (_ & _ & Hs & Hsane & _).
  cbn [parse_units]. rewrite (step_term _ _ _ _ _ (sections_not_pending _ Hs) Hsane).
  destruct c; reflexivity.
Qed.
(* ... or, the units of the image being used up, the first synthetic zero unit *)
Lemma units_catalog_zeros f c : cat_wf c = true ->
  parse_units (parse_zeros (S f)) (cat_units c) PExpectVal = Some c.
Proof.
  intros H. rewrite <- (app_nil_r (cat_units c)), (units_catalog _ c _ H).
  destruct (cat_wf_inv c H) as (_ & _ & Hs & Hsane & _).
  cbn [parse_units parse_zeros repeat]. rewrite (step_term _ _ _ _ _ (sections_not_pending _ Hs) Hsane).
  destruct c; reflexivity.
Qed.

Lemma cat_wf_record c : cat_wf c = true -> cat_record c = Some (cat_bytes c).
Proof.
  intros H. destruct (cat_wf_inv c H) as (Hv & Hi & Hs & _ & Hso & _).
  unfold cat_record, cat_ranges_ok.
  destruct (val_roundtrip _ Hv) as (Hvr & _). unfold val_record in Hvr.
  destruct (u8_ok _ && u16_ok _); [|discriminate Hvr]. rewrite (entry_ok_ranges _ Hi).
  replace (forallb _ (c_sections c)) with true; [replace (forallb _ (c_standalone c)) with true; [reflexivity|]|].
  - symmetry. apply forallb_forall. intros e He. apply entry_ok_ranges.
    rewrite forallb_forall in Hso. apply Hso, He.
  - symmetry. apply forallb_forall. intros s Hin. rewrite forallb_forall in Hs.
    destruct (section_ok_inv s (Hs s Hin)) as (Hh & _ & He).
    unfold header_ok in Hh. andb_split Hh. apply andb_true_intro. split.
    + unfold header_ranges_ok, u8_ok, u16_ok in *. lia.
    + apply forallb_forall. intros e Hie. apply entry_ok_ranges. rewrite forallb_forall in He. apply He, Hie.
Qed.

(* Theorem 3: record() followed by any 32-byte unit whose first byte is 0 (the zero padding of the
   catalog's extent) parses back to the same catalog, for any number of sections and entries,
   bootable or not. *)
Theorem cat_roundtrip c rest : cat_wf c = true ->
  cat_record c = Some (cat_bytes c) /\ parse_catalog (cat_bytes c ++ 0 :: rest) = Some c.
Proof.
  intros H. split; [apply cat_wf_record, H|].
  unfold parse_catalog. pose proof (cat_bytes_length c) as Hl. pose proof (cat_units_length c) as Hu.
  remember (length (cat_bytes c ++ 0 :: rest)) as n eqn:En.
  assert (Hd : (length (cat_units c) <= n)%nat) by (subst n; rewrite app_length; cbn [length]; lia).
  clear En.
  replace (S n) with (length (cat_units c) + S (n - length (cat_units c)))%nat by lia.
  rewrite cat_bytes_units, (read32_units _ (cat_units_32 c)). cbn [read32 firstn].
  apply units_catalog_term, H.
Qed.

(* record() on its own has no terminator: a reader without the 64-unit limit reads on past its end
   (b'' -> IndexError) *)
Theorem cat_record_alone_unterminated c : cat_wf c = true -> parse_catalog (cat_bytes c) = None.
Proof.
  intros H. unfold parse_catalog. pose proof (cat_bytes_length c) as Hl. pose proof (cat_units_length c) as Hu.
  replace (S (length (cat_bytes c)))
    with (length (cat_units c) + S (length (cat_bytes c) - length (cat_units c)))%nat by lia.
  rewrite <- (app_nil_r (cat_bytes c)) at 2.
  rewrite cat_bytes_units, (read32_units _ (cat_units_32 c)). cbn [read32 firstn].
  rewrite (units_catalog _ c _ H). reflexivity.
Qed.

(* The reader of _check_and_parse_eltorito: at most 64 units of the image, then zero units.  Every
   well-formed catalog that fits in its 2048-byte extent is read back from the extent as written
   (record() then zeros), whatever follows the extent in the image -- including a catalog of
   exactly 2048 bytes, which has no terminator of its own. *)
Theorem cat_extent_roundtrip c beyond : cat_wf c = true -> (length (cat_bytes c) <= 2048)%nat ->
  parse_catalog_extent (cat_extent_bytes c ++ beyond) = Some c.
Proof.
  intros H Hfit. unfold parse_catalog_extent, cat_extent_bytes.
  pose proof (cat_bytes_length c) as Hl. pose proof (cat_units_length c) as Hu.
  set (N := length (cat_units c)) in *.
  assert (HN : (N <= 64)%nat) by lia.
  replace 64%nat with (N + (64 - N))%nat at 1 by lia.
  rewrite <- app_assoc, cat_bytes_units. unfold N at 1.
  rewrite (read32_units _ (cat_units_32 c)).
  fold N. rewrite <- cat_bytes_units.
  replace (2048 - length (cat_bytes c))%nat with (32 * (64 - N))%nat by lia.
  destruct (64 - N)%nat as [|m] eqn:Em.
  - cbn [read32]. rewrite app_nil_r. unfold zero_units.
    replace (Z.to_nat 65538) with (S (Z.to_nat 65537)) by lia. apply units_catalog_zeros, H.
  - replace (32 * S m)%nat with (S (31 + 32 * m))%nat by lia. cbn [read32 repeat app firstn].
    apply units_catalog_term, H.
Qed.

Print Assumptions cat_bytes_length.
Print Assumptions cat_roundtrip.
Print Assumptions cat_record_alone_unterminated.
Print Assumptions cat_extent_roundtrip.
