(* Master: examples (non-vacuity of wf_tree, executability, one case from the real library).
   The theorems are in Proofs/MasterProofs.v. *)
From Coq Require Import ZArith List Bool.
From PV.Base Require Import Prim.
From PV.Model Require Import Codec Pack PathTable Master.
From PV.Proofs Require Import MasterProofs.
Import ListNotations.
Local Open Scope Z_scope.

(* "F000nn.;1": 9 bytes, a 42-byte record *)
Definition ms_ex_fname (i : Z) : list Z := [70; 48; 48; 48; 48 + i / 10; 48 + i mod 10; 46; 59; 49].

(* /A holds 50 such files and /A/B: 68 + 34 + 50 * 42 = 2202 bytes, so two blocks (data_length 4096);
   /A/B/C/X;1 is four levels below the root; /Z;1 has three blocks of data *)
Definition ms_ex_tree : node :=
  Dir [0] 2048
    [Dir [65] 4096
       (Dir [66] 2048 [Dir [67] 2048 [File [88; 59; 49] 7]]
        :: map (fun i => File (ms_ex_fname i) (i * 700)) (zrange 0 50 1));
     File [90; 59; 49] 5000].

Definition ms_ex_date : list Z := [123; 11; 14; 22; 13; 20; 0].

Example ms_ex_wf : wf_tree ms_ex_tree = true /\ fuel_for ms_ex_tree = 5%nat /\
                   ms_dlen_at ms_ex_tree [0%nat] = 4096.
Proof. vm_compute. repeat split. Qed.

(* the general theorem, instantiated: the image exists and reads back *)
Example ms_ex_read : exists img, master ms_ex_date ms_ex_tree = Some img /\
  read 5 img (root_extent ms_ex_tree) (root_len ms_ex_tree) = Some (view ms_ex_tree).
Proof. exact (read_master ms_ex_date ms_ex_tree eq_refl (proj1 ms_ex_wf)). Qed.

(* ... and by evaluation: root at 23, /A at 24..25, /A/B 26, /A/B/C 27; file data from 28 on
   (level 1: /Z;1 3 blocks; level 2: the 50 files; level 4: X;1 last); too little fuel (3 < 4 directory levels) is None *)
Example ms_ex_eval :
  match master ms_ex_date ms_ex_tree with
  | Some img =>
      map fst img = [23; 24; 26; 27] /\ map (fun c => zlen (snd c)) img = [2048; 4096; 2048; 2048] /\
      read 5 img 23 2048 = Some (view ms_ex_tree) /\ read 3 img 23 2048 = None
  | None => False
  end /\
  ms_layout_agrees ms_ex_tree = true /\
  match view ms_ex_tree with
  | RDir _ 23 2048 [RDir _ 24 4096 (RDir _ 26 2048 [RDir _ 27 2048 [RFile _ e 7]] :: RFile _ 0 0 :: RFile _ 31 700 :: _);
                    RFile _ 28 5000] => e = ms_layout_end ms_ex_tree - 1
  | _ => False
  end.
Proof. vm_compute. repeat split. Qed.

(* a history replayed on the real pycdlib by /verif/tools/master_cases.py (case 'rebuild': a sub-tree is
   removed and built again): tree from the object graph, date, root pointer from the PVD, and the bytes
   of the four directory extents cut out of the written image *)
Definition ms_real_case : ms_case :=
  (Dir [0] 2048 [Dir [65] 2048 [File [48; 48; 48; 48; 48; 51; 46; 59; 49] 0; Dir [67] 2048 [Dir [66]
  2048 [File [70; 70; 70; 48; 48; 48; 48; 48; 49; 46; 59; 49] 4097]]]], [123; 11; 14; 22; 13; 20;
  0], (23, 2048), [(23, [(0, [34; 0; 23]); (6, [23; 0; 8; 0; 0; 0; 0; 8; 0; 123; 11; 14; 22; 13; 20;
  0; 2; 0; 0; 1; 0; 0; 1; 1; 0; 34; 0; 23]); (6, [23; 0; 8; 0; 0; 0; 0; 8; 0; 123; 11; 14; 22; 13;
  20; 0; 2; 0; 0; 1; 0; 0; 1; 1; 1; 34; 0; 24]); (6, [24; 0; 8; 0; 0; 0; 0; 8; 0; 123; 11; 14; 22;
  13; 20; 0; 2; 0; 0; 1; 0; 0; 1; 1; 65]); (1946, [])]); (24, [(0, [34; 0; 24]); (6, [24; 0; 8; 0;
  0; 0; 0; 8; 0; 123; 11; 14; 22; 13; 20; 0; 2; 0; 0; 1; 0; 0; 1; 1; 0; 34; 0; 23]); (6, [23; 0; 8;
  0; 0; 0; 0; 8; 0; 123; 11; 14; 22; 13; 20; 0; 2; 0; 0; 1; 0; 0; 1; 1; 1; 42]); (17, [123; 11; 14;
  22; 13; 20; 0; 0; 0; 0; 1; 0; 0; 1; 9; 48; 48; 48; 48; 48; 51; 46; 59; 49; 34; 0; 25]); (6, [25;
  0; 8; 0; 0; 0; 0; 8; 0; 123; 11; 14; 22; 13; 20; 0; 2; 0; 0; 1; 0; 0; 1; 1; 67]); (1904, [])]);
  (25, [(0, [34; 0; 25]); (6, [25; 0; 8; 0; 0; 0; 0; 8; 0; 123; 11; 14; 22; 13; 20; 0; 2; 0; 0; 1;
  0; 0; 1; 1; 0; 34; 0; 24]); (6, [24; 0; 8; 0; 0; 0; 0; 8; 0; 123; 11; 14; 22; 13; 20; 0; 2; 0; 0;
  1; 0; 0; 1; 1; 1; 34; 0; 26]); (6, [26; 0; 8; 0; 0; 0; 0; 8; 0; 123; 11; 14; 22; 13; 20; 0; 2; 0;
  0; 1; 0; 0; 1; 1; 66]); (1946, [])]); (26, [(0, [34; 0; 26]); (6, [26; 0; 8; 0; 0; 0; 0; 8; 0;
  123; 11; 14; 22; 13; 20; 0; 2; 0; 0; 1; 0; 0; 1; 1; 0; 34; 0; 25]); (6, [25; 0; 8; 0; 0; 0; 0; 8;
  0; 123; 11; 14; 22; 13; 20; 0; 2; 0; 0; 1; 0; 0; 1; 1; 1; 46; 0; 27]); (6, [27; 1; 16; 0; 0; 0; 0;
  16; 1; 123; 11; 14; 22; 13; 20; 0; 0; 0; 0; 1; 0; 0; 1; 12; 70; 70; 70; 48; 48; 48; 48; 48; 49;
  46; 59; 49]); (1935, [])])]).

Example ms_real_case_ok : bad_master_cases 0 [ms_real_case] = [].
Proof. vm_compute. reflexivity. Qed.

(* the checker is not vacuous: one wrong byte, a wrong root pointer, a wrong tree are reported *)
Example ms_checker_detects :
  let '(t, dt, rp, e) := ms_real_case in
  bad_master_cases 0 [(t, dt, rp, (23, [(0, [34; 0; 24])]) :: tl e);
                      (t, dt, (23, 4096), e);
                      (Dir [0] 2048 [Dir [65] 2048 []], dt, rp, e)] = [0%nat; 1%nat; 2%nat].
Proof. vm_compute. reflexivity. Qed.
