(* Proofs about Model/LongNames.v: Joliet UTF-16BE names, Rock Ridge NM splitting, SL symlink targets (the SL part
   for rockridge.py after the repair "symlink components are accounted and recorded by their real length").
   Main results: utf16_roundtrip, utf16_length, units_le_utf8, joliet_fits, joliet_dr_fits,
   joliet_over_refusal; nm_roundtrip, nm_flags_ok, nm_piece_bounds;
   sl_roundtrip_all (EVERY non-empty target reads back, 3 <= r2), its corollaries sl_roundtrip_partial (sl_ok) and
   sl_roundtrip (no_dot_names); sl_rooms (every record fits the room it was opened with),
   sl_no_ce_single_record / sl_no_ce_roundtrip (first pass: the uncut entry fits -> one record, nothing lost);
   pycdlib_reader_root_refuted (reader side, unchanged), readers_agree_bounded;
   sl_record_flags, cut_name_flags, sl_component_flags.
   Gone with the repair: sl_roundtrip_refuted, sl_no_ce_refuted, w_dot_reads_as, w_dotdot_reads_as, w_many_reads_as
   (their witnesses are the Examples w_dot_reads_back, w_dotdot_reads_back, w_many_reads_back). *)
From Coq Require Import ZArith List Bool Lia ZifyBool.
Import ListNotations.
From PV.Model Require Import LongNames.
Local Open Scope Z_scope.
Ltac Zify.zify_post_hook ::= Z.to_euclidean_division_equations.

Lemma zlist_eqb_eq : forall a b, zlist_eqb a b = true <-> a = b.
Proof.
  induction a as [|x a IH]; destruct b as [|y b]; cbn [zlist_eqb]; split; intro H;
    try reflexivity; try discriminate.
  - apply andb_true_iff in H. destruct H as [H1 H2]. apply IH in H2. f_equal; [lia|exact H2].
  - inversion H; subst. apply andb_true_iff. split; [lia|apply IH; reflexivity].
Qed.

(* ---------- (I) UTF-16BE ---------- *)
Lemma dec_cons2 : forall a b1 rest, utf16be_dec (a :: b1 :: rest) =
  let u := a * 256 + b1 in
  if (55296 <=? u) && (u <=? 56319) then
    match rest with
    | c :: d :: rest' =>
        let w := c * 256 + d in
        if (56320 <=? w) && (w <=? 57343)
        then option_map (cons (65536 + (u - 55296) * 1024 + (w - 56320))) (utf16be_dec rest')
        else None
    | _ => None
    end
  else if (56320 <=? u) && (u <=? 57343) then None
  else option_map (cons u) (utf16be_dec rest).
Proof. reflexivity. Qed.

Lemma dec_enc1 : forall c t, scalar c ->
  utf16be_dec (enc1 c ++ t) = option_map (cons c) (utf16be_dec t).
Proof.
  intros c t Hc. unfold enc1. destruct (c <? 65536) eqn:E.
  - cbn [app]. rewrite dec_cons2. cbv zeta.
    assert (Hu : c / 256 * 256 + c mod 256 = c) by lia. rewrite Hu.
    destruct ((55296 <=? c) && (c <=? 56319)) eqn:E1; [unfold scalar in Hc; lia|].
    destruct ((56320 <=? c) && (c <=? 57343)) eqn:E2; [unfold scalar in Hc; lia|].
    reflexivity.
  - cbv zeta. cbn [app]. rewrite dec_cons2. cbv zeta.
    set (v := c - 65536). set (hi := 55296 + v / 1024). set (lo := 56320 + v mod 1024).
    assert (Hv : 0 <= v < 1048576) by (unfold scalar in Hc; lia).
    assert (Hhi : hi / 256 * 256 + hi mod 256 = hi) by lia.
    assert (Hlo : lo / 256 * 256 + lo mod 256 = lo) by lia.
    rewrite Hhi, Hlo.
    destruct ((55296 <=? hi) && (hi <=? 56319)) eqn:E1; [|lia].
    destruct ((56320 <=? lo) && (lo <=? 57343)) eqn:E2; [|lia].
    replace (65536 + (hi - 55296) * 1024 + (lo - 56320)) with c by lia.
    reflexivity.
Qed.

Theorem utf16_roundtrip : forall s, Forall scalar s -> utf16be_dec (utf16be_enc s) = Some s.
Proof.
  induction 1 as [|c s Hc Hs IH]; [reflexivity|].
  unfold utf16be_enc in *. cbn [flat_map]. rewrite dec_enc1 by exact Hc. rewrite IH. reflexivity.
Qed.

Lemma enc1_length : forall c, len (enc1 c) = 2 * units1 c.
Proof. intro c. unfold enc1, units1, len. destruct (c <? 65536); reflexivity. Qed.

Theorem utf16_length : forall s, len (utf16be_enc s) = 2 * utf16_units s.
Proof.
  induction s as [|c s IH]; [reflexivity|].
  unfold utf16be_enc in *. cbn [flat_map utf16_units]. unfold len in *. rewrite app_length.
  pose proof (enc1_length c) as H1. unfold len in H1. lia.
Qed.

Lemma units1_le : forall c, 1 <= units1 c <= utf8_len1 c.
Proof. intro c. unfold units1, utf8_len1. destruct (c <? 65536) eqn:E; destruct (c <? 128) eqn:E1; destruct (c <? 2048) eqn:E2; lia. Qed.

Theorem units_le_utf8 : forall s, utf16_units s <= utf8_len s.
Proof. induction s as [|c s IH]; cbn [utf16_units utf8_len]; [lia|]. pose proof (units1_le c). lia. Qed.

Lemma units_nonneg : forall s, 0 <= utf16_units s.
Proof. induction s as [|c s IH]; cbn [utf16_units]; [lia|]. pose proof (units1_le c). lia. Qed.

Theorem joliet_fits : forall s, joliet_accepts s = true -> 2 * utf16_units s <= 128.
Proof. intros s H. unfold joliet_accepts in H. pose proof (units_le_utf8 s). lia. Qed.

Theorem joliet_dr_fits : forall xa s, joliet_accepts s = true ->
  len (utf16be_enc s) <= 128 /\ 34 <= joliet_dr_len xa s <= 254 /\ joliet_dr_len xa s mod 2 = 0.
Proof.
  intros xa s H. pose proof (joliet_fits s H) as H1. pose proof (units_nonneg s) as H0.
  rewrite utf16_length. unfold joliet_dr_len. destruct xa; cbv zeta; lia.
Qed.

(* over-refusal: 22 CJK characters (U+4E2D) = 66 UTF-8 bytes are refused although they need 22 units *)
Theorem joliet_over_refusal : exists s, Forall scalar s /\ joliet_accepts s = false /\ utf16_units s <= 64
  /\ joliet_spec_fits s = true.
Proof.
  exists (repeat 20013 22). split.
  - apply Forall_forall. intros x Hx. apply repeat_spec in Hx. subst. unfold scalar. lia.
  - vm_compute. repeat split; discriminate.
Qed.

(* the coded rule never accepts a name the specification bound would reject *)
Theorem joliet_accepts_sound : forall s, joliet_accepts s = true -> joliet_spec_fits s = true.
Proof. intros s H. pose proof (joliet_fits s H). unfold joliet_spec_fits. lia. Qed.

(* ---------- (II.a) NM ---------- *)
Lemma nm_chunks_concat : forall fuel l, (length l <= fuel)%nat -> concat (nm_chunks fuel l) = l.
Proof.
  induction fuel as [|f IH]; intros l Hl.
  - destruct l; [reflexivity|cbn [length] in Hl; lia].
  - destruct l as [|x l']; [reflexivity|].
    cbn [nm_chunks concat]. rewrite IH.
    + apply firstn_skipn.
    + rewrite skipn_length. cbn [length] in *. lia.
Qed.

Lemma nm_chunks_bound : forall fuel l, Forall (fun p => (1 <= length p <= 250)%nat) (nm_chunks fuel l).
Proof.
  induction fuel as [|f IH]; intro l; [constructor|].
  destruct l as [|x l']; [constructor|]. cbn [nm_chunks]. constructor; [|apply IH].
  rewrite firstn_length. cbn [length]. lia.
Qed.

Lemma nm_join_flag : forall ps, nm_join (nm_flag ps) = concat ps.
Proof.
  induction ps as [|p ps IH]; [reflexivity|].
  destruct ps as [|q ps'].
  - cbn. rewrite app_nil_r. reflexivity.
  - change (nm_flag (p :: q :: ps')) with ((1, p) :: nm_flag (q :: ps')).
    cbn [nm_join concat]. change (Z.odd 1) with true. cbv iota. rewrite IH. reflexivity.
Qed.

Theorem nm_roundtrip : forall room name, 0 <= room -> nm_join (nm_split room name) = name.
Proof.
  intros room name Hr. unfold nm_split. rewrite nm_join_flag, concat_app, nm_chunks_concat.
  - destruct (0 <? room) eqn:E.
    + cbn [concat]. rewrite app_nil_r. apply firstn_skipn.
    + assert (room = 0) by lia. subst. reflexivity.
  - rewrite skipn_length. lia.
Qed.

(* flags: CONTINUE (1) on all pieces but the last, 0 on the last *)
Lemma nm_flag_flags : forall ps, all_but_last 1 0 (map fst (nm_flag ps)).
Proof.
  induction ps as [|p ps IH]; [exact I|].
  destruct ps as [|q ps']; [reflexivity|].
  change (nm_flag (p :: q :: ps')) with ((1, p) :: nm_flag (q :: ps')).
  cbn [map fst]. destruct (nm_flag (q :: ps')) as [|x xs] eqn:E.
  - destruct ps'; discriminate E.
  - cbn [map] in *. split; [reflexivity|exact IH].
Qed.

Theorem nm_flags_ok : forall room name, all_but_last 1 0 (map fst (nm_split room name)).
Proof. intros. apply nm_flag_flags. Qed.

Lemma nm_flag_snd : forall ps, map snd (nm_flag ps) = ps.
Proof.
  induction ps as [|p ps IH]; [reflexivity|]. destruct ps as [|q ps']; [reflexivity|].
  change (nm_flag (p :: q :: ps')) with ((1, p) :: nm_flag (q :: ps')). cbn [map snd]. rewrite IH. reflexivity.
Qed.

(* sizes: the piece kept in the directory record is at most `room` long, every continuation piece is
   1..250 bytes, hence every NM record (5 + piece) fits its one-byte length field. *)
Theorem nm_piece_bounds : forall room name, 0 <= room ->
  exists first rest, map snd (nm_split room name) = first ++ rest
    /\ Forall (fun p => len p <= room) first
    /\ Forall (fun p => 1 <= len p <= 250) rest.
Proof.
  intros room name Hr. unfold nm_split. rewrite nm_flag_snd.
  eexists; eexists; split; [reflexivity|]. split.
  - destruct (0 <? room); constructor; [|constructor]. unfold len. rewrite firstn_length. lia.
  - eapply Forall_impl; [|apply nm_chunks_bound]. intros p Hp. cbv beta in Hp. unfold len. lia.
Qed.

Corollary nm_record_len_byte : forall room name fp, 0 <= room <= 250 ->
  In fp (nm_split room name) -> len (nm_record_bytes fp) = 5 + len (snd fp) /\ 5 + len (snd fp) <= 255.
Proof.
  intros room name fp Hr Hin. split.
  - unfold nm_record_bytes, len. rewrite app_length. cbn [length]. lia.
  - destruct (nm_piece_bounds room name) as (first & rest & Hs & Hf & Hrest); [lia|].
    assert (Hin' : In (snd fp) (first ++ rest)) by (rewrite <- Hs; apply in_map; exact Hin).
    apply in_app_or in Hin'. destruct Hin' as [H|H].
    + rewrite Forall_forall in Hf. specialize (Hf _ H). lia.
    + rewrite Forall_forall in Hrest. specialize (Hrest _ H). lia.
Qed.

(* ---------- (II.b) SL ---------- *)
Lemma is_dot_eq : forall s, is_dot s = true -> s = [46].
Proof. intros s H. apply zlist_eqb_eq in H. exact H. Qed.
Lemma is_dotdot_eq : forall s, is_dotdot s = true -> s = [46; 46].
Proof. intros s H. apply zlist_eqb_eq in H. exact H. Qed.
Lemma is_slash_eq : forall s, is_slash s = true -> s = [47].
Proof. intros s H. apply zlist_eqb_eq in H. exact H. Qed.

Lemma split_nonnil : forall l, split_slash l <> [].
Proof.
  induction l as [|c r IH]; cbn [split_slash]; [discriminate|].
  destruct (c =? 47); [discriminate|]. destruct (split_slash r); [contradiction|discriminate].
Qed.

Lemma join_split : forall l, join_slash (split_slash l) = l.
Proof.
  induction l as [|c r IH]; [reflexivity|]. cbn [split_slash].
  destruct (c =? 47) eqn:E.
  - assert (c = 47) by lia. subst c. pose proof (split_nonnil r) as Hn.
    destruct (split_slash r) as [|p ps] eqn:S; [contradiction|].
    change (join_slash ([] :: p :: ps)) with ([] ++ 47 :: join_slash (p :: ps)). rewrite IH. reflexivity.
  - pose proof (split_nonnil r) as Hn. destruct (split_slash r) as [|p ps] eqn:S; [contradiction|].
    destruct ps as [|q ps'].
    + cbn [join_slash] in *. rewrite IH. reflexivity.
    + change (join_slash ((c :: p) :: q :: ps')) with ((c :: p) ++ 47 :: join_slash (q :: ps')).
      change (join_slash (p :: q :: ps')) with (p ++ 47 :: join_slash (q :: ps')) in IH.
      rewrite <- IH. reflexivity.
Qed.

Lemma split_no_slash : forall l, Forall (fun p => ~ In 47 p) (split_slash l).
Proof.
  induction l as [|c r IH]; cbn [split_slash].
  - constructor; [intros []|constructor].
  - destruct (c =? 47) eqn:E.
    + constructor; [intros []|exact IH].
    + destruct (split_slash r) as [|p ps]; [constructor; [|constructor]|].
      * intros [H|[]]. lia.
      * inversion IH; subst. constructor; [|assumption]. intros [H|H]; [lia|contradiction].
Qed.

(* components seen by the independent reader for a trace *)
Definition tok_comps (t : tok) : list comp :=
  match t with TBrk => [] | TSpecial c => [c] | TName b s => [factory b s] end.
Definition comps_of (ts : list tok) : list comp := flat_map tok_comps ts.

Lemma comps_of_app : forall a b, comps_of (a ++ b) = comps_of a ++ comps_of b.
Proof. intros. apply flat_map_app. Qed.

Lemma group_nonnil : forall ts, group ts <> [].
Proof.
  induction ts as [|t r IH]; cbn [group]; [discriminate|].
  destruct t; [discriminate| |]; (destruct (group r) as [|[fl cs] k]; [contradiction|discriminate]).
Qed.

Lemma take_emit : forall c k, k <> [] -> take_records (emit c k) = c :: take_records k.
Proof. intros c [|[fl cs] k] H; [contradiction|reflexivity]. Qed.

Lemma take_group : forall ts, take_records (group ts) = comps_of ts.
Proof.
  induction ts as [|t r IH]; [reflexivity|].
  destruct t; cbn [group]; [cbn [take_records]; rewrite IH; reflexivity| |];
    rewrite take_emit by apply group_nonnil; rewrite IH; reflexivity.
Qed.

Lemma sep_glue : forall c r, glue c = true -> sep c r = [].
Proof. intros c [|x r] H; cbn [sep]; [reflexivity|rewrite H; reflexivity]. Qed.
Lemma sep_noglue : forall c d r r', glue c = false -> glue d = false -> (r = [] <-> r' = []) ->
  sep c r = sep d r'.
Proof.
  intros c d r r' Hc Hd [H1 H2]. destruct r as [|x r]; destruct r' as [|y r']; cbn [sep]; try reflexivity.
  - discriminate H1; reflexivity. - discriminate H2; reflexivity. - rewrite Hc, Hd. reflexivity.
Qed.

Lemma comp_len_ge : forall s, len s <= comp_len_name s /\ 2 <= comp_len_name s.
Proof.
  intro s. unfold comp_len_name, len.
  destruct (is_dot s) eqn:E1; [apply is_dot_eq in E1; subst; cbn; lia|].
  destruct (is_dotdot s) eqn:E2; [apply is_dotdot_eq in E2; subst; cbn; lia|].
  destruct (is_slash s) eqn:E3; [apply is_slash_eq in E3; subst; cbn; lia|].
  cbn [orb]. lia.
Qed.

Lemma cut_name_S : forall f r2 area rest, cut_name (S f) r2 area rest =
  let minimum := match rest with [] => 2 | _ => 3 end in
  let area1 := if area <? minimum then r2 else area in
  let pre := if area <? minimum then [TBrk] else [] in
  let length := if area1 <? len rest + 2 then area1 - 2 else len rest in
  let n := Z.to_nat length in
  if len rest <=? length then (pre ++ [TName false (firstn n rest)], area1 - length - 2)
  else let '(ts, a) := cut_name f r2 (area1 - length - 2) (skipn n rest) in
       (pre ++ TName true (firstn n rest) :: ts, a).
Proof. reflexivity. Qed.

(* what one turn of the while loop does, 3 <= r2: either the rest fits (it is taken whole, area1 >= its size), or
   exactly area1 - 2 >= 1 bytes are taken and the record is full *)
Lemma cut_step : forall r2 area (rest : list Z), 3 <= r2 ->
  let minimum := match rest with [] => 2 | _ => 3 end in
  let area1 := if area <? minimum then r2 else area in
  let lz := if area1 <? len rest + 2 then area1 - 2 else len rest in
  minimum <= area1 /\
  ((len rest <=? lz) = true -> lz = len rest /\ len rest + 2 <= area1 /\ firstn (Z.to_nat lz) rest = rest) /\
  ((len rest <=? lz) = false -> lz = area1 - 2 /\ 1 <= lz < len rest).
Proof.
  intros r2 area rest Hr2. cbv zeta.
  assert (Hm : 2 <= match rest with [] => 2 | _ => 3 end <= 3) by (destruct rest; lia).
  assert (Hne : match rest with [] => 2 | _ => 3 end = 2 -> len rest = 0) by (destruct rest; [reflexivity|lia]).
  assert (Hl : 0 <= len rest) by (unfold len; lia).
  set (m := match rest with [] => 2 | _ => 3 end) in *.
  set (area1 := if area <? m then r2 else area).
  assert (Ha : m <= area1) by (unfold area1; destruct (area <? m) eqn:E; lia).
  split; [exact Ha|]. destruct (area1 <? len rest + 2) eqn:E; split; intros D.
  - lia.
  - split; [reflexivity|]. assert (m = 3) by (destruct (Z.eq_dec m 2) as [e|e]; [specialize (Hne e)|]; lia). lia.
  - split; [reflexivity|]. split; [lia|]. apply firstn_all2. unfold len in *. lia.
  - lia.
Qed.

Lemma comps_of_pre : forall (b : bool) ts, comps_of ((if b then [TBrk] else []) ++ ts) = comps_of ts.
Proof. intros [] ts; reflexivity. Qed.

Lemma sep_plain : forall b1 s1 b2 s2 tail, b1 = false -> b2 = false ->
  sep (CName b1 s1) tail = sep (CName b2 s2) tail.
Proof. intros b1 s1 b2 s2 [|x tail] -> ->; reflexivity. Qed.

(* cutting a name is invisible to the independent reader -- for EVERY name, whatever its slices spell *)
Lemma render_cut : forall fuel r2 area rest ts a tail,
  3 <= r2 -> (length rest < fuel)%nat -> cut_name fuel r2 area rest = (ts, a) ->
  render (comps_of ts ++ tail) = render (CName false rest :: tail).
Proof.
  induction fuel as [|f IH]; intros r2 area rest ts a tail Hr2 Hf Hc; [lia|].
  rewrite cut_name_S in Hc. cbv zeta in Hc. destruct (cut_step r2 area rest Hr2) as (Hm & Hd & Hn).
  cbv zeta in Hm, Hd, Hn.
  set (area1 := if area <? match rest with [] => 2 | _ => 3 end then r2 else area) in *.
  set (lz := if area1 <? len rest + 2 then area1 - 2 else len rest) in *.
  destruct (len rest <=? lz) eqn:D.
  - inversion Hc; subst ts a; clear Hc. rewrite comps_of_pre. destruct (Hd eq_refl) as (_ & _ & ->). reflexivity.
  - destruct (cut_name f r2 (area1 - lz - 2) (skipn (Z.to_nat lz) rest)) as [ts' a'] eqn:R.
    inversion Hc; subst ts a; clear Hc. destruct (Hn eq_refl) as (Hlz & Hlz1 & Hlz2).
    rewrite comps_of_pre. cbn [comps_of flat_map tok_comps]. fold (comps_of ts'). unfold factory.
    cbn [app render comp_text]. rewrite sep_glue by reflexivity. cbn [app].
    erewrite IH; [|exact Hr2| |exact R]; [|rewrite skipn_length; unfold len in *; lia].
    cbn [render comp_text]. rewrite app_assoc, firstn_skipn. destruct tail; reflexivity.
Qed.

Definition logical (c : comp) : Prop :=
  match c with CName b p => b = false /\ ~ In 47 p | _ => True end.

Lemma one_comp_nonnil : forall r2 area c, comps_of (fst (one_comp r2 area c)) <> [].
Proof.
  intros r2 area c. destruct c as [| | |b p]; cbn [one_comp];
    try (cbn [fst]; rewrite comps_of_pre; discriminate).
  rewrite cut_name_S. cbv zeta.
  destruct (len p <=? _).
  - cbn [fst]. rewrite comps_of_pre. discriminate.
  - destruct (cut_name _ _ _ _) as [ts a]. cbn [fst]. rewrite comps_of_pre. discriminate.
Qed.

Lemma sl_tokens_nil : forall r2 area cs, comps_of (sl_tokens r2 area cs) = [] -> cs = [].
Proof.
  intros r2 area [|c cs] H; [reflexivity|]. exfalso. cbn [sl_tokens] in H.
  pose proof (one_comp_nonnil r2 area c) as Hn.
  destruct (one_comp r2 area c) as [ts a]. cbn [fst] in Hn.
  rewrite comps_of_app in H. apply app_eq_nil in H. destruct H as [H _]. contradiction.
Qed.

Lemma tail_nil_iff : forall r2 area cs (tail : list comp),
  comps_of (sl_tokens r2 area cs) ++ tail = [] <-> cs ++ tail = [].
Proof.
  intros. split; intro H; apply app_eq_nil in H; destruct H as [H1 H2]; subst tail.
  - apply sl_tokens_nil in H1. subst. reflexivity.
  - subst. reflexivity.
Qed.

(* the whole cut-and-distribute pass is invisible to the independent reader *)
Lemma render_tokens : forall r2 cs area tail,
  3 <= r2 -> Forall logical cs ->
  render (comps_of (sl_tokens r2 area cs) ++ tail) = render (cs ++ tail).
Proof.
  intros r2 cs. induction cs as [|c cs IH]; intros area tail Hr2 Hl; [reflexivity|].
  inversion Hl as [|c' cs' Hc Hcs]; subst c' cs'.
  cbn [sl_tokens] in *. destruct (one_comp r2 area c) as [ts a] eqn:O.
  rewrite comps_of_app, <- app_assoc.
  specialize (IH a tail Hr2 Hcs).
  assert (Hspecial : forall c0, c = c0 -> (forall b p, c0 <> CName b p) ->
            render (comps_of ts ++ comps_of (sl_tokens r2 a cs) ++ tail) = render ((c :: cs) ++ tail)).
  { intros c0 -> Hn. assert (Hts : comps_of ts = [c0]).
    { destruct c0; cbn [one_comp] in O; inversion O; try (rewrite comps_of_pre; reflexivity).
      exfalso. eapply Hn. reflexivity. }
    rewrite Hts. cbn [app render]. rewrite IH. f_equal. f_equal.
    destruct (glue c0) eqn:G; [rewrite !sep_glue by exact G; reflexivity|].
    apply sep_noglue; [exact G|exact G|apply tail_nil_iff]. }
  destruct c as [| | |b p].
  - apply (Hspecial CRoot); [reflexivity|discriminate].
  - apply (Hspecial CCurrent); [reflexivity|discriminate].
  - apply (Hspecial CParent); [reflexivity|discriminate].
  - clear Hspecial. cbn [logical] in Hc. destruct Hc as [-> H47]. cbn [one_comp] in O.
    erewrite render_cut; [| exact Hr2 | | exact O]; [|lia].
    cbn [app render comp_text]. rewrite IH. f_equal. f_equal.
    apply sep_noglue; [reflexivity|reflexivity|apply tail_nil_iff].
Qed.

Lemma classify_false_props : forall p, ~ In 47 p ->
  comp_text (classify false p) = p /\ glue (classify false p) = false /\ logical (classify false p).
Proof.
  intros p H. unfold classify. destruct p as [|x p']; [cbn; auto|].
  destruct (is_dot (x :: p')) eqn:E1; [apply is_dot_eq in E1; rewrite E1; cbn; auto|].
  destruct (is_dotdot (x :: p')) eqn:E2; [apply is_dotdot_eq in E2; rewrite E2; cbn; auto|].
  cbn. auto.
Qed.

Lemma render_classify_false : forall ps, Forall (fun p => ~ In 47 p) ps ->
  render (map (classify false) ps) = join_slash ps /\ Forall logical (map (classify false) ps).
Proof.
  induction 1 as [|p ps Hp Hps [IH1 IH2]]; [split; [reflexivity|constructor]|].
  destruct (classify_false_props p Hp) as (Ht & Hg & Hl).
  split; [|constructor; assumption].
  cbn [map render]. rewrite Ht, IH1. destruct ps as [|q ps'].
  - cbn. rewrite app_nil_r. reflexivity.
  - cbn [map sep]. rewrite Hg. reflexivity.
Qed.

(* the logical component list spells the target *)
Lemma render_components : forall target, target <> [] ->
  render (sl_components target) = target /\ Forall logical (sl_components target).
Proof.
  intros target Hne. unfold sl_components.
  pose proof (join_split target) as J. pose proof (split_no_slash target) as N.
  destruct (split_slash target) as [|p ps]; [cbn in J; congruence|].
  inversion N as [|p' ps' Hp Hps]; subst p' ps'.
  destruct (render_classify_false ps Hps) as [R L].
  destruct p as [|x p'].
  - (* leading '/' *) cbn [classify]. split; [|constructor; [exact I|exact L]].
    destruct ps as [|q ps']; [cbn in J; congruence|].
    cbn [render comp_text]. rewrite sep_glue by reflexivity. rewrite R. exact J.
  - destruct (classify_false_props (x :: p') Hp) as (Ht & Hg & Hl).
    change (classify true (x :: p')) with (classify false (x :: p')).
    split; [|constructor; assumption].
    cbn [render]. rewrite Ht, R. destruct ps as [|q ps'].
    + cbn [map sep join_slash app]. rewrite app_nil_r. exact J.
    + cbn [map sep]. rewrite Hg. exact J.
Qed.

(* EVERY non-empty target reads back exactly: names beginning with '.', empty pieces ("a//b"), a trailing or
   leading "/", "." and ".." pieces, any number of components, names longer than a record.  3 <= r2 is what the
   loop needs to make progress (r2 = 250 in the code); nothing is asked of r1. *)
Theorem sl_roundtrip_all : forall r1 r2 target, 3 <= r2 -> target <> [] ->
  sl_reassemble (sl_records r1 r2 (sl_components target)) = target.
Proof.
  intros r1 r2 target Hr2 Hne. destruct (render_components target Hne) as [R L].
  unfold sl_reassemble, sl_records. rewrite take_group.
  rewrite <- (app_nil_r (comps_of _)). rewrite render_tokens by assumption.
  rewrite app_nil_r. exact R.
Qed.

(* the two former guarded statements, now corollaries *)
Theorem sl_roundtrip_partial : forall r1 r2 target, 3 <= r2 -> sl_ok r1 r2 target = true ->
  sl_reassemble (sl_records r1 r2 (sl_components target)) = target.
Proof. intros r1 r2 target Hr2 H. apply sl_roundtrip_all; [exact Hr2|]. intros ->. discriminate H. Qed.
Theorem sl_roundtrip : forall r1 r2 target, 5 <= r2 -> no_dot_names target = true ->
  sl_reassemble (sl_records r1 r2 (sl_components target)) = target.
Proof. intros r1 r2 target Hr2 H. apply sl_roundtrip_all; [lia|]. intros ->. discriminate H. Qed.

(* ---------- nothing is placed outside the planned room ---------- *)
Definition tok_size (t : tok) : Z :=
  match t with TBrk => 0 | TSpecial c => comp_size c | TName _ s => 2 + len s end.
(* room = what is left in the record being filled; a TBrk opens a record with r2 bytes *)
Fixpoint fits (room r2 : Z) (ts : list tok) : Prop :=
  match ts with
  | [] => True
  | TBrk :: r => fits r2 r2 r
  | t :: r => tok_size t <= room /\ fits (room - tok_size t) r2 r
  end.
Lemma fits_pre : forall (b : bool) room r2 ts,
  fits (if b then r2 else room) r2 ts -> fits room r2 ((if b then [TBrk] else []) ++ ts).
Proof. intros [] room r2 ts H; exact H. Qed.

Lemma cut_fits : forall fuel r2 area rest ts a tail, 3 <= r2 -> (length rest < fuel)%nat ->
  cut_name fuel r2 area rest = (ts, a) -> fits a r2 tail -> fits area r2 (ts ++ tail).
Proof.
  induction fuel as [|f IH]; intros r2 area rest ts a tail Hr2 Hf Hc Ht; [lia|].
  rewrite cut_name_S in Hc. cbv zeta in Hc. destruct (cut_step r2 area rest Hr2) as (Hm & Hd & Hn).
  cbv zeta in Hm, Hd, Hn.
  set (area1 := if area <? match rest with [] => 2 | _ => 3 end then r2 else area) in *.
  set (lz := if area1 <? len rest + 2 then area1 - 2 else len rest) in *.
  destruct (len rest <=? lz) eqn:D.
  - inversion Hc; subst ts a; clear Hc. destruct (Hd eq_refl) as (E1 & E2 & E3).
    rewrite <- app_assoc. apply fits_pre. fold area1. rewrite E3. cbn [app fits tok_size].
    split; [lia|]. rewrite E1 in Ht. replace (area1 - (2 + len rest)) with (area1 - len rest - 2) by lia. exact Ht.
  - destruct (cut_name f r2 (area1 - lz - 2) (skipn (Z.to_nat lz) rest)) as [ts' a'] eqn:R.
    inversion Hc; subst ts a; clear Hc. destruct (Hn eq_refl) as (Hlz & Hlz1 & Hlz2).
    rewrite <- app_assoc. apply fits_pre. fold area1. cbn [app fits tok_size].
    assert (Hs : len (firstn (Z.to_nat lz) rest) = lz) by (unfold len in *; rewrite firstn_length; lia).
    rewrite Hs. split; [lia|]. replace (area1 - (2 + lz)) with (area1 - lz - 2) by lia.
    eapply IH; [exact Hr2| |exact R|exact Ht]. rewrite skipn_length. unfold len in *. lia.
Qed.

Lemma tokens_fits : forall r2 cs area, 3 <= r2 -> fits area r2 (sl_tokens r2 area cs).
Proof.
  intros r2 cs. induction cs as [|c cs IH]; intros area Hr2; [exact I|]. cbn [sl_tokens].
  destruct (one_comp r2 area c) as [ts a] eqn:O.
  destruct c as [| | |b p]; cbn [one_comp] in O;
    try (inversion O; subst ts a; rewrite <- app_assoc; apply fits_pre; cbn [app fits tok_size];
         change (comp_size _) with 2; split; [destruct (area <? 2) eqn:E; lia|];
         replace ((if area <? 2 then r2 else area) - 2) with ((if area <? 2 then r2 else area) - 0 - 2) by lia;
         apply IH; exact Hr2).
  eapply cut_fits; [exact Hr2| |exact O|apply IH; exact Hr2]. lia.
Qed.

Lemma comp_size_nonneg : forall c, 0 <= comp_size c.
Proof. intro c. unfold comp_size, len. lia. Qed.
Lemma comps_size_nonneg : forall cs, 0 <= comps_size cs.
Proof. induction cs as [|c cs IH]; cbn [comps_size fold_right]; [lia|]. pose proof (comp_size_nonneg c). unfold comps_size in IH. lia. Qed.
Lemma comp_size_name : forall b s, comp_size (CName b s) = 2 + len s.
Proof. intros b s. unfold comp_size, comp_bytes, comp_pair, len. rewrite app_length. cbn [length]. lia. Qed.

Lemma group_fits : forall r2 ts room, 0 <= r2 -> fits room r2 ts ->
  exists r0 rs, group ts = r0 :: rs /\ comps_size (snd r0) <= Z.max 0 room /\
                Forall (fun r => comps_size (snd r) <= r2) rs.
Proof.
  intros r2 ts. induction ts as [|t r IH]; intros room Hr2 H.
  - exists (false, []), []. cbn. repeat split; [lia|constructor].
  - destruct t as [|c|b s]; cbn [fits group] in *.
    + destruct (IH _ Hr2 H) as (r0 & rs & -> & H1 & H2). exists (true, []), (r0 :: rs).
      split; [reflexivity|]. split; [cbn; lia|]. constructor; [lia|exact H2].
    + destruct H as [Hs H]. destruct (IH _ Hr2 H) as ([fl cs] & rs & -> & H1 & H2).
      exists (fl, c :: cs), rs. split; [reflexivity|]. split; [|exact H2].
      cbn [snd comps_size fold_right tok_size] in *. pose proof (comp_size_nonneg c). unfold comps_size in H1. lia.
    + destruct H as [Hs H]. destruct (IH _ Hr2 H) as ([fl cs] & rs & -> & H1 & H2).
      exists (fl, factory b s :: cs), rs. split; [reflexivity|]. split; [|exact H2]. unfold factory.
      cbn [snd comps_size fold_right tok_size] in *. rewrite comp_size_name. unfold len in *. unfold comps_size in H1. lia.
Qed.

(* every record _new_symlink produces fits the room it was opened with: the first one r1 (what is left in the
   directory record, or 250 in the continuation area), every further one r2 *)
Theorem sl_rooms : forall r1 r2 cs, 3 <= r2 ->
  exists r0 rs, sl_records r1 r2 cs = r0 :: rs /\ comps_size (snd r0) <= Z.max 0 r1 /\
                Forall (fun r => comps_size (snd r) <= r2) rs.
Proof. intros r1 r2 cs Hr2. apply group_fits; [lia|]. apply tokens_fits. exact Hr2. Qed.

(* if the uncut components fit the first room, the loop opens no further record and cuts nothing *)
Lemma single_record : forall r2 cs area, Forall logical cs -> comps_size cs <= area ->
  group (sl_tokens r2 area cs) = [(false, cs)].
Proof.
  intros r2 cs. induction cs as [|c cs IH]; intros area Hl Hs; [reflexivity|].
  inversion Hl as [|c' cs' Hc Hcs]; subst c' cs'. cbn [comps_size fold_right] in Hs. fold (comps_size cs) in Hs.
  pose proof (comps_size_nonneg cs) as Hn. cbn [sl_tokens].
  assert (Hsp : forall c0, c = c0 -> comp_size c0 = 2 -> (forall b p, c0 <> CName b p) ->
                let '(ts, a) := one_comp r2 area c0 in group (ts ++ sl_tokens r2 a cs) = [(false, c0 :: cs)]).
  { intros c0 -> H2 Hnn. assert (E : area <? 2 = false) by lia.
    destruct c0; cbn [one_comp]; try (exfalso; eapply Hnn; reflexivity); rewrite E; cbn [app group];
      rewrite IH by (assumption || lia); reflexivity. }
  destruct c as [| | |b p].
  - apply (Hsp CRoot); [reflexivity|reflexivity|discriminate].
  - apply (Hsp CCurrent); [reflexivity|reflexivity|discriminate].
  - apply (Hsp CParent); [reflexivity|reflexivity|discriminate].
  - clear Hsp. destruct Hc as [-> _]. rewrite comp_size_name in Hs. cbn [one_comp]. rewrite cut_name_S. cbv zeta.
    assert (Hm : match p with [] => 2 | _ => 3 end <= 2 + len p) by (destruct p; unfold len; cbn [length]; lia).
    replace (area <? match p with [] => 2 | _ => 3 end) with false by lia.
    replace (area <? len p + 2) with false by lia. rewrite Z.leb_refl.
    rewrite firstn_all2 by (unfold len; lia). cbn [app group]. unfold factory.
    rewrite IH by (assumption || lia). reflexivity.
Qed.

Lemma classify_size : forall first p, ~ In 47 p -> comp_size (classify first p) = comp_len_name p.
Proof.
  intros first p H. unfold classify, comp_len_name. destruct p as [|x p']; [destruct first; reflexivity|].
  destruct (is_dot (x :: p')) eqn:E1; [reflexivity|]. destruct (is_dotdot (x :: p')) eqn:E2; [reflexivity|].
  destruct (is_slash (x :: p')) eqn:E3; [apply is_slash_eq in E3; exfalso; apply H; rewrite E3; left; reflexivity|].
  cbn [orb]. apply comp_size_name.
Qed.
Lemma components_size : forall target,
  comps_size (sl_components target) = fold_right (fun p acc => comp_len_name p + acc) 0 (split_slash target).
Proof.
  intros target. unfold sl_components. pose proof (split_no_slash target) as N.
  destruct (split_slash target) as [|p ps]; [reflexivity|]. inversion N as [|p' ps' Hp Hps]; subst.
  cbn [comps_size fold_right]. rewrite classify_size by exact Hp. f_equal.
  induction Hps as [|q qs Hq Hqs IH]; [reflexivity|]. cbn [map fold_right]. rewrite classify_size by exact Hq.
  rewrite IH; [reflexivity|constructor; assumption].
Qed.

(* first pass of RockRidge.new (no CE entry): _new_symlink proceeds only if the uncut SL entry fits, and then
   everything stays in the one record that is written -- nothing is lost *)
Theorem sl_no_ce_single_record : forall r1 r2 target, target <> [] -> sl_accepts_no_ce r1 target = true ->
  sl_records r1 r2 (sl_components target) = [(false, sl_components target)].
Proof.
  intros r1 r2 target Hne H. unfold sl_accepts_no_ce in H. destruct (render_components target Hne) as [_ L].
  apply single_record; [exact L|]. rewrite components_size. lia.
Qed.
Corollary sl_no_ce_roundtrip : forall r1 r2 target, target <> [] -> sl_accepts_no_ce r1 target = true ->
  sl_reassemble (sl_written false (sl_records r1 r2 (sl_components target))) = target.
Proof.
  intros r1 r2 target Hne H. rewrite (sl_no_ce_single_record r1 r2 target Hne H). cbn [sl_written firstn].
  unfold sl_reassemble. cbn [take_records]. rewrite app_nil_r. apply render_components. exact Hne.
Qed.

(* ---------- the former witnesses, now read back exactly ---------- *)
Lemma zlist_neq : forall a b, zlist_eqb a b = false -> a <> b.
Proof. intros a b H E. apply zlist_eqb_eq in E. congruence. Qed.

(* "aaa...a/.bbb/ccc...c" (129 a's, 100 c's), 134 bytes of room: the name ".bbb" is cut right after its dot; the
   slice "." is now the NAME component (flags 1 = CONTINUE, "."), not CURRENT *)
Example w_dot_reads_back :
  sl_reassemble (sl_records 134 250 (sl_components w_dot)) = w_dot
  /\ symlink_path_model (sl_records 134 250 (sl_components w_dot)) = Some w_dot
  /\ map (fun r => (fst r, map comp_pair (snd r))) (sl_records 134 250 (sl_components w_dot))
     = [(true, [(0, repeat 97 129%nat); (1, [46])]); (false, [(0, [98; 98; 98]); (0, repeat 99 100%nat)])].
Proof. vm_compute. repeat split. Qed.
Example w_dotdot_reads_back :
  sl_reassemble (sl_records 134 250 (sl_components w_dotdot)) = w_dotdot
  /\ map (fun r => (fst r, map comp_pair (snd r))) (sl_records 134 250 (sl_components w_dotdot))
     = [(true, [(0, repeat 97 128%nat); (1, [46; 46])]); (false, [(0, [98; 98; 98]); (0, repeat 99 100%nat)])].
Proof. vm_compute. repeat split. Qed.
(* 40 one-letter names, 164 bytes of room, no CE record: 125 <= 164, one record *)
Example w_many_reads_back :
  sl_accepts_no_ce 164 w_many = true /\
  sl_reassemble (sl_written false (sl_records 164 250 (sl_components w_many))) = w_many /\
  length (sl_records 164 250 (sl_components w_many)) = 1%nat.
Proof. vm_compute. repeat split. Qed.

(* the empty target (never passed by pycdlib: `if symlink_path:`) would be written as ROOT *)
Lemma sl_empty_refuted : forall r1, 2 <= r1 -> sl_reassemble (sl_records r1 250 (sl_components [])) = [47].
Proof.
  intros r1 H. unfold sl_records, sl_components. cbn [split_slash classify map sl_tokens one_comp].
  destruct (r1 <? 2) eqn:E; [lia|]. reflexivity.
Qed.

(* pycdlib's reader on a foreign image: a symlink to "/" stored as the single component ROOT reads as b''
   (pycdlib itself writes "/" as [ROOT; NAME ""], which both readers read as "/": root_target_roundtrip) *)
Lemma pycdlib_reader_root_refuted :
  symlink_path_model [(false, [CRoot])] = Some [] /\ sl_reassemble [(false, [CRoot])] = [47].
Proof. split; reflexivity. Qed.
Example root_target_roundtrip :
  sl_records 100 250 (sl_components [47]) = [(false, [CRoot; CName false []])] /\
  symlink_path_model (sl_records 100 250 (sl_components [47])) = Some [47] /\
  sl_reassemble (sl_records 100 250 (sl_components [47])) = [47].
Proof. repeat split. Qed.

(* ---------- bounded agreement of pycdlib's reader with the independent reader ---------- *)
(* all targets of length <= 7 over {'a', '.', '/'}, first room 3..9, next room 5: pycdlib's symlink_path()
   and the independent reader agree and give the target back *)
Theorem readers_agree_bounded :
  forallb (fun r1 => forallb (agree_on r1 5) (words [97; 46; 47] 7)) [3; 4; 5; 6; 7; 8; 9] = true.
Proof. vm_compute. reflexivity. Qed.

(* ---------- flag discipline ---------- *)
Lemma fst_emit : forall c k, k <> [] -> map fst (emit c k) = map fst k.
Proof. intros c [|[fl cs] k] H; [contradiction|reflexivity]. Qed.

(* (a) record level: CONTINUE on every SL record but the last *)
Lemma group_flags : forall ts, all_but_last true false (map fst (group ts)).
Proof.
  induction ts as [|t r IH]; [reflexivity|].
  destruct t; cbn [group]; try (rewrite fst_emit by apply group_nonnil; exact IH).
  cbn [map fst]. pose proof (group_nonnil r) as Hn.
  destruct (group r) as [|x k]; [contradiction|]. cbn [map] in *. split; [reflexivity|exact IH].
Qed.
Theorem sl_record_flags : forall r1 r2 cs, all_but_last true false (map fst (sl_records r1 r2 cs)).
Proof. intros. apply group_flags. Qed.

(* (b) component level, as set in memory: the slices of ONE name carry CONTINUE on all but the last slice,
   and they concatenate to the name *)
Definition tok_slice (t : tok) : list (bool * list Z) :=
  match t with TName b s => [(b, s)] | _ => [] end.
Definition slices (ts : list tok) : list (bool * list Z) := flat_map tok_slice ts.
Lemma slices_pre : forall (b : bool) ts, slices ((if b then [TBrk] else []) ++ ts) = slices ts.
Proof. intros [] ts; reflexivity. Qed.

Theorem cut_name_flags : forall fuel r2 area rest ts a, 3 <= r2 -> (length rest < fuel)%nat ->
  cut_name fuel r2 area rest = (ts, a) ->
  slices ts <> [] /\ all_but_last true false (map fst (slices ts)) /\ concat (map snd (slices ts)) = rest.
Proof.
  induction fuel as [|f IH]; intros r2 area rest ts a Hr2 Hf Hc; [lia|].
  rewrite cut_name_S in Hc. cbv zeta in Hc. destruct (cut_step r2 area rest Hr2) as (Hm & Hd & Hn).
  cbv zeta in Hm, Hd, Hn.
  set (area1 := if area <? match rest with [] => 2 | _ => 3 end then r2 else area) in *.
  set (lz := if area1 <? len rest + 2 then area1 - 2 else len rest) in *.
  destruct (len rest <=? lz) eqn:D.
  - inversion Hc; subst ts a. rewrite slices_pre. destruct (Hd eq_refl) as (_ & _ & ->). cbn. rewrite app_nil_r.
    repeat split. discriminate.
  - destruct (cut_name f r2 (area1 - lz - 2) (skipn (Z.to_nat lz) rest)) as [ts' a'] eqn:R.
    inversion Hc; subst ts a; clear Hc. destruct (Hn eq_refl) as (Hlz & Hlz1 & Hlz2). rewrite slices_pre.
    change (slices (TName true (firstn (Z.to_nat lz) rest) :: ts'))
      with ((true, firstn (Z.to_nat lz) rest) :: slices ts').
    assert (Hlen : (length (skipn (Z.to_nat lz) rest) < f)%nat)
      by (rewrite skipn_length; unfold len in *; lia).
    destruct (IH _ _ _ _ _ Hr2 Hlen R) as (Hne & Hfl & Hcat).
    split; [discriminate|]. split.
    + cbn [map fst]. destruct (slices ts') as [|x xs]; [contradiction|]. split; [reflexivity|exact Hfl].
    + cbn [map snd concat]. rewrite Hcat. apply firstn_skipn.
Qed.

(* (c) on disk: a component with CONTINUE is the LAST component of an SL record that itself has CONTINUE *)
Fixpoint brk_after_cont (ts : list tok) : Prop :=
  match ts with
  | [] => True
  | TName true _ :: r => match r with TBrk :: _ => True | _ => False end /\ brk_after_cont r
  | TSpecial c :: r => comp_continued c = false /\ brk_after_cont r
  | _ :: r => brk_after_cont r
  end.

Lemma factory_cont : forall b s, comp_continued (factory b s) = true -> b = true.
Proof. intros b s H. exact H. Qed.

Lemma emit_disc : forall c k, k <> [] -> comp_continued c = false ->
  Forall (fun r => cont_last_only (fst r) (snd r)) k ->
  Forall (fun r => cont_last_only (fst r) (snd r)) (emit c k).
Proof.
  intros c [|[fl cs] k] Hn Hc H; [contradiction|]. inversion H as [|x y Hx Hy]; subst.
  cbn [emit]. constructor; [|exact Hy]. cbn [fst snd] in *.
  destruct cs as [|c2 cs']; [cbn; congruence|]. split; [exact Hc|exact Hx].
Qed.

Lemma group_disc : forall ts, brk_after_cont ts ->
  Forall (fun r => cont_last_only (fst r) (snd r)) (group ts).
Proof.
  induction ts as [|t r IH]; intro H.
  - constructor; [exact I|constructor].
  - destruct t as [|c|b s]; cbn [group].
    + constructor; [exact I|apply IH; exact H].
    + destruct H as [Hc H]. apply emit_disc; [apply group_nonnil|exact Hc|apply IH; exact H].
    + destruct b.
      * destruct H as [Hb H]. destruct r as [|t' r']; [destruct Hb|]. destruct t'; try (destruct Hb).
        specialize (IH H). cbn [group emit] in *. inversion IH; subst.
        constructor; [cbn; auto|assumption].
      * apply emit_disc; [apply group_nonnil|reflexivity|apply IH; exact H].
Qed.

Lemma brk_pre : forall (b : bool) ts, brk_after_cont ((if b then [TBrk] else []) ++ ts) <-> brk_after_cont ts.
Proof. intros [] ts; reflexivity. Qed.

Lemma cut_brk : forall fuel r2 area rest ts a tail, 3 <= r2 -> (length rest < fuel)%nat ->
  cut_name fuel r2 area rest = (ts, a) -> brk_after_cont tail -> brk_after_cont (ts ++ tail).
Proof.
  induction fuel as [|f IH]; intros r2 area rest ts a tail Hr2 Hf Hc Ht; [lia|].
  rewrite cut_name_S in Hc. cbv zeta in Hc. destruct (cut_step r2 area rest Hr2) as (Hm & Hd & Hn).
  cbv zeta in Hm, Hd, Hn.
  set (area1 := if area <? match rest with [] => 2 | _ => 3 end then r2 else area) in *.
  set (lz := if area1 <? len rest + 2 then area1 - 2 else len rest) in *.
  destruct (len rest <=? lz) eqn:D.
  - inversion Hc; subst ts a. rewrite <- app_assoc. apply brk_pre. exact Ht.
  - destruct (Hn eq_refl) as (Hlz & Hlz1 & Hlz2).
    destruct (cut_name f r2 (area1 - lz - 2) (skipn (Z.to_nat lz) rest)) as [ts' a'] eqn:R.
    inversion Hc; subst ts a; clear Hc. rewrite <- app_assoc. apply brk_pre.
    assert (Hlen : (length (skipn (Z.to_nat lz) rest) < f)%nat)
      by (rewrite skipn_length; unfold len in *; lia).
    cbn [app brk_after_cont]. split; [|exact (IH _ _ _ _ _ _ Hr2 Hlen R Ht)].
    destruct f as [|f']; [lia|]. rewrite cut_name_S in R. cbv zeta in R.
    assert (Hsk : skipn (Z.to_nat lz) rest <> []).
    { intro E. apply (f_equal (@length Z)) in E. rewrite skipn_length in E. cbn [length] in E. unfold len in *. lia. }
    destruct (skipn (Z.to_nat lz) rest) as [|y ys] eqn:Sk; [contradiction|].
    replace (area1 - lz - 2 <? 3) with true in R by lia.
    destruct (len _ <=? _) in R; [inversion R; exact I|].
    destruct (cut_name f' _ _ _) in R. inversion R. exact I.
Qed.

Lemma tokens_brk : forall r2 cs area, 3 <= r2 -> brk_after_cont (sl_tokens r2 area cs).
Proof.
  intros r2 cs. induction cs as [|c cs IH]; intros area Hr2; [exact I|].
  cbn [sl_tokens]. destruct (one_comp r2 area c) as [ts a] eqn:O.
  destruct c as [| | |b p]; cbn [one_comp] in O;
    try (inversion O; rewrite <- app_assoc; apply brk_pre; split; [reflexivity|apply IH; exact Hr2]).
  eapply cut_brk; [exact Hr2| |exact O|apply IH; exact Hr2]. lia.
Qed.

Theorem sl_component_flags : forall r1 r2 cs, 3 <= r2 ->
  Forall (fun r => cont_last_only (fst r) (snd r)) (sl_records r1 r2 cs).
Proof. intros. apply group_disc. apply tokens_brk. assumption. Qed.

(* the two CONTINUE flags are different things: a record is continued without its last component being
   continued when a name ends at the record boundary ... *)
Example flags_record_only :
  sl_records 4 250 (sl_components [97; 47; 98; 99; 100])
  = [(true, [CName false [97]]); (false, [CName false [98; 99; 100]])].
Proof. reflexivity. Qed.
(* ... and both are set when a name is cut *)
Example flags_both :
  sl_records 7 250 (sl_components [97; 47; 98; 99; 100])
  = [(true, [CName false [97]; CName true [98; 99]]); (false, [CName false [100]])].
Proof. reflexivity. Qed.

Print Assumptions utf16_roundtrip.
Print Assumptions joliet_dr_fits.
Print Assumptions joliet_over_refusal.
Print Assumptions nm_roundtrip.
Print Assumptions nm_piece_bounds.
Print Assumptions sl_roundtrip_all.
Print Assumptions sl_roundtrip_partial.
Print Assumptions sl_roundtrip.
Print Assumptions sl_rooms.
Print Assumptions sl_no_ce_single_record.
Print Assumptions sl_no_ce_roundtrip.
Print Assumptions readers_agree_bounded.
Print Assumptions sl_record_flags.
Print Assumptions cut_name_flags.
Print Assumptions sl_component_flags.
