From Coq Require Import ZArith List Lia.
From PV.Model Require Import Alloc.
Import ListNotations.
Local Open Scope Z_scope.

Lemma zsum_nonneg l : Forall (fun s => 0 <= s) l -> 0 <= zsum l.
Proof. induction 1 as [|x l Hx _ IH]; cbn [zsum fold_right]; [lia|]. fold (zsum l). lia. Qed.

Lemma bump_lower start sizes : Forall (fun s => 0 <= s) sizes ->
  Forall (fun iv => start <= fst iv /\ fst iv + snd iv <= bump_end start sizes) (bump start sizes).
Proof.
  revert start. induction sizes as [|s r IH]; intros start H; cbn [bump]; [constructor|].
  inversion H as [|? ? Hs Hr]; subst. pose proof (zsum_nonneg r Hr) as Z0.
  constructor.
  - cbn [fst snd]. unfold bump_end. cbn [zsum fold_right]. fold (zsum r). lia.
  - eapply Forall_impl; [|apply (IH (start + s) Hr)]. intros iv [A B]. unfold bump_end in *. cbn [zsum fold_right].
    fold (zsum r). lia.
Qed.

(* every two objects placed by a bump allocation are disjoint, whatever the order of the sizes *)
Theorem bump_disjoint : forall sizes start, Forall (fun s => 0 <= s) sizes ->
  ForallOrdPairs disjoint (bump start sizes).
Proof.
  induction sizes as [|s r IH]; intros start H; cbn [bump]; [constructor|].
  inversion H as [|? ? Hs Hr]; subst. constructor; [|apply IH; exact Hr].
  eapply Forall_impl; [|apply (bump_lower (start + s) r Hr)].
  intros iv [A _]. left. cbn [fst snd]. exact A.
Qed.

Theorem bump_inside : forall sizes start, Forall (fun s => 0 <= s) sizes ->
  Forall (fun iv => start <= fst iv /\ fst iv + snd iv <= bump_end start sizes) (bump start sizes).
Proof. intros. apply bump_lower. assumption. Qed.

Theorem bump_length sizes : forall start, length (bump start sizes) = length sizes.
Proof. induction sizes as [|s r IH]; intros start; cbn; [reflexivity|]. rewrite IH. reflexivity. Qed.

(* the sector count covers the bytes and wastes less than one sector *)
Theorem sectors_cover lbs n : 0 < lbs -> 0 <= n ->
  n <= sectors_of lbs n * lbs /\ sectors_of lbs n * lbs < n + lbs /\ 0 <= sectors_of lbs n.
Proof.
  intros Hl Hn. unfold sectors_of.
  pose proof (Z.div_mod (- n) lbs ltac:(lia)) as D. pose proof (Z.mod_pos_bound (- n) lbs Hl) as B. nia.
Qed.

Example bump_nonvacuous :
  bump 16 [1; 1; 1; 2; 2; 3; 1; 5] = [(16, 1); (17, 1); (18, 1); (19, 2); (21, 2); (23, 3); (26, 1); (27, 5)] /\
  bump_end 16 [1; 1; 1; 2; 2; 3; 1; 5] = 32.
Proof. split; vm_compute; reflexivity. Qed.
