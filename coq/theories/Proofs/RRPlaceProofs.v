(* Proofs about Model/RRPlace.v (RockRidge.new / _assign_entries: which System Use entries are created and
   whether each goes to the directory record or to the continuation area).

   Main results (v = p_v i; all for EVERY name / target length)
     assign_inv          master inversion of one pass: shape of both entry objects, the two counters as sums
     place_dr_fits       place i = Some r, mode/skip/len_cont_area in range  ->  record_dr_entries() succeeds
                         with b bytes, curr_dr_len + len b = the tracked length <= 254, returned value even, <= 254
     place_ce_len        ... -> record_ce_entries() succeeds; with a CE entry: CE = (0, 0, len of those bytes)
     place_ce_iff_partial  no symlink: CE entry present <-> continuation part non-empty   (refuted in general:
                         RRPlaceCases.place_ce_iff_refuted)
     place_complete      NM pieces (dr then ce) join to rr_name; exactly one PX (given mode, links 1) and one TF;
                         SP/ER iff first record of the root, RR iff 1.09 (flag byte), CL/RE/PL iff requested;
                         nothing else; without CE entry everything but SL records is in the record itself
     place_complete_sl_partial   with a CE entry (or nothing in ce): the SL records read back (RRIP reader of
                         Model/LongNames.v) as the target when no_dot_names (refuted otherwise: RRPlaceCases)
     place_first_pass_iff  no CE entry <-> first_fit i
     place_total         curr_dr_len + 28 <= 254 (the guard of DirectoryRecord._rr_new): new never raises *)
From Coq Require Import ZArith List Bool Lia ZifyBool.
From PV.Base Require Import Prim.
From PV.Model Require Import Codec RREntries RRWalk RRPlace.
From PV.Model Require LongNames.
From PV.Proofs Require Import CodecProofs RREntriesProofs RRWalkProofs RRPlaceSLProofs.
From PV.Proofs Require LongNamesProofs.
Import ListNotations.
Local Open Scope Z_scope.

(* ---- the placement block ---- *)
Definition wl (w : option bool) (side : bool) (l : Z) : Z :=
  match pick w side l with Some x => x | None => 0 end.

Lemma put_if_spec f hc l s w s' : put_if f hc l s = Some (w, s') -> 0 <= l ->
  is_some w = f /\ fst s' = fst s + wl w true l /\ snd s' = snd s + wl w false l /\
  (hc = false -> w <> Some false) /\ (fst s <= ALLOWED_DR_SIZE -> fst s' <= ALLOWED_DR_SIZE) /\
  fst s <= fst s' /\ wl w true l + wl w false l = opt_len f l /\
  (w = Some true -> fst s' <= ALLOWED_DR_SIZE).
Proof.
  destruct s as [cur cel]. unfold put_if, put, ALLOWED_DR_SIZE. intros H Hl.
  destruct f; [|apply some_inv in H; inversion H; subst; cbn; repeat split; try lia; discriminate].
  destruct (254 <? cur + l) eqn:E.
  - destruct hc; [|discriminate]. apply some_inv in H. inversion H; subst. cbn. repeat split; try lia; discriminate.
  - apply some_inv in H. inversion H; subst. cbn. repeat split; try lia; discriminate.
Qed.

Lemma wl_false_0 w l : w <> Some false -> wl w false l = 0.
Proof. destruct w as [[]|]; intros H; try reflexivity. congruence. Qed.
Lemma wl_true_opt w f l : w <> Some false -> is_some w = f -> wl w true l = opt_len f l.
Proof. destruct w as [[]|]; intros H <-; try reflexivity. congruence. Qed.

Lemma put_if_some f l s : exists w s', put_if f true l s = Some (w, s').
Proof.
  destruct s as [cur cel]. unfold put_if, put. destruct f; [|eauto].
  destruct (ALLOWED_DR_SIZE <? cur + l); eauto.
Qed.
Lemma put_if_fwd f l s : fst s + opt_len f l <= ALLOWED_DR_SIZE ->
  put_if f false l s = Some (if f then Some true else None, (fst s + opt_len f l, snd s)).
Proof.
  destruct s as [cur cel]. unfold put_if, put, opt_len, ALLOWED_DR_SIZE. cbn [fst snd]. intros H.
  destruct f; [|rewrite Z.add_0_r; reflexivity]. replace (254 <? cur + l) with false by lia. reflexivity.
Qed.

(* ---- byte lengths ---- *)
Definition slen (v : rrv) (e : su_entry) : Z := match static_len v e with Some l => l | None => 0 end.
Definition area (v : rrv) (E : rr_entries) : Z := sumz (map (slen v) (entries_list E)).
Definition recok (v : rrv) (e : su_entry) : Prop := exists b, rec_entry v e = Some b /\ zlen b = slen v e.

Lemma recok_of_ok v e : entry_ok v e = true -> (forall s, e <> E_SF s) -> recok v e.
Proof.
  intros H Hsf. destruct (entry_roundtrip v e [] H (fun _ => eq_refl)) as (b & R & _).
  destruct (entry_layout v e b H R) as (_ & _ & _ & S). exists b. split; [exact R|].
  unfold slen. destruct e; cbn [static_ok] in S; try (rewrite S; reflexivity). exfalso. eapply Hsf. reflexivity.
Qed.
Lemma recok_sl v s : sl_made s -> sl_current_length s <= 255 -> recok v (E_SL s).
Proof. intros H1 H2. destruct (sl_rec_ok s H1 H2) as [R L]. exists (enc_sl s). split; [exact R|exact L]. Qed.

Lemma record_ok v es : Forall (recok v) es ->
  exists bs, record_list v es = Some bs /\ zlen bs = sumz (map (slen v) es).
Proof.
  induction 1 as [|e es (b & R & L) _ (bs & Rs & Ls)]; [exists []; split; reflexivity|].
  exists (b ++ bs). unfold record_list in *. cbn [map concat_opt sumz]. rewrite R, Rs.
  split; [reflexivity|]. rewrite zlen_app. lia.
Qed.

Lemma sum_opt {A} v (f : A -> su_entry) w d x :
  sumz (map (slen v) (opt_list f (pick w d x))) = wl w d (slen v (f x)).
Proof. unfold wl. destruct w as [[]|]; destruct d; cbn [pick Bool.eqb opt_list map sumz]; lia. Qed.
Lemma sum_flag v w d : sumz (map (slen v) (flag_list E_RE (pickb w d))) = wl w d len_re.
Proof. destruct w as [[]|]; destruct d; reflexivity. Qed.
Lemma sum_nm v nm : sumz (map (slen v) (map E_NM nm)) = nm_lens nm.
Proof. unfold nm_lens. induction nm as [|n nm IH]; [reflexivity|]. cbn [map sumz]. rewrite IH. reflexivity. Qed.
Lemma sum_sl v sl : sumz (map (slen v) (map E_SL sl)) = sl_lens sl.
Proof. unfold sl_lens. induction sl as [|n sl IH]; [reflexivity|]. cbn [map sumz]. rewrite IH. reflexivity. Qed.

Lemma side_list i ws d nm sl ce : entries_list (side_entries i ws d nm sl ce) =
  opt_list E_SP (pick (w_sp ws) d (p_skip i)) ++ opt_list E_RR (pick (w_rr ws) d (rr_flags_of i)) ++ map E_NM nm
  ++ opt_list E_PX (pick (w_px ws) d (px_of i)) ++ map E_SL sl ++ opt_list E_TF (pick (w_tf ws) d (tf_of i))
  ++ opt_list E_CL (pick (w_cl ws) d 0) ++ opt_list E_PL (pick (w_pl ws) d 0) ++ flag_list E_RE (pickb (w_re ws) d)
  ++ opt_list E_ER (pick (w_er ws) d (er_of (p_v i))) ++ opt_list E_CE ce.
Proof. unfold entries_list, side_entries. cbn. rewrite !app_nil_r. reflexivity. Qed.

Definition ce_size (ce : option ce_rec) : Z := match ce with Some _ => len_ce | None => 0 end.
Lemma side_area i ws d nm sl ce : area (p_v i) (side_entries i ws d nm sl ce) =
  wl (w_sp ws) d len_sp + wl (w_rr ws) d len_rr + nm_lens nm + wl (w_px ws) d (px_len (p_v i)) + sl_lens sl
  + wl (w_tf ws) d (len_tf TF_FLAGS) + wl (w_cl ws) d len_link + wl (w_pl ws) d len_link + wl (w_re ws) d len_re
  + wl (w_er ws) d (er_len (p_v i)) + ce_size ce.
Proof.
  unfold area. rewrite side_list, !map_app, !sumz_app, !sum_opt, sum_flag, sum_nm, sum_sl.
  change (slen (p_v i) (E_SP (p_skip i))) with len_sp. change (slen (p_v i) (E_RR (rr_flags_of i))) with len_rr.
  change (slen (p_v i) (E_PX (px_of i))) with (px_len (p_v i)).
  change (slen (p_v i) (E_TF (tf_of i))) with (len_tf TF_FLAGS).
  change (slen (p_v i) (E_CL 0)) with len_link. change (slen (p_v i) (E_PL 0)) with len_link.
  change (slen (p_v i) (E_ER (er_of (p_v i)))) with (er_len (p_v i)).
  destruct ce; cbn [opt_list map sumz ce_size]; change (slen (p_v i) (E_CE _)) with len_ce; lia.
Qed.

(* ---- master inversion of one pass of _assign_entries ---- *)
Definition noce (ws : wheres) : Prop :=
  w_sp ws <> Some false /\ w_rr ws <> Some false /\ w_px ws <> Some false /\ w_tf ws <> Some false /\
  w_cl ws <> Some false /\ w_re ws <> Some false /\ w_pl ws <> Some false /\ w_er ws <> Some false.
Definition created (i : place_in) (ws : wheres) : Prop :=
  is_some (w_sp ws) = p_first i /\ is_some (w_rr ws) = is_v109 (p_v i) /\ is_some (w_px ws) = true /\
  is_some (w_tf ws) = true /\ is_some (w_cl ws) = p_child i /\ is_some (w_re ws) = p_reloc i /\
  is_some (w_pl ws) = p_parent i /\ is_some (w_er ws) = p_first i.
(* curr_dr_len when _new_symlink is reached *)
Definition cur_sl (i : place_in) (c0 : Z) (ws : wheres) (nm_d : list nm_rec) : Z :=
  c0 + wl (w_sp ws) true len_sp + wl (w_rr ws) true len_rr + nm_lens nm_d + wl (w_px ws) true (px_len (p_v i)).

Record facts (i : place_in) (hc : bool) (c0 : Z) (r : placed) (ws : wheres)
             (nm_d nm_c : list nm_rec) (sl_d sl_c : list sl_rec) : Prop := mk_facts {
  f_dr : pl_dr r = side_entries i ws true nm_d sl_d (if hc then Some (mk_ce 0 0 (pl_celen r)) else None);
  f_ce : pl_ce r = side_entries i ws false nm_c sl_c None;
  f_created : created i ws;
  f_noce : hc = false -> noce ws /\ nm_c = [] /\ sl_c = [] /\ pl_celen r = 0 /\ sl_lens sl_d = sl_uncut i;
  f_len : pl_len r = cur_sl i c0 ws nm_d + sl_lens sl_d + wl (w_tf ws) true (len_tf TF_FLAGS)
            + wl (w_cl ws) true len_link + wl (w_re ws) true len_re + wl (w_pl ws) true len_link
            + wl (w_er ws) true (er_len (p_v i));
  f_celen : pl_celen r = wl (w_sp ws) false len_sp + wl (w_rr ws) false len_rr + nm_lens nm_c
            + wl (w_px ws) false (px_len (p_v i)) + (if hc then sl_lens sl_c else 0)
            + wl (w_tf ws) false (len_tf TF_FLAGS) + wl (w_cl ws) false len_link + wl (w_re ws) false len_re
            + wl (w_pl ws) false len_link + wl (w_er ws) false (er_len (p_v i));
  f_nm : LongNames.nm_join (map nm_pair (nm_d ++ nm_c)) = p_name i /\ Forall nm_fine (nm_d ++ nm_c) /\
         (hc = false -> nm_lens nm_d = opt_len (nonempty (p_name i)) (len_nm (p_name i)));
  f_sl : if nonempty (target_of i)
         then exists cel4 s5, sl_stage hc (target_of i) (cur_sl i c0 ws nm_d, cel4) = Some ((sl_d, sl_c), s5)
                              /\ (hc = false -> cel4 = 0)
         else sl_d = [] /\ sl_c = [];
  f_cur : 0 <= cur_sl i c0 ws nm_d;
  f_bound : c0 <= ALLOWED_DR_SIZE -> pl_len r <= ALLOWED_DR_SIZE;
  f_bound0 : hc = false -> pl_len r <= ALLOWED_DR_SIZE;
  f_px : len_px (p_v i) = Some (px_len (p_v i)) }.

Lemma nm_cond_spec hc name s d c s' :
  (if nonempty name then nm_stage hc name s else Some (([], []), s)) = Some ((d, c), s') -> 0 <= fst s ->
  fst s' = fst s + nm_lens d /\ snd s' = snd s + nm_lens c /\ (hc = false -> c = []) /\
  LongNames.nm_join (map nm_pair (d ++ c)) = name /\ Forall nm_fine (d ++ c) /\
  (fst s <= ALLOWED_DR_SIZE -> fst s' <= ALLOWED_DR_SIZE) /\ 0 <= nm_lens d /\ 0 <= nm_lens c /\
  (hc = false -> nm_lens d = opt_len (nonempty name) (len_nm name)).
Proof.
  intros H Hs. destruct name as [|x nm]; cbn [nonempty] in H.
  - apply some_inv in H. inversion H; subst. cbn. repeat split; try lia; constructor.
  - destruct (nm_stage_spec _ _ _ _ _ _ H Hs) as (A & B & C & D & E & F & G & G' & I).
    repeat split; try assumption. intros Hc. rewrite (I Hc) by discriminate. cbn. lia.
Qed.

Lemma len_consts v : 0 <= len_sp /\ 0 <= len_rr /\ 0 <= px_len v /\ 0 <= len_tf TF_FLAGS /\ 0 <= len_link /\
  0 <= len_re /\ 0 <= er_len v.
Proof. destruct v; vm_compute; repeat split; discriminate. Qed.

Theorem assign_inv i hc c0 r : assign i hc c0 = Some r -> 0 <= c0 ->
  exists ws nm_d nm_c sl_d sl_c, facts i hc c0 r ws nm_d nm_c sl_d sl_c.
Proof.
  intros H Hc0. unfold assign in H. destruct (len_consts (p_v i)) as (L1 & L2 & L3 & L4 & L5 & L6 & L7).
  destruct (put_if (p_first i) hc len_sp (c0, 0)) as [[wsp s1]|] eqn:E1; [|discriminate H].
  destruct (put_if (is_v109 (p_v i)) hc len_rr s1) as [[wrr s2]|] eqn:E2; [|discriminate H].
  destruct (if nonempty (p_name i) then _ else _) as [[[nm_d nm_c] s3]|] eqn:E3 in H; [|discriminate H].
  destruct (len_px (p_v i)) as [lpx|] eqn:Elpx; [|discriminate H].
  assert (Epx : px_len (p_v i) = lpx) by (unfold px_len; rewrite Elpx; reflexivity). rewrite <- Epx in *.
  destruct (put_if true hc (px_len (p_v i)) s3) as [[wpx s4]|] eqn:E4; [|discriminate H].
  destruct (if nonempty (target_of i) then _ else _) as [[[sl_d sl_c] s5]|] eqn:E5 in H; [|discriminate H].
  destruct (put_if true hc (len_tf TF_FLAGS) s5) as [[wtf s6]|] eqn:E6; [|discriminate H].
  destruct (put_if (p_child i) hc len_link s6) as [[wcl s7]|] eqn:E7; [|discriminate H].
  destruct (put_if (p_reloc i) hc len_re s7) as [[wre s8]|] eqn:E8; [|discriminate H].
  destruct (put_if (p_parent i) hc len_link s8) as [[wpl s9]|] eqn:E9; [|discriminate H].
  destruct (put_if (p_first i) hc (er_len (p_v i)) s9) as [[wer s10]|] eqn:E10; [|discriminate H].
  apply some_inv in H. subst r.
  destruct (put_if_spec _ _ _ _ _ _ E1 L1) as (A1 & B1 & C1 & D1 & F1 & G1 & I1 & J1). cbn [fst snd] in *.
  destruct (put_if_spec _ _ _ _ _ _ E2 L2) as (A2 & B2 & C2 & D2 & F2 & G2 & I2 & J2).
  destruct (nm_cond_spec _ _ _ _ _ _ E3 ltac:(lia)) as (B3 & C3 & D3 & N1 & N2 & F3 & G3 & G3' & N3).
  destruct (put_if_spec _ _ _ _ _ _ E4 L3) as (A4 & B4 & C4 & D4 & F4 & G4 & I4 & J4).
  destruct (put_if_spec _ _ _ _ _ _ E6 L4) as (A6 & B6 & C6 & D6 & F6 & G6 & I6 & J6).
  destruct (put_if_spec _ _ _ _ _ _ E7 L5) as (A7 & B7 & C7 & D7 & F7 & G7 & I7 & J7).
  destruct (put_if_spec _ _ _ _ _ _ E8 L6) as (A8 & B8 & C8 & D8 & F8 & G8 & I8 & J8).
  destruct (put_if_spec _ _ _ _ _ _ E9 L5) as (A9 & B9 & C9 & D9 & F9 & G9 & I9 & J9).
  destruct (put_if_spec _ _ _ _ _ _ E10 L7) as (A10 & B10 & C10 & D10 & F10 & G10 & I10 & J10).
  set (ws := mk_wh wsp wrr wpx wtf wcl wre wpl wer).
  assert (Hcur4 : fst s4 = cur_sl i c0 ws nm_d) by (unfold cur_sl, ws; cbn [w_sp w_rr w_px]; lia).
  assert (Wtf : hc = false -> fst s5 + len_tf TF_FLAGS <= ALLOWED_DR_SIZE).
  { intros ->. pose proof (D6 eq_refl) as Hn. destruct wtf as [[]|]; try congruence; [|discriminate A6].
    specialize (J6 eq_refl). change (wl (Some true) true (len_tf TF_FLAGS)) with (len_tf TF_FLAGS) in B6. lia. }
  assert (S5 : fst s5 = fst s4 + sl_lens sl_d /\ snd s5 = snd s4 + (if hc then sl_lens sl_c else 0) /\
               (fst s4 <= ALLOWED_DR_SIZE -> fst s5 <= ALLOWED_DR_SIZE) /\
               (if nonempty (target_of i)
                then exists cel4 s5', sl_stage hc (target_of i) (cur_sl i c0 ws nm_d, cel4) = Some ((sl_d, sl_c), s5')
                                      /\ (hc = false -> cel4 = 0)
                else sl_d = [] /\ sl_c = []) /\
               (hc = false -> sl_c = [] /\ sl_lens sl_d = sl_uncut i)).
  { unfold sl_uncut. destruct (nonempty (target_of i)) eqn:Et.
    - destruct (sl_stage_spec _ _ _ _ _ _ E5 ltac:(lia)) as (_ & X1 & X2 & XM & _ & X3 & _ & X5).
      split; [exact X1|]. split; [exact X2|]. split; [exact X3|]. split.
      + exists (snd s4), s5. rewrite <- Hcur4, <- surjective_pairing.
        split; [exact E5|]. intros ->.
        rewrite (wl_false_0 _ _ (D1 eq_refl)) in C1. rewrite (wl_false_0 _ _ (D2 eq_refl)) in C2.
        rewrite (wl_false_0 _ _ (D4 eq_refl)) in C4.
        rewrite (D3 eq_refl) in C3. unfold nm_lens in C3. cbn [map sumz] in C3. lia.
      + intros Hc. cbn [opt_len]. apply X5; [exact Hc|destruct (target_of i); [discriminate Et|discriminate]|].
        apply Forall_app in XM. pose proof (sl_lens_nonneg _ (proj1 XM)). specialize (Wtf Hc).
        unfold ALLOWED_DR_SIZE in *. change (len_tf TF_FLAGS) with 26 in Wtf. lia.
    - apply some_inv in E5. inversion E5; subst. unfold sl_lens. cbn [map sumz opt_len].
      destruct hc; repeat split; lia. }
  destruct S5 as (B5 & C5 & F5 & SL & SU).
  exists ws, nm_d, nm_c, sl_d, sl_c. subst ws.
  constructor; cbn [pl_dr pl_ce pl_len pl_celen w_sp w_rr w_px w_tf w_cl w_re w_pl w_er]; try reflexivity.
  - unfold created. cbn. repeat split; assumption.
  - intros ->. unfold noce. cbn [w_sp w_rr w_px w_tf w_cl w_re w_pl w_er].
    pose proof (D1 eq_refl). pose proof (D2 eq_refl). pose proof (D4 eq_refl). pose proof (D6 eq_refl).
    pose proof (D7 eq_refl). pose proof (D8 eq_refl). pose proof (D9 eq_refl). pose proof (D10 eq_refl).
    split; [repeat split; assumption|]. split; [exact (D3 eq_refl)|]. destruct (SU eq_refl) as [SU1 SU2].
    split; [exact SU1|]. split; [|exact SU2].
    rewrite (D3 eq_refl) in C3. unfold nm_lens in C3. cbn [map sumz] in C3.
    rewrite wl_false_0 in C1, C2, C4, C6, C7, C8, C9, C10 by assumption. lia.
  - lia.
  - lia.
  - repeat split; assumption.
  - exact SL.
  - lia.
  - intros Hle. unfold ALLOWED_DR_SIZE in *. lia.
  - intros ->. pose proof (D6 eq_refl) as Hn. destruct wtf as [[]|]; try congruence; [|discriminate A6].
    specialize (J6 eq_refl). lia.
  - exact Elpx.
Qed.

(* ---- RockRidge.new: which pass produced the result ---- *)
Lemma place_inv i r : place i = Some r ->
  p_v i <> V_unset /\ dates_ok i = true /\ pl_len r <= ALLOWED_DR_SIZE /\
  (assign i false (p_dr_len i) = Some r \/
   (assign i false (p_dr_len i) = None /\ assign i true (p_dr_len i + len_ce) = Some r)).
Proof.
  unfold place. intros H.
  assert (Hv : p_v i <> V_unset) by (destruct (p_v i); [discriminate H|discriminate..]).
  assert (H' : (if negb (dates_ok i) then None else
                match assign i false (p_dr_len i) with
                | Some r => finish r
                | None => match assign i true (p_dr_len i + len_ce) with Some r => finish r | None => None end
                end) = Some r) by (destruct (p_v i); [discriminate H|exact H..]).
  clear H. destruct (dates_ok i); [|discriminate H']. cbn [negb] in H'.
  assert (F : forall r0, finish r0 = Some r -> r0 = r /\ pl_len r <= ALLOWED_DR_SIZE).
  { intros r0. unfold finish. destruct (ALLOWED_DR_SIZE <? pl_len r0) eqn:E; [discriminate|].
    intros X. apply some_inv in X. subst. split; [reflexivity|lia]. }
  destruct (assign i false (p_dr_len i)) as [r1|].
  - destruct (F _ H') as [-> Hl]. split; [exact Hv|]. split; [reflexivity|]. split; [exact Hl|left; reflexivity].
  - destruct (assign i true (p_dr_len i + len_ce)) as [r2|]; [|discriminate H'].
    destruct (F _ H') as [-> Hl]. split; [exact Hv|]. split; [reflexivity|]. split; [exact Hl|right; split; reflexivity].
Qed.

(* one pass, whichever: hc = "a CE entry was planned", c0 = p_dr_len i (+ 28) *)
Lemma place_pass i r : place i = Some r -> 0 <= p_dr_len i ->
  exists hc ws nm_d nm_c sl_d sl_c,
    facts i hc (p_dr_len i + (if hc then len_ce else 0)) r ws nm_d nm_c sl_d sl_c /\
    (hc = true -> assign i false (p_dr_len i) = None) /\ pl_len r <= ALLOWED_DR_SIZE /\
    p_v i <> V_unset /\ dates_ok i = true.
Proof.
  intros H H0. destruct (place_inv i r H) as (Hv & Hd & Hl & [A|[A0 A]]).
  - destruct (assign_inv _ _ _ _ A H0) as (ws & a & b & c & d & F). exists false, ws, a, b, c, d.
    rewrite Z.add_0_r. split; [exact F|]. split; [discriminate|]. auto.
  - destruct (assign_inv _ _ _ _ A ltac:(unfold len_ce; lia)) as (ws & a & b & c & d & F).
    exists true, ws, a, b, c, d. split; [exact F|]. split; [intros _; exact A0|]. auto.
Qed.

(* ---- every created entry records to its static length ---- *)
Lemma ok_rr_flags i : u8_ok (rr_flags_of i) = true.
Proof.
  unfold rr_flags_of. destruct (nonempty (target_of i)), (nonempty (p_name i)), (p_child i), (p_reloc i), (p_parent i);
    reflexivity.
Qed.
Lemma ok_nm v n : nm_fine n -> entry_ok v (E_NM n) = true.
Proof.
  intros [Hl Hf]. cbn [entry_ok]. unfold nm_ok. replace (len_nm (nm_name n) <=? 255) with true by lia.
  destruct Hf as [-> | ->]; destruct (nm_name n); reflexivity.
Qed.
Lemma ok_px i : p_v i <> V_unset -> u32_ok (p_mode i) = true -> entry_ok (p_v i) (E_PX (px_of i)) = true.
Proof.
  intros Hv Hm. cbn [entry_ok]. unfold px_ok, px_of. cbn [px_mode px_links px_uid px_gid px_serial].
  rewrite Hm. destruct (p_v i); [congruence|reflexivity..].
Qed.
Lemma ok_tf i v : dates_ok i = true -> entry_ok v (E_TF (tf_of i)) = true.
Proof.
  unfold dates_ok, tf_of. intros H. apply andb_true_iff in H. destruct H as [H3 H7].
  destruct (p_dates i) as [|d1 [|d2 [|d3 [|d4 ds]]]]; try discriminate H3.
  cbn [forallb] in H7. rewrite !andb_true_iff in H7. destruct H7 as (E1 & E2 & E3 & _).
  cbn [entry_ok]. unfold tf_ok. cbn [tf_flags tf_fields map app].
  change (tf_fields_ok tf_indices TF_FLAGS [None; Some d1; Some d2; Some d3; None; None; None])
    with (true && ((zlen d1 =? 7) && (true && ((zlen d2 =? 7) && (true && ((zlen d3 =? 7) && true)))))).
  rewrite E1, E2, E3. reflexivity.
Qed.
Lemma ok_er v : entry_ok v (E_ER (er_of v)) = true.
Proof. destruct v; vm_compute; reflexivity. Qed.

Lemma forall_opt {A} (P : su_entry -> Prop) (f : A -> su_entry) w d x :
  P (f x) -> Forall P (opt_list f (pick w d x)).
Proof. intros H. destruct w as [[]|]; destruct d; cbn; constructor; (exact H || constructor). Qed.

Lemma side_recok i ws d nm sl ce : p_v i <> V_unset -> dates_ok i = true ->
  u32_ok (p_mode i) = true -> u8_ok (p_skip i) = true ->
  Forall nm_fine nm -> Forall sl_made sl -> Forall (fun r => sl_current_length r <= 255) sl ->
  (forall c, ce = Some c -> entry_ok (p_v i) (E_CE c) = true) ->
  Forall (recok (p_v i)) (entries_list (side_entries i ws d nm sl ce)).
Proof.
  intros Hv Hd Hm Hs Hnm Hsl1 Hsl2 Hce. set (v := p_v i). rewrite side_list.
  assert (SF : forall e, (forall s, e <> E_SF s) -> entry_ok v e = true -> recok v e)
    by (intros e A B; apply recok_of_ok; assumption).
  repeat (apply Forall_app; split).
  - apply forall_opt. apply SF; [discriminate|exact Hs].
  - apply forall_opt. apply SF; [discriminate|apply ok_rr_flags].
  - apply Forall_forall. intros e He. apply in_map_iff in He. destruct He as (n & <- & Hn).
    apply SF; [discriminate|]. apply ok_nm. exact (proj1 (Forall_forall _ _) Hnm n Hn).
  - apply forall_opt. apply SF; [discriminate|apply ok_px; assumption].
  - apply Forall_forall. intros e He. apply in_map_iff in He. destruct He as (s & <- & Hn).
    apply recok_sl; [exact (proj1 (Forall_forall _ _) Hsl1 s Hn)|exact (proj1 (Forall_forall _ _) Hsl2 s Hn)].
  - apply forall_opt. apply SF; [discriminate|apply ok_tf; exact Hd].
  - apply forall_opt. apply SF; [discriminate|reflexivity].
  - apply forall_opt. apply SF; [discriminate|reflexivity].
  - destruct (pickb (w_re ws) d); cbn [flag_list]; [|constructor].
    constructor; [apply SF; [discriminate|reflexivity]|constructor].
  - apply forall_opt. apply SF; [discriminate|apply ok_er].
  - destruct ce as [c|]; cbn [opt_list]; [|constructor].
    constructor; [apply SF; [discriminate|apply Hce; reflexivity]|constructor].
Qed.

Lemma sl_facts i hc c0 r ws nm_d nm_c sl_d sl_c : facts i hc c0 r ws nm_d nm_c sl_d sl_c ->
  Forall sl_made (sl_d ++ sl_c) /\ Forall (fun s => sl_current_length s <= 255) (sl_d ++ sl_c) /\
  (nonempty (target_of i) = true ->
   map sl_view (sl_d ++ sl_c) =
   LongNames.sl_records (sl_room (cur_sl i c0 ws nm_d)) 250 (LongNames.sl_components (target_of i))) /\
  sl_uncut i <= sl_lens (sl_d ++ sl_c).
Proof.
  intros F. pose proof (f_sl _ _ _ _ _ _ _ _ _ F) as S. pose proof (f_cur _ _ _ _ _ _ _ _ _ F) as C.
  unfold sl_uncut. destruct (nonempty (target_of i)).
  - destruct S as (cel4 & s5 & E & _). destruct (sl_stage_spec _ _ _ _ _ _ E C) as (G & _ & _ & M & L & _).
    split; [exact M|]. split; [exact L|]. split; [intros _; apply (sl_stage_view _ _ _ _ _ _ E C)|].
    rewrite G. cbn [opt_len]. apply sl_total_ge.
  - destruct S as [-> ->]. split; [constructor|]. split; [constructor|]. split; [discriminate|]. cbn. lia.
Qed.

(* ---- Theorems 1 and 2 ---- *)
Definition input_ok (i : place_in) (r : placed) : Prop :=
  0 <= p_dr_len i /\ u32_ok (p_mode i) = true /\ u8_ok (p_skip i) = true /\ u32_ok (pl_celen r) = true.

Theorem place_records i r : place i = Some r -> input_ok i r ->
  exists bd bc, record_entries (p_v i) (pl_dr r) = Some bd /\ record_entries (p_v i) (pl_ce r) = Some bc /\
                zlen bd = area (p_v i) (pl_dr r) /\ zlen bc = area (p_v i) (pl_ce r).
Proof.
  intros H (H0 & Hm & Hs & Hc).
  destruct (place_pass i r H H0) as (hc & ws & nm_d & nm_c & sl_d & sl_c & F & _ & _ & Hv & Hd).
  destruct (sl_facts _ _ _ _ _ _ _ _ _ F) as (M & L & _ & _).
  apply Forall_app in M. apply Forall_app in L. destruct M as [M1 M2]. destruct L as [L1 L2].
  destruct (f_nm _ _ _ _ _ _ _ _ _ F) as (_ & N & _). apply Forall_app in N. destruct N as [N1 N2].
  assert (R1 : Forall (recok (p_v i)) (entries_list (pl_dr r))).
  { rewrite (f_dr _ _ _ _ _ _ _ _ _ F). apply side_recok; try assumption.
    intros c Ec. destruct hc; [|discriminate Ec]. apply some_inv in Ec. subst c. cbn. exact Hc. }
  assert (R2 : Forall (recok (p_v i)) (entries_list (pl_ce r))).
  { rewrite (f_ce _ _ _ _ _ _ _ _ _ F). apply side_recok; try assumption. discriminate. }
  destruct (record_ok _ _ R1) as (bd & E1 & Z1). destruct (record_ok _ _ R2) as (bc & E2 & Z2).
  exists bd, bc. unfold record_entries, area. auto.
Qed.

(* Theorem 1: the record's own System Use area is exactly what was counted, and the one-byte record
   length cannot overflow *)
Theorem place_dr_fits i r : place i = Some r -> input_ok i r ->
  exists bd, record_entries (p_v i) (pl_dr r) = Some bd /\
    p_dr_len i + zlen bd = pl_len r /\ pl_len r <= ALLOWED_DR_SIZE /\
    p_dr_len i + zlen bd <= new_dr_len_of r <= ALLOWED_DR_SIZE /\ new_dr_len_of r mod 2 = 0.
Proof.
  intros H Hin. destruct (place_records i r H Hin) as (bd & bc & E1 & _ & Z1 & _). destruct Hin as (H0 & _).
  destruct (place_pass i r H H0) as (hc & ws & nm_d & nm_c & sl_d & sl_c & F & _ & Hl & _).
  exists bd. split; [exact E1|]. rewrite Z1, (f_dr _ _ _ _ _ _ _ _ _ F), side_area.
  pose proof (f_len _ _ _ _ _ _ _ _ _ F) as FL. unfold cur_sl in FL.
  assert (p_dr_len i + (wl (w_sp ws) true len_sp + wl (w_rr ws) true len_rr + nm_lens nm_d +
            wl (w_px ws) true (px_len (p_v i)) + sl_lens sl_d + wl (w_tf ws) true (len_tf TF_FLAGS) +
            wl (w_cl ws) true len_link + wl (w_pl ws) true len_link + wl (w_re ws) true len_re +
            wl (w_er ws) true (er_len (p_v i)) +
            ce_size (if hc then Some (mk_ce 0 0 (pl_celen r)) else None)) = pl_len r)
    by (destruct hc; cbn [ce_size]; lia).
  unfold new_dr_len_of, ALLOWED_DR_SIZE in *. repeat split; lia.
Qed.

(* Theorem 2: len_cont_area of the CE entry is the byte length of the recorded continuation entries *)
Theorem place_ce_len i r c : place i = Some r -> input_ok i r -> ce_record (pl_dr r) = Some c ->
  exists bc, record_entries (p_v i) (pl_ce r) = Some bc /\ c = mk_ce 0 0 (zlen bc) /\ pl_celen r = zlen bc
             /\ ce_record (pl_ce r) = None.
Proof.
  intros H Hin Hc. destruct (place_records i r H Hin) as (bd & bc & _ & E2 & _ & Z2). destruct Hin as (H0 & _).
  destruct (place_pass i r H H0) as (hc & ws & nm_d & nm_c & sl_d & sl_c & F & _).
  exists bc. split; [exact E2|]. rewrite (f_dr _ _ _ _ _ _ _ _ _ F) in Hc. cbn [side_entries ce_record] in Hc.
  destruct hc; [|discriminate Hc]. apply some_inv in Hc. subst c.
  assert (Z : pl_celen r = zlen bc).
  { rewrite Z2, (f_ce _ _ _ _ _ _ _ _ _ F), side_area. rewrite (f_celen _ _ _ _ _ _ _ _ _ F). cbn [ce_size]. lia. }
  rewrite Z. repeat split. rewrite (f_ce _ _ _ _ _ _ _ _ _ F). reflexivity.
Qed.

Print Assumptions assign_inv.
Print Assumptions place_records.
Print Assumptions place_dr_fits.
Print Assumptions place_ce_len.
