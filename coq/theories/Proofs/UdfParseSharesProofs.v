(* C10 / C02 -- Model/UdfParse.v: what the graph open builds looks like (udf_parse_shape), which objects
   are shared (udf_parse_shares: a File Entry object NEVER, an Inode exactly between the names of one
   inode of the tree = same first data block / same File Entry block for empty files; within one
   directory or across directories alike), and what rm_hard_link(udf_path=...) on the reopened object
   removes (udf_parse_rm_hard_link: exactly the FID of that name, from the directory that holds it). *)
From Coq Require Import ZArith List Bool Lia ZifyBool Arith.
From PV.Base Require Import Prim.
From PV.Gen Require Import GenFun.
From PV.Model Require Import Codec Fid UdfDir UdfLayout UdfParse.
From PV.Proofs Require Import ChecksumsArithProofs FidProofs UdfDirProofs UdfLayoutBfsProofs UdfLayoutViewProofs
     UdfLayoutFactsProofs UdfParseTableProofs UdfParseWalkProofs UdfParseKeysProofs UdfParseShapeProofs UdfParseProofs.
Import ListNotations.
Local Open Scope Z_scope.

Lemma up_starts_length l : forall a, length (starts a l) = length l.
Proof. induction l as [|x r IH]; intros a; [reflexivity|]. cbn [starts length]. rewrite IH. reflexivity. Qed.

Lemma up_zlist_eqb_refl l : zlist_eqb l l = true.
Proof. induction l as [|x r IH]; [reflexivity|]. cbn [zlist_eqb]. rewrite Z.eqb_refl, IH. reflexivity. Qed.

Lemma up_Forall2_nth {A B} (P : A -> B -> Prop) l l' : Forall2 P l l' ->
  forall j a, nth_error l j = Some a -> exists b, nth_error l' j = Some b /\ P a b.
Proof.
  induction 1 as [|x y l l' Hxy HF IH]; intros j a Hj; [destruct j; discriminate|].
  destruct j as [|j]; cbn [nth_error] in *; [inversion Hj; subst; exists y; split; [reflexivity|exact Hxy]|exact (IH j a Hj)].
Qed.

(* the queue never outruns the list of directories *)
Lemma up_kid0_bound K : forall rs k n, up_kid0 k n rs ->
  (forall m r, nth_error rs m = Some r -> forall jj, (jj < length (ul_dir_children (dr_node r)))%nat -> (dr_kid0 r + jj < K)%nat) ->
  (k + n <= K)%nat ->
  forall m r, nth_error rs m = Some r -> (dr_kid0 r + length (ul_dir_children (dr_node r)) <= K)%nat.
Proof.
  induction rs as [|x rs IH]; intros k n Hk Hl Hkn m r Hm; [destruct m; discriminate|].
  cbn [up_kid0] in Hk. destruct Hk as (H1 & H2 & H3).
  assert (H0 : (dr_kid0 x + length (ul_dir_children (dr_node x)) <= K)%nat).
  { destruct (length (ul_dir_children (dr_node x))) as [|c] eqn:Ec; [lia|].
    pose proof (Hl 0%nat x eq_refl c ltac:(lia)). lia. }
  destruct m as [|m]; cbn [nth_error] in Hm; [inversion Hm; subst; exact H0|].
  apply (IH (S k) (n - 1 + length (ul_dir_children (dr_node x)))%nat H3) with (m := m); [|lia|exact Hm].
  intros m' r' Hm' jj Hjj. exact (Hl (S m') r' Hm' jj Hjj).
Qed.

Section Graph.
  Variables (ps : Z) (iso : iso_side) (t : utree).
  Hypothesis Hwf : wf_utree t = true.
  Let lo := udf_layout_iso ps iso t.
  Let F : ul_facts ps iso t lo := ul_facts_of_wf ps iso t Hwf.

  Lemma up_tags_length r : In r (lo_dirs lo) -> length (ul_dir_tags lo r) = S (length (dr_node r)).
  Proof.
    intros Hin. pose proof (proj1 (Forall_forall _ _) (uf_ok _ _ _ _ F) r Hin) as Hnok. cbv beta in Hnok.
    rewrite (ul_dir_tags_eq lo r Hnok), map_length, up_starts_length. unfold ul_lens. cbn [length]. rewrite map_length. reflexivity.
  Qed.

  Lemma up_dirs_nonempty : (1 <= length (lo_dirs lo))%nat.
  Proof. destruct (uf_root _ _ _ _ F) as (r0 & Hr0 & _). destruct (lo_dirs lo); [discriminate|cbn [length]; lia]. Qed.

  (* the writer's graph, with the table it was built with *)
  Lemma up_graph_post : exists e0 ds wt,
    ugraph_of lo = mk_ugraph (Some e0) ds (map wi_ino wt) /\ pe_obj e0 = 0%nat /\ pe_parent e0 = None /\
    up_dirs_post lo 0 (lo_dirs lo) [0%nat] 1 [] ds wt.
  Proof.
    unfold ugraph_of. pose proof up_dirs_nonempty as Hne.
    destruct (ug_dirs lo (lo_dirs lo) [0%nat] 1 []) as [ds wt] eqn:ED.
    destruct (lo_dirs lo) as [|r0 rs] eqn:Edirs; [cbn [length] in Hne; lia|]. rewrite <- Edirs in *.
    eexists. exists ds, wt. split; [reflexivity|]. split; [reflexivity|]. split; [reflexivity|].
    assert (Hk0 : up_kid0 0 1 (lo_dirs lo)).
    { unfold lo. rewrite up_lo_dirs. exact (up_bfs_kid0 _ 0%nat (ps + 2) [([], ps + 2, ut_children t)]). }
    apply (up_ug_dirs_spec lo (lo_dirs lo) 0%nat [0%nat] 1%nat [] ds wt).
    - apply Forall_forall. intros r Hr. exact (up_tags_length r Hr).
    - exact Hk0.
    - apply (up_kid0_bound (length (lo_dirs lo)) (lo_dirs lo) 0%nat 1%nat Hk0); [|lia].
      intros m r Hm jj Hjj. destruct (uf_link _ _ _ _ F m r Hm) as [_ Hk].
      destruct (nth_error (ul_dir_children (dr_node r)) jj) as [[n cs']|] eqn:Ej.
      + destruct (Hk jj n cs' Ej) as (r' & Hr' & _). rewrite Nat.sub_0_r in Hr'. apply nth_error_Some. rewrite Hr'. discriminate.
      + apply nth_error_None in Ej. lia.
    - cbn [length]. exact Hne.
    - constructor.
    - constructor; [intros []|constructor].
    - constructor; [lia|constructor].
    - exact ED.
  Qed.

  (* ---- 1. the shape: fi_descs order, parent pointers, names, kinds, lengths ---- *)
  Theorem udf_parse_shape : exists e0 ids,
    g_root (ugraph_of lo) = Some e0 /\ pe_obj e0 = 0%nat /\ pe_parent e0 = None /\
    NoDup ids /\ length ids = length (g_inodes (ugraph_of lo)) /\
    Forall2 (up_dir_ok lo ids) (lo_dirs lo) (g_dirs (ugraph_of lo)) /\
    (exists d0, nth_error (g_dirs (ugraph_of lo)) 0 = Some d0 /\ pd_obj d0 = 0%nat).
  Proof.
    destruct up_graph_post as (e0 & ds & wt & Eg & Ho & Hp & (_ & Hnd & HF & Hq & _)).
    exists e0, (up_ids wt). rewrite Eg. cbn [g_root g_dirs g_inodes]. repeat split; try assumption.
    - unfold up_ids. rewrite !map_length. reflexivity.
    - exact (Hq 0%nat 0%nat eq_refl).
  Qed.

  (* ---- 2. sharing ---- *)
  Definition up_all_objs (g : ugraph) : list nat := flat_map (fun d => up_fid_objs (pd_fids d)) (g_dirs g).

  (* no File Entry object is reached through two FIDs, and none of them is the root's object *)
  Theorem udf_parse_fe_never_shared : NoDup (up_all_objs (ugraph_of lo)) /\ ~ In 0%nat (up_all_objs (ugraph_of lo)).
  Proof.
    destruct up_graph_post as (e0 & ds & wt & Eg & _ & _ & (_ & _ & _ & _ & _ & _ & _ & (total & Htot))).
    unfold up_all_objs. rewrite Eg. cbn [g_dirs]. rewrite Htot. split; [apply seq_NoDup|]. intros Hin. apply in_seq in Hin. lia.
  Qed.

  (* two names (anywhere in the tree) get the same Inode exactly when they are names of one inode *)
  Theorem udf_parse_shares k1 k2 r1 r2 j1 j2 n1 l1 i1 n2 l2 i2 :
    nth_error (lo_dirs lo) k1 = Some r1 -> nth_error (lo_dirs lo) k2 = Some r2 ->
    nth_error (dr_node r1) j1 = Some (UFile n1 l1 i1) -> nth_error (dr_node r2) j2 = Some (UFile n2 l2 i2) ->
    exists d1 d2 f1 f2 e1 e2 x1 x2,
      nth_error (g_dirs (ugraph_of lo)) k1 = Some d1 /\ nth_error (g_dirs (ugraph_of lo)) k2 = Some d2 /\
      nth_error (pd_fids d1) (S j1) = Some f1 /\ nth_error (pd_fids d2) (S j2) = Some f2 /\
      pf_name f1 = n1 /\ pf_name f2 = n2 /\ pf_entry f1 = Some e1 /\ pf_entry f2 = Some e2 /\
      pe_parent e1 = Some (pd_obj d1) /\ pe_parent e2 = Some (pd_obj d2) /\
      pe_info e1 = l1 /\ pe_info e2 = l2 /\
      pe_inode e1 = Some x1 /\ pe_inode e2 = Some x2 /\ (x1 = x2 <-> i1 = i2).
  Proof.
    intros Hr1 Hr2 Hc1 Hc2.
    destruct up_graph_post as (e0 & ds & wt & Eg & _ & _ & (_ & Hnd & HF & _)). rewrite Eg. cbn [g_dirs].
    destruct (up_Forall2_nth _ _ _ HF k1 r1 Hr1) as (d1 & Hd1 & (_ & pf1 & kids1 & Ef1 & _ & _ & _ & _ & HK1)).
    destruct (up_Forall2_nth _ _ _ HF k2 r2 Hr2) as (d2 & Hd2 & (_ & pf2 & kids2 & Ef2 & _ & _ & _ & _ & HK2)).
    destruct (up_Forall2_nth _ _ _ HK1 j1 _ Hc1) as (f1 & Hf1 & (N1 & _ & _ & e1 & En1 & Pa1 & _ & In1 & x1 & Ix1 & Id1)).
    destruct (up_Forall2_nth _ _ _ HK2 j2 _ Hc2) as (f2 & Hf2 & (N2 & _ & _ & e2 & En2 & Pa2 & _ & In2 & x2 & Ix2 & Id2)).
    exists d1, d2, f1, f2, e1, e2, x1, x2. rewrite Ef1, Ef2. cbn [nth_error]. repeat split; try assumption.
    - intros E. subst x2. rewrite Id1 in Id2. inversion Id2. reflexivity.
    - intros E. subst i2. exact (proj1 (NoDup_nth_error (up_ids wt)) Hnd x1 x2 ltac:(apply nth_error_Some; rewrite Id1; discriminate)
                                  ltac:(rewrite Id1, Id2; reflexivity)).
  Qed.

  (* ---- 3. rm_hard_link(udf_path=...) on the reopened object ---- *)
  Lemma up_find_nth (ds : list pdir) : NoDup (map pd_obj ds) -> forall k d, nth_error ds k = Some d ->
    find (fun x => Nat.eqb (pd_obj x) (pd_obj d)) ds = Some d.
  Proof.
    induction ds as [|x r IH]; intros Hnd k d Hk; [destruct k; discriminate|]. cbn [find map] in *.
    apply NoDup_cons_iff in Hnd. destruct Hnd as [Hx Hr]. destruct k as [|k]; cbn [nth_error] in Hk.
    - inversion Hk; subst. rewrite Nat.eqb_refl. reflexivity.
    - destruct (Nat.eqb (pd_obj x) (pd_obj d)) eqn:E; [|exact (IH Hr k d Hk)]. apply Nat.eqb_eq in E. exfalso. apply Hx.
      rewrite E. apply in_map. exact (nth_error_In _ _ Hk).
  Qed.

  Lemma up_take_first_nth : forall (ds : list fident) j d, nth_error ds j = Some d ->
    (forall j' d', (j' < j)%nat -> nth_error ds j' = Some d' -> zlist_eqb (fi_name d') (fi_name d) = false) ->
    take_first (fi_name d) ds = Some (d, up_remove_nth j ds).
  Proof.
    induction ds as [|x r IH]; intros j d Hj Hd; [destruct j; discriminate|]. destruct j as [|j]; cbn [nth_error] in Hj.
    - inversion Hj; subst. cbn [take_first up_remove_nth]. rewrite up_zlist_eqb_refl. reflexivity.
    - cbn [take_first up_remove_nth]. rewrite (Hd 0%nat x ltac:(lia) eq_refl).
      rewrite (IH j d Hj); [reflexivity|]. intros j' d' Hlt Hj'. apply (Hd (S j') d'); [lia|exact Hj'].
  Qed.

  Lemma up_names_distinct_nth : forall ns j1 j2 a b, ul_names_distinct ns = true -> (j1 < j2)%nat ->
    nth_error ns j1 = Some a -> nth_error ns j2 = Some b -> zlist_eqb a b = false.
  Proof.
    induction ns as [|n r IH]; intros j1 j2 a b H Hlt H1 H2; [destruct j1; discriminate|].
    cbn [ul_names_distinct] in H. apply andb_prop in H. destruct H as [Hn Hr].
    destruct j2 as [|j2]; [lia|]. cbn [nth_error] in H2. destruct j1 as [|j1]; cbn [nth_error] in H1.
    - inversion H1; subst a. destruct (zlist_eqb n b) eqn:E; [|reflexivity]. exfalso.
      apply negb_true_iff in Hn. assert (existsb (zlist_eqb n) r = true); [|congruence].
      apply existsb_exists. exists b. split; [exact (nth_error_In _ _ H2)|exact E].
    - exact (IH j1 j2 a b Hr ltac:(lia) H1 H2).
  Qed.

  Theorem udf_parse_rm_hard_link k r j n l i :
    nth_error (lo_dirs lo) k = Some r -> nth_error (dr_node r) j = Some (UFile n l i) ->
    exists d x, nth_error (g_dirs (ugraph_of lo)) k = Some d /\
      up_rm_name (ugraph_of lo) k (S j) = Some (pd_obj d, up_remove_nth (S j) (up_dir_descs d)) /\
      take_first n (up_dir_descs d) = Some (x, up_remove_nth (S j) (up_dir_descs d)) /\
      fi_name x = n /\ fi_isdir x = false /\
      (* the bookkeeping of UDFFileEntry.remove_file_ident_desc_by_name on any state with these fi_descs *)
      forall info ad lbr, exists st' delta,
        udfdir_remove 2048 (mk_udfdir (up_dir_descs d) info ad lbr) n false = Some (st', delta) /\
        ud_descs st' = up_remove_nth (S j) (up_dir_descs d).
  Proof.
    intros Hr Hc.
    destruct up_graph_post as (e0 & ds & wt & Eg & _ & _ & (_ & _ & HF & _ & _ & Hpd & _)).
    destruct (up_Forall2_nth _ _ _ HF k r Hr) as (d & Hd & (_ & pf & kids & Ef & Pp & Pd & Pn & Pe & HK)).
    destruct (up_Forall2_nth _ _ _ HK j _ Hc) as (f & Hf & (N1 & D1 & P1 & e & En & Pa & _)). cbn [ut_name ut_isdir] in N1, D1.
    pose proof (proj1 (Forall_forall _ _) (uf_ok _ _ _ _ F) r (nth_error_In _ _ Hr)) as [Hdist Hwfn]. cbv beta in Hdist, Hwfn.
    assert (Hlenn : 1 <= zlen n).
    { rewrite forallb_forall in Hwfn. specialize (Hwfn _ (nth_error_In _ _ Hc)). cbn [ul_wf_node] in Hwfn. lia. }
    assert (Hdesc : nth_error (up_dir_descs d) (S j) = Some (up_fident f)).
    { unfold up_dir_descs. rewrite Ef. cbn [map nth_error]. rewrite nth_error_map, Hf. reflexivity. }
    assert (Htf : take_first n (up_dir_descs d) = Some (up_fident f, up_remove_nth (S j) (up_dir_descs d))).
    { rewrite <- N1. change (pf_name f) with (fi_name (up_fident f)). apply up_take_first_nth; [exact Hdesc|].
      intros j' d' Hlt Hj'. unfold up_dir_descs in Hj'. rewrite Ef in Hj'. cbn [map] in Hj'. destruct j' as [|j']; cbn [nth_error] in Hj'.
      - inversion Hj'; subst d'. cbn [up_fident fi_name]. rewrite Pn, N1. destruct n; [cbn in Hlenn; lia|reflexivity].
      - rewrite nth_error_map in Hj'. destruct (nth_error kids j') as [f'|] eqn:Ef'; [|discriminate]. inversion Hj'; subst d'.
        cbn [up_fident fi_name]. rewrite N1.
        assert (Hc' : exists c', nth_error (dr_node r) j' = Some c' /\ pf_name f' = ut_name c').
        { clear - HK Ef'. revert j' Ef'. induction HK as [|c0 f0 cs fs H0 HK IH]; intros j' Ef'; [destruct j'; discriminate|].
          destruct j' as [|j']; cbn [nth_error] in *; [inversion Ef'; subst; exists c0; split; [reflexivity|exact (proj1 H0)]|exact (IH j' Ef')]. }
        destruct Hc' as (c' & Hc' & Nc'). rewrite Nc'.
        apply (up_names_distinct_nth (map ut_name (dr_node r)) j' j _ _ Hdist ltac:(lia)).
        + rewrite nth_error_map, Hc'. reflexivity.
        + rewrite nth_error_map, Hc. reflexivity. }
    exists d, (up_fident f). rewrite Eg. cbn [g_dirs]. split; [exact Hd|]. split; [|split; [exact Htf|split; [exact N1|split; [exact D1|]]]].
    - unfold up_rm_name. cbn [g_dirs]. rewrite Hd, Ef. cbn [nth_error]. rewrite Hf, En, Pa.
      unfold up_find_dir. cbn [g_dirs]. rewrite (up_find_nth ds Hpd k d Hd). rewrite N1, Htf. reflexivity.
    - intros info ad lbr. unfold udfdir_remove. cbn [ud_descs]. rewrite Htf. cbn [up_fident fi_isdir]. rewrite D1. cbn [andb].
      destruct (fid_remove 2048 info (zlen (fi_name (up_fident f)))) as [info' delta]. eexists. eexists. split; reflexivity.
  Qed.
End Graph.

(* the same, said about the graph PyCdlib.open builds, and about extents (0 <= s: see udf_parse_layout) *)
Theorem udf_parse_shares_extent s t k1 k2 r1 r2 j1 j2 n1 l1 i1 n2 l2 i2 : wf_utree t = true -> 0 <= s ->
  let lo := udf_layout s t in
  nth_error (lo_dirs lo) k1 = Some r1 -> nth_error (lo_dirs lo) k2 = Some r2 ->
  nth_error (dr_node r1) j1 = Some (UFile n1 l1 i1) -> nth_error (dr_node r2) j2 = Some (UFile n2 l2 i2) ->
  (i1 = i2 <-> ug_key lo i1 l1 = ug_key lo i2 l2).
Proof.
  intros Hwf Hs lo Hr1 Hr2 Hc1 Hc2.
  pose proof (up_keys_of_wf s iso_none t Hwf Hs ltac:(cbn; lia) ltac:(constructor)) as K. fold (udf_layout s t) in K. fold lo in K.
  pose proof (ul_names_in lo r1 n1 l1 i1 (nth_error_In _ _ Hr1) (nth_error_In _ _ Hc1)) as N1.
  pose proof (ul_names_in lo r2 n2 l2 i2 (nth_error_In _ _ Hr2) (nth_error_In _ _ Hc2)) as N2.
  split.
  - intros E. subst i2. rewrite (uk_cons _ _ K i1 l1 l2 N1 N2). reflexivity.
  - intros E. exact (uk_inj _ _ K _ _ _ _ N1 N2 E).
Qed.

Print Assumptions udf_parse_shape.
Print Assumptions udf_parse_fe_never_shared.
Print Assumptions udf_parse_shares.
Print Assumptions udf_parse_shares_extent.
Print Assumptions udf_parse_rm_hard_link.
