(* The invariant NInv of Model/AccountNs.v (two namespaces sharing inodes) and its preservation by
   every operation that is not a LATE refusal. *)
From Coq Require Import ZArith List Bool Lia ZifyBool Sorted Arith Permutation.
From PV.Base Require Import Prim.
From PV.Gen Require Import GenConst GenFun.
From PV.Model Require Import Names Checksums Pack Alloc Account AccountLinks AccountNs.
From PV.Proofs Require Import PackProofs AllocProofs ChecksumsArithProofs AccountLemmas AccountProofs
     AccountLinksLemmas AccountLinksPurge AccountLinksInv AccountNsLemmas.
Import ListNotations.
Local Open Scope Z_scope.
Ltac Zify.zify_post_hook ::= Z.to_euclidean_division_equations.

(* k: the number of operations performed so far (inode ids are operation numbers) *)
Record NInv (k : nat) (s : nstate) : Prop := {
  ninv_space : ispace s = 20 + 2 * ipe s + 2 * jpe s + ltotal lw_dblk (niso s)
                          + ltotal lw_dblk (njol s) + tbl_sum (ninodes s);
  ninv_jspace : jspace s = ispace s;
  ninv_iroot : troot_ok (niso s);
  ninv_jroot : troot_ok (njol s);
  ninv_itree : lall_ok (niso s);      (* every directory: Pack's Inv, children strictly sorted, *)
  ninv_jtree : lall_ok (njol s);      (* every dr_len even and in [34, 254]                     *)
  ninv_iptr : PtrInv (ips s) (ipe s);
  ninv_jptr : PtrInv (jps s) (jpe s);
  ninv_iptr_sum : ips s = ltotal lw_ptr (niso s);
  ninv_jptr_sum : jps s = ltotal lw_ptr (njol s);
  (* self.inodes has distinct entries and is exactly the set of inodes referenced from either tree *)
  ninv_tbl : ntbl_ok (ninodes s) (niso s) (njol s);
  ninv_fresh : forall i, In i (ids (ninodes s)) -> (i < k)%nat;
  ninv_len : Forall (fun e => 0 <= snd e <= max_len) (ninodes s);
  ninv_orph : norphans s = []         (* no Inode object outside self.inodes *)
}.

(* THE key equation: both descriptors declare exactly the end of the from-scratch layout *)
Theorem ninv_layout k s : NInv k s -> ispace s = nlayout_end s /\ jspace s = nlayout_end s.
Proof.
  intros HI. rewrite (ninv_jspace k s HI), (nlayout_end_closed s (ninv_orph k s HI) (ninv_tbl k s HI)).
  split; apply (ninv_space k s HI).
Qed.

Lemma ninv_mono k s : NInv k s -> NInv (S k) s.
Proof.
  intros HI. destruct HI. constructor; try assumption. intros i Hi. specialize (ninv_fresh0 i Hi). lia.
Qed.

Theorem ninit_ok : NInv 0 ninit.
Proof.
  assert (T : troot_ok (LDir [0] C [])) by (split; reflexivity).
  assert (A : lall_ok (LDir [0] C [])) by (apply lall_ok_dir; split; [apply dir_ok_new|constructor]).
  assert (P : PtrInv 10 (ceiling_div 10 4096 * 2)) by (destruct ptr_init as (_ & H & _); exact H).
  constructor.
  - vm_compute. reflexivity.
  - reflexivity.
  - exact T.
  - exact T.
  - exact A.
  - exact A.
  - exact P.
  - exact P.
  - vm_compute. reflexivity.
  - vm_compute. reflexivity.
  - split; [constructor|]. intros i. change (ids (ninodes ninit)) with (@nil nat).
    unfold nrefcount, lrefcount. change (niso ninit) with (LDir [0] C []).
    change (njol ninit) with (LDir [0] C []). rewrite !ltotal_dir, !ltotals_nil.
    unfold lw_ref. cbn [is_ref In]. lia.
  - intros i [].
  - constructor.
  - reflexivity.
Qed.

(* ---- phases ------------------------------------------------------------------------------------ *)

(* what inserting (a = true) or not inserting (a = false) a record of inode i does to one tree *)
Definition rec_phase (i : nat) (a : bool) (t t' : lnode) (g : Z) : Prop :=
  lall_ok t' /\ troot_ok t' /\ (g = 0 \/ g = 2048) /\
  ltotal lw_ptr t' = ltotal lw_ptr t /\
  C * ltotal lw_dblk t' = C * ltotal lw_dblk t + g /\
  forall j, lrefcount j t' = lrefcount j t + (if a && Nat.eqb i j then 1 else 0).

Lemma rec_phase_id i t : lall_ok t -> troot_ok t -> rec_phase i false t t 0.
Proof.
  intros H1 H2. split; [exact H1|]. split; [exact H2|]. split; [left; reflexivity|].
  split; [reflexivity|]. split; [lia|]. intros j. cbn [andb]. lia.
Qed.

Lemma rec_phase_add i t d n st t' g : lall_ok t -> troot_ok t ->
  t_add_rec t d n i st = Some (t', g) -> rec_phase i true t t' g.
Proof.
  intros Hok [Hn Hd] H. unfold t_add_rec in H.
  assert (Hc : lall_ok (LFile n i st)) by exact I.
  destruct (t_add_node_spec t d _ t' g Hok Hc H) as (A1 & A2 & A3 & A4 & A5 & A6 & _).
  split; [exact A1|]. split; [split; congruence|]. split; [exact A4|].
  split; [rewrite (A5 lw_ptr dl_free_ptr), ltotal_file; cbn [lw_ptr]; lia|].
  split; [rewrite A6, ltotal_file; cbn [lw_dblk]; lia|].
  intros j. unfold lrefcount. rewrite (A5 (lw_ref j) (dl_free_ref j)), ltotal_file.
  cbn [andb]. reflexivity.
Qed.

(* what one namespace's part of add_directory / rm_directory does: tree, path table tracker, and
   the bytes accounted (delta, signed) *)
Definition dir_phase (t : lnode) (ps0 pe0 : Z) (t' : lnode) (ps pe delta : Z) : Prop :=
  lall_ok t' /\ troot_ok t' /\ PtrInv ps pe /\ ps = ltotal lw_ptr t' /\
  (forall j, lrefcount j t' = lrefcount j t) /\
  delta = C * (ltotal lw_dblk t' - ltotal lw_dblk t) + 2 * C * (pe - pe0).

Lemma dir_phase_id t ps pe : lall_ok t -> troot_ok t -> PtrInv ps pe -> ps = ltotal lw_ptr t ->
  dir_phase t ps pe t ps pe 0.
Proof.
  intros H1 H2 H3 H4. split; [exact H1|]. split; [exact H2|]. split; [exact H3|]. split; [exact H4|].
  split; [reflexivity|lia].
Qed.

Lemma dir_phase_add t ps0 pe0 d n t' g b ps pe : lall_ok t -> troot_ok t -> PtrInv ps0 pe0 ->
  ps0 = ltotal lw_ptr t -> t_add_dir t d n = Some (t', g) ->
  add_to_ptr_size ps0 pe0 (ptr_record_length (zlen n)) = (b, ps, pe) ->
  dir_phase t ps0 pe0 t' ps pe (g + (if b then 4 * C else 0) + C).
Proof.
  intros Hok [Hn Hd] Hp Hps H Hadd. unfold t_add_dir in H.
  assert (Hc : lall_ok (LDir n C [])) by (apply lall_ok_dir; split; [apply dir_ok_new|constructor]).
  destruct (t_add_node_spec t d _ t' g Hok Hc H) as (A1 & A2 & A3 & A4 & A5 & A6 & (dn & dl & kids & Hsub & Hl)).
  assert (Hnm : name_ok n).
  { unfold t_add_node in H. rewrite Hsub in H. cbv zeta in H. cbn [lname] in H.
    destruct (dr_len_of n >? 255) eqn:Hx; [discriminate|]. apply name_ok_len, Hx. }
  pose proof (add_to_ptr_size_inv _ _ _ Hp (name_ok_ptr n Hnm)) as Q. rewrite Hadd in Q.
  destruct Q as (Q1 & Q2 & Q3 & Q4).
  split; [exact A1|]. split; [split; congruence|]. split; [exact Q1|].
  split; [rewrite (A5 lw_ptr dl_free_ptr), ltotal_leaf_dir; cbn [lw_ptr]; lia|].
  split.
  - intros j. unfold lrefcount. rewrite (A5 (lw_ref j) (dl_free_ref j)), ltotal_leaf_dir.
    change (lw_ref j (LDir n C [])) with 0. lia.
  - rewrite ltotal_leaf_dir in A6. change (lw_dblk (LDir n C [])) with (blocks_of C) in A6.
    change (blocks_of C) with 1 in A6. destruct b; unfold C in *; lia.
Qed.

Lemma dir_phase_rm t ps0 pe0 p t' sh cdl cn b ps pe : lall_ok t -> troot_ok t -> PtrInv ps0 pe0 ->
  ps0 = ltotal lw_ptr t -> t_rm_dir t p = Some (t', sh, cdl, cn) ->
  remove_from_ptr_size ps0 pe0 (ptr_record_length (zlen cn)) = Some (b, ps, pe) ->
  dir_phase t ps0 pe0 t' ps pe (- (sh + (if b then 4 * C else 0) + cdl)).
Proof.
  intros Hok [Hn Hd] Hp Hps H Hrm. unfold t_rm_dir in H.
  destruct (unsnoc p) as [[q y]|]; [|discriminate].
  destruct (t_find t q y) as [[[[[dn dl] kids] k] [fn fi fs|cn' cdl' [|c0 ck]]]|] eqn:Hf; try discriminate.
  destruct (t_remove t q dn dl kids k) as [t1 sh1] eqn:Hr. injection H as <- <- <- <-.
  apply t_find_spec in Hf. destruct Hf as (Hsub & _ & Hk & _).
  destruct (t_remove_spec t q dn dl kids k _ t1 sh1 Hok Hsub Hk Hr) as (A1 & A2 & A3 & A4 & A5 & A6 & A7 & A8).
  cbn [lname] in A8.
  assert (Hle : ptr_record_length (zlen cn') <= ps0).
  { rewrite Hps. pose proof (A5 lw_ptr dl_free_ptr) as E. rewrite ltotal_leaf_dir in E.
    pose proof (ltotal_nonneg lw_ptr lw_ptr_nonneg t1). cbn [lw_ptr] in E. lia. }
  destruct (remove_from_ptr_size_inv _ _ _ Hp (name_ok_ptr cn' A8) Hle) as (b' & pe' & Q & Q1 & Q3 & Q4).
  rewrite Q in Hrm. injection Hrm as <- <- <-.
  split; [exact A1|]. split; [split; congruence|]. split; [exact Q1|].
  split; [rewrite (A5 lw_ptr dl_free_ptr), ltotal_leaf_dir; cbn [lw_ptr]; lia|].
  split.
  - intros j. unfold lrefcount. rewrite (A5 (lw_ref j) (dl_free_ref j)), ltotal_leaf_dir.
    change (lw_ref j (LDir cn' cdl' [])) with 0. lia.
  - rewrite ltotal_leaf_dir in A6. change (lw_dblk (LDir cn' cdl' [])) with (blocks_of cdl') in A6.
    rewrite (dir_blocks cn' cdl' [] A7) in A6. destruct b'; unfold C in *; lia.
Qed.

(* the 'should never happen' exception of remove_from_ptr_size cannot be reached from rm_directory *)
Lemma rm_dir_ptr_some t ps0 pe0 p t' sh cdl cn : lall_ok t -> PtrInv ps0 pe0 ->
  ps0 = ltotal lw_ptr t -> t_rm_dir t p = Some (t', sh, cdl, cn) ->
  remove_from_ptr_size ps0 pe0 (ptr_record_length (zlen cn)) <> None.
Proof.
  intros Hok Hp Hps H. unfold t_rm_dir in H.
  destruct (unsnoc p) as [[q y]|]; [|discriminate].
  destruct (t_find t q y) as [[[[[dn dl] kids] k] [fn fi fs|cn' cdl' [|c0 ck]]]|] eqn:Hf; try discriminate.
  destruct (t_remove t q dn dl kids k) as [t1 sh1] eqn:Hr. injection H as <- <- <- <-.
  apply t_find_spec in Hf. destruct Hf as (Hsub & _ & Hk & _).
  destruct (t_remove_spec t q dn dl kids k _ t1 sh1 Hok Hsub Hk Hr) as (A1 & A2 & A3 & A4 & A5 & A6 & A7 & A8).
  cbn [lname] in A8.
  assert (Hle : ptr_record_length (zlen cn') <= ps0).
  { rewrite Hps. pose proof (A5 lw_ptr dl_free_ptr) as E. rewrite ltotal_leaf_dir in E.
    pose proof (ltotal_nonneg lw_ptr lw_ptr_nonneg t1). cbn [lw_ptr] in E. lia. }
  destruct (remove_from_ptr_size_inv _ _ _ Hp (name_ok_ptr cn' A8) Hle) as (b' & pe' & Q & _).
  rewrite Q. discriminate.
Qed.

(* ---- combining the two namespaces -------------------------------------------------------------- *)

Lemma rec_combine k s t1 t2 tbl sp :
  NInv k s ->
  lall_ok t1 -> troot_ok t1 -> ltotal lw_ptr t1 = ltotal lw_ptr (niso s) ->
  lall_ok t2 -> troot_ok t2 -> ltotal lw_ptr t2 = ltotal lw_ptr (njol s) ->
  ntbl_ok tbl t1 t2 -> (forall i, In i (ids tbl) -> (i < S k)%nat) ->
  Forall (fun e => 0 <= snd e <= max_len) tbl ->
  C * (sp - ispace s) = C * (ltotal lw_dblk t1 - ltotal lw_dblk (niso s))
                        + C * (ltotal lw_dblk t2 - ltotal lw_dblk (njol s))
                        + C * (tbl_sum tbl - tbl_sum (ninodes s)) ->
  NInv (S k) (set_trees s t1 t2 tbl sp).
Proof.
  intros HI A1 A2 A3 B1 B2 B3 HT HF HL Hsp. destruct HI.
  constructor; cbn [set_trees niso njol ninodes norphans ips ipe jps jpe ispace jspace]; try assumption;
    try congruence; unfold C in *; lia.
Qed.

Lemma dir_combine k s t1 ps pe d1 t2 qs qe d2 sp :
  NInv k s -> dir_phase (niso s) (ips s) (ipe s) t1 ps pe d1 ->
  dir_phase (njol s) (jps s) (jpe s) t2 qs qe d2 ->
  C * (sp - ispace s) = d1 + d2 ->
  NInv (S k) (set_all s t1 t2 ps pe qs qe sp).
Proof.
  intros HI (A1 & A2 & A3 & A4 & A5 & A6) (B1 & B2 & B3 & B4 & B5 & B6) Hsp.
  destruct HI. destruct ninv_tbl0 as [HN HR].
  constructor; cbn [set_all niso njol ninodes norphans ips ipe jps jpe ispace jspace]; try assumption;
    try (unfold C in *; lia).
  - split; [exact HN|]. intros i. unfold nrefcount. rewrite A5, B5. apply HR.
  - intros i Hi. specialize (ninv_fresh0 i Hi). lia.
Qed.

Lemma nrc_fresh k s : NInv k s -> nrefcount k (niso s) (njol s) = 0.
Proof.
  intros HI. destruct (ninv_tbl k s HI) as [_ HR]. unfold nrefcount in *.
  pose proof (lrefcount_nonneg k (niso s)). pose proof (lrefcount_nonneg k (njol s)).
  destruct (Z_lt_le_dec 0 (lrefcount k (niso s) + lrefcount k (njol s))) as [H1|H1]; [|lia].
  apply HR, (ninv_fresh k s HI) in H1. lia.
Qed.

(* ---- the operations ----------------------------------------------------------------------------- *)

Lemma nstep_add_file_inv k s iso jol len : NInv k s ->
  snd (nstep_add_file k s iso jol len) <> NLate -> NInv (S k) (fst (nstep_add_file k s iso jol len)).
Proof.
  intros HI. pose proof (ninv_mono k s HI) as HM. unfold nstep_add_file.
  assert (Main : forall a1 t1 g1 a2 t2 g2, a1 || a2 = true ->
            (0 <=? len) && (len <=? max_len) = true ->
            rec_phase k a1 (niso s) t1 g1 -> rec_phase k a2 (njol s) t2 g2 ->
            NInv (S k) (set_trees s t1 t2 (ninodes s ++ [(k, len)])
                                  (ispace s + ceiling_div (0 + (len + g1 + g2)) C))).
  { intros a1 t1 g1 a2 t2 g2 Ha Hlen (A1 & A2 & A3 & A4 & A5 & A6) (B1 & B2 & B3 & B4 & B5 & B6).
    destruct (ninv_tbl k s HI) as [HN HR].
    assert (Hfr : ~ In k (ids (ninodes s))) by (intros H; apply (ninv_fresh k s HI) in H; lia).
    apply (rec_combine k s); try assumption.
    - split.
      + unfold ids. rewrite map_app. cbn [map fst]. apply NoDup_snoc; assumption.
      + intros j. unfold ids. rewrite map_app, in_app_iff. cbn [map fst In]. fold (ids (ninodes s)).
        unfold nrefcount. rewrite A6, B6. pose proof (nrc_fresh k s HI) as F. unfold nrefcount in F.
        destruct (Nat.eqb_spec k j) as [<-|Hne].
        * split; [intros _; destruct a1, a2; cbn [andb] in *; try discriminate; lia|tauto].
        * rewrite !andb_false_r. rewrite HR. unfold nrefcount.
          split; [intros [H|[H|[]]]; [lia|congruence]|intros H; left; lia].
    - intros j. unfold ids. rewrite map_app, in_app_iff. cbn [map fst In].
      intros [H|[<-|[]]]; [apply (ninv_fresh k s HI) in H|]; lia.
    - apply Forall_app. split; [apply (ninv_len k s HI)|]. constructor; [cbn [snd]; lia|constructor].
    - rewrite tbl_sum_app. unfold tbl_sum at 2. cbn [map snd]. rewrite zsum_cons.
      change (Alloc.zsum []) with 0. unfold blocks_of, ceiling_div, C in *.
      destruct A3 as [-> | ->]; destruct B3 as [-> | ->]; lia. }
  pose proof (rec_phase_id k (niso s) (ninv_itree k s HI) (ninv_iroot k s HI)) as I0.
  pose proof (rec_phase_id k (njol s) (ninv_jtree k s HI) (ninv_jroot k s HI)) as J0.
  destruct iso as [[di ni]|]; destruct jol as [[dj nj]|]; try (intros _; exact HM).
  - destruct (negb ((0 <=? len) && (len <=? max_len))) eqn:Hr; [intros _; exact HM|].
    apply negb_false_iff in Hr.
    destruct (iso_file_legal di ni); [|intros _; exact HM].
    destruct (t_add_rec (niso s) di ni k (stamp_i k)) as [[t1 g1]|] eqn:E1; [|intros _; exact HM].
    pose proof (rec_phase_add k _ _ _ _ _ _ (ninv_itree k s HI) (ninv_iroot k s HI) E1) as P1.
    destruct (jol_legal nj); [|cbn [snd]; congruence].
    destruct (t_add_rec (njol s) (jpath dj) (utf16 nj) k (stamp_j k)) as [[t2 g2]|] eqn:E2; [|cbn [snd]; congruence].
    pose proof (rec_phase_add k _ _ _ _ _ _ (ninv_jtree k s HI) (ninv_jroot k s HI) E2) as P2.
    intros _. cbn [fst]. apply (Main true t1 g1 true t2 g2); try assumption; reflexivity.
  - destruct (negb ((0 <=? len) && (len <=? max_len))) eqn:Hr; [intros _; exact HM|].
    apply negb_false_iff in Hr.
    destruct (iso_file_legal di ni); [|intros _; exact HM].
    destruct (t_add_rec (niso s) di ni k (stamp_i k)) as [[t1 g1]|] eqn:E1; [|intros _; exact HM].
    pose proof (rec_phase_add k _ _ _ _ _ _ (ninv_itree k s HI) (ninv_iroot k s HI) E1) as P1.
    intros _. cbn [fst]. apply (Main true t1 g1 false (njol s) 0); try assumption; reflexivity.
  - destruct (negb ((0 <=? len) && (len <=? max_len))) eqn:Hr; [intros _; exact HM|].
    apply negb_false_iff in Hr.
    destruct (jol_legal nj); [|intros _; exact HM].
    destruct (t_add_rec (njol s) (jpath dj) (utf16 nj) k (stamp_j k)) as [[t2 g2]|] eqn:E2; [|intros _; exact HM].
    pose proof (rec_phase_add k _ _ _ _ _ _ (ninv_jtree k s HI) (ninv_jroot k s HI) E2) as P2.
    intros _. cbn [fst]. apply (Main false (niso s) 0 true t2 g2); try assumption; reflexivity.
Qed.

Lemma nstep_add_dir_inv k s iso jol : NInv k s ->
  snd (nstep_add_dir s iso jol) <> NLate -> NInv (S k) (fst (nstep_add_dir s iso jol)).
Proof.
  intros HI. pose proof (ninv_mono k s HI) as HM. unfold nstep_add_dir.
  pose proof (dir_phase_id (niso s) (ips s) (ipe s) (ninv_itree k s HI) (ninv_iroot k s HI)
                (ninv_iptr k s HI) (ninv_iptr_sum k s HI)) as I0.
  pose proof (dir_phase_id (njol s) (jps s) (jpe s) (ninv_jtree k s HI) (ninv_jroot k s HI)
                (ninv_jptr k s HI) (ninv_jptr_sum k s HI)) as J0.
  assert (Main : forall t1 ps pe n1 t2 qs qe n2,
            dir_phase (niso s) (ips s) (ipe s) t1 ps pe n1 ->
            dir_phase (njol s) (jps s) (jpe s) t2 qs qe n2 ->
            NInv (S k) (set_all s t1 t2 ps pe qs qe (ispace s + ceiling_div (0 + (n1 + n2)) C))).
  { intros t1 ps pe n1 t2 qs qe n2 P1 P2. apply (dir_combine k s _ _ _ n1 _ _ _ n2 _ HI P1 P2).
    destruct P1 as (_ & _ & _ & _ & _ & E1). destruct P2 as (_ & _ & _ & _ & _ & E2).
    unfold ceiling_div, C in *. lia. }
  assert (PI : forall di ni t1 g1 b ps pe, t_add_dir (niso s) di ni = Some (t1, g1) ->
            add_to_ptr_size (ips s) (ipe s) (ptr_record_length (zlen ni)) = (b, ps, pe) ->
            dir_phase (niso s) (ips s) (ipe s) t1 ps pe (g1 + ((if b then 4 * C else 0) + C))).
  { intros. replace (g1 + ((if b then 4 * C else 0) + C)) with (g1 + (if b then 4 * C else 0) + C) by lia.
    eapply dir_phase_add; eauto; [apply (ninv_itree k s HI)|apply (ninv_iroot k s HI)
                                 |apply (ninv_iptr k s HI)|apply (ninv_iptr_sum k s HI)]. }
  assert (PJ : forall dj nj t2 g2 b qs qe, t_add_dir (njol s) dj nj = Some (t2, g2) ->
            add_to_ptr_size (jps s) (jpe s) (ptr_record_length (zlen nj)) = (b, qs, qe) ->
            dir_phase (njol s) (jps s) (jpe s) t2 qs qe (g2 + C + (if b then 4 * C else 0))).
  { intros. replace (g2 + C + (if b then 4 * C else 0)) with (g2 + (if b then 4 * C else 0) + C) by lia.
    eapply dir_phase_add; eauto; [apply (ninv_jtree k s HI)|apply (ninv_jroot k s HI)
                                 |apply (ninv_jptr k s HI)|apply (ninv_jptr_sum k s HI)]. }
  destruct iso as [[di ni]|]; destruct jol as [[dj nj]|]; try (intros _; exact HM).
  - destruct (iso_dir_legal di ni); [|intros _; exact HM].
    destruct (t_add_dir (niso s) di ni) as [[t1 g1]|] eqn:E1; [|intros _; exact HM].
    destruct (add_to_ptr_size (ips s) (ipe s) (ptr_record_length (zlen ni))) as [[b ps] pe] eqn:A1.
    destruct (jol_legal nj); [|cbn [snd]; congruence].
    destruct (t_add_dir (njol s) (jpath dj) (utf16 nj)) as [[t2 g2]|] eqn:E2; [|cbn [snd]; congruence].
    destruct (add_to_ptr_size (jps s) (jpe s) (ptr_record_length (zlen (utf16 nj)))) as [[b2 qs] qe] eqn:A2.
    intros _. cbn [fst]. apply Main; [eapply PI; eassumption|eapply PJ; eassumption].
  - destruct (iso_dir_legal di ni); [|intros _; exact HM].
    destruct (t_add_dir (niso s) di ni) as [[t1 g1]|] eqn:E1; [|intros _; exact HM].
    destruct (add_to_ptr_size (ips s) (ipe s) (ptr_record_length (zlen ni))) as [[b ps] pe] eqn:A1.
    intros _. cbn [fst]. apply Main; [eapply PI; eassumption|exact J0].
  - destruct (jol_legal nj); [|intros _; exact HM].
    destruct (t_add_dir (njol s) (jpath dj) (utf16 nj)) as [[t2 g2]|] eqn:E2; [|intros _; exact HM].
    destruct (add_to_ptr_size (jps s) (jpe s) (ptr_record_length (zlen (utf16 nj)))) as [[b2 qs] qe] eqn:A2.
    intros _. cbn [fst]. apply Main; [exact I0|eapply PJ; eassumption].
Qed.

Lemma nstep_rm_dir_inv k s iso jol : NInv k s ->
  snd (nstep_rm_dir s iso jol) <> NLate -> NInv (S k) (fst (nstep_rm_dir s iso jol)).
Proof.
  intros HI. pose proof (ninv_mono k s HI) as HM. unfold nstep_rm_dir.
  pose proof (dir_phase_id (niso s) (ips s) (ipe s) (ninv_itree k s HI) (ninv_iroot k s HI)
                (ninv_iptr k s HI) (ninv_iptr_sum k s HI)) as I0.
  pose proof (dir_phase_id (njol s) (jps s) (jpe s) (ninv_jtree k s HI) (ninv_jroot k s HI)
                (ninv_jptr k s HI) (ninv_jptr_sum k s HI)) as J0.
  assert (Main : forall t1 ps pe n1 t2 qs qe n2,
            dir_phase (niso s) (ips s) (ipe s) t1 ps pe (- n1) ->
            dir_phase (njol s) (jps s) (jpe s) t2 qs qe (- n2) ->
            NInv (S k) (set_all s t1 t2 ps pe qs qe (ispace s - ceiling_div (n1 + n2) C))).
  { intros t1 ps pe n1 t2 qs qe n2 P1 P2. apply (dir_combine k s _ _ _ (- n1) _ _ _ (- n2) _ HI P1 P2).
    destruct P1 as (_ & _ & _ & _ & _ & E1). destruct P2 as (_ & _ & _ & _ & _ & E2).
    unfold ceiling_div, C in *. lia. }
  assert (PI : forall p t1 sh cdl cn b ps pe, t_rm_dir (niso s) p = Some (t1, sh, cdl, cn) ->
            remove_from_ptr_size (ips s) (ipe s) (ptr_record_length (zlen cn)) = Some (b, ps, pe) ->
            dir_phase (niso s) (ips s) (ipe s) t1 ps pe (- (sh + (if b then 4 * C else 0) + cdl))).
  { intros. eapply dir_phase_rm; eauto; [apply (ninv_itree k s HI)|apply (ninv_iroot k s HI)
                                        |apply (ninv_iptr k s HI)|apply (ninv_iptr_sum k s HI)]. }
  assert (PJ : forall p t2 sh cdl cn b qs qe, t_rm_dir (njol s) p = Some (t2, sh, cdl, cn) ->
            remove_from_ptr_size (jps s) (jpe s) (ptr_record_length (zlen cn)) = Some (b, qs, qe) ->
            dir_phase (njol s) (jps s) (jpe s) t2 qs qe (- (cdl + sh + (if b then 4 * C else 0)))).
  { intros. replace (cdl + sh + (if b then 4 * C else 0)) with (sh + (if b then 4 * C else 0) + cdl) by lia.
    eapply dir_phase_rm; eauto; [apply (ninv_jtree k s HI)|apply (ninv_jroot k s HI)
                                |apply (ninv_jptr k s HI)|apply (ninv_jptr_sum k s HI)]. }
  destruct iso as [pi|]; destruct jol as [pj|]; try (intros _; exact HM).
  - destruct (t_rm_dir (niso s) pi) as [[[[t1 sh] cdl] cn]|] eqn:E1; [|intros _; exact HM].
    destruct (remove_from_ptr_size (ips s) (ipe s) (ptr_record_length (zlen cn))) as [[[b ps] pe]|] eqn:R1;
      [|intros _; exact HM].
    destruct (t_rm_dir (njol s) (jpath pj)) as [[[[t2 sh2] cdl2] cn2]|] eqn:E2; [|cbn [snd]; congruence].
    destruct (remove_from_ptr_size (jps s) (jpe s) (ptr_record_length (zlen cn2))) as [[[b2 qs] qe]|] eqn:R2.
    + intros _. cbn [fst]. apply Main; [eapply PI; eassumption|eapply PJ; eassumption].
    + exfalso. eapply rm_dir_ptr_some; [apply (ninv_jtree k s HI)|apply (ninv_jptr k s HI)
                                       |apply (ninv_jptr_sum k s HI)|exact E2|exact R2].
  - destruct (t_rm_dir (niso s) pi) as [[[[t1 sh] cdl] cn]|] eqn:E1; [|intros _; exact HM].
    destruct (remove_from_ptr_size (ips s) (ipe s) (ptr_record_length (zlen cn))) as [[[b ps] pe]|] eqn:R1;
      [|intros _; exact HM].
    intros _. cbn [fst].
    apply (Main t1 ps pe (sh + (if b then 4 * C else 0) + cdl) (njol s) (jps s) (jpe s) 0);
      [eapply PI; eassumption|exact J0].
  - destruct (t_rm_dir (njol s) (jpath pj)) as [[[[t2 sh2] cdl2] cn2]|] eqn:E2; [|intros _; exact HM].
    destruct (remove_from_ptr_size (jps s) (jpe s) (ptr_record_length (zlen cn2))) as [[[b2 qs] qe]|] eqn:R2;
      [|intros _; exact HM].
    intros _. cbn [fst].
    apply (Main (niso s) (ips s) (ipe s) 0 t2 qs qe (cdl2 + sh2 + (if b2 then 4 * C else 0)));
      [exact I0|eapply PJ; eassumption].
Qed.
