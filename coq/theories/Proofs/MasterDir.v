(* Master, part 5: the chunks of the mastered image, for a well-formed tree.
     ms_dir_recs_good   the records of a directory all encode; Codec decodes each of them back; their
                        lengths are the dr_len values Pack / Account count with
     ms_chunk_facts     a chunk is data_length bytes, a whole number of blocks, and scans back to its records
     ms_master_some     master does not fail
     ms_positions_*     the written directories are exactly the directory positions, once each
     ms_master_img_ok   chunks of different directories do not overlap
     ms_master_read     reading (extent, data_length) of a directory returns its chunk *)
From Coq Require Import ZArith List Bool Lia ZifyBool.
From PV.Base Require Import Prim ListX.
From PV.Gen Require Import GenConst GenFun.
From PV.Model Require Import Codec Pack PathTable Master.
From PV.Proofs Require Import CodecProofs PackProofs PathTableLemmas PathTableProofs.
From PV.Proofs Require Import MasterPack MasterImage MasterBfs MasterWf.
Import ListNotations.
Local Open Scope Z_scope.
Ltac Zify.zify_post_hook ::= Z.to_euclidean_division_equations.

Section Dir.
  Variable dt : list Z.
  Hypothesis Hdt : length dt = 7%nat.
  Variable t : node.
  Hypothesis Hwf : wf_tree t = true.

  Local Notation DB := (ms_DB t).
  Local Notation FB := (ms_FB t).
  Local Notation chunk := (ms_chunk dt t DB FB).

  (* ---- records ---------------------------------------------------------------------------------- *)

  Lemma ms_kid_rec_good p nm dl kids j c :
    ms_node_at t p = Some (Dir nm dl kids) -> nth_error kids j = Some c ->
    exists b, enc_dr (ms_kid_rec dt DB FB (p ++ [j]) c) = Some b /\
              ms_good (ms_kid_rec dt DB FB (p ++ [j]) c) b /\
              zlen b = Account.dr_len_of (Account.name_of c).
  Proof.
    intros Hp Hj. destruct (ms_wf_at t Hwf p _ Hp) as [bb Hb].
    pose proof (ms_wf_kid _ _ _ _ _ _ Hb Hj) as Hk.
    assert (Hc : ms_node_at t (p ++ [j]) = Some c).
    { rewrite (ms_node_at_snoc p j t _ Hp). exact Hj. }
    destruct c as [n len|n dl' kids']; cbn [ms_kid_rec Account.name_of]; destruct Hk as [Hn Hr].
    - apply ms_rec_good; [exact Hdt| | |lia|apply ms_name_ok_spec; exact Hn].
      + apply (ms_fext_range t Hwf _ n len Hc). lia.
      + unfold Account.max_len in Hr. lia.
    - apply ms_rec_good; [exact Hdt| | |lia|apply ms_name_ok_spec; exact Hn].
      + apply (ms_dext_range t Hwf _ n dl' kids' Hc).
      + rewrite ms_BS in Hr. lia.
  Qed.

  Lemma ms_kid_recs_good p nm dl kids : ms_node_at t p = Some (Dir nm dl kids) ->
    forall kids' j0, (forall i c, nth_error kids' i = Some c -> nth_error kids (j0 + i) = Some c) ->
    Forall2 ms_good (ms_kid_recs dt DB FB p j0 kids') (map ms_enc (ms_kid_recs dt DB FB p j0 kids')) /\
    map zlen (map ms_enc (ms_kid_recs dt DB FB p j0 kids'))
      = map Account.dr_len_of (map Account.name_of kids') /\
    forallb ms_enc_ok (ms_kid_recs dt DB FB p j0 kids') = true.
  Proof.
    intros Hp. induction kids' as [|c kids' IH]; intros j0 Hsub.
    - cbn. repeat split. constructor.
    - cbn [ms_kid_recs map forallb].
      destruct (ms_kid_rec_good p nm dl kids j0 c Hp) as (b & He & Hg & Hl).
      { specialize (Hsub 0%nat c eq_refl). rewrite Nat.add_0_r in Hsub. exact Hsub. }
      destruct (ms_enc_of _ _ He) as [E1 E2]. rewrite E1, E2.
      destruct (IH (S j0)) as (I1 & I2 & I3).
      { intros i c' Hi. specialize (Hsub (S i) c' Hi). replace (S j0 + i)%nat with (j0 + S i)%nat by lia. exact Hsub. }
      split; [constructor; assumption|]. split; [rewrite I2, Hl; reflexivity|exact I3].
  Qed.

  Lemma ms_dir_recs_eq p nm dl kids : ms_node_at t p = Some (Dir nm dl kids) ->
    ms_dir_recs dt t DB FB p =
      ms_rec dt (ms_ext_at DB p) dl 2 [0]
      :: ms_rec dt (ms_ext_at DB (removelast p)) (ms_dlen_at t (removelast p)) 2 [1]
      :: ms_kid_recs dt DB FB p 0 kids.
  Proof. intros Hp. unfold ms_dir_recs. rewrite Hp. reflexivity. Qed.

  (* the directory above: a directory, with extent and length in range *)
  Lemma ms_parent_facts p c : ms_node_at t p = Some c ->
    exists nm dl kids, ms_node_at t (removelast p) = Some (Dir nm dl kids) /\
                       ms_dlen_at t (removelast p) = dl.
  Proof.
    intros Hp. pose proof (ms_parent_dir t p c (ms_root_is_dir t Hwf) Hp) as H.
    unfold ms_is_dir_at in H. unfold ms_dlen_at.
    destruct (ms_node_at t (removelast p)) as [[n l|nm dl kids]|]; try discriminate.
    exists nm, dl, kids. split; reflexivity.
  Qed.

  Theorem ms_dir_recs_good p nm dl kids : ms_node_at t p = Some (Dir nm dl kids) ->
    let rs := ms_dir_recs dt t DB FB p in
    Forall2 ms_good rs (map ms_enc rs) /\
    map zlen (map ms_enc rs) = 34 :: 34 :: map Account.dr_len_of (map Account.name_of kids) /\
    forallb ms_enc_ok rs = true.
  Proof.
    intros Hp rs. unfold rs. rewrite (ms_dir_recs_eq p nm dl kids Hp).
    destruct (ms_parent_facts p _ Hp) as (nm' & dl' & kids' & Hpar & Hdl'). rewrite Hdl'.
    destruct (ms_wf_at t Hwf p _ Hp) as [b Hb]. destruct (ms_wf_dir _ _ _ _ Hb) as (_ & _ & Hr & _).
    destruct (ms_wf_at t Hwf _ _ Hpar) as [b' Hb']. destruct (ms_wf_dir _ _ _ _ Hb') as (_ & _ & Hr' & _).
    rewrite ms_BS in Hr, Hr'.
    destruct (ms_rec_good dt (ms_ext_at DB p) dl 2 [0] Hdt) as (b1 & E1 & G1 & L1);
      [apply (ms_dext_range t Hwf p nm dl kids Hp)|lia|lia|vm_compute; split; discriminate|].
    destruct (ms_rec_good dt (ms_ext_at DB (removelast p)) dl' 2 [1] Hdt) as (b2 & E2 & G2 & L2);
      [apply (ms_dext_range t Hwf _ nm' dl' kids' Hpar)|lia|lia|vm_compute; split; discriminate|].
    destruct (ms_kid_recs_good p nm dl kids Hp kids 0%nat) as (I1 & I2 & I3); [intros i c Hi; exact Hi|].
    cbn [map forallb]. destruct (ms_enc_of _ _ E1) as [-> ->]. destruct (ms_enc_of _ _ E2) as [-> ->].
    split; [constructor; [exact G1|constructor; [exact G2|exact I1]]|].
    split; [rewrite L1, L2, I2; reflexivity|exact I3].
  Qed.

  (* ---- chunks ------------------------------------------------------------------------------------ *)

  Theorem ms_chunk_facts p nm dl kids : ms_node_at t p = Some (Dir nm dl kids) ->
    fst (chunk p) = ms_ext_at DB p /\ zlen (snd (chunk p)) = dl /\ dl mod BS = 0 /\ BS <= dl /\
    ms_cblocks (chunk p) = ceiling_div dl BS /\
    ms_scan (S (length (snd (chunk p)))) (snd (chunk p)) 0 = Some (ms_dir_recs dt t DB FB p).
  Proof.
    intros Hp. destruct (ms_dir_recs_good p nm dl kids Hp) as (HG & HL & _).
    destruct (ms_wf_at t Hwf p _ Hp) as [b Hb].
    destruct (ms_wf_dir _ _ _ _ Hb) as (Hm & Hn & Hr & _).
    unfold ms_chunk. cbn [fst snd]. unfold ms_dlen_at. rewrite Hp.
    assert (Hsz : Forall (fun x => zlen x <= BS) (map ms_enc (ms_dir_recs dt t DB FB p))).
    { clear -HG. induction HG as [|r x rs bs (_ & _ & Hl) _ IH]; constructor; [lia|exact IH]. }
    rewrite <- HL in Hn.
    pose proof (ms_dir_bytes_len dl _ Hsz Hn) as Hlen.
    split; [reflexivity|]. split; [exact Hlen|]. split; [exact Hm|]. split; [lia|]. split.
    - unfold ms_cblocks. cbn [snd]. rewrite Hlen. unfold ceiling_div. rewrite ms_BS in *. lia.
    - apply ms_scan_dir; assumption.
  Qed.

  (* ---- master does not fail ------------------------------------------------------------------ *)

  Lemma ms_positions_dir p : In p (ms_dir_positions t) -> ms_is_dir_at t p = true.
  Proof. unfold ms_dir_positions. intros H. apply filter_In in H. exact (proj2 H). Qed.

  Lemma ms_is_dir_node p : ms_is_dir_at t p = true ->
    exists nm dl kids, ms_node_at t p = Some (Dir nm dl kids).
  Proof.
    unfold ms_is_dir_at. destruct (ms_node_at t p) as [[n l|nm dl kids]|]; try discriminate.
    intros _. exists nm, dl, kids. reflexivity.
  Qed.

  Lemma ms_positions_complete p : ms_is_dir_at t p = true -> In p (ms_dir_positions t).
  Proof.
    intros H. unfold ms_dir_positions. apply filter_In. split; [|exact H].
    rewrite (write_order_is_bfs (first_dir_extent t)).
    destruct (ms_is_dir_node p H) as (nm & dl & kids & Hp).
    destruct (ms_bfs_complete (first_dir_extent t) (ms_dtree t) p (ms_dtree (Dir nm dl kids)))
      as (r & Hr & Hpos); [rewrite ms_subtree_dtree, Hp; reflexivity|].
    rewrite <- Hpos. apply in_map. exact Hr.
  Qed.

  Lemma ms_positions_nodup : NoDup (ms_dir_positions t).
  Proof.
    unfold ms_dir_positions. apply NoDup_filter.
    rewrite (write_order_is_bfs (first_dir_extent t)). apply ms_bfs_nodup.
  Qed.

  Theorem ms_master_some : master dt t = Some (map chunk (ms_dir_positions t)).
  Proof.
    unfold master. cbv zeta.
    replace (forallb _ (ms_dir_positions t)) with true; [reflexivity|].
    symmetry. apply forallb_forall. intros p Hp.
    destruct (ms_is_dir_node p (ms_positions_dir p Hp)) as (nm & dl & kids & Hn).
    exact (proj2 (proj2 (ms_dir_recs_good p nm dl kids Hn))).
  Qed.

  (* ---- chunks of different directories do not overlap -------------------------------------------- *)

  Lemma ms_chunks_disjoint p1 p2 : ms_is_dir_at t p1 = true -> ms_is_dir_at t p2 = true ->
    p1 <> p2 -> ms_disjoint (chunk p1) (chunk p2).
  Proof.
    intros H1 H2 Hne.
    destruct (ms_is_dir_node p1 H1) as (n1 & d1 & k1 & N1).
    destruct (ms_is_dir_node p2 H2) as (n2 & d2 & k2 & N2).
    destruct (ms_chunk_facts p1 n1 d1 k1 N1) as (F1 & _ & _ & _ & C1 & _).
    destruct (ms_chunk_facts p2 n2 d2 k2 N2) as (F2 & _ & _ & _ & C2 & _).
    destruct (ms_dext_spec t p1 n1 d1 k1 N1) as (r1 & R1 & P1 & E1 & B1).
    destruct (ms_dext_spec t p2 n2 d2 k2 N2) as (r2 & R2 & P2 & E2 & B2).
    destruct (ms_wf_root t Hwf) as (_ & _ & _ & Hw & _).
    destruct (ms_wf_blocks_ok 8 t Hw) as [Hd _].
    unfold ms_disjoint. rewrite F1, F2, C1, C2, E1, E2, <- B1, <- B2.
    apply (ms_bfs_disjoint _ _ r1 r2 Hd R1 R2). congruence.
  Qed.

  Theorem ms_master_img_ok : ms_img_ok (map chunk (ms_dir_positions t)).
  Proof.
    intros c1 c2 H1 H2. apply in_map_iff in H1. apply in_map_iff in H2.
    destruct H1 as (p1 & <- & P1). destruct H2 as (p2 & <- & P2).
    destruct (list_eq_dec Nat.eq_dec p1 p2) as [->|Hne]; [left; reflexivity|right].
    apply ms_chunks_disjoint; [apply ms_positions_dir; exact P1|apply ms_positions_dir; exact P2|exact Hne].
  Qed.

  (* ---- reading a directory's extent returns its chunk --------------------------------------------- *)

  (* ... in ANY image that contains the chunks and whose chunks do not overlap (the whole medium:
     volume descriptors, path tables, file contents added) *)
  Theorem ms_master_read_in img' p nm dl kids : ms_img_ok img' ->
    incl (map chunk (ms_dir_positions t)) img' ->
    ms_node_at t p = Some (Dir nm dl kids) ->
    ms_img_read img' (ms_ext_at DB p) dl = Some (snd (chunk p)).
  Proof.
    intros Hok Hincl Hp. destruct (ms_chunk_facts p nm dl kids Hp) as (F & L & M & _).
    rewrite <- F, <- L. apply ms_img_read_chunk; [exact Hok| |rewrite L; exact M].
    apply Hincl. rewrite <- surjective_pairing. apply in_map. apply ms_positions_complete.
    unfold ms_is_dir_at. rewrite Hp. reflexivity.
  Qed.

  Theorem ms_master_read p nm dl kids : ms_node_at t p = Some (Dir nm dl kids) ->
    ms_img_read (map chunk (ms_dir_positions t)) (ms_ext_at DB p) dl = Some (snd (chunk p)).
  Proof. apply ms_master_read_in; [exact ms_master_img_ok|apply incl_refl]. Qed.
End Dir.

Print Assumptions ms_dir_recs_good.
Print Assumptions ms_master_some.
Print Assumptions ms_master_img_ok.
Print Assumptions ms_master_read_in.
