From Coq Require Import ZArith List Bool Lia ZifyBool.
From PV.Gen Require Import GenFun.
From PV.Model Require Import Fid.
From PV.Proofs Require Import ChecksumsArithProofs.
Import ListNotations.
Local Open Scope Z_scope.
Ltac Zify.zify_post_hook ::= Z.to_euclidean_division_equations.

Definition fits (lbs : Z) (lens : list Z) : Prop := Forall (fun x => 0 < x <= lbs) lens.

(* invariant of the lazy fold-back: the absolute start of the next descriptor is cur*lbs + off, 0 <= off < 2*lbs *)
Lemma fid_walk_spec lbs : 0 < lbs -> forall lens cur off, fits lbs lens -> 0 <= off < 2 * lbs ->
  fst (fid_walk lbs cur off lens) = map (fun s => s / lbs) (starts (cur * lbs + off) lens) /\
  (let '(c, o) := snd (fid_walk lbs cur off lens) in
   c * lbs + o = cur * lbs + off + zsum lens /\ (lens = [] -> o = off) /\ (lens <> [] -> 0 < o <= 2 * lbs)).
Proof.
  intros Hl. induction lens as [|x r IH]; intros cur off Hf Ho; cbn [fid_walk starts map fst snd zsum fold_right].
  - split; [reflexivity|]. split; [lia|]. split; [intros _; reflexivity|intros N; congruence].
  - inversion Hf as [|? ? Hx Hr]; subst. fold (zsum r).
    destruct (off >=? lbs) eqn:E.
    + specialize (IH (cur + 1) (off - lbs + x) Hr ltac:(lia)).
      destruct (fid_walk lbs (cur + 1) (off - lbs + x) r) as [rest [c o]] eqn:W. cbn [fst snd] in *.
      destruct IH as [I1 (I2 & I3 & I4)]. split.
      * f_equal; [nia|]. rewrite I1. f_equal. f_equal. lia.
      * split; [lia|]. split; [intros N; discriminate|]. intros _.
        destruct r as [|y r']; [rewrite (I3 eq_refl); lia|apply I4; discriminate].
    + specialize (IH cur (off + x) Hr ltac:(lia)).
      destruct (fid_walk lbs cur (off + x) r) as [rest [c o]] eqn:W. cbn [fst snd] in *.
      destruct IH as [I1 (I2 & I3 & I4)]. split.
      * f_equal; [nia|]. rewrite I1. f_equal. f_equal. lia.
      * split; [lia|]. split; [intros N; discriminate|]. intros _.
        destruct r as [|y r']; [rewrite (I3 eq_refl); lia|apply I4; discriminate].
Qed.

(* every descriptor's recorded location is the block that holds its first byte *)
Theorem fid_location_is_block_of_first_byte lbs lens : 0 < lbs -> fits lbs lens ->
  fid_locations lbs lens = map (fun s => s / lbs) (starts 0 lens).
Proof.
  intros Hl Hf. unfold fid_locations. destruct (fid_walk_spec lbs Hl lens 0 0 Hf ltac:(lia)) as [H _].
  rewrite H. reflexivity.
Qed.

(* the area takes exactly ceil(total / lbs) blocks *)
Theorem fid_blocks_is_ceiling lbs lens : 0 < lbs -> fits lbs lens -> lens <> [] ->
  fid_blocks lbs lens = ceiling_div (zsum lens) lbs.
Proof.
  intros Hl Hf Hne. unfold fid_blocks.
  destruct (fid_walk_spec lbs Hl lens 0 0 Hf ltac:(lia)) as [_ H].
  destruct (snd (fid_walk lbs 0 0 lens)) as [c o]. destruct H as (H2 & _ & H4). specialize (H4 Hne).
  rewrite (ceiling_div_spec (zsum lens) lbs Hl). destruct (o >? lbs) eqn:E; nia.
Qed.

(* with ">" in the loop test a descriptor that starts exactly on a block boundary is given the previous block *)
Theorem fid_walk_gt_refuted :
  exists lens, fits 2048 lens /\ fid_walk_gt 2048 0 0 lens <> map (fun s => s / 2048) (starts 0 lens).
Proof.
  exists (40 :: 44 :: 44 :: repeat 48 40 ++ [48; 48]). split.
  - repeat constructor; lia.
  - vm_compute. discriminate.
Qed.

(* the deltas reported to the space accounting are the change of the block count *)
Lemma fid_length_lower n : 0 <= n -> 38 <= udf_fid_length n.
Proof. intros Hn. unfold udf_fid_length, udf_fid_pad. destruct (Z.gtb_spec n 0); lia. Qed.

Theorem fid_add_delta lbs info n : 0 < lbs -> 0 <= info -> 0 <= n ->
  let '(info', d) := fid_add lbs info n in
  info' = info + udf_fid_length n /\ d = ceiling_div info' lbs - ceiling_div info lbs /\ 0 <= d.
Proof.
  intros Hl Hi Hn. unfold fid_add. pose proof (fid_length_lower n Hn) as L.
  rewrite !(ceiling_div_spec _ lbs Hl).
  assert (M : (info + lbs - 1) / lbs <= (info + udf_fid_length n + lbs - 1) / lbs) by (apply Z.div_le_mono; lia).
  destruct (info >? 0) eqn:E.
  - repeat split; lia.
  - assert (info = 0) by lia. subst. replace ((0 + lbs - 1) / lbs) with 0 in * by (symmetry; apply Z.div_small; lia).
    repeat split; lia.
Qed.

Theorem fid_remove_delta lbs info n : 0 < lbs -> 0 <= n -> udf_fid_length n <= info ->
  let '(info', d) := fid_remove lbs info n in
  info' = info - udf_fid_length n /\ d = ceiling_div info lbs - ceiling_div info' lbs /\ 0 <= d.
Proof.
  intros Hl Hn Hi. unfold fid_remove. pose proof (fid_length_lower n Hn) as L.
  rewrite !(ceiling_div_spec _ lbs Hl).
  assert (M : (info - udf_fid_length n + lbs - 1) / lbs <= (info + lbs - 1) / lbs) by (apply Z.div_le_mono; lia).
  repeat split; lia.
Qed.
