(* C11 / C02 -- Model/BootParse.v, part 7: the room _link_eltorito measures for a boot file without
   directory record (current code, commits 063269b and 9223b0e) is EXACTLY the blocks the file was
   written with: the from-scratch layout is contiguous, and every extent that follows is the extent of a
   named file or of another entry.  Hence every boot file keeps its number of blocks and all of its bytes. *)
From Coq Require Import ZArith List Bool Lia ZifyBool Sorted Arith Permutation.
From PV.Base Require Import Prim.
From PV.Gen Require Import GenConst GenFun.
From PV.Model Require Import Names Checksums Pack Alloc Codec Eltorito Account AccountLinks AccountBoot BootParse.
From PV.Proofs Require Import PackProofs AllocProofs ChecksumsArithProofs AccountLemmas AccountProofs
     AccountLinksLemmas AccountLinksPurge AccountLinksInv EltoritoCatalogProofs EltoritoBuiltProofs
     AccountBootLemmas AccountBootInv AccountBootInv2 AccountBootFix AccountBootProofs BootParseLayout
     BootParseCat BootParseWalk BootParseLink BootParseTable BootParseReopen.
Import ListNotations.
Local Open Scope Z_scope.
Ltac Zify.zify_post_hook ::= Z.to_euclidean_division_equations.

(* ---- min([e for e in l if e > x] + [d]) ------------------------------------------------------------------ *)

Lemma bp_min_above_spec x m : forall l d, x < m -> m <= d ->
  (forall e, In e l -> x < e -> m <= e) -> (In m l \/ d = m) -> bp_min_above x l d = m.
Proof.
  unfold bp_min_above. induction l as [|e r IH]; intros d Hx Hd Hl Hm; cbn [fold_left].
  - destruct Hm as [[]|Hm]. exact Hm.
  - apply IH; [exact Hx| | |].
    + destruct ((x <? e) && (e <? d)) eqn:E; [|exact Hd]. apply Hl; [left; reflexivity|lia].
    + intros e' He'. apply Hl. right. exact He'.
    + destruct Hm as [[->|Hm]|Hm].
      * right. destruct ((x <? m) && (m <? d)) eqn:E; lia.
      * left. exact Hm.
      * right. subst d. destruct ((x <? e) && (e <? m)) eqn:E; [|reflexivity].
        assert (m <= e) by (apply Hl; [left; reflexivity|lia]). lia.
Qed.

(* ---- the bump allocation is contiguous ------------------------------------------------------------------- *)

Lemma bp_assoc_split (f : nat -> Z) i : forall pre rest st, ~ In i pre ->
  assoc i (combine (pre ++ i :: rest) (bump st (map f (pre ++ i :: rest)))) = Some (st + Alloc.zsum (map f pre), f i).
Proof.
  induction pre as [|a pre IH]; intros rest st Hn.
  - cbn [app map bump combine assoc]. rewrite Nat.eqb_refl. unfold Alloc.zsum. cbn [fold_right]. rewrite Z.add_0_r. reflexivity.
  - cbn [app map bump combine assoc]. destruct (Nat.eqb_spec a i) as [->|Hne]; [exfalso; apply Hn; left; reflexivity|].
    rewrite IH; [|intros H; apply Hn; right; exact H]. rewrite zsum_cons. f_equal. f_equal. lia.
Qed.

Section Room.
  Variable s : bstate.
  Hypothesis HI : BInv s.
  Hypothesis HF : BFix s.

  (* what comes right behind inode i: the volume end, or another placed inode *)
  Lemma bp_next i : bp_placed s i ->
    rba_of s i + blk_of s i = lspace (bl s) \/
    exists j, bp_placed s j /\ rba_of s j = rba_of s i + blk_of s i.
  Proof.
    intros Hp. pose proof (bp_placed_in s i HI Hp) as Hd. pose proof (ab_data_inos_nodup s) as HN.
    destruct (in_split _ _ Hd) as (pre & rest & E).
    assert (Hpre : ~ In i pre).
    { rewrite E in HN. apply NoDup_remove_2 in HN. intros H. apply HN, in_or_app. left. exact H. }
    assert (Ri : rba_of s i = data_start s + Alloc.zsum (map (blk_of s) pre)).
    { unfold rba_of, ino_extent, placed. rewrite E, (bp_assoc_split (blk_of s) i pre rest _ Hpre). reflexivity. }
    destruct rest as [|j rest].
    - left. rewrite (ab_inv_layout s HI). unfold blayout_end, bump_end, bobjects.
      rewrite E, !zsum_app, map_app, zsum_app. cbn [map]. rewrite zsum_cons.
      unfold data_start, bump_end in Ri. rewrite zsum_app in Ri. change (Alloc.zsum (@nil Z)) with 0. lia.
    - right. exists j.
      assert (Hj : In j (data_inos s)) by (rewrite E; apply in_or_app; right; right; left; reflexivity).
      assert (Hpj : bp_placed s j).
      { unfold data_inos in Hj. apply in_app_or in Hj. destruct Hj as [Hj|Hj].
        - apply ab_boot_order_in in Hj. apply (bp_entry_placed s HI HF j Hj).
        - apply ab_rest_order_in in Hj. destruct Hj as (H1 & H2 & _).
          split; [|exact H2]. destruct (in_dec Nat.eq_dec j (ids (linodes (bl s)))) as [H|H]; [exact H|].
          exfalso. apply H2, len_of_notin, H. }
      split; [exact Hpj|].
      assert (Hpre' : ~ In j (pre ++ [i])).
      { rewrite E in HN. replace (pre ++ i :: j :: rest) with ((pre ++ [i]) ++ j :: rest) in HN
          by (rewrite <- app_assoc; reflexivity).
        apply NoDup_remove_2 in HN. intros H. apply HN, in_or_app. left. exact H. }
      unfold rba_of at 1, ino_extent, placed. rewrite E.
      replace (pre ++ i :: j :: rest) with ((pre ++ [i]) ++ j :: rest) by (rewrite <- app_assoc; reflexivity).
      rewrite (bp_assoc_split (blk_of s) j (pre ++ [i]) rest _ Hpre'). cbn [fst].
      rewrite map_app, zsum_app. cbn [map]. rewrite zsum_cons. change (Alloc.zsum (@nil Z)) with 0. lia.
  Qed.

  (* a placed inode behind i starts behind i's blocks *)
  Lemma bp_behind i j : bp_placed s i -> bp_placed s j -> rba_of s i < rba_of s j ->
    rba_of s i + blk_of s i <= rba_of s j.
  Proof.
    intros Hi Hj Hlt. assert (Hne : i <> j) by (intros ->; lia).
    destruct (bp_rba_spec s i HI Hi) as (Ei & _ & Pi & _). destruct (bp_rba_spec s j HI Hj) as (Ej & _ & Pj & _).
    unfold ino_extent in Ei, Ej.
    destruct (assoc i (placed s)) as [vi|] eqn:Ai; [|discriminate].
    destruct (assoc j (placed s)) as [vj|] eqn:Aj; [|discriminate].
    unfold placed in Ai, Aj.
    pose proof (ab_assoc_disjoint (blk_of s) (fun x => ab_blk_nonneg s x HI) _ _ _ _ _ _ Hne Ai Aj) as D.
    destruct (ab_assoc_lower (blk_of s) (fun x => ab_blk_nonneg s x HI) _ _ _ _ Ai) as [_ Si].
    destruct (ab_assoc_lower (blk_of s) (fun x => ab_blk_nonneg s x HI) _ _ _ _ Aj) as [_ Sj].
    inversion Ei as [Fi]. inversion Ej as [Fj]. unfold disjoint in D. rewrite Fi, Fj, Si, Sj in D. rewrite ?Fi, ?Fj. clear - D Hlt Pi Pj. lia.
  Qed.

  (* the room, when [L] holds every placed inode *)
  Lemma bp_room_exact i L : bp_placed s i -> Forall (bp_placed s) L -> (forall j, bp_placed s j -> In j L) ->
    bp_min_above (rba_of s i) (map (rba_of s) L) (lspace (bl s)) = rba_of s i + blk_of s i.
  Proof.
    intros Hi HL Hcov. destruct (bp_rba_spec s i HI Hi) as (_ & _ & Pi & Hsp).
    apply bp_min_above_spec; [lia|exact Hsp| |].
    - intros e He Hlt. apply in_map_iff in He. destruct He as (j & <- & Hj). rewrite Forall_forall in HL.
      apply bp_behind; [exact Hi|apply HL, Hj|exact Hlt].
    - destruct (bp_next i Hi) as [H|(j & Hj & E)]; [right; symmetry; exact H|left].
      rewrite <- E. apply in_map, Hcov, Hj.
  Qed.

  (* the length of a boot file without directory record, current code *)
  Lemma bp_newlen_cur b known i sc : bboot s = Some b -> In i (binos b) -> Forall (bp_placed s) known ->
    (forall j, bp_placed s j -> 0 < lrefcount j (lroot (bl s)) -> In j known) ->
    bp_newlen Cur s (binos b) known i sc =
    if mem i (bbits s) && (64 <=? len_of i (linodes (bl s))) then len_of i (linodes (bl s)) else blk_of s i * C.
  Proof.
    intros Hb Hi Hk Hcov.
    assert (Hent : forall j, In j (binos b) -> bp_placed s j).
    { intros j Hj. apply (bp_entry_placed s HI HF). rewrite Hb. cbn [erefs]. apply ab_count_pos, Hj. }
    pose proof (Hent i Hi) as Hp. destruct (bp_rba_spec s i HI Hp) as (_ & _ & Pi & _).
    pose proof (bp_len_nonneg s i HI) as Hn.
    unfold bp_newlen. cbn [bp_others]. rewrite <- map_app.
    rewrite (bp_room_exact i (known ++ binos b) Hp).
    - replace ((rba_of s i + blk_of s i - rba_of s i) * C) with (blk_of s i * C) by lia.
      assert (Hle : len_of i (linodes (bl s)) <= blk_of s i * C) by (unfold blk_of, ceiling_div, C in *; lia).
      destruct (mem i (bbits s) && (64 <=? len_of i (linodes (bl s)))); unfold bp_fit; cbn [bp_extend negb andb].
      + destruct ((0 <? blk_of s i * C) && (blk_of s i * C <? len_of i (linodes (bl s)))) eqn:E; [lia|reflexivity].
      + destruct ((0 <? blk_of s i * C) && (blk_of s i * C <? sc * 512)) eqn:E; [reflexivity|].
        destruct (sc * 512 <? blk_of s i * C) eqn:E2; [reflexivity|]. unfold C in *. lia.
    - apply Forall_app. split; [exact Hk|]. apply Forall_forall. exact Hent.
    - intros j Hj. apply in_or_app. destruct (bi_live s HI) as (_ & HL & _). destruct Hj as [Hj1 Hj2].
      specialize (HL j Hj1). destruct (Z_lt_le_dec 0 (lrefcount j (lroot (bl s)))) as [Hr|Hr].
      + left. apply Hcov; [split; assumption|exact Hr].
      + right. rewrite Hb in HL. cbn [erefs] in HL. apply ab_count_pos. lia.
  Qed.
End Room.
