(* MasterRR, part 8: the independent reader on the image of a well-formed state (or on any larger image whose
   chunks do not overlap).
     mrr_info_kid     the Rock Ridge data of a record below a directory: name, mode, links, target as given
     mrr_read_node    a directory and everything below it
     mrr_read_root    SP / PX / ER of the root's first record *)
From Coq Require Import ZArith List Bool Lia ZifyBool.
From PV.Base Require Import Prim.
From PV.Gen Require Import GenConst GenFun.
From PV.Model Require Import Codec Pack PathTable RREntries RRWalk RRPlace.
From PV.Model Require Master Account LongNames.
From PV.Model Require Import AccountRR MasterRR.
From PV.Proofs Require Import CodecProofs PackProofs PathTableLemmas PathTableProofs MasterPack MasterImage MasterBfs.
From PV.Proofs Require Import RRPlaceProofs MasterRRWalk MasterRRRec MasterRRBlock MasterRRTree MasterRRLayout MasterRRDir
                              MasterRRImage.
Import ListNotations.
Local Open Scope Z_scope.

Fixpoint mrr_view_kids (L : mrr_lay) (p : list nat) (j : nat) (l : list rnode) : list vnode :=
  match l with
  | [] => []
  | c :: r => mrr_vnode L (p ++ [j]) c :: mrr_view_kids L p (S j) r
  end.

Lemma mrr_vnode_dir L p m dl kids :
  mrr_vnode L p (RDir m dl kids) =
  VDir (m_name m) (m_rr m) DIR_MODE (mrr_links (RDir m dl kids)) (Master.ms_ext_at (l_DB L) p) dl
       (mrr_view_kids L p 0 kids).
Proof.
  cbn [mrr_vnode]. f_equal. generalize 0%nat. induction kids as [|c r IH]; intros j; [reflexivity|].
  cbn [mrr_view_kids]. rewrite <- IH. reflexivity.
Qed.

Lemma mrr_pad_tail (bd : list Z) : (length (repeat 0%Z (Z.to_nat (zlen bd mod 2)%Z)) < 4)%nat.
Proof. rewrite repeat_length. pose proof (Z.mod_pos_bound (zlen bd) 2). lia. Qed.

Section Read.
  Variable dt : list Z.
  Variable s : rstate.
  Hypothesis Hdt : length dt = 7%nat.
  Hypothesis Hwf : mrr_wf dt s = true.
  Variable img' : Master.image.
  Hypothesis Hok : ms_img_ok img'.
  Hypothesis Hincl : incl (mrr_img dt s) img'.

  Local Notation t := (r_root s).
  Local Notation v := (r_ver s).
  Local Notation L := (mrr_layout s).
  Local Notation DB := (l_DB L).
  Local Notation ws := (mrr_writes v dt t L).
  Local Notation rd := (fun x => pad_sysuse (mrr_drec v dt x)).

  (* the reader on one record, given where its continuation area can be read *)
  Lemma mrr_info_good x len : mrr_good dt s x len ->
    (forall r bc, place (mrr_pin v dt x) = Some r -> is_some (ce_record (pl_dr r)) = true ->
       record_list v (map (mrr_patch x) (entries_list (pl_ce r))) = Some bc ->
       exists blk, Master.ms_get_block img' (rs_bl x) = Some blk /\
                   firstn (Z.to_nat (pl_celen r)) (skipn (Z.to_nat (rs_off x)) blk) = bc) ->
    exists a, mrr_su_read mrr_hops img' (sysuse (rd x)) racc0 = Some a /\
      LongNames.nm_join (ra_nm a) = rs_rr x /\ ra_px a = Some (rs_mode x, rs_links x) /\
      LongNames.sl_reassemble (ra_sl a) = rs_target x /\
      ra_sp a = (if rs_first x then Some 0 else None) /\
      ra_er a = (if rs_first x then Some (er_id (er_of v)) else None).
  Proof.
    intros G Hblk. pose proof G as (r0 & P0 & _ & Hm & Hl & Hb & Ho & C0 & C1 & _).
    destruct (mrr_good_enc dt s Hdt x len G) as (r & b & bd & bc & Hpl & _ & Ed & Ec & Hz & Es & _).
    rewrite Hpl in P0. injection P0 as <-.
    assert (Hcel : u32_ok (pl_celen r) = true) by (unfold u32_ok, BS in *; lia).
    cbn [pad_sysuse sysuse]. rewrite Es.
    apply (mrr_su_reads v dt x r Hpl Hm Hl Hb Ho Hcel img' _ bd bc Ed Ec (mrr_pad_tail bd)).
    intros Hs. destruct (Hblk r bc Hpl Hs Ec) as (blk & E1 & E2). exists blk. split; [exact E1|]. split; [exact C1|exact E2].
  Qed.

  Lemma mrr_info_kid p m dl kids j c : mrr_node_at t p = Some (RDir m dl kids) -> nth_error kids j = Some c ->
    mrr_rec_info img' 0 (rd (mrr_kid_spec t L (p ++ [j]) c)) =
    Some (m_rr (meta_of c), mrr_mode c, mrr_links c, m_target (meta_of c)).
  Proof.
    intros Hp Hj. set (x := mrr_kid_spec t L (p ++ [j]) c).
    destruct (mrr_kid_place dt s Hdt Hwf p m dl kids j c Hp Hj) as (Hc & _ & r & Hpl & _ & Hce).
    assert (Hq : p ++ [j] <> []) by (destruct p; discriminate).
    destruct (mrr_info_good x _ (mrr_kid_good dt s Hdt Hwf p m dl kids j c Hp Hj)) as (a & Ea & A1 & A2 & A3 & _).
    { intros r' bc Hpl' Hs Ec. fold x in Hpl. rewrite Hpl in Hpl'. injection Hpl' as <-.
      destruct (m_ce (meta_of c)) as [[[i off] len]|] eqn:Ek; [|congruence].
      destruct Hce as (_ & -> & H0 & H1).
      assert (Ebl : rs_bl x = mrr_ce_ext t L i /\ rs_off x = off).
      { unfold x. destruct c; cbn [mrr_kid_spec rs_bl rs_off meta_of] in *; unfold mrr_ce_of; rewrite Ek; split; reflexivity. }
      destruct Ebl as [-> ->].
      exists (mrr_block ws (mrr_ce_ext t L i)). split.
      - apply (mrr_read_block dt s Hdt Hwf img' Hok Hincl).
        exact (mrr_ce_ext_in dt s Hwf (p ++ [j]) c (i, off, pl_celen r) Hc Ek).
      - destruct (mrr_cw_good dt s Hdt x _ (mrr_kid_good dt s Hdt Hwf p m dl kids j c Hp Hj))
          as (r2 & bc2 & Hpl2 & Ec2 & Ecw & Hz & _).
        fold x in Hpl2. rewrite Hpl in Hpl2. injection Hpl2 as <-. rewrite Ec in Ec2. injection Ec2 as <-.
        rewrite Hs in Ecw. rewrite <- (Hz Hs).
        apply (mrr_kid_w_read dt s Hdt Hwf (p ++ [j]) c i off (pl_celen r) bc Hc Hq); [|exact Ek].
        fold x. rewrite Ecw. left.
        unfold x. destruct c; cbn [mrr_kid_spec rs_bl rs_off meta_of] in *; unfold mrr_ce_of; rewrite Ek; reflexivity. }
    unfold mrr_rec_info. cbn [Z.to_nat skipn]. rewrite Ea, A2, A1, A3.
    unfold x. destruct c; reflexivity.
  Qed.

  Lemma mrr_rd_fields x : Master.ms_rec_is_dir (rd x) = flag_set (rs_fl x) 1 /\ extent (rd x) = rs_ext x /\
    data_len (rd x) = rs_len x /\ Codec.ident (rd x) = rs_nm x.
  Proof. repeat split. Qed.

  Lemma mrr_scan_dir p m dl kids : mrr_node_at t p = Some (RDir m dl kids) ->
    exists data, Master.ms_img_read img' (Master.ms_ext_at DB p) dl = Some data /\
      Master.ms_scan (S (length data)) data 0 =
      Some (rd (mrr_dot_spec s p dl) :: rd (mk_rspec false [1] [] [] DIR_MODE (mrr_links_at t (removelast p))
                (Master.ms_ext_at DB (removelast p)) (mrr_dlen_at t (removelast p)) 2 0 0)
            :: map rd (mrr_kid_specs t L p 0 kids)).
  Proof.
    intros Hp. eexists. split; [exact (mrr_read_chunk dt s Hdt Hwf img' Hok Hincl p m dl kids Hp)|].
    destruct (mrr_chunk_facts dt s Hdt Hwf p m dl kids Hp) as (_ & _ & _ & _ & _ & Sc). rewrite Sc.
    unfold mrr_dir_specs. rewrite Hp. reflexivity.
  Qed.

  (* ---- a directory and everything below ------------------------------------------------------------------- *)
  Theorem mrr_read_node : forall f p m dl kids, mrr_node_at t p = Some (RDir m dl kids) ->
    (mrr_height (RDir m dl kids) <= f)%nat ->
    mrr_read_dir f img' 0 (Master.ms_ext_at DB p) dl = Some (mrr_view_kids L p 0 kids).
  Proof.
    induction f as [|f IH]; intros p m dl kids Hp Hh; [cbn [mrr_height] in Hh; lia|].
    destruct (mrr_scan_dir p m dl kids Hp) as (data & Er & Es).
    cbn [mrr_read_dir]. rewrite Er, Es. cbn [skipn].
    assert (G : forall kids' j0, (forall i c, nth_error kids' i = Some c -> nth_error kids (j0 + i) = Some c) ->
              mrr_read_kids (mrr_read_dir f img' 0) img' 0 (map rd (mrr_kid_specs t L p j0 kids')) =
              Some (mrr_view_kids L p j0 kids')).
    { induction kids' as [|c kids' IHk]; intros j0 Hsub; [reflexivity|].
      cbn [mrr_kid_specs map mrr_read_kids mrr_view_kids].
      assert (Hj : nth_error kids j0 = Some c) by (specialize (Hsub 0%nat c eq_refl); rewrite Nat.add_0_r in Hsub; exact Hsub).
      rewrite (mrr_info_kid p m dl kids j0 c Hp Hj).
      rewrite IHk by (intros i c' Hi; specialize (Hsub (S i) c' Hi); replace (S j0 + i)%nat with (j0 + S i)%nat by lia; exact Hsub).
      destruct (mrr_rd_fields (mrr_kid_spec t L (p ++ [j0]) c)) as (F1 & F2 & F3 & F4). cbv beta in F1, F2, F3, F4.
      rewrite F1, F2, F3, F4.
      destruct c as [cm len|cm cdl ckids].
      - reflexivity.
      - assert (Hc : mrr_node_at t (p ++ [j0]) = Some (RDir cm cdl ckids))
          by (rewrite (mrr_node_at_snoc p j0 t _ Hp); exact Hj).
        pose proof (mrr_height_kid m dl kids j0 _ Hj) as Hk.
        cbn [mrr_kid_spec rs_fl rs_ext rs_len rs_nm meta_of]. change (flag_set 2 1) with true. cbv iota.
        rewrite (IH (p ++ [j0]) cm cdl ckids Hc) by lia.
        rewrite mrr_vnode_dir. reflexivity. }
    apply (G kids 0%nat). intros i c Hi. exact Hi.
  Qed.

  (* ---- the root ---------------------------------------------------------------------------------------------- *)
  Lemma mrr_root_ext : Master.ms_ext_at DB [] = mrr_start s.
  Proof.
    rewrite mrr_l_DB. destruct (mrr_dtree _ t) as [nm bl ks]. rewrite bfs_unfold. reflexivity.
  Qed.

  Lemma mrr_root_dot_ce m dl kids : t = RDir m dl kids ->
    exists r, place (mrr_pin v dt (mrr_dot_spec s [] dl)) = Some r /\ is_some (ce_record (pl_dr r)) = true.
  Proof.
    intros Et. destruct (mrr_wf_root dt s Hwf) as (Hv & _).
    pose proof (mrr_dot_ok v dt true [0] Hdt Hv (or_introl eq_refl)) as Hck. unfold mrr_dot_check in Hck.
    change (mk_pin v true [] DIR_MODE None false false false 0 (Account.dr_len_of [0]) [dt; dt; dt])
      with (mrr_pin v dt (mrr_dot_spec s [] dl)) in Hck.
    destruct (place (mrr_pin v dt (mrr_dot_spec s [] dl))) as [r|]; [|discriminate Hck]. exists r. split; [reflexivity|].
    repeat (apply andb_prop in Hck; destruct Hck as [Hck ?]).
    destruct (is_some (ce_record (pl_dr r))); [reflexivity|discriminate].
  Qed.

  Theorem mrr_read_root m dl kids : t = RDir m dl kids ->
    exists a, mrr_su_read mrr_hops img' (sysuse (rd (mrr_dot_spec s [] dl))) racc0 = Some a /\
      ra_sp a = Some 0 /\ ra_px a = Some (DIR_MODE, mrr_links t) /\ ra_er a = Some (er_id (er_of v)).
  Proof.
    intros Et. assert (Hp : mrr_node_at t [] = Some (RDir m dl kids)) by (rewrite Et; reflexivity).
    pose proof (mrr_dot_good dt s Hdt Hwf [] m dl kids Hp) as G. fold (mrr_dot_spec s [] dl) in G.
    destruct (mrr_info_good _ _ G) as (a & Ea & _ & A2 & _ & A4 & A5).
    { intros r bc Hpl Hs Ec. exists (mrr_block ws (l_er L)). split.
      - apply (mrr_read_block dt s Hdt Hwf img' Hok Hincl). apply mrr_er_in.
      - destruct (mrr_cw_good dt s Hdt _ _ G) as (r2 & bc2 & Hpl2 & Ec2 & Ecw & Hz & _).
        rewrite Hpl in Hpl2. injection Hpl2 as <-. rewrite Ec in Ec2. injection Ec2 as <-.
        rewrite Hs in Ecw. rewrite <- (Hz Hs).
        apply (mrr_root_w_read dt s Hdt Hwf m dl kids bc Et). rewrite Ecw. left. reflexivity. }
    exists a. split; [exact Ea|]. cbn [mrr_dot_spec rs_first rs_mode rs_links] in A2, A4, A5.
    split; [exact A4|]. split; [|exact A5]. rewrite A2. unfold mrr_links_at. rewrite Hp, Et. reflexivity.
  Qed.
End Read.

Print Assumptions mrr_read_node.
Print Assumptions mrr_read_root.
