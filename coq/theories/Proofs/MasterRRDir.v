(* MasterRR, part 6: the records of one directory of a well-formed state.
     mrr_good_enc      a record whose placement succeeds and whose fields are in range: the recorder succeeds, the
                       record is new_dr_len bytes, Codec decodes it back (System Use field + pad)
     mrr_kid_good / mrr_dot_good / mrr_dotdot_good   that holds for every record of every directory
     mrr_dir_good      all records of a directory; their lengths are the ones Pack's invariant was stated for
     mrr_chunk_facts   a directory extent is data_length bytes, whole blocks, and scans back to its records
     mrr_master_some   master_rr does not fail *)
From Coq Require Import ZArith List Bool Lia ZifyBool.
From PV.Base Require Import Prim.
From PV.Gen Require Import GenConst GenFun.
From PV.Model Require Import Codec Pack PathTable RREntries RRWalk RRPlace.
From PV.Model Require Master Account LongNames.
From PV.Model Require Import AccountRR MasterRR.
From PV.Proofs Require Import CodecProofs PackProofs PathTableLemmas PathTableProofs MasterPack MasterImage MasterBfs.
From PV.Proofs Require AccountRRPlace.
From PV.Proofs Require Import RRPlaceProofs MasterRRWalk MasterRRRec MasterRRTree MasterRRLayout.
Import ListNotations.
Local Open Scope Z_scope.
Ltac Zify.zify_post_hook ::= Z.to_euclidean_division_equations.

(* ---- '.' and '..' ------------------------------------------------------------------------------------- *)
Definition mrr_dot_check (v : rrv) (dt : list Z) (first : bool) (nm : list Z) : bool :=
  match place (mk_pin v first [] DIR_MODE None false false false 0 (Account.dr_len_of nm) [dt; dt; dt]) with
  | Some r => (new_dr_len_of r =? dot_len v first) && Bool.eqb (is_some (ce_record (pl_dr r))) first &&
              (0 <=? pl_celen r) && (pl_celen r <=? BS)
  | None => false
  end.

Lemma mrr_dot_ok v dt first nm : length dt = 7%nat -> v <> V_unset -> nm = [0] \/ nm = [1] ->
  mrr_dot_check v dt first nm = true.
Proof.
  intros Hdt Hv Hn.
  destruct dt as [|a0 [|a1 [|a2 [|a3 [|a4 [|a5 [|a6 [|a7 dt]]]]]]]]; try discriminate Hdt.
  destruct v; [congruence|..]; destruct first; destruct Hn as [-> | ->]; vm_compute; reflexivity.
Qed.

Lemma mrr_su_place_celen i r : place i = Some r -> 0 <= p_dr_len i ->
  0 <= pl_celen r /\ (is_some (ce_record (pl_dr r)) = false -> pl_celen r = 0).
Proof.
  intros H H0. split; [exact (proj2 (AccountRRPlace.arr_place_len i r H H0))|].
  destruct (place_pass i r H H0) as (hc & ws & nm_d & nm_c & sl_d & sl_c & F & _).
  rewrite (f_dr _ _ _ _ _ _ _ _ _ F). cbn [side_entries ce_record]. destruct hc; [discriminate|].
  intros _. exact (proj1 (proj2 (proj2 (proj2 (f_noce _ _ _ _ _ _ _ _ _ F eq_refl))))).
Qed.

Section Dir.
  Variable dt : list Z.
  Variable s : rstate.
  Hypothesis Hdt : length dt = 7%nat.
  Hypothesis Hwf : mrr_wf dt s = true.

  Local Notation t := (r_root s).
  Local Notation v := (r_ver s).
  Local Notation L := (mrr_layout s).
  Local Notation DB := (l_DB L).
  Local Notation st := (mrr_start s).

  (* placement succeeds with record length [len]; every packed field is in range *)
  Definition mrr_good (x : rspec) (len : Z) : Prop :=
    exists r, place (mrr_pin v dt x) = Some r /\ new_dr_len_of r = len /\
      u32_ok (rs_mode x) = true /\ u32_ok (rs_links x) = true /\ u32_ok (rs_bl x) = true /\
      u32_ok (rs_off x) = true /\ 0 <= pl_celen r /\ rs_off x + pl_celen r <= BS /\
      u32 (rs_ext x) /\ u32 (rs_len x) /\ byte (rs_fl x).

  Lemma mrr_drec_len x bd : sysuse (mrr_drec v dt x) = bd ->
    Codec.dr_len_of (mrr_drec v dt x) =
    (Account.dr_len_of (rs_nm x) + zlen bd) + (Account.dr_len_of (rs_nm x) + zlen bd) mod 2.
  Proof.
    intros E. unfold Codec.dr_len_of. rewrite E. cbn [Codec.ident mrr_drec].
    unfold Account.dr_len_of, fmt_dr_size. pose proof (zlen_nonneg (rs_nm x)). pose proof (zlen_nonneg bd).
    cbv zeta. lia.
  Qed.

  Theorem mrr_good_enc x len : mrr_good x len ->
    exists r b bd bc, place (mrr_pin v dt x) = Some r /\
      mrr_su v dt x = Some (bd, if is_some (ce_record (pl_dr r)) then Some bc else None) /\
      record_list v (map (mrr_patch x) (entries_list (pl_dr r))) = Some bd /\
      record_list v (map (mrr_patch x) (entries_list (pl_ce r))) = Some bc /\
      (is_some (ce_record (pl_dr r)) = true -> zlen bc = pl_celen r) /\
      sysuse (mrr_drec v dt x) = bd /\
      Account.dr_len_of (rs_nm x) + zlen bd = pl_len r /\
      enc_dr (mrr_drec v dt x) = Some b /\ zlen b = len /\ 34 <= len <= 254 /\
      ms_good (pad_sysuse (mrr_drec v dt x)) b /\ mrr_spec_ok v dt x = true.
  Proof.
    intros (r & Hpl & Hlen & Hm & Hl & Hb & Ho & C0 & C1 & Xe & Xl & Xf).
    assert (Hcel : u32_ok (pl_celen r) = true) by (unfold u32_ok, BS in *; lia).
    destruct (mrr_su_facts v dt x r Hpl Hm Hl Hb Ho Hcel) as (bd & bc & Ed & Ec & Esu & F1 & F2 & F3 & F4 & F5 & _).
    assert (Es : sysuse (mrr_drec v dt x) = bd) by (unfold mrr_drec, mrr_su_get; rewrite Esu; reflexivity).
    pose proof (mrr_drec_len x bd Es) as Hdl. rewrite F1 in Hdl. fold (new_dr_len_of r) in Hdl.
    assert (Hfit : exists b, enc_dr (mrr_drec v dt x) = Some b).
    { apply dr_fits. split; [rewrite Hdl; lia|].
      unfold fields_ok, byte, u16. cbn [mrr_drec xattr_len extent data_len flags unit_size gap_size seqnum].
      unfold u32, byte in *. lia. }
    destruct Hfit as [b Eb]. destruct (dr_len_value _ b Eb) as [Z1 Z2]. rewrite Hdl in Z1, Z2.
    assert (Hw : wf_drec (mrr_drec v dt x)) by (split; [exact Hdt|left; reflexivity]).
    assert (Hge : 34 <= Account.dr_len_of (rs_nm x))
      by (unfold Account.dr_len_of; pose proof (zlen_nonneg (rs_nm x)); cbv zeta; lia).
    pose proof (zlen_nonneg bd).
    exists r, b, bd, bc. split; [exact Hpl|]. split; [exact Esu|]. split; [exact Ed|]. split; [exact Ec|].
    split; [exact F5|]. split; [exact Es|]. split; [exact F1|]. split; [exact Eb|]. split; [lia|]. split; [lia|].
    split.
    - split; [intros rest; apply (dr_roundtrip _ Hw b rest Eb)|]. split; [congruence|rewrite ms_BS; lia].
    - unfold mrr_spec_ok, Master.ms_enc_ok. rewrite Esu, Eb. reflexivity.
  Qed.

  (* ---- the three kinds of records ----------------------------------------------------------------------- *)
  Lemma mrr_er_u32 : u32_ok (l_er L) = true /\ 0 <= st.
  Proof.
    destruct (mrr_er_bounds dt s Hwf) as (A & B & D). pose proof (mrr_start_nonneg dt s Hwf).
    unfold u32_ok. lia.
  Qed.

  Lemma mrr_dext_u32 q n : mrr_node_at t q = Some n -> u32 (Master.ms_ext_at DB q).
  Proof.
    intros H. destruct (mrr_ext_spec dt s Hwf q n H) as (r & _ & _ & He & Hb & B1 & B2 & B3).
    destruct mrr_er_u32 as [A B]. pose proof (mrr_flag_range (map snd (l_fu L)) (meta_of n)).
    unfold u32, u32_ok in *. rewrite He. rewrite mrr_l_fu in H0. lia.
  Qed.

  Lemma mrr_links_u32 q n : mrr_node_at t q = Some n -> u32_ok (mrr_links n) = true.
  Proof.
    intros H. destruct (mrr_wf_at dt s Hwf q n H) as [b Hw]. destruct b as [|f]; [discriminate|].
    cbn [mrr_wf_node] in Hw. apply andb_prop in Hw. destruct Hw as [Hw _]. apply andb_prop in Hw.
    destruct Hw as [_ Hl]. unfold u32_ok. pose proof (zlen_nonneg (filter r_is_dir (rkids n))).
    destruct n; cbn [mrr_links rkids] in *; lia.
  Qed.

  Lemma mrr_dir_dl q m dl kids : mrr_node_at t q = Some (RDir m dl kids) ->
    dl mod BS = 0 /\ BS <= dl <= 4294967295 /\
    Invb BS (rst_of v (mrr_is_root q) dl (rlens kids)) = true.
  Proof.
    intros H. destruct (mrr_wf_at dt s Hwf q _ H) as [b Hw]. destruct b as [|f]; [discriminate|].
    cbn [mrr_wf_node] in Hw. apply andb_prop in Hw. destruct Hw as [_ Hw].
    apply andb_prop in Hw. destruct Hw as [Hw _]. apply andb_prop in Hw. destruct Hw as [Hi Hd].
    destruct (mrr_invb_ge _ _ _ _ Hi) as [A B]. split; [exact A|]. split; [lia|exact Hi].
  Qed.

  (* what the bookkeeping check of a record gives *)
  Lemma mrr_kid_place p m dl kids j c : mrr_node_at t p = Some (RDir m dl kids) -> nth_error kids j = Some c ->
    mrr_node_at t (p ++ [j]) = Some c /\ mrr_name_ok (m_name (meta_of c)) = true /\
    exists r, place (mrr_pin v dt (mrr_kid_spec t L (p ++ [j]) c)) = Some r /\
      m_rlen (meta_of c) = new_dr_len_of r /\
      match m_ce (meta_of c) with
      | Some (_, off, len) => is_some (ce_record (pl_dr r)) = true /\ len = pl_celen r /\ 0 <= off /\ off + len <= BS
      | None => is_some (ce_record (pl_dr r)) = false
      end.
  Proof.
    intros Hp Hj. assert (Hc : mrr_node_at t (p ++ [j]) = Some c) by (rewrite (mrr_node_at_snoc p j t _ Hp); exact Hj).
    split; [exact Hc|]. destruct (mrr_wf_at dt s Hwf _ c Hc) as [b Hw]. destruct b as [|f]; [discriminate|].
    replace (mrr_is_root (p ++ [j])) with false in Hw by (destruct p; reflexivity).
    cbn [mrr_wf_node orb] in Hw. apply andb_prop in Hw. destruct Hw as [Hw _]. apply andb_prop in Hw.
    destruct Hw as [Hm _]. unfold mrr_meta_ok in Hm. apply andb_prop in Hm. destruct Hm as [Hn Hm].
    split; [exact Hn|].
    assert (Epin : mrr_pin v dt (mrr_kid_spec t L (p ++ [j]) c) = mrr_pin v dt (mrr_spec0 c)) by (destruct c; reflexivity).
    rewrite Epin. destruct (place (mrr_pin v dt (mrr_spec0 c))) as [r|]; [|discriminate Hm].
    apply andb_prop in Hm. destruct Hm as [Hr Hce]. exists r. split; [reflexivity|]. split; [lia|].
    destruct (m_ce (meta_of c)) as [[[i off] len]|].
    - repeat (apply andb_prop in Hce; destruct Hce as [Hce ?]). repeat split; try lia. exact Hce.
    - destruct (is_some (ce_record (pl_dr r))); [discriminate Hce|reflexivity].
  Qed.

  Lemma mrr_kid_good p m dl kids j c : mrr_node_at t p = Some (RDir m dl kids) -> nth_error kids j = Some c ->
    mrr_good (mrr_kid_spec t L (p ++ [j]) c) (m_rlen (meta_of c)).
  Proof.
    intros Hp Hj. destruct (mrr_kid_place p m dl kids j c Hp Hj) as (Hc & Hn & r & Hpl & Hr & Hce).
    exists r. split; [exact Hpl|]. split; [symmetry; exact Hr|].
    pose proof (mrr_links_u32 _ c Hc) as Hlk. pose proof (mrr_dext_u32 _ c Hc) as Hext.
    unfold mrr_name_ok in Hn.
    assert (Hbo : u32_ok (fst (mrr_ce_of t L (meta_of c))) = true /\ u32_ok (snd (mrr_ce_of t L (meta_of c))) = true /\
                  0 <= pl_celen r /\ snd (mrr_ce_of t L (meta_of c)) + pl_celen r <= BS).
    { unfold mrr_ce_of. destruct (m_ce (meta_of c)) as [[[i off] len]|] eqn:Ek.
      - destruct Hce as (_ & -> & H0 & H1). cbn [fst snd].
        pose proof (mrr_ce_range dt s Hwf _ c _ Hc Ek) as R. cbn [mrr_key_id fst] in R.
        destruct (mrr_er_bounds dt s Hwf) as (A & B & D). pose proof (mrr_start_nonneg dt s Hwf).
        destruct (mrr_su_place_celen _ r Hpl (mrr_drlen_nonneg _ r)) as [Z0 _]. unfold u32_ok, BS in *. lia.
      - cbn [fst snd]. destruct (mrr_su_place_celen _ r Hpl (mrr_drlen_nonneg _ r)) as [Z0 Z1]. rewrite (Z1 Hce).
        unfold BS. repeat split; lia. }
    destruct Hbo as (B1 & B2 & B3 & B4).
    destruct c as [cm len|cm cdl ckids]; cbn [mrr_kid_spec meta_of rs_mode rs_links rs_bl rs_off rs_ext rs_len rs_fl rs_nm].
    - destruct (mrr_wf_at dt s Hwf _ _ Hc) as [b Hw]. destruct b as [|f]; [discriminate|].
      cbn [mrr_wf_node] in Hw. apply andb_prop in Hw. destruct Hw as [_ Hw].
      assert (Hlen : 0 <= len <= Account.max_len) by lia.
      pose proof (mrr_fext_range dt s Hwf _ cm len Hc (proj1 Hlen)) as Hf.
      split; [cbn [mrr_mode]; destruct (m_ino cm); reflexivity|]. split; [reflexivity|].
      split; [exact B1|]. split; [exact B2|]. split; [exact B3|]. split; [exact B4|].
      unfold u32, byte, Account.max_len in *. cbn [meta_of] in Hn. repeat split; lia.
    - destruct (mrr_dir_dl _ cm cdl ckids Hc) as (_ & Hd & _).
      split; [reflexivity|]. split; [exact Hlk|].
      split; [exact B1|]. split; [exact B2|]. split; [exact B3|]. split; [exact B4|].
      unfold u32, byte, BS in *. cbn [meta_of] in Hn. repeat split; lia.
  Qed.

  Lemma mrr_dot_good p m dl kids : mrr_node_at t p = Some (RDir m dl kids) ->
    mrr_good (mk_rspec (mrr_is_root p) [0] [] [] DIR_MODE (mrr_links_at t p) (Master.ms_ext_at DB p) dl 2
                       (if mrr_is_root p then l_er L else 0) 0) (dot_len v (mrr_is_root p)).
  Proof.
    intros Hp. destruct (mrr_wf_root dt s Hwf) as (Hv & _).
    pose proof (mrr_dot_ok v dt (mrr_is_root p) [0] Hdt Hv (or_introl eq_refl)) as Hck. unfold mrr_dot_check in Hck.
    set (x := mk_rspec (mrr_is_root p) [0] [] [] DIR_MODE (mrr_links_at t p) (Master.ms_ext_at DB p) dl 2
                       (if mrr_is_root p then l_er L else 0) 0).
    change (mk_pin v (mrr_is_root p) [] DIR_MODE None false false false 0 (Account.dr_len_of [0]) [dt; dt; dt])
      with (mrr_pin v dt x) in Hck.
    unfold mrr_good. destruct (place (mrr_pin v dt x)) as [r|]; [|discriminate Hck]. exists r. split; [reflexivity|].
    unfold x.
    repeat (apply andb_prop in Hck; destruct Hck as [Hck ?]).
    destruct (mrr_dir_dl _ _ _ _ Hp) as (_ & Hd & _). pose proof (mrr_dext_u32 _ _ Hp) as He.
    destruct mrr_er_u32 as [A B].
    cbn [rs_mode rs_links rs_bl rs_off rs_ext rs_len rs_fl rs_nm]. split; [lia|]. split; [reflexivity|].
    split; [unfold mrr_links_at; rewrite Hp; exact (mrr_links_u32 _ _ Hp)|].
    split; [destruct (mrr_is_root p); [exact A|reflexivity]|]. split; [reflexivity|].
    unfold u32, byte, BS in *. repeat split; lia.
  Qed.

  Lemma mrr_dotdot_good p m dl kids : mrr_node_at t p = Some (RDir m dl kids) ->
    mrr_good (mk_rspec false [1] [] [] DIR_MODE (mrr_links_at t (removelast p))
                       (Master.ms_ext_at DB (removelast p)) (mrr_dlen_at t (removelast p)) 2 0 0) (dotdot_len v).
  Proof.
    intros Hp. destruct (mrr_wf_root dt s Hwf) as (Hv & _).
    destruct (mrr_parent_dir t p _ (mrr_root_is_dir dt s Hwf) Hp) as (m' & dl' & kids' & Hpp).
    pose proof (mrr_dot_ok v dt false [1] Hdt Hv (or_intror eq_refl)) as Hck. unfold mrr_dot_check in Hck.
    set (x := mk_rspec false [1] [] [] DIR_MODE (mrr_links_at t (removelast p))
                       (Master.ms_ext_at DB (removelast p)) (mrr_dlen_at t (removelast p)) 2 0 0).
    change (mk_pin v false [] DIR_MODE None false false false 0 (Account.dr_len_of [1]) [dt; dt; dt])
      with (mrr_pin v dt x) in Hck.
    unfold mrr_good. destruct (place (mrr_pin v dt x)) as [r|]; [|discriminate Hck]. exists r. split; [reflexivity|].
    unfold x.
    repeat (apply andb_prop in Hck; destruct Hck as [Hck ?]).
    destruct (mrr_dir_dl _ _ _ _ Hpp) as (_ & Hd & _). pose proof (mrr_dext_u32 _ _ Hpp) as He.
    cbn [rs_mode rs_links rs_bl rs_off rs_ext rs_len rs_fl rs_nm].
    split; [change (dotdot_len v) with (dot_len v false); lia|]. split; [reflexivity|].
    split; [unfold mrr_links_at; rewrite Hpp; exact (mrr_links_u32 _ _ Hpp)|].
    split; [reflexivity|]. split; [reflexivity|].
    unfold mrr_dlen_at. rewrite Hpp. unfold u32, byte, BS in *. repeat split; lia.
  Qed.

  (* ---- all records of a directory ------------------------------------------------------------------------ *)
  Local Notation enc := (fun x => Master.ms_enc (mrr_drec v dt x)).
  Local Notation rd := (fun x => pad_sysuse (mrr_drec v dt x)).

  Lemma mrr_good_one x len : mrr_good x len ->
    ms_good (rd x) (enc x) /\ zlen (enc x) = len /\ mrr_spec_ok v dt x = true.
  Proof.
    intros G. destruct (mrr_good_enc x len G) as (r & b & bd & bc & _ & _ & _ & _ & _ & _ & _ & Eb & Z & _ & Hg & Hok).
    unfold Master.ms_enc. rewrite Eb. auto.
  Qed.

  Lemma mrr_kid_specs_good p m dl kids : mrr_node_at t p = Some (RDir m dl kids) ->
    forall kids' j0, (forall i c, nth_error kids' i = Some c -> nth_error kids (j0 + i) = Some c) ->
    Forall2 ms_good (map rd (mrr_kid_specs t L p j0 kids')) (map enc (mrr_kid_specs t L p j0 kids')) /\
    map zlen (map enc (mrr_kid_specs t L p j0 kids')) = rlens kids' /\
    forallb (mrr_spec_ok v dt) (mrr_kid_specs t L p j0 kids') = true.
  Proof.
    intros Hp. induction kids' as [|c kids' IH]; intros j0 Hsub.
    - cbn. repeat split. constructor.
    - cbn [mrr_kid_specs map forallb rlens].
      assert (Hj : nth_error kids j0 = Some c) by (specialize (Hsub 0%nat c eq_refl); rewrite Nat.add_0_r in Hsub; exact Hsub).
      destruct (mrr_good_one _ _ (mrr_kid_good p m dl kids j0 c Hp Hj)) as (G1 & G2 & G3).
      destruct (IH (S j0)) as (I1 & I2 & I3).
      { intros i c' Hi. specialize (Hsub (S i) c' Hi). replace (S j0 + i)%nat with (j0 + S i)%nat by lia. exact Hsub. }
      split; [constructor; assumption|]. split; [rewrite G2; f_equal; exact I2|]. rewrite G3. exact I3.
  Qed.

  Theorem mrr_dir_good p m dl kids : mrr_node_at t p = Some (RDir m dl kids) ->
    let xs := mrr_dir_specs t L p in
    Forall2 ms_good (map rd xs) (map enc xs) /\
    map zlen (map enc xs) = recs (rst_of v (mrr_is_root p) dl (rlens kids)) /\
    forallb (mrr_spec_ok v dt) xs = true.
  Proof.
    intros Hp xs. unfold xs, mrr_dir_specs. rewrite Hp.
    destruct (mrr_good_one _ _ (mrr_dot_good p m dl kids Hp)) as (A1 & A2 & A3).
    destruct (mrr_good_one _ _ (mrr_dotdot_good p m dl kids Hp)) as (B1 & B2 & B3).
    destruct (mrr_kid_specs_good p m dl kids Hp kids 0%nat) as (I1 & I2 & I3); [intros i c Hi; exact Hi|].
    cbn [map forallb rst_of recs]. split; [constructor; [exact A1|constructor; [exact B1|exact I1]]|].
    split; [rewrite A2, B2, I2; reflexivity|]. rewrite A3, B3. exact I3.
  Qed.

  (* ---- the chunk of a directory ----------------------------------------------------------------------------- *)
  Local Notation chunk := (mrr_dir_chunk v dt t L).

  Theorem mrr_chunk_facts p m dl kids : mrr_node_at t p = Some (RDir m dl kids) ->
    fst (chunk p) = Master.ms_ext_at DB p /\ zlen (snd (chunk p)) = dl /\ dl mod BS = 0 /\ BS <= dl /\
    ms_cblocks (chunk p) = mrr_dblocks (RDir m dl kids) /\
    Master.ms_scan (S (length (snd (chunk p)))) (snd (chunk p)) 0 = Some (map rd (mrr_dir_specs t L p)).
  Proof.
    intros Hp. destruct (mrr_dir_good p m dl kids Hp) as (HG & HL & _).
    destruct (mrr_dir_dl p m dl kids Hp) as (Hm & Hr & Hi).
    unfold mrr_dir_chunk. cbn [fst snd]. unfold mrr_dlen_at. rewrite Hp.
    unfold Invb in Hi. cbn [rst_of recs dlen] in Hi, HL. apply andb_prop in Hi. destruct Hi as [_ Hn]. rewrite <- HL in Hn.
    change BS with Master.BS in Hn, Hm.
    assert (Hsz : Forall (fun b => zlen b <= Master.BS) (map enc (mrr_dir_specs t L p))).
    { clear -HG. induction HG as [|r b rs bs (_ & _ & Hl) _ IH]; constructor; [lia|exact IH]. }
    pose proof (ms_dir_bytes_len dl _ Hsz ltac:(lia)) as Hlen.
    split; [reflexivity|]. split; [exact Hlen|]. split; [exact Hm|]. split; [lia|]. split.
    - unfold ms_cblocks. cbn [snd mrr_dblocks]. rewrite Hlen. unfold ceiling_div. rewrite ms_BS in *. unfold BS. lia.
    - apply ms_scan_dir; [exact HG|exact Hm|lia].
  Qed.

  (* ---- master_rr does not fail -------------------------------------------------------------------------------- *)
  Lemma mrr_is_dir_node p : mrr_is_dir_at t p = true -> exists m dl kids, mrr_node_at t p = Some (RDir m dl kids).
  Proof.
    unfold mrr_is_dir_at. destruct (mrr_node_at t p) as [[m l|m dl kids]|]; try discriminate.
    intros _. exists m, dl, kids. reflexivity.
  Qed.
  Lemma mrr_positions_dir p : In p (mrr_dir_positions t) -> mrr_is_dir_at t p = true.
  Proof. unfold mrr_dir_positions. intros H. apply filter_In in H. exact (proj2 H). Qed.
  Lemma mrr_positions_complete p : mrr_is_dir_at t p = true -> In p (mrr_dir_positions t).
  Proof.
    intros H. unfold mrr_dir_positions. apply filter_In. split; [|exact H].
    destruct (mrr_is_dir_node p H) as (m & dl & kids & Hp). exact (mrr_order_complete s p _ Hp).
  Qed.

  Theorem mrr_master_some : master_rr dt s =
    Some (map chunk (mrr_dir_positions t) ++
          map (fun e => (e, mrr_block (mrr_writes v dt t L) e)) (mrr_block_exts t L)).
  Proof.
    unfold master_rr. cbv zeta.
    replace (forallb _ (mrr_dir_positions t)) with true; [reflexivity|].
    symmetry. apply forallb_forall. intros p Hp.
    destruct (mrr_is_dir_node p (mrr_positions_dir p Hp)) as (m & dl & kids & Hn).
    exact (proj2 (proj2 (mrr_dir_good p m dl kids Hn))).
  Qed.
End Dir.

Print Assumptions mrr_good_enc.
Print Assumptions mrr_dir_good.
Print Assumptions mrr_chunk_facts.
Print Assumptions mrr_master_some.
